(* C04: the monitor of the whole stack accepts every run of the composition of the three models. *)
From SC Require Import Lib.Prelude Lib.Int Lib.Host Model.Rwa Model.RwaCompliance Model.RwaIdentity
  Run.C04Compliance Run.C04Identity Run.C04Token Run.C04Stack
  Proofs.RwaCompliance Proofs.RwaIdentity Proofs.Rwa Proofs.C04Monitor.

(* ------------------------------------------------------------------ *)
(* compliance side of a token call                                      *)
Lemma asked_all deny ms : all_approve deny ms = true -> asked deny ms = ms.
Proof.
  induction ms as [|m r IH]; cbn [all_approve forallb asked]; auto.
  intros H. apply andb_prop in H. destruct H as [H1 H2]. apply negb_true_iff in H1. rewrite H1.
  f_equal. apply IH. exact H2.
Qed.

Definition ev_log (tok : addr) (deny : list addr) (cst : cstate) (e : cev) : list (addr * mev) :=
  match e with
  | QCanTransfer f t a => map (fun m => (m, MCanTransfer f t a tok)) (asked deny (mods cst HCanTransfer))
  | QCanCreate t a => map (fun m => (m, MCanCreate t a tok)) (asked deny (mods cst HCanCreate))
  | NTransferred f t a => map (fun m => (m, MOnTransfer f t a tok)) (mods cst HTransferred)
  | NCreated t a => map (fun m => (m, MOnCreated t a tok)) (mods cst HCreated)
  | NDestroyed f a => map (fun m => (m, MOnDestroyed f a tok)) (mods cst HDestroyed)
  | CBadToken => []
  end.
Definition is_note (e : cev) : bool :=
  match e with NTransferred _ _ _ | NCreated _ _ | NDestroyed _ _ => true | _ => false end.

(* the modules a question / notification of the token reaches *)
Definition ev_mods (deny : list addr) (cst : cstate) (e : cev) : list addr :=
  match e with
  | QCanTransfer _ _ _ => asked deny (mods cst HCanTransfer)
  | QCanCreate _ _ => asked deny (mods cst HCanCreate)
  | NTransferred _ _ _ => mods cst HTransferred
  | NCreated _ _ => mods cst HCreated
  | NDestroyed _ _ => mods cst HDestroyed
  | CBadToken => []
  end.

Lemma hook_notify_spec fail tok h e cst cst' :
  hook_notify fail [tok] h e tok cst = Ok cst' ->
  mem tok (bound cst) = true /\ mods cst' = mods cst /\ bound cst' = bound cst /\
  mlog cst' = mlog cst ++ map (fun m => (m, e)) (mods cst h) /\
  any_fail fail (mods cst h) = false.
Proof.
  intros H. apply hook_notify_ok in H. destruct H as (_ & B & F & ->).
  destruct (notify_all_spec (mods cst h) e cst) as (A1 & A2 & A3). auto.
Qed.
Lemma ask_feed_spec fail deny ms e cst cst' :
  (do bs <- ask_all_f fail deny ms e cst; Ok (snd bs)) = Ok cst' ->
  any_fail fail (asked deny ms) = false /\ cst' = snd (ask_all deny ms e cst).
Proof.
  rewrite ask_all_f_eq. destruct (any_fail fail (asked deny ms)); cbn [bind]; [discriminate|].
  intros H. injection H as <-. auto.
Qed.

Lemma feed_spec tok fail deny l : forall cst cst',
  feed tok fail deny l cst = Ok cst' ->
  mods cst' = mods cst /\ bound cst' = bound cst /\
  mlog cst' = mlog cst ++ flat_map (ev_log tok deny cst) l /\
  (existsb is_note l = true -> mem tok (bound cst) = true) /\
  (forall e, In e l -> any_fail fail (ev_mods deny cst e) = false).
Proof.
  induction l as [|e r IH]; intros cst cst' H; cbn [feed] in H.
  - injection H as <-. cbn. rewrite app_nil_r. repeat split; auto. discriminate. intros e [].
  - destruct (feed_event tok fail deny e cst) as [c1|] eqn:E; cbn [bind] in H; [|discriminate].
    destruct (IH c1 cst' H) as (M & B & L & N & AL).
    assert (X : mods c1 = mods cst /\ bound c1 = bound cst /\ mlog c1 = mlog cst ++ ev_log tok deny cst e /\
                (is_note e = true -> mem tok (bound cst) = true) /\
                any_fail fail (ev_mods deny cst e) = false).
    { destruct e; cbn [feed_event ev_log is_note ev_mods] in *.
      - apply ask_feed_spec in E. destruct E as (F & ->).
        destruct (ask_all_spec deny (mods cst HCanTransfer) (MCanTransfer from to amt tok) cst) as (_ & A & B' & C).
        repeat split; auto. discriminate.
      - apply ask_feed_spec in E. destruct E as (F & ->).
        destruct (ask_all_spec deny (mods cst HCanCreate) (MCanCreate to amt tok) cst) as (_ & A & B' & C).
        repeat split; auto. discriminate.
      - apply hook_notify_spec in E. destruct E as (A & B' & C & D & F). auto.
      - apply hook_notify_spec in E. destruct E as (A & B' & C & D & F). auto.
      - apply hook_notify_spec in E. destruct E as (A & B' & C & D & F). auto.
      - discriminate. }
    destruct X as (M1 & B1 & L1 & N1 & F1).
    assert (EV : forall e', ev_log tok deny c1 e' = ev_log tok deny cst e').
    { intros e'. destruct e'; cbn [ev_log]; rewrite ?M1; reflexivity. }
    assert (EM : forall e', ev_mods deny c1 e' = ev_mods deny cst e').
    { intros e'. destruct e'; cbn [ev_mods]; rewrite ?M1; reflexivity. }
    repeat split.
    + congruence.
    + congruence.
    + rewrite L, L1, <- app_assoc. cbn [flat_map]. f_equal. f_equal.
      apply flat_map_ext. exact EV.
    + cbn [existsb]. intros Q. apply orb_prop in Q. destruct Q as [Q|Q]; auto.
      rewrite <- B1. apply N. exact Q.
    + intros e' [<-|He']; auto. rewrite <- EM. apply AL. exact He'.
Qed.

(* ------------------------------------------------------------------ *)
(* the answers computed by the other two models                         *)
Lemma answer_spec fail deny ms e cst :
  answer (ask_all_f fail deny ms e cst) = negb (any_fail fail (asked deny ms)) && all_approve deny ms.
Proof.
  rewrite ask_all_f_eq. destruct (any_fail fail (asked deny ms)); cbn [answer negb andb]; auto.
  destruct (ask_all deny ms e cst) as [b c1] eqn:E.
  pose proof (ask_all_spec deny ms e cst) as (A & _). rewrite E in A. exact A.
Qed.
(* an approval = every registered module approves and none of them fails *)
Lemma answer_true fail deny ms e cst :
  answer (ask_all_f fail deny ms e cst) = true -> all_approve deny ms = true /\ any_fail fail ms = false.
Proof.
  rewrite answer_spec. intros H. apply andb_prop in H. destruct H as [H1 H2]. split; auto.
  rewrite (asked_all _ _ H2) in H1. apply negb_true_iff in H1. exact H1.
Qed.
Lemma orc_transfer univ cst fail deny w :
  o_can_transfer (orc_of univ cst fail deny w) = true ->
  all_approve deny (mods cst HCanTransfer) = true /\ any_fail fail (mods cst HCanTransfer) = false.
Proof. unfold orc_of. cbn [o_can_transfer]. apply answer_true. Qed.
Lemma orc_create univ cst fail deny w :
  o_can_create (orc_of univ cst fail deny w) = true ->
  all_approve deny (mods cst HCanCreate) = true /\ any_fail fail (mods cst HCanCreate) = false.
Proof. unfold orc_of. cbn [o_can_create]. apply answer_true. Qed.
Lemma orc_verified univ cst fail deny w a :
  idv_ok (orc_of univ cst fail deny w) a = true -> verified w a = true.
Proof.
  unfold idv_ok, orc_of. cbn [o_verified]. intros H. apply existsb_exists in H. destruct H as (x & Hx & E).
  apply N.eqb_eq in E. subst x. apply filter_In in Hx. destruct Hx as [_ Hx]. rewrite verify_iff in Hx. exact Hx.
Qed.

Ltac ands := repeat match goal with H : (_ && _) = true |- _ => apply andb_prop in H; destruct H end.

Lemma sgates_of_gates lk la la' prev cur univ cst fail deny w pc o au r :
  (forall h, mods_of pc h = mods cst h) ->
  gates_ok lk la la' prev cur (mkCall o au (fun _ => orc_of univ cst fail deny w)) r = true ->
  sgates_ok lk la la' w deny pc prev o au r = true.
Proof.
  intros Hm G. unfold gates_ok, sgates_ok, gates_transfer, gates_mint, gates_recover, st_gate in *.
  cbn [c_op c_auths c_orc] in G.
  change (eff_obs prev (mkCall o au (fun _ => orc_of univ cst fail deny w))) with
    (mkOracle (o_verified (orc_of univ cst fail deny w)) (o_can_transfer (orc_of univ cst fail deny w))
              (o_can_create (orc_of univ cst fail deny w)) (o_recovery (orc_of univ cst fail deny w))) in G.
  change (idv_ok (mkOracle (o_verified (orc_of univ cst fail deny w)) (o_can_transfer (orc_of univ cst fail deny w))
              (o_can_create (orc_of univ cst fail deny w)) (o_recovery (orc_of univ cst fail deny w))))
    with (idv_ok (orc_of univ cst fail deny w)) in G.
  cbn [o_can_transfer o_can_create] in G.
  destruct o; auto.
  - ands. rewrite Hm. match goal with H : o_can_transfer _ = true |- _ => apply orc_transfer in H; destruct H as [H _]; rewrite H end.
    repeat (apply andb_true_intro; split); auto; eapply orc_verified; eauto.
  - ands. rewrite Hm. match goal with H : o_can_transfer _ = true |- _ => apply orc_transfer in H; destruct H as [H _]; rewrite H end.
    repeat (apply andb_true_intro; split); auto; eapply orc_verified; eauto.
  - ands. rewrite Hm. match goal with H : o_can_create _ = true |- _ => apply orc_create in H; destruct H as [H _]; rewrite H end.
    repeat (apply andb_true_intro; split); auto; eapply orc_verified; eauto.
  - destruct r as [moved|]; [|discriminate]. ands.
    repeat (apply andb_true_intro; split); auto. eapply orc_verified; eauto.
Qed.

(* the gate answers of the compliance model, out of the token monitor's gate clause *)
Lemma approvals_of_gates lk la la' prev cur univ cst fail deny w o au r :
  gates_ok lk la la' prev cur (mkCall o au (fun _ => orc_of univ cst fail deny w)) r = true ->
  match o with
  | Transfer _ _ _ | TransferFrom _ _ _ _ =>
      all_approve deny (mods cst HCanTransfer) = true /\ any_fail fail (mods cst HCanTransfer) = false
  | Mint _ _ _ => all_approve deny (mods cst HCanCreate) = true /\ any_fail fail (mods cst HCanCreate) = false
  | _ => True
  end.
Proof.
  intros G. unfold gates_ok, gates_transfer, gates_mint in G. cbn [c_op c_auths c_orc] in G.
  change (eff_obs prev (mkCall o au (fun _ => orc_of univ cst fail deny w))) with
    (mkOracle (o_verified (orc_of univ cst fail deny w)) (o_can_transfer (orc_of univ cst fail deny w))
              (o_can_create (orc_of univ cst fail deny w)) (o_recovery (orc_of univ cst fail deny w))) in G.
  cbn [o_can_transfer o_can_create] in G.
  destruct o; auto; ands.
  - match goal with H : o_can_transfer _ = true |- _ => apply orc_transfer in H; exact H end.
  - match goal with H : o_can_transfer _ = true |- _ => apply orc_transfer in H; exact H end.
  - match goal with H : o_can_create _ = true |- _ => apply orc_create in H; exact H end.
Qed.

(* ------------------------------------------------------------------ *)
Lemma CInv_ext cf c c' : mods c' = mods c -> bound c' = bound c -> CInv cf c -> CInv cf c'.
Proof. unfold CInv. intros -> ->. auto. Qed.

Lemma shape_ok cf univ tok s c :
  Inv s -> CInv cf c ->
  (length (ob_accts (strip (observe univ s))) =? length univ)%nat && inv_ok (strip (observe univ s))
  && cinv_ok cf (cobserve [tok] c) && (length (co_bound (cobserve [tok] c)) =? 1)%nat = true.
Proof.
  intros HI HC.
  replace (inv_ok (strip (observe univ s))) with (inv_ok (observe univ s)) by reflexivity.
  rewrite (inv_ok_model univ s HI), (cinv_ok_model cf [tok] c HC).
  cbn [strip observe ob_accts cobserve co_bound map length]. rewrite map_length, Nat.eqb_refl. reflexivity.
Qed.

Lemma tok_unchanged_clear univ s :
  tok_unchanged (strip (observe univ s)) (strip (observe univ (clear_logs s))) = true.
Proof.
  unfold tok_unchanged, strip, observe. cbn.
  rewrite (eqb_list_refl _ eqb_acct_refl), (eqb_list_refl _ Z.eqb_refl), Z.eqb_refl, !Bool.eqb_reflx, !eqb_oaddr_refl. reflexivity.
Qed.

Lemma cmp_unchanged_ext tok c c' :
  mods c' = mods c -> bound c' = bound c -> cmp_unchanged (cobserve [tok] c) (cobserve [tok] c') = true.
Proof.
  intros M B. unfold cmp_unchanged, cobserve. cbn [co_mods co_bound]. rewrite M, B.
  rewrite (eqb_list_refl _ eqb_addrs_refl), (eqb_list_refl _ Bool.eqb_reflx). reflexivity.
Qed.

Lemma bound_look_self tok c : bound_look [tok] (cobserve [tok] c) tok = Some (mem tok (bound c)).
Proof. unfold bound_look, cobserve. cbn. rewrite N.eqb_refl. reflexivity. Qed.

(* the frame clauses of a token call that fails as a whole *)
Lemma stok_frames_fail univ s o au X :
  wf_call univ (mkCall o au X) = true ->
  wf_call univ (mkCall o au X)
  && links_ok (strip (observe univ s)) (strip (observe univ (clear_logs s))) (mkCall o au X) false
  && allow_ok (mkCall o au X) false (pairs univ) (ob_allow (strip (observe univ s))) (ob_allow (strip (observe univ (clear_logs s))))
  && (ob_supply (strip (observe univ (clear_logs s))) =? supply_after (strip (observe univ s)) (mkCall o au X) false) = true.
Proof.
  intros Hwf. rewrite Hwf. cbn [andb].
  assert (L : links_ok (strip (observe univ s)) (strip (observe univ (clear_logs s))) (mkCall o au X) false = true).
  { unfold links_ok, links_after. cbn. destruct o; cbn; rewrite !eqb_oaddr_refl; reflexivity. }
  rewrite L. cbn [andb].
  unfold strip, observe. cbn [ob_allow ob_supply supply clear_logs supply_after].
  rewrite Z.eqb_refl, andb_true_r.
  apply (allow_ok_model (mkCall o au X) false s (clear_logs s)). intros pr. unfold allow_after. apply Z.eqb_refl.
Qed.

(* these clauses only look at the operation of the call *)
Lemma links_ok_op p q c c' ok : c_op c = c_op c' -> links_ok p q c ok = links_ok p q c' ok.
Proof. unfold links_ok, links_after. intros ->. reflexivity. Qed.
Lemma allow_ok_op c c' ok prs : c_op c = c_op c' -> forall ps qs, allow_ok c ok prs ps qs = allow_ok c' ok prs ps qs.
Proof.
  intros E. induction prs as [|pr r IH]; intros ps qs; destruct ps, qs; cbn [allow_ok]; auto.
  rewrite IH. unfold allow_after. rewrite E. reflexivity.
Qed.
Lemma supply_after_op p c c' ok : c_op c = c_op c' -> supply_after p c ok = supply_after p c' ok.
Proof. unfold supply_after. intros ->. reflexivity. Qed.

(* ... and of one that succeeds in the token model *)
Lemma stok_frames hc univ s o au X Y s' out :
  wf_call univ (mkCall o au Y) = true ->
  step hc s (mkCall o au X) = (s', out) ->
  wf_call univ (mkCall o au Y)
  && links_ok (strip (observe univ s)) (strip (observe univ s')) (mkCall o au Y) (is_ok out)
  && allow_ok (mkCall o au Y) (is_ok out) (pairs univ) (ob_allow (strip (observe univ s))) (ob_allow (strip (observe univ s')))
  && (ob_supply (strip (observe univ s')) =? supply_after (strip (observe univ s)) (mkCall o au Y) (is_ok out)) = true.
Proof.
  intros Hwf Hs. rewrite Hwf. cbn [andb].
  rewrite (links_ok_op _ _ (mkCall o au Y) (mkCall o au X) _ eq_refl).
  rewrite (allow_ok_op (mkCall o au Y) (mkCall o au X) _ _ eq_refl).
  rewrite (supply_after_op _ (mkCall o au Y) (mkCall o au X) _ eq_refl).
  pose proof (links_ok_model hc univ (strip (observe univ s)) s _ s' out eq_refl eq_refl Hs) as L.
  unfold links_ok in *. cbn [strip observe ob_cmp_at ob_idv_at] in *. rewrite L. cbn [andb].
  pose proof (supply_model hc s _ s' out (strip (observe univ s)) eq_refl Hs) as S.
  cbn [strip observe ob_supply ob_allow] in *. rewrite S, andb_true_r.
  apply (allow_ok_model _ (is_ok out) s s'). intros pr. apply (allow_after_model hc s _ s' out pr Hs).
Qed.

(* a failing token call in the stack *)
Lemma stok_fail cf univ tok s cst o au deny fail w :
  Inv s -> CInv cf cst ->
  wf_call univ (mkCall o au (fun _ => mkOracle [] false false (w_recovered w))) = true ->
  smon_step cf univ tok (sobserve univ tok (mkSS s cst))
    (SI (STokF o au deny fail w) Fail (sobserve univ tok (mkSS (clear_logs s) (cclear cst)))) = true.
Proof.
  intros HI HC Hwf. unfold smon_step, sobserve. cbn [so_tok so_cmp si_obs si_call si_out ss_tok ss_cmp is_ok].
  rewrite (shape_ok cf univ tok (clear_logs s) (cclear cst) HI HC). cbn [andb].
  rewrite (stok_frames_fail univ s o au _ Hwf). cbn [andb].
  rewrite (cmp_unchanged_ext tok cst (cclear cst) eq_refl eq_refl). cbn [andb].
  unfold strip, observe. cbn.
  rewrite (eqb_list_refl _ eqb_acct_refl), Bool.eqb_reflx. reflexivity.
Qed.

Lemma eqb_entries_refl l : eqb_list eqb_entry l l = true.
Proof. apply eqb_list_refl. apply eqb_entry_refl. Qed.

(* a successful token call in the stack *)
Lemma stok_ok hc cf univ tok s cst o au deny fail w s1 r c1 :
  Inv s -> CInv cf cst ->
  wf_call univ (mkCall o au (fun _ => mkOracle [] false false (w_recovered w))) = true ->
  step hc s (mkCall o au (fun _ => orc_of univ (cclear cst) fail deny w)) = (s1, Ok r) ->
  feed tok fail deny (cmp_log s1) (cclear cst) = Ok c1 ->
  smon_step cf univ tok (sobserve univ tok (mkSS s cst))
    (SI (STokF o au deny fail w) (Ok r) (sobserve univ tok (mkSS s1 c1))) = true.
Proof.
  intros HI HC Hwf Hs Hf.
  pose proof (stok_frames hc univ s o au _ _ s1 (Ok r) Hwf Hs) as FR.
  set (c0 := mkCall o au (fun _ => orc_of univ (cclear cst) fail deny w)) in *.
  assert (HI1 : Inv s1).
  { pose proof (step_preserves_Inv hc s c0 HI) as P. rewrite Hs in P. exact P. }
  destruct (feed_spec tok fail deny _ _ _ Hf) as (FM & FB & FL & FN & FA).
  cbn [mods bound mlog cclear] in FM, FB, FL, FN.
  assert (HC1 : CInv cf c1) by (apply (CInv_ext cf cst c1 FM FB HC)).
  destruct (step_logs hc s c0 s1 (Ok r) HI Hs) as [Hlog _].
  pose proof Hs as Hx. apply step_ok in Hx.
  assert (HS : sound_lk (clear_logs s) (fun a => look a (combine univ (map (acct_of s) univ)))).
  { intros a v L. apply look_sound in L. exact L. }
  assert (HA : sound_la (clear_logs s) (fun o sp => look2 o sp (combine (pairs univ) (map (allow_of s) (pairs univ))))).
  { intros o' sp v L. apply look2_sound in L. exact L. }
  assert (HA' : sound_la s1 (fun o sp => look2 o sp (combine (pairs univ) (map (allow_of s1) (pairs univ))))).
  { intros o' sp v L. apply look2_sound in L. exact L. }
  destruct (exec_facts hc c0 (clear_logs s) r s1 _ _ _ (strip (observe univ s)) (observe univ s1)
              HI HS HA HA' eq_refl eq_refl eq_refl eq_refl eq_refl eq_refl eq_refl Hx) as (G & A & P & _).
  assert (Hm : forall h, mods_of (cobserve [tok] cst) h = mods (cclear cst) h).
  { intros h. rewrite mods_of_observe. reflexivity. }
  pose proof (sgates_of_gates _ _ _ _ _ univ (cclear cst) fail deny w (cobserve [tok] cst) o au r Hm G) as SG.
  pose proof (approvals_of_gates _ _ _ _ _ univ (cclear cst) fail deny w o au r G) as AP.
  assert (NF : none_fails fail (cobserve [tok] cst) o r = true).
  { unfold none_fails. rewrite Hlog in FA. unfold expected_cmp_log in FA. cbn [c_op c0] in FA.
    assert (Hm' : forall h, mods_of (cobserve [tok] cst) h = mods cst h) by (intros h; apply mods_of_observe).
    destruct o; cbn [hooks_of forallb]; rewrite ?Hm'; auto.
    - destruct AP as [_ AP]. cbn [mods cclear] in AP. rewrite AP.
      pose proof (FA (NTransferred from to amt) ltac:(cbn; auto)) as F1. cbn [ev_mods mods cclear] in F1. rewrite F1. reflexivity.
    - destruct AP as [_ AP]. cbn [mods cclear] in AP. rewrite AP.
      pose proof (FA (NTransferred from to amt) ltac:(cbn; auto)) as F1. cbn [ev_mods mods cclear] in F1. rewrite F1. reflexivity.
    - destruct AP as [_ AP]. cbn [mods cclear] in AP. rewrite AP.
      pose proof (FA (NCreated to amt) ltac:(cbn; auto)) as F1. cbn [ev_mods mods cclear] in F1. rewrite F1. reflexivity.
    - pose proof (FA (NDestroyed a amt) ltac:(cbn; auto)) as F1. cbn [ev_mods mods cclear] in F1. rewrite F1. reflexivity.
    - pose proof (FA (NTransferred from to amt) ltac:(cbn; auto)) as F1. cbn [ev_mods mods cclear] in F1. rewrite F1. reflexivity.
    - destruct (recover_step hc s c0 old new operator s1 r HI eq_refl Hs) as (_ & _ & -> & _).
      destruct (bal s old =? 0) eqn:Z0; cbn [negb hooks_of forallb]; auto.
      rewrite ?Hm'. pose proof (FA (NTransferred old new (bal s old)) ltac:(cbn; auto)) as F1.
      cbn [ev_mods mods cclear] in F1. rewrite F1. reflexivity. }
  unfold smon_step, sobserve. cbn [so_tok so_cmp si_obs si_call si_out ss_tok ss_cmp is_ok].
  rewrite (shape_ok cf univ tok s1 c1 HI1 HC1). cbn [andb].
  cbn [is_ok] in FR. rewrite FR. cbn [andb].
  rewrite (cmp_unchanged_ext tok cst c1 FM FB). cbn [andb].
  cbn [strip observe ob_accts ob_allow ob_paused].
  replace (sgates_ok _ _ _ w deny (cobserve [tok] cst) _ o au r) with true by (symmetry; exact SG).
  rewrite NF.
  cbn [andb].
  rewrite (accts_ok_model _ (mkCall o au (fun _ => mkOracle [] false false (w_recovered w))) r s s1 A univ). cbn [andb].
  replace (Bool.eqb (paused s1) (paused_after _ _)) with true
    by (symmetry; rewrite P; apply Bool.eqb_reflx).
  cbn [andb].
  rewrite bound_look_self. cbn [co_log cobserve]. rewrite FL. cbn [app].
  rewrite Hlog in FN. rewrite Hlog.
  unfold expected_cmp_log, expected_mlog, notifies, sgates_ok in *. cbn [c_op c0] in *.
  assert (Hm' : forall h, mods (cclear cst) h = mods cst h) by reflexivity.
  destruct o; cbn [flat_map ev_log app existsb is_note orb] in *;
    rewrite ?app_nil_r, ?mods_of_observe, ?Hm'; try (rewrite eqb_entries_refl; reflexivity).
  - (* transfer *)
    ands. rewrite mods_of_observe in *. rewrite asked_all by assumption.
    rewrite (FN eq_refl), eqb_entries_refl. reflexivity.
  - (* transfer_from *)
    ands. rewrite mods_of_observe in *. rewrite asked_all by assumption.
    rewrite (FN eq_refl), eqb_entries_refl. reflexivity.
  - (* mint *)
    ands. rewrite mods_of_observe in *. rewrite asked_all by assumption.
    rewrite (FN eq_refl), eqb_entries_refl. reflexivity.
  - (* burn *)
    rewrite (FN eq_refl), eqb_entries_refl. reflexivity.
  - (* forced transfer *)
    rewrite (FN eq_refl), eqb_entries_refl. reflexivity.
  - (* recovery *)
    destruct (recover_step hc s c0 old new operator s1 r HI eq_refl Hs) as (_ & _ & -> & _).
    destruct (bal s old =? 0) eqn:Z0; cbn [negb flat_map ev_log app existsb is_note orb] in *.
    + reflexivity.
    + rewrite (FN eq_refl). cbn [andb]. rewrite ?app_nil_r, ?Hm'.
      destruct (look old (combine univ (map (acct_of s) univ))) as [[[bo fo] flo]|] eqn:L; [|reflexivity].
      apply look_sound in L. unfold acct_of in L. injection L as -> -> ->.
      apply eqb_entries_refl.
Qed.

(* one step of the composed model: accepted by the monitor, invariants preserved *)
Lemma smon_step_model hc cf univ tok s cst c ss' o :
  Inv s -> CInv cf cst -> swf univ tok c = true ->
  sstep hc cf univ tok (mkSS s cst) c = (ss', o) ->
  smon_step cf univ tok (sobserve univ tok (mkSS s cst)) (SI c o (sobserve univ tok ss')) = true /\
  Inv (ss_tok ss') /\ CInv cf (ss_cmp ss').
Proof.
  intros HI HC Hwf H. unfold sstep in H. cbn [ss_tok ss_cmp] in H.
  destruct c as [op au deny fail w|cc|]; cbn [swf] in Hwf.
  - destruct (step hc s (mkCall op au (fun _ => orc_of univ (cclear cst) fail deny w))) as [s1 out] eqn:Hs.
    destruct out as [r|].
    + destruct (feed tok fail deny (cmp_log s1) (cclear cst)) as [c1|] eqn:Hf.
      * injection H as <- <-. cbn [ss_tok ss_cmp]. split; [|split].
        { eapply stok_ok; eauto. }
        { pose proof (step_preserves_Inv hc s (mkCall op au (fun _ => orc_of univ (cclear cst) fail deny w)) HI) as P. rewrite Hs in P. exact P. }
        { destruct (feed_spec tok fail deny _ _ _ Hf) as (FM & FB & _). apply (CInv_ext cf cst c1 FM FB HC). }
      * injection H as <- <-. cbn [ss_tok ss_cmp]. split; [|split]; auto. apply stok_fail; auto.
    + injection H as <- <-. cbn [ss_tok ss_cmp]. split; [|split]; auto. apply stok_fail; auto.
  - destruct (cstep cf cst cc) as [c1 out] eqn:Hc. injection H as <- <-. cbn [ss_tok ss_cmp].
    assert (HC1 : CInv cf c1).
    { pose proof (cstep_preserves_CInv cf cst cc HC) as P. rewrite Hc in P. exact P. }
    split; [|split]; auto.
    unfold smon_step, sobserve. cbn [so_tok so_cmp si_obs si_call si_out ss_tok ss_cmp].
    rewrite (shape_ok cf univ tok (clear_logs s) c1 HI HC1). cbn [andb].
    rewrite tok_unchanged_clear, andb_true_r.
    apply (cmon_step_model cf [tok] (cobserve [tok] cst) cst cc c1 out HC eq_refl eq_refl Hwf Hc).
  - injection H as <- <-. cbn [ss_tok ss_cmp]. split; [|split]; auto.
    unfold smon_step, sobserve. cbn [so_tok so_cmp si_obs si_call si_out ss_tok ss_cmp].
    rewrite (shape_ok cf univ tok (clear_logs s) (cclear cst) HI HC). cbn [andb].
    rewrite tok_unchanged_clear, (cmp_unchanged_ext tok cst (cclear cst) eq_refl eq_refl). reflexivity.
Qed.

Lemma smon_model hc cf univ tok cs : forall s cst i,
  Inv s -> CInv cf cst -> forallb (swf univ tok) cs = true ->
  smon_from cf univ tok (sobserve univ tok (mkSS s cst)) (smodel_items hc cf univ tok (mkSS s cst) cs) i = 0%N.
Proof.
  induction cs as [|c cs IH]; intros s cst i HI HC Hwf; cbn [smodel_items smon_from]; auto.
  cbn [forallb] in Hwf. apply andb_prop in Hwf. destruct Hwf as [Hw1 Hw2].
  destruct (sstep hc cf univ tok (mkSS s cst) c) as [ss' o] eqn:Hs. cbn [smon_from].
  destruct (smon_step_model hc cf univ tok s cst c ss' o HI HC Hw1 Hs) as (M & I1 & C1).
  rewrite M. cbn [si_obs]. destruct ss' as [s' c']. apply IH; auto.
Qed.

Lemma eqb_sobs_refl x : eqb_sobs x x = true.
Proof. unfold eqb_sobs. rewrite eqb_obs_refl, eqb_cobs_refl. reflexivity. Qed.

Lemma sdiff_model hc cf univ tok cs : forall ss i,
  sdiff_from hc cf univ tok ss (smodel_items hc cf univ tok ss cs) i = 0%N.
Proof.
  induction cs as [|c cs IH]; intros ss i; cbn [smodel_items sdiff_from]; auto.
  destruct (sstep hc cf univ tok ss c) as [ss' o] eqn:Hs. cbn [sdiff_from si_call si_out si_obs]. rewrite Hs.
  rewrite eqb_out_refl, eqb_sobs_refl. cbn. apply IH.
Qed.

(* C04_stack_monitor_accepts_model *)
Theorem check_stack_accepts_model : forall (hc : hostcfg) (cf : ccfg) (univ : list addr) (tok : addr) (cs : list scall),
  0 <= max_modules cf -> forallb (swf univ tok) cs = true ->
  check_stack (sobserve_model hc cf univ tok cs) = (0%N, 0%N, 0%N).
Proof.
  intros hc cf univ tok cs H0 Hwf. unfold check_stack, sobserve_model. cbn [st_hc st_cf st_univ st_tok st_items].
  rewrite sdiff_model. unfold sinit. rewrite smon_model; auto.
  - exact Inv_init.
  - apply CInv_init. exact H0.
Qed.

(* THE COMPOSED GATE, as a theorem about the composition (any states satisfying the invariants,
   hence all reachable ones): a transfer / transfer_from that succeeds in the stack found both
   parties verified per the registry observed before the call, every module registered for
   CanTransfer approving, the token bound - and each registered module was asked / notified
   exactly once with the exact parties, amount and token *)
Theorem stack_gate : forall hc cf univ tok s cst o au deny fail w ss' r,
  Inv s -> CInv cf cst ->
  sstep hc cf univ tok (mkSS s cst) (STokF o au deny fail w) = (ss', Ok r) ->
  match o with
  | Transfer from to amt | TransferFrom _ from to amt =>
      paused s = false /\ aflag s from = false /\ aflag s to = false /\
      0 <= amt <= bal s from - frozen s from /\
      verified w from = true /\ verified w to = true /\
      (forall m, In m (mods cst HCanTransfer) -> ~ In m deny /\ ~ In m fail) /\
      (forall m, In m (mods cst HTransferred) -> ~ In m fail) /\
      In tok (bound cst) /\
      mlog (ss_cmp ss') = map (fun m => (m, MCanTransfer from to amt tok)) (mods cst HCanTransfer)
                          ++ map (fun m => (m, MOnTransfer from to amt tok)) (mods cst HTransferred)
  | Mint to amt _ =>
      0 <= amt /\ verified w to = true /\
      (forall m, In m (mods cst HCanCreate) -> ~ In m deny /\ ~ In m fail) /\
      (forall m, In m (mods cst HCreated) -> ~ In m fail) /\
      In tok (bound cst) /\
      mlog (ss_cmp ss') = map (fun m => (m, MCanCreate to amt tok)) (mods cst HCanCreate)
                          ++ map (fun m => (m, MOnCreated to amt tok)) (mods cst HCreated)
  | Burn a amt _ =>
      (forall m, In m (mods cst HDestroyed) -> ~ In m fail) /\ In tok (bound cst) /\
      mlog (ss_cmp ss') = map (fun m => (m, MOnDestroyed a amt tok)) (mods cst HDestroyed)
  | ForcedTransfer from to amt _ =>
      (forall m, In m (mods cst HTransferred) -> ~ In m fail) /\ In tok (bound cst) /\
      mlog (ss_cmp ss') = map (fun m => (m, MOnTransfer from to amt tok)) (mods cst HTransferred)
  | _ => True
  end.
Proof.
  intros hc cf univ tok s cst o au deny fail w ss' r HI HC H.
  unfold sstep in H. cbn [ss_tok ss_cmp] in H.
  destruct (step hc s (mkCall o au (fun _ => orc_of univ (cclear cst) fail deny w))) as [s1 out] eqn:Hs.
  destruct out as [r1|]; [|discriminate].
  destruct (feed tok fail deny (cmp_log s1) (cclear cst)) as [c1|] eqn:Hf; [|discriminate].
  injection H as <- <-. cbn [ss_cmp].
  pose proof (gates_thm hc s _ s1 r1 Hs) as G. cbn [c_op] in G.
  unfold eff_orc, idv_ok in G. cbn [c_orc o_verified o_can_transfer o_can_create] in G.
  change (fun a => existsb (N.eqb a) (o_verified (orc_of univ (cclear cst) fail deny w))) with (idv_ok (orc_of univ (cclear cst) fail deny w)) in G.
  destruct (step_logs hc s _ s1 (Ok r1) HI Hs) as [Hlog _].
  destruct (feed_spec tok fail deny _ _ _ Hf) as (_ & _ & FL & FN & FA).
  rewrite Hlog in FL, FN, FA. unfold expected_cmp_log in FL, FN, FA. cbn [c_op mlog cclear app mods bound] in FL, FN, FA.
  assert (Hall : forall l, all_approve deny l = true -> forall m, In m l -> ~ In m deny).
  { intros l Hl m Hm. unfold all_approve in Hl. rewrite forallb_forall in Hl. specialize (Hl m Hm).
    apply negb_true_iff in Hl. apply mem_false. exact Hl. }
  assert (Hnf : forall l, any_fail fail l = false -> forall m, In m l -> ~ In m fail).
  { intros l Hl. apply any_fail_false. exact Hl. }
  destruct o; auto.
  - destruct G as (A & B & C & D & E & F & K & _). apply orc_transfer in K. destruct K as [K KF]. cbn [mods cclear] in K, KF.
    cbn [flat_map ev_log app existsb is_note orb mods cclear] in FL, FN.
    rewrite asked_all, app_nil_r in FL by exact K.
    pose proof (FA (NTransferred from to amt) ltac:(cbn; auto)) as F1. cbn [ev_mods mods cclear] in F1.
    repeat split; auto; try lia; try (eapply orc_verified; eauto); try (apply (Hall _ K); assumption);
      try (apply (Hnf _ KF); assumption); try (apply (Hnf _ F1)); try (apply mem_In; apply FN; reflexivity).
  - destruct G as (A & B & C & D & E & F & K & _). apply orc_transfer in K. destruct K as [K KF]. cbn [mods cclear] in K, KF.
    cbn [flat_map ev_log app existsb is_note orb mods cclear] in FL, FN.
    rewrite asked_all, app_nil_r in FL by exact K.
    pose proof (FA (NTransferred from to amt) ltac:(cbn; auto)) as F1. cbn [ev_mods mods cclear] in F1.
    repeat split; auto; try lia; try (eapply orc_verified; eauto); try (apply (Hall _ K); assumption);
      try (apply (Hnf _ KF); assumption); try (apply (Hnf _ F1)); try (apply mem_In; apply FN; reflexivity).
  - destruct G as (A & E & K & _). apply orc_create in K. destruct K as [K KF]. cbn [mods cclear] in K, KF.
    cbn [flat_map ev_log app existsb is_note orb mods cclear] in FL, FN.
    rewrite asked_all, app_nil_r in FL by exact K.
    pose proof (FA (NCreated to amt) ltac:(cbn; auto)) as F1. cbn [ev_mods mods cclear] in F1.
    repeat split; auto; try (eapply orc_verified; eauto); try (apply (Hall _ K); assumption);
      try (apply (Hnf _ KF); assumption); try (apply (Hnf _ F1)); try (apply mem_In; apply FN; reflexivity).
  - cbn [flat_map ev_log app existsb is_note orb mods cclear] in FL, FN. rewrite app_nil_r in FL.
    pose proof (FA (NDestroyed a amt) ltac:(cbn; auto)) as F1. cbn [ev_mods mods cclear] in F1.
    repeat split; auto; try (apply (Hnf _ F1)); try (apply mem_In; apply FN; reflexivity).
  - cbn [flat_map ev_log app existsb is_note orb mods cclear] in FL, FN. rewrite app_nil_r in FL.
    pose proof (FA (NTransferred from to amt) ltac:(cbn; auto)) as F1. cbn [ev_mods mods cclear] in F1.
    repeat split; auto; try (apply (Hnf _ F1)); try (apply mem_In; apply FN; reflexivity).
Qed.
