(* C20 / claim topics and trusted issuers: the four storage keys refine two sets (topics,
   issuers) and ONE relation issuer -> topics, read in both directions. *)
From SC Require Import Lib.Prelude Model.SwapPop Model.RegCommon Model.RegCTI Run.C20 Proofs.C20Common.
From Coq Require Import Permutation PeanoNat.
Local Open Scope nat_scope.
Set Implicit Arguments.

(* ---- loops over a map key -> list, one entry touched per visited key ---- *)
Section FoldMap.
  Variable P : list N -> Prop.                      (* what is known about the visited entries *)
  Variable g : list N -> list N.                    (* what the loop body does to an entry *)
  Variable step : list (N * list N) -> N -> res (list (N * list N)).
  Hypothesis step_ok : forall m t l, aget N.eqb t m = Some l -> P l ->
    exists m', step m t = Ok m' /\ forall t', aget N.eqb t' m' = if N.eqb t' t then Some (g l) else aget N.eqb t' m.

  Lemma foldM_map_spec : forall ts m, NoDup ts ->
    (forall t, In t ts -> exists l, aget N.eqb t m = Some l /\ P l) ->
    exists r, foldM step ts m = Ok r /\
      forall t', aget N.eqb t' r = if memb N.eqb t' ts then option_map g (aget N.eqb t' m) else aget N.eqb t' m.
  Proof.
    induction ts as [|t ts IH]; intros m Hn Hall.
    - exists m. split; auto.
    - inversion Hn; subst. destruct (Hall t (or_introl eq_refl)) as [l [El Pl]].
      destruct (step_ok m t El Pl) as [m' [Es Hm']]. cbn [foldM]. rewrite Es. cbn [bind].
      destruct (IH m' H2) as [r [Er Hr]].
      { intros t0 Ht0. destruct (Hall t0 (or_intror Ht0)) as [l0 [E0 P0]]. exists l0. split; auto.
        rewrite Hm'. replace (N.eqb t0 t) with false; auto. symmetry. apply N.eqb_neq. intros ->. contradiction. }
      exists r. split; auto. intros t'. rewrite Hr, Hm'. cbn [memb].
      destruct (N.eqb t' t) eqn:E.
      + apply N.eqb_eq in E. subst t'. cbn [orb].
        replace (memb N.eqb t ts) with false by (symmetry; apply (memb_false N.eqb N.eqb_eq); auto).
        rewrite El. reflexivity.
      + cbn [orb]. reflexivity.
  Qed.
End FoldMap.

(* the two loop bodies of the model *)
Lemma step_push_ok (i : N) m t l : aget N.eqb t m = Some l -> True ->
  exists m', (do l0 <- of_option (ti_get m t); Ok (ti_set m t (l0 ++ [i]))) = Ok m'
             /\ forall t', aget N.eqb t' m' = if N.eqb t' t then Some (l ++ [i]) else aget N.eqb t' m.
Proof.
  intros El _. unfold ti_get, ti_set. rewrite El. cbn [of_option bind]. eexists. split; [reflexivity|].
  intros t'. apply (aget_aset N.eqb N.eqb_eq).
Qed.
Lemma step_drop_ok (i : N) m t l : aget N.eqb t m = Some l -> NoDup l ->
  exists m', (do l0 <- of_option (ti_get m t);
              Ok (match index_of N.eqb i l0 with Some j => ti_set m t (remove_at j l0) | None => m end)) = Ok m'
             /\ forall t', aget N.eqb t' m' = if N.eqb t' t then Some (rem N.eqb i l) else aget N.eqb t' m.
Proof.
  intros El Hn. unfold ti_get, ti_set. rewrite El. cbn [of_option bind]. eexists. split; [reflexivity|].
  intros t'. destruct (index_of N.eqb i l) as [j|] eqn:Ej.
  - rewrite (remove_at_index_of N.eqb N.eqb_eq i Hn Ej). apply (aget_aset N.eqb N.eqb_eq).
  - apply (index_of_None N.eqb N.eqb_eq) in Ej. rewrite (rem_notin N.eqb N.eqb_eq i l Ej).
    destruct (N.eqb t' t) eqn:E; auto. apply N.eqb_eq in E. subst. auto.
Qed.

(* the loop of remove_claim_topic over the trusted issuers *)
Lemma fold_forget_topic (t : N) : forall is m, NoDup is ->
  (forall i l, In i is -> aget N.eqb i m = Some l -> NoDup l) ->
  forall i, aget N.eqb i
    (fold_left (fun m iss => match it_get m iss with
                             | Some its => match index_of N.eqb t its with
                                           | Some j => it_set m iss (remove_at j its)
                                           | None => m
                                           end
                             | None => m
                             end) is m)
  = if memb N.eqb i is then option_map (rem N.eqb t) (aget N.eqb i m) else aget N.eqb i m.
Proof.
  induction is as [|x is IH]; intros m Hn Hnd i; [reflexivity|].
  inversion Hn; subst. cbn [fold_left memb].
  set (m' := match it_get m x with
             | Some its => match index_of N.eqb t its with Some j => it_set m x (remove_at j its) | None => m end
             | None => m end).
  assert (Hm' : forall k, aget N.eqb k m' = if N.eqb k x then option_map (rem N.eqb t) (aget N.eqb k m) else aget N.eqb k m).
  { intros k. unfold m', it_get, it_set. destruct (aget N.eqb x m) as [its|] eqn:Ex.
    - pose proof (Hnd x its (or_introl eq_refl) Ex) as Hni.
      destruct (index_of N.eqb t its) as [j|] eqn:Ej.
      + rewrite (remove_at_index_of N.eqb N.eqb_eq t Hni Ej), (aget_aset N.eqb N.eqb_eq).
        destruct (N.eqb k x) eqn:E; auto. apply N.eqb_eq in E. subst. rewrite Ex. reflexivity.
      + apply (index_of_None N.eqb N.eqb_eq) in Ej.
        destruct (N.eqb k x) eqn:E; auto. apply N.eqb_eq in E. subst. rewrite Ex. cbn.
        rewrite (rem_notin N.eqb N.eqb_eq t its Ej). reflexivity.
    - destruct (N.eqb k x) eqn:E; auto. apply N.eqb_eq in E. subst. rewrite Ex. reflexivity. }
  rewrite (IH m' H2).
  - rewrite !Hm'. destruct (N.eqb i x) eqn:E; cbn [orb]; auto.
    apply N.eqb_eq in E. subst.
    replace (memb N.eqb x is) with false by (symmetry; apply (memb_false N.eqb N.eqb_eq); auto). reflexivity.
  - intros k l Hk Hl. rewrite Hm' in Hl. destruct (N.eqb k x) eqn:E.
    + apply N.eqb_eq in E. subst. contradiction.
    + eapply Hnd; eauto. cbn. auto.
Qed.

Lemma rtopics_map_rem a t i :
  (match aget N.eqb i (map (fun p : N * list N => (fst p, rem N.eqb t (snd p))) (rR a)) with Some l => l | None => [] end)
  = rem N.eqb t (rtopics a i).
Proof.
  unfold rtopics. induction (rR a) as [|[k v] r IH]; cbn; auto. destruct (N.eqb i k); auto.
Qed.

Section CTI.
  Variable c : cti_cfg.

  Definition cti_rel (s : cti_state) (a : cti_ref) : Prop :=
    rT a = cti_topics s /\ rI a = cti_issuers s /\ NoDup (rT a) /\ NoDup (rI a)
    /\ (forall i, it_get (cti_itopics s) i = if memb N.eqb i (rI a) then Some (rtopics a i) else None)
    /\ (forall i, In i (rI a) -> NoDup (rtopics a i) /\ forall t, In t (rtopics a i) -> In t (rT a))
    /\ (forall t, match ti_get (cti_tissuers s) t with
                  | Some l => In t (rT a) /\ NoDup l /\ (forall j, In j l <-> (In j (rI a) /\ In t (rtopics a j)))
                  | None => ~ In t (rT a)
                  end).

  Lemma cti_rel_init : cti_rel cti_init cti_ref0.
  Proof.
    unfold cti_rel. cbn. repeat split; auto; try constructor; intros; try tauto.
  Qed.

  Lemma rissuers_In a t j : In j (rissuers a t) <-> In j (rI a) /\ In t (rtopics a j).
  Proof. unfold rissuers. rewrite filter_In, (memb_In N.eqb N.eqb_eq). tauto. Qed.
  Lemma rissuers_NoDup a t : NoDup (rI a) -> NoDup (rissuers a t).
  Proof. apply NoDup_filter. Qed.

  Lemma memb_iff (x : N) l m : (In x l <-> In x m) -> memb N.eqb x l = memb N.eqb x m.
  Proof.
    intros H. destruct (memb N.eqb x l) eqn:E1, (memb N.eqb x m) eqn:E2; auto.
    - apply (memb_In N.eqb N.eqb_eq) in E1. apply H in E1. apply (memb_false N.eqb N.eqb_eq) in E2. contradiction.
    - apply (memb_In N.eqb N.eqb_eq) in E2. apply H in E2. apply (memb_false N.eqb N.eqb_eq) in E1. contradiction.
  Qed.
  Lemma memb_snoc (x y : N) l : memb N.eqb x (l ++ [y]) = memb N.eqb x l || N.eqb x y.
  Proof. induction l as [|z l IH]; cbn; [apply orb_false_r|]. rewrite IH. apply orb_assoc. Qed.
  Lemma memb_rem (x y : N) l : memb N.eqb x (rem N.eqb y l) = memb N.eqb x l && negb (N.eqb x y).
  Proof.
    destruct (memb N.eqb x (rem N.eqb y l)) eqn:E.
    - apply (memb_In N.eqb N.eqb_eq) in E. apply (rem_In N.eqb N.eqb_eq) in E. destruct E as [E1 E2].
      rewrite (proj2 (memb_In N.eqb N.eqb_eq x l) E1). apply N.eqb_neq in E2. rewrite E2. reflexivity.
    - apply (memb_false N.eqb N.eqb_eq) in E. destruct (memb N.eqb x l) eqn:E1; auto. cbn.
      destruct (N.eqb x y) eqn:E2; auto. exfalso. apply E. apply (rem_In N.eqb N.eqb_eq).
      split; [apply (memb_In N.eqb N.eqb_eq); auto|apply N.eqb_neq; auto].
  Qed.

  Lemma valid_same s a ts : cti_rel s a -> cti_validate_topics c s ts = cti_valid c a ts.
  Proof. intros (ET & _). unfold cti_validate_topics, cti_valid, subsetb. rewrite ET. reflexivity. Qed.
  Lemma valid_props a ts : cti_valid c a ts = true ->
    ts <> [] /\ NoDup ts /\ (forall t, In t ts -> In t (rT a)).
  Proof.
    unfold cti_valid. rewrite !andb_true_iff. intros [[[H1 _] H3] H4].
    split; [destruct ts; [discriminate|congruence]|]. split; [apply (nodupb_NoDup N.eqb N.eqb_eq); auto|].
    apply (subsetb_spec N.eqb N.eqb_eq). auto.
  Qed.

  Lemma memb_filter (x : N) f l : (forall y, f y = f y) -> memb N.eqb x (filter f l) = memb N.eqb x l && f x.
  Proof.
    intros _. induction l as [|y l IH]; cbn; auto. destruct (f y) eqn:Ef; cbn; rewrite IH.
    - destruct (N.eqb x y) eqn:E; cbn; auto. apply N.eqb_eq in E. subst. rewrite Ef. reflexivity.
    - destruct (N.eqb x y) eqn:E; cbn; auto. apply N.eqb_eq in E. subst. rewrite Ef.
      rewrite andb_false_r. reflexivity.
  Qed.

  Lemma rtopics_aset a i ts j (T : list N) (I : list N) :
    rtopics {| rT := T; rI := I; rR := aset N.eqb i ts (rR a) |} j = if N.eqb j i then ts else rtopics a j.
  Proof. unfold rtopics. cbn [rR]. rewrite (aget_aset N.eqb N.eqb_eq). destruct (N.eqb j i); reflexivity. Qed.
  Lemma rtopics_adel a i j (T : list N) (I : list N) :
    rtopics {| rT := T; rI := I; rR := adel N.eqb i (rR a) |} j = if N.eqb j i then [] else rtopics a j.
  Proof. unfold rtopics. cbn [rR]. rewrite (aget_adel N.eqb N.eqb_eq). destruct (N.eqb j i); reflexivity. Qed.

  (* every topic has its issuer list *)
  Lemma ti_present s a t : cti_rel s a -> In t (rT a) ->
    exists l, aget N.eqb t (cti_tissuers s) = Some l /\ NoDup l /\ (forall j, In j l <-> (In j (rI a) /\ In t (rtopics a j))).
  Proof.
    intros (_ & _ & _ & _ & _ & _ & HD) Ht. specialize (HD t). unfold ti_get in HD.
    destruct (aget N.eqb t (cti_tissuers s)) as [l|]; [|contradiction]. exists l. tauto.
  Qed.

  Lemma cti_add_topic_sim s a t : cti_rel s a ->
    match cti_add_topic c s t with
    | Ok s' => exists a', cti_spec c a (CtAddTopic t) = Ok a' /\ cti_rel s' a'
    | Fail => cti_spec c a (CtAddTopic t) = Fail
    end.
  Proof.
    intros HR. pose proof HR as (ET & EI & NT & NI & HB & HC & HD).
    unfold cti_add_topic. cbn [cti_spec]. rewrite <- ET.
    destruct (cti_max_topics c <=? length (rT a)); [reflexivity|]. cbn [orb].
    destruct (memb N.eqb t (rT a)) eqn:Em; [reflexivity|].
    apply (memb_false N.eqb N.eqb_eq) in Em.
    eexists. split; [reflexivity|]. unfold cti_rel. cbn [rT rI rR cti_topics cti_issuers cti_itopics cti_tissuers].
    split; [reflexivity|]. split; [auto|]. split; [apply NoDup_snoc; auto|]. split; [auto|].
    split; [exact HB|]. split.
    - intros i Hi. destruct (HC i Hi) as [H1 H2]. split; auto. intros t' Ht'. apply in_or_app. left. auto.
    - intros t'. unfold ti_get, ti_set. rewrite (aget_aset N.eqb N.eqb_eq). destruct (N.eqb t' t) eqn:E.
      + apply N.eqb_eq in E. subst t'. split; [apply in_or_app; right; cbn; auto|]. split; [constructor|].
        intros j. split; [intros []|]. intros [Hj Ht]. apply Em. apply (HC j Hj). auto.
      + apply N.eqb_neq in E. specialize (HD t'). unfold ti_get in HD.
        destruct (aget N.eqb t' (cti_tissuers s)) as [l|].
        * destruct HD as (H1 & H2 & H3). split; [apply in_or_app; auto|]. split; auto.
        * intros Hin. apply in_app_or in Hin. destruct Hin as [Hin|[Hin|[]]]; [contradiction|congruence].
  Qed.

  Lemma cti_remove_topic_sim s a t : cti_rel s a ->
    match cti_remove_topic s t with
    | Ok s' => exists a', cti_spec c a (CtRemoveTopic t) = Ok a' /\ cti_rel s' a'
    | Fail => cti_spec c a (CtRemoveTopic t) = Fail
    end.
  Proof.
    intros HR. pose proof HR as (ET & EI & NT & NI & HB & HC & HD).
    unfold cti_remove_topic. cbn [cti_spec]. rewrite <- ET, <- EI, (index_of_memb N.eqb N.eqb_eq).
    destruct (index_of N.eqb t (rT a)) as [j|] eqn:Ej; [|reflexivity].
    rewrite (remove_at_index_of N.eqb N.eqb_eq t NT Ej).
    eexists. split; [reflexivity|]. unfold cti_rel. cbn [rT rI rR cti_topics cti_issuers cti_itopics cti_tissuers].
    split; [reflexivity|]. split; [reflexivity|]. split; [apply (rem_NoDup N.eqb N.eqb_eq); auto|]. split; [auto|].
    assert (Hrt : forall i, rtopics {| rT := rem N.eqb t (rT a); rI := rI a;
                                       rR := map (fun p : N * list N => (fst p, rem N.eqb t (snd p))) (rR a) |} i
                            = rem N.eqb t (rtopics a i)).
    { intros i. unfold rtopics at 1. cbn [rR]. apply rtopics_map_rem. }
    split; [|split].
    - intros i. unfold it_get. rewrite (@fold_forget_topic t (rI a) (cti_itopics s) NI).
      + fold (it_get (cti_itopics s) i). rewrite HB, Hrt. destruct (memb N.eqb i (rI a)); reflexivity.
      + intros k l Hk Hl. fold (it_get (cti_itopics s) k) in Hl. rewrite HB in Hl.
        rewrite (proj2 (memb_In N.eqb N.eqb_eq k (rI a)) Hk) in Hl. inversion Hl. subst. apply (HC k Hk).
    - intros i Hi. rewrite Hrt. destruct (HC i Hi) as [H1 H2]. split; [apply (rem_NoDup N.eqb N.eqb_eq); auto|].
      intros t' Ht'. apply (rem_In N.eqb N.eqb_eq) in Ht'. apply (rem_In N.eqb N.eqb_eq). split; [apply H2|]; tauto.
    - intros t'. unfold ti_get, ti_del. rewrite (aget_adel N.eqb N.eqb_eq). destruct (N.eqb t' t) eqn:E.
      + apply N.eqb_eq in E. subst. intros Hin. apply (rem_In N.eqb N.eqb_eq) in Hin. tauto.
      + apply N.eqb_neq in E. specialize (HD t'). unfold ti_get in HD.
        destruct (aget N.eqb t' (cti_tissuers s)) as [l|].
        * destruct HD as (H1 & H2 & H3). split; [apply (rem_In N.eqb N.eqb_eq); auto|]. split; auto.
          intros k. rewrite H3, Hrt, (rem_In N.eqb N.eqb_eq). tauto.
        * intros Hin. apply (rem_In N.eqb N.eqb_eq) in Hin. tauto.
  Qed.

  Lemma cti_add_issuer_sim s a i ts : cti_rel s a ->
    match cti_add_issuer c s i ts with
    | Ok s' => exists a', cti_spec c a (CtAddIssuer i ts) = Ok a' /\ cti_rel s' a'
    | Fail => cti_spec c a (CtAddIssuer i ts) = Fail
    end.
  Proof.
    intros HR. pose proof HR as (ET & EI & NT & NI & HB & HC & HD).
    unfold cti_add_issuer. cbn [cti_spec]. rewrite (@valid_same s a ts HR), <- EI.
    destruct (cti_valid c a ts) eqn:Ev; cbn [negb andb]; [|reflexivity].
    destruct (cti_max_issuers c <=? length (rI a)); cbn [negb andb]; [reflexivity|].
    destruct (memb N.eqb i (rI a)) eqn:Em; cbn [negb]; [reflexivity|].
    apply (memb_false N.eqb N.eqb_eq) in Em. destruct (@valid_props a ts Ev) as (Hne & Hnts & Hsub).
    destruct (@foldM_map_spec (fun _ => True) (fun l => l ++ [i])
               (fun m t => do l <- of_option (ti_get m t); Ok (ti_set m t (l ++ [i])))
               (step_push_ok i) ts (cti_tissuers s) Hnts) as [r [Er Hr]].
    { intros t Ht. destruct (@ti_present s a t HR (Hsub t Ht)) as [l [El _]]. eauto. }
    rewrite Er. cbn [bind]. eexists. split; [reflexivity|].
    unfold cti_rel. cbn [rT rI rR cti_topics cti_issuers cti_itopics cti_tissuers].
    split; [auto|]. split; [rewrite EI; reflexivity|]. split; [auto|]. split; [apply NoDup_snoc; auto|].
    split; [|split].
    - intros j. unfold it_get, it_set. rewrite (aget_aset N.eqb N.eqb_eq), memb_snoc, rtopics_aset.
      fold (it_get (cti_itopics s) j). rewrite HB. destruct (N.eqb j i) eqn:E; [rewrite orb_true_r; reflexivity|].
      rewrite orb_false_r. reflexivity.
    - intros j Hj. rewrite rtopics_aset. destruct (N.eqb j i) eqn:E; [split; auto|].
      apply in_app_or in Hj. destruct Hj as [Hj|[Hj|[]]]; [apply (HC j Hj)|]. subst. rewrite N.eqb_refl in E. discriminate.
    - intros t'. unfold ti_get. rewrite Hr. destruct (memb N.eqb t' ts) eqn:Et.
      + apply (memb_In N.eqb N.eqb_eq) in Et. destruct (@ti_present s a t' HR (Hsub t' Et)) as [l [El [Hnl Hl]]].
        rewrite El. cbn [option_map]. split; [auto|]. split.
        * apply NoDup_snoc; auto. rewrite Hl. tauto.
        * intros j. rewrite in_app_iff, Hl, rtopics_aset, in_app_iff. cbn [In].
          destruct (N.eqb j i) eqn:E.
          -- apply N.eqb_eq in E. subst j. tauto.
          -- apply N.eqb_neq in E. split; [intros [H|[H|[]]]; [tauto|congruence]|]. intros [[H|[H|[]]] H']; [tauto|congruence].
      + apply (memb_false N.eqb N.eqb_eq) in Et. specialize (HD t'). unfold ti_get in HD.
        destruct (aget N.eqb t' (cti_tissuers s)) as [l|]; auto.
        destruct HD as (H1 & H2 & H3). split; auto. split; auto. intros j.
        rewrite H3, rtopics_aset, in_app_iff. cbn [In]. destruct (N.eqb j i) eqn:E.
        * apply N.eqb_eq in E. subst j. tauto.
        * apply N.eqb_neq in E. split; [tauto|]. intros [[H|[H|[]]] H']; [tauto|congruence].
  Qed.

  Lemma cti_remove_issuer_sim s a i : cti_rel s a ->
    match cti_remove_issuer s i with
    | Ok s' => exists a', cti_spec c a (CtRemoveIssuer i) = Ok a' /\ cti_rel s' a'
    | Fail => cti_spec c a (CtRemoveIssuer i) = Fail
    end.
  Proof.
    intros HR. pose proof HR as (ET & EI & NT & NI & HB & HC & HD).
    unfold cti_remove_issuer, cti_get_issuer_topics. cbn [cti_spec]. rewrite <- EI, (index_of_memb N.eqb N.eqb_eq).
    destruct (index_of N.eqb i (rI a)) as [p|] eqn:Ep; [|reflexivity].
    assert (Hi : In i (rI a)).
    { destruct (index_of_Some N.eqb N.eqb_eq _ _ Ep) as [H _]. eapply nth_error_In; eauto. }
    rewrite HB, (proj2 (memb_In N.eqb N.eqb_eq i (rI a)) Hi). cbn [of_option bind].
    destruct (HC i Hi) as [Hnrt Hsub].
    destruct (@foldM_map_spec (@NoDup N) (rem N.eqb i)
               (fun m t => do l <- of_option (ti_get m t);
                           Ok (match index_of N.eqb i l with Some j => ti_set m t (remove_at j l) | None => m end))
               (step_drop_ok i) (rtopics a i) (cti_tissuers s) Hnrt) as [r [Er Hr]].
    { intros t Ht. destruct (@ti_present s a t HR (Hsub t Ht)) as [l [El [Hnl _]]]. eauto. }
    rewrite Er. cbn [bind]. rewrite (remove_at_index_of N.eqb N.eqb_eq i NI Ep).
    eexists. split; [reflexivity|].
    unfold cti_rel. cbn [rT rI rR cti_topics cti_issuers cti_itopics cti_tissuers].
    split; [auto|]. split; [reflexivity|]. split; [auto|]. split; [apply (rem_NoDup N.eqb N.eqb_eq); auto|].
    split; [|split].
    - intros j. unfold it_get, it_del. rewrite (aget_adel N.eqb N.eqb_eq), memb_rem, rtopics_adel.
      fold (it_get (cti_itopics s) j). rewrite HB. destruct (N.eqb j i); cbn [negb]; [rewrite andb_false_r; reflexivity|].
      rewrite andb_true_r. reflexivity.
    - intros j Hj. apply (rem_In N.eqb N.eqb_eq) in Hj. destruct Hj as [Hj Hne]. rewrite rtopics_adel.
      replace (N.eqb j i) with false by (symmetry; apply N.eqb_neq; auto). apply (HC j Hj).
    - intros t'. unfold ti_get. rewrite Hr. destruct (memb N.eqb t' (rtopics a i)) eqn:Et.
      + apply (memb_In N.eqb N.eqb_eq) in Et. destruct (@ti_present s a t' HR (Hsub t' Et)) as [l [El [Hnl Hl]]].
        rewrite El. cbn [option_map]. split; [auto|]. split; [apply (rem_NoDup N.eqb N.eqb_eq); auto|].
        intros j. rewrite !(rem_In N.eqb N.eqb_eq), Hl, rtopics_adel. destruct (N.eqb j i) eqn:E.
        * apply N.eqb_eq in E. tauto.
        * tauto.
      + apply (memb_false N.eqb N.eqb_eq) in Et. specialize (HD t'). unfold ti_get in HD.
        destruct (aget N.eqb t' (cti_tissuers s)) as [l|]; auto.
        destruct HD as (H1 & H2 & H3). split; auto. split; auto. intros j.
        rewrite H3, (rem_In N.eqb N.eqb_eq), rtopics_adel. destruct (N.eqb j i) eqn:E.
        * apply N.eqb_eq in E. subst j. cbn [In]. tauto.
        * apply N.eqb_neq in E. tauto.
  Qed.

  Lemma cti_update_issuer_sim s a i ts : cti_rel s a ->
    match cti_update_issuer c s i ts with
    | Ok s' => exists a', cti_spec c a (CtUpdateIssuer i ts) = Ok a' /\ cti_rel s' a'
    | Fail => cti_spec c a (CtUpdateIssuer i ts) = Fail
    end.
  Proof.
    intros HR. pose proof HR as (ET & EI & NT & NI & HB & HC & HD).
    unfold cti_update_issuer, cti_is_trusted, cti_get_issuer_topics. cbn [cti_spec].
    rewrite (@valid_same s a ts HR), <- EI.
    destruct (cti_valid c a ts) eqn:Ev; cbn [negb andb]; [|reflexivity].
    destruct (memb N.eqb i (rI a)) eqn:Em; cbn [negb]; [|reflexivity].
    rewrite HB, Em. cbn [of_option bind].
    pose proof (proj1 (memb_In N.eqb N.eqb_eq i (rI a)) Em) as Hi.
    destruct (@valid_props a ts Ev) as (Hne & Hnts & Hsub). destruct (HC i Hi) as [Hnold Hsubold].
    set (old := rtopics a i) in *.
    set (to_remove := filter (fun t => negb (memb N.eqb t ts)) old).
    set (to_add := filter (fun t => negb (memb N.eqb t old)) ts).
    destruct (@foldM_map_spec (@NoDup N) (rem N.eqb i)
               (fun m t => do l <- of_option (ti_get m t);
                           Ok (match index_of N.eqb i l with Some j => ti_set m t (remove_at j l) | None => m end))
               (step_drop_ok i) to_remove (cti_tissuers s)) as [r1 [Er1 Hr1]].
    { apply NoDup_filter. auto. }
    { intros t Ht. apply filter_In in Ht. destruct Ht as [Ht _].
      destruct (@ti_present s a t HR (Hsubold t Ht)) as [l [El [Hnl _]]]. eauto. }
    rewrite Er1. cbn [bind].
    destruct (@foldM_map_spec (fun _ => True) (fun l => l ++ [i])
               (fun m t => do l <- of_option (ti_get m t); Ok (ti_set m t (l ++ [i])))
               (step_push_ok i) to_add r1) as [r2 [Er2 Hr2]].
    { apply NoDup_filter. auto. }
    { intros t Ht. apply filter_In in Ht. destruct Ht as [Ht _].
      destruct (@ti_present s a t HR (Hsub t Ht)) as [l [El _]]. rewrite Hr1, El.
      destruct (memb N.eqb t to_remove); cbn [option_map]; eauto. }
    rewrite Er2. cbn [bind]. eexists. split; [reflexivity|].
    unfold cti_rel. cbn [rT rI rR cti_topics cti_issuers cti_itopics cti_tissuers].
    split; [auto|]. split; [auto|]. split; [auto|]. split; [auto|]. split; [|split].
    - intros j. unfold it_get, it_set. rewrite (aget_aset N.eqb N.eqb_eq), rtopics_aset.
      fold (it_get (cti_itopics s) j). rewrite HB. destruct (N.eqb j i) eqn:E; auto.
      apply N.eqb_eq in E. subst. rewrite Em. reflexivity.
    - intros j Hj. rewrite rtopics_aset. destruct (N.eqb j i); [split; auto|apply (HC j Hj)].
    - intros t'. unfold ti_get. rewrite Hr2, Hr1.
      unfold to_add, to_remove. rewrite !memb_filter by reflexivity.
      specialize (HD t'). unfold ti_get in HD.
      destruct (memb N.eqb t' ts) eqn:Ets, (memb N.eqb t' old) eqn:Eold; cbn [negb andb].
      + (* kept *)
        destruct (aget N.eqb t' (cti_tissuers s)) as [l|]; auto.
        destruct HD as (H1 & H2 & H3). split; auto. split; auto. intros j. rewrite H3, rtopics_aset.
        destruct (N.eqb j i) eqn:E; [|tauto]. apply N.eqb_eq in E. subst j.
        apply (memb_In N.eqb N.eqb_eq) in Ets. apply (memb_In N.eqb N.eqb_eq) in Eold. fold old. tauto.
      + (* added *)
        apply (memb_In N.eqb N.eqb_eq) in Ets. apply (memb_false N.eqb N.eqb_eq) in Eold.
        destruct (@ti_present s a t' HR (Hsub t' Ets)) as [l [El [Hnl Hl]]]. rewrite El. cbn [option_map].
        split; [auto|]. split.
        * apply NoDup_snoc; auto. rewrite Hl. fold old. tauto.
        * intros j. rewrite in_app_iff, Hl, rtopics_aset. cbn [In]. destruct (N.eqb j i) eqn:E.
          -- apply N.eqb_eq in E. subst j. tauto.
          -- apply N.eqb_neq in E. split; [intros [H|[H|[]]]; [tauto|congruence]|tauto].
      + (* dropped *)
        apply (memb_false N.eqb N.eqb_eq) in Ets. apply (memb_In N.eqb N.eqb_eq) in Eold.
        destruct (@ti_present s a t' HR (Hsubold t' Eold)) as [l [El [Hnl Hl]]]. rewrite El. cbn [option_map].
        split; [auto|]. split; [apply (rem_NoDup N.eqb N.eqb_eq); auto|].
        intros j. rewrite (rem_In N.eqb N.eqb_eq), Hl, rtopics_aset. destruct (N.eqb j i) eqn:E.
        * apply N.eqb_eq in E. subst j. tauto.
        * apply N.eqb_neq in E. tauto.
      + (* untouched *)
        destruct (aget N.eqb t' (cti_tissuers s)) as [l|]; auto.
        destruct HD as (H1 & H2 & H3). split; auto. split; auto. intros j. rewrite H3, rtopics_aset.
        destruct (N.eqb j i) eqn:E; [|tauto]. apply N.eqb_eq in E. subst j.
        apply (memb_false N.eqb N.eqb_eq) in Ets. apply (memb_false N.eqb N.eqb_eq) in Eold. fold old. tauto.
  Qed.

  Lemma cti_spec_sim s a k : cti_rel s a ->
    match cti_step c s k with
    | Ok (s', _) => exists a', cti_spec c a k = Ok a' /\ cti_rel s' a'
    | Fail => cti_spec c a k = Fail
    end.
  Proof.
    intros HR. destruct k as [t|t|i ts|i|i ts]; cbn [cti_step].
    - pose proof (cti_add_topic_sim t HR) as H. destruct (cti_add_topic c s t); cbn [bind]; auto.
    - pose proof (cti_remove_topic_sim t HR) as H. destruct (cti_remove_topic s t); cbn [bind]; auto.
    - pose proof (cti_add_issuer_sim i ts HR) as H. destruct (cti_add_issuer c s i ts); cbn [bind]; auto.
    - pose proof (cti_remove_issuer_sim i HR) as H. destruct (cti_remove_issuer s i); cbn [bind]; auto.
    - pose proof (cti_update_issuer_sim i ts HR) as H. destruct (cti_update_issuer c s i ts); cbn [bind]; auto.
  Qed.

  (* get_claim_topics_and_issuers: the sorted map built over the topic list *)
  Lemma smap_set_keys k v m x : In x (map fst (smap_set k v m)) <-> x = k \/ In x (map fst m).
  Proof.
    induction m as [|[k' v'] r IH]; cbn; [intuition congruence|].
    destruct (k <? k')%N; cbn; [intuition congruence|]. destruct (k =? k')%N eqn:E; cbn.
    - apply N.eqb_eq in E. subst. intuition congruence.
    - rewrite IH. intuition congruence.
  Qed.
  Definition sorted_keys (m : list (N * list N)) : Prop :=
    forall i j x y, i < j -> nth_error (map fst m) i = Some x -> nth_error (map fst m) j = Some y -> (x < y)%N.
  Lemma smap_set_get k v m : forall k', aget N.eqb k' (smap_set k v m) = if N.eqb k' k then Some v else aget N.eqb k' m.
  Proof.
    induction m as [|[k0 v0] r IH]; intros k'; cbn [smap_set aget].
    - destruct (N.eqb k' k); reflexivity.
    - destruct (k <? k0)%N eqn:E1; cbn [aget]; [destruct (N.eqb k' k); reflexivity|].
      destruct (k =? k0)%N eqn:E2; cbn [aget].
      + apply N.eqb_eq in E2. subst k0. destruct (N.eqb k' k); reflexivity.
      + rewrite IH. destruct (N.eqb k' k0) eqn:E3; auto. apply N.eqb_eq in E3. subst k'.
        rewrite N.eqb_sym, E2. reflexivity.
  Qed.
  Lemma smap_set_NoDup k v m : NoDup (map fst m) -> (forall x, In x (map fst m) -> forall y, In y (map fst m) -> True) ->
    incrb (map fst m) = true -> incrb (map fst (smap_set k v m)) = true.
  Proof.
    intros _ _. induction m as [|[k0 v0] r IH]; intros Hs; [reflexivity|].
    cbn [smap_set]. destruct (k <? k0)%N eqn:E1.
    - cbn [map fst incrb] in *. rewrite E1. exact Hs.
    - destruct (k =? k0)%N eqn:E2.
      + apply N.eqb_eq in E2. subst. exact Hs.
      + cbn [map fst]. pose proof (incrb_tail _ _ Hs) as Ht. specialize (IH Ht).
        destruct (smap_set k v r) as [|[k1 v1] r1] eqn:Er; [reflexivity|].
        cbn [map fst incrb] in *. rewrite IH, andb_true_r. apply N.ltb_lt.
        assert (Hin : In k1 (map fst (smap_set k v r))) by (rewrite Er; cbn; auto).
        apply smap_set_keys in Hin. destruct Hin as [->|Hin].
        * apply N.ltb_ge in E1. apply N.eqb_neq in E2. lia.
        * apply (incrb_lt _ _ Hs). auto.
  Qed.

  Lemma all_map_spec (TI : list (N * list N)) : forall ts m,
    (forall t, In t ts -> exists l, aget N.eqb t TI = Some l) ->
    exists r, foldM (fun m t => do is <- of_option (ti_get TI t); Ok (smap_set t is m)) ts m = Ok r
      /\ (forall x, In x (map fst r) <-> In x ts \/ In x (map fst m))
      /\ (incrb (map fst m) = true -> incrb (map fst r) = true)
      /\ (forall k, aget N.eqb k r = if memb N.eqb k ts then aget N.eqb k TI else aget N.eqb k m).
  Proof.
    induction ts as [|t ts IH]; intros m Hall.
    - exists m. cbn. repeat split; auto; tauto.
    - destruct (Hall t (or_introl eq_refl)) as [l El]. cbn [foldM]. unfold ti_get at 1. rewrite El. cbn [of_option bind].
      destruct (IH (smap_set t l m)) as [r (Er & H1 & H2 & H3)]; [intros t0 Ht0; apply Hall; cbn; auto|].
      exists r. split; auto. split; [|split].
      + intros x. rewrite H1, smap_set_keys. cbn [In]. intuition congruence.
      + intros Hs. apply H2. apply smap_set_NoDup; auto. apply incrb_NoDup. auto.
      + intros k. rewrite H3, smap_set_get. cbn [memb]. destruct (memb N.eqb k ts) eqn:E1.
        * rewrite orb_true_r. reflexivity.
        * rewrite orb_false_r. destruct (N.eqb k t) eqn:E2; auto. apply N.eqb_eq in E2. subst. auto.
  Qed.

  Lemma cti_chk_ok s a q : cti_rel s a -> cti_chk a (q, cti_answer s q) = true.
  Proof.
    intros HR. pose proof HR as (ET & EI & NT & NI & HB & HC & HD).
    destruct q as [| |t|i|i|i t|]; cbn [cti_answer cti_chk].
    - rewrite <- ET. apply (enumb_refl N.eqb N.eqb_eq). auto.
    - rewrite <- EI. apply (enumb_refl N.eqb N.eqb_eq). auto.
    - unfold cti_get_topic_issuers. specialize (HD t). destruct (ti_get (cti_tissuers s) t) as [l|]; cbn [of_option].
      + destruct HD as (H1 & H2 & H3). rewrite (proj2 (memb_In N.eqb N.eqb_eq t (rT a)) H1). cbn [andb].
        apply (enumb_spec N.eqb N.eqb_eq). split; auto. intros j. rewrite H3, rissuers_In. tauto.
      + rewrite (proj2 (memb_false N.eqb N.eqb_eq t (rT a)) HD). reflexivity.
    - unfold cti_get_issuer_topics. rewrite HB. destruct (memb N.eqb i (rI a)) eqn:E; cbn [of_option negb andb]; auto.
      apply (enumb_refl N.eqb N.eqb_eq). apply (HC i). apply (memb_In N.eqb N.eqb_eq). auto.
    - unfold cti_is_trusted. rewrite <- EI. apply bool_eqb_refl.
    - unfold cti_has_topic, cti_get_issuer_topics. rewrite HB.
      destruct (memb N.eqb i (rI a)); cbn [of_option bind negb andb]; auto. apply bool_eqb_refl.
    - unfold cti_topics_and_issuers, cti_get_topic_issuers. rewrite <- ET.
      destruct (@all_map_spec (cti_tissuers s) (rT a) []) as [r (Er & H1 & H2 & H3)].
      { intros t Ht. destruct (@ti_present s a t HR Ht) as [l [El _]]. eauto. }
      rewrite Er. pose proof (H2 eq_refl) as Hs. pose proof (incrb_NoDup _ Hs) as Hnr.
      apply andb_true_intro. split.
      + apply (enumb_spec N.eqb N.eqb_eq). split; auto. intros x. rewrite H1. cbn. tauto.
      + apply forallb_forall. intros [t l] Hin. cbn [fst snd].
        assert (Ht : In t (rT a)). { apply (in_map fst) in Hin. apply H1 in Hin. cbn in Hin. tauto. }
        apply (aget_In N.eqb N.eqb_eq t l r Hnr) in Hin. rewrite H3, (proj2 (memb_In N.eqb N.eqb_eq t (rT a)) Ht) in Hin.
        destruct (@ti_present s a t HR Ht) as [l' [El' [Hnl Hl]]]. rewrite El' in Hin. inversion Hin. subst l'.
        apply (enumb_spec N.eqb N.eqb_eq). split; auto. intros j. rewrite Hl, rissuers_In. tauto.
  Qed.

  Lemma cti_mon_step s a cq : cti_rel s a ->
    exists a', mon_of (spec_unit (cti_spec c)) cti_chk (fun _ _ => true) a (model_ev (cti_step c) cti_answer s cq) = Some a'
               /\ cti_rel (step_state (cti_step c) s (fst cq)) a'.
  Proof.
    apply (@unit_mon_step _ _ _ _ _ (cti_step c) cti_answer (cti_spec c) cti_chk (fun _ _ => true) cti_rel).
    - intros. apply cti_spec_sim. auto.
    - intros. apply cti_chk_ok. auto.
    - reflexivity.
  Qed.
End CTI.
