(* C04: what every successful function of the RWA model guarantees, and the invariant
   0 <= frozen tokens <= balance, lifted to all call sequences. *)
From SC Require Import Lib.Prelude Lib.Int Lib.Host Model.Rwa.

(* ------------------------------------------------------------------ *)
(* inversion of the res monad                                           *)
Lemma bind_ok {A B} (r : res A) (f : A -> res B) (b : B) :
  bind r f = Ok b -> exists a, r = Ok a /\ f a = Ok b.
Proof. destruct r; cbn; intros H; [eauto | discriminate]. Qed.
Lemma guard_ok (b : bool) (u : unit) : guard b = Ok u -> b = true.
Proof. destruct b; cbn; intros H; [reflexivity | discriminate]. Qed.
Lemma of_option_ok {A} (o : option A) (a : A) : of_option o = Ok a -> o = Some a.
Proof. destruct o; cbn; intros H; [congruence | discriminate]. Qed.
Lemma add_i128_ok a b v : add_i128 a b = Ok v -> v = a + b /\ MIN128 <= v <= MAX128.
Proof.
  unfold add_i128, checked_add, fit128, in_i128. destruct (_ && _) eqn:E; cbn; intros H; [|discriminate].
  injection H as <-. apply andb_prop in E. destruct E as [E1 E2]. apply Z.leb_le in E1, E2. lia.
Qed.
Lemma sub_i128_ok a b v : sub_i128 a b = Ok v -> v = a - b /\ MIN128 <= v <= MAX128.
Proof.
  unfold sub_i128, checked_sub, fit128, in_i128. destruct (_ && _) eqn:E; cbn; intros H; [|discriminate].
  injection H as <-. apply andb_prop in E. destruct E as [E1 E2]. apply Z.leb_le in E1, E2. lia.
Qed.

(* decompose [H : do x <- r; k = Ok v] completely (also the nested binds) *)
Ltac res_inv E :=
  cbv zeta beta in E;
  first
  [ apply guard_ok in E
  | apply add_i128_ok in E; destruct E as [-> E]
  | apply sub_i128_ok in E; destruct E as [-> E]
  | apply of_option_ok in E
  | match type of E with
    | Ok _ = Ok ?v => injection E as E; first [subst v | idtac]
    end
  | match type of E with
    | bind _ _ = Ok _ =>
        let x := fresh "x" in let E' := fresh "E" in
        apply bind_ok in E; destruct E as (x & E' & E); res_inv E'; res_inv E
    end
  | idtac ].
Ltac binds H := res_inv H.

Ltac okinj H := cbv zeta beta in H; injection H as H; try subst.

(* booleans to Z / N facts *)
Ltac b2z :=
  repeat match goal with
  | H : negb _ = true |- _ => apply negb_true_iff in H
  | H : negb _ = false |- _ => apply negb_false_iff in H
  | H : (_ || _) = false |- _ => apply orb_false_iff in H; destruct H
  | H : (_ && _) = true |- _ => apply andb_prop in H; destruct H
  | H : (_ <=? _) = true |- _ => apply Z.leb_le in H
  | H : (_ <=? _) = false |- _ => apply Z.leb_gt in H
  | H : (_ <? _) = true |- _ => apply Z.ltb_lt in H
  | H : (_ <? _) = false |- _ => apply Z.ltb_ge in H
  | H : (_ =? _) = true |- _ => apply Z.eqb_eq in H
  | H : (_ =? _) = false |- _ => apply Z.eqb_neq in H
  | H : N.eqb _ _ = true |- _ => apply N.eqb_eq in H
  | H : N.eqb _ _ = false |- _ => apply N.eqb_neq in H
  end.

Ltac decomp := repeat match goal with H : _ /\ _ |- _ => destruct H end.
Ltac use lem := match goal with H : _ = Ok _ |- _ => apply lem in H end.
Ltac logs :=
  repeat match goal with
  | H : cmp_log ?x = _ |- context [cmp_log ?x] => rewrite H
  | H : idv_log ?x = _ |- context [idv_log ?x] => rewrite H
  end;
  repeat rewrite <- app_assoc; cbn [app]; repeat rewrite app_nil_r; try reflexivity; try congruence.

(* ------------------------------------------------------------------ *)
(* frames                                                               *)

(* everything but balances, supply, frozen tokens, allowances and the logs *)
Definition same_core (s s' : state) : Prop :=
  now s' = now s /\ paused s' = paused s /\ aflag s' = aflag s /\
  cmp_set s' = cmp_set s /\ idv_set s' = idv_set s /\ cmp_at s' = cmp_at s /\ idv_at s' = idv_at s.
Lemma same_core_refl s : same_core s s.
Proof. repeat split. Qed.
Lemma same_core_trans s1 s2 s3 : same_core s1 s2 -> same_core s2 s3 -> same_core s1 s3.
Proof. unfold same_core. intros (A1 & A2 & A3 & A4 & A5 & A6 & A7) (B1 & B2 & B3 & B4 & B5 & B6 & B7). repeat split; congruence. Qed.

Definition delta (o : option addr) (x : addr) (amt : Z) : Z :=
  match o with Some a => if N.eqb x a then amt else 0 | None => 0 end.

(* ------------------------------------------------------------------ *)
(* Base::update                                                         *)
Lemma update_spec from to amt s s' :
  update from to amt s = Ok s' ->
  0 <= amt /\ (forall a, from = Some a -> amt <= bal s a) /\
  (forall x, bal s' x = bal s x - delta from x amt + delta to x amt) /\
  frozen s' = frozen s /\ allow s' = allow s /\ same_core s s' /\
  idv_log s' = idv_log s /\ cmp_log s' = cmp_log s.
Proof.
  unfold update. intros H. destruct from as [a|], to as [b|]; binds H; b2z;
    (split; [assumption|]); (split; [intros ? [= <-]; try assumption|]);
    (split; [|repeat split]); intros y; cbn; unfold upd, delta;
    repeat match goal with |- context [N.eqb ?p ?q] => destruct (N.eqb p q) eqn:?; b2z; subst end; try lia.
Qed.

(* ------------------------------------------------------------------ *)
(* RWA::validate_transfer                                               *)
Definition gates (o : oracle) (s : state) (from to : addr) (amt : Z) : Prop :=
  paused s = false /\ aflag s from = false /\ aflag s to = false /\
  amt <= bal s from - frozen s from /\
  idv_ok o from = true /\ idv_ok o to = true /\ o_can_transfer o = true.

Lemma validate_transfer_spec o from to amt s s' :
  validate_transfer o from to amt s = Ok s' ->
  gates o s from to amt /\ idv_set s = true /\ cmp_set s = true /\
  s' = log_cmp (QCanTransfer from to amt) (log_idv (QVerify to) (log_idv (QVerify from) s)).
Proof.
  unfold validate_transfer, verify_identity, identity_verifier_addr, compliance_addr, get_free_tokens.
  intros H. binds H. b2z. cbn in *. unfold gates. repeat split; auto; lia.
Qed.

(* ------------------------------------------------------------------ *)
(* RWA::transfer                                                        *)
Ltac pw := intros;
  repeat match goal with
  | H : forall x, bal ?s x = _ |- context [bal ?s _] => rewrite H
  | H : forall x, frozen ?s x = _ |- context [frozen ?s _] => rewrite H
  | H : forall x, aflag ?s x = _ |- context [aflag ?s _] => rewrite H
  | H : bal ?s = _ |- context [bal ?s] => rewrite H
  | H : frozen ?s = _ |- context [frozen ?s] => rewrite H
  | H : aflag ?s = _ |- context [aflag ?s] => rewrite H
  end; cbn [delta]; try reflexivity; try lia.
Ltac fin := unfold same_core, gates in *; cbn in *; decomp; subst; cbn in *;
  repeat match goal with H : forall a : addr, Some ?f = Some a -> _ |- _ => specialize (H f eq_refl) end;
  repeat split; try assumption; try congruence; try lia; try logs; try pw.

Lemma transfer_spec au o from to amt s s' :
  transfer au o from to amt s = Ok s' ->
  has_auth au from = true /\ gates o s from to amt /\ 0 <= amt /\
  (forall x, bal s' x = bal s x - delta (Some from) x amt + delta (Some to) x amt) /\
  frozen s' = frozen s /\ allow s' = allow s /\ same_core s s' /\
  idv_log s' = idv_log s ++ [QVerify from; QVerify to] /\
  cmp_log s' = cmp_log s ++ [QCanTransfer from to amt; NTransferred from to amt] /\
  amt <= bal s from.
Proof.
  unfold transfer, compliance_addr. intros H. binds H.
  use validate_transfer_spec. use update_spec. fin.
Qed.

(* ------------------------------------------------------------------ *)
(* Base::set_allowance / spend_allowance: only the allowance table changes *)
Lemma set_allowance_frame hc owner sp amt live s s' :
  set_allowance hc owner sp amt live s = Ok s' ->
  bal s' = bal s /\ frozen s' = frozen s /\ same_core s s' /\ supply s' = supply s /\
  idv_log s' = idv_log s /\ cmp_log s' = cmp_log s.
Proof.
  unfold set_allowance. intros H. binds H. destruct (0 <? amt); binds H; fin.
Qed.
Lemma spend_allowance_frame hc owner sp amt s s' :
  spend_allowance hc owner sp amt s = Ok s' ->
  0 <= amt /\ amt <= allowance s owner sp /\
  bal s' = bal s /\ frozen s' = frozen s /\ same_core s s' /\ supply s' = supply s /\
  idv_log s' = idv_log s /\ cmp_log s' = cmp_log s.
Proof.
  unfold spend_allowance, allowance. intros H. binds H. b2z.
  destruct (0 <? amt); binds H; [use set_allowance_frame|]; fin.
Qed.

(* RWA::transfer_from (current code) *)
Lemma transfer_from_spec hc au o sp from to amt s s' :
  transfer_from hc au o sp from to amt s = Ok s' ->
  has_auth au sp = true /\ gates o s from to amt /\ 0 <= amt /\ amt <= allowance s from sp /\
  (forall x, bal s' x = bal s x - delta (Some from) x amt + delta (Some to) x amt) /\
  frozen s' = frozen s /\ same_core s s' /\
  idv_log s' = idv_log s ++ [QVerify from; QVerify to] /\
  cmp_log s' = cmp_log s ++ [QCanTransfer from to amt; NTransferred from to amt] /\
  amt <= bal s from.
Proof.
  unfold transfer_from, compliance_addr. intros H. binds H.
  use validate_transfer_spec. use spend_allowance_frame. use update_spec. fin.
Qed.

(* ------------------------------------------------------------------ *)
(* the "unfreeze as needed" block of forced_transfer and burn: exactly the part of the amount
   that the free tokens do not cover *)

Lemma unfreeze_needed_spec a amt s s' :
  unfreeze_needed a amt s = Ok s' ->
  (forall x, frozen s' x = if N.eqb x a then frozen s a - unfrozen_by (bal s a) (frozen s a) amt else frozen s x) /\
  bal s' = bal s /\ allow s' = allow s /\ supply s' = supply s /\ same_core s s' /\
  idv_log s' = idv_log s /\ cmp_log s' = cmp_log s.
Proof.
  unfold unfreeze_needed, get_free_tokens, unfrozen_by. intros H. binds H.
  destruct (_ <? _) eqn:L; b2z; binds H; fin; unfold upd;
    match goal with |- context [N.eqb ?y a] => destruct (N.eqb y a) eqn:Ey end; b2z; subst; try reflexivity; lia.
Qed.

(* RWA::forced_transfer *)
Lemma forced_transfer_spec from to amt s s' :
  forced_transfer from to amt s = Ok s' ->
  0 <= amt <= bal s from /\ cmp_set s = true /\
  (forall x, bal s' x = bal s x - delta (Some from) x amt + delta (Some to) x amt) /\
  (forall x, frozen s' x = if N.eqb x from then frozen s from - unfrozen_by (bal s from) (frozen s from) amt else frozen s x) /\
  allow s' = allow s /\ same_core s s' /\
  idv_log s' = idv_log s /\ cmp_log s' = cmp_log s ++ [NTransferred from to amt].
Proof.
  unfold forced_transfer, compliance_addr. intros H. binds H. b2z.
  use unfreeze_needed_spec. use update_spec. fin.
Qed.

(* RWA::burn *)
Lemma burn_spec a amt s s' :
  burn a amt s = Ok s' ->
  0 <= amt <= bal s a /\ cmp_set s = true /\
  (forall x, bal s' x = bal s x - delta (Some a) x amt) /\
  (forall x, frozen s' x = if N.eqb x a then frozen s a - unfrozen_by (bal s a) (frozen s a) amt else frozen s x) /\
  allow s' = allow s /\ same_core s s' /\
  idv_log s' = idv_log s /\ cmp_log s' = cmp_log s ++ [NDestroyed a amt].
Proof.
  unfold burn, compliance_addr. intros H. binds H. b2z.
  use unfreeze_needed_spec. use update_spec. fin.
Qed.

(* RWA::mint *)
Lemma mint_spec o to amt s s' :
  mint o to amt s = Ok s' ->
  0 <= amt /\ idv_ok o to = true /\ o_can_create o = true /\ idv_set s = true /\ cmp_set s = true /\
  (forall x, bal s' x = bal s x + delta (Some to) x amt) /\
  frozen s' = frozen s /\ allow s' = allow s /\ same_core s s' /\
  idv_log s' = idv_log s ++ [QVerify to] /\
  cmp_log s' = cmp_log s ++ [QCanCreate to amt; NCreated to amt].
Proof.
  unfold mint, verify_identity, identity_verifier_addr, compliance_addr. intros H. binds H.
  use update_spec. fin.
Qed.

(* RWA::freeze_partial_tokens / unfreeze_partial_tokens *)
Lemma freeze_spec a amt s s' :
  freeze_partial_tokens a amt s = Ok s' ->
  0 <= amt /\ frozen s a + amt <= bal s a /\
  (forall x, frozen s' x = if N.eqb x a then frozen s a + amt else frozen s x) /\
  bal s' = bal s /\ allow s' = allow s /\ same_core s s' /\ idv_log s' = idv_log s /\ cmp_log s' = cmp_log s.
Proof.
  unfold freeze_partial_tokens. intros H. binds H. b2z. fin.
Qed.
Lemma unfreeze_spec a amt s s' :
  unfreeze_partial_tokens a amt s = Ok s' ->
  0 <= amt <= frozen s a /\
  (forall x, frozen s' x = if N.eqb x a then frozen s a - amt else frozen s x) /\
  bal s' = bal s /\ allow s' = allow s /\ same_core s s' /\ idv_log s' = idv_log s /\ cmp_log s' = cmp_log s.
Proof.
  unfold unfreeze_partial_tokens. intros H. binds H. b2z. fin.
Qed.

(* ------------------------------------------------------------------ *)
(* the invariant                                                        *)
Definition Inv (s : state) : Prop := forall a, 0 <= frozen s a <= bal s a.

(* RWA::recover_balance *)
Lemma recover_spec o old new s b s' :
  Inv s ->
  recover_balance o old new s = Ok (b, s') ->
  idv_ok o new = true /\ recovery_target o old = Some new /\ idv_set s = true /\
  b = negb (bal s old =? 0) /\
  idv_log s' = idv_log s ++ [QVerify new; QRecovery old] /\
  cmp_log s' = cmp_log s ++ (if b then [NTransferred old new (bal s old)] else []) /\
  now s' = now s /\ paused s' = paused s /\ allow s' = allow s /\ cmp_set s' = cmp_set s /\ idv_set s' = idv_set s /\
  (b = false \/ old = new ->
     (forall x, bal s' x = bal s x) /\ (forall x, frozen s' x = frozen s x) /\ (forall x, aflag s' x = aflag s x)) /\
  (b = true -> old <> new ->
     (forall x, bal s' x = if N.eqb x old then 0 else if N.eqb x new then bal s new + bal s old else bal s x) /\
     (forall x, frozen s' x = if N.eqb x old then 0 else if N.eqb x new then frozen s new + frozen s old else frozen s x) /\
     (forall x, aflag s' x = if N.eqb x new then aflag s new || aflag s old else aflag s x)).
Proof.
  intros HI. unfold recover_balance, verify_identity, identity_verifier_addr. intros H. binds H. b2z.
  subst. cbn [bal frozen aflag log_idv] in H.
  destruct (bal s old =? 0) eqn:Z0.
  - binds H. subst. cbn. repeat split; auto; try logs; discriminate.
  - binds H. subst. b2z.
    use forced_transfer_spec.
    cbn [bal frozen aflag log_idv idv_log cmp_log cmp_set allow] in E2.
    destruct E2 as (A & HC & B & F & AL & C & L1 & L2).
    pose proof (HI old) as Io. pose proof (HI new) as In.
    assert (UF : unfrozen_by (bal s old) (frozen s old) (bal s old) = frozen s old)
      by (unfold unfrozen_by; lia).
    rewrite UF in F.
    assert (X : (forall z, frozen x3 z = if N.eqb z new then frozen x0 new + frozen s old else frozen x0 z) /\
                bal x3 = bal x0 /\ allow x3 = allow x0 /\ same_core x0 x3 /\
                idv_log x3 = idv_log x0 /\ cmp_log x3 = cmp_log x0).
    { destruct (0 <? frozen s old) eqn:Fz; b2z.
      - apply freeze_spec in E3. fin.
      - binds E3. fin. match goal with |- context [N.eqb ?z new] => destruct (N.eqb z new) eqn:Ez end; b2z; subst; lia. }
    clear E3. destruct X as (X1 & X2 & X3 & X4 & X5 & X6).
    assert (Y : (forall z, aflag s' z = if N.eqb z new then aflag x3 new || aflag s old else aflag x3 z) /\
                bal s' = bal x3 /\ frozen s' = frozen x3 /\ allow s' = allow x3 /\
                now s' = now x3 /\ paused s' = paused x3 /\ cmp_set s' = cmp_set x3 /\ idv_set s' = idv_set x3 /\
                idv_log s' = idv_log x3 /\ cmp_log s' = cmp_log x3).
    { destruct (aflag s old) eqn:Fl.
      - unfold set_address_frozen in E4. binds E4. cbn. repeat split. intros z. unfold upd.
        destruct (N.eqb z new); [rewrite orb_true_r|]; reflexivity.
      - binds E4. repeat split. intros z. destruct (N.eqb z new) eqn:Ez; b2z; subst; [rewrite orb_false_r|]; reflexivity. }
    clear E4. destruct Y as (Y1 & Y2 & Y3 & Y4 & Y5 & Y6 & Y7 & Y8 & Y9 & Y10).
    unfold same_core in *. cbn [now paused aflag cmp_set idv_set log_idv] in *. decomp.
    repeat match goal with |- _ /\ _ => split end; try assumption; try reflexivity; try congruence; try logs.
    + intros [Hd|Hd]; [discriminate|]. subst new.
      repeat split; intros z.
      * rewrite Y2, X2, B. cbn [delta]. destruct (N.eqb z old); lia.
      * rewrite Y3, X1, !F, N.eqb_refl. destruct (N.eqb z old) eqn:Ez; b2z; subst; lia.
      * rewrite Y1. repeat match goal with H : aflag ?q = _ |- context [aflag ?q] => rewrite H end.
        destruct (N.eqb z old) eqn:Ez; b2z; subst; [apply orb_diag|reflexivity].
    + intros _ Hne. repeat split; intros z.
      * rewrite Y2, X2, B. cbn [delta].
        destruct (N.eqb z old) eqn:Ez, (N.eqb z new) eqn:Ez'; b2z; subst; try contradiction; lia.
      * rewrite Y3, X1, !F.
        destruct (N.eqb z old) eqn:Ez, (N.eqb z new) eqn:Ez'; b2z; subst; try contradiction; try lia.
        destruct (N.eqb new old) eqn:Ez''; b2z; subst; try contradiction; lia.
      * rewrite Y1. repeat match goal with H : aflag ?q = _ |- context [aflag ?q] => rewrite H end. reflexivity.
Qed.

(* ------------------------------------------------------------------ *)
(* steps                                                                *)
Lemma step_ok hc s c s' r :
  step hc s c = (s', Ok r) <-> exec_with transfer_from hc c (clear_logs s) = Ok (r, s').
Proof.
  unfold step, step_with. destruct (exec_with _ _ _ _) as [[r0 s0]|]; split; intros H; congruence.
Qed.
Lemma step_fail hc s c s' :
  step hc s c = (s', Fail) -> s' = clear_logs s.
Proof.
  unfold step, step_with. destruct (exec_with _ _ _ _) as [[r0 s0]|]; intros H; congruence.
Qed.
Lemma step_cases hc s c :
  (exists r s', step hc s c = (s', Ok r)) \/ step hc s c = (clear_logs s, Fail).
Proof.
  unfold step, step_with. destruct (exec_with _ _ _ _) as [[r0 s0]|]; eauto.
Qed.

Ltac eqbs := repeat match goal with |- context [N.eqb ?p ?q] => destruct (N.eqb p q) eqn:?; b2z; subst end.

Lemma Inv_clear s : Inv s -> Inv (clear_logs s).
Proof. exact (fun H => H). Qed.

Ltac rw_state :=
  repeat match goal with
  | H : forall x, bal ?s x = _ |- context [bal ?s _] => rewrite H
  | H : forall x, frozen ?s x = _ |- context [frozen ?s _] => rewrite H
  | H : forall x, aflag ?s x = _ |- context [aflag ?s _] => rewrite H
  | H : bal ?s = _ |- context [bal ?s] => rewrite H
  | H : frozen ?s = _ |- context [frozen ?s] => rewrite H
  | H : aflag ?s = _ |- context [aflag ?s] => rewrite H
  end.

(* every successful call preserves 0 <= frozen tokens <= balance *)
Lemma exec_preserves_Inv hc c s r s' :
  exec_with transfer_from hc c s = Ok (r, s') -> Inv s -> Inv s'.
Proof.
  unfold exec_with, unit_ret. intros H HI. binds H.
  destruct (c_op c); binds H; subst.
  - use transfer_spec. unfold gates in *. decomp. intros z. pose proof (HI z). pose proof (HI from).
    rw_state. unfold delta. eqbs; lia.
  - use transfer_from_spec. unfold gates in *. decomp. intros z. pose proof (HI z). pose proof (HI from).
    rw_state. unfold delta. eqbs; lia.
  - use set_allowance_frame. decomp. intros z. pose proof (HI z). rw_state. lia.
  - use mint_spec. decomp. intros z. pose proof (HI z). rw_state. unfold delta. eqbs; lia.
  - use burn_spec. decomp. intros z. pose proof (HI z). pose proof (HI a).
    rw_state. unfold delta, unfrozen_by. eqbs; lia.
  - use forced_transfer_spec. decomp. intros z. pose proof (HI z). pose proof (HI from).
    rw_state. unfold delta, unfrozen_by. eqbs; lia.
  - destruct x1 as [b s2]. cbv beta iota in H. binds H. subst.
    match goal with H : recover_balance _ _ _ _ = _ |- _ => apply (recover_spec _ _ _ _ _ _ HI) in H end.
    decomp. intros z. pose proof (HI z). pose proof (HI old). pose proof (HI new).
    destruct (N.eq_dec old new) as [Heq|Hne].
    + match goal with H : _ \/ _ -> _ |- _ => destruct (H (or_intror Heq)) as (Q1 & Q2 & Q3) end. rw_state. lia.
    + destruct b.
      * match goal with H : true = true -> _ |- _ => destruct (H eq_refl Hne) as (Q1 & Q2 & Q3) end.
        rw_state. eqbs; lia.
      * match goal with H : _ \/ _ -> _ |- _ => destruct (H (or_introl eq_refl)) as (Q1 & Q2 & Q3) end. rw_state. lia.
  - unfold set_address_frozen in *. binds E0. exact HI.
  - use freeze_spec. decomp. intros z. pose proof (HI z). pose proof (HI a). rw_state. eqbs; lia.
  - use unfreeze_spec. decomp. intros z. pose proof (HI z). pose proof (HI a). rw_state. eqbs; lia.
  - unfold pause in *. binds E0. exact HI.
  - unfold unpause in *. binds E0. exact HI.
  - exact HI.
  - exact HI.
  - exact HI.
Qed.

(* ------------------------------------------------------------------ *)
(* THEOREMS                                                             *)

Lemma Inv_init : Inv init.
Proof. intros a. cbn. lia. Qed.

Lemma step_preserves_Inv hc s c : Inv s -> Inv (fst (step hc s c)).
Proof.
  intros HI. destruct (step_cases hc s c) as [(r & s' & H)|H]; rewrite H; cbn [fst].
  - apply step_ok in H. eapply exec_preserves_Inv; eauto.
  - exact HI.
Qed.

Lemma run_preserves_Inv hc cs : forall s, Inv s -> Inv (run hc s cs).
Proof.
  unfold run, run_with. induction cs as [|c cs IH]; intros s HI; cbn [fold_left]; auto.
  apply IH. apply (step_preserves_Inv hc s c HI).
Qed.

(* C04_frozen_le_balance *)
Theorem frozen_le_balance : forall (hc : hostcfg) (cs : list call) (a : addr),
  0 <= frozen (run hc init cs) a <= bal (run hc init cs) a.
Proof. intros hc cs. apply run_preserves_Inv. exact Inv_init. Qed.

(* C04_gates: in ANY state *)
Theorem gates_thm : forall (hc : hostcfg) (s : state) (c : call) (s' : state) (r : ret),
  step hc s c = (s', Ok r) ->
  match c_op c with
  | Transfer from to amt | TransferFrom _ from to amt =>
      paused s = false /\ aflag s from = false /\ aflag s to = false /\
      0 <= amt <= bal s from - frozen s from /\
      idv_ok (eff_orc s c) from = true /\ idv_ok (eff_orc s c) to = true /\ o_can_transfer (eff_orc s c) = true /\
      In (QVerify from) (idv_log s') /\ In (QVerify to) (idv_log s') /\
      In (QCanTransfer from to amt) (cmp_log s')
  | Mint to amt _ =>
      0 <= amt /\ idv_ok (eff_orc s c) to = true /\ o_can_create (eff_orc s c) = true /\
      In (QVerify to) (idv_log s') /\ In (QCanCreate to amt) (cmp_log s')
  | _ => True
  end.
Proof.
  intros hc s c s' r H. apply step_ok in H. unfold exec_with, unit_ret in H. binds H.
  destruct (c_op c); binds H; subst; auto.
  - use transfer_spec. unfold gates in *. cbn in *. decomp.
    repeat split; auto; try lia;
      match goal with H : ?l = _ |- In _ ?l => rewrite H; cbn; auto end.
  - use transfer_from_spec. unfold gates in *. cbn in *. decomp.
    repeat split; auto; try lia;
      match goal with H : ?l = _ |- In _ ?l => rewrite H; cbn; auto end.
  - use mint_spec. cbn in *. decomp.
    repeat split; auto;
      match goal with H : ?l = _ |- In _ ?l => rewrite H; cbn; auto end.
Qed.

(* C04_min_unfreeze: what every successful call does to the freeze state, in ANY state *)
Theorem min_unfreeze : forall (hc : hostcfg) (s : state) (c : call) (s' : state) (r : ret),
  step hc s c = (s', Ok r) ->
  match c_op c with
  | ForcedTransfer w _ amt _ | Burn w amt _ =>
      0 <= amt <= bal s w /\
      (forall a, frozen s' a =
                 if N.eqb a w then frozen s w - Z.max 0 (amt - (bal s w - frozen s w)) else frozen s a) /\
      (forall a, aflag s' a = aflag s a)
  | Freeze w amt _ =>
      0 <= amt /\ frozen s w + amt <= bal s w /\
      (forall a, frozen s' a = if N.eqb a w then frozen s w + amt else frozen s a) /\
      (forall a, aflag s' a = aflag s a)
  | Unfreeze w amt _ =>
      0 <= amt <= frozen s w /\
      (forall a, frozen s' a = if N.eqb a w then frozen s w - amt else frozen s a) /\
      (forall a, aflag s' a = aflag s a)
  | SetAddressFrozen w v _ =>
      (forall a, frozen s' a = frozen s a) /\
      (forall a, aflag s' a = if N.eqb a w then v else aflag s a)
  | RecoverBalance _ _ _ => True
  | _ => (forall a, frozen s' a = frozen s a) /\ (forall a, aflag s' a = aflag s a)
  end.
Proof.
  intros hc s c s' r H. apply step_ok in H. unfold exec_with, unit_ret in H. binds H.
  destruct (c_op c); binds H; subst; auto.
  - use transfer_spec. fin.
  - use transfer_from_spec. fin.
  - use set_allowance_frame. fin.
  - use mint_spec. fin.
  - use burn_spec. unfold unfrozen_by in *. fin.
  - use forced_transfer_spec. unfold unfrozen_by in *. fin.
  - unfold set_address_frozen in *. binds E0. cbn. split; reflexivity.
  - use freeze_spec. fin.
  - use unfreeze_spec. fin.
  - unfold pause in *. binds E0. cbn. split; reflexivity.
  - unfold unpause in *. binds E0. cbn. split; reflexivity.
Qed.

(* C04_recover, in every state satisfying the invariant (hence every reachable one) *)
Lemma recover_step : forall (hc : hostcfg) (s : state) (c : call) (old new opr : addr) (s' : state) (r : ret),
  Inv s ->
  c_op c = RecoverBalance old new opr ->
  step hc s c = (s', Ok r) ->
  recovery_target (eff_orc s c) old = Some new /\ idv_ok (eff_orc s c) new = true /\
  r = Some (negb (bal s old =? 0)) /\
  paused s' = paused s /\
  (bal s old <> 0 -> old <> new ->
     bal s' old = 0 /\ frozen s' old = 0 /\ aflag s' old = aflag s old /\
     bal s' new = bal s new + bal s old /\
     frozen s' new = frozen s new + frozen s old /\
     aflag s' new = aflag s new || aflag s old /\
     (forall a, a <> old -> a <> new ->
        bal s' a = bal s a /\ frozen s' a = frozen s a /\ aflag s' a = aflag s a)) /\
  (bal s old = 0 \/ old = new ->
     forall a, bal s' a = bal s a /\ frozen s' a = frozen s a /\ aflag s' a = aflag s a).
Proof.
  intros hc s c old new opr s' r HI Hop H. apply step_ok in H. unfold exec_with, unit_ret in H. binds H.
  rewrite Hop in H. binds H. destruct x1 as [b s2]. cbv beta iota in H. binds H. subst.
  match goal with H : recover_balance _ _ _ _ = _ |- _ => apply (recover_spec _ _ _ (clear_logs s) _ _ HI) in H end.
  cbn [bal frozen aflag paused clear_logs] in *. decomp. subst b.
  split; [assumption|]. split; [assumption|]. split; [reflexivity|]. split; [assumption|]. split.
  - intros Hnz Hne. destruct (bal s old =? 0) eqn:Z0; b2z; [contradiction|].
    match goal with H : negb false = true -> _ |- _ => destruct (H eq_refl Hne) as (Q1 & Q2 & Q3) end.
    repeat split; rw_state; rewrite ?N.eqb_refl; eqbs; try contradiction; try reflexivity.
  - intros Hc a.
    match goal with H : _ \/ _ -> _ |- _ => destruct H as (Q1 & Q2 & Q3) end.
    + destruct Hc as [Hc|Hc]; [left; rewrite Hc; reflexivity|right; exact Hc].
    + repeat split; auto.
Qed.

Theorem recover_thm : forall (hc : hostcfg) (cs : list call) (c : call) (old new opr : addr) (s' : state) (r : ret),
  let s := run hc init cs in
  c_op c = RecoverBalance old new opr ->
  step hc s c = (s', Ok r) ->
  recovery_target (eff_orc s c) old = Some new /\ idv_ok (eff_orc s c) new = true /\
  r = Some (negb (bal s old =? 0)) /\
  paused s' = paused s /\
  (bal s old <> 0 -> old <> new ->
     bal s' old = 0 /\ frozen s' old = 0 /\ aflag s' old = aflag s old /\
     bal s' new = bal s new + bal s old /\
     frozen s' new = frozen s new + frozen s old /\
     aflag s' new = aflag s new || aflag s old /\
     (forall a, a <> old -> a <> new ->
        bal s' a = bal s a /\ frozen s' a = frozen s a /\ aflag s' a = aflag s a)) /\
  (bal s old = 0 \/ old = new ->
     forall a, bal s' a = bal s a /\ frozen s' a = frozen s a /\ aflag s' a = aflag s a).
Proof.
  intros hc cs c old new opr s' r s. apply recover_step. apply run_preserves_Inv. exact Inv_init.
Qed.

(* ------------------------------------------------------------------ *)
(* C04_compliance_log: exactly what the collaborators receive during each call *)
Definition expected_cmp_log (s : state) (c : call) (o : res ret) : list cev :=
  match o with
  | Fail => []
  | Ok _ =>
      match c_op c with
      | Transfer f t a | TransferFrom _ f t a => [QCanTransfer f t a; NTransferred f t a]
      | ForcedTransfer f t a _ => [NTransferred f t a]
      | Mint t a _ => [QCanCreate t a; NCreated t a]
      | Burn w a _ => [NDestroyed w a]
      | RecoverBalance old new _ => if bal s old =? 0 then [] else [NTransferred old new (bal s old)]
      | _ => []
      end
  end.
Definition expected_idv_log (c : call) (o : res ret) : list iev :=
  match o with
  | Fail => []
  | Ok _ =>
      match c_op c with
      | Transfer f t _ | TransferFrom _ f t _ => [QVerify f; QVerify t]
      | Mint t _ _ => [QVerify t]
      | RecoverBalance old new _ => [QVerify new; QRecovery old]
      | _ => []
      end
  end.

Lemma step_logs hc s c s' o :
  Inv s -> step hc s c = (s', o) ->
  cmp_log s' = expected_cmp_log s c o /\ idv_log s' = expected_idv_log c o.
Proof.
  intros HI H. destruct o as [r|].
  2:{ apply step_fail in H. subst. split; reflexivity. }
  apply step_ok in H. unfold exec_with, unit_ret in H. binds H.
  unfold expected_cmp_log, expected_idv_log.
  destruct (c_op c); binds H; subst.
  - use transfer_spec. fin.
  - use transfer_from_spec. fin.
  - use set_allowance_frame. fin.
  - use mint_spec. fin.
  - use burn_spec. fin.
  - use forced_transfer_spec. fin.
  - destruct x1 as [b s2]. cbv beta iota in H. binds H. subst.
    match goal with H : recover_balance _ _ _ _ = _ |- _ => apply (recover_spec _ _ _ (clear_logs s) _ _ HI) in H end.
    cbn [bal frozen aflag paused clear_logs idv_log cmp_log app] in *. decomp. subst b.
    split; [|assumption]. destruct (bal s old =? 0); assumption.
  - unfold set_address_frozen in *. binds E0. split; reflexivity.
  - use freeze_spec. fin.
  - use unfreeze_spec. fin.
  - unfold pause in *. binds E0. split; reflexivity.
  - unfold unpause in *. binds E0. split; reflexivity.
  - split; reflexivity.
  - split; reflexivity.
  - split; reflexivity.
Qed.

(* everything the compliance contract receives over a whole history *)
Fixpoint cmp_trace (hc : hostcfg) (s : state) (cs : list call) : list cev :=
  match cs with
  | [] => []
  | c :: r => let s' := fst (step hc s c) in cmp_log s' ++ cmp_trace hc s' r
  end.
Fixpoint expected_cmp_trace (hc : hostcfg) (s : state) (cs : list call) : list cev :=
  match cs with
  | [] => []
  | c :: r => expected_cmp_log s c (snd (step hc s c)) ++ expected_cmp_trace hc (fst (step hc s c)) r
  end.

Lemma compliance_trace_from hc cs : forall s, Inv s -> cmp_trace hc s cs = expected_cmp_trace hc s cs.
Proof.
  induction cs as [|c cs IH]; intros s HI; cbn [cmp_trace expected_cmp_trace]; auto.
  destruct (step hc s c) as [s' o] eqn:Hs. cbn [fst snd].
  destruct (step_logs hc s c s' o HI Hs) as [-> _]. f_equal. apply IH.
  pose proof (step_preserves_Inv hc s c HI) as P. rewrite Hs in P. exact P.
Qed.

Theorem compliance_log_per_call : forall (hc : hostcfg) (cs : list call) (c : call),
  let s := run hc init cs in
  cmp_log (fst (step hc s c)) = expected_cmp_log s c (snd (step hc s c)) /\
  idv_log (fst (step hc s c)) = expected_idv_log c (snd (step hc s c)).
Proof.
  intros hc cs c s. destruct (step hc s c) as [s' o] eqn:Hs. cbn [fst snd].
  apply (step_logs hc s c s' o); auto. apply run_preserves_Inv. exact Inv_init.
Qed.

Theorem compliance_log : forall (hc : hostcfg) (cs : list call),
  cmp_trace hc init cs = expected_cmp_trace hc init cs.
Proof. intros. apply compliance_trace_from. exact Inv_init. Qed.

(* ------------------------------------------------------------------ *)
(* allowances: a successful set_allowance makes the allowance read back as [amt]; a successful
   spend_allowance lowers it by exactly [amt] *)
Lemma allowance_same s s' o sp :
  allow s' = allow s -> now s' = now s -> allowance s' o sp = allowance s o sp.
Proof. unfold allowance, allowance_data. intros -> ->. reflexivity. Qed.

Lemma set_allowance_spec hc o sp amt live s s' :
  set_allowance hc o sp amt live s = Ok s' ->
  0 <= amt /\ allowance s' o sp = amt.
Proof.
  unfold set_allowance. intros H. binds H. b2z. split; [assumption|].
  destruct (0 <? amt) eqn:P; b2z.
  - binds H. cbn [allow now set_allow]. unfold allowance, allowance_data. cbn [allow now set_allow].
    unfold upd2. rewrite !N.eqb_refl. cbn [andb].
    cbn [andb] in H1. b2z.
    unfold textend in E0.
    destruct (live - now s <? live - now s) eqn:Q; [discriminate|].
    destruct (tlive_at (now s) (tset hc (now s) (allow s o sp) (amt, live))) as [en|] eqn:TL; [|discriminate].
    assert (Hen : tval en = (amt, live) /\ now s <= tlive en).
    { unfold tlive_at in TL. unfold tset in TL.
      destruct (tlive_at (now s) (allow s o sp)) as [old|];
        cbn in TL; match type of TL with (if ?c then _ else _) = _ => destruct c eqn:C end; try discriminate;
        injection TL as <-; cbn; b2z; split; auto. }
    destruct Hen as [Hv Hl].
    destruct (max_ttl hc - 1 <? live - now s); [discriminate|].
    assert (Hx : exists en', x1 = Some en' /\ tval en' = (amt, live) /\ now s <= tlive en').
    { destruct (_ && _) eqn:C in E0; injection E0 as <-; eexists; split; try reflexivity; cbn; split; auto.
      b2z. lia. }
    destruct Hx as (en' & -> & Hv' & Hl').
    unfold tget, tlive_at. destruct (tlive en' <? now s) eqn:C; b2z; [lia|].
    rewrite Hv'. cbn [snd fst].
    destruct (live <? now s) eqn:C2; b2z; [lia|]. reflexivity.
  - binds H. unfold allowance, allowance_data. cbn [allow now set_allow]. unfold upd2. rewrite !N.eqb_refl. cbn [andb].
    assert (amt = 0) by lia. subst amt.
    unfold tget, tset.
    destruct (tlive_at (now s) (allow s o sp)) as [old|]; unfold tlive_at; cbn;
      match goal with |- context [if ?c then None else _] => destruct c end; cbn;
      try match goal with |- context [if ?c then _ else _] => destruct c end; reflexivity.
Qed.

Lemma spend_allowance_spec hc o sp amt s s' :
  spend_allowance hc o sp amt s = Ok s' ->
  allowance s' o sp = allowance s o sp - amt.
Proof.
  unfold spend_allowance. intros H. binds H. b2z.
  destruct (0 <? amt) eqn:P; b2z; binds H.
  - apply set_allowance_spec in H. destruct H as [_ ->]. unfold allowance. lia.
  - lia.
Qed.

(* RWA::transfer_from consumes exactly [amt] of the allowance from -> spender *)
Lemma transfer_from_allowance hc au o sp from to amt s s' :
  transfer_from hc au o sp from to amt s = Ok s' ->
  allowance s' from sp = allowance s from sp - amt.
Proof.
  unfold transfer_from, compliance_addr. intros H. binds H.
  use validate_transfer_spec. decomp. subst.
  match goal with H : spend_allowance _ _ _ _ _ = Ok _ |- _ => apply spend_allowance_spec in H; rename H into SA end.
  use update_spec. unfold same_core in *. decomp.
  etransitivity; [|exact SA]. apply allowance_same; cbn; congruence.
Qed.

(* ------------------------------------------------------------------ *)
(* C04_movement_exact: what every successful call does to the balances, in ANY state;
   transfer_from additionally needs a sufficient, unexpired allowance and consumes exactly [amt] of it *)
Theorem movement_exact : forall (hc : hostcfg) (s : state) (c : call) (s' : state) (r : ret),
  step hc s c = (s', Ok r) ->
  match c_op c with
  | Transfer from to amt | ForcedTransfer from to amt _ =>
      0 <= amt <= bal s from /\
      forall a, bal s' a = bal s a - (if N.eqb a from then amt else 0) + (if N.eqb a to then amt else 0)
  | TransferFrom sp from to amt =>
      0 <= amt <= bal s from /\ amt <= allowance s from sp /\
      allowance s' from sp = allowance s from sp - amt /\
      (forall a, bal s' a = bal s a - (if N.eqb a from then amt else 0) + (if N.eqb a to then amt else 0))
  | Mint to amt _ => 0 <= amt /\ forall a, bal s' a = bal s a + (if N.eqb a to then amt else 0)
  | Burn w amt _ => 0 <= amt <= bal s w /\ forall a, bal s' a = bal s a - (if N.eqb a w then amt else 0)
  | RecoverBalance _ _ _ => True
  | _ => forall a, bal s' a = bal s a
  end.
Proof.
  intros hc s c s' r H. apply step_ok in H. unfold exec_with, unit_ret in H. binds H.
  destruct (c_op c); binds H; subst; auto.
  - use transfer_spec. fin.
  - pose proof (transfer_from_allowance _ _ _ _ _ _ _ _ _ E0) as AL. use transfer_from_spec. fin.
  - use set_allowance_frame. fin.
  - use mint_spec. fin.
  - use burn_spec. fin.
  - use forced_transfer_spec. fin.
  - unfold set_address_frozen in *. binds E0. reflexivity.
  - use freeze_spec. fin.
  - use unfreeze_spec. fin.
  - unfold pause in *. binds E0. reflexivity.
  - unfold unpause in *. binds E0. reflexivity.
Qed.

(* ------------------------------------------------------------------ *)
(* frames: allowances, supply, authorisation, pause flag, links        *)

Lemma upd2_other {V} (f : addr -> addr -> V) a b v x y :
  (x, y) <> (a, b) -> upd2 f a b v x y = f x y.
Proof.
  unfold upd2. intros H. destruct (N.eqb x a) eqn:E1, (N.eqb y b) eqn:E2; cbn; auto.
  apply N.eqb_eq in E1, E2. subst. contradiction.
Qed.

Lemma set_allowance_other hc o sp amt live s s' o' sp' :
  set_allowance hc o sp amt live s = Ok s' -> (o', sp') <> (o, sp) ->
  allowance s' o' sp' = allowance s o' sp'.
Proof.
  unfold set_allowance. intros H Hn. binds H.
  destruct (0 <? amt); binds H; unfold allowance, allowance_data; cbn [allow now set_allow];
    rewrite (upd2_other _ _ _ _ _ _ Hn); reflexivity.
Qed.

Lemma spend_allowance_other hc o sp amt s s' o' sp' :
  spend_allowance hc o sp amt s = Ok s' -> (o', sp') <> (o, sp) ->
  allowance s' o' sp' = allowance s o' sp'.
Proof.
  unfold spend_allowance. intros H Hn. binds H.
  destruct (0 <? amt); binds H; [eapply set_allowance_other; eauto | reflexivity].
Qed.

Lemma transfer_from_allowance_other hc au o sp from to amt s s' o' sp' :
  transfer_from hc au o sp from to amt s = Ok s' -> (o', sp') <> (from, sp) ->
  allowance s' o' sp' = allowance s o' sp'.
Proof.
  unfold transfer_from, compliance_addr. intros H Hn. binds H.
  use validate_transfer_spec. decomp. subst.
  match goal with H : spend_allowance _ _ _ _ _ = Ok _ |- _ =>
    pose proof (spend_allowance_other _ _ _ _ _ _ _ _ H Hn) as SA end.
  use update_spec. unfold same_core in *. decomp.
  etransitivity; [|exact SA]. apply allowance_same; cbn; congruence.
Qed.

(* time only makes allowances expire *)
Lemma allowance_advance s n o sp : 0 <= n ->
  allowance (set_now s (now s + n)) o sp = allowance s o sp \/ allowance (set_now s (now s + n)) o sp = 0.
Proof.
  intros Hn. unfold allowance, allowance_data. cbn [allow now set_now].
  unfold tget, tlive_at. destruct (allow s o sp) as [en|]; [|right; cbn; destruct (0 <? now s + n); reflexivity].
  destruct (tlive en <? now s + n) eqn:A.
  - right. cbn. destruct (0 <? now s + n); reflexivity.
  - destruct (tlive en <? now s) eqn:B; b2z; [lia|].
    destruct (snd (tval en) <? now s + n) eqn:C; [right; reflexivity|].
    destruct (snd (tval en) <? now s) eqn:D; b2z; [lia|]. left. reflexivity.
Qed.

Definition pair_eqb (p q : addr * addr) : bool := N.eqb (fst p) (fst q) && N.eqb (snd p) (snd q).
Lemma pair_eqb_false p q : pair_eqb p q = false -> p <> q.
Proof.
  unfold pair_eqb. intros H E. subst q. rewrite !N.eqb_refl in H. discriminate.
Qed.
Lemma pair_eqb_true p q : pair_eqb p q = true -> p = q.
Proof.
  unfold pair_eqb. destruct p, q. cbn. intros H. apply andb_prop in H. destruct H as [A B].
  apply N.eqb_eq in A, B. congruence.
Qed.

Lemma update_supply from to amt s s' :
  update from to amt s = Ok s' ->
  supply s' = supply s + (match from with None => amt | Some _ => 0 end) - (match to with None => amt | Some _ => 0 end).
Proof.
  unfold update. intros H. destruct from as [a|], to as [b|]; binds H; cbn; lia.
Qed.

Lemma recover_allow o old new s b s' :
  recover_balance o old new s = Ok (b, s') -> allow s' = allow s /\ now s' = now s /\ supply s' = supply s.
Proof.
  unfold recover_balance, verify_identity, identity_verifier_addr. intros H. binds H. subst.
  cbn [bal frozen aflag log_idv] in H.
  destruct (bal s old =? 0).
  - binds H. subst. cbn. auto.
  - binds H. subst.
    match goal with H : forced_transfer _ _ _ _ = Ok _ |- _ =>
      unfold forced_transfer, compliance_addr in H; binds H end.
    use unfreeze_needed_spec.
    match goal with H : update _ _ _ _ = Ok _ |- _ => pose proof (update_supply _ _ _ _ _ H) as US end.
    use update_spec.
    assert (Q4 : allow x4 = allow x7 /\ now x4 = now x7 /\ supply x4 = supply x7).
    { destruct (0 <? frozen s old); [unfold freeze_partial_tokens in E4|]; binds E4; cbn; auto. }
    assert (Q5 : allow s' = allow x4 /\ now s' = now x4 /\ supply s' = supply x4).
    { destruct (aflag s old); [unfold set_address_frozen in E5|]; binds E5; cbn; auto. }
    unfold same_core in *. decomp. cbn in *. repeat split; try congruence. lia.
Qed.

Ltac relink :=
  repeat match goal with
  | H : cmp_set ?a = cmp_set _ |- context [cmp_set ?a] => rewrite H
  | H : idv_set ?a = idv_set _ |- context [idv_set ?a] => rewrite H
  | H : cmp_at ?a = cmp_at _ |- context [cmp_at ?a] => rewrite H
  | H : idv_at ?a = idv_at _ |- context [idv_at ?a] => rewrite H
  end.

Lemma recover_links o old new s b s' :
  recover_balance o old new s = Ok (b, s') -> link_cmp s' = link_cmp s /\ link_idv s' = link_idv s.
Proof.
  unfold recover_balance, verify_identity, identity_verifier_addr, link_cmp, link_idv. intros H. binds H. subst.
  cbn [bal frozen aflag log_idv] in H.
  destruct (bal s old =? 0).
  - binds H. subst. cbn. auto.
  - binds H. subst.
    match goal with H : forced_transfer _ _ _ _ = Ok _ |- _ =>
      unfold forced_transfer, compliance_addr in H; binds H end.
    use unfreeze_needed_spec. use update_spec.
    assert (Q4 : cmp_set x4 = cmp_set x7 /\ idv_set x4 = idv_set x7 /\ cmp_at x4 = cmp_at x7 /\ idv_at x4 = idv_at x7).
    { destruct (0 <? frozen s old); [unfold freeze_partial_tokens in E4|]; binds E4; cbn; auto. }
    assert (Q5 : cmp_set s' = cmp_set x4 /\ idv_set s' = idv_set x4 /\ cmp_at s' = cmp_at x4 /\ idv_at s' = idv_at x4).
    { destruct (aflag s old); [unfold set_address_frozen in E5|]; binds E5; cbn; auto. }
    unfold same_core in *. decomp. cbn in *. split; relink; reflexivity.
Qed.

(* the allowance table after a successful call *)
Theorem allowance_frame : forall (hc : hostcfg) (s : state) (c : call) (s' : state) (r : ret) (o sp : addr),
  step hc s c = (s', Ok r) ->
  match c_op c with
  | Approve ow sp' amt _ =>
      allowance s' o sp = if pair_eqb (o, sp) (ow, sp') then amt else allowance s o sp
  | TransferFrom spd from _ amt =>
      allowance s' o sp = if pair_eqb (o, sp) (from, spd) then allowance s o sp - amt else allowance s o sp
  | Advance _ => allowance s' o sp = allowance s o sp \/ allowance s' o sp = 0
  | _ => allowance s' o sp = allowance s o sp
  end.
Proof.
  intros hc s c s' r o sp H. apply step_ok in H. unfold exec_with, unit_ret in H. binds H.
  assert (AS : forall t : state, allow t = allow (clear_logs s) -> now t = now (clear_logs s) ->
                                 allowance t o sp = allowance s o sp).
  { intros t A B. apply allowance_same; [exact A|exact B]. }
  destruct (c_op c); binds H; subst.
  - use transfer_spec. unfold same_core in *. decomp. apply AS; assumption.
  - destruct (pair_eqb (o, sp) (from, spender)) eqn:PE.
    + apply pair_eqb_true in PE. injection PE as -> ->.
      match goal with H : transfer_from _ _ _ _ _ _ _ _ = Ok _ |- _ =>
        exact (transfer_from_allowance _ _ _ _ _ _ _ (clear_logs s) _ H) end.
    + apply pair_eqb_false in PE.
      match goal with H : transfer_from _ _ _ _ _ _ _ _ = Ok _ |- _ =>
        exact (transfer_from_allowance_other _ _ _ _ _ _ _ (clear_logs s) _ _ _ H PE) end.
  - destruct (pair_eqb (o, sp) (owner, spender)) eqn:PE.
    + apply pair_eqb_true in PE. injection PE as -> ->.
      match goal with H : set_allowance _ _ _ _ _ _ = Ok _ |- _ => apply set_allowance_spec in H; destruct H as [_ H]; exact H end.
    + apply pair_eqb_false in PE.
      match goal with H : set_allowance _ _ _ _ _ _ = Ok _ |- _ =>
        exact (set_allowance_other _ _ _ _ _ (clear_logs s) _ _ _ H PE) end.
  - use mint_spec. unfold same_core in *. decomp. apply AS; assumption.
  - use burn_spec. unfold same_core in *. decomp. apply AS; assumption.
  - use forced_transfer_spec. unfold same_core in *. decomp. apply AS; assumption.
  - destruct x1 as [b s2]. cbv beta iota in H. binds H. subst.
    match goal with H : recover_balance _ _ _ _ = Ok _ |- _ => apply recover_allow in H; destruct H as (A1 & A2 & _) end.
    apply AS; assumption.
  - unfold set_address_frozen in *. binds E0. reflexivity.
  - use freeze_spec. unfold same_core in *. decomp. apply AS; assumption.
  - use unfreeze_spec. unfold same_core in *. decomp. apply AS; assumption.
  - unfold pause in *. binds E0. reflexivity.
  - unfold unpause in *. binds E0. reflexivity.
  - reflexivity.
  - reflexivity.
  - unfold wf_op in E. b2z. apply (allowance_advance (clear_logs s) n o sp). assumption.
Qed.

Ltac binds_all := repeat match goal with
  | H : bind _ _ = Ok _ |- _ => binds H
  | H : Ok _ = Ok _ |- _ => binds H
  end.

(* the total supply after a successful call *)
Theorem supply_frame : forall (hc : hostcfg) (s : state) (c : call) (s' : state) (r : ret),
  step hc s c = (s', Ok r) ->
  supply s' = supply s + (match c_op c with Mint _ amt _ => amt | Burn _ amt _ => - amt | _ => 0 end).
Proof.
  intros hc s c s' r H. apply step_ok in H. unfold exec_with, unit_ret in H. binds H.
  destruct (c_op c); binds H; subst.
  - unfold transfer, compliance_addr in *. binds_all. use validate_transfer_spec. decomp. subst.
    match goal with H : update _ _ _ _ = Ok _ |- _ => apply update_supply in H end. cbn in *. lia.
  - unfold transfer_from, compliance_addr in *. binds_all. use validate_transfer_spec. decomp. subst.
    use spend_allowance_frame. decomp.
    match goal with H : update _ _ _ _ = Ok _ |- _ => apply update_supply in H end. cbn in *. lia.
  - use set_allowance_frame. decomp. cbn in *. lia.
  - unfold mint, verify_identity, identity_verifier_addr, compliance_addr in *. binds_all.
    match goal with H : update _ _ _ _ = Ok _ |- _ => apply update_supply in H end. cbn in *. lia.
  - unfold burn, compliance_addr in *. binds_all. use unfreeze_needed_spec. decomp.
    match goal with H : update _ _ _ _ = Ok _ |- _ => apply update_supply in H end. cbn in *. lia.
  - unfold forced_transfer, compliance_addr in *. binds_all. use unfreeze_needed_spec. decomp.
    match goal with H : update _ _ _ _ = Ok _ |- _ => apply update_supply in H end. cbn in *. lia.
  - destruct x1 as [b s2]. cbv beta iota in H. binds H. subst.
    match goal with H : recover_balance _ _ _ _ = Ok _ |- _ => apply recover_allow in H; destruct H as (_ & _ & A3) end.
    cbn in *. lia.
  - unfold set_address_frozen in *. binds_all. cbn. lia.
  - unfold freeze_partial_tokens in *. binds_all. cbn. lia.
  - unfold unfreeze_partial_tokens in *. binds_all. cbn. lia.
  - unfold pause in *. binds_all. cbn. lia.
  - unfold unpause in *. binds_all. cbn. lia.
  - cbn. lia.
  - cbn. lia.
  - cbn. lia.
Qed.

(* C04_holder_authorisation: who must have authorised a successful call *)
Theorem holder_authorisation : forall (hc : hostcfg) (s : state) (c : call) (s' : state) (r : ret),
  step hc s c = (s', Ok r) ->
  match c_op c with
  | Transfer from _ _ => has_auth (c_auths c) from = true
  | TransferFrom sp from _ amt => has_auth (c_auths c) sp = true /\ 0 <= amt <= allowance s from sp
  | Approve owner _ _ _ => has_auth (c_auths c) owner = true
  | Mint _ _ opr | Burn _ _ opr | ForcedTransfer _ _ _ opr | RecoverBalance _ _ opr
  | SetAddressFrozen _ _ opr | Freeze _ _ opr | Unfreeze _ _ opr | Pause opr | Unpause opr
  | SetCompliance _ opr | SetIdentityVerifier _ opr => has_auth (c_auths c) opr = true
  | Advance _ => True
  end.
Proof.
  intros hc s c s' r H. apply step_ok in H. unfold exec_with, unit_ret in H. binds H.
  destruct (c_op c); binds H; subst; auto.
  - use transfer_spec. decomp. assumption.
  - use transfer_from_spec. decomp. repeat split; auto.
Qed.


(* C04_pause_and_links: the pause flag and the links to the collaborators change only through
   pause / unpause / set_compliance / set_identity_verifier, and exactly as these say *)
Theorem pause_and_links : forall (hc : hostcfg) (s : state) (c : call) (s' : state) (r : ret),
  step hc s c = (s', Ok r) ->
  match c_op c with
  | Pause _ => paused s = false /\ paused s' = true /\ link_cmp s' = link_cmp s /\ link_idv s' = link_idv s
  | Unpause _ => paused s = true /\ paused s' = false /\ link_cmp s' = link_cmp s /\ link_idv s' = link_idv s
  | SetCompliance w _ => paused s' = paused s /\ link_cmp s' = Some w /\ link_idv s' = link_idv s
  | SetIdentityVerifier w _ => paused s' = paused s /\ link_cmp s' = link_cmp s /\ link_idv s' = Some w
  | RecoverBalance _ _ _ => True          (* C04_recover: paused unchanged; links: exec_links below *)
  | _ => paused s' = paused s /\ link_cmp s' = link_cmp s /\ link_idv s' = link_idv s
  end.
Proof.
  intros hc s c s' r H. apply step_ok in H. unfold exec_with, unit_ret in H. binds H.
  unfold link_cmp, link_idv.
  destruct (c_op c); binds H; subst; auto.
  - use transfer_spec. unfold same_core in *. decomp. cbn in *. repeat split; try congruence; relink; reflexivity.
  - use transfer_from_spec. unfold same_core in *. decomp. cbn in *. repeat split; try congruence; relink; reflexivity.
  - use set_allowance_frame. unfold same_core in *. decomp. cbn in *. repeat split; try congruence; relink; reflexivity.
  - use mint_spec. unfold same_core in *. decomp. cbn in *. repeat split; try congruence; relink; reflexivity.
  - use burn_spec. unfold same_core in *. decomp. cbn in *. repeat split; try congruence; relink; reflexivity.
  - use forced_transfer_spec. unfold same_core in *. decomp. cbn in *. repeat split; try congruence; relink; reflexivity.
  - unfold set_address_frozen in *. binds_all. cbn. auto.
  - use freeze_spec. unfold same_core in *. decomp. cbn in *. repeat split; try congruence; relink; reflexivity.
  - use unfreeze_spec. unfold same_core in *. decomp. cbn in *. repeat split; try congruence; relink; reflexivity.
  - unfold pause in *. binds_all. b2z. cbn in *. auto.
  - unfold unpause in *. binds_all. cbn in *. auto.
Qed.

(* a failing call changes nothing at all (host rollback, by construction of [step]) *)
Theorem failed_call_no_effect : forall (hc : hostcfg) (s : state) (c : call) (s' : state),
  step hc s c = (s', Fail) -> s' = clear_logs s.
Proof. exact step_fail. Qed.

(* the links after ANY call (successful or not) *)
Theorem links_step : forall (hc : hostcfg) (s : state) (c : call) (s' : state) (o : res ret),
  step hc s c = (s', o) ->
  link_cmp s' = (match c_op c with SetCompliance w _ => if is_ok o then Some w else link_cmp s | _ => link_cmp s end) /\
  link_idv s' = (match c_op c with SetIdentityVerifier w _ => if is_ok o then Some w else link_idv s | _ => link_idv s end).
Proof.
  intros hc s c s' o H. destruct o as [r|].
  - pose proof (pause_and_links hc s c s' r H) as P. cbn [is_ok].
    destruct (c_op c) eqn:Hop; try (destruct P as (_ & A & B); split; assumption);
      try (destruct P as (_ & _ & A & B); split; assumption).
    apply step_ok in H. unfold exec_with, unit_ret in H. rewrite Hop in H. binds H.
    destruct x1 as [b s2]. cbv beta iota in H. binds H. subst.
    match goal with H0 : recover_balance _ _ _ _ = Ok _ |- _ => apply recover_links in H0; exact H0 end.
  - apply step_fail in H. subst. cbn [is_ok]. destruct (c_op c); split; reflexivity.
Qed.
