(* C16: the theorems named in DESIGN.md 5 (C16), proved about Model/Gates.v. *)
From SC Require Import Lib.Prelude Lib.Int Lib.Host Model.Gates Model.GatesSpec Proofs.Gates.

(* ------------------------------------------------------------------ *)
(* pause                                                               *)
Lemma paused_blocks_step : forall c s cl,
  is_paus (knd c) = true -> paused s = true -> pausable_op (fst cl) = true ->
  step c s cl = (s, false).
Proof.
  intros c s [o au] Hk Hp Ho. unfold step, step_gen, exec_gen, exec_kind. cbn [fst snd].
  destruct (knd c); try discriminate Hk;
    destruct o; cbn in Ho; try discriminate; cbn [exec_paus exec_paus_ex exec_paus_lib];
    unfold increment, when_not_paused; try rewrite Hp; reflexivity.
Qed.

Lemma run_app c s a b : run c s (a ++ b) = run c (run c s a) b.
Proof. unfold run, run_gen. apply fold_left_app. Qed.

Lemma run_paused_noop c s cs :
  is_paus (knd c) = true -> paused s = true -> Forall (fun cl => pausable_op (fst cl) = true) cs ->
  run c s cs = s.
Proof.
  intros Hk Hp HF. induction HF as [|cl r H _ IH]; [reflexivity|].
  unfold run, run_gen in *. cbn [fold_left]. fold (step c s cl).
  rewrite (paused_blocks_step c s cl Hk Hp H). cbn [fst]. exact IH.
Qed.

(* pause; any number of pausable calls (all refused, no effect); unpause: exactly the state before *)
Lemma pause_roundtrip : forall c s cs au1 au2,
  knd c = KPaus -> paused s = false ->
  has_auth au1 (owner c) = true -> has_auth au2 (owner c) = true ->
  Forall (fun cl => pausable_op (fst cl) = true) cs ->
  run c s ((Pause (owner c), au1) :: cs ++ [(Unpause (owner c), au2)]) = s /\
  (forall cl, In cl cs -> step c (set_paused s true) cl = (set_paused s true, false)).
Proof.
  intros c s cs au1 au2 Hk Hp H1 H2 HF. split.
  - change ((Pause (owner c), au1) :: cs ++ [(Unpause (owner c), au2)])
      with ([(Pause (owner c), au1)] ++ cs ++ [(Unpause (owner c), au2)]).
    rewrite !run_app.
    assert (E1 : run c s [(Pause (owner c), au1)] = set_paused s true).
    { unfold run, run_gen, step_gen, exec_gen, exec_kind. cbn [fold_left fst snd]. rewrite Hk.
      cbn [exec_paus]. unfold require_auth, pause, when_not_paused, guard. rewrite H1, N.eqb_refl, Hp. reflexivity. }
    rewrite E1.
    assert (Hk' : is_paus (knd c) = true) by (rewrite Hk; reflexivity).
    rewrite (run_paused_noop c (set_paused s true) cs Hk' eq_refl HF).
    unfold run, run_gen, step_gen, exec_gen, exec_kind. cbn [fold_left fst snd]. rewrite Hk.
    cbn [exec_paus]. unfold require_auth, unpause, when_paused, guard. rewrite H2, N.eqb_refl.
    cbn. destruct s; cbn in *; subst; reflexivity.
  - intros cl Hin. apply paused_blocks_step; auto.
    + rewrite Hk. reflexivity.
    + rewrite Forall_forall in HF. apply HF; exact Hin.
Qed.

(* successful pause / unpause events of a run *)
Fixpoint pause_events (c : cfg) (s : state) (cs : list call) : list bool :=
  match cs with
  | [] => []
  | cl :: r =>
      let st := step c s cl in
      (match fst cl with
       | Pause _ => if snd st then [true] else []
       | Unpause _ => if snd st then [false] else []
       | _ => []
       end) ++ pause_events c (fst st) r
  end.
(* every event differs from the previous one *)
Fixpoint alternates (prev : bool) (l : list bool) : bool :=
  match l with
  | [] => true
  | x :: r => negb (Bool.eqb x prev) && alternates x r
  end.

Lemma alternation_from c cs : forall h s, Inv c s -> Rel c h s ->
  alternates (paused s) (pause_events c s cs) = true.
Proof.
  induction cs as [|cl r IH]; intros h s HI HR; [reflexivity|].
  cbn [pause_events]. destruct (step_spec_step c h s cl HI HR) as (Hok & _ & Hno & HR' & HI').
  specialize (IH _ _ HI' HR').
  assert (Hp' : paused (fst (step c s cl)) = h_paused (if snd (step c s cl) then hist_upd h (fst cl) else h))
    by (destruct HR' as (_ & Rp & _); symmetry; exact Rp).
  assert (Hp : h_paused h = paused s) by (destruct HR as (_ & Rp & _); exact Rp).
  destruct cl as [o au]. cbn [fst snd] in *.
  destruct (snd (step c s (o, au))) eqn:Eok.
  - unfold expected_ok in Hok. cbn [fst snd] in Hok.
    destruct o; cbn [app]; try (cbn [hist_upd h_paused] in Hp'; rewrite <- Hp, <- Hp'; exact IH).
    + (* Pause *) cbn [hist_upd h_paused] in Hp'. rewrite Hp' in IH. cbn [alternates]. rewrite IH.
      symmetry in Hok. b2p. rewrite <- Hp. rewrite H0. reflexivity.
    + (* Unpause *) cbn [hist_upd h_paused] in Hp'. rewrite Hp' in IH. cbn [alternates]. rewrite IH.
      symmetry in Hok. b2p. rewrite <- Hp. rewrite H0. reflexivity.
  - rewrite Hp' in IH. rewrite <- Hp. destruct o; cbn [app]; exact IH.
Qed.

Lemma alternation : forall c cs, wf_cfg c = true ->
  alternates false (pause_events c (init c) cs) = true.
Proof.
  intros c cs Hw.
  assert (Hp : paused (init c) = false) by (unfold init; destruct (knd c); reflexivity).
  rewrite <- Hp. eapply alternation_from; [apply init_inv; exact Hw|apply init_rel].
Qed.

(* ------------------------------------------------------------------ *)
(* allow list / block list: soundness for every state                   *)
Ltac gate_inv :=
  repeat match goal with
  | H : bind (guard ?b) _ = Ok _ |- _ => destruct b eqn:?; cbn [guard bind] in H; [|discriminate H]
  end.

Lemma allow_sound : forall c s cl s',
  is_allow (knd c) = true -> exec c s cl = Ok s' ->
  forall a, In a (vetted (fst cl)) -> allowed s a = true.
Proof.
  intros c s [o au] s' Hk He a Hin.
  unfold exec, exec_gen, exec_kind in He. cbn [fst snd] in *.
  destruct (knd c); try discriminate Hk;
  destruct o; cbn [vetted In] in Hin; try contradiction;
    cbn [exec_allow_ex exec_allow_lib] in He;
    unfold al_transfer, al_transfer_from, al_approve, al_burn, al_burn_from in He; gate_inv;
    repeat match goal with H : negb _ = true |- _ => apply negb_true_iff in H end;
    repeat match goal with H : orb _ _ = false |- _ => apply orb_false_iff in H; destruct H end;
    repeat match goal with H : negb _ = false |- _ => apply negb_false_iff in H end;
    intuition (subst; auto).
Qed.

Lemma block_sound : forall c s cl s',
  is_block (knd c) = true -> exec c s cl = Ok s' ->
  forall a, In a (vetted (fst cl)) -> blocked s a = false.
Proof.
  intros c s [o au] s' Hk He a Hin.
  unfold exec, exec_gen, exec_kind in He. cbn [fst snd] in *.
  destruct (knd c); try discriminate Hk;
  destruct o; cbn [vetted In] in Hin; try contradiction;
    cbn [exec_block_ex exec_block_lib] in He; try discriminate He;
    unfold bl_transfer, bl_transfer_from, bl_approve, bl_burn, bl_burn_from in He; gate_inv;
    repeat match goal with H : negb _ = true |- _ => apply negb_true_iff in H end;
    repeat match goal with H : orb _ _ = false |- _ => apply orb_false_iff in H; destruct H end;
    intuition (subst; auto).
Qed.

(* the pre-fix allow-list example: a disallowed holder burns *)
Definition prefix_cfg : cfg := mkCfg KAllowEx 4 0%N 3%N 100000 1000 0 5.
Definition prefix_calls : list call :=
  [ (AllowUser 1%N 3%N, [3%N]); (Transfer 0%N 1%N 100, [0%N]); (DisallowUser 1%N 3%N, [3%N]) ].
Lemma prefix_refuted :
  exists c cs cl,
    knd c = KAllowEx /\
    let s := run_gen false c (init c) cs in
    snd (step_prefix c s cl) = true /\
    (exists a, In a (vetted (fst cl)) /\ allowed s a = false) /\
    (* ... while the fixed tree refuses the same call in the same state *)
    run c (init c) cs = s /\ snd (step c s cl) = false.
Proof.
  exists prefix_cfg, prefix_calls, (Burn 1%N 5, [1%N]).
  split; [reflexivity|]. cbn zeta. split; [vm_compute; reflexivity|].
  split; [exists 1%N; split; [left; reflexivity|vm_compute; reflexivity]|].
  split; [reflexivity|vm_compute; reflexivity].
Qed.

(* ------------------------------------------------------------------ *)
(* list changes: immediate and idempotent                               *)
Lemma allow_user_spec s u :
  (forall x, allowed (allow_user s u) x = if N.eqb x u then true else allowed s x) /\
  allow_user (allow_user s u) u = allow_user s u /\
  blocked (allow_user s u) = blocked s /\ bal (allow_user s u) = bal s /\ alw (allow_user s u) = alw s /\
  supply (allow_user s u) = supply s /\ now (allow_user s u) = now s.
Proof.
  unfold allow_user. destruct (allowed s u) eqn:E.
  - rewrite E. repeat split. intros x. destruct (N.eqb x u) eqn:Ex; [b2p; subst; exact E|reflexivity].
  - cbn [set_allowed allowed]. unfold updB at 2. rewrite N.eqb_refl. repeat split.
Qed.
Lemma disallow_user_spec s u :
  (forall x, allowed (disallow_user s u) x = if N.eqb x u then false else allowed s x) /\
  disallow_user (disallow_user s u) u = disallow_user s u /\
  blocked (disallow_user s u) = blocked s /\ bal (disallow_user s u) = bal s /\ alw (disallow_user s u) = alw s /\
  supply (disallow_user s u) = supply s /\ now (disallow_user s u) = now s.
Proof.
  unfold disallow_user. destruct (allowed s u) eqn:E.
  - cbn [set_allowed allowed]. unfold updB at 2. rewrite N.eqb_refl. repeat split.
  - rewrite E. repeat split. intros x. destruct (N.eqb x u) eqn:Ex; [b2p; subst; exact E|reflexivity].
Qed.
Lemma block_user_spec s u :
  (forall x, blocked (block_user s u) x = if N.eqb x u then true else blocked s x) /\
  block_user (block_user s u) u = block_user s u /\
  allowed (block_user s u) = allowed s /\ bal (block_user s u) = bal s /\ alw (block_user s u) = alw s /\
  supply (block_user s u) = supply s /\ now (block_user s u) = now s.
Proof.
  unfold block_user. destruct (blocked s u) eqn:E.
  - rewrite E. repeat split. intros x. destruct (N.eqb x u) eqn:Ex; [b2p; subst; exact E|reflexivity].
  - cbn [set_blocked blocked]. unfold updB at 2. rewrite N.eqb_refl. repeat split.
Qed.
Lemma unblock_user_spec s u :
  (forall x, blocked (unblock_user s u) x = if N.eqb x u then false else blocked s x) /\
  unblock_user (unblock_user s u) u = unblock_user s u /\
  allowed (unblock_user s u) = allowed s /\ bal (unblock_user s u) = bal s /\ alw (unblock_user s u) = alw s /\
  supply (unblock_user s u) = supply s /\ now (unblock_user s u) = now s.
Proof.
  unfold unblock_user. destruct (blocked s u) eqn:E.
  - cbn [set_blocked blocked]. unfold updB at 2. rewrite N.eqb_refl. repeat split.
  - rewrite E. repeat split. intros x. destruct (N.eqb x u) eqn:Ex; [b2p; subst; exact E|reflexivity].
Qed.

(* a successful list call is exactly the library function, whatever the list said before;
   doing it again changes nothing; the very next gated call sees it *)
Lemma list_call_immediate_idempotent : forall c s u operator au s',
  (is_allow (knd c) = true ->
     (exec c s (AllowUser u operator, au) = Ok s' ->
        s' = allow_user s u /\ exec c s' (AllowUser u operator, au) = Ok s' /\ allowed s' u = true) /\
     (exec c s (DisallowUser u operator, au) = Ok s' ->
        s' = disallow_user s u /\ exec c s' (DisallowUser u operator, au) = Ok s' /\ allowed s' u = false /\
        forall cl s'', In u (vetted (fst cl)) -> exec c s' cl <> Ok s'')) /\
  (is_block (knd c) = true ->
     (exec c s (BlockUser u operator, au) = Ok s' ->
        s' = block_user s u /\ exec c s' (BlockUser u operator, au) = Ok s' /\ blocked s' u = true /\
        forall cl s'', In u (vetted (fst cl)) -> exec c s' cl <> Ok s'') /\
     (exec c s (UnblockUser u operator, au) = Ok s' ->
        s' = unblock_user s u /\ exec c s' (UnblockUser u operator, au) = Ok s' /\ blocked s' u = false)).
Proof.
  intros c s u operator au s'. split; intros Hk.
  - split; intros He.
    + assert (Hm : forall t, mgr (allow_user t u) = mgr t) by (intros t; unfold allow_user; destruct (allowed t u); reflexivity).
      assert (E : s' = allow_user s u /\ exec c (allow_user s u) (AllowUser u operator, au) = Ok (allow_user (allow_user s u) u)).
      { unfold exec, exec_gen, exec_kind in *. cbn [fst snd] in *.
        destruct (knd c); try discriminate Hk; cbn [exec_allow_ex exec_allow_lib] in *.
        - destruct (only_manager s au operator) eqn:EO; cbn [bind] in He; [|discriminate]. split; [congruence|].
          unfold only_manager in *. rewrite Hm, EO. reflexivity.
        - split; [congruence|reflexivity]. }
      destruct E as [E1 E2]. subst s'. destruct (allow_user_spec s u) as (A1 & A2 & _).
      split; [reflexivity|]. split; [rewrite E2, A2; reflexivity|]. rewrite A1, N.eqb_refl. reflexivity.
    + assert (Hm : forall t, mgr (disallow_user t u) = mgr t) by (intros t; unfold disallow_user; destruct (allowed t u); reflexivity).
      assert (E : s' = disallow_user s u /\ exec c (disallow_user s u) (DisallowUser u operator, au) = Ok (disallow_user (disallow_user s u) u)).
      { unfold exec, exec_gen, exec_kind in *. cbn [fst snd] in *.
        destruct (knd c); try discriminate Hk; cbn [exec_allow_ex exec_allow_lib] in *.
        - destruct (only_manager s au operator) eqn:EO; cbn [bind] in He; [|discriminate]. split; [congruence|].
          unfold only_manager in *. rewrite Hm, EO. reflexivity.
        - split; [congruence|reflexivity]. }
      destruct E as [E1 E2]. subst s'. destruct (disallow_user_spec s u) as (A1 & A2 & _).
      split; [reflexivity|]. split; [rewrite E2, A2; reflexivity|].
      assert (Hf : allowed (disallow_user s u) u = false) by (rewrite A1, N.eqb_refl; reflexivity).
      split; [exact Hf|]. intros cl s'' Hin Hx.
      rewrite (allow_sound c _ cl s'' Hk Hx u Hin) in Hf. discriminate.
  - split; intros He.
    + assert (Hm : forall t, mgr (block_user t u) = mgr t) by (intros t; unfold block_user; destruct (blocked t u); reflexivity).
      assert (E : s' = block_user s u /\ exec c (block_user s u) (BlockUser u operator, au) = Ok (block_user (block_user s u) u)).
      { unfold exec, exec_gen, exec_kind in *. cbn [fst snd] in *.
        destruct (knd c); try discriminate Hk; cbn [exec_block_ex exec_block_lib] in *.
        - destruct (only_manager s au operator) eqn:EO; cbn [bind] in He; [|discriminate]. split; [congruence|].
          unfold only_manager in *. rewrite Hm, EO. reflexivity.
        - split; [congruence|reflexivity]. }
      destruct E as [E1 E2]. subst s'. destruct (block_user_spec s u) as (A1 & A2 & _).
      split; [reflexivity|]. split; [rewrite E2, A2; reflexivity|].
      assert (Hf : blocked (block_user s u) u = true) by (rewrite A1, N.eqb_refl; reflexivity).
      split; [exact Hf|]. intros cl s'' Hin Hx.
      rewrite (block_sound c _ cl s'' Hk Hx u Hin) in Hf. discriminate.
    + assert (Hm : forall t, mgr (unblock_user t u) = mgr t) by (intros t; unfold unblock_user; destruct (blocked t u); reflexivity).
      assert (E : s' = unblock_user s u /\ exec c (unblock_user s u) (UnblockUser u operator, au) = Ok (unblock_user (unblock_user s u) u)).
      { unfold exec, exec_gen, exec_kind in *. cbn [fst snd] in *.
        destruct (knd c); try discriminate Hk; cbn [exec_block_ex exec_block_lib] in *.
        - destruct (only_manager s au operator) eqn:EO; cbn [bind] in He; [|discriminate]. split; [congruence|].
          unfold only_manager in *. rewrite Hm, EO. reflexivity.
        - split; [congruence|reflexivity]. }
      destruct E as [E1 E2]. subst s'. destruct (unblock_user_spec s u) as (A1 & A2 & _).
      split; [reflexivity|]. split; [rewrite E2, A2; reflexivity|]. rewrite A1, N.eqb_refl. reflexivity.
Qed.

(* ------------------------------------------------------------------ *)
(* cap                                                                 *)
Lemma cap_mint_sound : forall c s t a au s',
  is_cap (knd c) = true -> exec c s (Mint t a, au) = Ok s' ->
  exists cp, cap s = Some cp /\ cap s' = Some cp /\
             supply s' = supply s + a /\ supply s' <= cp /\ 0 <= a /\ supply s + a <= MAX128.
Proof.
  intros c s t a au s' Hk He.
  unfold exec, exec_gen, exec_kind in He. cbn [fst snd] in He.
  assert (Hm : capped_mint s t a = Ok s')
    by (destruct (knd c); try discriminate Hk; exact He).
  clear He. unfold capped_mint in Hm. rewrite check_cap_closed, bind_guard in Hm.
  destruct (cap s) as [cp|] eqn:Ec; [|discriminate Hm].
  destruct (in_i128 (supply s + a) && negb (cp <? supply s + a)) eqn:G; [|discriminate Hm].
  unfold base_mint in Hm. rewrite update_mint in Hm.
  destruct (negb (a <? 0) && in_i128 (supply s + a) && credit_ok (view_st s) None t a) eqn:G2; [|discriminate Hm].
  inversion Hm; subst s'. exists cp. cbn [set_bal set_supply cap supply].
  b2p. unfold in_i128 in *. b2p.
  repeat split; auto; lia.
Qed.

(* supply + amount beyond i128 => the mint fails, whatever the cap *)
Lemma cap_mint_overflow : forall c s t a au,
  is_cap (knd c) = true -> MAX128 < supply s + a -> step c s (Mint t a, au) = (s, false).
Proof.
  intros c s t a au Hk Ho. unfold step, step_gen. fold (exec c s (Mint t a, au)).
  destruct (exec c s (Mint t a, au)) as [s'|] eqn:He; [|reflexivity].
  destruct (cap_mint_sound c s t a au s' Hk He) as (cp & _ & _ & _ & _ & _ & H). lia.
Qed.

(* every call other than a cap-checked mint, a burn or set_cap leaves supply and cap alone *)
Lemma cap_frame c h s cl : Inv c s -> Rel c h s -> is_cap (knd c) = true ->
  forall s', exec c s cl = Ok s' ->
  cap s' = (match fst cl with SetCap x => Some x | _ => cap s end) /\
  supply s' = (match fst cl with
               | Mint _ a => supply s + a
               | Burn _ a | BurnFrom _ _ a => supply s - a
               | WhenNotPaused => supply s + 1
               | WhenPaused => 0
               | _ => supply s end).
Proof.
  intros HI HR Hk s' He. pose proof (exec_spec c h s cl HI HR) as H. rewrite He in H.
  destruct H as (_ & (e1 & _ & _ & e4 & _) & _). split.
  - rewrite e4. destruct (fst cl); reflexivity.
  - rewrite e1. destruct (fst cl); reflexivity.
Qed.

(* the capped example: the cap is fixed at construction, the supply never exceeds it *)
Lemma cap_invariant_example : forall c cs,
  knd c = KCapEx -> wf_cfg c = true -> 0 <= init_cap c ->
  let s := run c (init c) cs in
  cap s = Some (init_cap c) /\ 0 <= supply s <= init_cap c.
Proof.
  intros c cs Hk Hw Hc. cbn zeta.
  assert (G : forall cs s h, Inv c s -> Rel c h s ->
            (cap s = Some (init_cap c) /\ 0 <= supply s <= init_cap c) ->
            cap (run c s cs) = Some (init_cap c) /\ 0 <= supply (run c s cs) <= init_cap c).
  { clear cs. induction cs as [|cl r IH]; intros s h HI HR Hinv; [exact Hinv|].
    unfold run, run_gen. cbn [fold_left]. fold (step c s cl). fold (run c (fst (step c s cl)) r).
    destruct (step_spec_step c h s cl HI HR) as (_ & _ & _ & HR' & HI').
    eapply IH; eauto.
    unfold step, step_gen. fold (exec c s cl).
    destruct (exec c s cl) as [s'|] eqn:He; cbn [fst]; [|exact Hinv].
    assert (Hkc : is_cap (knd c) = true) by (rewrite Hk; reflexivity).
    destruct (cap_frame c h s cl HI HR Hkc s' He) as [F1 F2].
    destruct Hinv as [I1 I2]. destruct cl as [o au]. cbn [fst] in *.
    destruct o; try (rewrite F1, F2; split; [exact I1|exact I2]).
    - (* Burn: no such entry point *)
      exfalso. unfold exec, exec_gen, exec_kind in He. cbn [fst snd] in He. rewrite Hk in He. discriminate He.
    - exfalso. unfold exec, exec_gen, exec_kind in He. cbn [fst snd] in He. rewrite Hk in He. discriminate He.
    - (* Mint *)
      destruct (cap_mint_sound c s to amt au s' Hkc He) as (cp & C1 & C2 & C3 & C4 & C5 & _).
      rewrite I1 in C1. inversion C1; subst cp. split; [exact C2|lia].
    - exfalso. unfold exec, exec_gen, exec_kind in He. cbn [fst snd] in He. rewrite Hk in He. discriminate He.
    - exfalso. unfold exec, exec_gen, exec_kind in He. cbn [fst snd] in He. rewrite Hk in He. discriminate He.
    - exfalso. unfold exec, exec_gen, exec_kind in He. cbn [fst snd] in He. rewrite Hk in He. discriminate He. }
  eapply G; [apply init_inv; exact Hw|apply init_rel|].
  unfold init. rewrite Hk. cbn. split; [reflexivity|lia].
Qed.

(* with set_cap callable (library level): as long as no successful set_cap goes below the
   supply of its moment, supply <= cap in every reachable state *)
Fixpoint setcaps_above (c : cfg) (s : state) (cs : list call) : bool :=
  match cs with
  | [] => true
  | cl :: r =>
      (match fst cl with
       | SetCap x => implies (snd (step c s cl)) (supply s <=? x)
       | _ => true
       end) && setcaps_above c (fst (step c s cl)) r
  end.

Lemma cap_invariant_lib : forall c cs,
  knd c = KCapLib -> wf_cfg c = true -> setcaps_above c (init c) cs = true ->
  let s := run c (init c) cs in
  match cap s with Some cp => supply s <= cp | None => True end.
Proof.
  intros c cs Hk Hw Hs. cbn zeta.
  assert (Hkc : is_cap (knd c) = true) by (rewrite Hk; reflexivity).
  assert (G : forall cs s h, Inv c s -> Rel c h s -> setcaps_above c s cs = true ->
            match cap s with Some cp => supply s <= cp | None => True end ->
            match cap (run c s cs) with Some cp => supply (run c s cs) <= cp | None => True end).
  { clear cs Hs. induction cs as [|cl r IH]; intros s h HI HR Hs Hinv; [exact Hinv|].
    unfold run, run_gen. cbn [fold_left]. fold (step c s cl). fold (run c (fst (step c s cl)) r).
    cbn [setcaps_above] in Hs. apply andb_true_iff in Hs. destruct Hs as [Hs1 Hs2].
    destruct (step_spec_step c h s cl HI HR) as (Hok & _ & _ & HR' & HI').
    eapply IH; eauto.
    revert Hs1 Hok. unfold step, step_gen. fold (exec c s cl).
    destruct (exec c s cl) as [s'|] eqn:He; cbn [fst snd]; intros Hs1 Hok; [|exact Hinv].
    destruct (cap_frame c h s cl HI HR Hkc s' He) as [F1 F2].
    destruct cl as [o au]. cbn [fst] in *.
    symmetry in Hok. unfold expected_ok in Hok. cbn [fst snd] in Hok. rewrite Hk in Hok.
    destruct o; try (rewrite F1, F2; exact Hinv).
    - (* Burn: the supply only goes down *)
      rewrite F1, F2. cbn [has_entry base_ok andb] in Hok. b2p.
      destruct (cap s); [lia|exact I].
    - (* BurnFrom *)
      rewrite F1, F2. cbn [has_entry base_ok andb] in Hok. b2p.
      destruct (cap s); [lia|exact I].
    - (* Mint *)
      destruct (cap_mint_sound c s to amt au s' Hkc He) as (cp & C1 & C2 & C3 & C4 & _).
      rewrite C2. exact C4.
    - (* SetCap: by hypothesis not below the supply *)
      rewrite F1, F2. unfold implies in Hs1. cbn [negb orb] in Hs1. b2p. exact Hs1.
    - exfalso. unfold exec, exec_gen, exec_kind in He. cbn [fst snd] in He. rewrite Hk in He. discriminate He.
    - exfalso. unfold exec, exec_gen, exec_kind in He. cbn [fst snd] in He. rewrite Hk in He. discriminate He. }
  eapply G; [apply init_inv; exact Hw|apply init_rel|exact Hs|].
  unfold init. rewrite Hk. cbn. exact I.
Qed.

(* ------------------------------------------------------------------ *)
(* upgrade / migrate                                                   *)

(* for every state: migrate succeeds iff authorised and the flag is set; it clears the flag and
   runs _migrate; upgrade (authorised, wasm known) sets the flag; nothing else touches it *)
Lemma migrate_step : forall c s d operator au,
  knd c = KUpgV1 \/ knd c = KUpgV2 ->
  exec c s (Migrate d operator, au) =
    if has_auth au operator && N.eqb operator (owner c) && migrating s
    then Ok (set_mig (set_mdata s (Some d)) false) else Fail.
Proof.
  intros c s d operator au Hk. unfold exec, exec_gen, exec_kind. cbn [fst snd].
  destruct Hk as [Hk|Hk]; rewrite Hk; cbn [exec_upg_v1 exec_upg_v2];
    unfold migrate, upg_require_auth, require_auth, ensure_can_complete_migration, complete_migration;
    rewrite bind_guard2, bind_guard, if_and; reflexivity.
Qed.

Lemma upgrade_step : forall c s w operator au,
  knd c = KUpgV1 \/ knd c = KUpgV2 ->
  exec c s (Upgrade w operator, au) =
    if has_auth au operator && N.eqb operator (owner c) && w then Ok (set_mig s true) else Fail.
Proof.
  intros c s w operator au Hk. unfold exec, exec_gen, exec_kind. cbn [fst snd].
  destruct Hk as [Hk|Hk]; rewrite Hk; cbn [exec_upg_v1 exec_upg_v2];
    unfold upgrade, upg_require_auth, require_auth, enable_migration;
    rewrite bind_guard2, bind_guard, if_and; reflexivity.
Qed.

(* over every call sequence from deployment: a migration succeeds exactly when it is authorised
   and an upgrade succeeded since the last successful migration (never before the first upgrade) *)
Lemma migrate_once : forall c cs d operator au,
  knd c = KUpgV1 \/ knd c = KUpgV2 -> wf_cfg c = true ->
  let hs := hist_run c (hist0 c, init c) cs in
  snd (step c (snd hs) (Migrate d operator, au)) =
    has_auth au operator && N.eqb operator (owner c) && h_armed (fst hs).
Proof.
  intros c cs d operator au Hk Hw. cbn zeta.
  destruct (hist_run_inv c cs _ _ (init_inv c Hw) (init_rel c)) as [(R1 & R2 & R3 & R4 & R5) _].
  unfold step, step_gen. fold (exec c (snd (hist_run c (hist0 c, init c) cs)) (Migrate d operator, au)).
  rewrite migrate_step by exact Hk. rewrite R4.
  destruct (has_auth au operator && N.eqb operator (owner c) && migrating (snd (hist_run c (hist0 c, init c) cs))); reflexivity.
Qed.

(* what h_armed is, spelled out: the flag after a run *)
Fixpoint armed_after (c : cfg) (s : state) (armed : bool) (cs : list call) : bool :=
  match cs with
  | [] => armed
  | cl :: r =>
      let st := step c s cl in
      armed_after c (fst st)
        (if snd st then match fst cl with
                        | Upgrade _ _ | LibEnable => true
                        | Migrate _ _ | LibComplete => false
                        | _ => armed end
         else armed) r
  end.
Lemma hist_run_cons c h s cl r :
  hist_run c (h, s) (cl :: r) =
  hist_run c (if snd (step c s cl) then hist_upd h (fst cl) else h, fst (step c s cl)) r.
Proof. reflexivity. Qed.
Lemma armed_after_hist c cs : forall h s,
  h_armed (fst (hist_run c (h, s) cs)) = armed_after c s (h_armed h) cs.
Proof.
  induction cs as [|cl r IH]; intros h s; [reflexivity|].
  rewrite hist_run_cons. cbn [armed_after]. rewrite IH. f_equal.
  destruct (snd (step c s cl)); [|reflexivity]. destruct (fst cl); reflexivity.
Qed.

Lemma migrate_once_explicit : forall c cs d operator au,
  knd c = KUpgV1 \/ knd c = KUpgV2 -> wf_cfg c = true ->
  snd (step c (run c (init c) cs) (Migrate d operator, au)) =
    has_auth au operator && N.eqb operator (owner c) && armed_after c (init c) false cs.
Proof.
  intros c cs d operator au Hk Hw.
  pose proof (migrate_once c cs d operator au Hk Hw) as H. cbn zeta in H.
  rewrite hist_run_state in H. rewrite H. rewrite armed_after_hist. reflexivity.
Qed.

(* a muxed receiver is the plain transfer to its underlying address, for every contract and state;
   in particular the receiver vetting of the lists applies to that address *)
Lemma muxed_receiver : forall c s f t i a au,
  exec c s (TransferMux f t i a, au) = exec c s (Transfer f t a, au) /\
  vetted (TransferMux f t i a) = [f; t] /\ pausable_op (TransferMux f t i a) = true.
Proof. intros. repeat split. Qed.
