(* C05: per-participant reading of "nobody takes out more than he put in plus his share of donations".
   wealth(u, s) = assets u holds + his shares valued at the rate of s:  abal u + sb u * (A+1)/(S+P).
   - an operation a participant performs for himself never increases his wealth (new state, new rate) -
     rounding only ever costs the one who acts;
   - every other step can only raise the rate (VaultRate.v), i.e. the value of everybody's shares: that - donations,
     yield and the rounding losses of the others - is the only source of gain;
   - all claims together are always covered by the vault's holdings;
   - the literal reading "out <= in + donations" is refuted: the rounding losses of others are captured too. *)
From SC Require Import Lib.Prelude Lib.Int Lib.Host Model.Math Proofs.Math Model.Vault
  Proofs.VaultSpec Proofs.VaultToken Proofs.VaultOps Proofs.VaultRate Proofs.VaultTrips Proofs.VaultLive Proofs.C05Final.
From Coq Require Import ZifyBool.

(* ---------- arithmetic ---------- *)
(* N = A+1, D = S+P before; a assets in, sh shares out, sh*N <= a*D; k = shares held before *)
Lemma wealth_in N D a sh k : sh * N <= a * D -> 0 <= k <= D ->
  (k + sh) * (N + a) * D <= k * N * (D + sh) + a * D * (D + sh).
Proof.
  intros H1 Hk.
  assert (E : k * N * (D + sh) + a * D * (D + sh) - (k + sh) * (N + a) * D = (a * D - sh * N) * (D - k)) by ring.
  assert (0 <= (a * D - sh * N) * (D - k)) by (apply Z.mul_nonneg_nonneg; lia). lia.
Qed.
(* a assets out, x shares in, a*D <= x*N *)
Lemma wealth_out N D a x k : a * D <= x * N -> 0 <= k <= D ->
  (k - x) * (N - a) * D + a * D * (D - x) <= k * N * (D - x).
Proof.
  intros H1 Hk.
  assert (E : k * N * (D - x) - ((k - x) * (N - a) * D + a * D * (D - x)) = (x * N - a * D) * (D - k)) by ring.
  assert (0 <= (x * N - a * D) * (D - k)) by (apply Z.mul_nonneg_nonneg; lia). lia.
Qed.

(* wealth(u, s') <= wealth(u, s), cross-multiplied by the two positive denominators S+P and S'+P *)
Definition wealth_le (c : cfg) (u : addr) (s' s : state) : Prop :=
  (bal (asset s') u * (total_supply s' + P_of c) + bal (share s') u * (total_assets s' + 1)) * (total_supply s + P_of c)
  <= (bal (asset s) u * (total_supply s + P_of c) + bal (share s) u * (total_assets s + 1)) * (total_supply s' + P_of c).

Section Own.
  Variable c : cfg.
  Hypothesis Hc : wf_cfg c.
  Variable s : state.
  Hypothesis Hi : Inv c s.
  Variable u : addr.
  Hypothesis Hu : u <> V.

  Lemma held_bounds : 0 <= bal (share s) u <= total_supply s + P_of c.
  Proof.
    pose proof (tok_inv_bal_le (share s) u (proj1 (proj2 Hi))). pose proof (P_pos c Hc). unfold total_supply. lia.
  Qed.

  Lemma own_deposit_like s' au evs a sh :
    dep_moves s s' au evs a sh u u u -> sh * (total_assets s + 1) <= a * (total_supply s + P_of c) ->
    wealth_le c u s' s.
  Proof.
    intros (Hnow & Hab & _ & Hsb & Hss & _) Hfav. unfold wealth_le, total_assets, total_supply in *.
    rewrite Hab, Hsb, Hss. rewrite move_from by exact Hu. rewrite move_to by exact Hu. rewrite upd_eq.
    pose proof held_bounds as Hk. unfold total_supply in Hk.
    set (N := bal (asset s) V + 1) in *. set (D := supply (share s) + P_of c) in *. set (k := bal (share s) u) in *.
    set (b := bal (asset s) u).
    pose proof (wealth_in N D a sh k Hfav Hk) as Hw.
    replace (bal (asset s) V + a + 1) with (N + a) by (unfold N; ring).
    replace (supply (share s) + sh + P_of c) with (D + sh) by (unfold D; ring).
    assert (E : ((b - a) * (D + sh) + (k + sh) * (N + a)) * D = b * D * (D + sh) + ((k + sh) * (N + a) * D - a * D * (D + sh))) by ring.
    assert (E2 : (b * D + k * N) * (D + sh) = b * D * (D + sh) + k * N * (D + sh)) by ring.
    lia.
  Qed.

  Lemma own_withdraw_like s' au evs a x :
    wd_moves s s' au evs a x u u u -> a * (total_supply s + P_of c) <= x * (total_assets s + 1) ->
    wealth_le c u s' s.
  Proof.
    intros (Hnow & Hab & _ & _ & Hsb & Hss & _) Hfav. unfold wealth_le, total_assets, total_supply in *.
    rewrite Hab, Hsb, Hss. rewrite move_from by (intros E; apply Hu; symmetry; exact E).
    rewrite move_to by (intros E; apply Hu; symmetry; exact E). rewrite upd_eq.
    pose proof held_bounds as Hk. unfold total_supply in Hk.
    set (N := bal (asset s) V + 1) in *. set (D := supply (share s) + P_of c) in *. set (k := bal (share s) u) in *.
    set (b := bal (asset s) u).
    pose proof (wealth_out N D a x k Hfav Hk) as Hw.
    replace (bal (asset s) V - a + 1) with (N - a) by (unfold N; ring).
    replace (supply (share s) - x + P_of c) with (D - x) by (unfold D; ring).
    assert (E : ((b + a) * (D - x) + (k - x) * (N - a)) * D = b * D * (D - x) + ((k - x) * (N - a) * D + a * D * (D - x))) by ring.
    assert (E2 : (b * D + k * N) * (D - x) = b * D * (D - x) + k * N * (D - x)) by ring.
    lia.
  Qed.

  (* the four operations, performed by u for himself *)
  Theorem own_operation_never_profits cl s' v evs :
    wf_call cl = true -> step c s cl = (s', Ok (v, evs)) ->
    match cl with
    | Deposit _ r f o _ | MintS _ r f o _ | Withdraw _ r f o _ | Redeem _ r f o _ =>
        r = u -> f = u -> o = u -> wealth_le c u s' s
    | _ => True
    end.
  Proof.
    intros Hwf H. pose proof (moves_exactly_final c s cl s' v evs H) as Hm.
    destruct (wf_call_parts cl Hwf) as (Hnv & Hr).
    destruct cl as [a r f o au|x r f o au|a r ow o au|x r ow o au| | | | | | | | | | ]; auto;
      cbn [call_amount] in Hr; intros -> -> ->.
    - pose proof (preview_exact_final c s _ s' v evs H) as Hp. cbn in Hp.
      destruct (to_shares_floor c s Hc Hi a v Hr Hp) as (_ & _ & Hfl & _).
      apply (own_deposit_like s' au evs a v Hm Hfl).
    - pose proof (preview_exact_final c s _ s' v evs H) as Hp. cbn in Hp.
      destruct (to_assets_ceil c s Hc Hi x v Hr Hp) as (_ & _ & Hce & _).
      apply (own_deposit_like s' au evs v x Hm Hce).
    - pose proof (preview_exact_final c s _ s' v evs H) as Hp. cbn in Hp.
      destruct (to_shares_ceil c s Hc Hi a v Hr Hp) as (_ & _ & Hce & _).
      apply (own_withdraw_like s' au evs a v Hm Hce).
    - pose proof (preview_exact_final c s _ s' v evs H) as Hp. cbn in Hp.
      destruct (to_assets_floor c s Hc Hi x v Hr Hp) as (_ & _ & Hfl & _).
      apply (own_withdraw_like s' au evs v x Hm Hfl).
  Qed.
End Own.

(* ---------- all claims are covered ---------- *)
Definition claim (c : cfg) (s : state) (u : addr) : Z :=
  exact Floor (bal (share s) u * (total_assets s + 1)) (total_supply s + P_of c).
Fixpoint claims (c : cfg) (s : state) (l : list addr) : Z :=
  match l with [] => 0 | u :: r => claim c s u + claims c s r end.

Lemma claims_bound c s l : 0 < total_supply s + P_of c ->
  claims c s l * (total_supply s + P_of c) <= sum_over (bal (share s)) l * (total_assets s + 1).
Proof.
  intros HD. induction l as [|u l IH]; cbn [claims sum_over]; [lia|].
  pose proof (floor_pos (bal (share s) u * (total_assets s + 1)) (total_supply s + P_of c) HD) as Hf. cbn zeta in Hf.
  unfold claim. nia.
Qed.

(* whatever set of distinct holders redeems everything at the current rate, the vault can pay *)
Theorem all_claims_covered c s l : wf_cfg c -> Inv c s -> NoDup l -> claims c s l <= total_assets s.
Proof.
  intros Hc Hi Hnd. destruct (den_pos c s Hc Hi) as (HA1 & HSP & HA & HS & HP).
  pose proof (claims_bound c s l HSP) as Hb.
  assert (Hsum : sum_over (bal (share s)) l <= total_supply s) by (apply (proj2 (proj2 (proj1 (proj2 Hi)))); exact Hnd).
  assert (H1 : sum_over (bal (share s)) l * (total_assets s + 1) <= total_supply s * (total_assets s + 1)) by nia.
  assert (H2 : claims c s l * (total_supply s + P_of c) < (total_assets s + 1) * (total_supply s + P_of c)) by nia.
  assert (claims c s l < total_assets s + 1) by nia. lia.
Qed.

(* ---------- in by deposit or mint, out by redeem or withdraw, any history in between ---------- *)
Section Bound.
  Variable c : cfg.
  Hypothesis Hc : wf_cfg c.
  Local Notation P := (P_of c).

  (* [a] assets went in for [sh] shares at state s; later at most those shares are burned for [a'] assets at s2 *)
  Lemma in_out_bound s s2 a sh x a' : Inv c s -> Inv c s2 -> 0 <= a -> 0 <= sh -> 0 <= a' ->
    sh * (total_assets s + 1) <= a * (total_supply s + P) -> 0 <= x <= sh ->
    a' * (total_supply s2 + P) <= x * (total_assets s2 + 1) ->
    a' * (total_supply s2 + P) * (total_assets s + 1) <= a * (total_assets s2 + 1) * (total_supply s + P).
  Proof.
    intros Hi Hi2 Ha Hsh Ha' H1 Hx H2.
    destruct (den_pos c s Hc Hi) as (? & ? & _). destruct (den_pos c s2 Hc Hi2) as (? & ? & _).
    apply (trip_rate_bound _ _ _ a sh _ _ x a'); auto.
  Qed.

  Theorem history_bound s cin s1 vin e1 cs cout s3 vout e2 :
    Inv c s -> wf_call cin = true -> forallb wf_call cs = true -> wf_call cout = true ->
    step c s cin = (s1, Ok (vin, e1)) ->
    step c (run c s1 cs) cout = (s3, Ok (vout, e2)) ->
    let s2 := run c s1 cs in
    (* assets paid in / shares received, assets taken out / shares burned *)
    let a := match cin with Deposit a _ _ _ _ => a | _ => vin end in
    let sh := match cin with Deposit _ _ _ _ _ => vin | _ => call_amount cin end in
    let a' := match cout with Redeem _ _ _ _ _ => vout | _ => call_amount cout end in
    let x := match cout with Redeem x _ _ _ _ => x | _ => vout end in
    match cin, cout with
    | (Deposit _ _ _ _ _ | MintS _ _ _ _ _), (Redeem _ _ _ _ _ | Withdraw _ _ _ _ _) =>
        x <= sh ->
        a' * (total_supply s2 + P) * (total_assets s + 1) <= a * (total_assets s2 + 1) * (total_supply s + P)
    | _, _ => True
    end.
  Proof.
    intros Hi W1 Wcs W2 H1 H2 s2 a sh a' x.
    destruct cin as [ai ri fi oi aui|xi ri fi oi aui| | | | | | | | | | | | ]; auto;
      destruct cout as [ | |ao ro owo oo auo|xo ro owo oo auo| | | | | | | | | | ]; auto; intros Hx; subst a sh a' x; cbn [call_amount] in *.
    - (* deposit ... withdraw *)
      destruct (deposit_step_facts c Hc _ _ _ _ _ _ _ _ _ Hi W1 H1) as (Hi1 & _ & _ & Ha & Hsh & Hfav).
      destruct (run_inv_rate c Hc cs s1 Hi1 Wcs) as (Hi2 & _).
      destruct (withdraw_step_facts c Hc _ _ _ _ _ _ _ _ _ Hi2 W2 H2) as (Hy & Hv & Hfav2).
      apply (in_out_bound s (run c s1 cs) ai vin vout ao); auto; lia.
    - (* deposit ... redeem *)
      destruct (deposit_step_facts c Hc _ _ _ _ _ _ _ _ _ Hi W1 H1) as (Hi1 & _ & _ & Ha & Hsh & Hfav).
      destruct (run_inv_rate c Hc cs s1 Hi1 Wcs) as (Hi2 & _).
      destruct (redeem_step_facts c Hc _ _ _ _ _ _ _ _ _ Hi2 W2 H2) as (Hy & Hv & Hfav2).
      apply (in_out_bound s (run c s1 cs) ai vin xo vout); auto; lia.
    - (* mint ... withdraw *)
      destruct (mint_step_facts c Hc _ _ _ _ _ _ _ _ _ Hi W1 H1) as (Hi1 & _ & _ & Ha & Hsh & Hfav).
      destruct (run_inv_rate c Hc cs s1 Hi1 Wcs) as (Hi2 & _).
      destruct (withdraw_step_facts c Hc _ _ _ _ _ _ _ _ _ Hi2 W2 H2) as (Hy & Hv & Hfav2).
      apply (in_out_bound s (run c s1 cs) vin xi vout ao); auto; lia.
    - (* mint ... redeem *)
      destruct (mint_step_facts c Hc _ _ _ _ _ _ _ _ _ Hi W1 H1) as (Hi1 & _ & _ & Ha & Hsh & Hfav).
      destruct (run_inv_rate c Hc cs s1 Hi1 Wcs) as (Hi2 & _).
      destruct (redeem_step_facts c Hc _ _ _ _ _ _ _ _ _ Hi2 W2 H2) as (Hy & Hv & Hfav2).
      apply (in_out_bound s (run c s1 cs) vin xi xo vout); auto; lia.
  Qed.
End Bound.
