(* C18 - facts about the situations added in the fourth round (special values, aliasing,
   histories, the generic entry path). *)
From SC Require Import Lib.Prelude Lib.Int Model.Base64 Model.Verifiers Proofs.Base64 Proofs.Verifiers.

(* K2 / K6 (signature counter, rpIdHash, extension bytes): of the authenticator data the decision
   logic reads ONLY its length against the minimum and byte 32; every other byte (the counter
   in 33..36 going up, down, to 0 or to u32::MAX; attested credential data of any length)
   reaches the verdict through the signature oracle alone. *)
Lemma wa_decide_authdata_dependence : forall c payload ad1 ad2 cd parsed sig_ok,
  (len ad1 <? min_ad c) = (len ad2 <? min_ad c) ->
  nth_error ad1 32 = nth_error ad2 32 ->
  wa_decide c payload ad1 cd parsed sig_ok = wa_decide c payload ad2 cd parsed sig_ok.
Proof.
  intros c payload ad1 ad2 cd parsed sig_ok HL HN. unfold wa_decide. rewrite HL, HN. reflexivity.
Qed.

Theorem wa_verify_authdata_dependence : forall c parse sha256 pv payload key sig1 sig2 ad1 ad2 cd,
  (len ad1 <? min_ad c) = (len ad2 <? min_ad c) ->
  nth_error ad1 32 = nth_error ad2 32 ->
  pv key (sha256 (ad1 ++ sha256 cd)) sig1 = pv key (sha256 (ad2 ++ sha256 cd)) sig2 ->
  wa_verify c parse sha256 pv payload key sig1 ad1 cd = wa_verify c parse sha256 pv payload key sig2 ad2 cd.
Proof.
  intros c parse sha256 pv payload key sig1 sig2 ad1 ad2 cd HL HN HS. unfold wa_verify. rewrite HS.
  apply wa_decide_authdata_dependence; assumption.
Qed.

(* K5 (authenticator data and client data the same byte string): no special case - the
   equivalence of C18_webauthn_iff read at ad = cd = x; the signed message is x ++ sha256 x *)
Theorem wa_verify_alias_ad_cd : forall c parse sha256 pv payload key sig x,
  bytes_ok payload = true ->
  (wa_verify c parse sha256 pv payload key sig x x = Ok true <->
   len x <= max_cd c /\
   (exists ty ch, parse x = Some (ty, ch) /\ ty = WEBAUTHN_GET /\
                  32 <= len payload /\ ch = rfc4648_url_nopad (firstn 32 payload)) /\
   min_ad c <= len x /\
   (exists f, nth_error x 32 = Some f /\ Z.testbit f 0 = true /\ Z.testbit f 2 = true /\
              ~ (Z.testbit f 3 = false /\ Z.testbit f 4 = true)) /\
   pv key (sha256 (x ++ sha256 x)) sig = true).
Proof. intros c parse sha256 pv payload key sig x Hb. exact (proj1 (wa_verify_iff c parse sha256 pv payload key sig x x Hb)). Qed.

(* K3 (the generic interface verify(Bytes, Val, Val) hands the Ed25519 contract byte strings of
   any length): with a signature oracle that - like the host's ed25519_verify on BytesN<32> /
   BytesN<64> - accepts only 32-byte keys and 64-byte signatures, a key or signature of any
   other length is rejected (a trap), whatever its content (a valid key followed by one more
   byte, a valid signature cut by one byte, ...) *)
Theorem ed_wrong_length_rejected : forall (ev : list Z -> list Z -> list Z -> bool),
  (forall k m s, ev k m s = true -> len k = 32 /\ len s = 64) ->
  forall payload key sig, len key <> 32 \/ len sig <> 64 -> ed_verify ev payload key sig = Fail.
Proof.
  intros ev H payload key sig Hl. unfold ed_verify, ed_decide.
  destruct (ev key payload sig) eqn:E; [|reflexivity].
  exfalso. destruct (H _ _ _ E) as [A B]. destruct Hl; contradiction.
Qed.

(* K5 (the three arguments of the contract re-cut at another place): an accepted call of the
   contract fixes the key as the first 65 bytes of ITS key_data and the payload prefix through
   the challenge of ITS client data - two accepted calls with the same sig_data agree on the
   first 32 payload bytes, however payload and key_data are cut *)
Theorem wa_contract_same_sigdata_binds_payload : forall c from_xdr parse sha256 pv p1 p2 kd1 kd2 sd,
  bytes_ok p1 = true -> bytes_ok p2 = true ->
  wa_contract c from_xdr parse sha256 pv p1 kd1 sd = Ok true ->
  wa_contract c from_xdr parse sha256 pv p2 kd2 sd = Ok true ->
  firstn 32 p1 = firstn 32 p2.
Proof.
  intros c from_xdr parse sha256 pv p1 p2 kd1 kd2 sd B1 B2 H1 H2.
  apply (proj1 (wa_contract_iff c from_xdr parse sha256 pv p1 kd1 sd B1)) in H1.
  apply (proj1 (wa_contract_iff c from_xdr parse sha256 pv p2 kd2 sd B2)) in H2.
  destruct H1 as (s1 & a1 & c1 & E1 & _ & V1). destruct H2 as (s2 & a2 & c2 & E2 & _ & V2).
  rewrite E1 in E2. injection E2 as <- <- <-.
  exact (wa_binds_payload c parse sha256 pv p1 p2 _ _ _ _ _ _ _ B1 B2 V1 V2).
Qed.
