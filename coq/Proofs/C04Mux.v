(* C04: transfers to a muxed destination (MuxedAddress carrying an id) through the
   FungibleToken / ContractOverrides entry point of an RWA token: the id changes nothing. *)
From SC Require Import Lib.Prelude Lib.Int Lib.Host Model.Rwa Proofs.Rwa.

(* the call term the harness prints for a muxed destination is the plain transfer to the address part *)
Lemma mux_op_transfer id from to amt : mux_op id (Transfer from to amt) = Transfer from to amt.
Proof. reflexivity. Qed.

Theorem muxed_destination : forall (hc : hostcfg) (cs : list call) (au : list addr) (orc : addr -> oracle)
    (from : addr) (to : dest) (amt : Z) (s' : state) (r : ret),
  let s := run hc init cs in
  let c := mkCall (Transfer from (dest_addr to) amt) au orc in
  (forall o s0, transfer_entry au o from to amt s0 = transfer au o from (dest_addr to) amt s0) /\
  (forall id, mkCall (mux_op id (Transfer from (dest_addr to) amt)) au orc = c) /\
  (step hc s c = (s', Ok r) ->
     paused s = false /\ aflag s from = false /\ aflag s (dest_addr to) = false /\
     0 <= amt <= bal s from - frozen s from /\
     idv_ok (eff_orc s c) from = true /\ idv_ok (eff_orc s c) (dest_addr to) = true /\
     o_can_transfer (eff_orc s c) = true /\
     cmp_log s' = [QCanTransfer from (dest_addr to) amt; NTransferred from (dest_addr to) amt]).
Proof.
  intros hc cs au orc from to amt s' r s c. split; [reflexivity|]. split; [reflexivity|].
  intros H.
  pose proof (gates_thm hc s c s' r H) as G. cbn [c_op c] in G.
  destruct G as (A & B & C & D & E & F & K & _).
  assert (HI : Inv s) by (apply run_preserves_Inv; exact Inv_init).
  destruct (step_logs hc s c s' (Ok r) HI H) as [L _].
  unfold expected_cmp_log in L. cbn [c_op c] in L.
  repeat split; auto; lia.
Qed.
