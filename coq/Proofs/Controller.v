(* C09: facts about the controller model: what __check_auth consumes, what the host's
   require_auth amounts to, and a case description of every successful call. *)
From SC Require Import Lib.Prelude Lib.Int Lib.Host Model.Timelock Model.TimelockGhost Model.TimelockController
  Proofs.TimelockGhost Proofs.Timelock Proofs.C08Final.

Section WithHash.
  Variable hash : op -> id.
  Variable aid : argv -> N.
  Variable cf : cfg.
  Notation pair_op := (pair_op cf).
  Notation ops_of := (ops_of cf).
  Notation exec_all := (exec_all hash).
  Notation check_ctx := (check_ctx hash cf).
  Notation check_loop := (check_loop hash cf).
  Notation check_auth := (check_auth hash cf).
  Notation require_auth := (require_auth hash cf).
  Notation step_ok := (step_ok hash aid cf).
  Notation step := (step hash aid cf).
  Notation root_of := (root_of aid cf).

  (* ---------------- set_execute_operation on a list ---------------- *)
  Lemma set_execute_frame t o t' :
    set_execute_operation hash t o = Ok t' -> now t' = now t /\ min_delay t' = min_delay t.
  Proof. intros H. apply set_execute_ok in H. destruct H as (_ & _ & ->). split; reflexivity. Qed.

  Lemma exec_all_spec os : forall t t',
    exec_all t os = Ok t' ->
    now t' = now t /\ min_delay t' = min_delay t /\
    (forall o, In o os -> state_of t (hash o) = Ready /\ mark t' (hash o) = 1
                          /\ (pred o = 0%N \/ mark t' (pred o) = 1)) /\
    (forall i, ~ In i (map hash os) -> mark t' i = mark t i) /\
    NoDup (map hash os).
  Proof.
    induction os as [|o r IH]; intros t t' H; cbn [TimelockController.exec_all] in H.
    - inversion H; subst. split; [reflexivity|]. split; [reflexivity|]. split; [intros o []|]. split; [reflexivity|constructor].
    - destruct (set_execute_operation hash t o) as [t1|] eqn:E; cbn [bind] in H; [|discriminate].
      apply set_execute_ok in E. destruct E as (Hr & Hp & ->).
      destruct (IH _ _ H) as (Hn & Hm & Hin & Hout & Hnd).
      set (t1 := set_mark t (hash o) DONE_LEDGER) in *.
      assert (Hnotin : ~ In (hash o) (map hash r)).
      { intros Hi. apply in_map_iff in Hi. destruct Hi as (o2 & Ho2 & Hi2).
        destruct (Hin o2 Hi2) as (Hr2 & _). rewrite Ho2 in Hr2.
        apply state_ready_iff in Hr2. subst t1. rewrite mark_set_eq in Hr2. unfold DONE_LEDGER in Hr2. lia. }
      assert (Hdone_o : mark t' (hash o) = 1).
      { rewrite (Hout _ Hnotin). subst t1. apply mark_set_eq. }
      split; [exact Hn|]. split; [exact Hm|]. split; [|split].
      + intros o2 [<-|Hi2].
        * split; [exact Hr|]. split; [exact Hdone_o|].
          destruct Hp as [Hp|Hp]; [left; exact Hp|right].
          apply state_done_iff in Hp.
          assert (Hne : pred o <> hash o).
          { intros Heq. rewrite Heq in Hp. apply state_ready_iff in Hr. lia. }
          destruct (in_dec N.eq_dec (pred o) (map hash r)) as [Hi|Hni].
          -- apply in_map_iff in Hi. destruct Hi as (o3 & Ho3 & Hi3). rewrite <- Ho3. apply (Hin o3 Hi3).
          -- rewrite (Hout _ Hni). subst t1. rewrite mark_set_neq by exact Hne. exact Hp.
        * destruct (Hin o2 Hi2) as (Hr2 & Hd2 & Hp2). split; [|split; assumption].
          assert (Hne : hash o2 <> hash o).
          { intros Heq. apply Hnotin. rewrite <- Heq. apply in_map. exact Hi2. }
          unfold state_of in *. subst t1. rewrite mark_set_neq in Hr2 by exact Hne. exact Hr2.
      + intros i Hi. cbn [map In] in Hi.
        rewrite Hout by tauto. subst t1. apply mark_set_neq. intros ->. tauto.
      + cbn [map]. constructor; assumption.
  Qed.

  (* ---------------- __check_auth ---------------- *)
  (* a pair is acceptable: it names the controller and, when executors are configured, names an
     account holding the executor role that signed for exactly this operation - or the controller
     itself holding the role, inside an end-to-end call (invoker-contract authorisation) *)
  Definition pair_good (direct : bool) (xa : list (addr * op)) (a : ac) (p : ctx * meta) : Prop :=
    exists o, pair_op p = Some o /\
      (role_count a EXECUTOR = 0 \/
       exists x, m_exec (snd p) = Some x /\ holds a x EXECUTOR = true /\
                 (x = self cf /\ direct = false \/ x <> self cf /\ xa_has xa x o = true)).

  Lemma check_ctx_spec direct xa s c m s' :
    check_ctx direct xa s c m = Ok s' ->
    pair_good direct xa (acs s) (c, m) /\
    exists o t, pair_op (c, m) = Some o /\ set_execute_operation hash (ctl s) o = Ok t /\ s' = with_ctl s t.
  Proof.
    unfold TimelockController.check_ctx, pair_good, TimelockController.pair_op. cbn [fst snd].
    destruct c as [contract f a|]; [|discriminate].
    destruct (N.eqb contract (self cf)) eqn:Ec; cbn [negb]; [|discriminate].
    set (o := Op contract f a (m_pred m) (m_salt m)).
    intros H.
    assert (Hex : (role_count (acs s) EXECUTOR = 0 \/
                   exists x, m_exec m = Some x /\ holds (acs s) x EXECUTOR = true /\
                             (x = self cf /\ direct = false \/ x <> self cf /\ xa_has xa x o = true))
                  /\ exists t, set_execute_operation hash (ctl s) o = Ok t /\ s' = with_ctl s t).
    { destruct (role_count (acs s) EXECUTOR =? 0) eqn:E0.
      - apply Z.eqb_eq in E0. cbn [bind] in H.
        destruct (set_execute_operation hash (ctl s) o) as [t|]; cbn [bind] in H; [|discriminate].
        inversion H. split; [left; exact E0|]. exists t. auto.
      - destruct (m_exec m) as [x|]; [|discriminate].
        destruct (holds (acs s) x EXECUTOR) eqn:Eh; cbn [negb] in H; [|discriminate].
        destruct (N.eqb x (self cf)) eqn:Ex.
        * destruct direct; [discriminate|]. cbn [bind] in H.
          destruct (set_execute_operation hash (ctl s) o) as [t|]; cbn [bind] in H; [|discriminate].
          inversion H. apply N.eqb_eq in Ex. split.
          -- right. exists x. split; [reflexivity|]. split; [first [exact Eh|reflexivity]|]. left. auto.
          -- exists t. auto.
        * destruct (xa_has xa x o) eqn:Exa; cbn [guard bind] in H; [|discriminate].
          destruct (set_execute_operation hash (ctl s) o) as [t|]; cbn [bind] in H; [|discriminate].
          inversion H. split.
          -- right. exists x. split; [reflexivity|]. split; [first [exact Eh|reflexivity]|]. right. split; [apply N.eqb_neq; exact Ex|first [exact Exa|reflexivity]].
          -- exists t. auto. }
    destruct Hex as [Hg (t & Ht & ->)]. split.
    - exists o. split; [reflexivity|exact Hg].
    - exists o, t. split; [reflexivity|]. split; [exact Ht|reflexivity].
  Qed.

  Lemma check_loop_spec direct xa l : forall s s',
    check_loop direct xa s l = Ok s' ->
    acs s' = acs s /\ cruns s' = cruns s /\
    Forall (pair_good direct xa (acs s)) l /\
    exec_all (ctl s) (ops_of l) = Ok (ctl s').
  Proof.
    induction l as [|[c m] l IH]; intros s s' H; cbn [TimelockController.check_loop] in H.
    - inversion H; subst. repeat split; auto.
    - destruct (check_ctx direct xa s c m) as [s1|] eqn:E; cbn [bind] in H; [|discriminate].
      apply check_ctx_spec in E. destruct E as (Hg & o & t & Hpo & Hse & ->).
      destruct (IH _ _ H) as (Ha & Hc & Hf & He). cbn [with_ctl acs cruns ctl] in *.
      split; [exact Ha|]. split; [exact Hc|]. split; [constructor; assumption|].
      cbn [TimelockController.ops_of]. rewrite Hpo. cbn [TimelockController.exec_all]. rewrite Hse. cbn [bind]. exact He.
  Qed.

  Lemma pair_good_op direct xa a l : Forall (pair_good direct xa a) l -> length (ops_of l) = length l.
  Proof.
    induction 1 as [|p l (o & Ho & _) _ IH]; [reflexivity|].
    cbn [TimelockController.ops_of]. rewrite Ho. cbn [length]. rewrite IH. reflexivity.
  Qed.

  (* what one successful authorisation consumed *)
  Definition consumed (direct : bool) (s : state) (xa : list (addr * op)) (pairs : list (ctx * meta)) (s1 : state) : Prop :=
    acs s1 = acs s /\ cruns s1 = cruns s /\ Forall (pair_good direct xa (acs s)) pairs /\
    exec_all (ctl s) (ops_of pairs) = Ok (ctl s1).

  Lemma consumed_nil direct s xa : consumed direct s xa [] s.
  Proof. repeat split; auto. Qed.

  Theorem check_auth_spec direct s metas ctxs xa s' :
    check_auth direct s metas ctxs xa = Ok s' ->
    length metas = length ctxs /\ consumed direct s xa (combine ctxs metas) s'.
  Proof.
    unfold TimelockController.check_auth. destruct (Nat.eqb (length metas) (length ctxs)) eqn:E; cbn [negb]; [|discriminate].
    apply Nat.eqb_eq in E. intros H. split; [exact E|]. apply check_loop_spec in H. exact H.
  Qed.

  (* ---------------- the host's require_auth ---------------- *)
  (* what the authorisation attached to a call must look like for [a]'s require_auth in an
     invocation with own context [root] to pass *)
  Definition auth_spec (au : authz) (root : ctx) (a : addr) (pairs : list (ctx * meta)) : Prop :=
    if N.eqb a (self cf) then
      exists se, a_self au = Some se /\ ctx_eqb (se_root se) root = true /\
                 length (se_metas se) = length (se_root se :: se_subs se) /\
                 pairs = combine (se_root se :: se_subs se) (se_metas se)
    else has_auth (a_plain au) a = true /\ pairs = [].

  Lemma require_auth_spec s au root a s1 :
    require_auth s au root a = Ok s1 ->
    exists pairs, auth_spec au root a pairs /\ consumed false s (a_exec au) pairs s1.
  Proof.
    unfold TimelockController.require_auth, auth_spec. destruct (N.eqb a (self cf)).
    - destruct (a_self au) as [se|]; [|discriminate].
      destruct (ctx_eqb (se_root se) root) eqn:Er; [|discriminate].
      intros H. apply check_auth_spec in H. destruct H as [Hl Hc].
      exists (combine (se_root se :: se_subs se) (se_metas se)). split; [|exact Hc].
      exists se. auto.
    - destruct (has_auth (a_plain au) a) eqn:Eh; [|discriminate].
      intros H. inversion H; subst. exists []. split; [auto|apply consumed_nil].
  Qed.

  Definition auth_ok (s : state) (c : call) (a : addr) (s1 : state) : Prop :=
    exists pairs, auth_spec (authz_of c) (root_of c) a pairs /\ consumed false s (a_exec (authz_of c)) pairs s1.

  Ltac dres H x E :=
    match type of H with
    | context [bind ?r _] => destruct r as [x|] eqn:E; cbn [bind] in H; [|discriminate]
    end.

  (* ---------------- every successful call, by cases ---------------- *)
  Lemma schedule_op_spec s o d p au s' r :
    step_ok s (ScheduleOp o d p au) = Ok (s', r) ->
    holds (acs s) p PROPOSER = true /\
    exists s1 t, auth_ok s (ScheduleOp o d p au) p s1 /\
      schedule_operation hash (ctl s1) o d = Ok (t, hash o) /\ s' = with_ctl s1 t /\ r = Some (hash o).
  Proof.
    cbn [TimelockController.step_ok]. intros H.
    destruct (holds (acs s) p PROPOSER) eqn:Eh; cbn [guard bind] in H; [|discriminate].
    dres H s1 E. apply require_auth_spec in E.
    destruct (schedule_operation hash (ctl s1) o d) as [[t i]|] eqn:Es; cbn [bind] in H; [|discriminate].
    inversion H; subst. pose proof (schedule_ok hash _ _ _ _ _ Es) as (_ & _ & m & _ & _ & _ & ->).
    split; [reflexivity|]. exists s1, t. repeat split; auto.
  Qed.

  Lemma cancel_op_spec s i k au s' r :
    step_ok s (CancelOp i k au) = Ok (s', r) ->
    holds (acs s) k CANCELLER = true /\
    exists s1 t, auth_ok s (CancelOp i k au) k s1 /\
      cancel_operation (ctl s1) i = Ok t /\ s' = with_ctl s1 t /\ r = None.
  Proof.
    cbn [TimelockController.step_ok]. intros H.
    destruct (holds (acs s) k CANCELLER) eqn:Eh; cbn [guard bind] in H; [|discriminate].
    dres H s1 E. apply require_auth_spec in E. dres H t Et. inversion H; subst.
    split; [reflexivity|]. exists s1, t. repeat split; auto.
  Qed.

  Lemma execute_op_spec s o x tgt au s' r :
    step_ok s (ExecuteOp o x tgt au) = Ok (s', r) ->
    exists s1 t,
      (role_count (acs s) EXECUTOR = 0 /\ s1 = s
       \/ role_count (acs s) EXECUTOR <> 0 /\ exists e, x = Some e /\ holds (acs s) e EXECUTOR = true
                                                      /\ auth_ok s (ExecuteOp o x tgt au) e s1) /\
      set_execute_operation hash (ctl s1) o = Ok t /\ target o <> self cf /\ tgt = true /\
      s' = {| ctl := t; acs := acs s1; cruns := alist_set (args o) (crun_count s1 (args o) + 1) (cruns s1) |} /\
      r = None.
  Proof.
    cbn [TimelockController.step_ok]. intros H. dres H s1 E. dres H t Ese.
    destruct (N.eqb (target o) (self cf)) eqn:Et; [discriminate|]. apply N.eqb_neq in Et.
    destruct tgt; [|discriminate]. inversion H; subst.
    exists s1, t. split; [|repeat split; auto].
    destruct (role_count (acs s) EXECUTOR =? 0) eqn:E0.
    - apply Z.eqb_eq in E0. inversion E; subst. left. auto.
    - apply Z.eqb_neq in E0. right. split; [exact E0|].
      destruct x as [e|]; [|discriminate]. exists e. split; [reflexivity|].
      destruct (holds (acs s) e EXECUTOR) eqn:Eh; cbn [guard bind] in E; [|discriminate].
      split; [reflexivity|]. apply require_auth_spec in E. exact E.
  Qed.

  Lemma enforce_admin_spec s c s1 :
    enforce_admin_auth hash cf s (authz_of c) (root_of c) = Ok s1 ->
    exists ad, admin (acs s) = Some ad /\ auth_ok s c ad s1.
  Proof.
    unfold enforce_admin_auth. destruct (admin (acs s)) as [ad|]; [|discriminate].
    intros H. apply require_auth_spec in H. exists ad. split; [reflexivity|exact H].
  Qed.

  Lemma update_delay_spec s d au s' r :
    step_ok s (UpdateDelay d au) = Ok (s', r) ->
    exists ad s1, admin (acs s) = Some ad /\ auth_ok s (UpdateDelay d au) ad s1 /\ 0 <= d <= MAXU32 /\
      s' = with_ctl s1 {| now := now (ctl s1); min_delay := Some d; marks := marks (ctl s1) |} /\ r = None.
  Proof.
    cbn [TimelockController.step_ok]. intros H. dres H s1 E.
    apply (enforce_admin_spec s (UpdateDelay d au)) in E. destruct E as (ad & Had & Hau).
    unfold set_min_delay in H. destruct (in_u32 d) eqn:Ed; cbn [guard bind] in H; [|discriminate].
    apply in_u32_iff in Ed. inversion H; subst. exists ad, s1. repeat split; auto; lia.
  Qed.

  Lemma grant_role_spec s a ro k au s' r :
    step_ok s (GrantRole a ro k au) = Ok (s', r) ->
    exists s1 a', auth_ok s (GrantRole a ro k au) k s1 /\ is_admin_or_admin_role (acs s) ro k = true /\
      grant_no_auth (max_roles cf) (acs s) a ro = Ok a' /\ s' = with_acs s1 a' /\ r = None.
  Proof.
    cbn [TimelockController.step_ok]. intros H. dres H s1 E. apply require_auth_spec in E.
    assert (Ha : acs s1 = acs s) by (destruct E as (? & _ & Hc); apply Hc). rewrite Ha in H.
    destruct (is_admin_or_admin_role (acs s) ro k) eqn:Ei; cbn [guard bind] in H; [|discriminate].
    dres H a' Eg. inversion H; subst. exists s1, a'. repeat split; auto.
  Qed.

  Lemma revoke_role_spec s a ro k au s' r :
    step_ok s (RevokeRole a ro k au) = Ok (s', r) ->
    exists s1 a', auth_ok s (RevokeRole a ro k au) k s1 /\ is_admin_or_admin_role (acs s) ro k = true /\
      revoke_no_auth (acs s) a ro = Ok a' /\ s' = with_acs s1 a' /\ r = None.
  Proof.
    cbn [TimelockController.step_ok]. intros H. dres H s1 E. apply require_auth_spec in E.
    assert (Ha : acs s1 = acs s) by (destruct E as (? & _ & Hc); apply Hc). rewrite Ha in H.
    destruct (is_admin_or_admin_role (acs s) ro k) eqn:Ei; cbn [guard bind] in H; [|discriminate].
    dres H a' Eg. inversion H; subst. exists s1, a'. repeat split; auto.
  Qed.

  Lemma renounce_role_spec s ro k au s' r :
    step_ok s (RenounceRole ro k au) = Ok (s', r) ->
    exists s1 a', auth_ok s (RenounceRole ro k au) k s1 /\
      revoke_no_auth (acs s) k ro = Ok a' /\ s' = with_acs s1 a' /\ r = None.
  Proof.
    cbn [TimelockController.step_ok]. intros H. dres H s1 E. apply require_auth_spec in E.
    assert (Ha : acs s1 = acs s) by (destruct E as (? & _ & Hc); apply Hc). rewrite Ha in H.
    dres H a' Eg. inversion H; subst. exists s1, a'. repeat split; auto.
  Qed.

  Lemma set_role_admin_spec s ro ar au s' r :
    step_ok s (SetRoleAdmin ro ar au) = Ok (s', r) ->
    exists ad s1, admin (acs s) = Some ad /\ auth_ok s (SetRoleAdmin ro ar au) ad s1 /\
      s' = with_acs s1 {| admin := admin (acs s); pending := pending (acs s); members := members (acs s);
                          radmin := alist_set ro ar (radmin (acs s)); existing := existing (acs s) |} /\ r = None.
  Proof.
    cbn [TimelockController.step_ok]. intros H. dres H s1 E.
    apply (enforce_admin_spec s (SetRoleAdmin ro ar au)) in E. destruct E as (ad & Had & Hau).
    assert (Ha : acs s1 = acs s) by (destruct Hau as (? & _ & Hc); apply Hc). rewrite Ha in H.
    inversion H; subst. exists ad, s1. repeat split; auto.
  Qed.

  Lemma transfer_admin_spec s new lu au s' r :
    step_ok s (TransferAdmin new lu au) = Ok (s', r) ->
    exists ad s1 p, admin (acs s) = Some ad /\ auth_ok s (TransferAdmin new lu au) ad s1 /\
      transfer_role (hcfg cf) (now (ctl s)) (pending (acs s)) new lu = Ok p /\
      s' = with_acs s1 {| admin := admin (acs s); pending := p; members := members (acs s);
                          radmin := radmin (acs s); existing := existing (acs s) |} /\ r = None.
  Proof.
    cbn [TimelockController.step_ok]. intros H.
    destruct (in_u32 lu); cbn [guard bind] in H; [|discriminate]. dres H s1 E.
    apply (enforce_admin_spec s (TransferAdmin new lu au)) in E. destruct E as (ad & Had & Hau).
    assert (Ha : acs s1 = acs s) by (destruct Hau as (? & _ & Hc); apply Hc).
    assert (Hn : now_of s1 = now (ctl s)).
    { destruct Hau as (? & _ & _ & _ & _ & He). apply exec_all_spec in He. unfold now_of. apply He. }
    rewrite Ha, Hn in H. dres H p Et. inversion H; subst. exists ad, s1, p. repeat split; auto.
  Qed.

  Lemma accept_admin_spec s au s' r :
    step_ok s (AcceptAdmin au) = Ok (s', r) ->
    exists ad pa s1, admin (acs s) = Some ad /\ tget (now (ctl s)) (pending (acs s)) = Some pa /\
      auth_ok s (AcceptAdmin au) pa s1 /\
      s' = with_acs s1 {| admin := Some pa; pending := None; members := members (acs s);
                          radmin := radmin (acs s); existing := existing (acs s) |} /\ r = None.
  Proof.
    cbn [TimelockController.step_ok]. intros H.
    destruct (admin (acs s)) as [ad|] eqn:Ead; [|discriminate].
    unfold now_of in H. destruct (tget (now (ctl s)) (pending (acs s))) as [pa|] eqn:Ep; [|discriminate].
    dres H s1 E. apply require_auth_spec in E.
    assert (Ha : acs s1 = acs s) by (destruct E as (? & _ & Hc); apply Hc). rewrite Ha in H.
    inversion H; subst. exists ad, pa, s1. repeat split; auto.
  Qed.

  Lemma renounce_admin_spec s au s' r :
    step_ok s (RenounceAdmin au) = Ok (s', r) ->
    exists ad s1, admin (acs s) = Some ad /\ auth_ok s (RenounceAdmin au) ad s1 /\
      tget (now (ctl s)) (pending (acs s)) = None /\
      s' = with_acs s1 {| admin := None; pending := pending (acs s); members := members (acs s);
                          radmin := radmin (acs s); existing := existing (acs s) |} /\ r = None.
  Proof.
    cbn [TimelockController.step_ok]. intros H. dres H s1 E.
    apply (enforce_admin_spec s (RenounceAdmin au)) in E. destruct E as (ad & Had & Hau).
    assert (Ha : acs s1 = acs s) by (destruct Hau as (? & _ & Hc); apply Hc).
    assert (Hn : now_of s1 = now (ctl s)).
    { destruct Hau as (? & _ & _ & _ & _ & He). apply exec_all_spec in He. unfold now_of. apply He. }
    rewrite Ha, Hn in H.
    destruct (tget (now (ctl s)) (pending (acs s))) eqn:Ep; [discriminate|].
    inversion H; subst. exists ad, s1. repeat split; auto.
  Qed.

  Lemma check_auth_call_spec s metas ctxs xa s' r :
    step_ok s (CheckAuth metas ctxs xa) = Ok (s', r) ->
    length metas = length ctxs /\ consumed true s xa (combine ctxs metas) s' /\ r = None.
  Proof.
    cbn [TimelockController.step_ok]. intros H. dres H s1 E. inversion H; subst.
    apply check_auth_spec in E. destruct E. auto.
  Qed.

  Lemma advance_spec s n s' r :
    step_ok s (Advance n) = Ok (s', r) ->
    0 <= n /\ now (ctl s) + n <= MAXU32 /\
    s' = with_ctl s {| now := now (ctl s) + n; min_delay := min_delay (ctl s); marks := marks (ctl s) |} /\ r = None.
  Proof.
    cbn [TimelockController.step_ok]. unfold now_of.
    destruct ((0 <=? n) && in_u32 (now (ctl s) + n)) eqn:E; [|discriminate].
    apply andb_true_iff in E. destruct E as [E1 E2]. apply Z.leb_le in E1. apply in_u32_iff in E2.
    intros H. inversion H; subst. repeat split; auto; lia.
  Qed.

  (* ---------------- the unified description of a successful call ---------------- *)
  Notation pairs_of := (pairs_of aid cf).
  Notation tl_calls := (tl_calls cf).

  Definition own_effect (c : call) (s s1 s' : state) (r : option id) : Prop :=
    match c with
    | ScheduleOp o d p _ =>
        holds (acs s) p PROPOSER = true /\
        exists t, schedule_operation hash (ctl s1) o d = Ok (t, hash o) /\ s' = with_ctl s1 t /\ r = Some (hash o)
    | CancelOp i k _ =>
        holds (acs s) k CANCELLER = true /\
        exists t, cancel_operation (ctl s1) i = Ok t /\ s' = with_ctl s1 t /\ r = None
    | ExecuteOp o x tgt _ =>
        (role_count (acs s) EXECUTOR = 0 \/ exists e, x = Some e /\ holds (acs s) e EXECUTOR = true) /\
        exists t, set_execute_operation hash (ctl s1) o = Ok t /\ target o <> self cf /\ tgt = true /\
          s' = {| ctl := t; acs := acs s1; cruns := alist_set (args o) (crun_count s1 (args o) + 1) (cruns s1) |} /\
          r = None
    | UpdateDelay d _ =>
        0 <= d <= MAXU32 /\
        s' = with_ctl s1 {| now := now (ctl s1); min_delay := Some d; marks := marks (ctl s1) |} /\ r = None
    | GrantRole a ro k _ =>
        is_admin_or_admin_role (acs s) ro k = true /\
        exists a', grant_no_auth (max_roles cf) (acs s) a ro = Ok a' /\ s' = with_acs s1 a' /\ r = None
    | RevokeRole a ro k _ =>
        is_admin_or_admin_role (acs s) ro k = true /\
        exists a', revoke_no_auth (acs s) a ro = Ok a' /\ s' = with_acs s1 a' /\ r = None
    | RenounceRole ro k _ =>
        exists a', revoke_no_auth (acs s) k ro = Ok a' /\ s' = with_acs s1 a' /\ r = None
    | SetRoleAdmin ro ar _ =>
        s' = with_acs s1 {| admin := admin (acs s); pending := pending (acs s); members := members (acs s);
                            radmin := alist_set ro ar (radmin (acs s)); existing := existing (acs s) |} /\ r = None
    | TransferAdmin new lu _ =>
        exists p, transfer_role (hcfg cf) (now (ctl s)) (pending (acs s)) new lu = Ok p /\
          s' = with_acs s1 {| admin := admin (acs s); pending := p; members := members (acs s);
                              radmin := radmin (acs s); existing := existing (acs s) |} /\ r = None
    | AcceptAdmin _ =>
        exists pa, tget (now (ctl s)) (pending (acs s)) = Some pa /\
          s' = with_acs s1 {| admin := Some pa; pending := None; members := members (acs s);
                              radmin := radmin (acs s); existing := existing (acs s) |} /\ r = None
    | RenounceAdmin _ =>
        tget (now (ctl s)) (pending (acs s)) = None /\
        s' = with_acs s1 {| admin := None; pending := pending (acs s); members := members (acs s);
                            radmin := radmin (acs s); existing := existing (acs s) |} /\ r = None
    | CheckAuth _ _ _ => s' = s1 /\ r = None
    | Advance n =>
        0 <= n /\ now (ctl s) + n <= MAXU32 /\
        s' = with_ctl s1 {| now := now (ctl s1) + n; min_delay := min_delay (ctl s1); marks := marks (ctl s1) |} /\ r = None
    end.

  Lemma pairs_of_auth c a pairs adm n adm' :
    (forall m x y, c <> CheckAuth m x y) ->
    auth_demand adm n adm' c = AuthOf a -> auth_spec (authz_of c) (root_of c) a pairs ->
    pairs_of adm n adm' c = Some pairs.
  Proof.
    intros Hc Hd Ha. unfold TimelockController.pairs_of.
    assert (G : match auth_demand adm n adm' c with
                | Violation => None
                | NoAuth => Some []
                | AuthOf a0 =>
                    if N.eqb a0 (self cf) then
                      match a_self (authz_of c) with
                      | Some se =>
                          if ctx_eqb (se_root se) (root_of c) && Nat.eqb (length (se_metas se)) (length (se_root se :: se_subs se))
                          then Some (combine (se_root se :: se_subs se) (se_metas se)) else None
                      | None => None
                      end
                    else if has_auth (a_plain (authz_of c)) a0 then Some [] else None
                end = Some pairs).
    { rewrite Hd. unfold auth_spec in Ha. destruct (N.eqb a (self cf)).
      - destruct Ha as (se & -> & Hr & Hl & ->). rewrite Hr.
        replace (Nat.eqb (length (se_metas se)) (length (se_root se :: se_subs se))) with true
          by (symmetry; apply Nat.eqb_eq; exact Hl). reflexivity.
      - destruct Ha as [-> ->]. reflexivity. }
    destruct c; try exact G. exfalso. eapply Hc. reflexivity.
  Qed.

  Theorem step_spec s c s' r :
    step_ok s c = Ok (s', r) ->
    exists pairs s1,
      pairs_of (admin (acs s)) (role_count (acs s) EXECUTOR) (admin (acs s')) c = Some pairs /\
      consumed (is_direct c) s (a_exec (authz_of c)) pairs s1 /\ own_effect c s s1 s' r.
  Proof.
    intros H. destruct c as [o d p au|o x tgt au|i k au|d au|a ro k au|a ro k au|ro k au|ro ar au|new lu au|au|au|metas ctxs xa|n].
    - apply schedule_op_spec in H. destruct H as (Hh & s1 & t & (pairs & Ha & Hc) & Hs & -> & ->).
      exists pairs, s1. split; [apply (pairs_of_auth _ p); [discriminate|reflexivity|exact Ha]|].
      split; [exact Hc|]. cbn [own_effect]. split; [exact Hh|]. exists t. auto.
    - apply execute_op_spec in H. destruct H as (s1 & t & Hau & Hse & Ht & -> & -> & ->).
      destruct Hau as [[H0 ->]|(H0 & e & -> & Hh & (pairs & Ha & Hc))].
      + exists [], s. split; [|split; [apply consumed_nil|]].
        * cbn [TimelockController.pairs_of TimelockController.auth_demand]. rewrite H0. reflexivity.
        * cbn [own_effect]. split; [left; exact H0|]. exists t. auto.
      + exists pairs, s1. split; [|split; [exact Hc|]].
        * apply (pairs_of_auth _ e); [discriminate| |exact Ha].
          cbn [TimelockController.auth_demand]. apply Z.eqb_neq in H0. rewrite H0. reflexivity.
        * cbn [own_effect]. split; [right; exists e; auto|]. exists t. auto.
    - apply cancel_op_spec in H. destruct H as (Hh & s1 & t & (pairs & Ha & Hc) & Hs & -> & ->).
      exists pairs, s1. split; [apply (pairs_of_auth _ k); [discriminate|reflexivity|exact Ha]|].
      split; [exact Hc|]. cbn [own_effect]. split; [exact Hh|]. exists t. auto.
    - apply update_delay_spec in H. destruct H as (ad & s1 & Had & (pairs & Ha & Hc) & Hd & -> & ->).
      exists pairs, s1. split; [apply (pairs_of_auth _ ad); [discriminate| |exact Ha]|].
      { cbn [TimelockController.auth_demand]. rewrite Had. reflexivity. }
      split; [exact Hc|]. cbn [own_effect]. auto.
    - apply grant_role_spec in H. destruct H as (s1 & a' & (pairs & Ha & Hc) & Hi & Hg & -> & ->).
      exists pairs, s1. split; [apply (pairs_of_auth _ k); [discriminate|reflexivity|exact Ha]|].
      split; [exact Hc|]. cbn [own_effect]. split; [exact Hi|]. exists a'. auto.
    - apply revoke_role_spec in H. destruct H as (s1 & a' & (pairs & Ha & Hc) & Hi & Hg & -> & ->).
      exists pairs, s1. split; [apply (pairs_of_auth _ k); [discriminate|reflexivity|exact Ha]|].
      split; [exact Hc|]. cbn [own_effect]. split; [exact Hi|]. exists a'. auto.
    - apply renounce_role_spec in H. destruct H as (s1 & a' & (pairs & Ha & Hc) & Hg & -> & ->).
      exists pairs, s1. split; [apply (pairs_of_auth _ k); [discriminate|reflexivity|exact Ha]|].
      split; [exact Hc|]. cbn [own_effect]. exists a'. auto.
    - apply set_role_admin_spec in H. destruct H as (ad & s1 & Had & (pairs & Ha & Hc) & -> & ->).
      exists pairs, s1. split; [apply (pairs_of_auth _ ad); [discriminate| |exact Ha]|].
      { cbn [TimelockController.auth_demand]. rewrite Had. reflexivity. }
      split; [exact Hc|]. cbn [own_effect]. auto.
    - apply transfer_admin_spec in H. destruct H as (ad & s1 & p & Had & (pairs & Ha & Hc) & Ht & -> & ->).
      exists pairs, s1. split; [apply (pairs_of_auth _ ad); [discriminate| |exact Ha]|].
      { cbn [TimelockController.auth_demand]. rewrite Had. reflexivity. }
      split; [exact Hc|]. cbn [own_effect]. exists p. auto.
    - apply accept_admin_spec in H. destruct H as (ad & pa & s1 & Had & Hp & (pairs & Ha & Hc) & -> & ->).
      exists pairs, s1. split; [apply (pairs_of_auth _ pa); [discriminate|reflexivity|exact Ha]|].
      split; [exact Hc|]. cbn [own_effect]. exists pa. auto.
    - apply renounce_admin_spec in H. destruct H as (ad & s1 & Had & (pairs & Ha & Hc) & Hp & -> & ->).
      exists pairs, s1. split; [apply (pairs_of_auth _ ad); [discriminate| |exact Ha]|].
      { cbn [TimelockController.auth_demand]. rewrite Had. reflexivity. }
      split; [exact Hc|]. cbn [own_effect]. auto.
    - apply check_auth_call_spec in H. destruct H as (Hl & Hc & ->).
      exists (combine ctxs metas), s'. split; [|split; [exact Hc|split; reflexivity]].
      cbn [TimelockController.pairs_of]. replace (Nat.eqb (length metas) (length ctxs)) with true
        by (symmetry; apply Nat.eqb_eq; exact Hl). reflexivity.
    - apply advance_spec in H. destruct H as (Hn & Hm & -> & ->).
      exists [], s. split; [reflexivity|]. split; [apply consumed_nil|]. cbn [own_effect]. auto.
  Qed.

  (* ---------------- the history machine accepts every step of the controller ---------------- *)
  Lemma tl_ghost t c g :
    ginv t g ->
    let st := {| tls := t; runs := [] |} in
    exists g', gstep hash g (now t) (min_delay t) c (is_ok (snd (Timelock.step hash st c))) = Some g'
               /\ ginv (tls (fst (Timelock.step hash st c))) g'.
  Proof. intros H st. exact (step_ghost hash st c g H). Qed.

  Lemma ghost_set_execute t o t' g :
    ginv t g -> set_execute_operation hash t o = Ok t' ->
    exists g', gstep hash g (now t) (min_delay t) (SetExecute o) true = Some g' /\ ginv t' g'.
  Proof.
    intros Hg He. pose proof (tl_ghost t (SetExecute o) g Hg) as P. cbv zeta in P.
    cbn [Timelock.step tls] in P. rewrite He in P. exact P.
  Qed.
  Lemma ghost_execute t o t' g :
    ginv t g -> set_execute_operation hash t o = Ok t' ->
    exists g', gstep hash g (now t) (min_delay t) (Execute o true) true = Some g' /\ ginv t' g'.
  Proof.
    intros Hg He. pose proof (tl_ghost t (Execute o true) g Hg) as P. cbv zeta in P.
    cbn [Timelock.step tls] in P. rewrite He in P. exact P.
  Qed.
  Lemma ghost_schedule t o d t' i g :
    ginv t g -> schedule_operation hash t o d = Ok (t', i) ->
    exists g', gstep hash g (now t) (min_delay t) (Schedule o d) true = Some g' /\ ginv t' g'.
  Proof.
    intros Hg He. pose proof (tl_ghost t (Schedule o d) g Hg) as P. cbv zeta in P.
    cbn [Timelock.step tls] in P. rewrite He in P. exact P.
  Qed.
  Lemma ghost_cancel t i t' g :
    ginv t g -> cancel_operation t i = Ok t' ->
    exists g', gstep hash g (now t) (min_delay t) (Cancel i) true = Some g' /\ ginv t' g'.
  Proof.
    intros Hg He. pose proof (tl_ghost t (Cancel i) g Hg) as P. cbv zeta in P.
    cbn [Timelock.step tls] in P. rewrite He in P. exact P.
  Qed.

  Lemma gfeed_app g now mind a b :
    gfeed hash g now mind (a ++ b) =
    match gfeed hash g now mind a with Some g' => gfeed hash g' now mind b | None => None end.
  Proof.
    revert g. induction a as [|c a IH]; intros g; cbn [app TimelockGhost.gfeed]; [reflexivity|].
    destruct (gstep hash g now mind c true); auto.
  Qed.

  Lemma exec_all_ghost os : forall t t' g,
    ginv t g -> exec_all t os = Ok t' ->
    exists g', gfeed hash g (now t) (min_delay t) (map SetExecute os) = Some g' /\ ginv t' g'.
  Proof.
    induction os as [|o r IH]; intros t t' g Hg He; cbn [TimelockController.exec_all] in He.
    - inversion He; subst. exists g. split; [reflexivity|exact Hg].
    - destruct (set_execute_operation hash t o) as [t1|] eqn:E; cbn [bind] in He; [|discriminate].
      destruct (ghost_set_execute _ _ _ _ Hg E) as (g1 & Hs & Hg1).
      destruct (set_execute_frame _ _ _ E) as [Hn Hm].
      destruct (IH _ _ _ Hg1 He) as (g' & Hf & Hg'). rewrite Hn, Hm in Hf.
      exists g'. split; [|exact Hg']. cbn [map TimelockGhost.gfeed]. rewrite Hs. exact Hf.
  Qed.

  Theorem cstep_ghost s c s' r g :
    ginv (ctl s) g -> step_ok s c = Ok (s', r) ->
    exists pairs g',
      pairs_of (admin (acs s)) (role_count (acs s) EXECUTOR) (admin (acs s')) c = Some pairs /\
      gfeed hash g (now (ctl s)) (min_delay (ctl s)) (tl_calls c pairs) = Some g' /\ ginv (ctl s') g'.
  Proof.
    intros Hg H. destruct (step_spec _ _ _ _ H) as (pairs & s1 & Hp & Hc & Ho).
    exists pairs. destruct Hc as (_ & _ & _ & He).
    destruct (exec_all_ghost _ _ _ _ Hg He) as (g1 & Hf1 & Hg1).
    destruct (exec_all_spec _ _ _ He) as (Hn & Hm & _).
    assert (K : forall g', gfeed hash g1 (now (ctl s1)) (min_delay (ctl s1)) (own_event c) = Some g' ->
                           gfeed hash g (now (ctl s)) (min_delay (ctl s)) (tl_calls c pairs) = Some g').
    { intros g' Hx. unfold TimelockController.tl_calls. rewrite gfeed_app, Hf1. rewrite <- Hn, <- Hm. exact Hx. }
    destruct c as [o d p au|o x tgt au|i k au|d au|a ro k au|a ro k au|ro k au|ro ar au|new lu au|au|au|metas ctxs xa|n];
      cbn [own_effect] in Ho; cbn [own_event] in K.
    - destruct Ho as (_ & t & Hs & -> & _). destruct (ghost_schedule _ _ _ _ _ _ Hg1 Hs) as (g' & Hx & Hg').
      exists g'. split; [exact Hp|]. split; [apply K; cbn [TimelockGhost.gfeed]; rewrite Hx; reflexivity|exact Hg'].
    - destruct Ho as (_ & t & Hs & _ & -> & -> & _). destruct (ghost_execute _ _ _ _ Hg1 Hs) as (g' & Hx & Hg').
      exists g'. split; [exact Hp|]. split; [apply K; cbn [TimelockGhost.gfeed]; rewrite Hx; reflexivity|exact Hg'].
    - destruct Ho as (_ & t & Hs & -> & _). destruct (ghost_cancel _ _ _ _ Hg1 Hs) as (g' & Hx & Hg').
      exists g'. split; [exact Hp|]. split; [apply K; cbn [TimelockGhost.gfeed]; rewrite Hx; reflexivity|exact Hg'].
    - destruct Ho as (Hd & -> & _). exists g1. split; [exact Hp|]. split; [apply K; reflexivity|].
      cbn [with_ctl ctl]. destruct Hg1 as [Hnn Hent]. split; [exact Hnn|].
      intros j. apply (entry_ok_mono (ctl s1)); [reflexivity|cbn; lia|apply Hent].
    - destruct Ho as (_ & a' & _ & -> & _). exists g1. split; [exact Hp|]. split; [apply K; reflexivity|exact Hg1].
    - destruct Ho as (_ & a' & _ & -> & _). exists g1. split; [exact Hp|]. split; [apply K; reflexivity|exact Hg1].
    - destruct Ho as (a' & _ & -> & _). exists g1. split; [exact Hp|]. split; [apply K; reflexivity|exact Hg1].
    - destruct Ho as (-> & _). exists g1. split; [exact Hp|]. split; [apply K; reflexivity|exact Hg1].
    - destruct Ho as (p & _ & -> & _). exists g1. split; [exact Hp|]. split; [apply K; reflexivity|exact Hg1].
    - destruct Ho as (pa & _ & -> & _). exists g1. split; [exact Hp|]. split; [apply K; reflexivity|exact Hg1].
    - destruct Ho as (_ & -> & _). exists g1. split; [exact Hp|]. split; [apply K; reflexivity|exact Hg1].
    - destruct Ho as (-> & _). exists g1. split; [exact Hp|]. split; [apply K; reflexivity|exact Hg1].
    - destruct Ho as (Hn0 & Hmx & -> & _). exists g1. split; [exact Hp|]. split; [apply K; reflexivity|].
      cbn [with_ctl ctl]. destruct Hg1 as [Hnn Hent]. split; [cbn; lia|].
      intros j. apply (entry_ok_mono (ctl s1)); [reflexivity|cbn; lia|apply Hent].
  Qed.

  Lemma ctx_eqb_eq x y : ctx_eqb x y = true <-> x = y.
  Proof.
    destruct x as [c f a|], y as [c' f' a'|]; cbn [ctx_eqb]; split; try discriminate; try reflexivity.
    - rewrite !andb_true_iff, !N.eqb_eq. intros [[-> ->] ->]. reflexivity.
    - intros H. inversion H. rewrite !N.eqb_refl. reflexivity.
  Qed.
End WithHash.
