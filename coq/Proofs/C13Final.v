(* C13: the statements pinned in Properties/C13.v, in self-contained form. *)
From SC Require Import Lib.Prelude Lib.Int Lib.Host Model.Votes
  Proofs.VotesBasic Proofs.VotesTimeline Proofs.VotesState Proofs.VotesRun Proofs.VotesHistory.
From Coq Require Import Sorting.Sorted.
Open Scope Z_scope.

(* ---------- stdlib sortedness <-> the Fixpoint used in the proofs ---------- *)
Definition newer (a b : checkpoint) : Prop := cp_ledger b < cp_ledger a.

Lemma sorted_of_Sorted t : Sorted newer t -> Forall (fun c => 0 <= cp_ledger c) t -> sorted t.
Proof.
  induction t as [|c r IH]; intros Hs Hf; [exact I|].
  inversion Hs as [|? ? Hs' Hd]; subst. inversion Hf as [|? ? Hc Hf']; subst.
  cbn [sorted]. split; [|apply IH; assumption].
  destruct r as [|c1 r]; cbn [head_ledger]; [lia|]. inversion Hd; subst. assumption.
Qed.
Lemma Sorted_of_sorted t : sorted t -> Sorted newer t /\ Forall (fun c => 0 <= cp_ledger c) t.
Proof.
  intros Hs. split.
  - induction t as [|c r IH]; [constructor|]. destruct Hs as [H1 H2]. constructor; [apply IH; exact H2|].
    destruct r as [|c1 r]; constructor. exact H1.
  - apply Forall_forall. apply sorted_nonneg. exact Hs.
Qed.

Lemma lookup_spec_find q t :
  lookup_spec q t = match find (fun c => cp_ledger c <=? q) t with Some c => cp_votes c | None => 0 end.
Proof. induction t as [|c r IH]; [reflexivity|]. cbn [lookup_spec find]. destruct (cp_ledger c <=? q); [reflexivity|exact IH]. Qed.

(* the binary search, for every list of strictly increasing checkpoints shorter than 2^32 *)
Theorem lookup_is_last_le_final : forall (t : timeline) (q : Z),
  Sorted (fun a b => cp_ledger b < cp_ledger a) t ->
  Forall (fun c => 0 <= cp_ledger c) t ->
  Z.of_nat (length t) < 2 ^ 32 ->
  lookup_checkpoint_at t q =
    Ok (match find (fun c => cp_ledger c <=? q) t with Some c => cp_votes c | None => 0 end).
Proof.
  intros t q Hs Hf Hn. rewrite <- lookup_spec_find. apply lookup_checkpoint_at_ok.
  - apply sorted_of_Sorted; assumption.
  - unfold tl_num. lia.
Qed.

(* ... and that value is the one of the checkpoint with the largest ledger <= q, 0 if there is none *)
Theorem lookup_value_final : forall (t : timeline) (q : Z),
  Sorted (fun a b => cp_ledger b < cp_ledger a) t ->
  Forall (fun c => 0 <= cp_ledger c) t ->
  Z.of_nat (length t) < 2 ^ 32 ->
  (exists c, In c t /\ cp_ledger c <= q /\ lookup_checkpoint_at t q = Ok (cp_votes c) /\
             forall c', In c' t -> cp_ledger c' <= q -> cp_ledger c' <= cp_ledger c)
  \/ (lookup_checkpoint_at t q = Ok 0 /\ forall c, In c t -> q < cp_ledger c).
Proof.
  intros t q Hs Hf Hn. assert (S' : sorted t) by (apply sorted_of_Sorted; assumption).
  rewrite lookup_checkpoint_at_ok by (auto; unfold tl_num; lia).
  destruct (lookup_spec_char q t S') as [[c [A [B [C D]]]]|[A B]].
  - left. exists c. rewrite C. auto.
  - right. rewrite A. auto.
Qed.

(* ---------- reachable states ---------- *)
Theorem votes_are_delegated_units_final : forall (h : header) (U : list addr) (cs : list (list addr * call)),
  0 <= h_start h -> NoDup U ->
  (forall ac, In ac cs -> forall a, In a (call_addrs (snd ac)) -> In a U) ->
  let v := s_v (run h (init h) cs) in
  (forall d, get_votes v d =
     Ok (sum_list (map (fun a => if oaddr_eqb (delegate_of v a) (Some d) then units_of v a else 0) U))) /\
  get_total_supply v = Ok (sum_list (map (units_of v) U)) /\
  (forall a, ~ In a U -> units_of v a = 0).
Proof.
  intros h U cs H0 Hnd Hin v. pose proof (inv_reachable h U cs H0 Hnd Hin) as I.
  split; [|split].
  - intros d. unfold get_votes. rewrite tl_latest_ok. f_equal. apply (inv_votes U _ I d).
  - unfold get_total_supply. rewrite tl_latest_ok. f_equal. apply (inv_supply U _ I).
  - apply (inv_outside U _ I).
Qed.

(* units = balance needs no universe *)
Definition ubinv (s : state) : Prop := 0 <= s_now s /\ forall a, units_of (s_v s) a = balance_of s a.

Lemma ubinv_step c s s' : ubinv s -> shape c s s' -> ubinv s'.
Proof.
  intros [H0 Hu] [Hn Hv Hb|from to amt Hamt Hn Ht Hb Hft|auths acc d Hn Hd Hb Hacc].
  - split; [lia|]. intros a. rewrite Hv, Hb. apply Hu.
  - assert (Hne : amt <> 0) by lia.
    destruct (tvu_spec _ _ _ _ _ _ H0 Hne Ht) as [_ [T2 _]].
    split; [lia|]. intros a. rewrite T2, Hb, Hu. reflexivity.
  - destruct (delegate_spec _ _ _ _ _ _ H0 Hd) as [_ [_ [_ [D4 _]]]].
    split; [lia|]. intros a. rewrite D4, Hb. apply Hu.
Qed.

Theorem units_eq_balance_final : forall (h : header) (cs : list (list addr * call)),
  0 <= h_start h ->
  let s := run h (init h) cs in
  forall a, units_of (s_v s) a = balance_of s a.
Proof.
  intros h cs H0. cbv zeta.
  assert (G : forall s, ubinv s -> ubinv (run h s cs)).
  { induction cs as [|ac cs IH]; intros s I; [exact I|]. cbn [run fold_left]. apply IH.
    eapply ubinv_step; [exact I|apply step_shape]. }
  apply G. split; [exact H0|]. intros a. reflexivity.
Qed.

Theorem checkpoints_sorted_final : forall (h : header) (cs : list (list addr * call)) (ct : cptype),
  0 <= h_start h ->
  let s := run h (init h) cs in
  let t := get_tl (s_v s) ct in
  Sorted (fun a b => cp_ledger b < cp_ledger a) t /\
  Forall (fun c => 0 <= cp_ledger c <= s_now s) t /\
  Z.of_nat (length t) < 2 ^ 32.
Proof.
  intros h cs ct H0 s t. assert (W : winv s) by (apply winv_run, winv_init; exact H0).
  destruct W as [_ W]. destruct (W ct) as [Hs [Hh Hn]]. fold t in Hs, Hh, Hn.
  destruct (Sorted_of_sorted t Hs) as [S1 S2]. split; [exact S1|]. split.
  - apply Forall_forall. intros c Hc. split; [apply (sorted_nonneg t Hs c Hc)|].
    destruct t as [|c0 r]; [destruct Hc|]. cbn [head_ledger] in Hh.
    destruct Hc as [->|Hc]; [exact Hh|]. pose proof (sorted_all_lt c0 r Hs c Hc). lia.
  - unfold tl_num, MAXU32 in Hn. lia.
Qed.

(* ---------- the past ---------- *)
Lemma query_at_acct now v a q : query_at now v (CAcct a) q = get_votes_at now v a q.
Proof. reflexivity. Qed.
Lemma query_at_total now v q : query_at now v CTotal q = get_total_supply_at now v q.
Proof. reflexivity. Qed.

(* [pre] ends inside ledger <= q and the next call moves the ledger beyond q: the state after
   [pre] is the state at the end of ledger q.  Whatever follows, a query for q returns its values. *)
Theorem past_exact_final : forall (h : header) (pre : list (list addr * call)) (ac : list addr * call)
    (rest : list (list addr * call)) (q : Z) (a : addr),
  0 <= h_start h ->
  let s1 := run h (init h) pre in
  let s2 := run h (init h) (pre ++ ac :: rest) in
  s_now s1 <= q -> q < s_now (fst (step h s1 (fst ac) (snd ac))) ->
  get_votes_at (s_now s2) (s_v s2) a q = get_votes (s_v s1) a /\
  get_total_supply_at (s_now s2) (s_v s2) q = get_total_supply (s_v s1).
Proof.
  intros h pre ac rest q a H0 s1 s2 Hle Hlt.
  assert (W1 : winv s1) by (apply winv_run, winv_init; exact H0).
  set (s1' := fst (step h s1 (fst ac) (snd ac))) in *.
  assert (W1' : winv s1') by (apply winv_step; exact W1).
  assert (E : s2 = run h s1' rest).
  { unfold s2. rewrite run_app. reflexivity. }
  assert (W2 : winv s2) by (rewrite E; apply winv_run; exact W1').
  destruct (run_past h rest s1' W1') as [Hn Hp]. rewrite <- E in Hn, Hp.
  destruct (shape_rel (snd ac) s1 s1' (proj1 W1) (step_shape h s1 (fst ac) (snd ac))) as [_ [_ Hv]].
  assert (G : forall ct, query_at (s_now s2) (s_v s2) ct q = current_of (s_v s1) ct).
  { intros ct. unfold query_at, current_of. rewrite lookup_past_ok by (try apply W2; lia).
    rewrite tl_latest_ok. f_equal. rewrite Hp by exact Hlt. rewrite Hv by lia.
    apply lookup_spec_head. destruct (proj2 W1 ct) as [_ [Hh _]]. lia. }
  split; [apply (G (CAcct a))|apply (G CTotal)].
Qed.

(* before the first ledger of the contract every answer is 0 *)
Theorem past_before_start_final : forall (h : header) (cs : list (list addr * call)) (q : Z) (a : addr),
  0 <= h_start h ->
  let s := run h (init h) cs in
  q < h_start h ->
  get_votes_at (s_now s) (s_v s) a q = Ok 0 /\ get_total_supply_at (s_now s) (s_v s) q = Ok 0.
Proof.
  intros h cs q a H0 s Hq.
  assert (Hn : q < s_now s).
  { destruct (run_past h cs (init h) (winv_init h H0)) as [Hn _]. fold s in Hn. cbn [init s_now] in Hn. lia. }
  pose proof (fun ct => past_exact h cs q ct H0 Hn) as P. cbv zeta in P.
  replace (q <? h_start h) with true in P by (symmetry; apply Z.ltb_lt; exact Hq).
  split; [apply (P (CAcct a))|apply (P CTotal)].
Qed.

(* the same, with the state at the end of ledger q computed by a function *)
Theorem past_exact_fn_final : forall (h : header) (cs : list (list addr * call)) (q : Z) (a : addr),
  0 <= h_start h ->
  let s := run h (init h) cs in
  let sq := state_at_end_of h q (init h) cs in
  h_start h <= q -> q < s_now s ->
  get_votes_at (s_now s) (s_v s) a q = get_votes (s_v sq) a /\
  get_total_supply_at (s_now s) (s_v s) q = get_total_supply (s_v sq).
Proof.
  intros h cs q a H0 s sq Hs Hq.
  pose proof (fun ct => past_exact h cs q ct H0 Hq) as P. cbv zeta in P.
  replace (q <? h_start h) with false in P by (symmetry; apply Z.ltb_ge; exact Hs).
  split; [apply (P (CAcct a))|apply (P CTotal)].
Qed.

Theorem past_immutable_final : forall (h : header) (cs more : list (list addr * call)) (q : Z) (a : addr),
  0 <= h_start h ->
  let s1 := run h (init h) cs in
  let s2 := run h (init h) (cs ++ more) in
  q < s_now s1 ->
  get_votes_at (s_now s2) (s_v s2) a q = get_votes_at (s_now s1) (s_v s1) a q /\
  get_total_supply_at (s_now s2) (s_v s2) q = get_total_supply_at (s_now s1) (s_v s1) q.
Proof.
  intros h cs more q a H0 s1 s2 Hq.
  split; [apply (past_immutable h cs more q (CAcct a) H0 Hq)|apply (past_immutable h cs more q CTotal H0 Hq)].
Qed.

(* the ledger never goes back, so "past" stays past *)
Theorem ledger_monotone_final : forall (h : header) (cs more : list (list addr * call)),
  0 <= h_start h -> s_now (run h (init h) cs) <= s_now (run h (init h) (cs ++ more)).
Proof.
  intros h cs more H0. rewrite run_app.
  apply (run_past h more (run h (init h) cs)). apply winv_run, winv_init. exact H0.
Qed.

(* ---------- the votes bookkeeping fails only when it must (Proofs/VotesTotal.v) ---------- *)
From SC Require Import Proofs.C13Bounds Proofs.VotesTotal.

Theorem delegate_ok_iff_final : forall (h : header) (U : list addr) (cs : list (list addr * call)),
  0 <= h_start h -> NoDup U ->
  (forall ac, In ac cs -> forall a, In a (call_addrs (snd ac)) -> In a U) ->
  let s := run h (init h) cs in
  s_now s + 2 <= MAXU32 ->
  forall auths acc d,
    (exists v', delegate (s_now s) auths (s_v s) acc d = Ok v') <->
    (has_auth auths acc = true /\ delegate_of (s_v s) acc <> Some d).
Proof.
  intros h U cs H0 Hnd Hin s Hroom auths acc d. pose proof (inv_reachable h U cs H0 Hnd Hin) as I. fold s in I.
  split.
  - intros [v' E]. destruct (delegate_spec _ _ _ _ _ _ (inv_now U s I) E) as [A [B _]]. split; assumption.
  - intros [A B]. apply (delegate_total U s Hnd I Hroom); assumption.
Qed.

Theorem tvu_ok_iff_final : forall (h : header) (U : list addr) (cs : list (list addr * call)),
  0 <= h_start h -> NoDup U ->
  (forall ac, In ac cs -> forall a, In a (call_addrs (snd ac)) -> In a U) ->
  let s := run h (init h) cs in
  s_now s + 2 <= MAXU32 ->
  forall from to amt, 0 < amt ->
    (forall a, from = Some a \/ to = Some a -> In a U) ->
    (from <> None \/ to <> None) ->
    ((exists v', transfer_voting_units (s_now s) (s_v s) from to amt = Ok v') <->
     ((forall f, from = Some f -> amt <= units_of (s_v s) f) /\
      (from = None -> forall y, get_total_supply (s_v s) = Ok y -> y + amt <= MAXU128))).
Proof.
  intros h U cs H0 Hnd Hin s Hroom from to amt Hamt HU Hnn.
  pose proof (inv_reachable h U cs H0 Hnd Hin) as I. fold s in I.
  assert (Hts : get_total_supply (s_v s) = Ok (supply_of (s_v s))) by (unfold get_total_supply; rewrite tl_latest_ok; reflexivity).
  split.
  - intros [v' E]. assert (Hne : amt <> 0) by lia.
    destruct (tvu_spec _ _ _ _ _ _ (inv_now U s I) Hne E) as [_ [_ [T3 [_ [T5 [_ [_ T8]]]]]]].
    split; [intros f Hf; specialize (T3 f Hf); lia|].
    intros Hf y Hy. rewrite Hts in Hy. inversion Hy; subst y. subst from.
    destruct to as [t|]; [|destruct Hnn; congruence].
    cbn [is_none_addr ind] in T5. pose proof (T8 (inv_supply_range U s I)). lia.
  - intros [A B]. apply (tvu_total U s Hnd I Hroom); auto.
    all: try (intros Hf; apply (B Hf); exact Hts).
Qed.
