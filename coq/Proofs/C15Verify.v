(* C15: verify_identity succeeds exactly when every required topic is covered by a claim the
   identity holds from one of the topic's issuers and that issuer confirms (function level:
   for every state of the world). *)
From SC Require Import Lib.Prelude Lib.Int Lib.Host Model.ClaimIssuer Model.Identity Proofs.C15Base.

(* issuer i confirms the claim cl of identity d for topic t *)
Definition confirms (c : cfg) (w : world) (i d : addr) (t : Z) (cl : claim) : Prop :=
  call_is_claim_valid c w i d t (cl_scheme cl) (cl_sig cl) (cl_data cl) = Ok tt.

(* identity contract state s (of identity d) holds, listed under topic t, a claim for topic t
   from issuer i, and i confirms it *)
Definition holds_valid (c : cfg) (w : world) (s : ident) (d i : addr) (t : Z) : Prop :=
  In (i, t) (get_claim_ids_by_topic s t) /\
  exists cl, get_claim s (i, t) = Ok cl /\ cl_topic cl = t /\ cl_issuer cl = i /\ confirms c w i d t cl.

(* every claim id listed under topic t resolves to a stored claim *)
Definition index_sound_at (s : ident) (t : Z) : Prop :=
  forall id, In id (get_claim_ids_by_topic s t) -> exists cl, get_claim s id = Ok cl.

Lemma validate_claim_true c w cl t i d :
  validate_claim c w cl t i d = true <-> cl_topic cl = t /\ cl_issuer cl = i /\ confirms c w i d t cl.
Proof.
  unfold validate_claim, confirms.
  destruct (cl_topic cl =? t) eqn:E1; cbn [andb].
  - destruct (N.eqb (cl_issuer cl) i) eqn:E2.
    + apply Z.eqb_eq in E1. apply N.eqb_eq in E2. rewrite res_unit. tauto.
    + apply N.eqb_neq in E2. split; [discriminate | tauto].
  - apply Z.eqb_neq in E1. split; [discriminate | tauto].
Qed.

Lemma in_ids (s : ident) i t :
  existsb (cid_eqb (i, t)) (get_claim_ids_by_topic s t) = true <-> In (i, t) (get_claim_ids_by_topic s t).
Proof. apply existsb_eqb_In. exact cid_eqb_spec. Qed.

(* soundness of the loop: it only breaks on a held, matching, confirmed claim *)
Lemma check_issuers_sound c w s d t issuers :
  issuers <> [] ->
  check_issuers c w s d t (get_claim_ids_by_topic s t) issuers = Ok tt ->
  exists i, In i issuers /\ holds_valid c w s d i t.
Proof.
  induction issuers as [|i rest IH]; [congruence|]. intros _ H. cbn [check_issuers] in H.
  destruct (existsb (cid_eqb (i, t)) (get_claim_ids_by_topic s t)) eqn:Ein.
  - destruct (get_claim s (i, t)) as [cl|] eqn:Eg; cbn [bind] in H; [|discriminate].
    destruct (validate_claim c w cl t i d) eqn:Ev.
    + exists i. split; [left; reflexivity|]. split; [apply in_ids; exact Ein|].
      exists cl. apply validate_claim_true in Ev. tauto.
    + destruct rest as [|j rest']; cbn [is_nil] in H; [discriminate|].
      destruct (IH ltac:(discriminate) H) as [k [Hk Hv]]. exists k. split; [right; exact Hk | exact Hv].
  - destruct rest as [|j rest']; cbn [is_nil] in H; [discriminate|].
    destruct (IH ltac:(discriminate) H) as [k [Hk Hv]]. exists k. split; [right; exact Hk | exact Hv].
Qed.

(* the ids (i, t), i among the issuers of the topic, that are listed under t resolve *)
Definition index_sound_for (s : ident) (t : Z) (issuers : list addr) : Prop :=
  forall i, In i issuers -> In (i, t) (get_claim_ids_by_topic s t) -> exists cl, get_claim s (i, t) = Ok cl.

Lemma index_sound_at_for s t issuers : index_sound_at s t -> index_sound_for s t issuers.
Proof. intros H i _ Hin. apply H. exact Hin. Qed.

(* completeness: when the ids listed under t resolve, a covering issuer makes the loop break *)
Lemma check_issuers_complete c w s d t issuers :
  index_sound_for s t issuers ->
  (exists i, In i issuers /\ holds_valid c w s d i t) ->
  check_issuers c w s d t (get_claim_ids_by_topic s t) issuers = Ok tt.
Proof.
  induction issuers as [|i rest IH]; intros Hs [k [Hk Hv]]; [destruct Hk|].
  assert (Hs' : index_sound_for s t rest) by (intros j Hj; apply Hs; right; exact Hj).
  cbn [check_issuers].
  destruct (existsb (cid_eqb (i, t)) (get_claim_ids_by_topic s t)) eqn:Ein.
  - apply in_ids in Ein. destruct (Hs i (or_introl eq_refl) Ein) as [cl Eg]. rewrite Eg. cbn [bind].
    destruct (validate_claim c w cl t i d) eqn:Ev; [reflexivity|].
    destruct Hk as [->|Hk].
    + exfalso. destruct Hv as [_ [cl' [Eg' Hc]]]. rewrite Eg in Eg'. inversion Eg'. subst cl'.
      apply validate_claim_true in Hc. congruence.
    + destruct rest as [|j rest']; [destruct Hk|]. cbn [is_nil]. apply IH; auto. exists k. auto.
  - destruct Hk as [->|Hk].
    + exfalso. destruct Hv as [Hin _]. apply in_ids in Hin. congruence.
    + destruct rest as [|j rest']; [destruct Hk|]. cbn [is_nil]. apply IH; auto. exists k. auto.
Qed.

(* one required topic *)
Definition topic_covered (c : cfg) (w : world) (d : addr) (ti : Z * list addr) : Prop :=
  exists s i, the_ident w d = Ok s /\ In i (snd ti) /\ holds_valid c w s d i (fst ti).

Lemma check_topic_sound c w d ti : check_topic true c w d ti = Ok tt -> topic_covered c w d ti.
Proof.
  destruct ti as [t issuers]. unfold check_topic. cbn [andb].
  destruct issuers as [|i0 rest]; cbn [is_nil]; [discriminate|].
  intros H. apply bind_ok in H. destruct H as [s [Es H]].
  apply check_issuers_sound in H; [|discriminate]. destruct H as [i [Hi Hv]].
  exists s, i. auto.
Qed.

Definition ident_sound (w : world) (d : addr) : Prop :=
  forall s t, the_ident w d = Ok s -> index_sound_at s t.
(* restricted to what verify_identity looks at: the topics of the map and their issuers *)
Definition ident_sound_for (w : world) (d : addr) (m : list (Z * list addr)) : Prop :=
  forall s t issuers, the_ident w d = Ok s -> In (t, issuers) m -> index_sound_for s t issuers.
Lemma ident_sound_sound_for w d m : ident_sound w d -> ident_sound_for w d m.
Proof. intros H s t issuers Es _. apply index_sound_at_for. apply (H s t Es). Qed.

Lemma check_topic_complete c w d ti :
  (forall s, the_ident w d = Ok s -> index_sound_for s (fst ti) (snd ti)) ->
  topic_covered c w d ti -> check_topic true c w d ti = Ok tt.
Proof.
  destruct ti as [t issuers]. intros Hs [s [i [Es [Hi Hv]]]]. unfold check_topic. cbn [andb fst snd] in *.
  destruct issuers as [|i0 rest]; [destruct Hi|]. cbn [is_nil]. rewrite Es. cbn [bind].
  apply check_issuers_complete; [apply (Hs s Es)|]. exists i. auto.
Qed.

Lemma check_topics_sound c w d m :
  check_topics true c w d m = Ok tt -> forall ti, In ti m -> topic_covered c w d ti.
Proof.
  induction m as [|ti r IH]; cbn [check_topics]; intros H x Hx; [destruct Hx|].
  apply bind_ok in H. destruct H as [[] [H1 H2]].
  destruct Hx as [->|Hx]; [apply check_topic_sound; exact H1 | apply IH; auto].
Qed.
Lemma check_topics_complete c w d m :
  ident_sound_for w d m -> (forall ti, In ti m -> topic_covered c w d ti) -> check_topics true c w d m = Ok tt.
Proof.
  induction m as [|ti r IH]; cbn [check_topics]; intros Hs H; [reflexivity|].
  rewrite (check_topic_complete c w d ti).
  - cbn [bind]. apply IH.
    + intros s t issuers Es Hin. apply (Hs s t issuers Es). right. exact Hin.
    + intros x Hx. apply H. right. exact Hx.
  - intros s Es. destruct ti as [t issuers]. apply (Hs s t issuers Es). left. reflexivity.
  - apply H. left. reflexivity.
Qed.

(* the links of the verifier and the registered identity of the account *)
Definition verifier_view (w : world) (account : addr) (d : addr) (m : list (Z * list addr)) : Prop :=
  exists ra r ca ct,
    w_virs w = Some ra /\ the_irs w ra = Ok r /\ stored_identity r account = Ok d /\
    w_vcti w = Some ca /\ the_cti w ca = Ok ct /\ get_claim_topics_and_issuers ct = Ok m.

Lemma verify_unfold c w a :
  verify_identity c w a = Ok tt <->
  exists d m, verifier_view w a d m /\ check_topics true c w d m = Ok tt.
Proof.
  unfold verify_identity, verify_identity_gen, verifier_view. split.
  - intros H.
    apply bind_ok in H. destruct H as [ra [E1 H]]. apply of_option_ok in E1.
    apply bind_ok in H. destruct H as [r [E2 H]].
    apply bind_ok in H. destruct H as [d [E3 H]].
    apply bind_ok in H. destruct H as [ca [E4 H]]. apply of_option_ok in E4.
    apply bind_ok in H. destruct H as [ct [E5 H]].
    apply bind_ok in H. destruct H as [m [E6 H]].
    exists d, m. split; [exists ra, r, ca, ct; repeat split; assumption | exact H].
  - intros [d [m [[ra [r [ca [ct [E1 [E2 [E3 [E4 [E5 E6]]]]]]]]] H]]].
    rewrite E1. cbn [of_option bind]. rewrite E2. cbn [bind]. rewrite E3. cbn [bind].
    rewrite E4. cbn [of_option bind]. rewrite E5. cbn [bind]. rewrite E6. cbn [bind]. exact H.
Qed.

(* soundness, for every state: a verified account has, for every required topic, a confirmed
   claim from one of the topic's issuers *)
Theorem verify_sound c w a :
  verify_identity c w a = Ok tt ->
  exists d m, verifier_view w a d m /\ forall ti, In ti m -> topic_covered c w d ti.
Proof.
  intros H. apply verify_unfold in H. destruct H as [d [m [Hv H]]].
  exists d, m. split; auto. apply check_topics_sound. exact H.
Qed.

(* completeness with the restricted hypothesis *)
Theorem verify_complete_for c w a d m :
  verifier_view w a d m -> ident_sound_for w d m ->
  (forall ti, In ti m -> topic_covered c w d ti) -> verify_identity c w a = Ok tt.
Proof.
  intros Hv Hs H. apply verify_unfold. exists d, m. split; auto. apply check_topics_complete; auto.
Qed.

(* the iff, for every state in which the identity's topic index resolves *)
Theorem verify_iff c w a :
  (forall d, ident_sound w d) ->
  (verify_identity c w a = Ok tt <->
   exists d m, verifier_view w a d m /\ forall ti, In ti m -> topic_covered c w d ti).
Proof.
  intros Hs. split; [apply verify_sound|].
  intros [d [m [Hv H]]]. eapply verify_complete_for; eauto. apply ident_sound_sound_for. apply Hs.
Qed.

(* in particular: a required topic without issuers is never satisfied (F4 fixed) *)
Corollary verify_fails_on_topic_without_issuers c w a d m t :
  verifier_view w a d m -> In (t, []) m -> verify_identity c w a = Fail.
Proof.
  intros Hv Hin. destruct (verify_identity c w a) as [[]|] eqn:E; auto.
  apply verify_sound in E. destruct E as [d' [m' [Hv' H]]].
  assert (m' = m /\ d' = d) as [-> ->].
  { destruct Hv as [ra [r [ca [ct [E1 [E2 [E3 [E4 [E5 E6]]]]]]]]].
    destruct Hv' as [ra' [r' [ca' [ct' [F1 [F2 [F3 [F4 [F5 F6]]]]]]]]].
    rewrite E1 in F1. inversion F1. subst ra'. rewrite E2 in F2. inversion F2. subst r'.
    rewrite E3 in F3. inversion F3. rewrite E4 in F4. inversion F4. subst ca'.
    rewrite E5 in F5. inversion F5. subst ct'. rewrite E6 in F6. inversion F6. auto. }
  destruct (H _ Hin) as [s [i [_ [Hi _]]]]. destruct Hi.
Qed.
