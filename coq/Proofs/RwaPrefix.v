(* C04 / finding F1: the RWA::transfer_from of the pinned tree BEFORE fix a18c261 (no call of
   validate_transfer) violates both the gate property and the frozen <= balance invariant. *)
From SC Require Import Lib.Prelude Lib.Int Lib.Host Model.Rwa.

Definition f1_cfg : hostcfg := default_cfg 6312000.
Definition f1_orc : addr -> oracle := fun _ => mkOracle [0; 1; 2; 3]%N true true [].
(* nobody verified, compliance refuses everything *)
Definition f1_closed : addr -> oracle := fun _ => mkOracle [] false false [].
Definition f1_history : list call :=
  [ mkCall (SetCompliance 50%N 3%N) [3%N] f1_orc;
    mkCall (SetIdentityVerifier 60%N 3%N) [3%N] f1_orc;
    mkCall (Mint 0%N 100 3%N) [3%N] f1_orc;
    mkCall (Freeze 0%N 80 3%N) [3%N] f1_orc;            (* freeze 80 of 100 *)
    mkCall (Approve 0%N 2%N 1000 500) [0%N] f1_orc;
    mkCall (SetAddressFrozen 0%N true 3%N) [3%N] f1_orc;
    mkCall (SetAddressFrozen 1%N true 3%N) [3%N] f1_orc;
    mkCall (Pause 3%N) [3%N] f1_orc ].
Definition f1_call : call := mkCall (TransferFrom 2%N 0%N 1%N 50) [2%N] f1_closed.

(* Every gate is closed (paused, both parties frozen, 50 > 20 free tokens, nobody verified,
   compliance refuses) and yet the pre-fix transfer_from of 50 succeeds, leaving 80 frozen tokens
   on a balance of 50.  The current code refuses the same call. *)
Lemma prefix_refuted :
  exists (hc : hostcfg) (cs : list call) (c : call) (spender from to : addr) (amt : Z) (s' : state),
    let s := run_prefix hc init cs in
    c_op c = TransferFrom spender from to amt /\
    step_prefix hc s c = (s', Ok None) /\
    paused s = true /\ aflag s from = true /\ aflag s to = true /\
    bal s from - frozen s from < amt /\
    idv_ok (eff_orc s c) from = false /\ idv_ok (eff_orc s c) to = false /\ o_can_transfer (eff_orc s c) = false /\
    bal s' from < frozen s' from /\
    snd (step hc (run hc init cs) c) = Fail.
Proof.
  exists f1_cfg, f1_history, f1_call, 2%N, 0%N, 1%N, 50.
  eexists. vm_compute. repeat split; reflexivity.
Qed.
