(* C05: round trips never profit; value grows at most with the rate; withdrawing within one's means. *)
From SC Require Import Lib.Prelude Lib.Int Lib.Host Model.Math Proofs.Math Model.Vault
  Proofs.VaultSpec Proofs.VaultToken Proofs.VaultOps Proofs.VaultRate.
From Coq Require Import ZifyBool.

Lemma step_ok_inv c s cl s' o : step c s cl = (s', Ok o) -> step_res c s cl = Ok (s', o).
Proof. unfold step. destruct (step_res c s cl) as [[s1 o1]|]; intros H; inversion H; reflexivity. Qed.

(* ---------- arithmetic of the four two-step round trips ----------
   A, S: totals before the first step; a: assets of the first step, sh: its shares *)
Lemma trip_in_out_assets A S P a sh x a' :
  0 < A + 1 -> 0 < S + P -> 0 <= a -> 0 <= sh ->
  sh * (A + 1) <= a * (S + P) ->              (* first step: a assets in, sh shares out, in the vault's favour *)
  0 <= x <= sh ->                               (* second step gives back at most those shares ... *)
  a' * (S + sh + P) <= x * (A + a + 1) ->      (* ... for a' assets, in the vault's favour *)
  a' <= a.
Proof.
  intros HA HS Ha Hsh H1 Hx H2.
  destruct (Z_le_gt_dec a' a) as [|Hgt]; [assumption|exfalso].
  assert (H3 : (a + 1) * (S + sh + P) <= a' * (S + sh + P)) by (apply Z.mul_le_mono_nonneg_r; lia).
  assert (H4 : x * (A + a + 1) <= sh * (A + a + 1)) by (apply Z.mul_le_mono_nonneg_r; lia).
  nia.
Qed.

Lemma trip_in_out_shares A S P a sh y sh' :
  0 < A + 1 -> 0 < S + P -> 0 <= a -> 0 <= sh ->
  sh * (A + 1) <= a * (S + P) ->              (* first step: a assets in, sh shares out *)
  a <= y ->                                     (* second step takes out at least those assets ... *)
  y * (S + sh + P) <= sh' * (A + a + 1) ->     (* ... burning sh' shares, in the vault's favour *)
  sh <= sh'.
Proof.
  intros HA HS Ha Hsh H1 Hy H2.
  destruct (Z_le_gt_dec sh sh') as [|Hgt]; [assumption|exfalso].
  assert (H3 : a * (S + sh + P) <= y * (S + sh + P)) by (apply Z.mul_le_mono_nonneg_r; lia).
  assert (H4 : sh' * (A + a + 1) <= (sh - 1) * (A + a + 1)) by (apply Z.mul_le_mono_nonneg_r; lia).
  nia.
Qed.

(* value grows at most with the rate: a' / a <= rate2 / rate0 *)
Lemma trip_rate_bound A S P a sh A2 S2 x a' :
  0 < A + 1 -> 0 < S + P -> 0 < A2 + 1 -> 0 < S2 + P -> 0 <= a -> 0 <= sh -> 0 <= a' ->
  sh * (A + 1) <= a * (S + P) -> 0 <= x <= sh -> a' * (S2 + P) <= x * (A2 + 1) ->
  a' * (S2 + P) * (A + 1) <= a * (A2 + 1) * (S + P).
Proof.
  intros HA HS HA2 HS2 Ha Hsh Ha' H1 Hx H2.
  assert (H3 : x * (A2 + 1) <= sh * (A2 + 1)) by (apply Z.mul_le_mono_nonneg_r; lia).
  assert (H4 : a' * (S2 + P) * (A + 1) <= sh * (A2 + 1) * (A + 1)) by (apply Z.mul_le_mono_nonneg_r; lia).
  assert (H5 : sh * (A + 1) * (A2 + 1) <= a * (S + P) * (A2 + 1)) by (apply Z.mul_le_mono_nonneg_r; lia).
  replace (sh * (A2 + 1) * (A + 1)) with (sh * (A + 1) * (A2 + 1)) in H4 by ring.
  replace (a * (A2 + 1) * (S + P)) with (a * (S + P) * (A2 + 1)) by ring. lia.
Qed.

(* ---------- the first step of a round trip, seen through the model ---------- *)
Section Trips.
  Variable c : cfg.
  Hypothesis Hc : wf_cfg c.
  Local Notation P := (P_of c).

  (* deposit-like first step: totals afterwards and the favourable inequality *)
  Lemma deposit_step_facts s a r f o au s1 sh e1 :
    Inv c s -> wf_call (Deposit a r f o au) = true ->
    step c s (Deposit a r f o au) = (s1, Ok (sh, e1)) ->
    Inv c s1 /\ total_assets s1 = total_assets s + a /\ total_supply s1 = total_supply s + sh /\
    0 <= a /\ 0 <= sh /\ sh * (total_assets s + 1) <= a * (total_supply s + P).
  Proof.
    intros Hi Hwf H. apply step_ok_inv in H. cbn [step_res] in H.
    destruct (wf_call_parts _ Hwf) as (Hnv & Hr). cbn [call_auths call_amount] in *.
    destruct (deposit_ok _ _ _ _ _ _ _ _ _ _ H Hi Hnv) as (Hp & _ & He & _ & Ha & Hsh & HA' & Hi').
    destruct (to_shares_floor c s Hc Hi a sh Hr Hp) as (_ & _ & Hfl & _).
    unfold total_supply in *. rewrite (de_ssup _ _ _ _ _ _ _ He).
    split; [exact Hi'|]. split; [exact HA'|]. split; [reflexivity|]. split; [lia|]. split; [lia|]. exact Hfl.
  Qed.

  Lemma mint_step_facts s x r f o au s1 a e1 :
    Inv c s -> wf_call (MintS x r f o au) = true ->
    step c s (MintS x r f o au) = (s1, Ok (a, e1)) ->
    Inv c s1 /\ total_assets s1 = total_assets s + a /\ total_supply s1 = total_supply s + x /\
    0 <= a /\ 0 <= x /\ x * (total_assets s + 1) <= a * (total_supply s + P).
  Proof.
    intros Hi Hwf H. apply step_ok_inv in H. cbn [step_res] in H.
    destruct (wf_call_parts _ Hwf) as (Hnv & Hr). cbn [call_auths call_amount] in *.
    destruct (mint_ok _ _ _ _ _ _ _ _ _ _ H Hi Hnv) as (Hp & _ & He & _ & Ha & Hx & HA' & Hi').
    destruct (to_assets_ceil c s Hc Hi x a Hr Hp) as (_ & _ & Hce & _).
    unfold total_supply in *. rewrite (de_ssup _ _ _ _ _ _ _ He).
    split; [exact Hi'|]. split; [exact HA'|]. split; [reflexivity|]. split; [lia|]. split; [lia|]. exact Hce.
  Qed.

  (* withdraw-like second step: the favourable inequality on the state it runs in *)
  Lemma redeem_step_facts s x r ow o au s2 a e2 :
    Inv c s -> wf_call (Redeem x r ow o au) = true ->
    step c s (Redeem x r ow o au) = (s2, Ok (a, e2)) ->
    0 <= x /\ 0 <= a /\ a * (total_supply s + P) <= x * (total_assets s + 1).
  Proof.
    intros Hi Hwf H. apply step_ok_inv in H. cbn [step_res] in H.
    destruct (wf_call_parts _ Hwf) as (Hnv & Hr). cbn [call_auths call_amount] in *.
    destruct (redeem_ok _ _ _ _ _ _ _ _ _ _ H Hi) as (Hp & _).
    destruct (to_assets_floor c s Hc Hi x a Hr Hp) as (H0 & H1 & Hfl & _). auto.
  Qed.

  Lemma withdraw_step_facts s y r ow o au s2 sh e2 :
    Inv c s -> wf_call (Withdraw y r ow o au) = true ->
    step c s (Withdraw y r ow o au) = (s2, Ok (sh, e2)) ->
    0 <= y /\ 0 <= sh /\ y * (total_supply s + P) <= sh * (total_assets s + 1).
  Proof.
    intros Hi Hwf H. apply step_ok_inv in H. cbn [step_res] in H.
    destruct (wf_call_parts _ Hwf) as (Hnv & Hr). cbn [call_auths call_amount] in *.
    destruct (withdraw_ok _ _ _ _ _ _ _ _ _ _ H Hi) as (Hp & _).
    destruct (to_shares_ceil c s Hc Hi y sh Hr Hp) as (H0 & H1 & Hce & _). auto.
  Qed.

  (* the four immediate round trips, between arbitrary parties *)
  Theorem trip_deposit_redeem s a r f o au s1 sh e1 x r' ow o' au' s2 a' e2 :
    Inv c s -> wf_call (Deposit a r f o au) = true -> wf_call (Redeem x r' ow o' au') = true ->
    step c s (Deposit a r f o au) = (s1, Ok (sh, e1)) -> x <= sh ->
    step c s1 (Redeem x r' ow o' au') = (s2, Ok (a', e2)) -> a' <= a.
  Proof.
    intros Hi W1 W2 H1 Hx H2.
    destruct (deposit_step_facts _ _ _ _ _ _ _ _ _ Hi W1 H1) as (Hi1 & HA & HS & Ha & Hsh & Hfav).
    destruct (redeem_step_facts _ _ _ _ _ _ _ _ _ Hi1 W2 H2) as (Hx0 & Ha' & Hfav2).
    destruct (den_pos c s Hc Hi) as (? & ? & _). rewrite HA, HS in Hfav2.
    apply (trip_in_out_assets (total_assets s) (total_supply s) P a sh x a'); auto; lia.
  Qed.

  Theorem trip_mint_redeem s x r f o au s1 a e1 y r' ow o' au' s2 a' e2 :
    Inv c s -> wf_call (MintS x r f o au) = true -> wf_call (Redeem y r' ow o' au') = true ->
    step c s (MintS x r f o au) = (s1, Ok (a, e1)) -> y <= x ->
    step c s1 (Redeem y r' ow o' au') = (s2, Ok (a', e2)) -> a' <= a.
  Proof.
    intros Hi W1 W2 H1 Hy H2.
    destruct (mint_step_facts _ _ _ _ _ _ _ _ _ Hi W1 H1) as (Hi1 & HA & HS & Ha & Hx & Hfav).
    destruct (redeem_step_facts _ _ _ _ _ _ _ _ _ Hi1 W2 H2) as (Hy0 & Ha' & Hfav2).
    destruct (den_pos c s Hc Hi) as (? & ? & _). rewrite HA, HS in Hfav2.
    apply (trip_in_out_assets (total_assets s) (total_supply s) P a x y a'); auto; lia.
  Qed.

  Theorem trip_deposit_withdraw s a r f o au s1 sh e1 y r' ow o' au' s2 sh' e2 :
    Inv c s -> wf_call (Deposit a r f o au) = true -> wf_call (Withdraw y r' ow o' au') = true ->
    step c s (Deposit a r f o au) = (s1, Ok (sh, e1)) -> a <= y ->
    step c s1 (Withdraw y r' ow o' au') = (s2, Ok (sh', e2)) -> sh <= sh'.
  Proof.
    intros Hi W1 W2 H1 Hy H2.
    destruct (deposit_step_facts _ _ _ _ _ _ _ _ _ Hi W1 H1) as (Hi1 & HA & HS & Ha & Hsh & Hfav).
    destruct (withdraw_step_facts _ _ _ _ _ _ _ _ _ Hi1 W2 H2) as (Hy0 & Hsh' & Hfav2).
    destruct (den_pos c s Hc Hi) as (? & ? & _). rewrite HA, HS in Hfav2.
    apply (trip_in_out_shares (total_assets s) (total_supply s) P a sh y sh'); auto; lia.
  Qed.

  Theorem trip_mint_withdraw s x r f o au s1 a e1 y r' ow o' au' s2 sh' e2 :
    Inv c s -> wf_call (MintS x r f o au) = true -> wf_call (Withdraw y r' ow o' au') = true ->
    step c s (MintS x r f o au) = (s1, Ok (a, e1)) -> a <= y ->
    step c s1 (Withdraw y r' ow o' au') = (s2, Ok (sh', e2)) -> x <= sh'.
  Proof.
    intros Hi W1 W2 H1 Hy H2.
    destruct (mint_step_facts _ _ _ _ _ _ _ _ _ Hi W1 H1) as (Hi1 & HA & HS & Ha & Hx & Hfav).
    destruct (withdraw_step_facts _ _ _ _ _ _ _ _ _ Hi1 W2 H2) as (Hy0 & Hsh' & Hfav2).
    destruct (den_pos c s Hc Hi) as (? & ? & _). rewrite HA, HS in Hfav2.
    apply (trip_in_out_shares (total_assets s) (total_supply s) P a x y sh'); auto; lia.
  Qed.

  (* with an arbitrary history in between: what comes back is bounded by the growth of the rate *)
  Theorem deposit_history_redeem s a r f o au s1 sh e1 cs x r' ow o' au' s3 a' e2 :
    Inv c s -> wf_call (Deposit a r f o au) = true -> forallb wf_call cs = true ->
    wf_call (Redeem x r' ow o' au') = true ->
    step c s (Deposit a r f o au) = (s1, Ok (sh, e1)) -> x <= sh ->
    step c (run c s1 cs) (Redeem x r' ow o' au') = (s3, Ok (a', e2)) ->
    a' * (total_supply (run c s1 cs) + P) * (total_assets s + 1)
      <= a * (total_assets (run c s1 cs) + 1) * (total_supply s + P).
  Proof.
    intros Hi W1 Wcs W2 H1 Hx H2.
    destruct (deposit_step_facts _ _ _ _ _ _ _ _ _ Hi W1 H1) as (Hi1 & HA & HS & Ha & Hsh & Hfav).
    destruct (run_inv_rate c Hc cs s1 Hi1 Wcs) as (Hi2 & _).
    destruct (redeem_step_facts _ _ _ _ _ _ _ _ _ Hi2 W2 H2) as (Hx0 & Ha' & Hfav2).
    destruct (den_pos c s Hc Hi) as (? & ? & _). destruct (den_pos c _ Hc Hi2) as (? & ? & _).
    apply (trip_rate_bound _ _ _ a sh _ _ x a'); auto; lia.
  Qed.
End Trips.

(* ---------- withdrawing within one's means ---------- *)
Theorem withdraw_within_means c s ow a m : wf_cfg c -> Inv c s ->
  max_withdraw c s ow = Ok m -> 0 <= a <= m ->
  exists sh, preview_withdraw c s a = Ok sh /\ 0 <= sh <= bal (share s) ow /\ a <= total_assets s.
Proof.
  intros Hc Hi Hm Ha.
  destruct (den_pos c s Hc Hi) as (HA1 & HSP & HA & HS & HP).
  assert (Hbr : MIN128 <= bal (share s) ow <= MAX128) by (apply tok_inv_bal_range; apply Hi).
  assert (Hbs : 0 <= bal (share s) ow <= total_supply s) by (apply tok_inv_bal_le; apply Hi).
  unfold max_withdraw in Hm.
  destruct (to_assets_floor c s Hc Hi _ m Hbr Hm) as (_ & Hm0 & Hfl & _).
  (* m <= A *)
  assert (HmA : m <= total_assets s).
  { assert (m * (total_supply s + P_of c) < (total_assets s + 1) * (total_supply s + P_of c)) by nia.
    assert (m < total_assets s + 1) by nia. lia. }
  destruct (Z.eq_dec a 0) as [->|Hne].
  - exists 0. unfold preview_withdraw, to_shares. cbn. repeat split; lia.
  - assert (Hap : 0 < a) by lia.
    (* the owner holds shares, so the effective totals fit *)
    assert (Hb0 : 0 < bal (share s) ow).
    { destruct (Z.eq_dec (bal (share s) ow) 0) as [E|E]; [|lia].
      rewrite E in Hm. unfold to_assets in Hm. cbn in Hm. inversion Hm. lia. }
    rewrite (to_assets_spec c s _ _ (Inv_stored c s Hi)) in Hm by exact Hbr.
    destruct (spec_conv_ok _ _ _ _ _ _ Hm) as (_ & _ & Hfit). destruct (Hfit Hb0) as (_ & _ & _ & Hnum & Hden & HPr).
    set (q := exact Ceil (a * (total_supply s + P_of c)) (total_assets s + 1)).
    pose proof (ceil_pos (a * (total_supply s + P_of c)) (total_assets s + 1) HA1) as Hq. fold q in Hq. cbn zeta in Hq.
    assert (Hqb : 0 <= q <= bal (share s) ow).
    { split; [nia|].
      assert (a * (total_supply s + P_of c) <= m * (total_supply s + P_of c)) by nia.
      assert ((q - 1) * (total_assets s + 1) < bal (share s) ow * (total_assets s + 1)) by lia.
      assert (q - 1 < bal (share s) ow) by nia. lia. }
    exists q. split; [|split; [exact Hqb|lia]].
    unfold preview_withdraw. rewrite (to_shares_spec c s _ _ (Inv_stored c s Hi)) by (rewrite MIN128_val; destruct Hbr; lia).
    unfold spec_conv. assert (E1 : (a <? 0) = false) by lia. assert (E2 : (a =? 0) = false) by lia.
    rewrite E1, E2.
    assert (E3 : in_i128 (P_of c) && in_i128 (total_supply s + P_of c) && in_i128 (total_assets s + 1)
                 && negb (total_assets s + 1 =? 0) = true).
    { rewrite <- !in_i128_iff in *. rewrite HPr, Hnum, Hden. cbn. lia. }
    rewrite E3. fold q.
    assert (E4 : in_i128 q = true) by (apply in_i128_iff; rewrite MIN128_val; lia).
    rewrite E4. reflexivity.
Qed.

(* ---------- liveness: taking out within one's means always succeeds ---------- *)
Lemma update_burn_succeeds t f x : tok_inv t -> 0 <= x <= bal t f ->
  update t (Some f) None x = Ok {| bal := upd (bal t) f (bal t f - x); supply := supply t - x; allow := allow t |}.
Proof.
  intros Hi Hx. pose proof (tok_inv_bal_le t f Hi) as Hb. pose proof (tok_inv_bal_range t f Hi) as Hr.
  destruct Hi as (_ & Hs & _).
  unfold update. assert (E0 : (x <? 0) = false) by lia. rewrite E0. cbn [negb guard bind].
  assert (E1 : (bal t f <? x) = false) by lia. rewrite E1. cbn [negb guard bind].
  unfold checked_sub, fit128.
  assert (E2 : in_i128 (bal t f - x) = true) by (apply in_i128_iff; rewrite MIN128_val in *; lia).
  rewrite E2. cbn [of_option bind set_bal bal supply allow].
  assert (E3 : in_i128 (supply t - x) = true) by (apply in_i128_iff; rewrite MIN128_val in *; lia).
  rewrite E3. cbn [of_option bind]. reflexivity.
Qed.

Lemma withdraw_internal_succeeds c s r ow a sh :
  Inv c s -> 0 <= sh <= bal (share s) ow -> 0 <= a <= total_assets s ->
  exists s', withdraw_internal c s r ow a sh ow = Ok s'.
Proof.
  intros (Ha & Hs & _ & Hst) Hsh Hx. unfold withdraw_internal. rewrite N.eqb_refl. cbn [negb bind].
  rewrite (update_burn_succeeds _ _ _ Hs Hsh). cbn [bind]. rewrite (stored_client c s Hst). cbn [bind].
  unfold tok_transfer. cbn [guard bind]. rewrite (update_xfer_succeeds _ _ _ _ Ha Hx). cbn [bind].
  eexists. reflexivity.
Qed.

Theorem withdraw_succeeds c s au a r ow m : wf_cfg c -> Inv c s -> auth_root au ow = true ->
  max_withdraw c s ow = Ok m -> 0 <= a <= m ->
  exists s' sh evs, step_res c s (Withdraw a r ow ow au) = Ok (s', (sh, evs)).
Proof.
  intros Hc Hi Hau Hm Ha.
  destruct (withdraw_within_means c s ow a m Hc Hi Hm Ha) as (sh & Hp & Hsh & HaA).
  destruct (withdraw_internal_succeeds c s r ow a sh Hi Hsh) as (s' & Hs'); [lia|].
  cbn [step_res]. unfold withdraw. rewrite Hau. cbn [guard bind]. rewrite Hm. cbn [bind].
  assert (E : (m <? a) = false) by lia. rewrite E. cbn [negb guard bind].
  rewrite Hp. cbn [bind]. rewrite Hs'. cbn [bind]. eauto.
Qed.

Theorem redeem_succeeds c s au x r ow a : wf_cfg c -> Inv c s -> auth_root au ow = true ->
  0 <= x <= bal (share s) ow -> preview_redeem c s x = Ok a ->
  exists s' evs, step_res c s (Redeem x r ow ow au) = Ok (s', (a, evs)).
Proof.
  intros Hc Hi Hau Hx Hp.
  destruct (den_pos c s Hc Hi) as (HA1 & HSP & HA & HS & HP).
  assert (Hbs : 0 <= bal (share s) ow <= total_supply s) by (apply tok_inv_bal_le; apply Hi).
  assert (Hxr : MIN128 <= x <= MAX128).
  { pose proof (tok_inv_bal_range (share s) ow (proj1 (proj2 Hi))). rewrite MIN128_val in *. lia. }
  destruct (to_assets_floor c s Hc Hi x a Hxr Hp) as (_ & Ha0 & Hfl & _).
  assert (HaA : a <= total_assets s).
  { assert (a * (total_supply s + P_of c) < (total_assets s + 1) * (total_supply s + P_of c)) by nia.
    assert (a < total_assets s + 1) by nia. lia. }
  destruct (withdraw_internal_succeeds c s r ow a x Hi Hx) as (s' & Hs'); [lia|].
  cbn [step_res]. unfold redeem. rewrite Hau. cbn [guard bind].
  assert (E : (max_redeem s ow <? x) = false) by (unfold max_redeem; lia). rewrite E. cbn [negb guard bind].
  rewrite Hp. cbn [bind]. rewrite Hs'. cbn [bind]. eauto.
Qed.
