(* C04: the three layers put together.  When the token's collaborators ARE the library's own
   compliance contract (in state [cst], with the modules [deny] refusing) and the library's own
   identity verifier (in the world [w]), i.e. when the answers the token receives are the ones the
   other two models compute, the gates read: every compliance module registered for the hook
   approves, and both parties are verified in the sense of the claim registry. *)
From SC Require Import Lib.Prelude Lib.Int Lib.Host Model.Rwa Model.RwaCompliance Model.RwaIdentity
  Run.C04Compliance Run.C04Identity Proofs.Rwa Proofs.RwaCompliance Proofs.RwaIdentity.

(* the collaborators' answers during call [c] are those of the two other models; [approved]: the
   compliance contract answered, and answered true (a query that fails because a module asked
   fails - traps, cannot be invoked - is no approval) *)
Definition approved (o : res cret) : bool := match o with Ok (Some true) => true | _ => false end.
Definition answers_of (s : state) (c : call) (cf : ccfg) (cst : cstate) (deny fail : list addr) (w : iworld) : Prop :=
  (forall a, idv_ok (eff_orc s c) a = is_ok (iverify_identity w a)) /\
  (forall f t amt tok, o_can_transfer (eff_orc s c) =
     approved (snd (cstep cf cst (mkCCF (CCanTransfer f t amt tok) [] deny fail)))) /\
  (forall t amt tok, o_can_create (eff_orc s c) =
     approved (snd (cstep cf cst (mkCCF (CCanCreate t amt tok) [] deny fail)))).

Definition all_ok (deny fail : list addr) (ms : list addr) : bool :=
  negb (any_fail fail (asked deny ms)) && forallb (fun m => negb (mem m deny)) ms.

Lemma approved_ask fail deny ms e (s : cstate) :
  approved (match (do bs <- ask_all_f fail deny ms e s; Ok (Some (fst bs), snd bs)) with
            | Ok (r, s') => Ok r | Fail => Fail end) = all_ok deny fail ms.
Proof.
  unfold all_ok. rewrite ask_all_f_eq. destruct (any_fail fail (asked deny ms)); cbn [bind negb andb approved]; auto.
  destruct (ask_all_spec deny ms e s) as (A & _). cbn [fst]. rewrite A. unfold all_approve.
  destruct (forallb _ ms); reflexivity.
Qed.
Lemma snd_cstep cf s c :
  snd (cstep cf s c) = match cexec cf c (cclear s) with Ok (r, s') => Ok r | Fail => Fail end.
Proof. unfold cstep. destruct (cexec cf c (cclear s)) as [[r s']|]; reflexivity. Qed.

Lemma can_transfer_answer cf cst deny fail f t amt tok :
  approved (snd (cstep cf cst (mkCCF (CCanTransfer f t amt tok) [] deny fail))) =
  all_ok deny fail (mods cst HCanTransfer).
Proof. rewrite snd_cstep. unfold cexec. cbn [cc_op cc_auths cc_deny cc_fail]. apply approved_ask. Qed.
Lemma can_create_answer cf cst deny fail t amt tok :
  approved (snd (cstep cf cst (mkCCF (CCanCreate t amt tok) [] deny fail))) =
  all_ok deny fail (mods cst HCanCreate).
Proof. rewrite snd_cstep. unfold cexec. cbn [cc_op cc_auths cc_deny cc_fail]. apply approved_ask. Qed.

Lemma all_ok_true deny fail ms :
  all_ok deny fail ms = true -> forall m, In m ms -> ~ In m deny /\ ~ In m fail.
Proof.
  unfold all_ok. intros H. apply andb_prop in H. destruct H as [H1 H2].
  assert (E : asked deny ms = ms).
  { clear H1. induction ms as [|x r IH]; cbn [asked forallb] in *; auto.
    apply andb_prop in H2. destruct H2 as [Hx Hr]. apply negb_true_iff in Hx. rewrite Hx. f_equal. auto. }
  rewrite E in H1. apply negb_true_iff in H1.
  intros m Hm. split.
  - rewrite forallb_forall in H2. specialize (H2 m Hm). apply negb_true_iff in H2. apply mem_false. exact H2.
  - exact (proj1 (any_fail_false fail ms) H1 m Hm).
Qed.

Theorem gates_composed : forall (hc : hostcfg) (s : state) (c : call) (s' : state) (r : ret)
    (cf : ccfg) (cst : cstate) (deny fail : list addr) (w : iworld),
  answers_of s c cf cst deny fail w ->
  step hc s c = (s', Ok r) ->
  match c_op c with
  | Transfer from to amt | TransferFrom _ from to amt =>
      paused s = false /\ aflag s from = false /\ aflag s to = false /\
      0 <= amt <= bal s from - frozen s from /\
      verified w from = true /\ verified w to = true /\
      (forall m, In m (mods cst HCanTransfer) -> ~ In m deny /\ ~ In m fail)
  | Mint to amt _ =>
      0 <= amt /\ verified w to = true /\ (forall m, In m (mods cst HCanCreate) -> ~ In m deny /\ ~ In m fail)
  | _ => True
  end.
Proof.
  intros hc s c s' r cf cst deny fail w (HV & HT & HC) H.
  pose proof (gates_thm hc s c s' r H) as G.
  destruct (c_op c); auto.
  - destruct G as (A & B & C & D & E & F & K & _).
    rewrite HV, verify_iff in E, F. repeat split; auto; try lia;
    specialize (HT from to amt 0%N); rewrite can_transfer_answer in HT; rewrite HT in K;
    apply (all_ok_true _ _ _ K); assumption.
  - destruct G as (A & B & C & D & E & F & K & _).
    rewrite HV, verify_iff in E, F. repeat split; auto; try lia;
    specialize (HT from to amt 0%N); rewrite can_transfer_answer in HT; rewrite HT in K;
    apply (all_ok_true _ _ _ K); assumption.
  - destruct G as (A & E & K & _).
    rewrite HV, verify_iff in E. repeat split; auto;
    specialize (HC to amt 0%N); rewrite can_create_answer in HC; rewrite HC in K;
    apply (all_ok_true _ _ _ K); assumption.
Qed.

(* the hypothesis of [gates_composed] is satisfiable for every registry state, compliance state and
   sets of refusing / failing modules: the collaborator that answers exactly as the other two models compute *)
Definition canonical_orc (w : iworld) (cst : cstate) (deny fail : list addr) : oracle :=
  mkOracle (filter (fun a => is_ok (iverify_identity w a)) (map fst (w_ident w)))
           (all_ok deny fail (mods cst HCanTransfer))
           (all_ok deny fail (mods cst HCanCreate))
           (w_recovered w).

Lemma alist_get_in {V} a (l : list (addr * V)) v : alist_get a l = Some v -> In a (map fst l).
Proof.
  induction l as [|[k x] r IH]; cbn; [discriminate|]. destruct (N.eqb a k) eqn:E.
  - apply N.eqb_eq in E. subst. auto.
  - intros H. right. apply IH. exact H.
Qed.

Theorem answers_of_canonical : forall (s : state) (o : op) (au : list addr) (cf : ccfg) (cst : cstate)
    (deny fail : list addr) (w : iworld),
  answers_of s (mkCall o au (fun _ => canonical_orc w cst deny fail)) cf cst deny fail w.
Proof.
  intros s o au cf cst deny fail w. unfold answers_of, eff_orc. cbn [c_orc canonical_orc o_verified o_can_transfer o_can_create].
  split; [|split].
  - intros a. unfold idv_ok. cbn [o_verified].
    destruct (is_ok (iverify_identity w a)) eqn:V.
    + apply existsb_exists. exists a. split; [|apply N.eqb_refl]. apply filter_In. split; [|exact V].
      unfold iverify_identity in V. destruct (alist_get a (w_ident w)) as [idn|] eqn:L; [|discriminate].
      eapply alist_get_in; eauto.
    + destruct (existsb (N.eqb a) _) eqn:X; [|reflexivity].
      apply existsb_exists in X. destruct X as (x & Hx & E). apply N.eqb_eq in E. subst x.
      apply filter_In in Hx. destruct Hx as [_ Hx]. congruence.
  - intros f t amt tok. rewrite can_transfer_answer. reflexivity.
  - intros t amt tok. rewrite can_create_answer. reflexivity.
Qed.
