(* C04: the three layers put together.  When the token's collaborators ARE the library's own
   compliance contract (in state [cst], with the modules [deny] refusing) and the library's own
   identity verifier (in the world [w]), i.e. when the answers the token receives are the ones the
   other two models compute, the gates read: every compliance module registered for the hook
   approves, and both parties are verified in the sense of the claim registry. *)
From SC Require Import Lib.Prelude Lib.Int Lib.Host Model.Rwa Model.RwaCompliance Model.RwaIdentity
  Run.C04Compliance Run.C04Identity Proofs.Rwa Proofs.RwaCompliance Proofs.RwaIdentity.

(* the collaborators' answers during call [c] are those of the two other models *)
Definition answers_of (s : state) (c : call) (cf : ccfg) (cst : cstate) (deny : list addr) (w : iworld) : Prop :=
  (forall a, idv_ok (eff_orc s c) a = is_ok (iverify_identity w a)) /\
  (forall f t amt tok, Some (o_can_transfer (eff_orc s c)) =
     match snd (cstep cf cst (mkCC (CCanTransfer f t amt tok) [] deny)) with Ok r => r | Fail => None end) /\
  (forall t amt tok, Some (o_can_create (eff_orc s c)) =
     match snd (cstep cf cst (mkCC (CCanCreate t amt tok) [] deny)) with Ok r => r | Fail => None end).

Lemma can_transfer_answer cf cst deny f t amt tok :
  snd (cstep cf cst (mkCC (CCanTransfer f t amt tok) [] deny)) =
  Ok (Some (forallb (fun m => negb (mem m deny)) (mods cst HCanTransfer))).
Proof.
  destruct (cstep_cases cf cst (mkCC (CCanTransfer f t amt tok) [] deny)) as [(r & s' & H)|H].
  - pose proof (dispatch _ _ _ _ _ H) as D. cbn [cc_op cc_deny] in D. destruct D as (-> & _). rewrite H. reflexivity.
  - exfalso. unfold cstep, cexec in H. cbn [cc_op] in H.
    destruct (ask_all _ _ _ _). discriminate.
Qed.
Lemma can_create_answer cf cst deny t amt tok :
  snd (cstep cf cst (mkCC (CCanCreate t amt tok) [] deny)) =
  Ok (Some (forallb (fun m => negb (mem m deny)) (mods cst HCanCreate))).
Proof.
  destruct (cstep_cases cf cst (mkCC (CCanCreate t amt tok) [] deny)) as [(r & s' & H)|H].
  - pose proof (dispatch _ _ _ _ _ H) as D. cbn [cc_op cc_deny] in D. destruct D as (-> & _). rewrite H. reflexivity.
  - exfalso. unfold cstep, cexec in H. cbn [cc_op] in H.
    destruct (ask_all _ _ _ _). discriminate.
Qed.

Theorem gates_composed : forall (hc : hostcfg) (s : state) (c : call) (s' : state) (r : ret)
    (cf : ccfg) (cst : cstate) (deny : list addr) (w : iworld),
  answers_of s c cf cst deny w ->
  step hc s c = (s', Ok r) ->
  match c_op c with
  | Transfer from to amt | TransferFrom _ from to amt =>
      paused s = false /\ aflag s from = false /\ aflag s to = false /\
      0 <= amt <= bal s from - frozen s from /\
      verified w from = true /\ verified w to = true /\
      (forall m, In m (mods cst HCanTransfer) -> ~ In m deny)
  | Mint to amt _ =>
      0 <= amt /\ verified w to = true /\ (forall m, In m (mods cst HCanCreate) -> ~ In m deny)
  | _ => True
  end.
Proof.
  intros hc s c s' r cf cst deny w (HV & HT & HC) H.
  pose proof (gates_thm hc s c s' r H) as G.
  assert (Hall : forall l, forallb (fun m => negb (mem m deny)) l = true -> forall m, In m l -> ~ In m deny).
  { intros l Hl m Hm. rewrite forallb_forall in Hl. specialize (Hl m Hm). apply negb_true_iff in Hl.
    apply mem_false. exact Hl. }
  destruct (c_op c); auto.
  - destruct G as (A & B & C & D & E & F & K & _).
    rewrite HV, verify_iff in E, F. repeat split; auto; try lia.
    specialize (HT from to amt 0%N). rewrite can_transfer_answer in HT. injection HT as HT.
    apply Hall. rewrite <- HT. exact K.
  - destruct G as (A & B & C & D & E & F & K & _).
    rewrite HV, verify_iff in E, F. repeat split; auto; try lia.
    specialize (HT from to amt 0%N). rewrite can_transfer_answer in HT. injection HT as HT.
    apply Hall. rewrite <- HT. exact K.
  - destruct G as (A & E & K & _).
    rewrite HV, verify_iff in E. repeat split; auto.
    specialize (HC to amt 0%N). rewrite can_create_answer in HC. injection HC as HC.
    apply Hall. rewrite <- HC. exact K.
Qed.

(* the hypothesis of [gates_composed] is satisfiable for every registry state, compliance state and
   set of refusing modules: the collaborator that answers exactly as the other two models compute *)
Definition canonical_orc (w : iworld) (cst : cstate) (deny : list addr) : oracle :=
  mkOracle (filter (fun a => is_ok (iverify_identity w a)) (map fst (w_ident w)))
           (forallb (fun m => negb (mem m deny)) (mods cst HCanTransfer))
           (forallb (fun m => negb (mem m deny)) (mods cst HCanCreate))
           (w_recovered w).

Lemma alist_get_in {V} a (l : list (addr * V)) v : alist_get a l = Some v -> In a (map fst l).
Proof.
  induction l as [|[k x] r IH]; cbn; [discriminate|]. destruct (N.eqb a k) eqn:E.
  - apply N.eqb_eq in E. subst. auto.
  - intros H. right. apply IH. exact H.
Qed.

Theorem answers_of_canonical : forall (s : state) (o : op) (au : list addr) (cf : ccfg) (cst : cstate)
    (deny : list addr) (w : iworld),
  answers_of s (mkCall o au (fun _ => canonical_orc w cst deny)) cf cst deny w.
Proof.
  intros s o au cf cst deny w. unfold answers_of, eff_orc. cbn [c_orc canonical_orc o_verified o_can_transfer o_can_create].
  split; [|split].
  - intros a. unfold idv_ok. cbn [o_verified].
    destruct (is_ok (iverify_identity w a)) eqn:V.
    + apply existsb_exists. exists a. split; [|apply N.eqb_refl]. apply filter_In. split; [|exact V].
      unfold iverify_identity in V. destruct (alist_get a (w_ident w)) as [idn|] eqn:L; [|discriminate].
      eapply alist_get_in; eauto.
    + destruct (existsb (N.eqb a) _) eqn:X; [|reflexivity].
      apply existsb_exists in X. destruct X as (x & Hx & E). apply N.eqb_eq in E. subst x.
      apply filter_In in Hx. destruct Hx as [_ Hx]. congruence.
  - intros f t amt tok. rewrite can_transfer_answer. reflexivity.
  - intros t amt tok. rewrite can_create_answer. reflexivity.
Qed.
