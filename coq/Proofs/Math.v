(* Proofs for C12: the fixed-point mul-div family is exact. *)
From SC Require Import Lib.Prelude Lib.Int Model.Math.
From Coq Require Import ZifyBool.
Ltac Zify.zify_post_hook ::= Z.to_euclidean_division_equations.

(* ---------- the specification, written from the property text ---------- *)
Definition exact (rd : rounding) (n d : Z) : Z :=
  match rd with
  | Floor => floor_div n d
  | Ceil => ceil_div n d
  | Truncate => trunc_div n d
  end.

Definition spec_plain128 (rd : rounding) (x y d : Z) : res Z :=
  if d =? 0 then Fail else of_option (fit128 (exact rd (x * y) d)).
Definition spec_checked128 (rd : rounding) (x y d : Z) : res (option Z) :=
  Ok (if d =? 0 then None else fit128 (exact rd (x * y) d)).

(* floor/ceil/trunc really are the mathematical roundings of the rational n/d *)
Lemma floor_div_spec n d : d <> 0 ->
  let q := floor_div n d in
  (0 < d -> q * d <= n < (q + 1) * d) /\ (d < 0 -> (q + 1) * d < n <= q * d).
Proof. unfold floor_div; intros; split; intros; nia. Qed.
Lemma ceil_div_spec n d : d <> 0 ->
  let q := ceil_div n d in
  (0 < d -> (q - 1) * d < n <= q * d) /\ (d < 0 -> q * d <= n < (q - 1) * d).
Proof. unfold ceil_div; intros; split; intros; nia. Qed.
Lemma trunc_div_spec n d : d <> 0 ->
  let q := trunc_div n d in
  exists r, n = d * q + r /\ Z.abs r < Z.abs d /\ 0 <= r * n.
Proof.
  unfold trunc_div; intros Hd; exists (Z.rem n d); split; [apply Z.quot_rem'|].
  split; [apply Z.rem_bound_abs; exact Hd|apply Z.rem_sign_mul; exact Hd].
Qed.

(* ---------- range facts ---------- *)
Lemma in_i128_iff z : in_i128 z = true <-> MIN128 <= z <= MAX128.
Proof. unfold in_i128; lia. Qed.
Lemma in_i256_iff z : in_i256 z = true <-> MIN256 <= z <= MAX256.
Proof. unfold in_i256; lia. Qed.

Lemma MIN128_val : MIN128 = -170141183460469231731687303715884105728. Proof. reflexivity. Qed.
Lemma MAX128_val : MAX128 = 170141183460469231731687303715884105727. Proof. reflexivity. Qed.
Lemma MIN256_val : MIN256 = -57896044618658097711785492504343953926634992332820282019728792003956564819968. Proof. reflexivity. Qed.
Lemma MAX256_val : MAX256 = 57896044618658097711785492504343953926634992332820282019728792003956564819967. Proof. reflexivity. Qed.

Ltac ranges := rewrite ?in_i128_iff, ?in_i256_iff, ?MIN128_val, ?MAX128_val, ?MIN256_val, ?MAX256_val in *.

Lemma fit128_case z : (fit128 z = Some z /\ MIN128 <= z <= MAX128) \/ (fit128 z = None /\ ~ (MIN128 <= z <= MAX128)).
Proof. unfold fit128. destruct (in_i128 z) eqn:E; [left|right]; split; auto; rewrite <- in_i128_iff; congruence. Qed.
Lemma fit256_case z : (fit256 z = Some z /\ MIN256 <= z <= MAX256) \/ (fit256 z = None /\ ~ (MIN256 <= z <= MAX256)).
Proof. unfold fit256. destruct (in_i256 z) eqn:E; [left|right]; split; auto; rewrite <- in_i256_iff; congruence. Qed.

Lemma fit128_ext a b : a = b -> fit128 a = fit128 b. Proof. congruence. Qed.
Lemma fit256_ext a b : a = b -> fit256 a = fit256 b. Proof. congruence. Qed.

(* ---------- quot / floor / ceil relations ---------- *)
Lemma Zeqb_false a b : a <> b -> (a =? b) = false. Proof. lia. Qed.
Ltac Zify.zify_post_hook ::= idtac.
Lemma quot_facts r z : z <> 0 ->
  r = z * Z.quot r z + Z.rem r z /\ Z.abs (Z.rem r z) < Z.abs z /\
  (0 <= r -> 0 <= Z.rem r z) /\ (r <= 0 -> Z.rem r z <= 0).
Proof.
  intros Hz. split; [apply Z.quot_rem'|]. split; [apply Z.rem_bound_abs; exact Hz|].
  split; intros; [apply Z.rem_nonneg|apply Z.rem_nonpos]; assumption.
Qed.

(* floor division and euclidean remainder expressed through quot/rem *)
Lemma div_via_quot r z : z <> 0 ->
  r / z = Z.quot r z - (if ((r <? 0) && (0 <? z)) || ((0 <? r) && (z <? 0))
                        then (if Z.rem r z =? 0 then 0 else 1) else 0).
Proof.
  intros Hz. destruct (quot_facts r z Hz) as (H1 & H2 & H3 & H4).
  set (q := Z.quot r z) in *. set (m := Z.rem r z) in *.
  destruct (((r <? 0) && (0 <? z)) || ((0 <? r) && (z <? 0))) eqn:E.
  - destruct (m =? 0) eqn:Em.
    + symmetry; apply Z.div_unique with 0; lia.
    + symmetry; apply Z.div_unique with (m + z); lia.
  - symmetry; apply Z.div_unique with m; lia.
Qed.

Lemma mod_abs_pos_iff r z : z <> 0 -> (0 <? r mod Z.abs z) = negb (Z.rem r z =? 0).
Proof.
  intros Hz. destruct (quot_facts r z Hz) as (H1 & H2 & H3 & H4).
  set (q := Z.quot r z) in *. set (m := Z.rem r z) in *.
  assert (Hcases : (0 < z /\ Z.abs z = z) \/ (z < 0 /\ Z.abs z = - z)) by lia.
  destruct Hcases as [[Hs Ha]|[Hs Ha]]; rewrite Ha.
  - assert (Hm : 0 <= m \/ m < 0) by lia. destruct Hm as [Hm|Hm].
    + assert (Hu : m = r mod z) by (apply Z.mod_unique with q; lia).
      rewrite <- Hu. destruct (m =? 0) eqn:Em; cbn [negb]; lia.
    + assert (Hu : m + z = r mod z) by (apply Z.mod_unique with (q - 1); lia).
      rewrite <- Hu. destruct (m =? 0) eqn:Em; cbn [negb]; lia.
  - assert (Hm : 0 <= m \/ m < 0) by lia. destruct Hm as [Hm|Hm].
    + assert (Hu : m = r mod (- z)) by (apply Z.mod_unique with (- q); lia).
      rewrite <- Hu. destruct (m =? 0) eqn:Em; cbn [negb]; lia.
    + assert (Hu : m - z = r mod (- z)) by (apply Z.mod_unique with (- q - 1); lia).
      rewrite <- Hu. destruct (m =? 0) eqn:Em; cbn [negb]; lia.
Qed.

Lemma ceil_via_quot r z : z <> 0 ->
  ceil_div r z = Z.quot r z + (if ((r <=? 0) && (0 <? z)) || ((0 <=? r) && (z <? 0))
                               then 0 else (if Z.rem r z =? 0 then 0 else 1)).
Proof.
  intros Hz. unfold ceil_div. destruct (quot_facts r z Hz) as (H1 & H2 & H3 & H4).
  set (q := Z.quot r z) in *. set (m := Z.rem r z) in *.
  destruct (((r <=? 0) && (0 <? z)) || ((0 <=? r) && (z <? 0))) eqn:E.
  - assert (- r / z = - q); [|lia]. symmetry; apply Z.div_unique with (- m); lia.
  - destruct (m =? 0) eqn:Em.
    + assert (- r / z = - q); [|lia]. symmetry; apply Z.div_unique with 0; lia.
    + assert (- r / z = - q - 1); [|lia]. symmetry; apply Z.div_unique with (z - m); lia.
Qed.

(* ---------- i128 helpers ---------- *)
Lemma quot_in_range r z : MIN128 <= r <= MAX128 -> z <> 0 -> ~ (r = MIN128 /\ z = -1) ->
  MIN128 <= Z.quot r z <= MAX128.
Proof.
  intros Hr Hz Hn. destruct (quot_facts r z Hz) as (H1 & H2 & H3 & H4).
  set (q := Z.quot r z) in *. set (m := Z.rem r z) in *. ranges.
  assert (Hq : Z.abs q <= Z.abs r).
  { unfold q. rewrite <- Z.quot_abs by exact Hz.
    rewrite Z.quot_div_nonneg by lia.
    apply Z.div_le_upper_bound; [lia|]. nia. }
  assert (q = 170141183460469231731687303715884105728 -> False); [|lia].
  intros Hq1. subst q. rewrite Hq1 in *.
  assert (r = -170141183460469231731687303715884105728) by lia.
  assert (z = -1 \/ z = 1 \/ z <= -2 \/ 2 <= z) as [?|[?|[?|?]]] by lia; lia.
Qed.

Lemma div_floor128_ok r z :
  MIN128 <= r <= MAX128 -> MIN128 <= z <= MAX128 -> z <> 0 ->
  div_floor128 r z = Ok (fit128 (r / z)).
Proof.
  intros Hr Hz Hz0. unfold div_floor128. rewrite (div_via_quot r z Hz0).
  destruct (((r <? 0) && (0 <? z)) || ((0 <? r) && (z <? 0))) eqn:E.
  - unfold checked_rem_euclid. rewrite (Zeqb_false z 0 Hz0).
    assert (H1: (r =? MIN128) && (z =? -1) = false) by (ranges; lia). rewrite H1.
    unfold native_div, checked_div. rewrite (Zeqb_false z 0 Hz0).
    destruct (fit128_case (Z.quot r z)) as [[-> _]|[_ Hn]];
      [|exfalso; apply Hn; apply quot_in_range; auto; ranges; lia].
    cbn [of_option bind]. unfold checked_sub. rewrite (mod_abs_pos_iff r z Hz0).
    destruct (Z.rem r z =? 0); reflexivity.
  - unfold checked_div. rewrite (Zeqb_false z 0 Hz0). rewrite Z.sub_0_r. reflexivity.
Qed.

Lemma div_ceil128_ok r z :
  MIN128 <= r <= MAX128 -> MIN128 <= z <= MAX128 -> z <> 0 ->
  div_ceil128 r z = Ok (fit128 (ceil_div r z)).
Proof.
  intros Hr Hz Hz0. unfold div_ceil128. rewrite (ceil_via_quot r z Hz0).
  destruct (((r <=? 0) && (0 <? z)) || ((0 <=? r) && (z <? 0))) eqn:E.
  - unfold checked_div. rewrite (Zeqb_false z 0 Hz0). rewrite Z.add_0_r. reflexivity.
  - unfold checked_rem_euclid. rewrite (Zeqb_false z 0 Hz0).
    destruct ((r =? MIN128) && (z =? -1)) eqn:E1.
    + (* MIN / -1 : the ceiling 2^127 does not fit; checked_rem_euclid returned None *)
      assert (r = MIN128 /\ z = -1) as [-> ->] by lia. vm_compute. reflexivity.
    + unfold native_div, checked_div. rewrite (Zeqb_false z 0 Hz0).
      destruct (fit128_case (Z.quot r z)) as [[-> _]|[_ Hn]];
        [|exfalso; apply Hn; apply quot_in_range; auto; lia].
      cbn [of_option bind]. unfold checked_add. rewrite (mod_abs_pos_iff r z Hz0).
      destruct (Z.rem r z =? 0); reflexivity.
Qed.

(* ---------- I256 helpers ---------- *)
Definition lift256 (o : option Z) : res (option Z) :=
  match o with Some v => Ok (Some v) | None => Fail end.

Lemma quot_in_range256 r z : MIN256 <= r <= MAX256 -> z <> 0 -> ~ (r = MIN256 /\ z = -1) ->
  MIN256 <= Z.quot r z <= MAX256.
Proof.
  intros Hr Hz Hn. destruct (quot_facts r z Hz) as (H1 & H2 & H3 & H4).
  set (q := Z.quot r z) in *. set (m := Z.rem r z) in *. ranges.
  assert (Hq : Z.abs q <= Z.abs r).
  { unfold q. rewrite <- Z.quot_abs by exact Hz.
    rewrite Z.quot_div_nonneg by lia.
    apply Z.div_le_upper_bound; [lia|]. nia. }
  assert (q = 57896044618658097711785492504343953926634992332820282019728792003956564819968 -> False); [|lia].
  intros Hq1. subst q. rewrite Hq1 in *.
  assert (r = -57896044618658097711785492504343953926634992332820282019728792003956564819968) by lia.
  assert (z = -1 \/ z = 1 \/ z <= -2 \/ 2 <= z) as [?|[?|[?|?]]] by lia; lia.
Qed.

Lemma div256_ok r z : MIN256 <= r <= MAX256 -> z <> 0 ->
  div256 r z = fit256 (Z.quot r z).
Proof. intros; unfold div256; rewrite (Zeqb_false z 0); auto. Qed.

Lemma MIN256_quot_m1 : fit256 (Z.quot MIN256 (-1)) = None. Proof. reflexivity. Qed.

Lemma div_floor256_ok r z :
  MIN256 <= r <= MAX256 -> MIN256 <= z <= MAX256 -> z <> 0 ->
  div_floor256 r z = lift256 (fit256 (r / z)).
Proof.
  intros Hr Hz Hz0.
  destruct (Z.eq_dec r MIN256) as [Er|Er]; [destruct (Z.eq_dec z (-1)) as [Ez|Ez]|].
  { subst. reflexivity. }
  all: assert (Hq : MIN256 <= Z.quot r z <= MAX256) by (apply quot_in_range256; auto; lia).
  all: unfold div_floor256; rewrite (div_via_quot r z Hz0);
    destruct (((r <? 0) && (0 <? z)) || ((0 <? r) && (z <? 0))) eqn:E.
  all: rewrite ?div256_ok by auto.
  all: destruct (fit256_case (Z.quot r z)) as [[Hf _]|[_ Hn]]; [rewrite Hf|exfalso; apply Hn; exact Hq].
  all: unfold rem_euclid256; rewrite ?(Zeqb_false z 0 Hz0).
  all: try (assert (H1: (r =? MIN256) && (z =? -1) = false) by (ranges; lia); rewrite H1).
  all: cbn [of_option bind]; rewrite ?Z.sub_0_r, ?Hf; cbn [lift256]; try reflexivity.
  all: rewrite (mod_abs_pos_iff r z Hz0); unfold sub256;
    destruct (Z.rem r z =? 0); cbn [negb]; rewrite ?Z.sub_0_r;
    match goal with |- context [fit256 ?a] => destruct (fit256_case a) as [[-> _]|[-> _]] end; reflexivity.
Qed.

Lemma div_ceil256_ok r z :
  MIN256 <= r <= MAX256 -> MIN256 <= z <= MAX256 -> z <> 0 ->
  div_ceil256 r z = lift256 (fit256 (ceil_div r z)).
Proof.
  intros Hr Hz Hz0.
  destruct (Z.eq_dec r MIN256) as [Er|Er]; [destruct (Z.eq_dec z (-1)) as [Ez|Ez]|].
  { subst. reflexivity. }
  all: assert (Hq : MIN256 <= Z.quot r z <= MAX256) by (apply quot_in_range256; auto; lia).
  all: unfold div_ceil256; rewrite (ceil_via_quot r z Hz0);
    destruct (((r <=? 0) && (0 <? z)) || ((0 <=? r) && (z <? 0))) eqn:E.
  all: rewrite ?div256_ok by auto.
  all: destruct (fit256_case (Z.quot r z)) as [[Hf _]|[_ Hn]]; [rewrite Hf|exfalso; apply Hn; exact Hq].
  all: unfold rem_euclid256; rewrite ?(Zeqb_false z 0 Hz0).
  all: try (assert (H1: (r =? MIN256) && (z =? -1) = false) by (ranges; lia); rewrite H1).
  all: cbn [of_option bind]; rewrite ?Z.add_0_r, ?Hf; cbn [lift256]; try reflexivity.
  all: rewrite (mod_abs_pos_iff r z Hz0); unfold add256;
    destruct (Z.rem r z =? 0); cbn [negb]; rewrite ?Z.add_0_r;
    match goal with |- context [fit256 ?a] => destruct (fit256_case a) as [[-> _]|[-> _]] end; reflexivity.
Qed.

(* ---------- I256 trait methods ---------- *)
Definition spec_plain256 (rd : rounding) (x y d : Z) : res Z :=
  if d =? 0 then Fail else of_option (fit256 (exact rd (x * y) d)).
Definition spec_checked256 (rd : rounding) (x y d : Z) : res (option Z) :=
  if d =? 0 then Ok None else lift256 (fit256 (exact rd (x * y) d)).

Lemma checked_mul_div256_ok rd x y d :
  MIN256 <= x * y <= MAX256 -> MIN256 <= d <= MAX256 ->
  checked_mul_div256 rd x y d = spec_checked256 rd x y d.
Proof.
  intros Hp Hd. unfold checked_mul_div256, spec_checked256.
  destruct (d =? 0) eqn:Ed; [reflexivity|]. assert (Hd0 : d <> 0) by lia.
  unfold mul256. destruct (fit256_case (x * y)) as [[-> _]|[_ Hn]]; [|tauto].
  cbn [of_option bind]. destruct rd; cbn [exact].
  - apply div_floor256_ok; auto.
  - apply div_ceil256_ok; auto.
  - rewrite div256_ok by auto. unfold trunc_div.
    destruct (fit256 (Z.quot (x * y) d)); reflexivity.
Qed.

Lemma mul_div256_ok rd x y d :
  MIN256 <= x * y <= MAX256 -> MIN256 <= d <= MAX256 ->
  mul_div256 rd x y d = spec_plain256 rd x y d.
Proof.
  intros Hp Hd. unfold mul_div256, spec_plain256.
  destruct (d =? 0) eqn:Ed; [reflexivity|]. assert (Hd0 : d <> 0) by lia.
  unfold mul256. destruct (fit256_case (x * y)) as [[-> _]|[_ Hn]]; [|tauto].
  cbn [of_option bind]. destruct rd; cbn [exact].
  - rewrite div_floor256_ok by auto. unfold floor_div. destruct (fit256 (x * y / d)); reflexivity.
  - rewrite div_ceil256_ok by auto. destruct (fit256 (ceil_div (x * y) d)); reflexivity.
  - rewrite div256_ok by auto. reflexivity.
Qed.

(* ---------- i128 trait methods ---------- *)
Lemma prod_in_256 x y : MIN128 <= x <= MAX128 -> MIN128 <= y <= MAX128 ->
  - 2 ^ 254 <= x * y <= 2 ^ 254.
Proof.
  intros Hx Hy. ranges.
  assert (Z.abs (x * y) <= 170141183460469231731687303715884105728 * 170141183460469231731687303715884105728).
  { rewrite Z.abs_mul. apply Z.mul_le_mono_nonneg; lia. }
  change (2 ^ 254) with (170141183460469231731687303715884105728 * 170141183460469231731687303715884105728). lia.
Qed.

Lemma exact_abs_le rd n d : d <> 0 -> Z.abs (exact rd n d) <= Z.abs n.
Proof.
  intros Hd.
  assert (Hq : Z.abs (Z.quot n d) <= Z.abs n).
  { rewrite <- Z.quot_abs by exact Hd. rewrite Z.quot_div_nonneg by lia.
    apply Z.div_le_upper_bound; [lia|]. nia. }
  destruct (quot_facts n d Hd) as (H1 & H2 & H3 & H4).
  destruct rd; cbn [exact]; unfold floor_div, trunc_div; auto.
  - rewrite (div_via_quot n d Hd).
    destruct (((n <? 0) && (0 <? d)) || ((0 <? n) && (d <? 0))) eqn:E; [|lia].
    destruct (Z.rem n d =? 0) eqn:Em; [lia|].
    (* signs differ, nonzero remainder: quot <= 0 and |n| >= |d*quot| + 1 *)
    assert (Z.quot n d <= 0).
    { assert (Z.quot n d = - (Z.abs n / Z.abs d)).
      { assert (Hs: (n < 0 /\ 0 < d) \/ (0 < n /\ d < 0)) by lia. destruct Hs as [[? ?]|[? ?]].
        - replace n with (- Z.abs n) at 1 by lia. rewrite Z.quot_opp_l by lia.
          rewrite Z.quot_div_nonneg by lia. replace (Z.abs d) with d by lia. reflexivity.
        - replace d with (- Z.abs d) at 1 by lia. rewrite Z.quot_opp_r by lia.
          rewrite Z.quot_div_nonneg by lia. replace (Z.abs n) with n by lia. reflexivity. }
      assert (0 <= Z.abs n / Z.abs d) by (apply Z.div_pos; lia). lia. }
    assert (Z.abs (Z.quot n d) < Z.abs n); [|lia].
    assert (Z.abs (d * Z.quot n d) < Z.abs n) by lia.
    rewrite Z.abs_mul in *. nia.
  - rewrite (ceil_via_quot n d Hd).
    destruct (((n <=? 0) && (0 <? d)) || ((0 <=? n) && (d <? 0))) eqn:E; [lia|].
    destruct (Z.rem n d =? 0) eqn:Em; [lia|].
    assert (0 <= Z.quot n d).
    { assert (Z.quot n d = Z.abs n / Z.abs d).
      { assert (Hs: (0 < n /\ 0 < d) \/ (n < 0 /\ d < 0)) by lia. destruct Hs as [[? ?]|[? ?]].
        - rewrite Z.quot_div_nonneg by lia. f_equal; lia.
        - replace n with (- Z.abs n) at 1 by lia. replace d with (- Z.abs d) at 1 by lia.
          rewrite Z.quot_opp_opp by lia. rewrite Z.quot_div_nonneg by lia. reflexivity. }
      assert (0 <= Z.abs n / Z.abs d) by (apply Z.div_pos; lia). lia. }
    assert (Z.abs (Z.quot n d) < Z.abs n); [|lia].
    assert (Z.abs (d * Z.quot n d) < Z.abs n) by lia.
    rewrite Z.abs_mul in *. nia.
Qed.

Lemma exact_fits256 rd x y d : MIN128 <= x <= MAX128 -> MIN128 <= y <= MAX128 -> d <> 0 ->
  fit256 (exact rd (x * y) d) = Some (exact rd (x * y) d).
Proof.
  intros Hx Hy Hd. pose proof (prod_in_256 x y Hx Hy) as Hp.
  pose proof (exact_abs_le rd (x * y) d Hd) as Ha.
  destruct (fit256_case (exact rd (x * y) d)) as [[-> _]|[_ Hn]]; [reflexivity|].
  exfalso; apply Hn. rewrite MIN256_val, MAX256_val.
  change (2 ^ 254) with 28948022309329048855892746252171976963317496166410141009864396001978282409984 in Hp. lia.
Qed.

Lemma div_floor128_zero r : div_floor128 r 0 = Ok None.
Proof.
  unfold div_floor128. rewrite Z.ltb_irrefl, !andb_false_r. cbn [orb]. reflexivity.
Qed.
Lemma div_ceil128_zero r : div_ceil128 r 0 = Ok None.
Proof.
  unfold div_ceil128. rewrite Z.ltb_irrefl, !andb_false_r. cbn [orb]. reflexivity.
Qed.

Theorem checked_mul_div128_ok rd x y d :
  MIN128 <= x <= MAX128 -> MIN128 <= y <= MAX128 -> MIN128 <= d <= MAX128 ->
  checked_mul_div128 rd x y d = spec_checked128 rd x y d.
Proof.
  intros Hx Hy Hd. unfold checked_mul_div128, spec_checked128, checked_mul.
  pose proof (prod_in_256 x y Hx Hy) as Hp.
  change (2 ^ 254) with 28948022309329048855892746252171976963317496166410141009864396001978282409984 in Hp.
  destruct (fit128_case (x * y)) as [[-> Hr]|[-> Hn]].
  - destruct (d =? 0) eqn:Ed.
    + assert (d = 0) by lia; subst d.
      destruct rd; [apply div_floor128_zero|apply div_ceil128_zero|reflexivity].
    + assert (Hd0 : d <> 0) by lia.
      destruct rd; cbn [exact].
      * apply div_floor128_ok; auto.
      * apply div_ceil128_ok; auto.
      * unfold checked_div. rewrite Ed. reflexivity.
  - rewrite checked_mul_div256_ok by (rewrite ?MIN256_val, ?MAX256_val; ranges; lia).
    unfold spec_checked256. destruct (d =? 0) eqn:Ed; [reflexivity|].
    rewrite exact_fits256 by (auto; lia). reflexivity.
Qed.

Theorem mul_div128_ok rd x y d :
  MIN128 <= x <= MAX128 -> MIN128 <= y <= MAX128 -> MIN128 <= d <= MAX128 ->
  mul_div128 rd x y d = spec_plain128 rd x y d.
Proof.
  intros Hx Hy Hd. unfold mul_div128, spec_plain128, checked_mul.
  pose proof (prod_in_256 x y Hx Hy) as Hp.
  change (2 ^ 254) with 28948022309329048855892746252171976963317496166410141009864396001978282409984 in Hp.
  destruct (d =? 0) eqn:Ed; [reflexivity|]. assert (Hd0 : d <> 0) by lia.
  destruct (fit128_case (x * y)) as [[-> Hr]|[-> Hn]].
  - destruct rd; cbn [exact].
    + rewrite div_floor128_ok by auto. unfold floor_div. destruct (fit128 (x * y / d)); reflexivity.
    + rewrite div_ceil128_ok by auto. destruct (fit128 (ceil_div (x * y) d)); reflexivity.
    + unfold native_div, checked_div. rewrite Ed. reflexivity.
  - rewrite mul_div256_ok by (rewrite ?MIN256_val, ?MAX256_val; ranges; lia).
    unfold spec_plain256. rewrite Ed. rewrite exact_fits256 by (auto; lia).
    cbn [of_option bind]. reflexivity.
Qed.

(* ---------- Wad ---------- *)
Lemma WAD_range : MIN128 <= WAD <= MAX128. Proof. vm_compute; split; discriminate. Qed.
Lemma WAD_nz : (WAD =? 0) = false. Proof. reflexivity. Qed.

Theorem wad_checked_mul_ok a b : MIN128 <= a <= MAX128 -> MIN128 <= b <= MAX128 ->
  wad_checked_mul a b = Ok (fit128 (trunc_div (a * b) WAD)).
Proof.
  intros Ha Hb. unfold wad_checked_mul. rewrite checked_mul_div128_ok by (auto using WAD_range).
  unfold spec_checked128. rewrite WAD_nz. reflexivity.
Qed.

Theorem wad_checked_div_ok a b : MIN128 <= a <= MAX128 -> MIN128 <= b <= MAX128 ->
  wad_checked_div a b = Ok (if b =? 0 then None else fit128 (trunc_div (a * WAD) b)).
Proof.
  intros Ha Hb. unfold wad_checked_div. destruct (b =? 0) eqn:Eb; [reflexivity|].
  rewrite checked_mul_div128_ok by (auto using WAD_range).
  unfold spec_checked128. rewrite Eb. reflexivity.
Qed.

Theorem wad_from_ratio_ok n d : MIN128 <= n <= MAX128 -> MIN128 <= d <= MAX128 ->
  wad_from_ratio n d = if d =? 0 then Fail else of_option (fit128 (trunc_div (n * WAD) d)).
Proof.
  intros Hn Hd. unfold wad_from_ratio. destruct (d =? 0) eqn:Ed; [reflexivity|].
  rewrite checked_mul_div128_ok by (auto using WAD_range).
  unfold spec_checked128. rewrite Ed. cbn [exact flatten].
  destruct (fit128 (trunc_div (n * WAD) d)); reflexivity.
Qed.

(* checked_mul_div128 never traps on in-range inputs and yields in-range values *)
Lemma cmd128_some rd x y d v :
  MIN128 <= x <= MAX128 -> MIN128 <= y <= MAX128 -> MIN128 <= d <= MAX128 ->
  checked_mul_div128 rd x y d = Ok (Some v) -> MIN128 <= v <= MAX128.
Proof.
  intros Hx Hy Hd. rewrite checked_mul_div128_ok by auto. unfold spec_checked128.
  destruct (d =? 0); [discriminate|].
  destruct (fit128_case (exact rd (x * y) d)) as [[-> Hr]|[-> _]]; [|discriminate].
  intros H; inversion H; subst; exact Hr.
Qed.
Lemma cmd128_no_trap rd x y d :
  MIN128 <= x <= MAX128 -> MIN128 <= y <= MAX128 -> MIN128 <= d <= MAX128 ->
  checked_mul_div128 rd x y d <> Fail.
Proof. intros Hx Hy Hd. rewrite checked_mul_div128_ok by auto. discriminate. Qed.

Lemma pow_loop_no_trap fuel : forall e b r,
  MIN128 <= b <= MAX128 -> MIN128 <= r <= MAX128 -> 0 <= e < 2 ^ Z.of_nat fuel ->
  pow_loop fuel e b r <> Fail.
Proof.
  induction fuel as [|f IH]; intros e b r Hb Hr He.
  - cbn [pow_loop]. change (2 ^ Z.of_nat 0) with 1 in He.
    assert (e = 0) by lia; subst e. cbn. discriminate.
  - cbn [pow_loop]. destruct (0 <? e) eqn:E0; [|discriminate].
    assert (He2 : 0 <= e / 2 < 2 ^ Z.of_nat f).
    { rewrite Nat2Z.inj_succ, Z.pow_succ_r in He by lia. split; [apply Z.div_pos; lia|].
      apply Z.div_lt_upper_bound; lia. }
    assert (Hstep : forall r', MIN128 <= r' <= MAX128 ->
       (if 0 <? e / 2
        then do b1 <- checked_mul_div128 Truncate b b WAD;
             match b1 with None => Ok None | Some base' => pow_loop f (e / 2) base' r' end
        else pow_loop f (e / 2) b r') <> Fail).
    { intros r' Hr'. destruct (0 <? e / 2).
      - destruct (checked_mul_div128 Truncate b b WAD) as [[b'|]|] eqn:Eb; cbn [bind].
        + apply IH; auto. eapply cmd128_some; [| | |exact Eb]; auto using WAD_range.
        + discriminate.
        + exfalso; revert Eb; apply cmd128_no_trap; auto using WAD_range.
      - apply IH; auto. }
    destruct (Z.odd e).
    + destruct (checked_mul_div128 Truncate r b WAD) as [[r'|]|] eqn:Er; cbn [bind].
      * apply Hstep. eapply cmd128_some; [| | |exact Er]; auto using WAD_range.
      * discriminate.
      * exfalso; revert Er; apply cmd128_no_trap; auto using WAD_range.
    + cbn [bind]. apply Hstep; auto.
Qed.

Theorem wad_checked_pow_no_trap x e :
  MIN128 <= x <= MAX128 -> 0 <= e < 2 ^ 32 -> wad_checked_pow x e <> Fail.
Proof.
  intros Hx He. unfold wad_checked_pow.
  destruct (e =? 0); [discriminate|]. destruct (e =? 1); [discriminate|].
  destruct (x =? 0); [discriminate|]. destruct (x =? WAD); [discriminate|].
  apply pow_loop_no_trap; auto using WAD_range.
  change (2 ^ Z.of_nat 33) with (2 * 2 ^ 32). lia.
Qed.

Theorem wad_pow_fails_iff x e :
  MIN128 <= x <= MAX128 -> 0 <= e < 2 ^ 32 ->
  (wad_pow x e = Fail <-> wad_checked_pow x e = Ok None) /\
  (forall v, wad_pow x e = Ok v <-> wad_checked_pow x e = Ok (Some v)).
Proof.
  intros Hx He. pose proof (wad_checked_pow_no_trap x e Hx He) as Hn.
  unfold wad_pow. destruct (wad_checked_pow x e) as [[v|]|]; cbn [flatten]; [| |congruence].
  - split; [split; discriminate|]. intros v'; split; intros H; inversion H; reflexivity.
  - split; [tauto|]. intros v'; split; discriminate.
Qed.
