(* C14 - every window of [period] consecutive ledgers: the log of enforcements is paired with the
   limit that was in force at each enforcement, and for ANY ledger m the amounts enforced in
   (m - period, m] are bounded by the limit in force at the last enforcement inside that window. *)
From SC Require Import Lib.Prelude Lib.Int Lib.Host Model.Policies Model.PoliciesSpec
  Proofs.Policies Proofs.PoliciesSpend Proofs.PoliciesInv Proofs.PoliciesExact Proofs.C14Final.
From Coq Require Import ZifyBool Sorting.Sorted.

(* number of transfers a batch of contexts logs *)
Fixpoint count_transfers (ctxs : list context) : nat :=
  match ctxs with
  | [] => O
  | c :: r => match transfer_amount c with Some _ => S (count_transfers r) | None => count_transfers r end
  end.

(* per spending installation: the limit in force at each logged enforcement (parallel to gi_log) *)
Definition ghost_lims := list (key * list Z).
Definition lims_step (g : ghost_l) (gl : ghost_lims) (cl : call) (o : outcome) : ghost_lims :=
  match o with
  | Fail => gl
  | Ok _ =>
      match cl with
      | LInstall _ a r _ _ => kset (a, r) [] gl
      | Uninstall PL _ a r => kremove (a, r) gl
      | Enforce PL _ a r ctxs _ =>
          match ctxs, kget (a, r) g, kget (a, r) gl with
          | _ :: _, Some i, Some ls => kset (a, r) (ls ++ repeat (gi_limit i) (count_transfers ctxs)) gl
          | _, _, _ => gl
          end
      | _ => gl
      end
  end.

(* the run instrumented with both the log and the limits *)
Fixpoint run_lims (c : cfg) (s : state) (g : ghost_l) (gl : ghost_lims) (cs : list call)
  : state * ghost_l * ghost_lims :=
  match cs with
  | [] => (s, g, gl)
  | cl :: r => let '(s', o, _) := step c s cl in
               run_lims c s' (ghost_l_step (now s) g cl o) (lims_step g gl cl o) r
  end.

Lemma run_lims_log c cs : forall s g gl, fst (run_lims c s g gl cs) = run_log c s g cs.
Proof.
  induction cs as [|cl r IH]; intros s g gl; cbn [run_lims run_log]; [reflexivity|].
  destruct (step c s cl) as [[s' o] evs]. apply IH.
Qed.

(* every logged enforcement respected the limit then in force *)
Fixpoint log_ok_from (P : Z) (pre rest : list entry) (lims : list Z) : Prop :=
  match rest, lims with
  | [], [] => True
  | e :: r, L :: ls => window_sum (snd e) P (pre ++ [e]) <= L /\ log_ok_from P (pre ++ [e]) r ls
  | _, _ => False
  end.
Definition log_ok (P : Z) (log : list entry) (lims : list Z) : Prop := log_ok_from P [] log lims.

Lemma log_ok_snoc P e L : forall rest pre lims,
  log_ok_from P pre rest lims -> window_sum (snd e) P (pre ++ rest ++ [e]) <= L ->
  log_ok_from P pre (rest ++ [e]) (lims ++ [L]).
Proof.
  induction rest as [|x rest IH]; intros pre lims H Hw.
  - destruct lims; [|contradiction]. cbn [app log_ok_from] in *. auto.
  - destruct lims as [|L0 ls]; [contradiction|]. cbn [app log_ok_from] in *. destruct H as [H1 H2].
    split; [exact H1|]. apply IH; [exact H2|]. rewrite <- app_assoc. exact Hw.
Qed.

Lemma log_ok_at P : forall pre p0 e post lspre L lspost,
  log_ok_from P p0 (pre ++ e :: post) (lspre ++ L :: lspost) -> length lspre = length pre ->
  window_sum (snd e) P (p0 ++ pre ++ [e]) <= L.
Proof.
  induction pre as [|x pre IH]; intros p0 e post lspre L lspost H Hlen.
  - destruct lspre; [|discriminate]. cbn [app log_ok_from] in *. tauto.
  - destruct lspre as [|L0 lspre]; [discriminate|]. cbn [app log_ok_from length] in *. destruct H as [_ H].
    specialize (IH (p0 ++ [x]) e post lspre L lspost H ltac:(lia)). rewrite <- app_assoc in IH. exact IH.
Qed.

(* a successful batch extends the log and the limits consistently *)
Lemma batch_log_ok P L nw : forall ctxs log lims,
  log_ok P log lims -> l_batch_ok nw L P ctxs log = true ->
  log_ok P (log_batch nw ctxs log) (lims ++ repeat L (count_transfers ctxs)).
Proof.
  induction ctxs as [|c r IH]; intros log lims H Hb; cbn [l_batch_ok log_batch count_transfers repeat] in *.
  - rewrite app_nil_r. exact H.
  - destruct (transfer_amount c) as [a|]; [|discriminate]. apply andb_prop in Hb as [Hb1 Hb2].
    cbn [repeat]. replace (lims ++ L :: repeat L (count_transfers r)) with ((lims ++ [L]) ++ repeat L (count_transfers r))
      by (rewrite <- app_assoc; reflexivity).
    apply IH; [|exact Hb2]. unfold log_ok. apply log_ok_snoc; [exact H|]. cbn [app snd]. lia.
Qed.

(* ---------- the invariant tying the limits to the log ---------- *)
Definition lims_rel (g : ghost_l) (gl : ghost_lims) : Prop :=
  forall k, match kget k g, kget k gl with
            | None, None => True
            | Some i, Some ls => log_ok (gi_period i) (gi_log i) ls
            | _, _ => False
            end.

Lemma lims_rel_set g gl k i ls : lims_rel g gl -> log_ok (gi_period i) (gi_log i) ls -> lims_rel (kset k i g) (kset k ls gl).
Proof.
  intros H Hk k'. destruct (key_eqb k' k) eqn:E.
  - apply key_eqb_eq in E. subst. rewrite !kget_set_eq. exact Hk.
  - apply key_eqb_neq in E. rewrite !kget_set_neq by exact E. apply H.
Qed.
Lemma lims_rel_remove g gl k : lims_rel g gl -> lims_rel (kremove k g) (kremove k gl).
Proof.
  intros H k'. destruct (key_eqb k' k) eqn:E.
  - apply key_eqb_eq in E. subst. rewrite !kget_remove_eq. exact I.
  - apply key_eqb_neq in E. rewrite !kget_remove_neq by exact E. apply H.
Qed.

(* in any state satisfying the invariant, a successful batch kept every transfer within the limit *)
Lemma batch_ok_inv c s g au a r ctxs sgs s' rt evs :
  inv s g -> ctxs <> [] -> exec c s (Enforce PL au a r ctxs sgs) = Ok (s', rt, evs) ->
  exists i, kget (a, r) g = Some i /\ l_batch_ok (now s) (gi_limit i) (gi_period i) ctxs (gi_log i) = true.
Proof.
  intros [Hn Hs Hw Hl] Hne H. cbn [exec] in H.
  destruct (enforce_batch c PL s au a r sgs ctxs) as [[s1 e1]|] eqn:E; cbn [bind] in H; [|discriminate].
  destruct (kget (a, r) (st_spend s)) as [d|] eqn:Hd.
  - destruct (grel_some' _ _ _ _ Hl Hd) as (i & Hi & Hrel).
    destruct (l_batch_rel c au a r sgs ctxs s d i s1 e1 Hn Hd Hrel E) as (d' & _ & _ & _ & _ & _ & _ & _ & Hbo & _).
    exists i. auto.
  - exfalso. destruct ctxs as [|ctx rest]; [apply Hne; reflexivity|].
    cbn [enforce_batch enforce_one] in E.
    destruct (l_enforce_one c s au a r sgs ctx) as [[s2 ev]|] eqn:E1; cbn [bind] in E; [|discriminate].
    apply l_enforce_one_ok in E1 as (_ & _ & d & _ & _ & Hd' & _). congruence.
Qed.

Lemma lims_step_sound c s g gl cl s' o evs :
  inv s g -> lims_rel g gl -> step c s cl = (s', o, evs) ->
  lims_rel (ghost_l_step (now s) g cl o) (lims_step g gl cl o).
Proof.
  intros Hinv Hrel H. unfold step in H.
  destruct (exec c s cl) as [[[s1 r1] e1]|] eqn:E; injection H as <- <- <-; [|exact Hrel].
  destruct cl; cbn [ghost_l_step lims_step]; try exact Hrel.
  - (* Enforce *)
    destruct p; try exact Hrel. destruct ctxs as [|ctx rest]; [exact Hrel|].
    destruct (batch_ok_inv c s g auths acct rid (ctx :: rest) sgs s1 r1 e1 Hinv ltac:(discriminate) E) as (i & Hi & Hb).
    rewrite Hi. pose proof (Hrel (acct, rid)) as Hk. rewrite Hi in Hk.
    destruct (kget (acct, rid) gl) as [ls|] eqn:Hls; [|contradiction].
    apply (lims_rel_set g gl (acct, rid)
             {| gi_limit := gi_limit i; gi_period := gi_period i;
                gi_log := log_batch (now s) (ctx :: rest) (gi_log i); gi_cut := now s - gi_period i |}); [exact Hrel|].
    cbn [gi_period gi_log]. apply batch_log_ok; assumption.
  - (* Uninstall *)
    destruct p; try exact Hrel. apply lims_rel_remove. exact Hrel.
  - (* LInstall *)
    apply (lims_rel_set g gl (acct, rid) {| gi_limit := limit; gi_period := period; gi_log := []; gi_cut := now s - period |});
      [exact Hrel|]. cbn. exact I.
  - (* LSetLimit *)
    destruct (kget (acct, rid) g) as [i|] eqn:Hi; [|exact Hrel].
    intros k'. destruct (key_eqb k' (acct, rid)) eqn:Ek.
    + apply key_eqb_eq in Ek. subst k'. rewrite kget_set_eq. pose proof (Hrel (acct, rid)) as Hk. rewrite Hi in Hk.
      destruct (kget (acct, rid) gl); [|contradiction]. exact Hk.
    + apply key_eqb_neq in Ek. rewrite kget_set_neq by exact Ek. apply Hrel.
Qed.

Lemma run_lims_inv c cs : forall s g gl, inv s g -> lims_rel g gl ->
  let '(s', g', gl') := run_lims c s g gl cs in inv s' g' /\ lims_rel g' gl'.
Proof.
  induction cs as [|cl r IH]; intros s g gl Hinv Hrel; cbn [run_lims]; [auto|].
  destruct (step c s cl) as [[s' o] evs] eqn:E. apply IH.
  - destruct (step_sound _ _ _ _ _ _ _ Hinv E) as (H1 & _). exact H1.
  - eapply lims_step_sound; eassumption.
Qed.

(* ---------- any window ---------- *)
Lemma sum_filter_le (f g : entry -> bool) l :
  Forall (fun e => 0 <= fst e) l -> (forall e, In e l -> f e = true -> g e = true) ->
  sum_entries (filter f l) <= sum_entries (filter g l).
Proof.
  unfold sum_entries. induction 1 as [|e l He _ IH]; intros Himp; cbn [filter fold_right]; [lia|].
  assert (IH' : fold_right (fun e acc => fst e + acc) 0 (filter f l) <= fold_right (fun e acc => fst e + acc) 0 (filter g l)).
  { apply IH. intros x Hx. apply Himp. right. exact Hx. }
  destruct (f e) eqn:Ef.
  - rewrite (Himp e (or_introl eq_refl) Ef). cbn [fold_right]. lia.
  - destruct (g e); cbn [fold_right]; lia.
Qed.

(* amounts logged at ledgers in (m - P, m] *)
Definition in_window (m P : Z) (log : list entry) : list entry :=
  filter (fun e => (m - P <? snd e) && (snd e <=? m)) log.

Lemma any_window_list P m pre e post lspre L lspost :
  ledger_sorted (pre ++ e :: post) -> Forall (fun x => 0 <= fst x) (pre ++ e :: post) ->
  log_ok P (pre ++ e :: post) (lspre ++ L :: lspost) -> length lspre = length pre ->
  snd e <= m -> Forall (fun x => m < snd x) post ->
  sum_entries (in_window m P (pre ++ e :: post)) <= L.
Proof.
  intros Hsort Hnn Hok Hlen Hem Hpost.
  pose proof (log_ok_at P pre [] e post lspre L lspost Hok Hlen) as Hw. cbn [app] in Hw.
  unfold window_sum in Hw.
  (* entries after e are outside the window; entries up to e that are inside (m-P, m] are inside (n_e-P, n_e] *)
  assert (E : in_window m P (pre ++ e :: post) = in_window m P (pre ++ [e])).
  { unfold in_window. replace (pre ++ e :: post) with ((pre ++ [e]) ++ post) by (rewrite <- app_assoc; reflexivity).
    rewrite filter_app.
    assert (Hnil : filter (fun x => (m - P <? snd x) && (snd x <=? m)) post = []).
    { clear -Hpost. induction Hpost as [|x l Hx _ IH]; cbn [filter]; [reflexivity|].
      replace (snd x <=? m) with false by lia. rewrite andb_false_r. exact IH. }
    match goal with |- ?A ++ ?B = _ => assert (Hb : B = []) by exact Hnil; rewrite Hb end. apply app_nil_r. }
  rewrite E. eapply Z.le_trans; [|exact Hw].
  unfold in_window, newer. apply sum_filter_le.
  - apply Forall_app in Hnn as [Hp Hq]. apply Forall_app. split; [exact Hp|]. inversion Hq; subst. constructor; [assumption|constructor].
  - intros x Hx Hf. apply andb_prop in Hf as [Hf1 Hf2]. lia.
Qed.

(* ================= C14_any_window ================= *)
Theorem any_window : forall c n0 cs k i ls,
  1 <= n0 ->
  let '(s, g, gl) := run_lims c (init n0) [] [] cs in
  kget k g = Some i -> kget k gl = Some ls ->
  Forall (fun x => 0 <= fst x) (gi_log i) ->
  length ls = length (gi_log i) /\
  forall m pre e post lspre L lspost,
    gi_log i = pre ++ e :: post -> ls = lspre ++ L :: lspost -> length lspre = length pre ->
    snd e <= m -> Forall (fun x => m < snd x) post ->
    sum_entries (in_window m (gi_period i) (gi_log i)) <= L.
Proof.
  intros c n0 cs k i ls Hn0.
  pose proof (run_lims_inv c cs (init n0) [] [] (inv_init n0 Hn0)) as H.
  destruct (run_lims c (init n0) [] [] cs) as [[s g] gl].
  assert (H0 : lims_rel [] []) by (intros k0; cbn; exact I).
  destruct (H H0) as [Hinv Hrel]. intros Hi Hls Hnn.
  pose proof (Hrel k) as Hk. rewrite Hi, Hls in Hk.
  destruct (grel_some _ _ _ _ (inv_l _ _ Hinv) Hi) as (d & Hd & Hlr).
  split.
  - (* the two lists have the same length *)
    clear -Hk. unfold log_ok in Hk. revert Hk. generalize (@nil entry). generalize ls.
    induction (gi_log i) as [|e l IH]; intros ls0 pre Hk; destruct ls0 as [|L0 ls0]; cbn [log_ok_from length] in *; try contradiction; [reflexivity|].
    destruct Hk as [_ Hk]. f_equal. eapply IH. exact Hk.
  - intros m pre e post lspre L lspost Hlog Hl Hlen Hem Hpost.
    pose proof (lr_sorted _ _ _ Hlr) as Hsorted.
    rewrite Hlog in *. rewrite Hl in Hk.
    eapply any_window_list; eassumption.
Qed.
