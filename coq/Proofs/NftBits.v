(* Bit level of the consecutive ownership buckets (Model/NftBits.v) refines the set level
   (marks of Model/Nft.v): set_bit_spec, find_bit_in_item / find_bit_in_bucket / scan specs. *)
From SC Require Import Lib.Prelude Lib.Int Lib.Host Model.Nft Model.NftBits Run.NftCommon Proofs.NftMaps.
Local Open Scope N_scope.

(* ---------- has_bit is testbit ---------- *)
Lemma has_bit_testbit num i : has_bit num i = N.testbit num i.
Proof.
  unfold has_bit. rewrite N.shiftl_1_l.
  destruct (N.testbit num i) eqn:E.
  - apply negb_true_iff. apply N.eqb_neq. intros H.
    assert (N.testbit (N.land num (2 ^ i)) i = true) by (rewrite N.land_spec, E, N.pow2_bits_true; reflexivity).
    rewrite H, N.bits_0 in H0. discriminate.
  - apply negb_false_iff. apply N.eqb_eq. apply N.bits_inj_0. intros m.
    rewrite N.land_spec, N.pow2_bits_eqb. destruct (i =? m) eqn:E2; [|apply andb_false_r].
    apply N.eqb_eq in E2. subst. rewrite E. reflexivity.
Qed.

(* ---------- "the least position in [lo, hi) satisfying P" ---------- *)
Definition least_in (P : N -> bool) (lo hi : N) (r : option N) : Prop :=
  match r with
  | Some m => lo <= m < hi /\ P m = true /\ forall x, lo <= x < m -> P x = false
  | None => forall x, lo <= x < hi -> P x = false
  end.

Lemma least_in_unique P lo hi r1 r2 : least_in P lo hi r1 -> least_in P lo hi r2 -> r1 = r2.
Proof.
  destruct r1 as [a|], r2 as [b|]; cbn; intros H1 H2; try reflexivity.
  - destruct H1 as (A1&B1&C1), H2 as (A2&B2&C2). f_equal.
    destruct (N.lt_trichotomy a b) as [L|[E|L]]; [|exact E|].
    + rewrite (C2 a) in B1 by lia. discriminate.
    + rewrite (C1 b) in B2 by lia. discriminate.
  - destruct H1 as (A1&B1&_). rewrite (H2 a A1) in B1. discriminate.
  - destruct H2 as (A2&B2&_). rewrite (H1 b A2) in B2. discriminate.
Qed.

Lemma least_in_ext P Q lo hi r : (forall x, lo <= x < hi -> P x = Q x) -> least_in P lo hi r -> least_in Q lo hi r.
Proof.
  intros E. destruct r as [m|]; cbn.
  - intros (A&B&C). split; [exact A|]. split; [rewrite <- E by lia; exact B|]. intros x Hx. rewrite <- E by lia. apply C. exact Hx.
  - intros H x Hx. rewrite <- E by exact Hx. apply H. exact Hx.
Qed.

(* splitting a range: search [lo, mid) first, then [mid, hi) *)
Lemma least_in_split P lo mid hi r1 r2 : lo <= mid <= hi ->
  least_in P lo mid r1 -> least_in P mid hi r2 ->
  least_in P lo hi (match r1 with Some m => Some m | None => r2 end).
Proof.
  intros Hm H1 H2. destruct r1 as [a|]; cbn in *.
  - destruct H1 as (A&B&C). split; [lia|]. split; assumption.
  - destruct r2 as [b|]; cbn in *.
    + destruct H2 as (A&B&C). split; [lia|]. split; [exact B|]. intros x Hx.
      destruct (N.lt_ge_cases x mid); [apply H1; lia | apply C; lia].
    + intros x Hx. destruct (N.lt_ge_cases x mid); [apply H1; lia | apply H2; lia].
Qed.

(* ---------- find_bit_in_item ---------- *)
Lemma find_from_spec num last : forall n pos, pos + N.of_nat n = last + 1 ->
  least_in (fun p => N.testbit num (last - p)) pos (last + 1) (find_from num last pos n).
Proof.
  induction n as [|n IH]; intros pos Hp; cbn [find_from].
  - cbn. intros x Hx. lia.
  - rewrite has_bit_testbit. destruct (N.testbit num (last - pos)) eqn:E.
    + cbn. split; [lia|]. split; [exact E|]. intros x Hx. lia.
    + specialize (IH (pos + 1)). assert (Hp' : pos + 1 + N.of_nat n = last + 1) by lia. specialize (IH Hp').
      destruct (find_from num last (pos + 1) n) as [m|]; cbn in *.
      * destruct IH as (A&B&C). split; [lia|]. split; [exact B|]. intros x Hx.
        destruct (N.eq_dec x pos) as [->|Hne]; [exact E | apply C; lia].
      * intros x Hx. destruct (N.eq_dec x pos) as [->|Hne]; [exact E | apply IH; lia].
Qed.

Lemma find_bit_in_item_spec b num start : 0 < W b ->
  least_in (fun p => N.testbit num (W b - 1 - p)) start (W b) (find_bit_in_item b (Some num) start).
Proof.
  intros HW. unfold find_bit_in_item.
  destruct (num =? 0) eqn:E0.
  - apply N.eqb_eq in E0. subst. unfold least_in. intros x _. cbv beta. rewrite N.bits_0. reflexivity.
  - destruct (W b <=? start) eqn:E1.
    + apply N.leb_le in E1. cbn. intros x Hx. lia.
    + apply N.leb_gt in E1.
      pose proof (find_from_spec num (W b - 1) (N.to_nat (W b - start)) start) as H.
      replace (W b - 1 + 1) with (W b) in H by lia. apply H. lia.
Qed.

(* ---------- arithmetic of positions ---------- *)
Lemma div_mod_pos w i p : p < w -> (i * w + p) / w = i /\ (i * w + p) mod w = p.
Proof.
  intros Hp. assert (w <> 0) by lia.
  split; [symmetry; apply (N.div_unique (i * w + p) w i p); [exact Hp | lia]
         | symmetry; apply (N.mod_unique (i * w + p) w i p); [exact Hp | lia]].
Qed.
Lemma pos_decomp w q : 0 < w -> q = (q / w) * w + q mod w /\ q mod w < w.
Proof.
  intros Hw. split; [rewrite (N.mul_comm (q / w) w); apply N.div_mod; lia | apply N.mod_lt; lia].
Qed.
Lemma div_range w i q : 0 < w -> (i * w <= q < (i + 1) * w <-> q / w = i).
Proof.
  intros Hw. destruct (pos_decomp w q Hw) as [E L].
  remember (q / w) as d. remember (q mod w) as m. clear Heqd Heqm. split.
  - intros [A B]. nia.
  - intros <-. nia.
Qed.
Lemma div_le_iff w q L : 0 < w -> (q / w <= L <-> q < (L + 1) * w).
Proof.
  intros Hw. destruct (pos_decomp w q Hw) as [E Lm].
  remember (q / w) as d. remember (q mod w) as m. clear Heqd Heqm. split; intros H; nia.
Qed.

Lemma least_in_shift P Q lo hi off r :
  (forall p, lo <= p < hi -> Q (off + p) = P p) ->
  least_in P lo hi r ->
  least_in Q (off + lo) (off + hi) (match r with Some p => Some (off + p) | None => None end).
Proof.
  intros E. destruct r as [m|]; cbn.
  - intros (A&B&C). split; [lia|]. split; [rewrite E by lia; exact B|].
    intros x Hx. replace x with (off + (x - off)) by lia. rewrite E by lia. apply C. lia.
  - intros H x Hx. replace x with (off + (x - off)) by lia. rewrite E by lia. apply H. lia.
Qed.

(* ---------- find_bit_in_bucket ---------- *)
(* bit of position q in a run of items whose head has index i *)
Definition bitw (items : bucket) (i w q : N) : bool :=
  match nth_item items (N.to_nat (q / w - i)) with
  | Some x => N.testbit x (w - 1 - q mod w)
  | None => false
  end.

Lemma nth_item_skipn k : forall (l : bucket) j, nth_item (skipn k l) j = nth_item l (k + j).
Proof.
  induction k as [|k IH]; intros l j; [reflexivity|].
  destruct l as [|x r]; cbn [skipn plus nth_item]; [destruct j; reflexivity | apply IH].
Qed.
Lemma nth_item_none (l : bucket) j : (length l <= j)%nat -> nth_item l j = None.
Proof.
  revert j. induction l as [|x r IH]; intros j H; [destruct j; reflexivity|].
  destruct j; cbn in *; [lia | apply IH; lia].
Qed.

Lemma find_items_spec b item_index relative_id : 0 < W b -> relative_id < W b ->
  forall items i, item_index <= i ->
  least_in (bitw items i (W b)) (i * W b + (if i =? item_index then relative_id else 0))
           ((i + N.of_nat (length items)) * W b)
           (find_items b items i item_index relative_id).
Proof.
  intros HW Hrel. induction items as [|x r IH]; intros i Hi; cbn [find_items length].
  - cbn. intros q Hq. lia.
  - set (from_id := if i =? item_index then relative_id else 0).
    assert (Hfrom : from_id < W b) by (unfold from_id; destruct (i =? item_index); lia).
    pose proof (find_bit_in_item_spec b x from_id HW) as H1.
    (* the head item covers [i*W + from, (i+1)*W) *)
    assert (Hhead : least_in (bitw (x :: r) i (W b)) (i * W b + from_id) ((i + 1) * W b)
                      (match find_bit_in_item b (Some x) from_id with Some p => Some (i * W b + p) | None => None end)).
    { replace ((i + 1) * W b) with (i * W b + W b) by lia.
      apply (least_in_shift (fun p => N.testbit x (W b - 1 - p))); [|exact H1].
      intros p Hp. unfold bitw. destruct (div_mod_pos (W b) i p) as [E1 E2]; [lia|].
      rewrite E1, E2, N.sub_diag. reflexivity. }
    (* the remaining items cover [(i+1)*W, ...) *)
    assert (Hne : (i + 1 =? item_index) = false) by (apply N.eqb_neq; lia).
    specialize (IH (i + 1)). rewrite Hne, N.add_0_r in IH. assert (Hi' : item_index <= i + 1) by lia. specialize (IH Hi').
    assert (Htail : least_in (bitw (x :: r) i (W b)) ((i + 1) * W b) ((i + N.of_nat (S (length r))) * W b)
                      (find_items b r (i + 1) item_index relative_id)).
    { replace (i + N.of_nat (S (length r))) with (i + 1 + N.of_nat (length r)) by lia.
      eapply least_in_ext; [|exact IH]. intros q Hq. unfold bitw.
      assert (i + 1 <= q / W b). { apply N.div_le_lower_bound; lia. }
      replace (N.to_nat (q / W b - i)) with (S (N.to_nat (q / W b - (i + 1)))) by lia. reflexivity. }
    pose proof (least_in_split _ _ _ _ _ _ (conj (ltac:(lia) : i * W b + from_id <= (i + 1) * W b)
                 (ltac:(lia) : (i + 1) * W b <= (i + N.of_nat (S (length r))) * W b)) Hhead Htail) as Hs.
    destruct (find_bit_in_item b (Some x) from_id); exact Hs.
Qed.

Lemma find_bit_in_bucket_spec b bk start : 0 < W b ->
  least_in (bitw bk 0 (W b)) start (N.of_nat (length bk) * W b) (find_bit_in_bucket b bk start).
Proof.
  intros HW. unfold find_bit_in_bucket.
  destruct (N.of_nat (length bk) * W b <=? start) eqn:E.
  - apply N.leb_le in E. cbn. intros q Hq. lia.
  - apply N.leb_gt in E. cbv zeta.
    destruct (pos_decomp (W b) start HW) as [Es Hm].
    remember (start / W b) as k eqn:Ek. remember (start mod W b) as m eqn:Em.
    assert (Hk : k < N.of_nat (length bk)).
    { destruct (N.lt_ge_cases k (N.of_nat (length bk))) as [X|X]; [exact X|]. exfalso. clear Ek Em. nia. }
    pose proof (find_items_spec b k m HW Hm (skipn (N.to_nat k) bk) k (N.le_refl k)) as H.
    rewrite N.eqb_refl in H. rewrite <- Es in H.
    rewrite skipn_length in H.
    replace (k + N.of_nat (length bk - N.to_nat k)) with (N.of_nat (length bk)) in H by lia.
    eapply least_in_ext; [|exact H]. intros q Hq. unfold bitw.
    rewrite nth_item_skipn.
    assert (k <= q / W b). { apply N.div_le_lower_bound; lia. }
    f_equal. rewrite N.sub_0_r. replace (N.to_nat k + N.to_nat (q / W b - k))%nat with (N.to_nat (q / W b)) by lia.
    reflexivity.
Qed.

(* ---------- the scan over buckets ---------- *)
Definition wfb (b : bcfg) (bs : buckets) : Prop :=
  forall k bk, aget N.eqb k bs = Some bk -> N.of_nat (length bk) = I b.

(* is the bit of token id set? *)
Definition bit_at (b : bcfg) (bs : buckets) (id : N) : bool :=
  match aget N.eqb (id / ids_per_bucket b) bs with
  | Some bk => bitw bk 0 (W b) (id mod ids_per_bucket b)
  | None => false
  end.

Lemma scan_buckets_spec b bs bucket_index relative_id : 0 < W b -> 0 < I b -> wfb b bs ->
  relative_id < ids_per_bucket b ->
  forall n i, bucket_index <= i ->
  least_in (bit_at b bs) (i * ids_per_bucket b + (if i =? bucket_index then relative_id else 0))
           ((i + N.of_nat n) * ids_per_bucket b)
           (scan_buckets b bs i bucket_index relative_id n).
Proof.
  intros HW HI Hwf Hrel. set (ib := ids_per_bucket b) in *.
  assert (Hib : 0 < ib) by (unfold ib, ids_per_bucket; nia).
  induction n as [|n IH]; intros i Hi; cbn [scan_buckets].
  - cbn. intros q Hq. lia.
  - set (from_id := if i =? bucket_index then relative_id else 0).
    assert (Hfrom : from_id < ib) by (unfold from_id; destruct (i =? bucket_index); lia).
    assert (Hne : (i + 1 =? bucket_index) = false) by (apply N.eqb_neq; lia).
    specialize (IH (i + 1)). rewrite Hne, N.add_0_r in IH. assert (Hi' : bucket_index <= i + 1) by lia. specialize (IH Hi').
    replace (i + 1 + N.of_nat n) with (i + N.of_nat (S n)) in IH by lia.
    assert (Hsplit : i * ib + from_id <= (i + 1) * ib <= (i + N.of_nat (S n)) * ib) by nia.
    destruct (aget N.eqb i bs) as [bk|] eqn:Eb.
    + pose proof (find_bit_in_bucket_spec b bk from_id HW) as H1. rewrite (Hwf _ _ Eb) in H1.
      fold (ids_per_bucket b) in H1. fold ib in H1.
      assert (Hhead : least_in (bit_at b bs) (i * ib + from_id) ((i + 1) * ib)
                        (match find_bit_in_bucket b bk from_id with Some p => Some (i * ib + p) | None => None end)).
      { replace ((i + 1) * ib) with (i * ib + ib) by lia.
        apply (least_in_shift (bitw bk 0 (W b))); [|exact H1].
        intros p Hp. unfold bit_at. fold ib. destruct (div_mod_pos ib i p) as [E1 E2]; [lia|].
        rewrite E1, E2, Eb. reflexivity. }
      pose proof (least_in_split _ _ _ _ _ _ Hsplit Hhead IH) as Hs.
      destruct (find_bit_in_bucket b bk from_id); exact Hs.
    + assert (Hhead : least_in (bit_at b bs) (i * ib + from_id) ((i + 1) * ib) None).
      { cbn. intros q Hq. unfold bit_at. fold ib.
        assert (q / ib = i) by (apply div_range; [exact Hib | lia]). rewrite H, Eb. reflexivity. }
      exact (least_in_split _ _ _ _ _ _ Hsplit Hhead IH).
Qed.

Lemma scan_bits_spec b bs id last : 0 < W b -> 0 < I b -> wfb b bs ->
  least_in (bit_at b bs) id ((last / ids_per_bucket b + 1) * ids_per_bucket b) (scan_bits b bs id last).
Proof.
  intros HW HI Hwf. unfold scan_bits. set (ib := ids_per_bucket b).
  assert (Hib : 0 < ib) by (unfold ib, ids_per_bucket; nia).
  destruct (pos_decomp ib id Hib) as [Eid Hm]. cbv zeta.
  destruct (N.le_gt_cases (id / ib) (last / ib)) as [Hle|Hgt].
  - pose proof (scan_buckets_spec b bs (id / ib) (id mod ib) HW HI Hwf Hm
                  (N.to_nat (last / ib + 1 - id / ib)) (id / ib) (N.le_refl _)) as H.
    rewrite N.eqb_refl in H. fold ib in H. rewrite <- Eid in H.
    replace (id / ib + N.of_nat (N.to_nat (last / ib + 1 - id / ib))) with (last / ib + 1) in H by lia.
    exact H.
  - replace (N.to_nat (last / ib + 1 - id / ib)) with O by lia. cbn. intros q Hq.
    exfalso. assert (q / ib <= last / ib) by (apply div_le_iff; [exact Hib | lia]).
    assert (id / ib <= q / ib) by (apply N.div_le_mono; lia). lia.
Qed.

(* ---------- link with the set level ---------- *)
Definition Rep (b : bcfg) (bs : buckets) (marks : list N) : Prop :=
  forall m, bit_at b bs m = true <-> In m marks.

Theorem scan_bits_refines b bs marks id last : 0 < W b -> 0 < I b -> wfb b bs -> Rep b bs marks ->
  scan_bits b bs id last =
  least_ge (filter (fun m => m / ids_per_bucket b <=? last / ids_per_bucket b) marks) id.
Proof.
  intros HW HI Hwf Hrep. set (ib := ids_per_bucket b).
  assert (Hib : 0 < ib) by (unfold ib, ids_per_bucket; nia).
  apply (least_in_unique (bit_at b bs) id ((last / ib + 1) * ib)); [apply scan_bits_spec; assumption|].
  set (l := filter (fun m => m / ib <=? last / ib) marks).
  assert (Hl : forall m, In m l <-> bit_at b bs m = true /\ m < (last / ib + 1) * ib).
  { intros m. unfold l. rewrite filter_In, <- (Hrep m), N.leb_le, (div_le_iff ib m (last / ib) Hib). reflexivity. }
  destruct (least_ge l id) as [m|] eqn:E; cbn.
  - destruct (least_ge_some _ _ _ E) as (Hin&Hlo&Hmin). apply Hl in Hin. destruct Hin as [Hb Hlt].
    split; [lia|]. split; [exact Hb|]. intros x Hx.
    destruct (bit_at b bs x) eqn:Ex; [|reflexivity].
    assert (In x l) by (apply Hl; split; [exact Ex | lia]). specialize (Hmin x H). lia.
  - intros x Hx. destruct (bit_at b bs x) eqn:Ex; [|reflexivity].
    assert (In x l) by (apply Hl; split; [exact Ex | lia]). pose proof (least_ge_none _ _ E x H). lia.
Qed.

(* ---------- set_ownership_in_bucket sets exactly one bit ---------- *)
Lemma length_set_item (l : bucket) k v : length (set_item l k v) = length l.
Proof. revert k. induction l as [|x r IH]; intros k; destruct k; cbn; auto. Qed.
Lemma nth_item_set_item (l : bucket) k v : (k < length l)%nat ->
  forall m, nth_item (set_item l k v) m = if Nat.eqb m k then Some v else nth_item l m.
Proof.
  revert k. induction l as [|x r IH]; intros k Hk m; cbn in Hk; [lia|].
  destruct k; cbn [set_item].
  - destruct m; reflexivity.
  - destruct m; cbn [nth_item Nat.eqb]; [reflexivity | apply IH; lia].
Qed.
Lemma nth_item_some (l : bucket) k : (k < length l)%nat -> exists x, nth_item l k = Some x.
Proof.
  revert k. induction l as [|x r IH]; intros k Hk; cbn in Hk; [lia|].
  destruct k; cbn; [eexists; reflexivity | apply IH; lia].
Qed.
Lemma nth_item_repeat0 n m : nth_item (repeat 0 n) m = if (m <? n)%nat then Some 0 else None.
Proof.
  revert m. induction n as [|n IH]; intros m; cbn [repeat]; [destruct m; reflexivity|].
  destruct m; cbn [nth_item]; [reflexivity|]. rewrite IH. reflexivity.
Qed.
Lemma bitw_zeros n w q : bitw (repeat 0 n) 0 w q = false.
Proof. unfold bitw. rewrite nth_item_repeat0. destruct (_ <? _)%nat; [apply N.bits_0 | reflexivity]. Qed.

Lemma id_decomp ib w j id : 0 < ib -> 0 < w ->
  (j = id <-> j / ib = id / ib /\ j mod ib / w = id mod ib / w /\ j mod ib mod w = id mod ib mod w).
Proof.
  intros Hib Hw. split; [intros ->; auto|]. intros (A&B&C).
  destruct (pos_decomp ib j Hib) as [Ej _]. destruct (pos_decomp ib id Hib) as [Ei _].
  destruct (pos_decomp w (j mod ib) Hw) as [Ej2 _]. destruct (pos_decomp w (id mod ib) Hw) as [Ei2 _].
  rewrite Ej, Ei, Ej2, Ei2, A, B, C. reflexivity.
Qed.

Theorem set_bits_spec b bs id : 0 < W b -> 0 < I b -> wfb b bs ->
  exists bs', set_ownership_bits b bs id = Ok bs' /\ wfb b bs' /\
              forall j, bit_at b bs' j = (j =? id) || bit_at b bs j.
Proof.
  intros HW HI Hwf. unfold set_ownership_bits. set (ib := ids_per_bucket b).
  assert (Hib : 0 < ib) by (unfold ib, ids_per_bucket; nia).
  set (k := id / ib). set (rel := id mod ib).
  assert (Hrel : rel < ib) by (apply N.mod_lt; lia).
  set (bk := match aget N.eqb k bs with Some x => x | None => repeat 0 (N.to_nat (I b)) end).
  assert (Hlen : N.of_nat (length bk) = I b).
  { unfold bk. destruct (aget N.eqb k bs) eqn:E; [apply (Hwf _ _ E) | rewrite repeat_length; lia]. }
  set (ii := rel / W b). set (bi := rel mod W b).
  assert (Hbi : bi < W b) by (apply N.mod_lt; lia).
  assert (Hii : ii < I b).
  { unfold ii. apply N.div_lt_upper_bound; [lia|]. unfold ib, ids_per_bucket in Hrel. lia. }
  destruct (nth_item_some bk (N.to_nat ii)) as [item Hitem]; [lia|].
  rewrite Hitem. cbn [of_option bind].
  set (e := W b - bi - 1).
  change (negb (N.land item (N.shiftl 1 e) =? 0)) with (has_bit item e). rewrite has_bit_testbit.
  (* the bit of id before the call *)
  assert (Hold : bit_at b bs id = match aget N.eqb k bs with Some _ => N.testbit item e | None => false end).
  { unfold bit_at. fold ib. fold k. fold rel. unfold bk in Hitem. destruct (aget N.eqb k bs) as [x|] eqn:E; [|reflexivity].
    unfold bitw. rewrite N.sub_0_r. fold ii. rewrite Hitem. fold bi. f_equal. unfold e. lia. }
  destruct (N.testbit item e) eqn:Et.
  - (* already set *)
    exists bs. split; [reflexivity|]. split; [exact Hwf|]. intros j.
    destruct (j =? id) eqn:Ej; [|reflexivity]. apply N.eqb_eq in Ej. subst j. cbn [orb]. rewrite Hold.
    destruct (aget N.eqb k bs) eqn:E; [reflexivity|].
    exfalso. unfold bk in Hitem. rewrite ?E, nth_item_repeat0 in Hitem.
    destruct (_ <? _)%nat; inversion Hitem; subst. rewrite N.bits_0 in Et. discriminate.
  - set (bk' := set_item bk (N.to_nat ii) (N.lor item (N.shiftl 1 e))).
    exists (aset N.eqb k bk' bs). split; [reflexivity|]. split.
    + intros k0 x. rewrite (aget_aset N.eqb Neqb_spec). destruct (k0 =? k); [|apply Hwf].
      intros H. inversion H; subst. unfold bk'. rewrite length_set_item. exact Hlen.
    + intros j. unfold bit_at. fold ib. rewrite (aget_aset N.eqb Neqb_spec).
      destruct (j / ib =? k) eqn:Ek.
      * apply N.eqb_eq in Ek.
        assert (Hbase : bitw bk 0 (W b) (j mod ib) = match aget N.eqb (j / ib) bs with Some x => bitw x 0 (W b) (j mod ib) | None => false end).
        { rewrite Ek. unfold bk. destruct (aget N.eqb k bs); [reflexivity | apply bitw_zeros]. }
        rewrite <- Hbase. unfold bitw. rewrite !N.sub_0_r. unfold bk'. rewrite nth_item_set_item by lia.
        destruct (Nat.eqb (N.to_nat (j mod ib / W b)) (N.to_nat ii)) eqn:Ei.
        -- apply Nat.eqb_eq in Ei. assert (Ei' : j mod ib / W b = ii) by lia. rewrite Ei', Hitem.
           rewrite N.lor_spec, N.shiftl_1_l, N.pow2_bits_eqb.
           destruct (e =? W b - 1 - j mod ib mod W b) eqn:Ee.
           ++ apply N.eqb_eq in Ee. assert (j mod ib mod W b = bi). { assert (j mod ib mod W b < W b) by (apply N.mod_lt; lia). unfold e in Ee. lia. }
              assert (j = id) by (apply (id_decomp ib (W b)); [exact Hib | exact HW | auto]). subst j.
              rewrite N.eqb_refl, orb_true_r. reflexivity.
           ++ rewrite orb_false_r. destruct (j =? id) eqn:Ej; [|reflexivity].
              apply N.eqb_eq in Ej. subst j. apply N.eqb_neq in Ee. exfalso. apply Ee. fold rel. fold bi. unfold e. lia.
        -- destruct (j =? id) eqn:Ej; [|reflexivity]. apply N.eqb_eq in Ej. subst j.
           apply Nat.eqb_neq in Ei. exfalso. apply Ei. reflexivity.
      * destruct (j =? id) eqn:Ej; [|reflexivity]. apply N.eqb_eq in Ej. subst j. rewrite N.eqb_refl in Ek. discriminate.
Qed.

(* the buckets written for a list of marks represent exactly those marks *)
Theorem buckets_of_spec b marks : 0 < W b -> 0 < I b ->
  exists bs, buckets_of b marks = Ok bs /\ wfb b bs /\ Rep b bs marks.
Proof.
  intros HW HI. induction marks as [|m r IH]; cbn [buckets_of].
  - exists []. split; [reflexivity|]. split; [intros k bk H; discriminate|].
    intros j. unfold bit_at. cbn. split; [discriminate | intros []].
  - destruct IH as (bs&->&Hwf&Hrep). cbn [bind].
    destruct (set_bits_spec b bs m HW HI Hwf) as (bs'&E&Hwf'&Hb). exists bs'. split; [exact E|]. split; [exact Hwf'|].
    intros j. rewrite Hb. cbn [In]. rewrite orb_true_iff, N.eqb_eq, (Hrep j). split; intros [H|H]; auto.
Qed.

(* the bit-level owner_of scan over the buckets the code has written = the set-level scan of Model/Nft.v *)
Theorem bits_refine_marks b c s : 0 < W b -> 0 < I b -> ids_in_bucket c = I b * W b ->
  exists bs, buckets_of b (marks s) = Ok bs /\
    forall id last, scan_bits b bs id last = scan c s id last.
Proof.
  intros HW HI Hc. destruct (buckets_of_spec b (marks s) HW HI) as (bs&E&Hwf&Hrep).
  exists bs. split; [exact E|]. intros id last.
  rewrite (scan_bits_refines b bs (marks s) id last HW HI Hwf Hrep). unfold scan, ids_per_bucket. rewrite Hc. reflexivity.
Qed.
