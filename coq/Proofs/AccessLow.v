(* C06: the low-level (no-auth) entry points and constructors with caller-supplied account lists keep the
   enumeration invariant of Proofs/Access.v, so every theorem about "the queryable membership describes
   exactly the set" extends to contracts born from an arbitrary constructor list (duplicates included) and
   driven through grant_role_no_auth / revoke_role_no_auth. *)
From SC Require Import Lib.Prelude Lib.Int Lib.Host Model.RoleTransfer Model.Access Model.AccessLow Proofs.Access.

(* the obvious set operation of a low-level call *)
Definition labs_after (s : st) (cl : lcall) (ok : bool) (a : addr) (r' : role) : bool :=
  match cl with
  | LCall c => abs_after s c ok a r'
  | GrantNoAuth account r => if ok then abs s a r' || (N.eqb a account && N.eqb r' r) else abs s a r'
  | RevokeNoAuth account r => if ok then abs s a r' && negb (N.eqb a account && N.eqb r' r) else abs s a r'
  | _ => abs s a r'
  end.

Lemma lstep_lcall : forall c s cl, lstep c s (LCall cl) = step c s cl.
Proof. intros. reflexivity. Qed.

Lemma grant_no_auth_spec : forall c s account r s',
  Inv s -> grant_role_no_auth c s account r = Ok s' ->
  Inv s' /\ same_rest s s' /\
  (forall a r', abs s' a r' = abs s a r' || (N.eqb a account && N.eqb r' r)).
Proof.
  intros c s account r s' HI H. unfold grant_role_no_auth in H.
  destruct (has_role s account r) eqn:Eh.
  - inversion H; subst s'. split; [exact HI|]. split; [unfold same_rest; auto|].
    intros a r'. destruct (N.eqb a account && N.eqb r' r) eqn:E; [|rewrite orb_false_r; reflexivity].
    apply andb_prop in E. destruct E as [E1 E2]. apply N.eqb_eq in E1, E2. subst. unfold abs. rewrite Eh. reflexivity.
  - assert (Hn : a_has s account r = None).
    { unfold has_role in Eh. destruct (a_has s account r); [discriminate|reflexivity]. }
    split; [eapply add_inv; eauto|].
    unfold add_to_role_enumeration in H.
    destruct (N.eqb (a_count s r) 0);
      [destruct (N.eqb (N.of_nat (length (a_existing s))) (max_roles c)); [discriminate|]|];
      cbn [bind] in H; (destruct (Z.of_N (a_count s r) + 1 <=? MAXU32); [|discriminate]);
      cbn [guard bind] in H; inversion H; subst s'; (split; [unfold same_rest; cbn; auto|]);
      intros a r'; unfold abs, has_role; cbn [a_has]; unfold upd2;
      destruct (N.eqb a account && N.eqb r' r); cbn; rewrite ?orb_true_r, ?orb_false_r; reflexivity.
Qed.

(* the only refusal of a no-auth grant: it would create role number MAX_ROLES + 1 (or overflow the u32 count) *)
Lemma grant_no_auth_succeeds : forall c s account r,
  (has_role s account r = true \/ N.eqb (a_count s r) 0 = false \/
   N.eqb (N.of_nat (length (a_existing s))) (max_roles c) = false) ->
  Z.of_N (a_count s r) + 1 <= MAXU32 ->
  exists s', grant_role_no_auth c s account r = Ok s'.
Proof.
  intros c s account r Hc Hd. unfold grant_role_no_auth.
  destruct (has_role s account r) eqn:Eh; [eauto|].
  unfold add_to_role_enumeration.
  assert (Hle : (Z.of_N (a_count s r) + 1 <=? MAXU32) = true) by lia.
  destruct (N.eqb (a_count s r) 0) eqn:E0.
  - destruct Hc as [Hc|[Hc|Hc]]; try discriminate. rewrite Hc. cbn [bind]. rewrite Hle. cbn. eauto.
  - cbn [bind]. rewrite Hle. cbn. eauto.
Qed.

(* granting a pair that is already held is a no-op (what makes a list with duplicates a set) *)
Lemma grant_no_auth_idempotent : forall c s account r,
  has_role s account r = true -> lstep c s (GrantNoAuth account r) = (s, true).
Proof. intros c s account r H. unfold lstep. cbn [lexec]. unfold grant_role_no_auth. rewrite H. reflexivity. Qed.

Lemma revoke_no_auth_spec : forall s account r s',
  Inv s -> revoke_role_no_auth s account r = Ok s' ->
  has_role s account r = true /\ Inv s' /\ same_rest s s' /\
  (forall a r', abs s' a r' = abs s a r' && negb (N.eqb a account && N.eqb r' r)).
Proof.
  intros s account r s' HI H. unfold revoke_role_no_auth in H.
  destruct (has_role s account r) eqn:Eh; [|discriminate]. cbn [guard bind] in H.
  split; [reflexivity|].
  unfold has_role in Eh. destruct (a_has s account r) as [idx|] eqn:Ei; [|discriminate].
  destruct (remove_spec s account r idx HI Ei) as [s1 [R1 [R2 [R3 [R4 [R5 [R6 [R7 R8]]]]]]]].
  rewrite R1 in H. cbn [bind] in H. inversion H; subst s'; clear H.
  split; [|split].
  - eapply inv_ext; [| | | |exact R2]; cbn; auto.
    intros a r'. unfold upd2. destruct (N.eqb a account && N.eqb r' r) eqn:E; [|reflexivity].
    apply andb_prop in E. destruct E as [E1 E2]. apply N.eqb_eq in E1, E2. subst. symmetry. exact R4.
  - unfold same_rest. cbn. auto.
  - intros a r'. unfold abs, has_role. cbn [a_has]. unfold upd2.
    destruct (N.eqb a account && N.eqb r' r) eqn:E; cbn; [rewrite andb_false_r; reflexivity|].
    rewrite R3. rewrite E. reflexivity.
Qed.

Lemma revoke_no_auth_succeeds : forall s account r, Inv s ->
  has_role s account r = true -> exists s', revoke_role_no_auth s account r = Ok s'.
Proof.
  intros s account r HI Hc. unfold revoke_role_no_auth. rewrite Hc. cbn [guard bind].
  unfold has_role in Hc. destruct (a_has s account r) as [idx|] eqn:E; [|discriminate].
  destruct (remove_spec s account r idx HI E) as [s1 [R1 _]]. rewrite R1. cbn. eauto.
Qed.

(* the remaining low-level calls leave the role tables alone *)
Lemma low_other_same_roles : forall c s cl s',
  lexec c s cl = Ok s' ->
  match cl with
  | SetRoleAdminNoAuth _ _ | RemoveRoleAdminNoAuth _ | RemoveCountNoAuth _ _ | EnsureAuthority _ _ | EnsureRole _ _ => same_roles s s'
  | _ => True
  end.
Proof.
  intros c s cl s' H. destruct cl; auto; cbn [lexec] in H; unfold same_roles.
  - unfold set_role_admin_no_auth in H. inversion H; cbn; auto.
  - unfold remove_role_admin_no_auth in H. destruct (is_some (a_role_admin s r)); [|discriminate]. inversion H; cbn; auto.
  - destruct (N.eqb (a_count s r) 0 && answer); [|discriminate]. inversion H; auto.
  - destruct (admin_or_admin_role s r caller); [|discriminate]. inversion H; auto.
  - destruct (has_role s caller r); [|discriminate]. inversion H; auto.
Qed.

(* ---- one step of the low-level machine: invariant and commutation with the set operation ---- *)
Lemma lstep_spec : forall c s cl,
  Inv s ->
  Inv (fst (lstep c s cl)) /\
  (forall a r, abs (fst (lstep c s cl)) a r = labs_after s cl (snd (lstep c s cl)) a r).
Proof.
  intros c s cl HI. destruct cl as [cl|account r|account r|r ar|r|r answer|r caller|r caller].
  - rewrite lstep_lcall. destruct (step_spec c s cl HI) as [A [B _]]. split; [exact A|exact B].
  - unfold lstep. cbn [lexec]. destruct (grant_role_no_auth c s account r) as [s'|] eqn:E; cbn [fst snd labs_after].
    + destruct (grant_no_auth_spec _ _ _ _ _ HI E) as [A [_ D]]. auto.
    + auto.
  - unfold lstep. cbn [lexec]. destruct (revoke_role_no_auth s account r) as [s'|] eqn:E; cbn [fst snd labs_after].
    + destruct (revoke_no_auth_spec _ _ _ _ HI E) as [_ [A [_ D]]]. auto.
    + auto.
  - unfold lstep. destruct (lexec c s (SetRoleAdminNoAuth r ar)) as [s'|] eqn:E; cbn [fst snd labs_after]; [|auto].
    pose proof (low_other_same_roles c s _ s' E) as S. cbn in S.
    split; [eapply same_roles_inv; eauto|intros; apply same_roles_abs; exact S].
  - unfold lstep. destruct (lexec c s (RemoveRoleAdminNoAuth r)) as [s'|] eqn:E; cbn [fst snd labs_after]; [|auto].
    pose proof (low_other_same_roles c s _ s' E) as S. cbn in S.
    split; [eapply same_roles_inv; eauto|intros; apply same_roles_abs; exact S].
  - unfold lstep. destruct (lexec c s (RemoveCountNoAuth r answer)) as [s'|] eqn:E; cbn [fst snd labs_after]; [|auto].
    pose proof (low_other_same_roles c s _ s' E) as S. cbn in S.
    split; [eapply same_roles_inv; eauto|intros; apply same_roles_abs; exact S].
  - unfold lstep. destruct (lexec c s (EnsureAuthority r caller)) as [s'|] eqn:E; cbn [fst snd labs_after]; [|auto].
    pose proof (low_other_same_roles c s _ s' E) as S. cbn in S.
    split; [eapply same_roles_inv; eauto|intros; apply same_roles_abs; exact S].
  - unfold lstep. destruct (lexec c s (EnsureRole r caller)) as [s'|] eqn:E; cbn [fst snd labs_after]; [|auto].
    pose proof (low_other_same_roles c s _ s' E) as S. cbn in S.
    split; [eapply same_roles_inv; eauto|intros; apply same_roles_abs; exact S].
Qed.

Lemma inv_lrun : forall c s cs, Inv s -> Inv (lrun c s cs).
Proof.
  intros c s cs. revert s. induction cs as [|cl r IH]; intros s HI; [exact HI|].
  cbn [lrun fold_left]. apply IH. apply lstep_spec. exact HI.
Qed.

Lemma inv_linit : forall c start adm pairs, Inv (linit c start adm pairs).
Proof. intros. unfold linit. apply inv_lrun. apply inv_init. Qed.

(* the low-level calls other than LCall never touch the ledger, the admin / pending admin or the NFT part;
   a role's admin role changes only by set_role_admin_no_auth / remove_role_admin_no_auth *)
Lemma low_frame : forall c s cl,
  match cl with LCall _ => True | _ =>
    a_now (fst (lstep c s cl)) = a_now s /\ a_rt (fst (lstep c s cl)) = a_rt s /\ a_nft (fst (lstep c s cl)) = a_nft s /\
    match cl with
    | SetRoleAdminNoAuth r ar =>
        snd (lstep c s cl) = true /\ a_role_admin (fst (lstep c s cl)) = upd (a_role_admin s) r (Some ar)
    | RemoveRoleAdminNoAuth r =>
        snd (lstep c s cl) = is_some (a_role_admin s r) /\
        a_role_admin (fst (lstep c s cl)) = if is_some (a_role_admin s r) then upd (a_role_admin s) r None else a_role_admin s
    | RemoveCountNoAuth r answer =>
        fst (lstep c s cl) = s /\ (snd (lstep c s cl) = true -> a_count s r = 0%N) /\
        ((0 < a_count s r)%N -> snd (lstep c s cl) = false)
    | _ => a_role_admin (fst (lstep c s cl)) = a_role_admin s
    end
  end.
Proof.
  intros c s cl. destruct cl as [cl|account r|account r|r ar|r|r answer|r caller|r caller]; [exact I| | | | | | |]; unfold lstep; cbn [lexec].
  - destruct (grant_role_no_auth c s account r) as [s'|] eqn:E; cbn [fst]; [|auto].
    unfold grant_role_no_auth in E. destruct (has_role s account r); [inversion E; auto|].
    unfold add_to_role_enumeration in E.
    destruct (N.eqb (a_count s r) 0);
      [destruct (N.eqb (N.of_nat (length (a_existing s))) (max_roles c)); [discriminate|]|];
      cbn [bind] in E; (destruct (Z.of_N (a_count s r) + 1 <=? MAXU32); [|discriminate]);
      cbn [guard bind] in E; inversion E; cbn; auto.
  - destruct (revoke_role_no_auth s account r) as [s'|] eqn:E; cbn [fst]; [|auto].
    unfold revoke_role_no_auth in E. destruct (has_role s account r) eqn:Eh; [|discriminate]. cbn [guard bind] in E.
    destruct (remove_from_role_enumeration s account r) as [s1|] eqn:E1; [|discriminate]. cbn [bind] in E. inversion E; cbn.
    unfold remove_from_role_enumeration in E1. destruct (N.eqb (a_count s r) 0); [discriminate|].
    destruct (a_has s account r) as [idx|]; [|discriminate]. cbn [of_option bind] in E1.
    destruct (negb (N.eqb idx (a_count s r - 1))).
    + destruct (a_member s r (a_count s r - 1)); [|discriminate]. cbn [of_option bind] in E1. inversion E1; cbn; auto.
    + cbn [bind] in E1. inversion E1; cbn; auto.
  - cbn. auto.
  - unfold remove_role_admin_no_auth. destruct (is_some (a_role_admin s r)); cbn; auto.
  - destruct (N.eqb_spec (a_count s r) 0) as [E0|E0]; destruct answer; cbn [andb fst snd]; repeat split; auto; try discriminate; lia.
  - destruct (admin_or_admin_role s r caller); cbn; auto.
  - destruct (has_role s caller r); cbn; auto.
Qed.

(* the two guards called directly: exactly the authority / membership test, no effect *)
Lemma ensure_closed : forall c s r caller,
  lstep c s (EnsureAuthority r caller) = (s, admin_or_admin_role s r caller) /\
  lstep c s (EnsureRole r caller) = (s, has_role s caller r).
Proof.
  intros c s r caller. unfold lstep. cbn [lexec].
  destruct (admin_or_admin_role s r caller), (has_role s caller r); cbn; auto.
Qed.

(* ------------------------------------------------------------------ *)
(* statements over all constructor lists and all call sequences, as pinned in Properties/C06.v *)

Theorem low_refines_set : forall c start adm pairs cs,
  let s := lrun c (linit c start adm pairs) cs in
  (forall r, let l := members_list s r in
     NoDup l /\ N.of_nat (length l) = a_count s r /\
     (forall a, In a l <-> abs s a r = true) /\
     (forall i a, a_member s r i = Some a <-> nth_error l (N.to_nat i) = Some a) /\
     (forall a i, a_has s a r = Some i <-> nth_error l (N.to_nat i) = Some a) /\
     (forall i, (a_count s r <= i)%N -> a_member s r i = None)) /\
  (NoDup (a_existing s) /\ forall r, In r (a_existing s) <-> exists a, abs s a r = true) /\
  (forall cl a r, abs (fst (lstep c s cl)) a r = labs_after s cl (snd (lstep c s cl)) a r).
Proof.
  intros c start adm pairs cs s.
  assert (HI : Inv s) by (apply inv_lrun; apply inv_linit).
  split; [|split].
  - intros r. apply enumeration_exact. exact HI.
  - apply existing_exact. exact HI.
  - intros cl. apply (lstep_spec c s cl HI).
Qed.

(* nothing is born with a role the constructor was not told *)
Lemma lrun_ctor_sound : forall c pairs s a r,
  Inv s -> abs (lrun c s (ctor_calls pairs)) a r = true -> abs s a r = true \/ In (a, r) pairs.
Proof.
  intros c pairs. induction pairs as [|[a0 r0] t IH]; intros s a r HI H; [left; exact H|].
  cbn [ctor_calls map lrun fold_left fst snd] in H.
  destruct (lstep_spec c s (GrantNoAuth a0 r0) HI) as [HI' HA].
  destruct (IH _ a r HI' H) as [H1|H1]; [|right; right; exact H1].
  rewrite HA in H1. cbn [labs_after] in H1. destruct (snd (lstep c s (GrantNoAuth a0 r0))); [|left; exact H1].
  apply orb_prop in H1. destruct H1 as [H1|H1]; [left; exact H1|].
  apply andb_prop in H1. destruct H1 as [E1 E2]. apply N.eqb_eq in E1, E2. subst. right. left. reflexivity.
Qed.

Theorem ctor_sound : forall c start adm pairs a r,
  abs (linit c start adm pairs) a r = true -> In (a, r) pairs.
Proof.
  intros c start adm pairs a r H. destruct (lrun_ctor_sound c pairs _ a r (inv_init start adm) H) as [H1|H1]; [|exact H1].
  rewrite init_empty in H1. discriminate.
Qed.

(* a member is never lost by a later no-auth grant *)
Lemma lrun_ctor_mono : forall c pairs s a r,
  Inv s -> abs s a r = true -> abs (lrun c s (ctor_calls pairs)) a r = true.
Proof.
  intros c pairs. induction pairs as [|[a0 r0] t IH]; intros s a r HI H; [exact H|].
  cbn [ctor_calls map lrun fold_left fst snd].
  destruct (lstep_spec c s (GrantNoAuth a0 r0) HI) as [HI' HA].
  apply IH; [exact HI'|]. rewrite HA. cbn [labs_after]. destruct (snd (lstep c s (GrantNoAuth a0 r0))); [|exact H].
  rewrite H. reflexivity.
Qed.

(* ------------------------------------------------------------------ *)
(* no role is a "default admin role": a role without a configured admin role is administered by the contract
   admin alone - whatever roles (whatever their names) the caller holds *)
Theorem no_default_admin_role : forall c s r,
  a_role_admin s r = None ->
  (forall a caller au, snd (step c s (Grant a r caller au)) = true ->
                       holder (a_rt s) = Some caller /\ has_auth au caller = true) /\
  (forall a caller au, snd (step c s (Revoke a r caller au)) = true ->
                       holder (a_rt s) = Some caller /\ has_auth au caller = true) /\
  (forall caller, snd (lstep c s (EnsureAuthority r caller)) = true -> holder (a_rt s) = Some caller).
Proof.
  intros c s r Hn.
  assert (K : forall caller, admin_or_admin_role s r caller = true -> holder (a_rt s) = Some caller).
  { intros caller H. destruct (authority_spec s r caller H) as [H1|[ar [H1 _]]]; [exact H1|congruence]. }
  split; [|split].
  - intros a caller au H. unfold step in H. destruct (exec c s (Grant a r caller au)) as [s'|] eqn:E; [|discriminate].
    cbn [exec] in E. destruct (grant_guards _ _ _ _ _ _ _ E) as [Ga Gb]. auto.
  - intros a caller au H. unfold step in H. destruct (exec c s (Revoke a r caller au)) as [s'|] eqn:E; [|discriminate].
    cbn [exec] in E. destruct (revoke_guards _ _ _ _ _ _ E) as [Ga [Gb _]]. auto.
  - intros caller H. destruct (ensure_closed c s r caller) as [EC _]. rewrite EC in H. cbn [snd] in H. auto.
Qed.
