(* C11: the theorems in their final form. *)
From SC Require Import Lib.Prelude Lib.Int Lib.Host Model.Nft Run.NftCommon Proofs.NftMaps Proofs.NftFrame
  Proofs.NftInv Proofs.NftCons Proofs.NftOwn Proofs.NftSim.
Local Open Scope N_scope.

Lemma has_auth_In auths a : has_auth auths a = true <-> In a auths.
Proof.
  unfold has_auth. rewrite existsb_exists. split.
  - intros [y [Hy E]]. apply N.eqb_eq in E. subst. exact Hy.
  - intros H. exists a. split; auto. apply N.eqb_refl.
Qed.

(* ---------- authority, in every state ---------- *)
Definition mover (s : state) (fl : flavour) (c : cfg) (auths : list addr) (x from : addr) (id : N) : Prop :=
  In x auths /\ owner_of fl c s id = Some from /\
  (x = from \/ get_approved s id = Some x \/ is_approved_for_all s from x = true).

Theorem move_authority fl c s cl s' r : exec fl c s cl = Ok (s', r) ->
  match cl with
  | Transfer auths from _ id | Burn auths from id => mover s fl c auths from from id
  | TransferFrom auths sp from _ id | BurnFrom auths sp from id => mover s fl c auths sp from id
  | _ => True
  end.
Proof.
  intros H. apply exec_ok in H. destruct cl; cbn [exec_spec] in H; try exact I; unfold mover.
  - destruct H as (A&B&_). split; [apply has_auth_In; exact A|]. split; [exact B | left; reflexivity].
  - destruct H as (A&S&B&_). split; [apply has_auth_In; exact A|]. split; [exact B | exact S].
  - destruct H as (A&B&_). split; [apply has_auth_In; exact A|]. split; [exact B | left; reflexivity].
  - destruct H as (A&S&B&_). split; [apply has_auth_In; exact A|]. split; [exact B | exact S].
Qed.

Theorem approve_authority fl c s auths approver approved id lu s' r :
  exec fl c s (Approve auths approver approved id lu) = Ok (s', r) ->
  In approver auths /\
  exists o, owner_of fl c s id = Some o /\ (approver = o \/ is_approved_for_all s o approver = true).
Proof.
  intros H. apply exec_ok in H. cbn [exec_spec] in H. destruct H as (A&_&o&B&C&_).
  split; [apply has_auth_In; exact A|]. exists o. split; assumption.
Qed.

Theorem approve_for_all_authority fl c s auths o op lu s' r :
  exec fl c s (ApproveForAll auths o op lu) = Ok (s', r) -> In o auths.
Proof. intros H. apply exec_ok in H. cbn [exec_spec] in H. destruct H as (A&_). apply has_auth_In. exact A. Qed.

(* a move clears the approval, in every state *)
Lemma get_approved_none_of_arem s id (A : list (N * tentry (addr * Z))) :
  appr s = arem N.eqb id A -> get_approved s id = None.
Proof. intros E. unfold get_approved. rewrite E, (aget_arem_eq N.eqb). reflexivity. Qed.

Theorem cleared_on_move fl c s cl s' r : exec fl c s cl = Ok (s', r) ->
  match cl with
  | Transfer _ _ _ id | TransferFrom _ _ _ _ id | Burn _ _ id | BurnFrom _ _ _ id => get_approved s' id = None
  | _ => True
  end.
Proof.
  intros H. apply exec_ok in H. destruct cl; cbn [exec_spec] in H; try exact I.
  - destruct H as (_&_&_&(_&_&_&D&_)). eapply get_approved_none_of_arem; exact D.
  - destruct H as (_&_&_&_&(_&_&_&D&_)). eapply get_approved_none_of_arem; exact D.
  - destruct H as (_&_&_&(_&_&_&D&_)). eapply get_approved_none_of_arem; exact D.
  - destruct H as (_&_&_&_&(_&_&_&D&_)). eapply get_approved_none_of_arem; exact D.
Qed.

(* ---------- the history behind an approval that the getters report ---------- *)
Fixpoint outcomes (fl : flavour) (c : cfg) (s : state) (cs : list call) : list (call * outcome) :=
  match cs with
  | [] => []
  | cl :: r => (cl, snd (step fl c s cl)) :: outcomes fl c (fst (step fl c s cl)) r
  end.

(* a successful transfer / burn / approve of token id *)
Definition touches (id : N) (co : call * outcome) : bool :=
  match snd co with
  | Fail => false
  | Ok _ =>
      match fst co with
      | Transfer _ _ _ i | TransferFrom _ _ _ _ i | Burn _ _ i | BurnFrom _ _ _ i | Approve _ _ _ i _ => i =? id
      | _ => false
      end
  end.
Definition untouched (id : N) (l : list (call * outcome)) : bool := forallb (fun co => negb (touches id co)) l.

Lemma run_cons fl c s cl r : run fl c s (cl :: r) = run fl c (fst (step fl c s cl)) r.
Proof. reflexivity. Qed.
Lemma run_app fl c s l1 l2 : run fl c s (l1 ++ l2) = run fl c (run fl c s l1) l2.
Proof. unfold run. apply fold_left_app. Qed.

Lemma appr_hist fl c id x lu : forall cs s0 g0,
  aget N.eqb id (g_appr (snd (run_sg fl c s0 g0 cs))) = Some (x, lu) ->
  (aget N.eqb id (g_appr g0) = Some (x, lu) /\ untouched id (outcomes fl c s0 cs) = true) \/
  (exists cs1 auths approver cs2,
     cs = cs1 ++ Approve auths approver x id lu :: cs2 /\ lu <> 0%Z /\
     is_ok (snd (step fl c (run fl c s0 cs1) (Approve auths approver x id lu))) = true /\
     untouched id (outcomes fl c (run fl c s0 (cs1 ++ [Approve auths approver x id lu])) cs2) = true).
Proof.
  induction cs as [|cl r IH]; intros s0 g0 H; cbn [run_sg snd outcomes untouched forallb] in *.
  - left. split; [exact H | reflexivity].
  - specialize (IH _ _ H). destruct IH as [[Hg Hq]|(cs1&auths&approver&cs2&E&Hlu&Hok&Hq)].
    + (* the entry was there after cl and nothing touched it afterwards: look at cl *)
      destruct (snd (step fl c s0 cl)) as [rr|] eqn:Eo.
      2:{ left. cbn [ghost_step] in Hg. split; [exact Hg|]. cbn [touches snd negb andb]. exact Hq. }
      destruct cl; cbn [ghost_step g_appr] in Hg;
        try (left; split; [exact Hg | cbn [touches fst snd negb andb]; exact Hq]).
      * destruct rr; cbn [g_appr] in Hg; left; (split; [exact Hg | cbn [touches fst snd negb andb]; exact Hq]).
      * destruct rr; cbn [g_appr] in Hg; left; (split; [exact Hg | cbn [touches fst snd negb andb]; exact Hq]).
      * rewrite (aget_arem N.eqb Neqb_spec) in Hg. rewrite (N.eqb_sym id id0) in Hg.
        destruct (id0 =? id) eqn:Ei; [discriminate|]. left. split; [exact Hg|].
        cbn [touches fst snd]. rewrite Ei. cbn [negb andb]. exact Hq.
      * rewrite (aget_arem N.eqb Neqb_spec) in Hg. rewrite (N.eqb_sym id id0) in Hg.
        destruct (id0 =? id) eqn:Ei; [discriminate|]. left. split; [exact Hg|].
        cbn [touches fst snd]. rewrite Ei. cbn [negb andb]. exact Hq.
      * rewrite (aget_arem N.eqb Neqb_spec) in Hg. rewrite (N.eqb_sym id id0) in Hg.
        destruct (id0 =? id) eqn:Ei; [discriminate|]. left. split; [exact Hg|].
        cbn [touches fst snd]. rewrite Ei. cbn [negb andb]. exact Hq.
      * rewrite (aget_arem N.eqb Neqb_spec) in Hg. rewrite (N.eqb_sym id id0) in Hg.
        destruct (id0 =? id) eqn:Ei; [discriminate|]. left. split; [exact Hg|].
        cbn [touches fst snd]. rewrite Ei. cbn [negb andb]. exact Hq.
      * (* Approve *)
        destruct (id0 =? id) eqn:Ei.
        -- apply N.eqb_eq in Ei. subst id0.
           destruct (live_until =? 0)%Z eqn:El.
           ++ rewrite (aget_arem_eq N.eqb) in Hg. discriminate.
           ++ rewrite (aget_aset_eq N.eqb Neqb_spec) in Hg. inversion Hg; subst. apply Z.eqb_neq in El.
              right. exists [], auths, approver, r. split; [reflexivity|]. split; [exact El|].
              cbn [run fold_left app]. rewrite Eo. split; [reflexivity | exact Hq].
        -- left. split.
           ++ destruct (live_until =? 0)%Z.
              ** rewrite (aget_arem N.eqb Neqb_spec), (N.eqb_sym id id0), Ei in Hg. exact Hg.
              ** rewrite (aget_aset N.eqb Neqb_spec), (N.eqb_sym id id0), Ei in Hg. exact Hg.
           ++ cbn [touches fst snd]. rewrite Ei. cbn [negb andb]. exact Hq.
    + right. exists (cl :: cs1), auths, approver, cs2. split; [cbn [app]; rewrite E; reflexivity|].
      split; [exact Hlu|]. cbn [app]. rewrite !run_cons. split; assumption.
Qed.

Lemma run_sg_fst fl c cs s g : fst (run_sg fl c s g cs) = run fl c s cs.
Proof. apply run_sg_state. Qed.

Theorem no_carry_over fl c now0 cs id x :
  get_approved (run fl c (init now0) cs) id = Some x ->
  exists cs1 auths approver lu cs2,
    cs = cs1 ++ Approve auths approver x id lu :: cs2 /\ lu <> 0%Z /\
    (now (run fl c (init now0) cs) <= lu)%Z /\
    is_ok (snd (step fl c (run fl c (init now0) cs1) (Approve auths approver x id lu))) = true /\
    untouched id (outcomes fl c (run fl c (init now0) (cs1 ++ [Approve auths approver x id lu])) cs2) = true.
Proof.
  intros H. pose proof (run_sg_sim fl c cs _ _ (sim_init fl now0)) as [Hc _].
  rewrite run_sg_fst in Hc. set (g := snd (run_sg fl c (init now0) (ghost0 now0) cs)) in *.
  destruct Hc as (Hck&_&Ha&_). rewrite (get_approved_live _ g Hck Ha) in H.
  unfold live_appr in H. destruct (aget N.eqb id (g_appr g)) as [[x' lu]|] eqn:E; [|discriminate].
  destruct (g_now g <=? lu)%Z eqn:El; [|discriminate]. inversion H; subst x'. apply Z.leb_le in El.
  destruct (appr_hist fl c id x lu cs (init now0) (ghost0 now0) E) as [[Hg _]|(cs1&auths&approver&cs2&E1&E2&E3&E4)].
  - cbn in Hg. discriminate.
  - exists cs1, auths, approver, lu, cs2. destruct Hck as [Hn _]. rewrite Hn. repeat split; assumption.
Qed.

(* operators *)
Definition touches_op (o op : addr) (co : call * outcome) : bool :=
  match snd co with
  | Fail => false
  | Ok _ => match fst co with ApproveForAll _ o' op' _ => (o' =? o) && (op' =? op) | _ => false end
  end.
Definition untouched_op (o op : addr) (l : list (call * outcome)) : bool :=
  forallb (fun co => negb (touches_op o op co)) l.

Lemma oper_hist fl c o op lu : forall cs s0 g0,
  aget peqb (o, op) (g_oper (snd (run_sg fl c s0 g0 cs))) = Some lu ->
  (aget peqb (o, op) (g_oper g0) = Some lu /\ untouched_op o op (outcomes fl c s0 cs) = true) \/
  (exists cs1 auths cs2,
     cs = cs1 ++ ApproveForAll auths o op lu :: cs2 /\ lu <> 0%Z /\
     is_ok (snd (step fl c (run fl c s0 cs1) (ApproveForAll auths o op lu))) = true /\
     untouched_op o op (outcomes fl c (run fl c s0 (cs1 ++ [ApproveForAll auths o op lu])) cs2) = true).
Proof.
  induction cs as [|cl r IH]; intros s0 g0 H; cbn [run_sg snd outcomes untouched_op forallb] in *.
  - left. split; [exact H | reflexivity].
  - specialize (IH _ _ H). destruct IH as [[Hg Hq]|(cs1&auths&cs2&E&Hlu&Hok&Hq)].
    + destruct (snd (step fl c s0 cl)) as [rr|] eqn:Eo.
      2:{ left. cbn [ghost_step] in Hg. split; [exact Hg|]. cbn [touches_op snd negb andb]. exact Hq. }
      destruct cl; cbn [ghost_step g_oper] in Hg;
        try (left; split; [exact Hg | cbn [touches_op fst snd negb andb]; exact Hq]).
      * destruct rr; cbn [g_oper] in Hg; left; (split; [exact Hg | cbn [touches_op fst snd negb andb]; exact Hq]).
      * destruct rr; cbn [g_oper] in Hg; left; (split; [exact Hg | cbn [touches_op fst snd negb andb]; exact Hq]).
      * (* ApproveForAll *)
        destruct ((owner_ =? o) && (operator =? op)) eqn:Ei.
        -- apply andb_true_iff in Ei. destruct Ei as [E1 E2]. apply N.eqb_eq in E1, E2. subst owner_ operator.
           destruct (live_until =? 0)%Z eqn:El.
           ++ rewrite (aget_arem_eq peqb) in Hg. discriminate.
           ++ rewrite (aget_aset_eq peqb peqb_spec) in Hg. inversion Hg; subst. apply Z.eqb_neq in El.
              right. exists [], auths, r. split; [reflexivity|]. split; [exact El|].
              cbn [run fold_left app]. rewrite Eo. split; [reflexivity | exact Hq].
        -- assert (Hk : peqb (o, op) (owner_, operator) = false).
           { unfold peqb. cbn [fst snd]. rewrite (N.eqb_sym o owner_), (N.eqb_sym op operator). exact Ei. }
           left. split.
           ++ destruct (live_until =? 0)%Z.
              ** rewrite (aget_arem peqb peqb_spec), Hk in Hg. exact Hg.
              ** rewrite (aget_aset peqb peqb_spec), Hk in Hg. exact Hg.
           ++ cbn [touches_op fst snd]. rewrite Ei. cbn [negb andb]. exact Hq.
    + right. exists (cl :: cs1), auths, cs2. split; [cbn [app]; rewrite E; reflexivity|].
      split; [exact Hlu|]. cbn [app]. rewrite !run_cons. split; assumption.
Qed.

Theorem operator_history fl c now0 cs o op :
  is_approved_for_all (run fl c (init now0) cs) o op = true ->
  exists cs1 auths lu cs2,
    cs = cs1 ++ ApproveForAll auths o op lu :: cs2 /\ lu <> 0%Z /\
    (now (run fl c (init now0) cs) <= lu)%Z /\ In o auths /\
    is_ok (snd (step fl c (run fl c (init now0) cs1) (ApproveForAll auths o op lu))) = true /\
    untouched_op o op (outcomes fl c (run fl c (init now0) (cs1 ++ [ApproveForAll auths o op lu])) cs2) = true.
Proof.
  intros H. pose proof (run_sg_sim fl c cs _ _ (sim_init fl now0)) as [Hc _].
  rewrite run_sg_fst in Hc. set (g := snd (run_sg fl c (init now0) (ghost0 now0) cs)) in *.
  destruct Hc as (Hck&_&_&Ho). rewrite (is_approved_for_all_live _ g Hck Ho) in H.
  unfold live_oper in H. destruct (aget peqb (o, op) (g_oper g)) as [lu|] eqn:E; [|discriminate].
  apply Z.leb_le in H.
  destruct (oper_hist fl c o op lu cs (init now0) (ghost0 now0) E) as [[Hg _]|(cs1&auths&cs2&E1&E2&E3&E4)].
  - cbn in Hg. discriminate.
  - exists cs1, auths, lu, cs2. destruct Hck as [Hn _]. rewrite Hn.
    split; [exact E1|]. split; [exact E2|]. split; [exact H|]. split; [|split; assumption].
    unfold step in E3. destruct (exec fl c (run fl c (init now0) cs1) (ApproveForAll auths o op lu)) as [[s' r]|] eqn:Ex; [|discriminate].
    eapply approve_for_all_authority; exact Ex.
Qed.

(* approve_for_all (o, op) changes nothing but the answer for the pair (o, op) *)
Theorem operator_scope fl c s auths o op lu s' r :
  exec fl c s (ApproveForAll auths o op lu) = Ok (s', r) ->
  (forall o' op', (o', op') <> (o, op) -> is_approved_for_all s' o' op' = is_approved_for_all s o' op') /\
  (forall id, owner_of fl c s' id = owner_of fl c s id) /\
  (forall id, get_approved s' id = get_approved s id) /\
  (forall a, balance s' a = balance s a).
Proof.
  intros H. apply exec_ok in H. cbn [exec_spec] in H. destruct H as (_&_&[[_ ->]|(_&_&en&_&_&->)]).
  - split; [|repeat split; destruct fl; reflexivity].
    intros o' op' Hn. unfold is_approved_for_all. cbn [oper set_oper now]. rewrite (aget_arem_neq peqb peqb_spec); [reflexivity | exact Hn].
  - split; [|repeat split; destruct fl; reflexivity].
    intros o' op' Hn. unfold is_approved_for_all. cbn [oper set_oper now]. rewrite (aget_aset_neq peqb peqb_spec); [reflexivity | exact Hn].
Qed.

(* revoke *)
Theorem revoke_approval fl c s auths approver approved id s' r :
  exec fl c s (Approve auths approver approved id 0%Z) = Ok (s', r) -> get_approved s' id = None.
Proof.
  intros H. apply exec_ok in H. cbn [exec_spec] in H. destruct H as (_&_&o&_&_&[[_ ->]|(Hn&_)]).
  - eapply get_approved_none_of_arem. reflexivity.
  - exfalso. apply Hn. reflexivity.
Qed.
Theorem revoke_operator fl c s auths o op s' r :
  exec fl c s (ApproveForAll auths o op 0%Z) = Ok (s', r) -> is_approved_for_all s' o op = false.
Proof.
  intros H. apply exec_ok in H. cbn [exec_spec] in H. destruct H as (_&_&[[_ ->]|(Hn&_)]).
  - unfold is_approved_for_all. cbn [oper set_oper]. rewrite (aget_arem_eq peqb). reflexivity.
  - exfalso. apply Hn. reflexivity.
Qed.

Theorem getters_refine_tables fl c now0 cs :
  let s := run fl c (init now0) cs in
  let g := snd (run_sg fl c (init now0) (ghost0 now0) cs) in
  (forall id, get_approved s id = live_appr g id) /\
  (forall o op, is_approved_for_all s o op = live_oper g o op) /\
  (forall id, owner_of fl c s id = rget (g_own g) id).
Proof.
  cbv zeta. pose proof (run_sg_sim fl c cs _ _ (sim_init fl now0)) as [Hc Ho].
  rewrite run_sg_fst in Hc, Ho. destruct Hc as (Hck&_&Ha&Hop).
  split; [apply get_approved_live; assumption|]. split; [apply is_approved_for_all_live; assumption|].
  apply own_of. exact Ho.
Qed.

(* ---------- the owner of a token changes only by a successful move or mint of that token ---------- *)
(* a successful call that (re)assigns token id *)
Definition writes (id : N) (co : call * outcome) : bool :=
  match snd co with
  | Fail => false
  | Ok r =>
      match fst co with
      | Transfer _ _ _ i | TransferFrom _ _ _ _ i | Burn _ _ i | BurnFrom _ _ _ i | MintId _ i => i =? id
      | MintSeq _ => on_eqb r (Some id)
      | BatchMint _ amt => match r with Some last => (last + 1 - amt <=? id) && (id <=? last) | None => false end
      | _ => false
      end
  end.

Lemma owner_step_stable fl c s g cl id : Sim fl s g ->
  writes id (cl, snd (step fl c s cl)) = false ->
  owner_of fl c (fst (step fl c s cl)) id = owner_of fl c s id.
Proof.
  intros Hs Hw. pose proof (sim_step fl c s g cl Hs) as Hs'.
  rewrite (own_of fl c _ _ (proj2 Hs')), (own_of fl c s g (proj2 Hs)).
  destruct (step_cases fl c s cl) as [(s'&r&He&Est)|[He Est]]; rewrite Est in *; cbn [fst snd] in *; [|reflexivity].
  unfold writes in Hw. cbn [fst snd] in Hw.
  destruct cl; cbn [ghost_step g_own rget]; try reflexivity.
  - destruct r as [i|]; cbn [g_own rget]; [|reflexivity]. cbn [on_eqb] in Hw. rewrite N.eqb_sym, Hw. reflexivity.
  - cbn [g_own rget]. rewrite N.eqb_sym, Hw. reflexivity.
  - destruct r as [last|]; cbn [g_own rget]; [|reflexivity]. rewrite Hw. reflexivity.
  - rewrite N.eqb_sym, Hw. reflexivity.
  - rewrite N.eqb_sym, Hw. reflexivity.
  - rewrite N.eqb_sym, Hw. reflexivity.
  - rewrite N.eqb_sym, Hw. reflexivity.
Qed.

Lemma owner_stable fl c id : forall cs s g, Sim fl s g ->
  forallb (fun co => negb (writes id co)) (outcomes fl c s cs) = true ->
  owner_of fl c (run fl c s cs) id = owner_of fl c s id.
Proof.
  induction cs as [|cl r IH]; intros s g Hs Hq; [reflexivity|].
  cbn [outcomes forallb] in Hq. apply andb_true_iff in Hq. destruct Hq as [Hq1 Hq2].
  apply negb_true_iff in Hq1. rewrite run_cons.
  rewrite (IH _ _ (sim_step fl c s g cl Hs) Hq2). eapply owner_step_stable; eassumption.
Qed.

(* Combined: an approval that the getter reports was given, after the token's last move, by the
   account that owns the token NOW or by an account that was then a live operator of that owner. *)
Theorem approval_by_current_owner_side fl c now0 cs id x :
  get_approved (run fl c (init now0) cs) id = Some x ->
  exists cs1 auths approver lu cs2,
    cs = cs1 ++ Approve auths approver x id lu :: cs2 /\ lu <> 0%Z /\
    (now (run fl c (init now0) cs) <= lu)%Z /\
    let s1 := run fl c (init now0) cs1 in
    let s2 := run fl c (init now0) (cs1 ++ [Approve auths approver x id lu]) in
    In approver auths /\
    (exists o, owner_of fl c s1 id = Some o /\ (approver = o \/ is_approved_for_all s1 o approver = true) /\
       (forallb (fun co => negb (writes id co)) (outcomes fl c s2 cs2) = true ->
        owner_of fl c (run fl c (init now0) cs) id = Some o)) /\
    untouched id (outcomes fl c s2 cs2) = true.
Proof.
  intros H. destruct (no_carry_over fl c now0 cs id x H) as (cs1&auths&approver&lu&cs2&E&Hlu&Hnow&Hok&Hq).
  exists cs1, auths, approver, lu, cs2. split; [exact E|]. split; [exact Hlu|]. split; [exact Hnow|]. cbv zeta.
  unfold step in Hok. destruct (exec fl c (run fl c (init now0) cs1) (Approve auths approver x id lu)) as [[s' r]|] eqn:Ex; [|discriminate].
  destruct (approve_authority _ _ _ _ _ _ _ _ _ _ Ex) as [Hin (o&Ho&Hor)].
  split; [exact Hin|]. split; [|exact Hq].
  exists o. split; [exact Ho|]. split; [exact Hor|]. intros Hw.
  rewrite E. replace (cs1 ++ Approve auths approver x id lu :: cs2) with ((cs1 ++ [Approve auths approver x id lu]) ++ cs2)
    by (rewrite <- app_assoc; reflexivity).
  rewrite run_app.
  pose proof (run_sg_sim fl c (cs1 ++ [Approve auths approver x id lu]) _ _ (sim_init fl now0)) as Hs.
  rewrite run_sg_fst in Hs.
  rewrite (owner_stable fl c id cs2 _ _ Hs Hw).
  (* the approve call itself does not change the owner *)
  rewrite run_app. cbn [run fold_left]. unfold step. rewrite Ex. cbn [fst].
  apply exec_ok in Ex. cbn [exec_spec] in Ex. destruct Ex as (_&_&o'&Ho'&_&[[_ ->]|(_&_&en&_&_&->)]);
    (replace (owner_of fl c (set_appr _ _) id) with (owner_of fl c (run fl c (init now0) cs1) id) by (destruct fl; reflexivity)); exact Ho.
Qed.

Theorem owner_changes_only_by_move_or_mint fl c now0 cs1 cs2 id :
  forallb (fun co => negb (writes id co)) (outcomes fl c (run fl c (init now0) cs1) cs2) = true ->
  owner_of fl c (run fl c (init now0) (cs1 ++ cs2)) id = owner_of fl c (run fl c (init now0) cs1) id.
Proof.
  intros H. rewrite run_app.
  pose proof (run_sg_sim fl c cs1 _ _ (sim_init fl now0)) as Hs. rewrite run_sg_fst in Hs.
  exact (owner_stable fl c id cs2 _ _ Hs H).
Qed.
