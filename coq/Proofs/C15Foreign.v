(* C15: issuers that are NOT built from the library's helpers (foreign issuer contracts, contracts of
   another kind, non-contract addresses).  What such an address answers to `is_claim_valid` is the
   oracle [c_other] of the configuration: true iff the cross-contract call returns normally with the
   unit value.  The theorems say that this - and nothing weaker, e.g. "the call did not trap" - is
   what counts as a confirmation in validate_claim / verify_identity / add_claim. *)
From SC Require Import Lib.Prelude Lib.Int Lib.Host Model.ClaimIssuer Model.Identity
  Proofs.C15Base Proofs.C15Verify Proofs.C15World.

Lemma guard_ok b : guard b = Ok tt <-> b = true.
Proof. destruct b; cbn; split; congruence. Qed.

(* "issuer i confirms the claim", for every address i *)
Theorem confirmation_cases c w i d t scheme sig data :
  call_is_claim_valid c w i d t scheme sig data = Ok tt <->
  (exists s, the_issuer w i = Ok s /\ is_claim_valid c (w_now w) i s d t scheme sig data = Ok tt)
  \/ (the_issuer w i = Fail /\ c_other c i d t scheme sig data = true).
Proof.
  unfold call_is_claim_valid. destruct (the_issuer w i) as [s|] eqn:Es.
  - split.
    + intros H. left. exists s. auto.
    + intros [[s' [E H]] | [E _]]; [inversion E; subst; exact H | discriminate].
  - rewrite guard_ok. split.
    + intros H. right. auto.
    + intros [[s' [E _]] | [_ H]]; [discriminate | exact H].
Qed.

Corollary other_issuer_confirms_iff c w i d t scheme sig data :
  the_issuer w i = Fail ->
  (call_is_claim_valid c w i d t scheme sig data = Ok tt <-> c_other c i d t scheme sig data = true).
Proof. intros E. unfold call_is_claim_valid. rewrite E. apply guard_ok. Qed.

(* validate_claim at a foreign issuer: true exactly for a claim naming this topic and issuer that
   the issuer answers with the unit value *)
Theorem validate_claim_other c w cl t i d :
  the_issuer w i = Fail ->
  (validate_claim c w cl t i d = true <->
   cl_topic cl = t /\ cl_issuer cl = i /\ c_other c i d t (cl_scheme cl) (cl_sig cl) (cl_data cl) = true).
Proof.
  intros E. rewrite validate_claim_true. unfold confirms. rewrite (other_issuer_confirms_iff c w i d t _ _ _ E). tauto.
Qed.

(* add_claim at the identity: a claim naming a foreign issuer is stored only on the unit answer *)
Theorem add_claim_other c w d cl w' out :
  the_issuer w (cl_issuer cl) = Fail ->
  step c w (AddClaim d cl) = (w', Ok out) ->
  c_other c (cl_issuer cl) d (cl_topic cl) (cl_scheme cl) (cl_sig cl) (cl_data cl) = true.
Proof.
  intros E H. cbn [step] in H. destruct (the_ident w d) as [s|]; cbn [bind] in H; [|inversion H].
  unfold add_claim in H. unfold call_is_claim_valid in H. rewrite E in H.
  destruct (c_other c (cl_issuer cl) d (cl_topic cl) (cl_scheme cl) (cl_sig cl) (cl_data cl)); [reflexivity|].
  cbn in H. inversion H.
Qed.

Theorem foreign_validate_and_add_claim c w cl t i d :
  the_issuer w i = Fail ->
  (validate_claim c w cl t i d = true <->
   cl_topic cl = t /\ cl_issuer cl = i /\ c_other c i d t (cl_scheme cl) (cl_sig cl) (cl_data cl) = true) /\
  (forall d' w' out, cl_issuer cl = i -> step c w (AddClaim d' cl) = (w', Ok out) ->
     c_other c i d' (cl_topic cl) (cl_scheme cl) (cl_sig cl) (cl_data cl) = true).
Proof.
  intros E. split; [exact (validate_claim_other c w cl t i d E)|].
  intros d' w' out Ei H. subst i. exact (add_claim_other c w d' cl w' out E H).
Qed.

(* An answer that is not the unit value never counts: after ANY call sequence, if every issuer
   currently trusted for a required topic t is an address that is not a reference issuer and answers
   the identity's claim for t with anything but the unit value (a trap, `false`, `true`, an error
   code, no such function, no contract), verification fails. *)
Theorem non_unit_answer_never_counts c now ctis irss idents issuers ks a t :
  let w := run c (init now ctis irss idents issuers) ks in
  forall ra r d ca ct,
    w_virs w = Some ra -> the_irs w ra = Ok r -> stored_identity r a = Ok d ->
    w_vcti w = Some ca -> the_cti w ca = Ok ct -> In t (ct_topics ct) ->
    (forall i, is_trusted_issuer ct i = true -> has_claim_topic ct i t = Ok true ->
       the_issuer w i = Fail /\
       forall s cl, the_ident w d = Ok s -> get_claim s (i, t) = Ok cl ->
         c_other c i d t (cl_scheme cl) (cl_sig cl) (cl_data cl) = false) ->
    verify_identity c w a = Fail.
Proof.
  intros w ra r d ca ct E1 E2 E3 E4 E5 Ht Hno.
  apply (untrusted_issuer_never_counts c now ctis irss idents issuers ks a t ra r d ca ct E1 E2 E3 E4 E5 Ht).
  intros i Htr Hhas s cl Es Hg Hconf. destruct (Hno i Htr Hhas) as [Ei Hf].
  unfold confirms in Hconf. fold w in Hconf. rewrite (other_issuer_confirms_iff c w i d t _ _ _ Ei) in Hconf.
  rewrite (Hf s cl Es Hg) in Hconf. discriminate.
Qed.
