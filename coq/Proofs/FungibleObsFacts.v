(* Facts about observations and the model's own traces (shared by the C01 and C02 monitors). *)
From SC Require Import Lib.Prelude Lib.Int Lib.Host Model.Math Model.Fungible Model.FungibleObs
  Proofs.FungibleBasics Proofs.FungibleExec Proofs.FungibleAllow Proofs.FungibleInv.

Lemma mem_In a l : mem a l = true <-> In a l.
Proof.
  unfold mem. rewrite existsb_exists. split.
  - intros [x [H E]]. apply N.eqb_eq in E. subst. exact H.
  - intros H. exists a. split; auto. apply N.eqb_refl.
Qed.

(* ---- reflexivity of the boolean equalities ---- *)
Lemma list_eqb_refl {A} (eqb : A -> A -> bool) (l : list A) : (forall x, eqb x x = true) -> list_eqb eqb l l = true.
Proof. intros R. induction l; cbn; auto. rewrite R, IHl. reflexivity. Qed.
Lemma oz_eqb_refl a : oz_eqb a a = true. Proof. destruct a; cbn; auto. apply Z.eqb_refl. Qed.
Lemma event_eqb_refl e : event_eqb e e = true.
Proof. destruct e; cbn; rewrite ?N.eqb_refl, ?Z.eqb_refl, ?oz_eqb_refl; reflexivity. Qed.
Lemma outcome_eqb_refl o : outcome_eqb o o = true. Proof. destruct o; cbn; auto. apply Z.eqb_refl. Qed.
Lemma z3_eqb_refl x : z3_eqb x x = true.
Proof. unfold z3_eqb. rewrite !Z.eqb_refl. reflexivity. Qed.
Lemma z3_eqb_eq x y : z3_eqb x y = true <-> x = y.
Proof.
  destruct x as [[a b] c], y as [[a' b'] c']. unfold z3_eqb. cbn. rewrite !andb_true_iff, !Z.eqb_eq.
  split; [intros [[? ?] ?]; subst; auto|intros H; injection H; auto].
Qed.
Lemma obs_eqb_refl o : obs_eqb o o = true.
Proof.
  unfold obs_eqb. rewrite !Z.eqb_refl. cbn.
  rewrite !list_eqb_refl; auto.
  - apply Z.eqb_refl.
  - intros [p v]. unfold allow_eqb. cbn. rewrite pkey_eqb_refl, z3_eqb_refl. reflexivity.
  - intros [a v]. unfold bal_eqb. cbn. rewrite N.eqb_refl, Z.eqb_refl. reflexivity.
Qed.

(* the diff of the model with itself is empty *)
Lemma diff_model_items c univ s cs i : diff_from c univ s (model_items c univ s cs) i = 0%N.
Proof.
  revert s i. induction cs as [|cl r IH]; intros s i; cbn [model_items diff_from]; auto.
  destruct (step c s cl) as [[s' out] evs] eqn:E. cbn [diff_from item_agrees]. rewrite E.
  rewrite outcome_eqb_refl, obs_eqb_refl, (list_eqb_refl event_eqb); [|apply event_eqb_refl].
  cbn. apply IH.
Qed.
Lemma diff_model c univ start cs : diff (model_trace c univ start cs) = 0%N.
Proof. unfold diff, model_trace. cbn [t_init t_cfg t_univ t_start t_items]. rewrite obs_eqb_refl. apply diff_model_items. Qed.

(* ---- lookups in the model's observation ---- *)
Lemma getd_map_in (f : addr -> Z) univ a : In a univ -> getd (map (fun x => (x, f x)) univ) a = f a.
Proof.
  induction univ as [|b r IH]; cbn; [tauto|]. intros H. unfold getd. cbn.
  destruct (N.eqb a b) eqn:E.
  - apply N.eqb_eq in E. subst. reflexivity.
  - destruct H as [H|H]; [subst; rewrite N.eqb_refl in E; discriminate|]. apply IH. exact H.
Qed.
Lemma bal_of_observe c univ s a : In a univ -> bal_of (observe c univ s) a = balance (tk s) a.
Proof. intros H. unfold bal_of, observe. cbn. apply (getd_map_in (balance (tk s))). exact H. Qed.

Lemma pget_filter_map (f : pkey -> Z * Z * Z) (l : list pkey) p :
  match pget p (filter nondefault (map (fun q => (q, f q)) l)) with Some v => v | None => allow_default end =
  if existsb (pkey_eqb p) l then f p else allow_default.
Proof.
  induction l as [|q r IH]; cbn; auto.
  destruct (pkey_eqb p q) eqn:E.
  - apply pkey_eqb_eq in E. subst q. cbn.
    destruct (nondefault (p, f p)) eqn:Nd.
    + cbn. rewrite pkey_eqb_refl. reflexivity.
    + rewrite IH. unfold nondefault in Nd. cbn in Nd. apply negb_false_iff in Nd. apply z3_eqb_eq in Nd.
      rewrite Nd. destruct (existsb (pkey_eqb p) r); reflexivity.
  - cbn. destruct (nondefault (q, f q)); [cbn; rewrite E|]; apply IH.
Qed.

Lemma in_pairs univ o s : In o univ -> In s univ -> In (o, s) (pairs univ).
Proof. intros. unfold pairs. apply in_prod; auto. Qed.
Lemma in_pairs_inv univ p : In p (pairs univ) -> In (fst p) univ /\ In (snd p) univ.
Proof. destruct p. unfold pairs. intros H. apply in_prod_iff in H. exact H. Qed.

Lemma allow_of_observe c univ s p : In p (pairs univ) -> allow_of (observe c univ s) p = allow_obs s p.
Proof.
  intros H. unfold allow_of, observe. cbn [o_allow].
  rewrite (pget_filter_map (allow_obs s)).
  assert (X : existsb (pkey_eqb p) (pairs univ) = true).
  { apply existsb_exists. exists p. split; auto. apply pkey_eqb_refl. }
  rewrite X. reflexivity.
Qed.

Lemma observe_w_hist c univ s h : observe c univ (w_hist s h) = observe c univ s.
Proof. unfold observe, extras. cbn. destruct (c_flav c); reflexivity. Qed.

Lemma allow_obs_init start p : allow_obs (init start) p = allow_default.
Proof.
  unfold allow_obs, allowance_data, entry_live_until. cbn. destruct (0 <? start); reflexivity.
Qed.

(* ---- the shared monitor clauses hold on the model's own observations ---- *)
Lemma nodupb_NoDup l : nodupb l = true -> NoDup l.
Proof.
  induction l as [|a r IH]; cbn; [constructor|]. intros H. apply andb_true_iff in H. destruct H as [H1 H2].
  constructor; auto. intros Hi. apply mem_In in Hi. rewrite Hi in H1. discriminate.
Qed.

Lemma obs_shape_observe c univ s : core_inv (tk s) -> obs_shape_ok univ (observe c univ s) = true.
Proof.
  intros [I A]. unfold obs_shape_ok, observe. cbn [o_bal o_allow o_supply].
  repeat (apply andb_true_iff; split).
  - rewrite map_map. cbn. rewrite map_id. apply list_eqb_refl. apply N.eqb_refl.
  - apply forallb_forall. intros [p v] H. apply filter_In in H. destruct H as [H _].
    apply in_map_iff in H. destruct H as (q & E & Hq). injection E; intros; subst. cbn.
    apply existsb_exists. exists p. split; auto. apply pkey_eqb_refl.
  - apply Z.leb_le. apply I.
  - apply forallb_forall. intros [a v] H. apply in_map_iff in H. destruct H as (q & E & _).
    injection E; intros; subst. cbn. apply Z.leb_le. apply I.
  - apply forallb_forall. intros [p v] H. apply filter_In in H. destruct H as [H _].
    apply in_map_iff in H. destruct H as (q & E & _). injection E; intros; subst. cbn.
    apply Z.leb_le. destruct p as [o sp]. apply (allow_inv_reported (now s) (tk s) o sp A).
Qed.

Lemma filter_nondefault_init c univ start :
  o_allow (observe c univ (init start)) = [].
Proof.
  unfold observe. cbn [o_allow]. induction (pairs univ) as [|p r IH]; cbn; auto.
  rewrite allow_obs_init. unfold nondefault. cbn. rewrite z3_eqb_refl. cbn. exact IH.
Qed.

Lemma genesis_observe c univ start : nodupb univ = true -> genesis_ok univ start (observe c univ (init start)) = true.
Proof.
  intros ND. unfold genesis_ok. rewrite ND, (obs_shape_observe c univ (init start) core_inv_tok0).
  rewrite filter_nondefault_init. cbn [andb o_now o_supply observe now init]. rewrite !Z.eqb_refl. cbn [andb].
  rewrite andb_true_r. apply forallb_forall. intros [a v] H. cbn [o_bal] in H.
  apply in_map_iff in H. destruct H as (q & E & _). injection E; intros; subst. reflexivity.
Qed.

Lemma same_all_refl univ o : same_all univ o o = true.
Proof.
  unfold same_all. rewrite Z.eqb_refl. cbn.
  repeat (apply andb_true_iff; split).
  - apply forallb_forall. intros. apply Z.eqb_refl.
  - apply forallb_forall. intros. apply z3_eqb_refl.
  - apply list_eqb_refl. apply Z.eqb_refl.
Qed.

Lemma extras_w_now c univ s v : extras c univ (w_now s v) = extras c univ s.
Proof. unfold extras. destruct (c_flav c); reflexivity. Qed.

Lemma common_ok_model c univ s cl : wf_host (c_host c) -> core_inv (tk s) ->
  forallb (fun a => mem a univ) (call_addrs_all cl) = true ->
  let '(s', out, evs) := step c s cl in
  common_ok univ (observe c univ s) (cl, out, evs, observe c univ s') = true.
Proof.
  intros W C Wc. unfold step. destruct (exec c s cl) as [[[s1 v] evs]|] eqn:E.
  - rewrite (observe_w_hist c univ s1).
    destruct (exec_balances _ _ _ _ _ _ W C E) as (_ & _ & C1).
    pose proof (exec_spec _ _ _ _ _ _ E) as (Sp & N & _).
    unfold common_ok. rewrite (obs_shape_observe c univ s1 C1), Wc. cbn [andb].
    assert (In_ : forall a, In a (call_addrs_all cl) -> In a univ).
    { intros a Ha. rewrite forallb_forall in Wc. apply mem_In. apply Wc. exact Ha. }
    destruct cl; unfold now_after in N; cbn [o_now observe]; rewrite N, Z.eqb_refl; cbn [andb]; try reflexivity.
    + (* Advance *) cbn [exec] in E. inv_ok. cbn [o_supply o_extra observe tk w_now]. rewrite Z.eqb_refl, extras_w_now.
      rewrite (list_eqb_refl Z.eqb); [|apply Z.eqb_refl]. rewrite andb_true_r. cbn [andb].
      apply forallb_forall. intros a Ha. rewrite !bal_of_observe by auto. apply Z.eqb_refl.
    + (* QBalance *) destruct Sp as (-> & -> & _). rewrite same_all_refl, andb_true_r. apply Z.eqb_eq.
      symmetry. apply bal_of_observe. apply In_. cbn. auto.
    + (* QSupply *) destruct Sp as (-> & -> & _). rewrite same_all_refl, andb_true_r. apply Z.eqb_refl.
    + (* QAllowance *) destruct Sp as (-> & -> & _). rewrite same_all_refl, andb_true_r. apply Z.eqb_eq.
      rewrite allow_of_observe; [reflexivity|]. apply in_pairs; apply In_; cbn; auto.
  - unfold common_ok. rewrite (obs_shape_observe c univ s C), Wc. cbn [andb].
    rewrite same_all_refl. destruct cl; cbn [o_now observe]; rewrite Z.eqb_refl; reflexivity.
Qed.

(* ---- sums over a universe outside of which every balance is zero ---- *)
Lemma sum_over_getd_supp l u : NoDup (keys l) -> NoDup u -> (forall k, ~ In k u -> getd l k = 0) ->
  sum_over (getd l) u = sumv l.
Proof.
  revert u. induction l as [|[k v] r IH]; cbn; intros u Hd Hu Hz.
  - apply sum_over_zero. intros. reflexivity.
  - inversion Hd; subst.
    rewrite (sum_over_ext _ (fun a => if N.eqb a k then v else getd r a)).
    2:{ intros a _. unfold getd. cbn. destruct (N.eqb a k); reflexivity. }
    rewrite sum_over_point; auto. rewrite (getd_notin k r); auto.
    assert (Hz' : forall k', ~ In k' u -> getd r k' = 0).
    { intros k' Hk. destruct (N.eq_dec k' k) as [->|Hn]; [apply getd_notin; auto|].
      specialize (Hz k' Hk). unfold getd in *. cbn in Hz. destruct (N.eqb k' k) eqn:E; [apply N.eqb_eq in E; contradiction|]. exact Hz. }
    rewrite IH; auto.
    destruct (existsb (N.eqb k) u) eqn:X; [lia|].
    assert (Hk : ~ In k u). { intros Hi. apply mem_In in Hi. unfold mem in Hi. congruence. }
    specialize (Hz k Hk). unfold getd in Hz. cbn in Hz. rewrite N.eqb_refl in Hz. lia.
Qed.

Lemma sum_balances_supply t u : tok_inv t -> NoDup u -> (forall a, ~ In a u -> balance t a = 0) ->
  sum_over (balance t) u = supply t.
Proof.
  intros [I1 I2 I3 I4] Hu Hz. rewrite I2. unfold balance. apply sum_over_getd_supp; auto.
Qed.

(* pointwise nature of [ocredit] *)
Lemma ocredit_at (g h : addr -> Z) o v a : g a = h a -> ocredit g o v a = ocredit h o v a.
Proof. intros E. destruct o; cbn; auto. unfold credit. rewrite E. reflexivity. Qed.
Lemma ocredit_outside (g : addr -> Z) o v a : (forall x, o = Some x -> x <> a) -> ocredit g o v a = g a.
Proof.
  intros H. destruct o as [x|]; cbn; auto. unfold credit. destruct (N.eqb a x) eqn:E; auto.
  apply N.eqb_eq in E. subst. exfalso. apply (H x); auto.
Qed.
