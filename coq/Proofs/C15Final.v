(* C15: remaining statements over all call sequences (registry reading, nonce bump,
   persistence of a revocation). *)
From SC Require Import Lib.Prelude Lib.Int Lib.Host Model.ClaimIssuer Model.Identity
  Proofs.C15Base Proofs.C15Bytes Proofs.C15Verify Proofs.C15Issuer Proofs.C15Registry Proofs.C15Ident
  Proofs.C15World.

(* the registry, in every reachable state *)
Theorem registry_reading_reachable c now ctis irss idents issuers ks a ct :
  the_cti (run c (init now ctis irss idents issuers) ks) a = Ok ct ->
  exists m, get_claim_topics_and_issuers ct = Ok m /\
    (forall t l, In (t, l) m <-> (In t (ct_topics ct) /\ get_claim_topic_issuers ct t = Ok l)) /\
    (forall t l, In (t, l) m ->
       forall i, In i l <-> (is_trusted_issuer ct i = true /\ has_claim_topic ct i t = Ok true)).
Proof.
  intros H. apply topics_and_issuers_reading.
  apply (wi_cti _ (reachable_world_inv c now ctis irss idents issuers ks) a ct). apply the_cti_get. exact H.
Qed.

(* a key is allowed for a topic iff some (topic, registry) pair is recorded for it *)
Theorem key_allowed_reachable c now ctis irss idents issuers ks i s pk scheme t :
  the_issuer (run c (init now ctis irss idents issuers) ks) i = Ok s ->
  (is_key_allowed_for_topic s pk scheme t = true <-> exists r, In (t, r) (pairs_of s (pk, scheme))).
Proof. intros H. apply key_allowed_iff. apply (reachable_issuer c now ctis irss idents issuers ks i s H). Qed.

(* bumping the nonce invalidates every claim the issuer confirmed before *)
Theorem nonce_bump_invalidates_reachable c now ctis irss idents issuers ks i d t scheme sig data :
  sig_binds_message c ->
  let w := run c (init now ctis irss idents issuers) ks in
  let w' := fst (step c w (Invalidate i d t)) in
  snd (step c w (Invalidate i d t)) = Ok VUnit ->
  call_is_claim_valid c w i d t scheme sig data = Ok tt ->
  call_is_claim_valid c w' i d t scheme sig data = Fail.
Proof.
  intros Hb w w' Hok Hv. unfold call_is_claim_valid in *.
  destruct (the_issuer w i) as [s|] eqn:Es;
    [| cbn [step] in Hok; unfold upd in Hok; rewrite Es in Hok; cbn [bind snd] in Hok; discriminate].
  destruct (reachable_issuer c now ctis irss idents issuers ks i s Es) as [_ Hn].
  subst w'. cbn [step] in *. unfold upd in *. rewrite Es in *. cbn [bind] in *.
  destruct (invalidate_claim_signatures s d t) as [s'|] eqn:Ei; cbn [fst snd] in *; [|discriminate].
  unfold the_issuer at 1. cbn [set_issuer w_issuers]. rewrite (aget_aset_eq _ N_eqb_spec). cbn [of_option bind set_issuer w_now].
  eapply nonce_bump_invalidates; eauto. apply Hn.
Qed.

(* a revoked claim stays rejected - whatever its signature, whatever happens to the nonce or to
   anything else - until the issuer itself un-revokes exactly that claim *)
Definition unrevokes (i d : addr) (t : Z) (data : bytes) (k : call) : bool :=
  match k with
  | SetRevoked i' d' t' data' false => N.eqb i' i && rkey_eqb (d', t', data') (d, t, data)
  | _ => false
  end.

Definition revoked_in (w : world) (i d : addr) (t : Z) (data : bytes) : Prop :=
  exists s, the_issuer w i = Ok s /\ is_claim_revoked s d t data = true.

Lemma the_issuer_set_issuer w a s' i :
  the_issuer (set_issuer w a s') i = if N.eqb i a then Ok s' else the_issuer w i.
Proof.
  unfold the_issuer. cbn [set_issuer w_issuers]. rewrite (aget_aset _ N_eqb_spec). destruct (N.eqb i a); reflexivity.
Qed.

Lemma step_keeps_revoked c w k i d t data :
  unrevokes i d t data k = false -> revoked_in w i d t data -> revoked_in (fst (step c w k)) i d t data.
Proof.
  intros Hu [s [Es Hr]]. destruct (step c w k) as [w' out] eqn:E. cbn [fst].
  assert (Hsame : forall w1, w_issuers w1 = w_issuers w -> revoked_in w1 i d t data).
  { intros w1 F. exists s. split; auto. unfold the_issuer in *. rewrite F. exact Es. }
  assert (Hiss : forall a s1, the_issuer w a = Ok s1 -> forall s2,
             (forall d0 t0 x, is_claim_revoked s2 d0 t0 x = is_claim_revoked s1 d0 t0 x) ->
             revoked_in (set_issuer w a s2) i d t data).
  { intros a s1 Ea s2 Hsm. unfold revoked_in. rewrite the_issuer_set_issuer. destruct (N.eqb i a) eqn:Ei.
    - apply N.eqb_eq in Ei. subst a. rewrite Es in Ea. inversion Ea. subst s1. exists s2. split; auto. rewrite Hsm. exact Hr.
    - exists s. auto. }
  pose (P := fun w0 : world => revoked_in w0 i d t data).
  assert (HP : P w) by (exists s; auto). change (P w').
  destruct k; cbn [step] in E;
    try (unfold pure in E; inversion E; subst; exact HP);
    try (inversion E; subst; apply Hsame; reflexivity);
    try (apply (upd_inv P _ _ _ _ _ E HP); intros s0 _; apply Hsame; reflexivity).
  - (* AddClaim *)
    match type of E with (match ?x with _ => _ end) = _ => destruct x as [[s' id]|] end; inversion E; subst; [apply Hsame; reflexivity | exact HP].
  - (* AllowKey *)
    apply (upd_inv P _ _ _ _ _ E HP).
    intros s2 Hs. apply bind_ok in Hs. destruct Hs as [s1 [E1 Hs]]. apply (Hiss _ _ E1).
    intros d0 t0 x. unfold is_claim_revoked. replace (is_revoked s2) with (is_revoked s1); auto.
    unfold allow_key in Hs. destruct (is_nil pk); [discriminate|]. destruct (call_has_claim_topic w registry i0 topic) as [[]|]; cbn [bind negb] in Hs; try discriminate.
    destruct (is_key_allowed_for_topic s1 pk scheme topic); cbn [bind] in Hs.
    + destruct (existsb _ _); [discriminate|]. destruct (_ <=? _); [discriminate|]. inversion Hs. reflexivity.
    + destruct (c_max_keys c <=? _); cbn [bind] in Hs; [discriminate|].
      destruct (existsb _ _); [discriminate|]. destruct (_ <=? _); [discriminate|]. inversion Hs. reflexivity.
  - (* RemoveKey *)
    apply (upd_inv P _ _ _ _ _ E HP).
    intros s2 Hs. apply bind_ok in Hs. destruct Hs as [s1 [E1 Hs]]. apply (Hiss _ _ E1).
    intros d0 t0 x. unfold is_claim_revoked. replace (is_revoked s2) with (is_revoked s1); auto.
    unfold remove_key in Hs. apply bind_ok in Hs. destruct Hs as [pairs [_ Hs]]. apply bind_ok in Hs. destruct Hs as [pairs' [_ Hs]].
    destruct (existsb (fun p : Z * addr => fst p =? topic) pairs'); [inversion Hs; reflexivity|].
    apply bind_ok in Hs. destruct Hs as [ks0 [_ Hs]]. apply bind_ok in Hs. destruct Hs as [ks' [_ Hs]]. inversion Hs. reflexivity.
  - (* Invalidate *)
    apply (upd_inv P _ _ _ _ _ E HP).
    intros s2 Hs. apply bind_ok in Hs. destruct Hs as [s1 [E1 Hs]]. apply (Hiss _ _ E1).
    intros d1 t1 x. eapply revoked_after_invalidate; eauto.
  - (* SetRevoked *)
    apply (upd_inv P _ _ _ _ _ E HP).
    intros s2 Hs. apply bind_ok in Hs. destruct Hs as [s1 [E1 Hs]]. inversion Hs. subst s2.
    unfold P, revoked_in. rewrite the_issuer_set_issuer. destruct (N.eqb i i0) eqn:Ei; [|exists s; auto].
    apply N.eqb_eq in Ei. subst i0. rewrite Es in E1. inversion E1. subst s1.
    exists (set_claim_revoked s d0 topic data0 revoked). split; auto. rewrite revoked_after_set.
    destruct (rkey_eqb (d, t, data) (d0, topic, data0)) eqn:Ek; auto.
    destruct revoked; auto. cbn [unrevokes] in Hu. rewrite N.eqb_refl in Hu. cbn [andb] in Hu.
    rewrite (eqb_sym_of _ rkey_eqb_spec) in Hu. congruence.
Qed.

Theorem revocation_persists c w ks i d t data :
  forallb (fun k => negb (unrevokes i d t data k)) ks = true ->
  revoked_in w i d t data ->
  let w' := run c w ks in
  revoked_in w' i d t data /\
  forall scheme sig, call_is_claim_valid c w' i d t scheme sig data = Fail.
Proof.
  intros Hks Hr w'. assert (Hr' : revoked_in w' i d t data).
  { subst w'. revert w Hr. induction ks as [|k r IH]; intros w Hr; [exact Hr|].
    cbn [forallb] in Hks. apply andb_true_iff in Hks. destruct Hks as [Hk Hr0]. apply negb_true_iff in Hk.
    unfold run. cbn [fold_left]. apply (IH Hr0). apply step_keeps_revoked; auto. }
  split; auto. intros scheme sig. destruct Hr' as [s [Es Hrv]]. unfold call_is_claim_valid. rewrite Es. cbn [bind].
  apply revoked_rejects. exact Hrv.
Qed.

(* ---------------- restatements in self-contained form ---------------- *)
Lemma verify_iff_state c w a :
  (forall d s t id, the_ident w d = Ok s -> In id (get_claim_ids_by_topic s t) -> exists cl, get_claim s id = Ok cl) ->
  (verify_identity c w a = Ok tt <->
   exists d m, verifier_view w a d m /\ forall ti, In ti m -> topic_covered c w d ti).
Proof. intros H. apply verify_iff. intros d s t Es id Hin. eapply H; eauto. Qed.

Lemma expiration_roundtrip created_at valid_until payload d :
  0 <= created_at < 2 ^ 64 -> 0 <= valid_until < 2 ^ 64 ->
  encode_expiration created_at valid_until payload = Ok d ->
  decode_expiration d = Ok (created_at, valid_until, payload) /\ created_at < valid_until /\
  forall now, is_claim_expired now d = Ok (valid_until <=? now).
Proof.
  intros Hc Hv H. destruct (decode_encode _ _ _ Hc Hv d H) as [H1 H2]. repeat split; auto.
  intros now. eapply expired_iff; eauto.
Qed.

Lemma signature_layouts pk32 pk65 sg rid :
  length pk32 = 32%nat -> length pk65 = 65%nat -> length sg = 64%nat -> 0 <= rid <= MAXU32 ->
  extract_sig ED25519 (pk32 ++ sg) = Ok {| sd_pk := pk32; sd_sig := sg; sd_rid := 0 |} /\
  extract_sig SECP256R1 (pk65 ++ sg) = Ok {| sd_pk := pk65; sd_sig := sg; sd_rid := 0 |} /\
  extract_sig SECP256K1 (pk65 ++ sg ++ be32 rid) = Ok {| sd_pk := pk65; sd_sig := sg; sd_rid := rid |}.
Proof.
  intros H32 H65 Hs Hr. unfold extract_sig. cbn [Z.eqb ED25519 SECP256R1 SECP256K1].
  repeat split.
  - apply extract_ed25519_layout; auto.
  - change (103 =? 101) with false. change (103 =? 102) with false. change (103 =? 103) with true. cbn iota.
    apply extract_secp256r1_layout; auto.
  - change (102 =? 101) with false. change (102 =? 102) with true. cbn iota. apply extract_secp256k1_layout; auto.
Qed.

(* ---------------- "over this network": messages of different networks differ ---------------- *)
Theorem message_injective_net (xdr : addr -> bytes) : prefix_free xdr ->
  forall net i d t n data net' i' d' t' n' data',
    length net = length net' ->
    0 <= t <= MAXU32 -> 0 <= t' <= MAXU32 -> 0 <= n <= MAXU32 -> 0 <= n' <= MAXU32 ->
    build_claim_message net (xdr i) (xdr d) t n data = build_claim_message net' (xdr i') (xdr d') t' n' data' ->
    net = net' /\ i = i' /\ d = d' /\ t = t' /\ n = n' /\ data = data'.
Proof.
  intros Hpf net i d t n data net' i' d' t' n' data' Hl Ht Ht' Hn Hn' E.
  assert (En : net = net').
  { unfold build_claim_message in E. apply app_inj_length in E; [tauto | exact Hl]. }
  subst net'. split; auto. eapply message_injective; eauto.
Qed.

(* ---------------- a removed key stays removed ---------------- *)
(* a key that is not allowed for a topic at an issuer stays so - and every claim presented with it
   is rejected - through every later history that does not allow that key for that topic again *)
Definition reallows (i : addr) (pk : bytes) (scheme t : Z) (k : call) : bool :=
  match k with
  | AllowKey i' pk' _ sc' t' => N.eqb i' i && bytes_eqb pk' pk && (sc' =? scheme) && (t' =? t)
  | _ => false
  end.
Definition key_not_allowed (w : world) (i : addr) (pk : bytes) (scheme t : Z) : Prop :=
  exists s, the_issuer w i = Ok s /\ is_key_allowed_for_topic s pk scheme t = false.

Lemma allowed_after_allow c s pk0 r sc0 t0 has s' pk sc t : allow_key c s pk0 r sc0 t0 has = Ok s' ->
  is_key_allowed_for_topic s' pk sc t = true ->
  is_key_allowed_for_topic s pk sc t = true \/ (pk0 = pk /\ sc0 = sc /\ t0 = t).
Proof.
  intros Ha H. apply allowed_iff_keys in H.
  unfold allow_key in Ha. destruct (is_nil pk0); [discriminate|]. destruct has as [[]|]; cbn [bind negb] in Ha; try discriminate.
  fold (pairs_of s (pk0, sc0)) in Ha. fold (keys_of s t0) in Ha.
  destruct (is_key_allowed_for_topic s pk0 sc0 t0); cbn [bind] in Ha.
  - destruct (existsb _ _); [discriminate|]. destruct (_ <=? _); [discriminate|].
    assert (E1 : is_topics s' = is_topics s) by (inversion Ha; reflexivity).
    left. apply allowed_iff_keys. rewrite <- (keys_of_same _ _ E1). exact H.
  - destruct (c_max_keys c <=? _); cbn [bind] in Ha; [discriminate|].
    destruct (existsb _ _); [discriminate|]. destruct (_ <=? _); [discriminate|].
    assert (E1 : is_topics s' = aset Z.eqb t0 (keys_of s t0 ++ [(pk0, sc0)]) (is_topics s)) by (inversion Ha; reflexivity).
    rewrite (keys_of_after _ _ _ _ E1) in H. destruct (t =? t0) eqn:Et.
    + apply Z.eqb_eq in Et. subst t. apply In_app_single in H. destruct H as [H|H].
      * left. apply allowed_iff_keys. exact H.
      * right. inversion H. auto.
    + left. apply allowed_iff_keys. exact H.
Qed.
Lemma allowed_after_remove s pk0 r sc0 t0 s' pk sc t : remove_key s pk0 r sc0 t0 = Ok s' ->
  is_key_allowed_for_topic s' pk sc t = true -> is_key_allowed_for_topic s pk sc t = true.
Proof.
  intros Ha H. apply allowed_iff_keys in H. apply allowed_iff_keys.
  unfold remove_key in Ha. apply bind_ok in Ha. destruct Ha as [pairs [_ Ha]]. apply bind_ok in Ha. destruct Ha as [pairs' [_ Ha]].
  destruct (existsb (fun p : Z * addr => fst p =? t0) pairs').
  - assert (E1 : is_topics s' = is_topics s) by (inversion Ha; reflexivity). rewrite <- (keys_of_same _ _ E1). exact H.
  - apply bind_ok in Ha. destruct Ha as [ks [Ek Ha]]. apply of_option_ok in Ek.
    apply bind_ok in Ha. destruct Ha as [ks' [Er Ha]]. apply of_option_ok in Er.
    assert (E1 : is_topics s' = if is_nil ks' then aremove Z.eqb t0 (is_topics s) else aset Z.eqb t0 ks' (is_topics s)) by (inversion Ha; reflexivity).
    unfold keys_of in *. rewrite E1 in H. destruct (is_nil ks') eqn:En.
    + rewrite (aget_aremove _ Z_eqb_spec) in H. destruct (t =? t0); [destruct H | exact H].
    + rewrite (aget_aset _ Z_eqb_spec) in H. destruct (t =? t0) eqn:Et; [|exact H].
      apply Z.eqb_eq in Et. subst t. rewrite Ek. eapply remove_first_incl; eauto.
Qed.

Lemma step_keeps_key_removed c w k i pk scheme t :
  reallows i pk scheme t k = false -> key_not_allowed w i pk scheme t -> key_not_allowed (fst (step c w k)) i pk scheme t.
Proof.
  intros Hu [s [Es Hr]]. destruct (step c w k) as [w' out] eqn:E. cbn [fst].
  pose (P := fun w0 : world => key_not_allowed w0 i pk scheme t).
  assert (HP : P w) by (exists s; auto). change (P w').
  assert (Hsame : forall w1, w_issuers w1 = w_issuers w -> P w1).
  { intros w1 F. exists s. split; auto. unfold the_issuer in *. rewrite F. exact Es. }
  assert (Hiss : forall a s1, the_issuer w a = Ok s1 -> forall s2,
             (is_key_allowed_for_topic s2 pk scheme t = true -> a = i -> is_key_allowed_for_topic s1 pk scheme t = true) ->
             P (set_issuer w a s2)).
  { intros a s1 Ea s2 Hsm. unfold P, key_not_allowed. rewrite the_issuer_set_issuer. destruct (N.eqb i a) eqn:Ei.
    - apply N.eqb_eq in Ei. subst a. rewrite Es in Ea. inversion Ea. subst s1. exists s2. split; auto.
      destruct (is_key_allowed_for_topic s2 pk scheme t) eqn:E2; auto. rewrite (Hsm eq_refl eq_refl) in Hr. discriminate.
    - exists s. auto. }
  destruct k; cbn [step] in E;
    try (unfold pure in E; inversion E; subst; exact HP);
    try (inversion E; subst; apply Hsame; reflexivity);
    try (apply (upd_inv P _ _ _ _ _ E HP); intros s0 _; apply Hsame; reflexivity).
  - match type of E with (match ?x with _ => _ end) = _ => destruct x as [[s' id]|] end; inversion E; subst; [apply Hsame; reflexivity | exact HP].
  - (* AllowKey *)
    apply (upd_inv P _ _ _ _ _ E HP). intros s2 Hs. apply bind_ok in Hs. destruct Hs as [s1 [E1 Hs]]. apply (Hiss _ _ E1).
    intros H2 Hi. subst i0. destruct (allowed_after_allow _ _ _ _ _ _ _ _ _ _ _ Hs H2) as [H|[Hp [Hsc Ht]]]; auto.
    subst. cbn [reallows] in Hu. rewrite N.eqb_refl, (eqb_refl_of _ bytes_eqb_spec), !Z.eqb_refl in Hu. discriminate.
  - (* RemoveKey *)
    apply (upd_inv P _ _ _ _ _ E HP). intros s2 Hs. apply bind_ok in Hs. destruct Hs as [s1 [E1 Hs]]. apply (Hiss _ _ E1).
    intros H2 _. eapply allowed_after_remove; eauto.
  - (* Invalidate *)
    apply (upd_inv P _ _ _ _ _ E HP). intros s2 Hs. apply bind_ok in Hs. destruct Hs as [s1 [E1 Hs]]. apply (Hiss _ _ E1).
    destruct (nonce_after_invalidate _ _ _ _ Hs) as [_ [_ [_ [F1 _]]]]. unfold is_key_allowed_for_topic. rewrite F1. auto.
  - (* SetRevoked *)
    apply (upd_inv P _ _ _ _ _ E HP). intros s2 Hs. apply bind_ok in Hs. destruct Hs as [s1 [E1 Hs]]. inversion Hs. subst s2.
    apply (Hiss _ _ E1). auto.
Qed.

Theorem key_removal_persists c w ks i pk scheme t :
  forallb (fun k => negb (reallows i pk scheme t k)) ks = true ->
  key_not_allowed w i pk scheme t ->
  let w' := run c w ks in
  key_not_allowed w' i pk scheme t /\
  forall d sig data sd, extract_sig scheme sig = Ok sd -> sd_pk sd = pk ->
    call_is_claim_valid c w' i d t scheme sig data = Fail.
Proof.
  intros Hks Hr w'. assert (Hr' : key_not_allowed w' i pk scheme t).
  { subst w'. revert w Hr. induction ks as [|k r IH]; intros w Hr; [exact Hr|].
    cbn [forallb] in Hks. apply andb_true_iff in Hks. destruct Hks as [Hk Hr0]. apply negb_true_iff in Hk.
    unfold run. cbn [fold_left]. apply (IH Hr0). apply step_keeps_key_removed; auto. }
  split; auto. intros d sig data sd Hx Hpk. destruct Hr' as [s [Es Hna]]. unfold call_is_claim_valid. rewrite Es. cbn [bind].
  destruct (is_claim_valid c (w_now w') i s d t scheme sig data) as [[]|] eqn:E; auto.
  apply issuer_iff in E. destruct E as [sd' [ca [vu [p [E1 [E2 _]]]]]]. rewrite Hx in E1. inversion E1. subst sd'.
  rewrite Hpk in E2. congruence.
Qed.
