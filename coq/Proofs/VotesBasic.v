(* C13: first facts about the votes model. *)
From SC Require Import Lib.Prelude Lib.Int Lib.Host Model.Votes.
Open Scope Z_scope.

(* queries about the current or a future ledger are refused *)
Lemma future_refused : forall now s a q, now <= q ->
  get_votes_at now s a q = Fail /\ get_total_supply_at now s q = Fail.
Proof.
  intros now s a q H. unfold get_votes_at, get_total_supply_at, lookup_past.
  destruct (now <=? q) eqn:E; [split; reflexivity|]. apply Z.leb_gt in E. lia.
Qed.
