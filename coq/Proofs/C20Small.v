(* C20 / compliance hook modules and identity-claims index: each refines a plain set / map. *)
From SC Require Import Lib.Prelude Model.SwapPop Model.RegCommon Model.RegSmall Run.C20 Proofs.C20Common.
From Coq Require Import Permutation PeanoNat.
Local Open Scope nat_scope.
Set Implicit Arguments.

(* ========================================================================= *)
(* compliance modules                                                         *)
(* ========================================================================= *)
Section Compliance.
  Variable c : cm_cfg.

  Definition cm_inv (s : cm_state) : Prop := forall h, NoDup (cm_modules s h).
  Definition cm_rel (s : cm_state) (a : cm_state) : Prop := a = s /\ cm_inv s.

  Lemma cm_modules_aset s h l h' :
    cm_modules (aset N.eqb h l s) h' = if N.eqb h' h then l else cm_modules s h'.
  Proof. unfold cm_modules. rewrite (aget_aset N.eqb N.eqb_eq). destruct (N.eqb h' h); reflexivity. Qed.

  Lemma cm_init_inv : cm_inv cm_init.
  Proof. intros h. cbn. constructor. Qed.

  Lemma cm_add_inv s h m : cm_inv s ->
    match cm_add c s h m with
    | Ok s' => s' = aset N.eqb h (cm_modules s h ++ [m]) s /\ cm_inv s'
               /\ memb N.eqb m (cm_modules s h) = false /\ length (cm_modules s h) < cm_max c
    | Fail => memb N.eqb m (cm_modules s h) = true \/ cm_max c <= length (cm_modules s h)
    end.
  Proof.
    intros Hi. unfold cm_add. destruct (memb N.eqb m (cm_modules s h)) eqn:Em; [left; reflexivity|].
    destruct (cm_max c <=? length (cm_modules s h)) eqn:El.
    - apply Nat.leb_le in El. right. auto.
    - apply Nat.leb_gt in El. split; [reflexivity|]. split; [|split; [reflexivity|auto]].
      intros h'. rewrite cm_modules_aset. destruct (N.eqb h' h); auto.
      apply NoDup_snoc; auto. apply (memb_false N.eqb N.eqb_eq). auto.
  Qed.

  Lemma cm_remove_inv s h m : cm_inv s ->
    match cm_remove s h m with
    | Ok s' => s' = aset N.eqb h (rem N.eqb m (cm_modules s h)) s /\ cm_inv s'
               /\ memb N.eqb m (cm_modules s h) = true
    | Fail => memb N.eqb m (cm_modules s h) = false
    end.
  Proof.
    intros Hi. unfold cm_remove. rewrite (index_of_memb N.eqb N.eqb_eq).
    destruct (index_of N.eqb m (cm_modules s h)) as [i|] eqn:E; cbn [negb]; [|reflexivity].
    rewrite (remove_at_index_of N.eqb N.eqb_eq m (Hi h) E).
    split; [reflexivity|]. split; [|reflexivity].
    intros h'. rewrite cm_modules_aset. destruct (N.eqb h' h); auto. apply (rem_NoDup N.eqb N.eqb_eq). auto.
  Qed.

  Lemma cm_spec_sim s a k : cm_rel s a ->
    match cm_step c s k with
    | Ok (s', _) => exists a', cm_spec c a k = Ok a' /\ cm_rel s' a'
    | Fail => cm_spec c a k = Fail
    end.
  Proof.
    intros [-> Hi]. destruct k as [h m|h m]; cbn [cm_step cm_spec].
    - pose proof (cm_add_inv h m Hi) as H. destruct (cm_add c s h m) as [s'|]; cbn [bind].
      + destruct H as (-> & H2 & H3 & H4). rewrite H3.
        replace (cm_max c <=? length (cm_modules s h)) with false by (symmetry; apply Nat.leb_gt; auto).
        cbn [orb]. eexists. split; [reflexivity|]. split; auto.
      + destruct H as [H|H]; [rewrite H; reflexivity|].
        replace (cm_max c <=? length (cm_modules s h)) with true by (symmetry; apply Nat.leb_le; auto).
        rewrite orb_true_r. reflexivity.
    - pose proof (cm_remove_inv h m Hi) as H. destruct (cm_remove s h m) as [s'|]; cbn [bind].
      + destruct H as (-> & H2 & H3). rewrite H3. eexists. split; [reflexivity|]. split; auto.
      + rewrite H. reflexivity.
  Qed.

  Lemma cm_chk_ok s a q : cm_rel s a -> cm_chk a (q, cm_answer s q) = true.
  Proof.
    intros [-> Hi]. destruct q as [h|h m]; cbn [cm_answer cm_chk].
    - apply (enumb_refl N.eqb N.eqb_eq). auto.
    - apply bool_eqb_refl.
  Qed.

  Lemma cm_mon_step s a cq : cm_rel s a ->
    exists a', mon_of (spec_unit (cm_spec c)) cm_chk (fun _ _ => true) a (model_ev (cm_step c) cm_answer s cq) = Some a'
               /\ cm_rel (step_state (cm_step c) s (fst cq)) a'.
  Proof.
    apply (@unit_mon_step _ _ _ _ _ (cm_step c) cm_answer (cm_spec c) cm_chk (fun _ _ => true) cm_rel).
    - intros. apply cm_spec_sim. auto.
    - intros. apply cm_chk_ok. auto.
    - reflexivity.
  Qed.
End Compliance.

(* ========================================================================= *)
(* identity claims                                                            *)
(* ========================================================================= *)
Definition ic_inv (s : ic_state) : Prop :=
  NoDup (map fst (ic_claims s))
  /\ (forall i cl, aget cid_eqb i (ic_claims s) = Some cl -> i = (cl_issuer cl, cl_topic cl))
  /\ (forall t, NoDup (ic_ids_by_topic s t))
  /\ (forall t i, In i (ic_ids_by_topic s t) <-> (ahas cid_eqb i (ic_claims s) = true /\ snd i = t)).
Definition ic_rel (s : ic_state) (a : list (cid * claim)) : Prop := a = ic_claims s /\ ic_inv s.

Lemma ic_init_inv : ic_inv ic_init.
Proof.
  split; [constructor|]. split; [intros i cl H; discriminate|]. split; [intros t; constructor|].
  intros t i. cbn. split; [tauto|intros [H _]; discriminate].
Qed.

Lemma ahas_aset {K V} (eqb : K -> K -> bool) (eqb_spec : forall x y, eqb x y = true <-> x = y)
  k k' (v : V) l : ahas eqb k (aset eqb k' v l) = eqb k k' || ahas eqb k l.
Proof. unfold ahas. rewrite (aget_aset eqb eqb_spec). destruct (eqb k k'); reflexivity. Qed.
Lemma ahas_adel {K V} (eqb : K -> K -> bool) (eqb_spec : forall x y, eqb x y = true <-> x = y)
  k k' (l : list (K * V)) : ahas eqb k (adel eqb k' l) = negb (eqb k k') && ahas eqb k l.
Proof. unfold ahas. rewrite (aget_adel eqb eqb_spec). destruct (eqb k k'); reflexivity. Qed.

Lemma ic_ids_aset s t l t' :
  (match aget N.eqb t' (aset N.eqb t l (ic_topic s)) with Some x => x | None => [] end)
  = if N.eqb t' t then l else ic_ids_by_topic s t'.
Proof. unfold ic_ids_by_topic. rewrite (aget_aset N.eqb N.eqb_eq). destruct (N.eqb t' t); reflexivity. Qed.

Lemma ic_add_inv s cl : ic_inv s ->
  match ic_add s cl true with
  | Ok (s', i) => i = (cl_issuer cl, cl_topic cl) /\ ic_claims s' = aset cid_eqb i cl (ic_claims s) /\ ic_inv s'
  | Fail => False
  end.
Proof.
  intros (Hk & Hc & Hn & Hm). unfold ic_add. cbn [negb].
  set (i := (cl_issuer cl, cl_topic cl)). split; [reflexivity|]. split; [reflexivity|].
  unfold ic_inv. cbn [ic_claims ic_topic]. split; [apply (NoDup_keys_aset cid_eqb cid_eqb_spec); auto|].
  split.
  { intros j cl' H. rewrite (aget_aset cid_eqb cid_eqb_spec) in H. destruct (cid_eqb j i) eqn:E.
    - apply cid_eqb_spec in E. inversion H. subst. reflexivity.
    - apply Hc. auto. }
  destruct (ahas cid_eqb i (ic_claims s)) eqn:Eh; cbn [negb].
  - (* the claim is overwritten: the topic index is untouched *)
    split; [exact Hn|]. intros t j. rewrite (ahas_aset cid_eqb cid_eqb_spec).
    change (ic_ids_by_topic {| ic_claims := aset cid_eqb i cl (ic_claims s); ic_topic := ic_topic s |} t)
      with (ic_ids_by_topic s t).
    rewrite Hm. destruct (cid_eqb j i) eqn:E; cbn [orb]; [|tauto].
    apply cid_eqb_spec in E. subst j. rewrite Eh. tauto.
  - assert (Hids : forall t', ic_ids_by_topic {| ic_claims := aset cid_eqb i cl (ic_claims s);
                        ic_topic := aset N.eqb (cl_topic cl) (ic_ids_by_topic s (cl_topic cl) ++ [i]) (ic_topic s) |} t'
                    = if N.eqb t' (cl_topic cl) then ic_ids_by_topic s (cl_topic cl) ++ [i] else ic_ids_by_topic s t').
    { intros t'. unfold ic_ids_by_topic at 1. cbn [ic_topic]. apply ic_ids_aset. }
    split.
    + intros t. rewrite Hids. destruct (N.eqb t (cl_topic cl)); auto.
      apply NoDup_snoc; auto. intros Hin. apply Hm in Hin. destruct Hin as [Hin _]. congruence.
    + intros t j. rewrite Hids, (ahas_aset cid_eqb cid_eqb_spec).
      destruct (N.eqb t (cl_topic cl)) eqn:Et.
      * apply N.eqb_eq in Et. subst t. rewrite in_app_iff, Hm. cbn [In].
        destruct (cid_eqb j i) eqn:E; cbn [orb].
        -- apply cid_eqb_spec in E. subst j. cbn. tauto.
        -- apply (eqb_neq cid_eqb cid_eqb_spec) in E. split; [intros [H|[H|[]]]; [tauto|congruence]|tauto].
      * apply N.eqb_neq in Et. rewrite Hm. destruct (cid_eqb j i) eqn:E; cbn [orb]; [|tauto].
        apply cid_eqb_spec in E. subst j. cbn [snd i]. rewrite Eh. split; [intros [H _]; discriminate|].
        intros [_ H]. unfold i in H. cbn in H. congruence.
Qed.

Lemma ic_remove_inv s i : ic_inv s ->
  match ic_remove s i with
  | Ok s' => ahas cid_eqb i (ic_claims s) = true /\ ic_claims s' = adel cid_eqb i (ic_claims s) /\ ic_inv s'
  | Fail => ahas cid_eqb i (ic_claims s) = false
  end.
Proof.
  intros (Hk & Hc & Hn & Hm). unfold ic_remove, ic_get_claim, ahas.
  destruct (aget cid_eqb i (ic_claims s)) as [cl|] eqn:Eg; cbn [of_option bind]; [|reflexivity].
  split; [reflexivity|]. split; [reflexivity|].
  pose proof (Hc i cl Eg) as Ei.
  assert (Hin : In i (ic_ids_by_topic s (cl_topic cl))).
  { apply Hm. unfold ahas. rewrite Eg. split; auto. rewrite Ei. reflexivity. }
  destruct (index_of_In cid_eqb cid_eqb_spec i _ Hin) as [p Ep]. rewrite Ep.
  rewrite (remove_at_index_of cid_eqb cid_eqb_spec i (Hn (cl_topic cl)) Ep).
  set (t0 := cl_topic cl) in *.
  assert (Hids : forall t',
     ic_ids_by_topic {| ic_claims := adel cid_eqb i (ic_claims s);
                        ic_topic := match rem cid_eqb i (ic_ids_by_topic s t0) with
                                    | [] => adel N.eqb t0 (ic_topic s)
                                    | (_ :: _) as l' => aset N.eqb t0 l' (ic_topic s)
                                    end |} t'
     = if N.eqb t' t0 then rem cid_eqb i (ic_ids_by_topic s t0) else ic_ids_by_topic s t').
  { intros t'. unfold ic_ids_by_topic at 1. cbn [ic_topic].
    destruct (rem cid_eqb i (ic_ids_by_topic s t0)) as [|x r] eqn:Er.
    - rewrite (aget_adel N.eqb N.eqb_eq). destruct (N.eqb t' t0); reflexivity.
    - apply ic_ids_aset. }
  unfold ic_inv. cbn [ic_claims]. split; [apply (NoDup_keys_adel cid_eqb cid_eqb_spec); auto|]. split.
  { intros j cl' H. rewrite (aget_adel cid_eqb cid_eqb_spec) in H. destruct (cid_eqb j i); [discriminate|]. apply Hc. auto. }
  split.
  - intros t. rewrite Hids. destruct (N.eqb t t0); auto. apply (rem_NoDup cid_eqb cid_eqb_spec). auto.
  - intros t j. rewrite Hids, (ahas_adel cid_eqb cid_eqb_spec).
    destruct (N.eqb t t0) eqn:Et.
    + apply N.eqb_eq in Et. subst t. rewrite (rem_In cid_eqb cid_eqb_spec), Hm.
      destruct (cid_eqb j i) eqn:E; cbn [negb andb].
      * apply cid_eqb_spec in E. subst. split; [tauto|intros [H _]; discriminate].
      * apply (eqb_neq cid_eqb cid_eqb_spec) in E. tauto.
    + rewrite Hm. destruct (cid_eqb j i) eqn:E; cbn [negb andb]; [|tauto].
      apply cid_eqb_spec in E. subst j. apply N.eqb_neq in Et.
      split; [|intros [H _]; discriminate]. intros [_ H]. exfalso. apply Et. rewrite <- H, Ei. reflexivity.
Qed.

Lemma ic_spec_sim s a k : ic_rel s a ->
  exists a', ic_spec a k (step_out ic_step s k) = Some a' /\ ic_rel (step_state ic_step s k) a'.
Proof.
  intros [-> Hi]. unfold step_out, step_state. destruct k as [cl valid|i]; cbn [ic_step ic_spec].
  - destruct valid.
    + pose proof (ic_add_inv cl Hi) as H. destruct (ic_add s cl true) as [[s' j]|]; [|contradiction].
      cbn [bind fst snd]. destruct H as (-> & E2 & E3).
      rewrite (proj2 (cid_eqb_spec _ _) eq_refl). cbn [andb]. eexists. split; [reflexivity|].
      split; auto.
    + cbn [ic_add negb bind]. eexists. split; [reflexivity|]. split; auto.
  - pose proof (ic_remove_inv i Hi) as H. destruct (ic_remove s i) as [s'|]; cbn [bind].
    + destruct H as (E1 & E2 & E3). rewrite E1. eexists. split; [reflexivity|]. split; auto.
    + rewrite H. eexists. split; [reflexivity|]. split; auto.
Qed.

Lemma ic_chk_ok s a q : ic_rel s a -> ic_chk a (q, ic_answer s q) = true.
Proof.
  intros [-> (Hk & Hc & Hn & Hm)]. destruct q as [i|t]; cbn [ic_answer ic_chk].
  - unfold ic_get_claim. apply res_eqb_refl. intros o. apply claim_eqb_spec. reflexivity.
  - apply (enumb_spec cid_eqb cid_eqb_spec). split; [apply Hn|].
    intros i. rewrite Hm. rewrite in_map_iff. split.
    + intros [Hh Ht]. unfold ahas in Hh. destruct (aget cid_eqb i (ic_claims s)) as [cl|] eqn:Eg; [|discriminate].
      exists (i, cl). split; auto. apply filter_In. split.
      * apply (aget_In cid_eqb cid_eqb_spec i cl _ Hk). auto.
      * cbn [snd]. apply N.eqb_eq. rewrite (Hc i cl Eg) in Ht. cbn in Ht. auto.
    + intros [[j cl] [Ej Hin]]. cbn in Ej. subst j. apply filter_In in Hin. destruct Hin as [Hin Ht].
      cbn [snd] in Ht. apply N.eqb_eq in Ht.
      apply (aget_In cid_eqb cid_eqb_spec i cl _ Hk) in Hin. unfold ahas. rewrite Hin. split; auto.
      rewrite (Hc i cl Hin). cbn. auto.
Qed.

Lemma ic_mon_step s a cq : ic_rel s a ->
  exists a', mon_of ic_spec ic_chk (fun _ _ => true) a (model_ev ic_step ic_answer s cq) = Some a'
             /\ ic_rel (step_state ic_step s (fst cq)) a'.
Proof.
  apply (@val_mon_step _ _ _ _ _ _ ic_step ic_answer ic_spec ic_chk (fun _ _ => true) ic_rel).
  - intros. apply ic_spec_sim. auto.
  - intros. apply ic_chk_ok. auto.
  - reflexivity.
Qed.
