(* C13: the votes state - what delegate / transfer_voting_units do to the views
   (units, delegatee, current votes, vote supply, timelines). *)
From SC Require Import Lib.Prelude Lib.Int Lib.Host Model.Votes Proofs.VotesTimeline.
Open Scope Z_scope.

Definition votes_of (s : vstate) (d : addr) : Z := latest (tl_of s d).
Definition supply_of (s : vstate) : Z := latest (v_ts s).
Definition ind (b : bool) (x : Z) : Z := if b then x else 0.

(* ---------- boolean equalities ---------- *)
Lemma oaddr_eqb_eq a b : oaddr_eqb a b = true <-> a = b.
Proof.
  destruct a as [x|], b as [y|]; cbn [oaddr_eqb]; split; intros H; try discriminate; try reflexivity.
  - apply N.eqb_eq in H. subst. reflexivity.
  - inversion H. apply N.eqb_refl.
Qed.
Lemma oaddr_eqb_neq a b : oaddr_eqb a b = false <-> a <> b.
Proof.
  split; intros H.
  - intros E. apply oaddr_eqb_eq in E. congruence.
  - destruct (oaddr_eqb a b) eqn:E; [apply oaddr_eqb_eq in E; contradiction|reflexivity].
Qed.
Lemma oaddr_eqb_refl a : oaddr_eqb a a = true.
Proof. apply oaddr_eqb_eq. reflexivity. Qed.

(* turn every boolean test in sight into a proposition, then decide *)
Ltac bool_hyps :=
  repeat match goal with
  | H : N.eqb _ _ = true |- _ => apply N.eqb_eq in H
  | H : N.eqb _ _ = false |- _ => apply N.eqb_neq in H
  | H : oaddr_eqb _ _ = true |- _ => apply oaddr_eqb_eq in H
  | H : oaddr_eqb _ _ = false |- _ => apply oaddr_eqb_neq in H
  | H : Z.eqb _ _ = true |- _ => apply Z.eqb_eq in H
  | H : Z.eqb _ _ = false |- _ => apply Z.eqb_neq in H
  | H : Z.leb _ _ = true |- _ => apply Z.leb_le in H
  | H : Z.leb _ _ = false |- _ => apply Z.leb_gt in H
  | H : Z.ltb _ _ = true |- _ => apply Z.ltb_lt in H
  | H : Z.ltb _ _ = false |- _ => apply Z.ltb_ge in H
  | H : Some _ = Some _ |- _ => inversion H; clear H
  end.
Ltac case_ifs :=
  repeat match goal with
  | |- context [if ?b then _ else _] => destruct b eqn:?
  end.
Ltac decide_ifs := unfold ind in *; case_ifs; bool_hyps; subst; try congruence; try lia.

(* ---------- views through the setters ---------- *)
Lemma units_of_set_units s a u b : units_of (set_units s a u) b = if N.eqb b a then u else units_of s b.
Proof.
  unfold units_of, set_units. cbn [v_units].
  destruct (N.eqb b a) eqn:E.
  - apply N.eqb_eq in E. subst b. destruct (u =? 0) eqn:Eu.
    + rewrite alist_get_remove_eq. apply Z.eqb_eq in Eu. lia.
    + rewrite alist_get_set_eq. reflexivity.
  - apply N.eqb_neq in E. destruct (u =? 0).
    + rewrite alist_get_remove_neq by exact E. reflexivity.
    + rewrite alist_get_set_neq by exact E. reflexivity.
Qed.
Lemma delegate_of_set_units s a u b : delegate_of (set_units s a u) b = delegate_of s b.
Proof. reflexivity. Qed.
Lemma tl_of_set_units s a u b : tl_of (set_units s a u) b = tl_of s b.
Proof. reflexivity. Qed.
Lemma v_ts_set_units s a u : v_ts (set_units s a u) = v_ts s.
Proof. reflexivity. Qed.

Lemma delegate_of_set_delegate s a d b :
  delegate_of (set_delegate s a d) b = if N.eqb b a then Some d else delegate_of s b.
Proof.
  unfold delegate_of, set_delegate. cbn [v_dlg]. destruct (N.eqb b a) eqn:E.
  - apply N.eqb_eq in E. subst. apply alist_get_set_eq.
  - apply N.eqb_neq in E. apply alist_get_set_neq. exact E.
Qed.
Lemma units_of_set_delegate s a d b : units_of (set_delegate s a d) b = units_of s b.
Proof. reflexivity. Qed.
Lemma tl_of_set_delegate s a d b : tl_of (set_delegate s a d) b = tl_of s b.
Proof. reflexivity. Qed.
Lemma v_ts_set_delegate s a d : v_ts (set_delegate s a d) = v_ts s.
Proof. reflexivity. Qed.

Lemma units_of_set_tl s ct t b : units_of (set_tl s ct t) b = units_of s b.
Proof. destruct ct; reflexivity. Qed.
Lemma delegate_of_set_tl s ct t b : delegate_of (set_tl s ct t) b = delegate_of s b.
Proof. destruct ct; reflexivity. Qed.
Lemma tl_of_set_tl_total s t b : tl_of (set_tl s CTotal t) b = tl_of s b.
Proof. reflexivity. Qed.
Lemma v_ts_set_tl_total s t : v_ts (set_tl s CTotal t) = t.
Proof. reflexivity. Qed.
Lemma tl_of_set_tl_acct s a t b : tl_of (set_tl s (CAcct a) t) b = if N.eqb b a then t else tl_of s b.
Proof.
  unfold tl_of, set_tl. cbn [v_cps]. destruct (N.eqb b a) eqn:E.
  - apply N.eqb_eq in E. subst. rewrite alist_get_set_eq. reflexivity.
  - apply N.eqb_neq in E. rewrite alist_get_set_neq by exact E. reflexivity.
Qed.
Lemma v_ts_set_tl_acct s a t : v_ts (set_tl s (CAcct a) t) = v_ts s.
Proof. reflexivity. Qed.

(* ---------- checked u128 arithmetic ---------- *)
Lemma apply_op_inv prev op d v : apply_checkpoint_op prev op d = Ok v ->
  v = (match op with OpAdd => prev + d | OpSub => prev - d end) /\ 0 <= v <= MAXU128.
Proof.
  unfold apply_checkpoint_op, checked_add_u128, checked_sub_u128, in_u128. destruct op.
  - destruct ((0 <=? prev + d) && (prev + d <=? MAXU128)) eqn:E; cbn [of_option]; [|discriminate].
    intros H; inversion H; subst. apply andb_prop in E. destruct E. split; [reflexivity|lia].
  - destruct ((0 <=? prev - d) && (prev - d <=? MAXU128)) eqn:E; cbn [of_option]; [|discriminate].
    intros H; inversion H; subst. apply andb_prop in E. destruct E. split; [reflexivity|lia].
Qed.
Lemma checked_sub_u128_inv a b v : checked_sub_u128 a b = Some v -> v = a - b /\ 0 <= v <= MAXU128.
Proof.
  unfold checked_sub_u128, in_u128. destruct ((0 <=? a - b) && (a - b <=? MAXU128)) eqn:E; [|discriminate].
  intros H; inversion H; subst. apply andb_prop in E. destruct E. split; [reflexivity|lia].
Qed.
Lemma checked_add_u128_inv a b v : checked_add_u128 a b = Some v -> v = a + b /\ 0 <= v <= MAXU128.
Proof.
  unfold checked_add_u128, in_u128. destruct ((0 <=? a + b) && (a + b <=? MAXU128)) eqn:E; [|discriminate].
  intros H; inversion H; subst. apply andb_prop in E. destruct E. split; [reflexivity|lia].
Qed.

(* ---------- push on a state ---------- *)
Lemma push_spec now s ct op d s' : 0 <= now -> push now s ct op d = Ok s' ->
  exists t', s' = set_tl s ct t' /\ tl_ext now (get_tl s ct) t' /\
             latest t' = (match op with OpAdd => latest (get_tl s ct) + d | OpSub => latest (get_tl s ct) - d end) /\
             0 <= latest t' <= MAXU128.
Proof.
  intros Hnow. unfold push.
  destruct (push_checkpoint now (get_tl s ct) op d) as [[t' pv]|] eqn:E; cbn [bind]; [|discriminate].
  intros H; inversion H; subst; clear H. cbn [fst].
  destruct (push_checkpoint_ext now _ _ _ _ _ Hnow E) as [Hext [Hl [_ [Hop _]]]].
  apply apply_op_inv in Hop. destruct Hop as [Hv Hr].
  exists t'. split; [reflexivity|]. split; [exact Hext|]. rewrite Hl. split; [exact Hv|exact Hr].
Qed.

(* every account timeline and the supply timeline only grow by pushes at [now] *)
Definition vext (now : Z) (s s' : vstate) : Prop :=
  (forall a, tl_ext now (tl_of s a) (tl_of s' a)) /\ tl_ext now (v_ts s) (v_ts s').
Lemma vext_refl now s : vext now s s.
Proof. split; intros; apply tl_ext_refl. Qed.
Lemma vext_trans now s1 s2 s3 : vext now s1 s2 -> vext now s2 s3 -> vext now s1 s3.
Proof. intros [A1 B1] [A2 B2]. split; intros; eapply tl_ext_trans; eauto. Qed.

Lemma push_acct_vext now s a t' : tl_ext now (tl_of s a) t' -> vext now s (set_tl s (CAcct a) t').
Proof.
  intros H. split.
  - intros b. rewrite tl_of_set_tl_acct. destruct (N.eqb b a) eqn:E; [apply N.eqb_eq in E; subst; exact H|apply tl_ext_refl].
  - apply tl_ext_refl.
Qed.
Lemma push_total_vext now s t' : tl_ext now (v_ts s) t' -> vext now s (set_tl s CTotal t').
Proof. intros H. split; [intros b; apply tl_ext_refl|exact H]. Qed.

(* ---------- move_delegate_votes ---------- *)
Lemma mdv_spec now s from to amt s' : 0 <= now ->
  move_delegate_votes now s from to amt = Ok s' ->
  (forall a, units_of s' a = units_of s a) /\
  (forall a, delegate_of s' a = delegate_of s a) /\
  v_ts s' = v_ts s /\
  vext now s s' /\
  (forall d, votes_of s' d = votes_of s d +
     (if (amt =? 0) || oaddr_eqb from to then 0
      else - ind (oaddr_eqb from (Some d)) amt + ind (oaddr_eqb to (Some d)) amt)).
Proof.
  intros Hnow. unfold move_delegate_votes.
  destruct (amt =? 0) eqn:Ea.
  { intros H; inversion H; subst. cbn [orb]. repeat split; auto; try apply tl_ext_refl. intros; lia. }
  destruct (oaddr_eqb from to) eqn:Eft.
  { intros H; inversion H; subst. cbn [orb]. repeat split; auto; try apply tl_ext_refl. intros; lia. }
  cbn [orb].
  destruct from as [f|]; destruct to as [t|].
  - destruct (push now s (CAcct f) OpSub amt) as [s1|] eqn:E1; cbn [bind]; [|discriminate].
    intros E2.
    destruct (push_spec _ _ _ _ _ _ Hnow E1) as [t1 [-> [X1 [L1 _]]]].
    destruct (push_spec _ _ _ _ _ _ Hnow E2) as [t2 [-> [X2 [L2 _]]]].
    cbn [get_tl] in *. rewrite tl_of_set_tl_acct in X2, L2.
    assert (Hne : t <> f) by (intros ->; rewrite oaddr_eqb_refl in Eft; discriminate).
    replace (N.eqb t f) with false in * by (symmetry; apply N.eqb_neq; exact Hne).
    split; [intros; rewrite !units_of_set_tl; reflexivity|].
    split; [intros; rewrite !delegate_of_set_tl; reflexivity|].
    split; [reflexivity|].
    split.
    { eapply vext_trans; [apply push_acct_vext; exact X1|apply push_acct_vext].
      rewrite tl_of_set_tl_acct. replace (N.eqb t f) with false by (symmetry; apply N.eqb_neq; exact Hne). exact X2. }
    intros d. unfold votes_of. rewrite !tl_of_set_tl_acct. cbn [oaddr_eqb].
    destruct (N.eqb d t) eqn:Edt; destruct (N.eqb d f) eqn:Edf; bool_hyps; subst; try congruence;
      rewrite ?N.eqb_refl; unfold ind;
      repeat match goal with |- context [N.eqb ?x ?y] => let E := fresh in destruct (N.eqb x y) eqn:E; bool_hyps; subst; try congruence end; lia.
  - destruct (push now s (CAcct f) OpSub amt) as [s1|] eqn:E1; cbn [bind]; [|discriminate].
    intros H; inversion H; subst; clear H.
    destruct (push_spec _ _ _ _ _ _ Hnow E1) as [t1 [-> [X1 [L1 _]]]]. cbn [get_tl] in *.
    split; [intros; rewrite !units_of_set_tl; reflexivity|].
    split; [intros; rewrite !delegate_of_set_tl; reflexivity|].
    split; [reflexivity|].
    split; [apply push_acct_vext; exact X1|].
    intros d. unfold votes_of. rewrite tl_of_set_tl_acct. cbn [oaddr_eqb]. unfold ind.
    destruct (N.eqb d f) eqn:Edf; bool_hyps; subst; rewrite ?N.eqb_refl.
    + lia.
    + replace (N.eqb f d) with false by (symmetry; apply N.eqb_neq; congruence). lia.
  - cbn [bind]. intros E2.
    destruct (push_spec _ _ _ _ _ _ Hnow E2) as [t2 [-> [X2 [L2 _]]]]. cbn [get_tl] in *.
    split; [intros; rewrite !units_of_set_tl; reflexivity|].
    split; [intros; rewrite !delegate_of_set_tl; reflexivity|].
    split; [reflexivity|].
    split; [apply push_acct_vext; exact X2|].
    intros d. unfold votes_of. rewrite tl_of_set_tl_acct. cbn [oaddr_eqb]. unfold ind.
    destruct (N.eqb d t) eqn:Edt; bool_hyps; subst; rewrite ?N.eqb_refl.
    + lia.
    + replace (N.eqb t d) with false by (symmetry; apply N.eqb_neq; congruence). lia.
  - cbn [oaddr_eqb] in Eft. discriminate.
Qed.

(* ---------- transfer_voting_units ---------- *)
Definition odelegate (s : vstate) (o : option addr) : option addr :=
  match o with Some a => delegate_of s a | None => None end.
Definition is_none_addr (o : option addr) : bool := match o with None => true | Some _ => false end.

Lemma tvu_spec now s from to amt s' : 0 <= now -> amt <> 0 ->
  transfer_voting_units now s from to amt = Ok s' ->
  (forall a, delegate_of s' a = delegate_of s a) /\
  (forall a, units_of s' a = units_of s a - ind (oaddr_eqb from (Some a)) amt + ind (oaddr_eqb to (Some a)) amt) /\
  (forall f, from = Some f -> 0 <= units_of s f - amt) /\
  (forall t, to = Some t -> 0 <= units_of s' t <= MAXU128) /\
  supply_of s' = supply_of s + ind (is_none_addr from) amt - ind (is_none_addr to) amt /\
  (forall d, votes_of s' d = votes_of s d +
     (if oaddr_eqb (odelegate s from) (odelegate s to) then 0
      else - ind (oaddr_eqb (odelegate s from) (Some d)) amt + ind (oaddr_eqb (odelegate s to) (Some d)) amt)) /\
  vext now s s' /\
  (0 <= supply_of s <= MAXU128 -> 0 <= supply_of s' <= MAXU128).
Proof.
  intros Hnow Hamt. unfold transfer_voting_units.
  replace (amt =? 0) with false by (symmetry; apply Z.eqb_neq; exact Hamt).
  fold (odelegate s from). fold (odelegate s to).
  (* first half: debit `from` or push the supply up *)
  set (step1 := match from with
                | Some f => do nu <- of_option (checked_sub_u128 (units_of s f) amt); Ok (set_units s f nu)
                | None => push now s CTotal OpAdd amt end).
  destruct step1 as [s1|] eqn:E1; cbn [bind]; [|discriminate]. subst step1.
  set (step2 := match to with
                | Some t => do nu <- of_option (checked_add_u128 (units_of s1 t) amt); Ok (set_units s1 t nu)
                | None => push now s1 CTotal OpSub amt end).
  destruct step2 as [s2|] eqn:E2; cbn [bind]; [|discriminate]. subst step2.
  intros E3.
  destruct (mdv_spec _ _ _ _ _ _ Hnow E3) as [M1 [M2 [M3 [M4 M5]]]].
  replace (amt =? 0) with false in M5 by (symmetry; apply Z.eqb_neq; exact Hamt). cbn [orb] in M5.
  (* facts about s1 *)
  assert (S1 : (forall a, delegate_of s1 a = delegate_of s a) /\
               (forall a, units_of s1 a = units_of s a - ind (oaddr_eqb from (Some a)) amt) /\
               (forall f, from = Some f -> 0 <= units_of s f - amt) /\
               (forall a, tl_of s1 a = tl_of s a) /\
               tl_ext now (v_ts s) (v_ts s1) /\
               latest (v_ts s1) = latest (v_ts s) + ind (is_none_addr from) amt /\
               (0 <= latest (v_ts s) <= MAXU128 -> 0 <= latest (v_ts s1) <= MAXU128)).
  { destruct from as [f|].
    - destruct (checked_sub_u128 (units_of s f) amt) as [nu|] eqn:Ec; cbn [of_option bind] in E1; [|discriminate].
      inversion E1; subst s1; clear E1. apply checked_sub_u128_inv in Ec. destruct Ec as [-> Hr].
      split; [intros; reflexivity|]. split.
      { intros a. rewrite units_of_set_units. cbn [oaddr_eqb]. unfold ind.
        destruct (N.eqb a f) eqn:E; bool_hyps; subst; rewrite ?N.eqb_refl; [lia|].
        replace (N.eqb f a) with false by (symmetry; apply N.eqb_neq; congruence). lia. }
      split; [intros f0 H; inversion H; subst; lia|].
      split; [intros; reflexivity|]. split; [apply tl_ext_refl|]. cbn [is_none_addr ind v_ts set_units]. split; [lia|auto].
    - destruct (push_spec _ _ _ _ _ _ Hnow E1) as [t1 [-> [X1 [L1 R1]]]]. cbn [get_tl] in *.
      split; [intros; rewrite delegate_of_set_tl; reflexivity|].
      split; [intros; rewrite units_of_set_tl; cbn [oaddr_eqb ind]; lia|].
      split; [intros f0 H; discriminate|].
      split; [intros; reflexivity|]. split; [exact X1|]. cbn [is_none_addr ind]. split; [exact L1|intros _; exact R1]. }
  destruct S1 as [A1 [A2 [A3 [A4 [A5 [A6 A7]]]]]].
  assert (S2 : (forall a, delegate_of s2 a = delegate_of s1 a) /\
               (forall a, units_of s2 a = units_of s1 a + ind (oaddr_eqb to (Some a)) amt) /\
               (forall t, to = Some t -> 0 <= units_of s2 t <= MAXU128) /\
               (forall a, tl_of s2 a = tl_of s1 a) /\
               tl_ext now (v_ts s1) (v_ts s2) /\
               latest (v_ts s2) = latest (v_ts s1) - ind (is_none_addr to) amt /\
               (0 <= latest (v_ts s1) <= MAXU128 -> 0 <= latest (v_ts s2) <= MAXU128)).
  { destruct to as [t|].
    - destruct (checked_add_u128 (units_of s1 t) amt) as [nu|] eqn:Ec; cbn [of_option bind] in E2; [|discriminate].
      inversion E2; subst s2; clear E2. apply checked_add_u128_inv in Ec. destruct Ec as [-> Hr].
      split; [intros; reflexivity|]. split.
      { intros a. rewrite units_of_set_units. cbn [oaddr_eqb]. unfold ind.
        destruct (N.eqb a t) eqn:E; bool_hyps; subst; rewrite ?N.eqb_refl; [lia|].
        replace (N.eqb t a) with false by (symmetry; apply N.eqb_neq; congruence). lia. }
      split; [intros t0 H; inversion H; subst; rewrite units_of_set_units, N.eqb_refl; lia|].
      split; [intros; reflexivity|]. split; [apply tl_ext_refl|]. cbn [is_none_addr ind v_ts set_units]. split; [lia|auto].
    - destruct (push_spec _ _ _ _ _ _ Hnow E2) as [t2 [-> [X2 [L2 R2]]]]. cbn [get_tl] in *.
      split; [intros; rewrite delegate_of_set_tl; reflexivity|].
      split; [intros; rewrite units_of_set_tl; cbn [oaddr_eqb ind]; lia|].
      split; [intros t0 H; discriminate|].
      split; [intros; reflexivity|]. split; [exact X2|]. cbn [is_none_addr ind]. split; [exact L2|intros _; exact R2]. }
  destruct S2 as [B1 [B2 [B3 [B4 [B5 [B6 B7]]]]]].
  split; [intros a; rewrite M2, B1, A1; reflexivity|].
  split; [intros a; rewrite M1, B2, A2; lia|].
  split; [exact A3|].
  split; [intros t Ht; rewrite M1; apply B3; exact Ht|].
  split; [unfold supply_of; rewrite M3, B6, A6; lia|].
  split.
  { intros d. rewrite M5. unfold votes_of. rewrite B4, A4. reflexivity. }
  destruct M4 as [M4a M4b]. split; [split|].
  - intros a. eapply tl_ext_trans; [|apply M4a]. rewrite B4, A4. apply tl_ext_refl.
  - rewrite M3. eapply tl_ext_trans; eauto.
  - unfold supply_of. rewrite M3. intros R. apply B7, A7, R.
Qed.

Lemma tvu_zero now s from to s' : transfer_voting_units now s from to 0 = Ok s' -> s' = s.
Proof. unfold transfer_voting_units. rewrite Z.eqb_refl. intros H; inversion H; reflexivity. Qed.

(* ---------- delegate ---------- *)
Lemma delegate_spec now auths s acc d s' : 0 <= now ->
  delegate now auths s acc d = Ok s' ->
  has_auth auths acc = true /\ delegate_of s acc <> Some d /\
  (forall a, delegate_of s' a = if N.eqb a acc then Some d else delegate_of s a) /\
  (forall a, units_of s' a = units_of s a) /\
  v_ts s' = v_ts s /\
  (forall x, votes_of s' x = votes_of s x
                             - ind (oaddr_eqb (delegate_of s acc) (Some x)) (units_of s acc)
                             + ind (N.eqb d x) (units_of s acc)) /\
  vext now s s'.
Proof.
  intros Hnow. unfold delegate.
  destruct (has_auth auths acc) eqn:Ha; cbn [guard bind]; [|discriminate].
  destruct (oaddr_eqb (delegate_of s acc) (Some d)) eqn:Eo; cbn [negb guard bind]; [discriminate|].
  intros E. destruct (mdv_spec _ _ _ _ _ _ Hnow E) as [M1 [M2 [M3 [M4 M5]]]].
  rewrite units_of_set_delegate in M5. rewrite Eo in M5.
  split; [reflexivity|]. split; [apply oaddr_eqb_neq; exact Eo|].
  split; [intros a; rewrite M2; apply delegate_of_set_delegate|].
  split; [intros a; rewrite M1; reflexivity|].
  split; [rewrite M3; reflexivity|].
  split.
  { intros x. rewrite M5. cbn [oaddr_eqb]. unfold votes_of. rewrite tl_of_set_delegate.
    destruct (units_of s acc =? 0) eqn:Eu; cbn [orb]; [apply Z.eqb_eq in Eu; rewrite Eu; unfold ind; case_ifs; lia|lia]. }
  destruct M4 as [M4a M4b]. split; [intros a; apply M4a|exact M4b].
Qed.

(* ---------- finite sums over a duplicate-free universe ---------- *)
Definition sumf (f : addr -> Z) (U : list addr) : Z := sum_list (map f U).

Lemma sumf_cons f x U : sumf f (x :: U) = f x + sumf f U.
Proof. reflexivity. Qed.
Lemma sumf_ext f g U : (forall a, In a U -> f a = g a) -> sumf f U = sumf g U.
Proof.
  unfold sumf. induction U as [|x U IH]; intros H; [reflexivity|]. cbn [map sum_list fold_right].
  rewrite (H x) by (left; reflexivity). fold (sum_list (map f U)). fold (sum_list (map g U)).
  rewrite IH; [reflexivity|]. intros; apply H; right; assumption.
Qed.
Lemma sumf_add f g U : sumf (fun a => f a + g a) U = sumf f U + sumf g U.
Proof.
  unfold sumf. induction U as [|x U IH]; [reflexivity|]. cbn [map sum_list fold_right].
  fold (sum_list (map f U)). fold (sum_list (map g U)). fold (sum_list (map (fun a => f a + g a) U)). lia.
Qed.
Lemma sumf_sub f g U : sumf (fun a => f a - g a) U = sumf f U - sumf g U.
Proof.
  unfold sumf. induction U as [|x U IH]; [reflexivity|]. cbn [map sum_list fold_right].
  fold (sum_list (map f U)). fold (sum_list (map g U)). fold (sum_list (map (fun a => f a - g a) U)). lia.
Qed.
Lemma sumf_zero U : sumf (fun _ => 0) U = 0.
Proof. unfold sumf. induction U as [|x U IH]; [reflexivity|]. cbn [map sum_list fold_right]. fold (sum_list (map (fun _ : addr => 0) U)). lia. Qed.

(* the sum of a function supported on at most the single point [o] *)
Lemma sumf_pick U (o : option addr) (g : addr -> Z) : NoDup U ->
  (forall f, o = Some f -> In f U) ->
  sumf (fun a => ind (oaddr_eqb o (Some a)) (g a)) U = match o with Some f => g f | None => 0 end.
Proof.
  intros Hnd Hin. destruct o as [f|].
  2:{ rewrite (sumf_ext _ (fun _ => 0)); [apply sumf_zero|reflexivity]. }
  specialize (Hin f eq_refl). induction U as [|x U IH]; [destruct Hin|].
  rewrite sumf_cons.
  inversion Hnd as [|? ? Hnotin Hnd']; subst. cbn [oaddr_eqb] in *. unfold ind at 1.
  destruct (N.eqb f x) eqn:E.
  - apply N.eqb_eq in E. subst x.
    rewrite (sumf_ext _ (fun _ => 0)); [rewrite sumf_zero; lia|].
    intros a Ha. cbn [oaddr_eqb]. unfold ind. destruct (N.eqb f a) eqn:E2; [apply N.eqb_eq in E2; subst; contradiction|reflexivity].
  - apply N.eqb_neq in E. destruct Hin as [->|Hin]; [contradiction|]. rewrite IH by assumption. lia.
Qed.
