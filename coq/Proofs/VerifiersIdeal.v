(* C18 - what acceptance implies when the oracles are idealised: a collision-free hash with
   32-byte output and a signature that validates a single digest under a key.  (Real SHA-256
   and ECDSA satisfy these only computationally; the section is closed by an instance showing
   the hypotheses are consistent.) *)
From SC Require Import Lib.Prelude Lib.Int Model.Base64 Model.Verifiers Proofs.Base64 Proofs.Verifiers.
From Coq Require Import Arith.Cantor.

Lemma app_same_tail_length : forall (A : Type) (l1 l2 t1 t2 : list A),
  l1 ++ t1 = l2 ++ t2 -> length t1 = length t2 -> l1 = l2 /\ t1 = t2.
Proof.
  intros A l1. induction l1 as [|x l1 IH]; intros l2 t1 t2 E L.
  - destruct l2 as [|y l2]; [auto|]. cbn [app] in E. subst t1. cbn [length] in L. rewrite app_length in L. lia.
  - destruct l2 as [|y l2].
    + cbn [app] in E. subst t2. cbn [length] in L. rewrite app_length in L. lia.
    + cbn [app] in E. injection E as -> E. destruct (IH l2 t1 t2 E L) as [-> ->]. auto.
Qed.

Section Ideal.
  Variable c : cfg.
  Variable parse : list Z -> option (list Z * list Z).
  Variable sha256 : list Z -> list Z.
  Variable pv : list Z -> list Z -> list Z -> bool.
  Hypothesis sha_len : forall m, length (sha256 m) = 32%nat.
  Hypothesis sha_inj : forall a b, sha256 a = sha256 b -> a = b.
  Hypothesis sig_one_digest : forall k s d1 d2, pv k d1 s = true -> pv k d2 s = true -> d1 = d2.

  (* one signature under one key authorises one (authenticator data, client data, payload) *)
  Theorem signed_bytes_bound : forall p1 p2 key sig ad1 ad2 cd1 cd2,
    bytes_ok p1 = true -> bytes_ok p2 = true ->
    wa_verify c parse sha256 pv p1 key sig ad1 cd1 = Ok true ->
    wa_verify c parse sha256 pv p2 key sig ad2 cd2 = Ok true ->
    ad1 = ad2 /\ cd1 = cd2 /\ firstn 32 p1 = firstn 32 p2.
  Proof.
    intros p1 p2 key sig ad1 ad2 cd1 cd2 B1 B2 H1 H2.
    pose proof H1 as G1. pose proof H2 as G2.
    apply (wa_verify_iff c parse sha256 pv p1 key sig ad1 cd1 B1) in G1.
    apply (wa_verify_iff c parse sha256 pv p2 key sig ad2 cd2 B2) in G2.
    destruct G1 as (_ & _ & _ & _ & S1). destruct G2 as (_ & _ & _ & _ & S2).
    pose proof (sig_one_digest _ _ _ _ S1 S2) as D. apply sha_inj in D.
    apply app_same_tail_length in D; [|rewrite !sha_len; reflexivity].
    destruct D as [-> D]. apply sha_inj in D. subst cd2.
    split; [reflexivity|]. split; [reflexivity|].
    exact (wa_binds_payload c parse sha256 pv p1 p2 key key sig sig ad2 ad2 cd1 B1 B2 H1 H2).
  Qed.
End Ideal.

(* ---- the hypotheses are consistent: an injective "hash" with 32-element output ---- *)
Definition zcode (z : Z) : nat := Z.to_nat (if z <? 0 then - 2 * z - 1 else 2 * z).
Fixpoint lcode (l : list Z) : nat :=
  match l with [] => O | x :: r => S (Cantor.to_nat (zcode x, lcode r)) end.
Definition ideal_sha (m : list Z) : list Z := Z.of_nat (lcode m) :: repeat 0 31.
Definition ideal_pv (k d s : list Z) : bool := eqb_bytes d s.

Lemma zcode_inj : forall a b, zcode a = zcode b -> a = b.
Proof.
  intros a b. unfold zcode. destruct (Z.ltb_spec a 0), (Z.ltb_spec b 0); lia.
Qed.
Lemma lcode_inj : forall a b, lcode a = lcode b -> a = b.
Proof.
  induction a as [|x a IH]; destruct b as [|y b]; cbn [lcode]; intro E; try reflexivity; try discriminate.
  apply eq_add_S in E.
  assert (P : (zcode x, lcode a) = (zcode y, lcode b)).
  { rewrite <- (Cantor.cancel_of_to (zcode x, lcode a)), <- (Cantor.cancel_of_to (zcode y, lcode b)), E. reflexivity. }
  injection P as E1 E2. apply zcode_inj in E1. apply IH in E2. subst. reflexivity.
Qed.

Lemma ideal_instance :
  (forall m, length (ideal_sha m) = 32%nat) /\
  (forall a b, ideal_sha a = ideal_sha b -> a = b) /\
  (forall k s d1 d2, ideal_pv k d1 s = true -> ideal_pv k d2 s = true -> d1 = d2).
Proof.
  split; [reflexivity|]. split.
  - intros a b E. unfold ideal_sha in E. injection E as E. apply Nat2Z.inj in E. apply lcode_inj. exact E.
  - intros k s d1 d2 H1 H2. unfold ideal_pv in *. apply eqb_bytes_eq in H1, H2. congruence.
Qed.
