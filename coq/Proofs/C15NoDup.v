(* C15: no list of the registry ever names an entry twice, whatever the history of add / remove /
   update operations; in particular a topic list that names a topic twice - of ANY length, two
   included - is refused by add_trusted_issuer and update_issuer_claim_topics.  (An issuer listed
   twice under a topic would survive its own removal in the map handed to the verifier.) *)
From SC Require Import Lib.Prelude Lib.Int Lib.Host Model.ClaimIssuer Model.Identity
  Proofs.C15Base Proofs.C15Registry Proofs.C15World.

Theorem duplicate_topic_list_refused c s i ts :
  ~ NoDup ts -> add_trusted_issuer c s i ts = Fail /\ update_issuer_claim_topics c s i ts = Fail.
Proof.
  intros Hnd. unfold add_trusted_issuer, update_issuer_claim_topics.
  destruct (topics_arg_ok c s ts) eqn:E; cbn [negb]; [|split; reflexivity].
  apply topics_arg_ok_spec in E. destruct E as [_ [H _]]. contradiction.
Qed.

Theorem registry_lists_nodup c now ctis irss idents issuers ks a ct :
  the_cti (run c (init now ctis irss idents issuers) ks) a = Ok ct ->
  NoDup (ct_topics ct) /\ NoDup (ct_issuers ct) /\
  (forall t l, get_claim_topic_issuers ct t = Ok l -> NoDup l) /\
  (forall i l, get_trusted_issuer_claim_topics ct i = Ok l -> NoDup l).
Proof.
  intros H. apply the_cti_get in H.
  pose proof (wi_cti _ (reachable_world_inv c now ctis irss idents issuers ks) a ct H) as Hi.
  split; [apply (ri_topics_nodup ct Hi)|]. split; [apply (ri_issuers_nodup ct Hi)|]. split.
  - intros t l E. unfold get_claim_topic_issuers in E. pose proof (ri_tiss_nodup ct Hi t) as Hn. unfold tiss in Hn.
    destruct (aget Z.eqb t (ct_tissuers ct)); cbn [of_option] in E; [|discriminate]. inversion E. subst. exact Hn.
  - intros i l E. unfold get_trusted_issuer_claim_topics in E. pose proof (ri_itop_nodup ct Hi i) as Hn. unfold itop in Hn.
    destruct (aget N.eqb i (ct_itopics ct)); cbn [of_option] in E; [|discriminate]. inversion E. subst. exact Hn.
Qed.
