(* C04, compliance-contract layer: dispatch theorems, invariant, monitor accepts model. *)
From SC Require Import Lib.Prelude Lib.Int Lib.Host Model.RwaCompliance Run.C04Compliance.

Lemma bind_ok {A B} (r : res A) (f : A -> res B) (b : B) :
  bind r f = Ok b -> exists a, r = Ok a /\ f a = Ok b.
Proof. destruct r; cbn; intros H; [eauto | discriminate]. Qed.
Lemma guard_ok (b : bool) (u : unit) : guard b = Ok u -> b = true.
Proof. destruct b; cbn; intros H; [reflexivity | discriminate]. Qed.

Ltac res_inv E :=
  cbv zeta beta in E;
  first
  [ apply guard_ok in E
  | match type of E with
    | Ok _ = Ok ?v => injection E as E; first [subst v | idtac]
    end
  | match type of E with
    | bind _ _ = Ok _ =>
        let x := fresh "x" in let E' := fresh "E" in
        apply bind_ok in E; destruct E as (x & E' & E); res_inv E'; res_inv E
    end
  | idtac ].

Ltac inv_all :=
  repeat match goal with
  | H : bind _ _ = Ok _ |- _ => res_inv H
  | H : guard _ = Ok _ |- _ => apply guard_ok in H
  | H : Ok _ = Ok _ |- _ => injection H as H; try subst
  end.

Lemma mem_In a l : mem a l = true <-> In a l.
Proof.
  unfold mem. rewrite existsb_exists. split.
  - intros (x & Hx & E). apply N.eqb_eq in E. subst. exact Hx.
  - intros H. exists a. split; auto. apply N.eqb_refl.
Qed.
Lemma mem_false a l : mem a l = false <-> ~ In a l.
Proof. rewrite <- mem_In. destruct (mem a l); split; intros; congruence. Qed.

Ltac facts :=
  repeat match goal with
  | H : negb (mem _ _) = true |- _ => apply negb_true_iff, mem_false in H
  | H : mem _ _ = true |- _ => apply mem_In in H
  | H : (_ <? _) = true |- _ => apply Z.ltb_lt in H
  end.

Lemma hook_eqb_eq a b : hook_eqb a b = true <-> a = b.
Proof. destruct a, b; cbn; split; intros; congruence. Qed.
Lemma hook_eqb_refl a : hook_eqb a a = true.
Proof. apply hook_eqb_eq. reflexivity. Qed.

(* ------------------------------------------------------------------ *)
(* dispatch loops                                                       *)
Lemma notify_all_spec ms e : forall s,
  mods (notify_all ms e s) = mods s /\ bound (notify_all ms e s) = bound s /\
  mlog (notify_all ms e s) = mlog s ++ map (fun m => (m, e)) ms.
Proof.
  induction ms as [|m r IH]; intros s; cbn [notify_all map].
  - rewrite app_nil_r. auto.
  - destruct (IH (clog m e s)) as (A & B & C). rewrite A, B, C. cbn. rewrite <- app_assoc. auto.
Qed.

Lemma ask_all_spec deny ms e : forall s,
  fst (ask_all deny ms e s) = all_approve deny ms /\
  mods (snd (ask_all deny ms e s)) = mods s /\ bound (snd (ask_all deny ms e s)) = bound s /\
  mlog (snd (ask_all deny ms e s)) = mlog s ++ map (fun m => (m, e)) (asked deny ms).
Proof.
  induction ms as [|m r IH]; intros s; cbn [ask_all asked all_approve forallb map].
  - rewrite app_nil_r. auto.
  - destruct (mem m deny) eqn:D; cbn [negb andb fst snd map].
    + cbn. auto.
    + destruct (IH (clog m e s)) as (A & B & C & L). rewrite A, B, C, L. cbn. rewrite <- app_assoc. auto.
Qed.

(* the loops as the code runs them (a failing module traps the call) = the trap-free loops, unless
   one of the modules reached fails *)
Lemma notify_all_f_eq fail ms e : forall s,
  notify_all_f fail ms e s = if any_fail fail ms then Fail else Ok (notify_all ms e s).
Proof.
  induction ms as [|m r IH]; intros s; cbn [notify_all_f notify_all any_fail existsb]; auto.
  destruct (mem m fail); cbn [orb]; auto; try apply IH.
Qed.
Lemma ask_all_f_eq fail deny ms e : forall s,
  ask_all_f fail deny ms e s = if any_fail fail (asked deny ms) then Fail else Ok (ask_all deny ms e s).
Proof.
  induction ms as [|m r IH]; intros s; cbn [ask_all_f ask_all asked]; auto.
  destruct (mem m fail) eqn:F.
  - destruct (mem m deny); cbn [any_fail existsb]; rewrite F; reflexivity.
  - destruct (mem m deny); cbn [any_fail existsb]; rewrite F; cbn [orb]; auto; try apply IH.
Qed.
Lemma any_fail_false fail ms : any_fail fail ms = false <-> (forall m, In m ms -> ~ In m fail).
Proof.
  unfold any_fail. split.
  - intros H m Hm Hf. assert (X : existsb (fun m => mem m fail) ms = true).
    { apply existsb_exists. exists m. split; auto. apply mem_In. exact Hf. }
    congruence.
  - intros H. destruct (existsb _ ms) eqn:E; auto. apply existsb_exists in E. destruct E as (m & Hm & Hf).
    apply mem_In in Hf. exfalso. exact (H m Hm Hf).
Qed.
Lemma any_fail_nil ms : any_fail [] ms = false.
Proof. induction ms; cbn; auto. Qed.

Lemma hook_notify_ok fail au h e tok s s' :
  hook_notify fail au h e tok s = Ok s' ->
  has_auth au tok = true /\ mem tok (bound s) = true /\ any_fail fail (mods s h) = false /\
  s' = notify_all (mods s h) e s.
Proof.
  unfold hook_notify, require_auth_from_bound_token. intros H.
  destruct (has_auth au tok); cbn [guard bind] in H; [|discriminate].
  destruct (mem tok (bound s)); cbn [guard bind] in H; [|discriminate].
  rewrite notify_all_f_eq in H. destruct (any_fail fail (mods s h)); [discriminate|].
  injection H as <-. auto.
Qed.
Lemma ask_bind_ok fail deny ms e s (r : cret) s' :
  (do bs <- ask_all_f fail deny ms e s; Ok (Some (fst bs), snd bs)) = Ok (r, s') ->
  any_fail fail (asked deny ms) = false /\ r = Some (fst (ask_all deny ms e s)) /\ s' = snd (ask_all deny ms e s).
Proof.
  rewrite ask_all_f_eq. destruct (any_fail fail (asked deny ms)); cbn [bind]; [discriminate|].
  intros H. injection H as <- <-. auto.
Qed.

(* ------------------------------------------------------------------ *)
(* steps                                                                *)
Lemma cstep_ok cf s c s' r : cstep cf s c = (s', Ok r) <-> cexec cf c (cclear s) = Ok (r, s').
Proof. unfold cstep. destruct (cexec _ _ _) as [[r0 s0]|]; split; intros H; congruence. Qed.
Lemma cstep_fail cf s c s' : cstep cf s c = (s', Fail) -> s' = cclear s.
Proof. unfold cstep. destruct (cexec _ _ _) as [[r0 s0]|]; intros H; congruence. Qed.
Lemma cstep_cases cf s c :
  (exists r s', cstep cf s c = (s', Ok r)) \/ cstep cf s c = (cclear s, Fail).
Proof. unfold cstep. destruct (cexec _ _ _) as [[r0 s0]|]; eauto. Qed.

(* C04_compliance_dispatch: what a successful hook call means, in ANY state of the contract *)
Theorem dispatch : forall (cf : ccfg) (s : cstate) (c : ccall) (s' : cstate) (r : cret),
  cstep cf s c = (s', Ok r) ->
  match cc_op c with
  | CTransferred f t a tok =>
      has_auth (cc_auths c) tok = true /\ In tok (bound s) /\
      mlog s' = map (fun m => (m, MOnTransfer f t a tok)) (mods s HTransferred) /\
      mods s' = mods s /\ bound s' = bound s /\
      (forall m, In m (mods s HTransferred) -> ~ In m (cc_fail c))
  | CCreated t a tok =>
      has_auth (cc_auths c) tok = true /\ In tok (bound s) /\
      mlog s' = map (fun m => (m, MOnCreated t a tok)) (mods s HCreated) /\
      mods s' = mods s /\ bound s' = bound s /\
      (forall m, In m (mods s HCreated) -> ~ In m (cc_fail c))
  | CDestroyed f a tok =>
      has_auth (cc_auths c) tok = true /\ In tok (bound s) /\
      mlog s' = map (fun m => (m, MOnDestroyed f a tok)) (mods s HDestroyed) /\
      mods s' = mods s /\ bound s' = bound s /\
      (forall m, In m (mods s HDestroyed) -> ~ In m (cc_fail c))
  | CCanTransfer f t a tok =>
      r = Some (forallb (fun m => negb (mem m (cc_deny c))) (mods s HCanTransfer)) /\
      mlog s' = map (fun m => (m, MCanTransfer f t a tok)) (asked (cc_deny c) (mods s HCanTransfer)) /\
      mods s' = mods s /\ bound s' = bound s /\
      (forall m, In m (asked (cc_deny c) (mods s HCanTransfer)) -> ~ In m (cc_fail c))
  | CCanCreate t a tok =>
      r = Some (forallb (fun m => negb (mem m (cc_deny c))) (mods s HCanCreate)) /\
      mlog s' = map (fun m => (m, MCanCreate t a tok)) (asked (cc_deny c) (mods s HCanCreate)) /\
      mods s' = mods s /\ bound s' = bound s /\
      (forall m, In m (asked (cc_deny c) (mods s HCanCreate)) -> ~ In m (cc_fail c))
  | CAddModule h m opr =>
      has_auth (cc_auths c) opr = true /\ ~ In m (mods s h) /\ Z.of_nat (length (mods s h)) < max_modules cf /\
      (forall h', mods s' h' = if hook_eqb h' h then mods s h ++ [m] else mods s h') /\
      bound s' = bound s /\ mlog s' = []
  | CRemoveModule h m opr =>
      has_auth (cc_auths c) opr = true /\ In m (mods s h) /\
      (forall h', mods s' h' = if hook_eqb h' h then remove_first m (mods s h) else mods s h') /\
      bound s' = bound s /\ mlog s' = []
  | CBind t opr =>
      has_auth (cc_auths c) opr = true /\ ~ In t (bound s) /\
      bound s' = bound s ++ [t] /\ mods s' = mods s /\ mlog s' = []
  | CUnbind t opr =>
      has_auth (cc_auths c) opr = true /\ In t (bound s) /\
      bound s' = remove_first t (bound s) /\ mods s' = mods s /\ mlog s' = []
  | CAdvance _ => mods s' = mods s /\ bound s' = bound s /\ mlog s' = []
  end.
Proof.
  intros cf s c s' r H. apply cstep_ok in H. unfold cexec, cunit in H.
  destruct (cc_op c).
  - res_inv H. subst. unfold add_module_to in *. inv_all. facts. cbn in *. repeat split; auto.
  - res_inv H. subst. unfold remove_module_from in *. inv_all. facts. cbn in *. repeat split; auto.
  - res_inv H. subst. unfold bind_token in *. inv_all. facts. cbn in *. repeat split; auto.
  - res_inv H. subst. unfold unbind_token in *. inv_all. facts. cbn in *. repeat split; auto.
  - apply bind_ok in H. destruct H as (x & E0 & H). injection H as <- <-.
    apply hook_notify_ok in E0. destruct E0 as (A0 & B0 & F0 & ->). facts.
    destruct (notify_all_spec (mods (cclear s) HTransferred) (MOnTransfer from to amt tok) (cclear s)) as (A & B & C).
    pose proof (proj1 (any_fail_false _ _) F0) as F1. cbn in *. repeat split; auto.
  - apply bind_ok in H. destruct H as (x & E0 & H). injection H as <- <-.
    apply hook_notify_ok in E0. destruct E0 as (A0 & B0 & F0 & ->). facts.
    destruct (notify_all_spec (mods (cclear s) HCreated) (MOnCreated to amt tok) (cclear s)) as (A & B & C).
    pose proof (proj1 (any_fail_false _ _) F0) as F1. cbn in *. repeat split; auto.
  - apply bind_ok in H. destruct H as (x & E0 & H). injection H as <- <-.
    apply hook_notify_ok in E0. destruct E0 as (A0 & B0 & F0 & ->). facts.
    destruct (notify_all_spec (mods (cclear s) HDestroyed) (MOnDestroyed from amt tok) (cclear s)) as (A & B & C).
    pose proof (proj1 (any_fail_false _ _) F0) as F1. cbn in *. repeat split; auto.
  - apply ask_bind_ok in H. destruct H as (F0 & -> & ->).
    destruct (ask_all_spec (cc_deny c) (mods (cclear s) HCanTransfer) (MCanTransfer from to amt tok) (cclear s)) as (A & B & C & D).
    pose proof (proj1 (any_fail_false _ _) F0) as F1. cbn in *. repeat split; auto. rewrite A. reflexivity.
  - apply ask_bind_ok in H. destruct H as (F0 & -> & ->).
    destruct (ask_all_spec (cc_deny c) (mods (cclear s) HCanCreate) (MCanCreate to amt tok) (cclear s)) as (A & B & C & D).
    pose proof (proj1 (any_fail_false _ _) F0) as F1. cbn in *. repeat split; auto. rewrite A. reflexivity.
  - injection H as <- <-. cbn. auto.
Qed.

(* ------------------------------------------------------------------ *)
(* invariant: no module twice for a hook, at most MAX_MODULES, no token bound twice *)
Lemma In_remove_first a x l : In x (remove_first a l) -> In x l.
Proof.
  induction l as [|y r IH]; cbn; auto. destruct (N.eqb a y); cbn; intros H; auto. destruct H; auto.
Qed.
Lemma NoDup_remove_first a l : NoDup l -> NoDup (remove_first a l).
Proof.
  induction 1 as [|y r Hy Hr IH]; cbn; [constructor|].
  destruct (N.eqb a y); auto. constructor; auto. intros H. apply Hy. eapply In_remove_first; eauto.
Qed.
Lemma length_remove_first a l : (length (remove_first a l) <= length l)%nat.
Proof. induction l as [|y r IH]; cbn; auto. destruct (N.eqb a y); cbn; lia. Qed.
Lemma NoDup_snoc (a : addr) l : NoDup l -> ~ In a l -> NoDup (l ++ [a]).
Proof.
  induction 1 as [|y r Hy Hr IH]; cbn; intros Hn.
  - constructor; [intros []|constructor].
  - constructor.
    + intros H. apply in_app_or in H. destruct H as [H|[H|[]]]; [contradiction|]. subst. apply Hn. left. reflexivity.
    + apply IH. intros H. apply Hn. right. exact H.
Qed.
Lemma mem_cons x y l : mem x (y :: l) = N.eqb x y || mem x l.
Proof. reflexivity. Qed.
Lemma mem_remove_first a x l : NoDup l ->
  mem x (remove_first a l) = if N.eqb x a then false else mem x l.
Proof.
  induction 1 as [|y r Hy Hr IH]; cbn [remove_first].
  - destruct (N.eqb x a); reflexivity.
  - rewrite mem_cons. destruct (N.eqb a y) eqn:E.
    + apply N.eqb_eq in E. subst y. destruct (N.eqb x a) eqn:E2; cbn [orb].
      * apply N.eqb_eq in E2. subst. apply mem_false. exact Hy.
      * reflexivity.
    + rewrite mem_cons, IH. destruct (N.eqb x a) eqn:E2; cbn; auto.
      apply N.eqb_eq in E2. subst. rewrite E. reflexivity.
Qed.
Lemma mem_snoc x a l : mem x (l ++ [a]) = if N.eqb x a then true else mem x l.
Proof.
  unfold mem. rewrite existsb_app. cbn. rewrite orb_false_r.
  destruct (N.eqb x a); [apply orb_true_r|apply orb_false_r].
Qed.

Definition CInv (cf : ccfg) (s : cstate) : Prop :=
  (forall h, NoDup (mods s h) /\ Z.of_nat (length (mods s h)) <= max_modules cf) /\ NoDup (bound s).

Lemma CInv_init cf : 0 <= max_modules cf -> CInv cf cinit.
Proof. intros H. split; [intros h; cbn; split; [constructor|lia]|constructor]. Qed.

Lemma cstep_preserves_CInv cf s c : CInv cf s -> CInv cf (fst (cstep cf s c)).
Proof.
  intros HI. destruct (cstep_cases cf s c) as [(r & s' & H)|H]; rewrite H; cbn [fst]; [|exact HI].
  pose proof (dispatch cf s c s' r H) as D. destruct HI as [HM HB].
  destruct (cc_op c).
  - destruct D as (_ & Hn & Hl & Hm & Hb & _). split; [|rewrite Hb; exact HB].
    intros h'. rewrite Hm. destruct (hook_eqb h' h) eqn:E; [|apply HM].
    destruct (HM h) as [N1 N2]. split; [apply NoDup_snoc; auto|]. rewrite app_length. cbn. lia.
  - destruct D as (_ & Hi & Hm & Hb & _). split; [|rewrite Hb; exact HB].
    intros h'. rewrite Hm. destruct (hook_eqb h' h) eqn:E; [|apply HM].
    destruct (HM h) as [N1 N2]. split; [apply NoDup_remove_first; auto|].
    pose proof (length_remove_first m (mods s h)). lia.
  - destruct D as (_ & Hn & Hb & Hm & _). split; [rewrite Hm; exact HM|]. rewrite Hb. apply NoDup_snoc; auto.
  - destruct D as (_ & Hi & Hb & Hm & _). split; [rewrite Hm; exact HM|]. rewrite Hb. apply NoDup_remove_first; auto.
  - destruct D as (_ & _ & _ & Hm & Hb & _). split; [rewrite Hm; exact HM|rewrite Hb; exact HB].
  - destruct D as (_ & _ & _ & Hm & Hb & _). split; [rewrite Hm; exact HM|rewrite Hb; exact HB].
  - destruct D as (_ & _ & _ & Hm & Hb & _). split; [rewrite Hm; exact HM|rewrite Hb; exact HB].
  - destruct D as (_ & _ & Hm & Hb & _). split; [rewrite Hm; exact HM|rewrite Hb; exact HB].
  - destruct D as (_ & _ & Hm & Hb & _). split; [rewrite Hm; exact HM|rewrite Hb; exact HB].
  - destruct D as (Hm & Hb & _). split; [rewrite Hm; exact HM|rewrite Hb; exact HB].
Qed.

Lemma crun_preserves_CInv cf cs : forall s, CInv cf s -> CInv cf (crun cf s cs).
Proof.
  unfold crun. induction cs as [|c cs IH]; intros s HI; cbn [fold_left]; auto.
  apply IH. apply cstep_preserves_CInv. exact HI.
Qed.

(* C04_compliance_modules_once: after every call sequence no module is registered twice for a hook
   (so "every registered module is called" means exactly once), never more than MAX_MODULES, and
   no token is bound twice *)
Theorem modules_once : forall (cf : ccfg) (cs : list ccall) (h : hook),
  0 <= max_modules cf ->
  NoDup (mods (crun cf cinit cs) h) /\
  Z.of_nat (length (mods (crun cf cinit cs) h)) <= max_modules cf /\
  NoDup (bound (crun cf cinit cs)).
Proof.
  intros cf cs h H0. destruct (crun_preserves_CInv cf cs cinit (CInv_init cf H0)) as [HM HB].
  destruct (HM h). auto.
Qed.

(* ------------------------------------------------------------------ *)
(* the monitor of the compliance layer accepts every run of its model   *)
Lemma eqb_list_refl {A} (eqb : A -> A -> bool) :
  (forall x, eqb x x = true) -> forall l, eqb_list eqb l l = true.
Proof. intros H l. induction l; cbn; auto. rewrite H, IHl. reflexivity. Qed.
Lemma eqb_mev_refl x : eqb_mev x x = true.
Proof. destruct x; cbn; rewrite ?N.eqb_refl, ?Z.eqb_refl; reflexivity. Qed.
Lemma eqb_entry_refl x : eqb_entry x x = true.
Proof. unfold eqb_entry. rewrite N.eqb_refl, eqb_mev_refl. reflexivity. Qed.
Lemma eqb_addrs_refl l : eqb_list N.eqb l l = true.
Proof. apply eqb_list_refl. apply N.eqb_refl. Qed.
Lemma eqb_cout_refl x : eqb_cout x x = true.
Proof. destruct x as [[b|]|]; cbn; auto. apply Bool.eqb_reflx. Qed.
Lemma eqb_cobs_refl x : eqb_cobs x x = true.
Proof.
  unfold eqb_cobs. rewrite (eqb_list_refl _ eqb_addrs_refl), (eqb_list_refl _ Bool.eqb_reflx),
    (eqb_list_refl _ eqb_entry_refl). reflexivity.
Qed.

Lemma cdiff_model cf toks cs : forall s i, cdiff_from cf toks s (cmodel_items cf toks s cs) i = 0%N.
Proof.
  induction cs as [|c cs IH]; intros s i; cbn [cmodel_items cdiff_from]; auto.
  destruct (cstep cf s c) as [s' o] eqn:Hs. cbn [cdiff_from ci_call ci_out ci_obs]. rewrite Hs.
  rewrite eqb_cout_refl, eqb_cobs_refl. cbn. apply IH.
Qed.

Lemma nodupb_NoDup l : NoDup l -> nodupb l = true.
Proof.
  induction 1 as [|y r Hy Hr IH]; cbn; auto. rewrite IH. apply mem_false in Hy. rewrite Hy. reflexivity.
Qed.

Lemma mods_of_observe toks s h : mods_of (cobserve toks s) h = mods s h.
Proof. destruct h; reflexivity. Qed.

Lemma bound_look_sound toks (f : addr -> bool) t b :
  alist_get t (combine toks (map f toks)) = Some b -> b = f t.
Proof.
  induction toks as [|k r IH]; cbn; [discriminate|].
  destruct (N.eqb t k) eqn:E.
  - apply N.eqb_eq in E. subst. congruence.
  - exact IH.
Qed.

Lemma bounds_ok_model c (f f' : addr -> bool) :
  (forall t, bound_after c t (f t) = f' t) ->
  forall l, bounds_ok c (combine l (map f l)) (combine l (map f' l)) = true.
Proof.
  intros H l. induction l as [|t l IH]; cbn [map combine bounds_ok]; auto.
  rewrite N.eqb_refl, H, Bool.eqb_reflx, IH. reflexivity.
Qed.

Lemma cinv_ok_model cf toks s : CInv cf s -> cinv_ok cf (cobserve toks s) = true.
Proof.
  intros [HM _]. unfold cinv_ok, cobserve. cbn [co_mods]. rewrite map_length. cbn [length Nat.eqb andb all_hooks].
  apply forallb_forall. intros l Hl. apply in_map_iff in Hl. destruct Hl as (h & <- & _).
  destruct (HM h) as [N1 N2]. rewrite (nodupb_NoDup _ N1). cbn. apply Z.leb_le. exact N2.
Qed.

Ltac btrue :=
  repeat match goal with
  | |- (_ && _) = true => apply andb_true_intro; split
  end.

Lemma cmon_step_model cf toks prev s c s' o :
  CInv cf s ->
  co_mods prev = map (mods s) all_hooks ->
  co_bound prev = map (fun t => mem t (bound s)) toks ->
  cwf_call toks c = true ->
  cstep cf s c = (s', o) ->
  cmon_step cf toks prev (CI c o (cobserve toks s')) = true.
Proof.
  intros HI Hm Hb Hwf Hs. unfold cmon_step. cbn [ci_obs ci_out ci_call]. rewrite Hwf. cbn [andb].
  assert (HI' : CInv cf s').
  { pose proof (cstep_preserves_CInv cf s c HI) as P. rewrite Hs in P. exact P. }
  rewrite (cinv_ok_model cf toks s' HI').
  replace (length (co_bound (cobserve toks s')) =? length toks)%nat with true
    by (symmetry; unfold cobserve; cbn [co_bound]; rewrite map_length; apply Nat.eqb_refl).
  cbn [andb].
  assert (Hmo : forall h, mods_of prev h = mods s h).
  { intros h. unfold mods_of. rewrite Hm. destruct h; reflexivity. }
  assert (Hbl : forall t b, bound_look toks prev t = Some b -> b = mem t (bound s)).
  { intros t b. unfold bound_look. rewrite Hb. apply (bound_look_sound toks (fun t => mem t (bound s))). }
  destruct o as [r|].
  2:{ apply cstep_fail in Hs. subst s'. rewrite Hm, Hb. unfold cobserve.
      cbn [co_mods co_bound co_log mods bound mlog cclear].
      rewrite (eqb_list_refl _ eqb_addrs_refl), (eqb_list_refl _ Bool.eqb_reflx). reflexivity. }
  pose proof (dispatch cf s c s' r Hs) as D.
  destruct HI as [HM HB].
  assert (Hmods : (forall h, mods s' h = mods_after prev c h) ->
                  eqb_list (eqb_list N.eqb) (co_mods (cobserve toks s')) (map (mods_after prev c) all_hooks) = true).
  { intros Q. unfold cobserve. cbn [co_mods]. rewrite (map_ext _ _ Q). apply eqb_list_refl. apply eqb_addrs_refl. }
  assert (Hbounds : (forall t, bound_after c t (mem t (bound s)) = mem t (bound s')) ->
                    bounds_ok c (combine toks (co_bound prev)) (combine toks (co_bound (cobserve toks s'))) = true).
  { intros Q. rewrite Hb. unfold cobserve. cbn [co_bound].
    apply (bounds_ok_model c (fun t => mem t (bound s)) (fun t => mem t (bound s')) Q). }
  unfold cgates_ok, mods_after, bound_after, notif_ok, query_ok in *.
  destruct (cc_op c).
  - destruct D as (A1 & A2 & A3 & A4 & A5 & A6). btrue.
    + exact A1.
    + rewrite Hmo. apply negb_true_iff, mem_false. exact A2.
    + rewrite Hmo. apply Z.ltb_lt. exact A3.
    + unfold cobserve. cbn [co_log]. rewrite A6. reflexivity.
    + apply Hmods. intros h'. rewrite A4, !Hmo. destruct (hook_eqb h' h) eqn:E; [apply hook_eqb_eq in E; subst|]; reflexivity.
    + apply Hbounds. intros t. rewrite A5. reflexivity.
  - destruct D as (A1 & A2 & A4 & A5 & A6). btrue.
    + exact A1.
    + rewrite Hmo. apply mem_In. exact A2.
    + unfold cobserve. cbn [co_log]. rewrite A6. reflexivity.
    + apply Hmods. intros h'. rewrite A4, !Hmo. destruct (hook_eqb h' h) eqn:E; [apply hook_eqb_eq in E; subst|]; reflexivity.
    + apply Hbounds. intros t'. rewrite A5. reflexivity.
  - destruct D as (A1 & A2 & A3 & A4 & A6). btrue.
    + exact A1.
    + destruct (bound_look toks prev t) as [b|] eqn:L; auto. apply Hbl in L. subst b.
      apply negb_true_iff, mem_false. exact A2.
    + unfold cobserve. cbn [co_log]. rewrite A6. reflexivity.
    + apply Hmods. intros h'. rewrite A4, Hmo. reflexivity.
    + apply Hbounds. intros t'. rewrite A3, mem_snoc. reflexivity.
  - destruct D as (A1 & A2 & A3 & A4 & A6). btrue.
    + exact A1.
    + destruct (bound_look toks prev t) as [b|] eqn:L; auto. apply Hbl in L. subst b. apply mem_In. exact A2.
    + unfold cobserve. cbn [co_log]. rewrite A6. reflexivity.
    + apply Hmods. intros h'. rewrite A4, Hmo. reflexivity.
    + apply Hbounds. intros t'. rewrite A3, (mem_remove_first _ _ _ HB). reflexivity.
  - destruct D as (A1 & A2 & A3 & A4 & A5 & AF). btrue.
    + exact A1.
    + destruct (bound_look toks prev tok) as [b|] eqn:L; auto. apply Hbl in L. subst b. apply mem_In. exact A2.
    + rewrite Hmo. apply negb_true_iff. apply any_fail_false. exact AF.
    + unfold cobserve. cbn [co_log]. rewrite A3, Hmo. apply eqb_list_refl. apply eqb_entry_refl.
    + apply Hmods. intros h'. rewrite A4, Hmo. reflexivity.
    + apply Hbounds. intros t'. rewrite A5. reflexivity.
  - destruct D as (A1 & A2 & A3 & A4 & A5 & AF). btrue.
    + exact A1.
    + destruct (bound_look toks prev tok) as [b|] eqn:L; auto. apply Hbl in L. subst b. apply mem_In. exact A2.
    + rewrite Hmo. apply negb_true_iff. apply any_fail_false. exact AF.
    + unfold cobserve. cbn [co_log]. rewrite A3, Hmo. apply eqb_list_refl. apply eqb_entry_refl.
    + apply Hmods. intros h'. rewrite A4, Hmo. reflexivity.
    + apply Hbounds. intros t'. rewrite A5. reflexivity.
  - destruct D as (A1 & A2 & A3 & A4 & A5 & AF). btrue.
    + exact A1.
    + destruct (bound_look toks prev tok) as [b|] eqn:L; auto. apply Hbl in L. subst b. apply mem_In. exact A2.
    + rewrite Hmo. apply negb_true_iff. apply any_fail_false. exact AF.
    + unfold cobserve. cbn [co_log]. rewrite A3, Hmo. apply eqb_list_refl. apply eqb_entry_refl.
    + apply Hmods. intros h'. rewrite A4, Hmo. reflexivity.
    + apply Hbounds. intros t'. rewrite A5. reflexivity.
  - destruct D as (A1 & A3 & A4 & A5 & AF). btrue.
    + rewrite A1, Hmo. unfold all_approve. cbn. apply Bool.eqb_reflx.
    + rewrite Hmo. apply negb_true_iff. apply any_fail_false. exact AF.
    + unfold cobserve. cbn [co_log]. rewrite A3, Hmo. apply eqb_list_refl. apply eqb_entry_refl.
    + apply Hmods. intros h'. rewrite A4, Hmo. reflexivity.
    + apply Hbounds. intros t'. rewrite A5. reflexivity.
  - destruct D as (A1 & A3 & A4 & A5 & AF). btrue.
    + rewrite A1, Hmo. unfold all_approve. cbn. apply Bool.eqb_reflx.
    + rewrite Hmo. apply negb_true_iff. apply any_fail_false. exact AF.
    + unfold cobserve. cbn [co_log]. rewrite A3, Hmo. apply eqb_list_refl. apply eqb_entry_refl.
    + apply Hmods. intros h'. rewrite A4, Hmo. reflexivity.
    + apply Hbounds. intros t'. rewrite A5. reflexivity.
  - destruct D as (A4 & A5 & A6). btrue.
    + unfold cobserve. cbn [co_log]. rewrite A6. reflexivity.
    + apply Hmods. intros h'. rewrite A4, Hmo. reflexivity.
    + apply Hbounds. intros t'. rewrite A5. reflexivity.
Qed.

Lemma cmon_model cf toks cs : forall s prev i,
  CInv cf s -> co_mods prev = map (mods s) all_hooks ->
  co_bound prev = map (fun t => mem t (bound s)) toks ->
  forallb (cwf_call toks) cs = true ->
  cmon_from cf toks prev (cmodel_items cf toks s cs) i = 0%N.
Proof.
  induction cs as [|c cs IH]; intros s prev i HI Hm Hb Hwf; cbn [cmodel_items cmon_from]; auto.
  cbn [forallb] in Hwf. apply andb_prop in Hwf. destruct Hwf as [Hw1 Hw2].
  destruct (cstep cf s c) as [s' o] eqn:Hs. cbn [cmon_from].
  rewrite (cmon_step_model cf toks prev s c s' o HI Hm Hb Hw1 Hs). cbn [ci_obs].
  apply IH; auto.
  pose proof (cstep_preserves_CInv cf s c HI) as P. rewrite Hs in P. exact P.
Qed.

Theorem check_compliance_accepts_model : forall (cf : ccfg) (toks : list addr) (cs : list ccall),
  0 <= max_modules cf -> forallb (cwf_call toks) cs = true ->
  check_compliance (cobserve_model cf toks cs) = (0%N, 0%N, 0%N).
Proof.
  intros cf toks cs H0 Hwf. unfold check_compliance, cobserve_model. cbn [ct_cfg ct_toks ct_items].
  rewrite cdiff_model, cmon_model; auto. apply CInv_init. exact H0.
Qed.
