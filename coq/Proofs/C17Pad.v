(* C17: no digest is a neutral element of a proof.

   Corollaries of the exactness theorems (Proofs/Merkle.v) for proofs that are the honest proof of
   a leaf with ONE MORE element - any digest whatsoever (in particular the "special" 32-byte values an
   implementation could be tempted to treat as padding: all-zero, all-ones, ...) - inserted at any
   position: such a proof is refused, in both forms, for every tree with pairwise different leaves.
   More generally a proof whose length differs from the depth of the leaf is refused.

   The second part gives hand-made traces on which the monitor of Run/C17.v rejects an implementation
   that skips an all-zero proof element ("fixed-depth, zero-padded proofs"). *)
From SC Require Import Lib.Prelude Lib.Int Lib.Host Model.Merkle Proofs.Merkle Run.C17.
Open Scope Z_scope.

Definition insert_at {A} (k : nat) (x : A) (l : list A) : list A := firstn k l ++ x :: skipn k l.

Lemma insert_at_length {A} (k : nat) (x : A) (l : list A) : length (insert_at k x l) = S (length l).
Proof.
  unfold insert_at. rewrite app_length. cbn [length].
  rewrite <- (firstn_skipn k l) at 3. rewrite app_length. lia.
Qed.

Section NoNeutral.
  Variable D : Type.
  Variable deqb : D -> D -> bool.
  Variable H : D -> D -> D.
  Hypothesis deqb_spec : forall a b, deqb a b = true <-> a = b.
  Hypothesis H_inj : forall a b c d, H a b = H c d -> a = c /\ b = d.

  Section S.
    Variable gtb : D -> D -> bool.
    Hypothesis gtb_asym : forall a b, gtb a b = true -> gtb b a = false.
    Hypothesis gtb_total : forall a b, gtb a b = false -> gtb b a = false -> a = b.
    Variable leafp : D -> Prop.
    Hypothesis leaf_cnode : forall a b, ~ leafp (cpair H gtb a b).

    (* a proof of the wrong length is refused *)
    Lemma sorted_wrong_length : forall (t : tree D) (path : list bool) (v : D) (p : list D),
      Forall leafp (leaves t) -> NoDup (leaves t) -> lookup t path = Some (Lf v) ->
      length p <> length path ->
      verify deqb H gtb p (troot (cpair H gtb) t) v = false.
    Proof.
      intros t path v p Hw Hn Hl Hlen.
      destruct (verify deqb H gtb p (troot (cpair H gtb) t) v) eqn:Hv; [|reflexivity]. exfalso.
      apply (proj1 (sorted_exact D deqb H gtb deqb_spec H_inj gtb_asym gtb_total leafp leaf_cnode
                      t path v p Hw Hn Hl)) in Hv.
      subst p. apply Hlen. exact (proof_of_length D (cpair H gtb) path t (Lf v) Hl).
    Qed.

    Theorem sorted_no_neutral_element : forall (t : tree D) (path : list bool) (v x : D) (k : nat),
      Forall leafp (leaves t) -> NoDup (leaves t) -> lookup t path = Some (Lf v) ->
      verify deqb H gtb (insert_at k x (proof_of (cpair H gtb) t path)) (troot (cpair H gtb) t) v = false.
    Proof.
      intros t path v x k Hw Hn Hl. apply (sorted_wrong_length t path v _ Hw Hn Hl).
      rewrite insert_at_length, (proof_of_length D (cpair H gtb) path t (Lf v) Hl). lia.
    Qed.
  End S.

  Section I.
    Variable leafp : D -> Prop.
    Hypothesis leaf_node : forall a b, ~ leafp (H a b).

    Lemma indexed_wrong_length : forall (t : tree D) (path : list bool) (v : D) (p : list D) (i : Z),
      Forall leafp (leaves t) -> NoDup (leaves t) -> 0 <= i -> lookup t path = Some (Lf v) ->
      length p <> length path ->
      verify_with_index deqb H p (troot H t) v i <> Ok true.
    Proof.
      intros t path v p i Hw Hn Hi Hl Hlen Hv.
      destruct (Nat.lt_ge_cases (length path) 32) as [Hlt|Hge].
      - apply (proj1 (indexed_exact D deqb H deqb_spec H_inj leafp leaf_node t path v p i Hw Hn Hi Hl Hlt)) in Hv.
        destruct Hv as [-> _]. apply Hlen. exact (proof_of_length D H path t (Lf v) Hl).
      - (* the leaf is deeper than the positional form reaches: whatever is accepted would be the honest proof *)
        destruct (sound_indexed D deqb H deqb_spec H_inj leafp leaf_node t p v i Hw Hi Hv)
          as (path' & s & Hl' & Hs & _ & _ & Hlp).
        assert (s = Lf v).
        { destruct s as [d|l r]; [cbn in Hs; congruence|]. exfalso. cbn in Hs.
          pose proof (lookup_leaf_in D path t v Hl) as Hin.
          rewrite Forall_forall in Hw. apply (leaf_node (troot H l) (troot H r)). rewrite Hs. apply Hw. exact Hin. }
        subst s. assert (path' = path) by (eapply lookup_leaf_unique; eauto). subst path'.
        apply Hlen. symmetry. exact Hlp.
    Qed.

    Theorem indexed_no_neutral_element : forall (t : tree D) (path : list bool) (v x : D) (k : nat) (i : Z),
      Forall leafp (leaves t) -> NoDup (leaves t) -> 0 <= i -> lookup t path = Some (Lf v) ->
      verify_with_index deqb H (insert_at k x (proof_of H t path)) (troot H t) v i <> Ok true.
    Proof.
      intros t path v x k i Hw Hn Hi Hl. apply (indexed_wrong_length t path v _ i Hw Hn Hi Hl).
      rewrite insert_at_length, (proof_of_length D H path t (Lf v) Hl). lia.
    Qed.
  End I.
End NoNeutral.

(* ---------- hand-made traces: an implementation that skips all-zero proof elements ---------- *)
Module PadExamples.
Import Examples.

(* digests are numbered by byte order: At 0 is the all-zero digest when it occurs in a trace *)
Definition Z0 : dg := At 0%N.

(* (1) Examples.h0: tree {At 1, At 3} with root At 2.  The honest proof of At 1 with the all-zero
   digest inserted in front / appended is accepted: a monitor failure. *)
Definition bad_zero_front := mk_trace h0 (ob None f0 b0)
  [ it (Verify [Z0; At 3%N] (At 2%N) (At 1%N)) (Ok (Some true)) (ob None f0 b0) ].
Definition bad_zero_back := mk_trace h0 (ob None f0 b0)
  [ it (Verify [At 3%N; Z0] (At 2%N) (At 1%N)) (Ok (Some true)) (ob None f0 b0) ].
Definition bad_zero_idx := mk_trace h0 (ob None f0 b0)
  [ it (VerifyIdx [At 1%N; Z0] (At 2%N) (At 3%N) 1) (Ok (Some true)) (ob None f0 b0) ].
(* the same inside a claim: the index gets marked with a padded proof *)
Definition bad_zero_claim := mk_trace h0 (ob R f0 b0)
  [ it (ClaimS 0%N 5%N 100 [At 3%N; Z0]) (Ok None) (ob R f1 b0) ].
Definition bad_zero_airdrop := mk_trace h0 (ob R f0 b0)
  [ it (Airdrop 1%N 6%N 50 [Z0; At 1%N]) (Ok None) (ob R [(0%N,false);(1%N,true);(2%N,false)] b1) ].

(* (2) a tree padded with the all-zero digest: {At 0, At 3} with root At 2 (table: H(At 0, At 3) = At 2).
   The honest proof of At 3 is [At 0]; an implementation that skips it answers false: a monitor failure.
   The correct answers are accepted. *)
Definition TZ : tree dg := Nd (Lf Z0) (Lf (At 3%N)).
Definition hz := mk_hdr [(0%N,3%N,2%N)] [(1%N,6%N,50,3%N)] [TZ] [TZ] 9%N.
Definition good_padded_tree := mk_trace hz (ob R f0 b0)
  [ it (Verify [Z0] (At 2%N) (At 3%N)) (Ok (Some true)) (ob R f0 b0);
    it (Verify [At 3%N] (At 2%N) Z0) (Ok (Some true)) (ob R f0 b0);
    it (VerifyIdx [Z0] (At 2%N) (At 3%N) 1) (Ok (Some true)) (ob R f0 b0);
    it (Verify [] Z0 Z0) (Ok (Some true)) (ob R f0 b0);
    it (Verify [Z0] Z0 Z0) (Ok (Some false)) (ob R f0 b0);
    it (ClaimS 1%N 6%N 50 [Z0]) (Ok None) (ob R [(0%N,false);(1%N,true);(2%N,false)] b0) ].
Definition bad_padded_honest_refused := mk_trace hz (ob R f0 b0)
  [ it (Verify [Z0] (At 2%N) (At 3%N)) (Ok (Some false)) (ob R f0 b0) ].
Definition bad_padded_claim_refused := mk_trace hz (ob R f0 b0)
  [ it (ClaimS 1%N 6%N 50 [Z0]) Fail (ob R f0 b0) ].
(* all-zero value, all-zero root, all-zero proof: skipping makes it the one-node tree *)
Definition bad_all_zero := mk_trace hz (ob R f0 b0)
  [ it (Verify [Z0; Z0] Z0 Z0) (Ok (Some true)) (ob R f0 b0) ].

Example check_pad_examples :
  snd (fst (check bad_zero_front)) = 1%N /\
  snd (fst (check bad_zero_back)) = 1%N /\
  snd (fst (check bad_zero_idx)) = 1%N /\
  snd (fst (check bad_zero_claim)) = 1%N /\
  snd (fst (check bad_zero_airdrop)) = 1%N /\
  snd (fst (check bad_padded_honest_refused)) = 1%N /\
  snd (fst (check bad_padded_claim_refused)) = 1%N /\
  snd (fst (check bad_all_zero)) = 1%N /\
  snd (fst (check good_padded_tree)) = 0%N.
Proof. vm_compute. repeat split; reflexivity. Qed.

End PadExamples.
