(* C16: lemmas about the gate model (Model/Gates.v) and its specification (Model/GatesSpec.v). *)
From SC Require Import Lib.Prelude Lib.Int Lib.Host Model.Gates Model.GatesSpec.

(* ------------------------------------------------------------------ *)
(* small tactics                                                       *)
Ltac b2p :=
  repeat match goal with
  | H : (_ <? _) = true |- _ => apply Z.ltb_lt in H
  | H : (_ <? _) = false |- _ => apply Z.ltb_ge in H
  | H : (_ <=? _) = true |- _ => apply Z.leb_le in H
  | H : (_ <=? _) = false |- _ => apply Z.leb_gt in H
  | H : (_ =? _) = true |- _ => apply Z.eqb_eq in H
  | H : (_ =? _) = false |- _ => apply Z.eqb_neq in H
  | H : N.eqb _ _ = true |- _ => apply N.eqb_eq in H
  | H : N.eqb _ _ = false |- _ => apply N.eqb_neq in H
  | H : andb _ _ = true |- _ => apply andb_true_iff in H; destruct H
  | H : negb _ = true |- _ => apply negb_true_iff in H
  | H : negb _ = false |- _ => apply negb_false_iff in H
  end.

Lemma eqb_refl_N a : N.eqb a a = true. Proof. apply N.eqb_refl. Qed.

(* the view of a model state *)
Definition view_st (s : state) : view := mkView (supply s) (bal s) (allowance s) (cap s) (mdata s).

(* gate fields and ledger untouched *)
Definition same_gates (s s' : state) : Prop :=
  now s' = now s /\ paused s' = paused s /\ allowed s' = allowed s /\ blocked s' = blocked s /\
  cap s' = cap s /\ migrating s' = migrating s /\ mdata s' = mdata s /\ mgr s' = mgr s.
Lemma same_gates_refl s : same_gates s s.
Proof. repeat split. Qed.

(* stored live_until_ledger never exceeds the maximum the host would accept now *)
Definition Inv (c : cfg) (s : state) : Prop :=
  0 <= now s + max_ttl c - 1 /\ forall o sp, snd (alw s o sp) <= now s + max_ttl c - 1.

(* ------------------------------------------------------------------ *)
(* closed forms of Base::update                                        *)
Lemma update_transfer s f t a :
  update s (Some f) (Some t) a =
    if negb (a <? 0) && debit_ok (view_st s) f a && credit_ok (view_st s) (Some f) t a
    then Ok (set_bal (set_bal s f (bal s f - a)) t ((if N.eqb t f then bal s f - a else bal s t) + a))
    else Fail.
Proof.
  unfold update, debit_ok, credit_ok, view_st, guard, checked_sub, checked_add, fit128. cbn [v_bal bind].
  destruct (a <? 0); cbn [negb andb bind]; [reflexivity|].
  destruct (bal s f <? a); cbn [negb andb bind]; [reflexivity|].
  destruct (in_i128 (bal s f - a)); cbn [of_option andb bind]; [|reflexivity].
  cbn [set_bal bal]. unfold updZ at 1.
  destruct (in_i128 ((if N.eqb t f then bal s f - a else bal s t) + a)); reflexivity.
Qed.

Lemma update_burn s f a :
  update s (Some f) None a =
    if negb (a <? 0) && debit_ok (view_st s) f a && in_i128 (supply s - a)
    then Ok (set_supply (set_bal s f (bal s f - a)) (supply s - a))
    else Fail.
Proof.
  unfold update, debit_ok, view_st, guard, checked_sub, fit128. cbn [v_bal bind].
  destruct (a <? 0); cbn [negb andb bind]; [reflexivity|].
  destruct (bal s f <? a); cbn [negb andb bind]; [reflexivity|].
  destruct (in_i128 (bal s f - a)); cbn [of_option andb bind]; [|reflexivity].
  cbn [set_bal supply].
  destruct (in_i128 (supply s - a)); reflexivity.
Qed.

Lemma update_mint s t a :
  update s None (Some t) a =
    if negb (a <? 0) && in_i128 (supply s + a) && credit_ok (view_st s) None t a
    then Ok (set_bal (set_supply s (supply s + a)) t (bal s t + a))
    else Fail.
Proof.
  unfold update, credit_ok, view_st, guard, checked_add, fit128. cbn [v_bal bind].
  destruct (a <? 0); cbn [negb andb bind]; [reflexivity|].
  destruct (in_i128 (supply s + a)); cbn [of_option andb bind]; [|reflexivity].
  cbn [set_supply bal].
  destruct (in_i128 (bal s t + a)); reflexivity.
Qed.

(* ------------------------------------------------------------------ *)
(* allowances                                                          *)
Lemma allowance_unfold s o sp :
  allowance s o sp = if snd (alw s o sp) <? now s then 0 else fst (alw s o sp).
Proof. unfold allowance, allowance_data. destruct (alw s o sp) as [a lu]. cbn [fst snd]. destruct (lu <? now s); reflexivity. Qed.

(* state after Base::spend_allowance succeeded *)
Definition spent (s : state) (f sp : addr) (a : Z) : state :=
  if 0 <? a then set_alw s f sp (allowance s f sp - a, snd (allowance_data s f sp)) else s.

Lemma spend_closed c s f sp a : Inv c s ->
  spend_allowance c s f sp a =
    if negb (a <? 0) && spend_ok (view_st s) f sp a then Ok (spent s f sp a) else Fail.
Proof.
  intros [_ HI]. unfold spend_allowance, spend_ok, spent, view_st, implies, guard. cbn [v_alw bind].
  destruct (a <? 0) eqn:Ea; cbn [negb andb bind]; [reflexivity|].
  unfold allowance. pose proof (HI f sp) as Hlu. unfold allowance_data in *.
  destruct (alw s f sp) as [al lu] eqn:Ealw. cbn [snd] in Hlu.
  destruct (lu <? now s) eqn:Elu; cbn [fst snd].
  - (* expired: reads (0,0) *)
    destruct (0 <? a) eqn:E0; cbn [negb orb andb bind]; reflexivity.
  - destruct (al <? a) eqn:Eal; cbn [negb andb bind]; [reflexivity|].
    destruct (0 <? a) eqn:E0; cbn [negb orb]; [|reflexivity].
    unfold checked_sub, fit128. destruct (in_i128 (al - a)); cbn [of_option bind]; [|reflexivity].
    unfold set_allowance, guard, max_live.
    b2p.
    assert (H1 : (al - a <? 0) = false) by (apply Z.ltb_ge; lia). rewrite H1. cbn [negb bind].
    assert (H2 : (now s + max_ttl c - 1 <? lu) = false) by (apply Z.ltb_ge; lia). rewrite H2.
    assert (H3 : (lu <? now s) = false) by (apply Z.ltb_ge; lia). rewrite H3.
    rewrite andb_false_r. cbn [orb negb bind]. reflexivity.
Qed.

Lemma spent_fields s f sp a :
  bal (spent s f sp a) = bal s /\ supply (spent s f sp a) = supply s /\ same_gates s (spent s f sp a).
Proof. unfold spent. destruct (0 <? a); cbn; repeat split. Qed.

Lemma spent_allowance s f sp a x y :
  negb (a <? 0) && spend_ok (view_st s) f sp a = true ->
  allowance (spent s f sp a) x y = if N.eqb x f && N.eqb y sp then allowance s f sp - a else allowance s x y.
Proof.
  unfold spend_ok, view_st, implies. cbn [v_alw]. intros H.
  unfold spent. destruct (0 <? a) eqn:E0.
  - rewrite (allowance_unfold (set_alw _ _ _ _)). cbn [set_alw alw now]. unfold upd2.
    destruct (N.eqb x f && N.eqb y sp) eqn:Exy.
    + cbn [fst snd].
      (* the allowance read was positive, hence not expired: its live_until >= now *)
      b2p. unfold allowance in *. unfold allowance_data in *.
      destruct (alw s f sp) as [al lu]. destruct (lu <? now s) eqn:Elu; cbn [fst snd] in *.
      * lia.
      * rewrite Elu. reflexivity.
    + rewrite <- allowance_unfold. reflexivity.
  - b2p. assert (a = 0) by lia. subst a.
    destruct (N.eqb x f && N.eqb y sp) eqn:Exy; [|reflexivity].
    b2p. subst. lia.
Qed.

Lemma spent_inv c s f sp a : Inv c s -> Inv c (spent s f sp a).
Proof.
  intros [H0 HI]. split; [unfold spent; destruct (0 <? a); exact H0|]. intros o p.
  unfold spent. destruct (0 <? a); [|apply HI].
  cbn [set_alw alw now]. unfold upd2. destruct (N.eqb o f && N.eqb p sp) eqn:E; [|apply HI].
  cbn [snd]. unfold allowance_data. pose proof (HI f sp). destruct (alw s f sp) as [al lu].
  cbn [snd] in *. destruct (lu <? now s) eqn:El; cbn [snd]; b2p; lia.
Qed.

Lemma spent_lu s f sp a x y :
  negb (a <? 0) && spend_ok (view_st s) f sp a = true ->
  snd (alw (spent s f sp a) x y) = snd (alw s x y).
Proof.
  unfold spend_ok, view_st, implies. cbn [v_alw]. intros H. unfold spent.
  destruct (0 <? a) eqn:E0; [|reflexivity].
  cbn [set_alw alw]. unfold upd2. destruct (N.eqb x f && N.eqb y sp) eqn:Exy; [|reflexivity].
  cbn [snd]. b2p. subst. unfold allowance, allowance_data in *.
  destruct (alw s f sp) as [al lu]. destruct (lu <? now s) eqn:El; cbn [fst snd] in *; [lia|reflexivity].
Qed.

(* live_until of the stored allowances after a token operation *)
Definition exp_lu (s : state) (o : op) (x y : addr) : Z :=
  match o with
  | Approve ow sp _ lu => if N.eqb x ow && N.eqb y sp then lu else snd (alw s x y)
  | _ => snd (alw s x y)
  end.

(* ------------------------------------------------------------------ *)
(* the fungible core meets its observation-level specification         *)
Definition tok_effects (s : state) (o : op) (s' : state) : Prop :=
  supply s' = exp_supply (view_st s) o /\
  (forall x, bal s' x = exp_bal (view_st s) o x) /\
  (forall x y, allowance s' x y = exp_alw (view_st s) o x y) /\
  same_gates s s' /\ (forall x y, snd (alw s' x y) = exp_lu s o x y).

Definition op_spec (c : cfg) (h : hist) (s : state) (au : list addr) (o : op) (r : res state) : Prop :=
  match r with
  | Ok s' => base_ok c h (view_st s) au o = true /\ tok_effects s o s' /\ Inv c s'
  | Fail => base_ok c h (view_st s) au o = false
  end.

Lemma inv_same_alw c s s' : alw s' = alw s -> now s' = now s -> Inv c s -> Inv c s'.
Proof. intros Ha Hn [H0 HI]. unfold Inv. rewrite Ha, Hn. split; assumption. Qed.

Lemma allowance_same s s' x y : alw s' = alw s -> now s' = now s -> allowance s' x y = allowance s x y.
Proof. intros Ha Hn. rewrite !allowance_unfold, Ha, Hn. reflexivity. Qed.

Lemma base_transfer_spec c h s au f t a : Inv c s ->
  op_spec c h s au (Transfer f t a) (base_transfer s au f t a).
Proof.
  intros HI. unfold op_spec, base_transfer, require_auth, guard, base_ok.
  destruct (has_auth au f); cbn [bind andb]; [|reflexivity].
  rewrite update_transfer.
  destruct (negb (a <? 0)); cbn [andb]; [|reflexivity].
  destruct (debit_ok (view_st s) f a); cbn [andb]; [|reflexivity].
  destruct (credit_ok (view_st s) (Some f) t a); [|reflexivity].
  split; [reflexivity|]. split.
  - unfold tok_effects. split; [reflexivity|]. split; [|split; [|repeat split; try (intros x y; cbn [set_alw alw exp_lu]; unfold upd2; destruct (N.eqb x _ && N.eqb y _); reflexivity)]].
    + intros x. cbn [exp_bal view_st v_bal set_bal bal]. unfold updZ. reflexivity.
    + intros x y. reflexivity.
  - eapply inv_same_alw; eauto.
Qed.

Lemma base_burn_spec c h s au f a : Inv c s ->
  op_spec c h s au (Burn f a) (base_burn s au f a).
Proof.
  intros HI. unfold op_spec, base_burn, require_auth, guard, base_ok.
  destruct (has_auth au f); cbn [bind andb]; [|reflexivity].
  rewrite update_burn. cbn [view_st v_supply].
  destruct (negb (a <? 0)); cbn [andb]; [|reflexivity].
  destruct (debit_ok (view_st s) f a); cbn [andb]; [|reflexivity].
  destruct (in_i128 (supply s - a)); [|reflexivity].
  split; [reflexivity|]. split.
  - unfold tok_effects. split; [reflexivity|]. split; [|split; [|repeat split; try (intros x y; cbn [set_alw alw exp_lu]; unfold upd2; destruct (N.eqb x _ && N.eqb y _); reflexivity)]].
    + intros x. cbn [exp_bal view_st v_bal set_bal set_supply bal]. unfold updZ. reflexivity.
    + intros x y. reflexivity.
  - eapply inv_same_alw; eauto.
Qed.

Lemma base_mint_spec c h s au t a : Inv c s ->
  op_spec c h s au (Mint t a) (base_mint s t a).
Proof.
  intros HI. unfold op_spec, base_mint, base_ok.
  rewrite update_mint. cbn [view_st v_supply].
  destruct (negb (a <? 0)); cbn [andb]; [|reflexivity].
  destruct (in_i128 (supply s + a)); cbn [andb]; [|reflexivity].
  destruct (credit_ok (view_st s) None t a); [|reflexivity].
  split; [reflexivity|]. split.
  - unfold tok_effects. split; [reflexivity|]. split; [|split; [|repeat split; try (intros x y; cbn [set_alw alw exp_lu]; unfold upd2; destruct (N.eqb x _ && N.eqb y _); reflexivity)]].
    + intros x. cbn [exp_bal view_st v_bal set_bal set_supply bal]. unfold updZ. reflexivity.
    + intros x y. reflexivity.
  - eapply inv_same_alw; eauto.
Qed.

Lemma base_approve_spec c h s au o sp a lu : Inv c s -> h_now h = now s ->
  op_spec c h s au (Approve o sp a lu) (base_approve c s au o sp a lu).
Proof.
  intros [H0 HI] Hn. unfold op_spec, base_approve, require_auth, set_allowance, guard, base_ok, max_live.
  rewrite Hn.
  destruct (has_auth au o); cbn [bind andb]; [|reflexivity].
  destruct (a <? 0) eqn:Ea; cbn [negb bind andb]; [reflexivity|].
  destruct (negb ((now s + max_ttl c - 1 <? lu) || (0 <? a) && (lu <? now s))) eqn:G; cbn [bind]; [|reflexivity].
  split; [reflexivity|]. split.
  - unfold tok_effects. split; [reflexivity|]. split; [|split; [|repeat split; try (intros x y; cbn [set_alw alw exp_lu]; unfold upd2; destruct (N.eqb x _ && N.eqb y _); reflexivity)]].
    + intros x. reflexivity.
    + intros x y. rewrite allowance_unfold. cbn [set_alw alw now exp_alw view_st v_alw]. unfold upd2.
      destruct (N.eqb x o && N.eqb y sp); [|rewrite <- allowance_unfold; reflexivity].
      cbn [fst snd]. b2p. apply orb_false_iff in G. destruct G as [G1 G2].
      destruct (lu <? now s) eqn:El; [|reflexivity].
      rewrite andb_true_r in G2. b2p. lia.
  - split; [exact H0|]. intros x y. cbn [set_alw alw now]. unfold upd2.
    destruct (N.eqb x o && N.eqb y sp); [|apply HI]. cbn [snd].
    b2p. apply orb_false_iff in G. destruct G as [G1 G2]. b2p. lia.
Qed.

Lemma base_transfer_from_spec c h s au sp f t a : Inv c s ->
  op_spec c h s au (TransferFrom sp f t a) (base_transfer_from c s au sp f t a).
Proof.
  intros HI. unfold op_spec, base_transfer_from, require_auth, guard, base_ok.
  destruct (has_auth au sp); cbn [bind andb]; [|reflexivity].
  rewrite (spend_closed c s f sp a HI).
  destruct (negb (a <? 0) && spend_ok (view_st s) f sp a) eqn:ES.
  2:{ cbn [bind andb]. reflexivity. }
  cbn [bind]. rewrite update_transfer.
  destruct (spent_fields s f sp a) as (Hb & Hs & Hg).
  assert (Hd : debit_ok (view_st (spent s f sp a)) f a = debit_ok (view_st s) f a)
    by (unfold debit_ok, view_st; cbn [v_bal]; rewrite Hb; reflexivity).
  assert (Hc : credit_ok (view_st (spent s f sp a)) (Some f) t a = credit_ok (view_st s) (Some f) t a)
    by (unfold credit_ok, view_st; cbn [v_bal]; rewrite Hb; reflexivity).
  rewrite Hd, Hc.
  destruct (proj1 (andb_true_iff _ _) ES) as [E1 _]. rewrite E1. cbn [andb].
  destruct (debit_ok (view_st s) f a); cbn [andb]; [|reflexivity].
  destruct (credit_ok (view_st s) (Some f) t a); [|reflexivity].
  split; [reflexivity|]. split.
  - unfold tok_effects. split; [cbn [set_bal supply exp_supply view_st v_supply]; exact Hs|].
    split; [|split].
    + intros x. cbn [exp_bal view_st v_bal set_bal bal]. rewrite Hb. unfold updZ. reflexivity.
    + intros x y. rewrite (allowance_same (spent s f sp a)) by reflexivity.
      rewrite spent_allowance by exact ES. reflexivity.
    + destruct Hg as (g1 & g2 & g3 & g4 & g5 & g6 & g7 & g8). split; [repeat split; cbn; assumption|].
      intros x y. cbn [exp_lu set_bal set_supply alw]. apply spent_lu. exact ES.
  - eapply inv_same_alw; [| |apply (spent_inv c s f sp a HI)]; reflexivity.
Qed.

Lemma base_burn_from_spec c h s au sp f a : Inv c s ->
  op_spec c h s au (BurnFrom sp f a) (base_burn_from c s au sp f a).
Proof.
  intros HI. unfold op_spec, base_burn_from, require_auth, guard, base_ok.
  destruct (has_auth au sp); cbn [bind andb]; [|reflexivity].
  rewrite (spend_closed c s f sp a HI).
  destruct (negb (a <? 0) && spend_ok (view_st s) f sp a) eqn:ES.
  2:{ cbn [bind andb]. reflexivity. }
  cbn [bind]. rewrite update_burn.
  destruct (spent_fields s f sp a) as (Hb & Hs & Hg).
  assert (Hd : debit_ok (view_st (spent s f sp a)) f a = debit_ok (view_st s) f a)
    by (unfold debit_ok, view_st; cbn [v_bal]; rewrite Hb; reflexivity).
  rewrite Hd, Hs. cbn [view_st v_supply].
  destruct (proj1 (andb_true_iff _ _) ES) as [E1 _]. rewrite E1. cbn [andb].
  destruct (debit_ok (view_st s) f a); cbn [andb]; [|reflexivity].
  destruct (in_i128 (supply s - a)); [|reflexivity].
  split; [reflexivity|]. split.
  - unfold tok_effects. split; [reflexivity|].
    split; [|split].
    + intros x. cbn [exp_bal view_st v_bal set_bal set_supply bal]. rewrite Hb. unfold updZ. reflexivity.
    + intros x y. rewrite (allowance_same (spent s f sp a)) by reflexivity.
      rewrite spent_allowance by exact ES. reflexivity.
    + destruct Hg as (g1 & g2 & g3 & g4 & g5 & g6 & g7 & g8). split; [repeat split; cbn; assumption|].
      intros x y. cbn [exp_lu set_bal set_supply alw]. apply spent_lu. exact ES.
  - eapply inv_same_alw; [| |apply (spent_inv c s f sp a HI)]; reflexivity.
Qed.

(* ------------------------------------------------------------------ *)
(* every entry point of every contract meets the specification          *)
Definition Rel (c : cfg) (h : hist) (s : state) : Prop :=
  h_now h = now s /\ h_paused h = paused s /\ (forall x, h_listed h x = listed c s x) /\ h_armed h = migrating s /\
  (forall x, h_mgr h x = mgr s x) /\ (forall x y, h_lu h x y = snd (alw s x y)).

Definition effects (s : state) (o : op) (s' : state) : Prop :=
  supply s' = exp_supply (view_st s) o /\
  (forall x, bal s' x = exp_bal (view_st s) o x) /\
  (forall x y, match o with
               | Advance n => allowance s' x y = if snd (alw s x y) <? now s + n then 0 else allowance s x y
               | _ => allowance s' x y = exp_alw (view_st s) o x y
               end) /\
  cap s' = exp_cap (view_st s) o /\ mdata s' = exp_data (view_st s) o.

Definition step_spec (c : cfg) (h : hist) (s : state) (cl : call) (r : res state) : Prop :=
  match r with
  | Ok s' => expected_ok c h (view_st s) cl = true /\ effects s (fst cl) s' /\
             Rel c (hist_upd h (fst cl)) s' /\ Inv c s'
  | Fail => expected_ok c h (view_st s) cl = false
  end.

Definition is_token_op (o : op) : bool :=
  match o with
  | Transfer _ _ _ | TransferFrom _ _ _ _ | Approve _ _ _ _ | Burn _ _ | BurnFrom _ _ _ | Mint _ _ => true
  | _ => false
  end.

Lemma bind_guard (b : bool) (r : res state) : (do _ <- guard b; r) = if b then r else Fail.
Proof. destruct b; reflexivity. Qed.
Lemma bind_guard2 (a b : bool) (r : res state) :
  (do _ <- (do _ <- guard a; guard b); r) = if a && b then r else Fail.
Proof. destruct a, b; reflexivity. Qed.
Lemma if_and (a b : bool) (r : res state) :
  (if a then (if b then r else Fail) else Fail) = if a && b then r else Fail.
Proof. destruct a, b; reflexivity. Qed.

Lemma rel_tok c h s o s' : is_token_op o = true -> Rel c h s -> same_gates s s' ->
  (forall x y, snd (alw s' x y) = exp_lu s o x y) -> Rel c (hist_upd h o) s'.
Proof.
  intros Ht (Rn & Rp & Rl & Ra & Rm & Ru) (g1 & g2 & g3 & g4 & g5 & g6 & g7 & g8) Hl.
  unfold Rel, listed. rewrite g1, g2, g3, g4, g6, g8.
  destruct o; cbn in Ht; try discriminate; cbn [hist_upd h_now h_paused h_listed h_armed h_mgr h_lu];
    repeat split; try assumption; intros x y; rewrite Hl; cbn [exp_lu]; try apply Ru.
  rewrite Ru. reflexivity.
Qed.

Lemma gated_token c h s au o (g : bool) (r : res state) :
  is_token_op o = true -> Rel c h s -> op_spec c h s au o r ->
  has_entry (knd c) o && gate_open c h (view_st s) o
    && implies (kind_eqb (knd c) KPaus && is_mint o) (has_auth au (owner c)) = g ->
  step_spec c h s (o, au) (if g then r else Fail).
Proof.
  intros Ht HR Hs Hg.
  assert (HE : expected_ok c h (view_st s) (o, au) = g && base_ok c h (view_st s) au o).
  { rewrite <- Hg. unfold expected_ok. cbn [fst snd].
    destruct o; cbn in Ht; try discriminate;
      repeat rewrite <- andb_assoc; repeat (f_equal; try apply andb_comm). }
  unfold step_spec. destruct g; [|rewrite HE; reflexivity].
  unfold op_spec in Hs. destruct r as [s'|]; [|rewrite HE, Hs; reflexivity].
  destruct Hs as (Hb & (e1 & e2 & e3 & e4 & e5) & HI).
  rewrite HE, Hb. split; [reflexivity|]. cbn [fst].
  split; [|split; [eapply rel_tok; eauto|exact HI]].
  destruct e4 as (g1 & g2 & g3 & g4 & g5 & g6 & g7 & g8).
  unfold effects. split; [exact e1|]. split; [exact e2|]. split.
  - intros x y. specialize (e3 x y). destruct o; cbn in Ht; try discriminate; exact e3.
  - split; destruct o; cbn in Ht; try discriminate; cbn [exp_cap exp_data view_st v_cap v_data]; assumption.
Qed.

Lemma check_cap_closed s a :
  check_cap s a = guard (match cap s with
                         | Some cp => in_i128 (supply s + a) && negb (cp <? supply s + a)
                         | None => false
                         end).
Proof.
  unfold check_cap, checked_add, fit128. destruct (cap s) as [cp|]; cbn [of_option bind]; [|reflexivity].
  destruct (in_i128 (supply s + a)); cbn [of_option bind andb]; reflexivity.
Qed.

Lemma ungated_token c h s au o (r : res state) :
  is_token_op o = true -> Rel c h s -> op_spec c h s au o r ->
  has_entry (knd c) o && gate_open c h (view_st s) o
    && implies (kind_eqb (knd c) KPaus && is_mint o) (has_auth au (owner c)) = true ->
  step_spec c h s (o, au) r.
Proof. intros. change r with (if true then r else Fail). eapply gated_token; eauto. Qed.

Ltac side_gate K HR :=
  let Rn := fresh "Rn" in let Rp := fresh "Rp" in let Rl := fresh "Rl" in let Ra := fresh "Ra" in let Rm := fresh "Rm" in
  destruct HR as (Rn & Rp & Rl & Ra & Rm & Ru);
  unfold gate_open; rewrite K;
  cbn [has_entry kind_eqb pausable_op vetted forallb is_mint implies andb negb orb view_st v_cap v_supply];
  rewrite ?Rp, ?Rl; unfold listed; rewrite ?K; cbn [is_block];
  repeat match goal with |- context [paused ?s] => destruct (paused s) end;
  repeat match goal with |- context [allowed ?s ?x] => destruct (allowed s x) end;
  repeat match goal with |- context [blocked ?s ?x] => destruct (blocked s x) end;
  repeat match goal with |- context [has_auth ?a ?x] => destruct (has_auth a x) end;
  rewrite ?andb_true_r; try reflexivity.

Ltac open_exec K :=
  unfold exec, exec_gen, exec_kind; cbn [fst snd]; rewrite K;
  cbn [exec_paus exec_paus_ex exec_paus_lib exec_allow_ex exec_allow_lib exec_block_ex exec_block_lib exec_cap_ex exec_cap_lib
       exec_upg_v1 exec_upg_v2 exec_upg_lib].

Ltac no_entry K :=
  open_exec K; unfold step_spec, expected_ok; cbn [fst snd]; rewrite K; reflexivity.

Ltac tok K HR HI base :=
  open_exec K;
  unfold al_transfer, al_transfer_from, al_approve, al_burn, al_burn_from,
         bl_transfer, bl_transfer_from, bl_approve, bl_burn, bl_burn_from, capped_mint,
         when_not_paused, require_auth;
  rewrite ?check_cap_closed, ?bind_guard, ?if_and;
  lazymatch goal with
  | |- step_spec _ _ _ _ (if _ then _ else Fail) => eapply gated_token
  | |- _ => eapply ungated_token
  end;
  [ reflexivity | exact HR | apply base; (exact HI || apply (proj1 HR)) | side_gate K HR ].

Ltac gate_open_case K HR :=
  open_exec K; unfold step_spec, expected_ok; cbn [fst snd]; rewrite K; cbn [kind_eqb andb orb];
  destruct HR as (Rn & Rp & Rl & Ra & Rm & Ru).

(* after a gate operation: effects trivial, Rel follows the history update, Inv unchanged *)
Ltac gate_post HI Rn Rp Rl Ra :=
  cbn [fst];
  split; [unfold effects; cbn; repeat split; intros; reflexivity|];
  split; [|first [exact HI | (eapply inv_same_alw; [| |exact HI]; reflexivity)]];
  unfold Rel; cbn [hist_upd h_now h_paused h_listed h_armed h_mgr];
  repeat split; cbn; try assumption; try reflexivity; try congruence.

Ltac mgr_post Rm EM :=
  try (intros x; specialize (Rm x); cbn [set_mgr mgr]; unfold updB;
       destruct (N.eqb x _) eqn:Ex; [apply N.eqb_eq in Ex; subst x; try rewrite EM; auto | exact Rm]).

Ltac list_post K Rl EA :=
  try (intros x; specialize (Rl x); unfold listed in *; rewrite K in *; cbn [is_block] in *;
       cbn [set_allowed set_blocked allowed blocked]; unfold updB;
       destruct (N.eqb x _) eqn:Ex; [apply N.eqb_eq in Ex; subst x; try rewrite EA in *; auto | exact Rl]).


Theorem exec_spec c h s cl : Inv c s -> Rel c h s -> step_spec c h s cl (exec c s cl).
Proof.
  intros HI HR. destruct cl as [o au]. destruct o.
  - (* Advance *)
    unfold exec, exec_gen. cbn [fst snd]. rewrite bind_guard.
    unfold step_spec, expected_ok. cbn [fst snd].
    destruct (n <? 0) eqn:En; cbn [negb]; [reflexivity|].
    split; [reflexivity|]. destruct HI as [H0 HI]. destruct HR as (Rn & Rp & Rl & Ra & Rm & Ru). b2p.
    split; [|split].
    + unfold effects. repeat split.
      intros x y. rewrite !allowance_unfold. cbn [set_now alw now].
      destruct (snd (alw s x y) <? now s + n) eqn:E1; [reflexivity|].
      b2p. assert (E2 : (snd (alw s x y) <? now s) = false) by (apply Z.ltb_ge; lia).
      rewrite E2. reflexivity.
    + unfold Rel. cbn. rewrite Rn. repeat split; assumption.
    + split; cbn [set_now now alw]; [lia|]. intros x y. specialize (HI x y). lia.
  - (* Transfer *)
    destruct (knd c) eqn:K; try (no_entry K); tok K HR HI base_transfer_spec.
  - (* TransferMux: the token code sees to.address() only *)
    change (step_spec c h s (Transfer from to amt, au) (exec c s (Transfer from to amt, au))).
    destruct (knd c) eqn:K; try (no_entry K); tok K HR HI base_transfer_spec.
  - destruct (knd c) eqn:K; try (no_entry K); tok K HR HI base_transfer_from_spec.
  - destruct (knd c) eqn:K; try (no_entry K); tok K HR HI base_approve_spec.
  - destruct (knd c) eqn:K; try (no_entry K); tok K HR HI base_burn_spec.
  - destruct (knd c) eqn:K; try (no_entry K); tok K HR HI base_burn_from_spec.
  - destruct (knd c) eqn:K; try (no_entry K); tok K HR HI base_mint_spec.
  - (* Pause *)
    destruct (knd c) eqn:K; try (no_entry K); gate_open_case K HR; rewrite ?orb_false_r;
      unfold pause, when_not_paused, require_auth; rewrite ?bind_guard, ?if_and; rewrite <- Rp;
      (match goal with |- match (if ?G then _ else _) with _ => _ end => destruct G end; [|reflexivity]);
      (split; [reflexivity|]); gate_post HI Rn Rp Rl Ra.
  - (* Unpause *)
    destruct (knd c) eqn:K; try (no_entry K); gate_open_case K HR; rewrite ?orb_false_r;
      unfold unpause, when_paused, require_auth; rewrite ?bind_guard, ?if_and; rewrite <- Rp;
      (match goal with |- match (if ?G then _ else _) with _ => _ end => destruct G end; [|reflexivity]);
      (split; [reflexivity|]); gate_post HI Rn Rp Rl Ra.
  - (* AllowUser *)
    destruct (knd c) eqn:K; try (no_entry K); gate_open_case K HR.
    + unfold only_manager, require_auth. rewrite ?bind_guard2, ?bind_guard, ?if_and. rewrite orb_false_r, (Rm operator).
      match goal with |- match (if ?G then _ else _) with _ => _ end => destruct G end; [|reflexivity].
      split; [reflexivity|]. unfold allow_user. destruct (allowed s user) eqn:EA; gate_post HI Rn Rp Rl Ra;
        list_post K Rl EA.
    + split; [reflexivity|]. unfold allow_user. destruct (allowed s user) eqn:EA; gate_post HI Rn Rp Rl Ra;
        list_post K Rl EA.
  - (* DisallowUser *)
    destruct (knd c) eqn:K; try (no_entry K); gate_open_case K HR.
    + unfold only_manager, require_auth. rewrite ?bind_guard2, ?bind_guard, ?if_and. rewrite orb_false_r, (Rm operator).
      match goal with |- match (if ?G then _ else _) with _ => _ end => destruct G end; [|reflexivity].
      split; [reflexivity|]. unfold disallow_user. destruct (allowed s user) eqn:EA; gate_post HI Rn Rp Rl Ra;
        list_post K Rl EA.
    + split; [reflexivity|]. unfold disallow_user. destruct (allowed s user) eqn:EA; gate_post HI Rn Rp Rl Ra;
        list_post K Rl EA.
  - (* BlockUser *)
    destruct (knd c) eqn:K; try (no_entry K); gate_open_case K HR.
    + unfold only_manager, require_auth. rewrite ?bind_guard2, ?bind_guard, ?if_and. rewrite orb_false_r, (Rm operator).
      match goal with |- match (if ?G then _ else _) with _ => _ end => destruct G end; [|reflexivity].
      split; [reflexivity|]. unfold block_user. destruct (blocked s user) eqn:EA; gate_post HI Rn Rp Rl Ra;
        list_post K Rl EA.
    + split; [reflexivity|]. unfold block_user. destruct (blocked s user) eqn:EA; gate_post HI Rn Rp Rl Ra;
        list_post K Rl EA.
  - (* UnblockUser *)
    destruct (knd c) eqn:K; try (no_entry K); gate_open_case K HR.
    + unfold only_manager, require_auth. rewrite ?bind_guard2, ?bind_guard, ?if_and. rewrite orb_false_r, (Rm operator).
      match goal with |- match (if ?G then _ else _) with _ => _ end => destruct G end; [|reflexivity].
      split; [reflexivity|]. unfold unblock_user. destruct (blocked s user) eqn:EA; gate_post HI Rn Rp Rl Ra;
        list_post K Rl EA.
    + split; [reflexivity|]. unfold unblock_user. destruct (blocked s user) eqn:EA; gate_post HI Rn Rp Rl Ra;
        list_post K Rl EA.
  - (* SetCap *)
    destruct (knd c) eqn:K; try (no_entry K). gate_open_case K HR.
    unfold set_cap. rewrite ?bind_guard.
    match goal with |- match (if ?G then _ else _) with _ => _ end => destruct G end; [|reflexivity].
    split; [reflexivity|]. gate_post HI Rn Rp Rl Ra.
  - (* Upgrade *)
    destruct (knd c) eqn:K; try (no_entry K); gate_open_case K HR;
      unfold upgrade, upg_require_auth, require_auth; rewrite ?bind_guard2, ?bind_guard, ?if_and;
      (match goal with |- match (if ?G then _ else _) with _ => _ end => destruct G end; [|reflexivity]);
      (split; [reflexivity|]); gate_post HI Rn Rp Rl Ra.
  - (* Migrate *)
    destruct (knd c) eqn:K; try (no_entry K); gate_open_case K HR;
    unfold migrate, upg_require_auth, ensure_can_complete_migration, require_auth; rewrite ?bind_guard2, ?bind_guard, ?if_and;
    rewrite <- Ra;
    (match goal with |- match (if ?G then _ else _) with _ => _ end => destruct G end; [|reflexivity]);
    (split; [reflexivity|]); gate_post HI Rn Rp Rl Ra.
  - (* LibEnable *)
    destruct (knd c) eqn:K; try (no_entry K). gate_open_case K HR.
    split; [reflexivity|]. gate_post HI Rn Rp Rl Ra.
  - (* LibComplete *)
    destruct (knd c) eqn:K; try (no_entry K). gate_open_case K HR.
    split; [reflexivity|]. gate_post HI Rn Rp Rl Ra.
  - (* LibEnsure *)
    destruct (knd c) eqn:K; try (no_entry K). gate_open_case K HR.
    unfold ensure_can_complete_migration. rewrite ?bind_guard. rewrite Ra.
    destruct (migrating s) eqn:EM; [|reflexivity].
    split; [reflexivity|]. gate_post HI Rn Rp Rl Ra.
  - (* WhenNotPaused = increment *)
    destruct (knd c) eqn:K; try (no_entry K); gate_open_case K HR;
      unfold increment, when_not_paused; rewrite ?bind_guard, ?if_and; rewrite Rp; cbn [view_st v_supply];
      (match goal with |- match (if ?G then _ else _) with _ => _ end => destruct G end; [|reflexivity]);
      (split; [reflexivity|]); gate_post HI Rn Rp Rl Ra.
  - (* WhenPaused = emergency_reset *)
    destruct (knd c) eqn:K; try (no_entry K); gate_open_case K HR;
      unfold emergency_reset, when_paused; rewrite ?bind_guard; rewrite Rp;
      (destruct (paused s) eqn:EP; [|reflexivity]);
      (split; [reflexivity|]); gate_post HI Rn Rp Rl Ra.
  - (* GrantManager *)
    destruct (knd c) eqn:K; try (no_entry K); gate_open_case K HR;
      unfold grant_manager, ensure_admin, require_auth; rewrite ?bind_guard, ?if_and;
      (match goal with |- match (if ?G then _ else _) with _ => _ end => destruct G end; [|reflexivity]);
      (split; [reflexivity|]); destruct (mgr s account) eqn:EM; gate_post HI Rn Rp Rl Ra; mgr_post Rm EM.
  - (* RevokeManager *)
    destruct (knd c) eqn:K; try (no_entry K); gate_open_case K HR;
      unfold revoke_manager, ensure_admin, require_auth; rewrite ?bind_guard, ?if_and; rewrite (Rm account);
      (match goal with |- match (if ?G then _ else _) with _ => _ end => destruct G end; [|reflexivity]);
      (split; [reflexivity|]); gate_post HI Rn Rp Rl Ra; mgr_post Rm Rm.
  - (* RenounceManager *)
    destruct (knd c) eqn:K; try (no_entry K); gate_open_case K HR;
      unfold renounce_manager, require_auth; rewrite ?bind_guard, ?if_and; rewrite (Rm caller);
      (match goal with |- match (if ?G then _ else _) with _ => _ end => destruct G end; [|reflexivity]);
      (split; [reflexivity|]); gate_post HI Rn Rp Rl Ra; mgr_post Rm Rm.
Qed.

(* ------------------------------------------------------------------ *)
(* reachable states: the gates follow the history of successful gate operations *)

Lemma init_inv c : wf_cfg c = true -> Inv c (init c).
Proof.
  unfold wf_cfg. intros H. b2p.
  assert (HE : Inv c (empty_state c)) by (split; cbn; [lia|intros; lia]).
  unfold init. destruct (knd c); try exact HE; (eapply inv_same_alw; [| |exact HE]; reflexivity).
Qed.

Lemma init_rel c : Rel c (hist0 c) (init c).
Proof.
  unfold Rel, hist0, init, listed. destruct (knd c) eqn:K; cbn; repeat split; intros; try reflexivity.
  unfold updB. destruct (N.eqb x (owner c)); reflexivity.
Qed.

(* the history kept alongside a run of the model *)
Definition hist_step (c : cfg) (hs : hist * state) (cl : call) : hist * state :=
  let '(h, s) := hs in
  let st := step c s cl in
  (if snd st then hist_upd h (fst cl) else h, fst st).
Definition hist_run (c : cfg) (hs : hist * state) (cs : list call) : hist * state :=
  fold_left (hist_step c) cs hs.

Lemma step_spec_step c h s cl : Inv c s -> Rel c h s ->
  let st := step c s cl in
  snd st = expected_ok c h (view_st s) cl /\
  (snd st = true -> effects s (fst cl) (fst st)) /\
  (snd st = false -> fst st = s) /\
  Rel c (if snd st then hist_upd h (fst cl) else h) (fst st) /\ Inv c (fst st).
Proof.
  intros HI HR. pose proof (exec_spec c h s cl HI HR) as H.
  unfold step, step_gen. fold (exec c s cl). unfold step_spec in H.
  destruct (exec c s cl) as [s'|]; cbn [fst snd].
  - destruct H as (H1 & H2 & H3 & H4).
    split; [symmetry; exact H1|]. split; [intros _; exact H2|]. split; [discriminate|]. split; assumption.
  - split; [symmetry; exact H|]. split; [discriminate|]. split; [reflexivity|]. split; assumption.
Qed.

Lemma hist_run_inv c cs : forall h s, Inv c s -> Rel c h s ->
  Rel c (fst (hist_run c (h, s) cs)) (snd (hist_run c (h, s) cs)) /\ Inv c (snd (hist_run c (h, s) cs)).
Proof.
  induction cs as [|cl r IH]; intros h s HI HR; [split; assumption|].
  cbn [hist_run fold_left]. unfold hist_step at 2.
  destruct (step_spec_step c h s cl HI HR) as (_ & _ & _ & HR' & HI').
  apply IH; assumption.
Qed.

Lemma hist_run_state c cs : forall h s, snd (hist_run c (h, s) cs) = run c s cs.
Proof.
  induction cs as [|cl r IH]; intros h s; [reflexivity|].
  cbn [hist_run fold_left run run_gen]. unfold hist_step at 2. apply IH.
Qed.

Theorem gates_follow_history c cs : wf_cfg c = true ->
  let h := fst (hist_run c (hist0 c, init c) cs) in
  let s := run c (init c) cs in
  now s = h_now h /\ paused s = h_paused h /\ (forall x, listed c s x = h_listed h x) /\ migrating s = h_armed h /\
  (forall x, mgr s x = h_mgr h x).
Proof.
  intros Hw. destruct (hist_run_inv c cs _ _ (init_inv c Hw) (init_rel c)) as [(R1 & R2 & R3 & R4 & R5 & R6) _].
  rewrite hist_run_state in *. cbn zeta. repeat split; intros; symmetry; auto.
Qed.

Lemma reach_inv c cs : wf_cfg c = true -> Inv c (run c (init c) cs).
Proof.
  intros Hw. destruct (hist_run_inv c cs _ _ (init_inv c Hw) (init_rel c)) as [_ HI].
  rewrite hist_run_state in HI. exact HI.
Qed.

(* the history that describes a given state *)
Definition hist_of (c : cfg) (s : state) : hist := mkHist (now s) (paused s) (listed c s) (migrating s) (mgr s) (fun x y => snd (alw s x y)).
Lemma rel_hist_of c s : Rel c (hist_of c s) s.
Proof. repeat split. Qed.
