(* C20 / claim-issuer signing keys: the two storage directions Topics(topic) -> keys and
   Pairs(key) -> (topic, registry) pairs refine ONE set of (key, topic, registry) triples. *)
From SC Require Import Lib.Prelude Model.SwapPop Model.RegCommon Model.RegKeys Run.C20 Proofs.C20Common.
From Coq Require Import Permutation PeanoNat.
Local Open Scope nat_scope.
Set Implicit Arguments.

Lemma ktriple_eqb_spec : forall a b : skey * N * N, ktriple_eqb a b = true <-> a = b.
Proof. apply pair_eqb_spec; [apply pair_eqb_spec; [apply skey_eqb_spec|apply N.eqb_eq]|apply N.eqb_eq]. Qed.

Definition kproj (x : skey * N * N) : N * N := (kt_topic x, kt_reg x).
(* the (topic, registry) pairs of key k, in insertion order *)
Definition proj_k (a : list (skey * N * N)) (k : skey) : list (N * N) := map kproj (pairs_of a k).

Lemma pairs_of_app a b k : pairs_of (a ++ b) k = pairs_of a k ++ pairs_of b k.
Proof. unfold pairs_of. apply filter_app. Qed.
Lemma proj_k_snoc a k' t r k :
  proj_k (a ++ [(k', t, r)]) k = if skey_eqb k' k then proj_k a k ++ [(t, r)] else proj_k a k.
Proof.
  unfold proj_k. rewrite pairs_of_app, map_app. cbn. unfold kt_key. cbn [fst].
  destruct (skey_eqb k' k); cbn; [reflexivity|apply app_nil_r].
Qed.
Lemma proj_k_rem a x k :
  proj_k (rem ktriple_eqb x a) k =
  if skey_eqb (kt_key x) k then rem kpair_eqb (kproj x) (proj_k a k) else proj_k a k.
Proof.
  unfold proj_k, pairs_of. induction a as [|y a IH]; cbn [rem filter map].
  - destruct (skey_eqb (kt_key x) k); reflexivity.
  - destruct (ktriple_eqb x y) eqn:Exy.
    + apply ktriple_eqb_spec in Exy. subst y. rewrite IH.
      destruct (skey_eqb (kt_key x) k) eqn:Ek; cbn [map rem]; auto.
      rewrite (eqb_refl kpair_eqb kpair_eqb_spec). reflexivity.
    + cbn [filter]. destruct (skey_eqb (kt_key y) k) eqn:Eyk; cbn [map]; rewrite IH; auto.
      destruct (skey_eqb (kt_key x) k) eqn:Ek; auto. cbn [rem].
      replace (kpair_eqb (kproj x) (kproj y)) with false; auto.
      symmetry. apply (eqb_neq kpair_eqb kpair_eqb_spec). intros E.
      apply skey_eqb_spec in Ek. apply skey_eqb_spec in Eyk.
      apply (eqb_neq ktriple_eqb ktriple_eqb_spec) in Exy. apply Exy.
      destruct x as [[kx tx] rx], y as [[ky ty] ry]. unfold kproj, kt_key, kt_topic, kt_reg in *. cbn in *.
      inversion E. congruence.
Qed.
Lemma memb_proj_k a k t r : memb ktriple_eqb (k, t, r) a = memb kpair_eqb (t, r) (proj_k a k).
Proof.
  unfold proj_k, pairs_of. induction a as [|y a IH]; cbn [memb filter map]; auto.
  destruct y as [[ky ty] ry]. unfold kt_key at 1. cbn [fst].
  destruct (skey_eqb ky k) eqn:Ek; cbn [map memb].
  - rewrite IH. f_equal. apply skey_eqb_spec in Ek. subst ky.
    unfold ktriple_eqb, kpair_eqb, pair_eqb, kproj, kt_topic, kt_reg. cbn.
    rewrite (eqb_refl skey_eqb skey_eqb_spec). reflexivity.
  - rewrite IH. replace (ktriple_eqb (k, t, r) (ky, ty, ry)) with false; auto.
    symmetry. apply (eqb_neq ktriple_eqb ktriple_eqb_spec). intros E. inversion E. subst.
    rewrite (eqb_refl skey_eqb skey_eqb_spec) in Ek. discriminate.
Qed.
Lemma proj_k_length a k : length (proj_k a k) = length (pairs_of a k).
Proof. unfold proj_k. apply map_length. Qed.
Lemma In_proj_k a k t r : In (t, r) (proj_k a k) <-> In (k, t, r) a.
Proof.
  rewrite <- (memb_In kpair_eqb kpair_eqb_spec), <- (memb_In ktriple_eqb ktriple_eqb_spec), memb_proj_k. tauto.
Qed.
Lemma NoDup_proj_k a k : NoDup a -> NoDup (proj_k a k).
Proof.
  unfold proj_k, pairs_of. induction 1 as [|y a Hy Hn IH]; cbn [filter map]; [constructor|].
  destruct (skey_eqb (kt_key y) k) eqn:Ek; auto. cbn [map]. constructor; auto.
  intros Hin. apply Hy. apply skey_eqb_spec in Ek. destruct y as [[ky ty] ry]. unfold kt_key in Ek. cbn in Ek. subst ky.
  apply (In_proj_k a k ty ry). exact Hin.
Qed.
Lemma In_keys_of a t k : In k (keys_of a t) <-> exists r, In (k, t, r) a.
Proof.
  unfold keys_of. rewrite in_map_iff. split.
  - intros [[[k' t'] r] [E Hin]]. apply filter_In in Hin. destruct Hin as [Hin Et].
    unfold kt_key, kt_topic in *. cbn in *. apply N.eqb_eq in Et. subst. eauto.
  - intros [r Hin]. exists (k, t, r). split; auto. apply filter_In. split; auto.
    unfold kt_topic. cbn. apply N.eqb_refl.
Qed.
Lemma nodup_keys_spec l : NoDup (nodup_keys l) /\ forall k, In k (nodup_keys l) <-> In k l.
Proof.
  induction l as [|x l [IH1 IH2]]; cbn [nodup_keys fold_right]; [split; [constructor|tauto]|].
  fold (nodup_keys l). destruct (memb skey_eqb x (nodup_keys l)) eqn:E.
  - split; auto. intros k. rewrite IH2. cbn. split; auto. intros [->|H]; auto.
    apply IH2. apply (memb_In skey_eqb skey_eqb_spec). auto.
  - split.
    + constructor; auto. apply (memb_false skey_eqb skey_eqb_spec). auto.
    + intros k. cbn. rewrite IH2. tauto.
Qed.
Lemma same_set_length {B} (l m : list B) : NoDup l -> NoDup m -> (forall x, In x l <-> In x m) -> length l = length m.
Proof. intros Hl Hm H. apply Nat.le_antisymm; apply NoDup_incl_length; auto; intros x Hx; apply H; auto. Qed.
Lemma permb_refl (l : list N) : permb N.eqb l l = true.
Proof.
  unfold permb. rewrite Nat.eqb_refl. cbn [andb]. apply forallb_forall. intros x _. apply Nat.eqb_refl.
Qed.
Lemma existsb_topic_proj a k t :
  existsb (fun p : N * N => N.eqb (fst p) t) (proj_k a k) = memb skey_eqb k (keys_of a t).
Proof.
  destruct (memb skey_eqb k (keys_of a t)) eqn:E.
  - apply (memb_In skey_eqb skey_eqb_spec) in E. apply In_keys_of in E. destruct E as [r Hr].
    apply existsb_exists. exists (t, r). split; [apply In_proj_k; auto|cbn; apply N.eqb_refl].
  - apply (memb_false skey_eqb skey_eqb_spec) in E.
    destruct (existsb (fun p : N * N => N.eqb (fst p) t) (proj_k a k)) eqn:Ex; auto.
    apply existsb_exists in Ex. destruct Ex as [[t' r] [Hin Et]]. cbn in Et. apply N.eqb_eq in Et. subst t'.
    exfalso. apply E. apply In_keys_of. exists r. apply In_proj_k. auto.
Qed.

Lemma eqb_sym_skey (x y : skey) : skey_eqb x y = skey_eqb y x.
Proof.
  destruct (skey_eqb x y) eqn:E1, (skey_eqb y x) eqn:E2; auto.
  - apply skey_eqb_spec in E1. subst. rewrite (eqb_refl skey_eqb skey_eqb_spec) in E2. discriminate.
  - apply skey_eqb_spec in E2. subst. rewrite (eqb_refl skey_eqb skey_eqb_spec) in E1. discriminate.
Qed.

Lemma nil_of_noelem {B} (l : list B) : (forall x, ~ In x l) -> l = [].
Proof. destruct l as [|x l]; auto. intros H. exfalso. apply (H x). cbn. auto. Qed.

Section Keys.
  Variable c : ck_cfg.

  Definition opt_list {B} (l : list B) : option (list B) := match l with [] => None | _ => Some l end.

  Definition ck_rel (s : ck_state) (a : list (skey * N * N)) : Prop :=
    NoDup a
    /\ (forall k, kp_get (ck_pairs s) k = opt_list (proj_k a k))
    /\ (forall t, match kt_get (ck_topics s) t with
                  | Some ks => ks <> [] /\ NoDup ks /\ (forall k, In k ks <-> In k (keys_of a t))
                  | None => keys_of a t = []
                  end).

  Lemma ck_rel_init : ck_rel ck_init [].
  Proof. split; [constructor|]. split; intros; reflexivity. Qed.

  Lemma get0_pairs s a k : ck_rel s a ->
    (match kp_get (ck_pairs s) k with Some ps => ps | None => [] end) = proj_k a k.
  Proof. intros (_ & HP & _). rewrite HP. destruct (proj_k a k); reflexivity. Qed.

  Lemma allowed_topic_rel s a k t : ck_rel s a -> ck_allowed_for_topic s k t = memb skey_eqb k (keys_of a t).
  Proof.
    intros (_ & _ & HT). unfold ck_allowed_for_topic. specialize (HT t).
    destruct (kt_get (ck_topics s) t) as [ks|].
    - destruct HT as (_ & _ & Hiff).
      destruct (memb skey_eqb k ks) eqn:E1, (memb skey_eqb k (keys_of a t)) eqn:E2; auto.
      + apply (memb_In skey_eqb skey_eqb_spec) in E1. apply Hiff in E1.
        apply (memb_false skey_eqb skey_eqb_spec) in E2. contradiction.
      + apply (memb_In skey_eqb skey_eqb_spec) in E2. apply Hiff in E2.
        apply (memb_false skey_eqb skey_eqb_spec) in E1. contradiction.
    - rewrite HT. reflexivity.
  Qed.

  Lemma topic_len_rel s a t : ck_rel s a ->
    length (match kt_get (ck_topics s) t with Some ks => ks | None => [] end) = length (nodup_keys (keys_of a t)).
  Proof.
    intros (_ & _ & HT). specialize (HT t). destruct (nodup_keys_spec (keys_of a t)) as [Hn Hiff].
    destruct (kt_get (ck_topics s) t) as [ks|].
    - destruct HT as (_ & Hnk & Hk). apply same_set_length; auto. intros x. rewrite Hk, Hiff. tauto.
    - rewrite HT. reflexivity.
  Qed.

  Lemma keys_of_snoc_in a k t r t' k' :
    In k' (keys_of (a ++ [(k, t, r)]) t') <-> In k' (keys_of a t') \/ (k' = k /\ t' = t).
  Proof.
    rewrite !In_keys_of. split.
    - intros [r' H]. apply in_app_or in H. destruct H as [H|[H|[]]]; [left; eauto|]. inversion H. auto.
    - intros [[r' H]|[-> ->]]; [exists r'; apply in_or_app; auto|]. exists r. apply in_or_app. right. cbn. auto.
  Qed.

  Lemma ck_allow_sim s a pk reg sch t has : ck_rel s a ->
    match ck_allow c s pk reg sch t has with
    | Ok s' => exists a', ck_spec c a (CkAllow pk reg sch t has) = Ok a' /\ ck_rel s' a'
    | Fail => ck_spec c a (CkAllow pk reg sch t has) = Fail
    end.
  Proof.
    intros HR. pose proof HR as (Hn & HP & HT). unfold ck_allow. cbn [ck_spec].
    destruct (pk =? 0)%N; [reflexivity|]. destruct has as [[|]|]; try reflexivity.
    set (k := (pk, sch)).
    rewrite (allowed_topic_rel k t HR), (get0_pairs k HR).
    pose proof (topic_len_rel t HR) as Hlen. rewrite memb_proj_k, proj_k_length.
    destruct (memb skey_eqb k (keys_of a t)) eqn:Eal; cbn [negb andb bind].
    - (* key already allowed for the topic *)
      destruct (memb kpair_eqb (t, reg) (proj_k a k)) eqn:Em; [reflexivity|].
      destruct (ck_max_regs c <=? length (pairs_of a k)); [reflexivity|].
      eexists. split; [reflexivity|]. unfold ck_rel. cbn [ck_topics ck_pairs].
      split; [|split].
      + apply NoDup_snoc; auto. apply (memb_false ktriple_eqb ktriple_eqb_spec). rewrite memb_proj_k. auto.
      + intros k'. unfold kp_get, kp_set. rewrite (aget_aset skey_eqb skey_eqb_spec), proj_k_snoc.
        fold (kp_get (ck_pairs s) k'). rewrite HP.
        rewrite (eqb_sym_skey k' k). destruct (skey_eqb k k') eqn:E; auto.
        apply skey_eqb_spec in E. subst k'. destruct (proj_k a k); reflexivity.
      + intros t'. specialize (HT t'). destruct (kt_get (ck_topics s) t') as [ks|].
        * destruct HT as (H1 & H2 & H3). split; auto. split; auto. intros k'.
          rewrite keys_of_snoc_in, H3. split; auto. intros [H|[-> ->]]; auto.
          apply (memb_In skey_eqb skey_eqb_spec). auto.
        * (* impossible: the key is allowed for t, so t' <> t *)
          destruct (keys_of (a ++ [(k, t, reg)]) t') as [|k0 r0] eqn:Ek; auto.
          assert (Hin : In k0 (keys_of (a ++ [(k, t, reg)]) t')) by (rewrite Ek; cbn; auto).
          apply keys_of_snoc_in in Hin. rewrite HT in Hin. destruct Hin as [[]|[_ ->]].
          apply (memb_In skey_eqb skey_eqb_spec) in Eal. rewrite HT in Eal. destruct Eal.
    - (* first pair of this key for the topic *)
      rewrite Hlen. destruct (ck_max_keys c <=? length (nodup_keys (keys_of a t))) eqn:Elk; cbn [bind];
        [destruct (memb kpair_eqb (t, reg) (proj_k a k)); reflexivity|].
      destruct (memb kpair_eqb (t, reg) (proj_k a k)) eqn:Em; [reflexivity|].
      destruct (ck_max_regs c <=? length (pairs_of a k)); [reflexivity|].
      eexists. split; [reflexivity|]. unfold ck_rel. cbn [ck_topics ck_pairs].
      split; [|split].
      + apply NoDup_snoc; auto. apply (memb_false ktriple_eqb ktriple_eqb_spec). rewrite memb_proj_k. auto.
      + intros k'. unfold kp_get, kp_set. rewrite (aget_aset skey_eqb skey_eqb_spec), proj_k_snoc.
        fold (kp_get (ck_pairs s) k'). rewrite HP.
        rewrite (eqb_sym_skey k' k). destruct (skey_eqb k k') eqn:E; auto.
        apply skey_eqb_spec in E. subst k'. destruct (proj_k a k); reflexivity.
      + intros t'. unfold kt_get, kt_set in *. rewrite (aget_aset N.eqb N.eqb_eq).
        destruct (N.eqb t' t) eqn:Et.
        * apply N.eqb_eq in Et. subst t'. specialize (HT t).
          apply (memb_false skey_eqb skey_eqb_spec) in Eal.
          split; [intros E; apply app_eq_nil in E; destruct E as [_ E]; discriminate|].
          destruct (aget N.eqb t (ck_topics s)) as [ks|].
          -- destruct HT as (H1 & H2 & H3). split.
             ++ apply NoDup_snoc; auto. rewrite H3. auto.
             ++ intros k'. rewrite keys_of_snoc_in, in_app_iff, H3. cbn. intuition.
          -- split; [constructor; [intros []|constructor]|].
             intros k'. rewrite keys_of_snoc_in, HT. cbn. intuition.
        * apply N.eqb_neq in Et. specialize (HT t'). destruct (aget N.eqb t' (ck_topics s)) as [ks|].
          -- destruct HT as (H1 & H2 & H3). split; auto. split; auto. intros k'.
             rewrite keys_of_snoc_in, H3. intuition.
          -- destruct (keys_of (a ++ [(k, t, reg)]) t') as [|k0 r0] eqn:Ek; auto.
             assert (Hin : In k0 (keys_of (a ++ [(k, t, reg)]) t')) by (rewrite Ek; cbn; auto).
             apply keys_of_snoc_in in Hin. rewrite HT in Hin. destruct Hin as [[]|[_ E]]. congruence.
  Qed.

  Lemma keys_of_rem a k t r t' k' :
    In k' (keys_of (rem ktriple_eqb (k, t, r) a) t') <->
    exists r', In (k', t', r') a /\ (k', t', r') <> (k, t, r).
  Proof.
    rewrite In_keys_of. split; intros [r' H]; exists r'; apply (rem_In ktriple_eqb ktriple_eqb_spec); auto.
  Qed.

  Lemma ck_remove_sim s a pk reg sch t : ck_rel s a ->
    match ck_remove s pk reg sch t with
    | Ok s' => exists a', ck_spec c a (CkRemove pk reg sch t) = Ok a' /\ ck_rel s' a'
    | Fail => ck_spec c a (CkRemove pk reg sch t) = Fail
    end.
  Proof.
    intros HR. pose proof HR as (Hn & HP & HT). unfold ck_remove. cbn [ck_spec].
    set (k := (pk, sch)). set (x := (k, t, reg)).
    rewrite HP. unfold x. rewrite memb_proj_k. pose proof (NoDup_proj_k k Hn) as Hnp.
    destruct (proj_k a k) as [|p0 ps0] eqn:Epk; cbn [opt_list of_option bind]; [reflexivity|].
    rewrite <- Epk in *. clear p0 ps0 Epk.
    rewrite (index_of_memb kpair_eqb kpair_eqb_spec).
    destruct (index_of kpair_eqb (t, reg) (proj_k a k)) as [pos|] eqn:Epos; cbn [of_option bind]; [|reflexivity].
    rewrite (remove_at_index_of kpair_eqb kpair_eqb_spec (t, reg) Hnp Epos).
    set (a' := rem ktriple_eqb x a).
    assert (Hps' : rem kpair_eqb (t, reg) (proj_k a k) = proj_k a' k).
    { unfold a', x. rewrite proj_k_rem. unfold kt_key. cbn [fst]. rewrite (eqb_refl skey_eqb skey_eqb_spec). reflexivity. }
    rewrite Hps'. rewrite existsb_topic_proj.
    assert (Hxin : In x a).
    { apply In_proj_k. destruct (index_of_Some kpair_eqb kpair_eqb_spec _ _ Epos) as [H _]. eapply nth_error_In; eauto. }
    assert (Hn' : NoDup a') by (apply (rem_NoDup ktriple_eqb ktriple_eqb_spec); auto).
    (* the pairs map after the removal, in both branches *)
    assert (HP' : forall k', kp_get (match proj_k a' k with
                                     | [] => kp_del (ck_pairs s) k
                                     | _ :: _ => kp_set (ck_pairs s) k (proj_k a' k)
                                     end) k' = opt_list (proj_k a' k')).
    { intros k'. destruct (skey_eqb k' k) eqn:Ek.
      - apply skey_eqb_spec in Ek. subst k'. unfold kp_get, kp_del, kp_set.
        destruct (proj_k a' k) eqn:E; [rewrite aget_adel_eq|rewrite (aget_aset_eq skey_eqb skey_eqb_spec)]; reflexivity.
      - assert (Hne : k' <> k) by (apply (eqb_neq skey_eqb skey_eqb_spec); auto).
        assert (Hsame : proj_k a' k' = proj_k a k').
        { unfold a', x. rewrite proj_k_rem. unfold kt_key. cbn [fst]. rewrite eqb_sym_skey, Ek. reflexivity. }
        rewrite Hsame, <- HP. unfold kp_get, kp_del, kp_set.
        destruct (proj_k a' k); [apply (aget_adel_neq skey_eqb skey_eqb_spec)|apply (aget_aset_neq skey_eqb skey_eqb_spec)]; auto. }
    (* topics other than t keep their key sets *)
    assert (Hother : forall t' k', t' <> t -> (In k' (keys_of a' t') <-> In k' (keys_of a t'))).
    { intros t' k' Ht. unfold a', x. rewrite keys_of_rem, In_keys_of. split.
      - intros [r' [H _]]. eauto.
      - intros [r' H]. exists r'. split; auto. intros E. inversion E. congruence. }
    destruct (memb skey_eqb k (keys_of a' t)) eqn:Estill.
    - (* the key keeps another pair of topic t: the topic index is untouched *)
      exists a'. split; [reflexivity|]. unfold ck_rel. cbn [ck_topics ck_pairs]. split; auto. split; auto.
      intros t'. specialize (HT t').
      assert (Hset : forall k', In k' (keys_of a' t') <-> In k' (keys_of a t')).
      { intros k'. destruct (N.eq_dec t' t) as [->|Ht]; [|apply Hother; auto].
        unfold a', x. rewrite keys_of_rem, In_keys_of. split.
        - intros [r' [H _]]. eauto.
        - intros [r' H]. destruct (eqb_dec skey_eqb skey_eqb_spec k' k) as [->|Hk].
          + apply (memb_In skey_eqb skey_eqb_spec) in Estill. unfold a', x in Estill.
            apply keys_of_rem in Estill. exact Estill.
          + exists r'. split; auto. intros E. inversion E. congruence. }
      destruct (kt_get (ck_topics s) t') as [ks|].
      + destruct HT as (H1 & H2 & H3). split; auto. split; auto. intros k'. rewrite H3, Hset. tauto.
      + apply nil_of_noelem. intros k0 Hin. apply Hset in Hin. rewrite HT in Hin. destruct Hin.
    - (* last pair of this key for topic t: the key leaves the topic *)
      apply (memb_false skey_eqb skey_eqb_spec) in Estill.
      assert (Hkin : In k (keys_of a t)) by (apply In_keys_of; exists reg; exact Hxin).
      pose proof (HT t) as HTt. destruct (kt_get (ck_topics s) t) as [ks|] eqn:Eks; [|rewrite HTt in Hkin; destruct Hkin].
      destruct HTt as (H1 & H2 & H3). cbn [of_option bind].
      assert (Hkks : In k ks) by (apply H3; auto).
      destruct (index_of_In skey_eqb skey_eqb_spec k ks Hkks) as [kpos Ekpos]. rewrite Ekpos. cbn [of_option bind].
      rewrite (remove_at_index_of skey_eqb skey_eqb_spec k H2 Ekpos).
      exists a'. split; [reflexivity|]. unfold ck_rel. cbn [ck_topics ck_pairs]. split; auto. split; auto.
      assert (Hset : forall k', In k' (rem skey_eqb k ks) <-> In k' (keys_of a' t)).
      { intros k'. rewrite (rem_In skey_eqb skey_eqb_spec), H3. unfold a', x. rewrite keys_of_rem, In_keys_of. split.
        - intros [[r' H] Hk]. exists r'. split; auto. intros E. inversion E. congruence.
        - intros [r' [H Hne]]. split; [eauto|]. intros ->. apply Estill. unfold a', x. apply keys_of_rem. eauto. }
      intros t'. destruct (N.eq_dec t' t) as [->|Ht].
      + unfold kt_get, kt_del, kt_set. destruct (rem skey_eqb k ks) as [|k0 r0] eqn:Er.
        * rewrite aget_adel_eq. apply nil_of_noelem. intros k1 Hin. apply Hset in Hin. destruct Hin.
        * rewrite (aget_aset_eq N.eqb N.eqb_eq). split; [discriminate|]. split.
          -- rewrite <- Er. apply (rem_NoDup skey_eqb skey_eqb_spec). auto.
          -- intros k'. apply Hset.
      + assert (Hg : kt_get (match rem skey_eqb k ks with
                             | [] => kt_del (ck_topics s) t
                             | _ :: _ => kt_set (ck_topics s) t (rem skey_eqb k ks)
                             end) t' = kt_get (ck_topics s) t').
        { unfold kt_get, kt_del, kt_set. destruct (rem skey_eqb k ks);
            [apply (aget_adel_neq N.eqb N.eqb_eq)|apply (aget_aset_neq N.eqb N.eqb_eq)]; auto. }
        rewrite Hg. specialize (HT t'). destruct (kt_get (ck_topics s) t') as [ks'|].
        * destruct HT as (G1 & G2 & G3). split; auto. split; auto. intros k'. rewrite G3. symmetry. apply Hother. auto.
        * apply nil_of_noelem. intros k0 Hin. apply Hother in Hin; auto. rewrite HT in Hin. destruct Hin.
  Qed.

  Lemma ck_spec_sim s a k : ck_rel s a ->
    match ck_step c s k with
    | Ok (s', _) => exists a', ck_spec c a k = Ok a' /\ ck_rel s' a'
    | Fail => ck_spec c a k = Fail
    end.
  Proof.
    intros HR. destruct k as [pk reg sch t has|pk reg sch t]; cbn [ck_step].
    - pose proof (ck_allow_sim pk reg sch t has HR) as H.
      destruct (ck_allow c s pk reg sch t has); cbn [bind]; auto.
    - pose proof (ck_remove_sim pk reg sch t HR) as H.
      destruct (ck_remove s pk reg sch t); cbn [bind]; auto.
  Qed.

  Lemma skeys_eqb_refl (l : list skey) : list_eqb skey_eqb l l = true.
  Proof. apply (list_eqb_spec skey_eqb skey_eqb_spec). reflexivity. Qed.

  Lemma ck_chk_ok s a q : ck_rel s a -> ck_chk a (q, ck_answer s q) = true.
  Proof.
    intros HR. pose proof HR as (Hn & HP & HT).
    destruct q as [t|k|k t|k r]; cbn [ck_answer ck_chk].
    - unfold ck_keys_for_topic. specialize (HT t). destruct (nodup_keys_spec (keys_of a t)) as [Hnk Hiff].
      destruct (kt_get (ck_topics s) t) as [ks|]; cbn [of_option].
      + destruct HT as (H1 & H2 & H3). apply andb_true_intro. split.
        * destruct (keys_of a t) as [|k0 r0] eqn:E; auto. destruct ks as [|k1 r1]; [congruence|].
          exfalso. assert (Hin : In k1 (k1 :: r1)) by (cbn; auto). apply H3 in Hin. destruct Hin.
        * apply (enumb_spec skey_eqb skey_eqb_spec). split; auto. intros x. rewrite H3, Hiff. tauto.
      + rewrite HT. reflexivity.
    - unfold ck_registries. rewrite HP. unfold proj_k.
      assert (Hm : forall l : list (skey * N * N), map snd (map kproj l) = map kt_reg l).
      { intros l. rewrite map_map. reflexivity. }
      destruct (pairs_of a k) as [|x0 r0]; [reflexivity|].
      change (opt_list (map kproj (x0 :: r0))) with (Some (map kproj (x0 :: r0))).
      cbn [of_option bind]. rewrite Hm. cbn [negb andb]. apply permb_refl.
    - rewrite (allowed_topic_rel k t HR). apply bool_eqb_refl.
    - unfold ck_allowed_for_registry. rewrite HP. unfold proj_k.
      assert (Hm : forall l : list (skey * N * N),
                 existsb (fun p : N * N => N.eqb (snd p) r) (map kproj l) = existsb (fun x => N.eqb (kt_reg x) r) l).
      { intros l. induction l as [|y l IH]; cbn [map existsb]; auto. rewrite IH. reflexivity. }
      destruct (pairs_of a k) as [|x0 r0]; [reflexivity|].
      change (opt_list (map kproj (x0 :: r0))) with (Some (map kproj (x0 :: r0))).
      cbv beta iota. rewrite Hm. apply bool_eqb_refl.
  Qed.

  Lemma ck_mon_step s a cq : ck_rel s a ->
    exists a', mon_of (spec_unit (ck_spec c)) ck_chk (fun _ _ => true) a (model_ev (ck_step c) ck_answer s cq) = Some a'
               /\ ck_rel (step_state (ck_step c) s (fst cq)) a'.
  Proof.
    apply (@unit_mon_step _ _ _ _ _ (ck_step c) ck_answer (ck_spec c) ck_chk (fun _ _ => true) ck_rel).
    - intros. apply ck_spec_sim. auto.
    - intros. apply ck_chk_ok. auto.
    - reflexivity.
  Qed.
End Keys.
