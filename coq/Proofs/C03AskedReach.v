(* C03 - every policy of every deciding rule is asked, for every reachable account state. *)
From SC Require Import Lib.Prelude Lib.Int Lib.Host Model.SmartAccount Proofs.SmartAccount Proofs.SmartAccountInv
  Run.C03 Proofs.C03Monitor Proofs.C03Asked Proofs.C03Final.

Lemma Forall2_combine_In {A B} (P : A -> B -> Prop) l1 l2 x y :
  Forall2 P l1 l2 -> In (x, y) (combine l1 l2) -> P x y.
Proof.
  induction 1 as [|a b l1 l2 Hab Hf IH]; cbn [combine]; [intros []|].
  intros [E|Hi]; [inversion E; subst; exact Hab|auto].
Qed.

Theorem all_policies_asked_reachable cfg calls O now auths sigs cs log :
  let a := s_acct (run cfg init calls) in
  do_check_auth O a now auths sigs cs = Ok log ->
  exists rs, Forall2 (decides O a now (map fst sigs)) cs rs /\
    forall c r, In (c, r) (combine cs rs) -> forall p, In p (r_policies r) ->
      In (ECan p c (filter (fun s => mem_s s (map fst sigs)) (r_signers r)) r) log /\
      o_can O p c (filter (fun s => mem_s s (map fst sigs)) (r_signers r)) r = Some true.
Proof.
  intros a H. pose proof (reachable_wf cfg calls) as W. fold a in W.
  destruct (check_asks _ _ _ _ _ _ _ H) as [vs [Hf [Hask _]]].
  destruct (validated_shape _ _ _ _ _ _ W Hf) as [Hd Hs].
  exists (map (fun v => fst (fst v)) vs). split; [exact Hd|].
  intros c r Hcr p Hp. split.
  - apply (Hask r c (auth_of r (map fst sigs))); [|exact Hp].
    rewrite Hs. apply in_map_iff. exists (c, r). split; [reflexivity|exact Hcr].
  - pose proof (Forall2_combine_In _ _ _ _ _ Hd Hcr) as [_ [_ [_ [[[Hn _]|[_ Hreq]] _]]]].
    + rewrite Hn in Hp. destruct Hp.
    + apply Hreq. exact Hp.
Qed.
