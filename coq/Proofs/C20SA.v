(* C20 / smart-account context rules: Meta / Signers / Policies / Ids / Count / NextId /
   Fingerprint storage refines ONE map id -> rule; ids are never reused; the fingerprint
   set is exactly the set of live rules' fingerprints. *)
From SC Require Import Lib.Prelude Lib.Int Model.SwapPop Model.RegCommon Model.RegSA Run.C20 Proofs.C20Common.
From Coq Require Import Permutation PeanoNat.
Local Open Scope nat_scope.
Set Implicit Arguments.

Definition fp_of (r : rule) : ctxt * list signer * list N := (r_ctx r, r_signers r, r_policies r).
Definition meta_of (r : rule) : N * ctxt * option N := (r_name r, r_ctx r, r_until r).

(* ---- the reference list of rules: find / put / drop ---- *)
Lemma find_rule_id id l r : find_rule id l = Some r -> r_id r = id /\ In r l.
Proof.
  unfold find_rule. intros H. apply find_some in H. destruct H as [H1 H2]. apply N.eqb_eq in H2. auto.
Qed.
Lemma find_rule_none id l : find_rule id l = None <-> ~ In id (map r_id l).
Proof.
  unfold find_rule. split.
  - intros H Hin. apply in_map_iff in Hin. destruct Hin as [r [E Hr]].
    pose proof (find_none _ _ H r Hr) as Hn. cbn in Hn. rewrite E, N.eqb_refl in Hn. discriminate.
  - intros H. destruct (find (fun r => N.eqb (r_id r) id) l) as [r|] eqn:E; auto.
    apply find_some in E. destruct E as [E1 E2]. apply N.eqb_eq in E2. exfalso. apply H. subst. apply in_map. auto.
Qed.
Lemma find_rule_in id l r : NoDup (map r_id l) -> In r l -> r_id r = id -> find_rule id l = Some r.
Proof.
  unfold find_rule. induction l as [|x l IH]; cbn; [tauto|]. intros Hn Hin Hid. inversion Hn; subst.
  destruct (N.eqb (r_id x) (r_id r)) eqn:E.
  - apply N.eqb_eq in E. destruct Hin as [->|Hin]; auto. exfalso. apply H1. rewrite E. apply in_map. auto.
  - destruct Hin as [->|Hin]; [rewrite N.eqb_refl in E; discriminate|]. auto.
Qed.
Lemma find_rule_snoc id l r :
  find_rule id (l ++ [r]) = match find_rule id l with
                            | Some x => Some x
                            | None => if N.eqb (r_id r) id then Some r else None
                            end.
Proof.
  unfold find_rule. induction l as [|x l IH]; cbn; [destruct (N.eqb (r_id r) id); reflexivity|].
  destruct (N.eqb (r_id x) id); auto.
Qed.
Lemma find_rule_put id r' l :
  find_rule id (put_rule r' l) =
  if N.eqb id (r_id r') then match find_rule id l with Some _ => Some r' | None => None end
  else find_rule id l.
Proof.
  unfold find_rule, put_rule. induction l as [|x l IH]; cbn [map find].
  - destruct (N.eqb id (r_id r')); reflexivity.
  - destruct (N.eqb_spec (r_id x) (r_id r')) as [E1|E1].
    + destruct (N.eqb_spec id (r_id r')) as [E2|E2].
      * subst id. rewrite N.eqb_refl. rewrite E1, N.eqb_refl. reflexivity.
      * replace (N.eqb (r_id r') id) with false by (symmetry; apply N.eqb_neq; congruence).
        replace (N.eqb (r_id x) id) with false by (symmetry; apply N.eqb_neq; congruence).
        rewrite IH. replace (N.eqb id (r_id r')) with false by (symmetry; apply N.eqb_neq; auto). reflexivity.
    + destruct (N.eqb_spec (r_id x) id) as [E3|E3].
      * subst id. replace (N.eqb (r_id x) (r_id r')) with false by (symmetry; apply N.eqb_neq; auto). reflexivity.
      * exact IH.
Qed.
Lemma find_rule_drop id id' l :
  find_rule id (drop_rule id' l) = if N.eqb id id' then None else find_rule id l.
Proof.
  unfold find_rule, drop_rule. induction l as [|x l IH]; cbn [filter find].
  - destruct (N.eqb id id'); reflexivity.
  - destruct (N.eqb_spec (r_id x) id') as [E1|E1]; cbn [negb find].
    + rewrite IH. destruct (N.eqb_spec id id') as [E2|E2]; auto.
      replace (N.eqb (r_id x) id) with false by (symmetry; apply N.eqb_neq; congruence). reflexivity.
    + destruct (N.eqb_spec (r_id x) id) as [E3|E3].
      * subst id. replace (N.eqb (r_id x) id') with false by (symmetry; apply N.eqb_neq; auto). reflexivity.
      * exact IH.
Qed.
Lemma ids_put r' l : map r_id (put_rule r' l) = map r_id l.
Proof.
  unfold put_rule. induction l as [|x l IH]; cbn; auto. rewrite IH.
  destruct (N.eqb (r_id x) (r_id r')) eqn:E; auto. apply N.eqb_eq in E. congruence.
Qed.
Lemma in_put r' l x : In x (put_rule r' l) -> (x = r' /\ In (r_id r') (map r_id l)) \/ (In x l /\ r_id x <> r_id r').
Proof.
  unfold put_rule. intros H. apply in_map_iff in H. destruct H as [y [E Hy]].
  destruct (N.eqb (r_id y) (r_id r')) eqn:E1.
  - apply N.eqb_eq in E1. left. split; auto. rewrite <- E1. apply in_map. auto.
  - apply N.eqb_neq in E1. right. subst. auto.
Qed.
Lemma put_in_old r' l x : In x l -> r_id x <> r_id r' -> In x (put_rule r' l).
Proof.
  unfold put_rule. intros H Hne. apply in_map_iff. exists x. split; auto.
  replace (N.eqb (r_id x) (r_id r')) with false; auto. symmetry. apply N.eqb_neq. auto.
Qed.
Lemma put_in_new r' l : In (r_id r') (map r_id l) -> In r' (put_rule r' l).
Proof.
  unfold put_rule. intros H. apply in_map_iff in H. destruct H as [y [E Hy]]. apply in_map_iff. exists y.
  split; auto. rewrite E, N.eqb_refl. reflexivity.
Qed.
Lemma in_drop id l x : In x (drop_rule id l) <-> In x l /\ r_id x <> id.
Proof. unfold drop_rule. rewrite filter_In, negb_true_iff, N.eqb_neq. tauto. Qed.
Lemma ids_filter_put (P : ctxt -> bool) r' l :
  (forall x, In x l -> r_id x = r_id r' -> r_ctx x = r_ctx r') ->
  map r_id (filter (fun r => P (r_ctx r)) (put_rule r' l)) = map r_id (filter (fun r => P (r_ctx r)) l).
Proof.
  unfold put_rule. induction l as [|x l IH]; intros H; cbn; auto.
  assert (IH' := IH (fun y Hy => H y (or_intror Hy))).
  destruct (N.eqb (r_id x) (r_id r')) eqn:E.
  - apply N.eqb_eq in E. rewrite <- (H x (or_introl eq_refl) E).
    destruct (P (r_ctx x)); cbn; rewrite IH'; congruence.
  - destruct (P (r_ctx x)); cbn; rewrite IH'; reflexivity.
Qed.
Lemma ids_filter_drop (P : rule -> bool) id l :
  map r_id (filter P (drop_rule id l)) = rem N.eqb id (map r_id (filter P l)).
Proof.
  unfold drop_rule. induction l as [|x l IH]; cbn; auto.
  destruct (N.eqb (r_id x) id) eqn:E; cbn [negb].
  - destruct (P x); cbn [map rem]; rewrite IH; auto. rewrite (N.eqb_sym id (r_id x)), E. reflexivity.
  - cbn [filter]. destruct (P x); cbn [map rem]; rewrite IH; auto. rewrite (N.eqb_sym id (r_id x)), E. reflexivity.
Qed.
Lemma filter_snoc {B} (P : B -> bool) l x : filter P (l ++ [x]) = filter P l ++ (if P x then [x] else []).
Proof. rewrite filter_app. reflexivity. Qed.

Section SA.
  Variable c : sa_cfg.

  Definition sa_rel (s : sa_state) (a : sa_ref) : Prop :=
    let rules := rRules a in
    (forall id, aget N.eqb id (sa_meta s) = option_map meta_of (find_rule id rules))
    /\ (forall id, aget N.eqb id (sa_signers s) = option_map r_signers (find_rule id rules))
    /\ (forall id, aget N.eqb id (sa_policies s) = option_map r_policies (find_rule id rules))
    /\ (forall cx, sa_ids_of s cx = map r_id (filter (fun r => ctxt_eqb (r_ctx r) cx) rules))
    /\ (sa_count s = Some (length rules) \/ (sa_count s = None /\ rules = []))
    /\ (match sa_next s with Some n => n | None => 0%N end = rBound a)
    /\ NoDup (map r_id rules)
    /\ (forall r, In r rules -> (r_id r < rBound a)%N)
    /\ (forall f, In f (sa_fps s) <-> exists r, In r rules /\ f = fp_of r)
    /\ (forall r, In r rules -> NoDup (r_signers r) /\ NoDup (r_policies r))
    /\ (forall r1 r2, In r1 rules -> In r2 rules -> fp_same (fp_of r1) (fp_of r2) = true -> r1 = r2)
    /\ (forall r, In r rules -> sa_validate c (r_signers r) (r_policies r) = true)
    /\ rAdds a = rBound a.

  Lemma sa_rel_init : sa_rel sa_init sa_ref0.
  Proof.
    unfold sa_rel. cbn. repeat split; auto; try constructor; try tauto.
    all: try (intros [r [[] _]]); try (intros []); try (intros r []).
  Qed.

  Lemma rule_eta r : {| r_id := r_id r; r_ctx := r_ctx r; r_name := r_name r; r_signers := r_signers r;
                        r_policies := r_policies r; r_until := r_until r |} = r.
  Proof. destruct r; reflexivity. Qed.

  Lemma sa_get_rule_rel s a id : sa_rel s a -> sa_get_rule s id = of_option (find_rule id (rRules a)).
  Proof.
    intros (HM & HS & HP & _). unfold sa_get_rule. rewrite HM, HS, HP.
    destruct (find_rule id (rRules a)) as [r|] eqn:E; cbn [option_map of_option bind]; auto.
    destruct (find_rule_id _ _ E) as [Hid _]. unfold meta_of. cbn. rewrite <- Hid. rewrite rule_eta. reflexivity.
  Qed.

  Lemma count0_rel s a : sa_rel s a -> sa_count0 s = length (rRules a).
  Proof.
    intros (_ & _ & _ & _ & HC & _). unfold sa_count0. destruct HC as [H|[H1 H2]]; [rewrite H; auto|rewrite H1, H2; auto].
  Qed.

  (* duplicate-fingerprint test: the stored fingerprints are those of the live rules *)
  Lemma existsb_fps s a f : sa_rel s a ->
    existsb (fp_same f) (sa_fps s) = existsb (fun r => fp_same f (fp_of r)) (rRules a).
  Proof.
    intros (_ & _ & _ & _ & _ & _ & _ & _ & HF & _).
    destruct (existsb (fp_same f) (sa_fps s)) eqn:E1; symmetry.
    - apply existsb_exists in E1. destruct E1 as [g [Hg E]]. apply HF in Hg. destruct Hg as [r [Hr ->]].
      apply existsb_exists. eauto.
    - destruct (existsb (fun r => fp_same f (fp_of r)) (rRules a)) eqn:E2; auto.
      apply existsb_exists in E2. destruct E2 as [r [Hr E]].
      assert (existsb (fp_same f) (sa_fps s) = true).
      { apply existsb_exists. exists (fp_of r). split; auto. apply HF. eauto. }
      congruence.
  Qed.
  Lemma same_fp_fp_same cx sg po r : same_fp cx sg po r = fp_same (cx, sg, po) (fp_of r).
  Proof. reflexivity. Qed.

  Lemma fp_same_refl f : fp_same f f = true.
  Proof.
    unfold fp_same. rewrite (proj2 (ctxt_eqb_spec _ _) eq_refl).
    rewrite (proj2 (seteqb_spec signer_eqb signer_eqb_spec _ _)) by tauto.
    rewrite (proj2 (seteqb_spec N.eqb N.eqb_eq _ _)) by tauto. reflexivity.
  Qed.
  Lemma fp_same_sym f g : fp_same f g = fp_same g f.
  Proof.
    assert (H : forall f g, fp_same f g = true -> fp_same g f = true).
    { intros f0 g0. unfold fp_same. rewrite !andb_true_iff, !ctxt_eqb_spec.
      rewrite !(seteqb_spec signer_eqb signer_eqb_spec), !(seteqb_spec N.eqb N.eqb_eq).
      intros [[H1 H2] H3]. split; [split|]; [auto | intros y; symmetry; apply H2 | intros y; symmetry; apply H3]. }
    destruct (fp_same f g) eqn:E1, (fp_same g f) eqn:E2; auto.
    - apply H in E1. congruence.
    - apply H in E2. congruence.
  Qed.
  Lemma fp_same_trans f g h : fp_same f g = true -> fp_same g h = true -> fp_same f h = true.
  Proof.
    unfold fp_same. rewrite !andb_true_iff, !ctxt_eqb_spec.
    rewrite !(seteqb_spec signer_eqb signer_eqb_spec), !(seteqb_spec N.eqb N.eqb_eq).
    intros [[H1 H2] H3] [[G1 G2] G3]. split; [split|]; [congruence| |].
    - intros y. rewrite H2. apply G2.
    - intros y. rewrite H3. apply G3.
  Qed.

  Lemma rule_sim_refl r : NoDup (r_signers r) -> NoDup (r_policies r) -> rule_sim r r = true.
  Proof.
    intros H1 H2. unfold rule_sim. rewrite !N.eqb_refl, (proj2 (ctxt_eqb_spec _ _) eq_refl).
    rewrite (enumb_refl signer_eqb signer_eqb_spec H1), (enumb_refl N.eqb N.eqb_eq H2).
    rewrite (proj2 (option_eqb_spec N.eqb N.eqb_eq _ _) eq_refl). reflexivity.
  Qed.

  Lemma NoDup_ids_filter (P : rule -> bool) l : NoDup (map r_id l) -> NoDup (map r_id (filter P l)).
  Proof.
    induction l as [|x l IH]; cbn; auto. intros H. inversion H; subst. destruct (P x); cbn; auto.
    constructor; auto. intros Hin. apply H2. apply in_map_iff in Hin. destruct Hin as [y [E Hy]].
    apply filter_In in Hy. rewrite <- E. apply in_map. tauto.
  Qed.
  Lemma drop_notin id l : ~ In id (map r_id l) -> drop_rule id l = l.
  Proof.
    unfold drop_rule. induction l as [|x l IH]; cbn; auto. intros H.
    destruct (N.eqb_spec (r_id x) id) as [E|E]; cbn [negb]; [exfalso; apply H; auto|].
    f_equal. apply IH. intros H'. apply H. auto.
  Qed.
  Lemma length_drop id l : NoDup (map r_id l) -> In id (map r_id l) -> S (length (drop_rule id l)) = length l.
  Proof.
    induction l as [|x l IH]; cbn [map length]; [intros _ []|]. intros Hn Hin. inversion Hn; subst.
    unfold drop_rule. cbn [filter]. fold (drop_rule id l).
    destruct (N.eqb_spec (r_id x) id) as [E|E]; cbn [negb].
    - subst id. rewrite drop_notin; auto.
    - cbn [length]. f_equal. apply IH; auto. destruct Hin as [Hin|Hin]; [contradiction|auto].
  Qed.

  (* ================= add_context_rule ================= *)
  Lemma maxu32_val : MAXU32 = 4294967295%Z.
  Proof. reflexivity. Qed.

  Lemma sa_add_rule_sim s a cx name until sg po : sa_rel s a ->
    exists a', sa_spec c a (SaAddRule cx name until sg po)
                 (match sa_add_rule c s cx name until sg po with Ok r => Ok (Some (snd r)) | Fail => Fail end) = Some a'
      /\ sa_rel (match sa_add_rule c s cx name until sg po with Ok r => fst r | Fail => s end) a'.
  Proof.
    intros HR. pose proof HR as (HM & HS & HP & HI & HC & HN & HU & HB & HF & HW & HD & HV & HA).
    unfold sa_add_rule. cbn [sa_spec]. rewrite (count0_rel HR), HN.
    set (pol := map fst po).
    assert (Hrefused : forall b : bool, b = true ->
              exists a', (if b then Some a else None) = Some a' /\ sa_rel s a').
    { intros b ->. exists a. split; auto. }
    destruct (sa_max_rules c <=? length (rRules a)) eqn:E1.
    { cbn [bind]. cbv beta iota. apply Hrefused. reflexivity. }
    destruct (nodupb signer_eqb sg) eqn:E2; cbn [negb].
    2:{ cbn [bind]. cbv beta iota. apply Hrefused. reflexivity. }
    destruct (until_ok c until) eqn:E3; cbn [negb].
    2:{ cbn [bind]. cbv beta iota. apply Hrefused. cbn [orb]. rewrite !orb_true_r. reflexivity. }
    destruct (sa_validate c sg pol) eqn:E4; cbn [negb].
    2:{ cbn [bind]. cbv beta iota. apply Hrefused. cbn [orb]. rewrite !orb_true_r. reflexivity. }
    unfold sa_set_fp, sa_fp. rewrite E2. cbn [negb].
    destruct (nodupb N.eqb pol) eqn:E5; cbn [negb bind].
    2:{ cbn [bind]. cbv beta iota. apply Hrefused. reflexivity. }
    rewrite (existsb_fps (cx, sg, pol) HR).
    change (existsb (fun r => fp_same (cx, sg, pol) (fp_of r)) (rRules a)) with (existsb (same_fp cx sg pol) (rRules a)).
    destruct (existsb (same_fp cx sg pol) (rRules a)) eqn:E6.
    { cbn [bind]. cbv beta iota. apply Hrefused. reflexivity. }
    cbn [bind]. destruct (forallb snd po) eqn:E7; cbn [negb].
    2:{ cbn [bind]. cbv beta iota. apply Hrefused. reflexivity. }
    destruct (in_u32 (Z.of_N (rBound a) + 1)) eqn:E8; cbn [negb orb].
    2:{ cbn [bind]. cbv beta iota. apply Hrefused. apply N.leb_le. rewrite HA.
        unfold in_u32 in E8. rewrite maxu32_val in E8. apply andb_false_iff in E8.
        destruct E8 as [E8|E8]; [apply Z.leb_gt in E8|apply Z.leb_gt in E8]; lia. }
    cbn [fst snd r_id]. rewrite N.leb_refl. cbn [negb andb].
    apply (nodupb_NoDup signer_eqb signer_eqb_spec) in E2. apply (nodupb_NoDup N.eqb N.eqb_eq) in E5.
    set (want := {| r_id := rBound a; r_ctx := cx; r_name := name; r_signers := sg; r_policies := pol; r_until := until |}).
    rewrite (rule_sim_refl want E2 E5). eexists. split; [reflexivity|].
    assert (Hfresh : find_rule (rBound a) (rRules a) = None).
    { apply find_rule_none. intros Hin. apply in_map_iff in Hin. destruct Hin as [r [E Hr]]. apply HB in Hr. lia. }
    unfold sa_rel. cbn [rRules rBound sa_meta sa_signers sa_policies sa_ids sa_fps sa_count sa_next].
    split; [|split; [|split; [|split; [|split; [|split; [|split; [|split; [|split; [|split; [|split; [|split]]]]]]]]]]].
    - intros id. rewrite (aget_aset N.eqb N.eqb_eq), find_rule_snoc, HM. cbn [r_id want].
      destruct (N.eqb_spec id (rBound a)) as [->|E].
      + rewrite Hfresh, N.eqb_refl. reflexivity.
      + replace (N.eqb (rBound a) id) with false by (symmetry; apply N.eqb_neq; auto).
        destruct (find_rule id (rRules a)); reflexivity.
    - intros id. rewrite (aget_aset N.eqb N.eqb_eq), find_rule_snoc, HS. cbn [r_id want].
      destruct (N.eqb_spec id (rBound a)) as [->|E].
      + rewrite Hfresh, N.eqb_refl. reflexivity.
      + replace (N.eqb (rBound a) id) with false by (symmetry; apply N.eqb_neq; auto).
        destruct (find_rule id (rRules a)); reflexivity.
    - intros id. rewrite (aget_aset N.eqb N.eqb_eq), find_rule_snoc, HP. cbn [r_id want].
      destruct (N.eqb_spec id (rBound a)) as [->|E].
      + rewrite Hfresh, N.eqb_refl. reflexivity.
      + replace (N.eqb (rBound a) id) with false by (symmetry; apply N.eqb_neq; auto).
        destruct (find_rule id (rRules a)); reflexivity.
    - intros cx'. unfold sa_ids_of at 1. cbn [sa_ids]. rewrite (aget_aset ctxt_eqb ctxt_eqb_spec).
      rewrite filter_snoc, map_app. cbn [r_ctx want]. fold (sa_ids_of s cx').
      destruct (ctxt_eqb cx' cx) eqn:E.
      + apply ctxt_eqb_spec in E. subst cx'. rewrite (proj2 (ctxt_eqb_spec cx cx) eq_refl). rewrite HI. reflexivity.
      + replace (ctxt_eqb cx cx') with false.
        * cbn. rewrite app_nil_r. apply HI.
        * symmetry. apply (eqb_neq ctxt_eqb ctxt_eqb_spec). apply (eqb_neq ctxt_eqb ctxt_eqb_spec) in E. congruence.
    - left. rewrite app_length. cbn. f_equal. lia.
    - reflexivity.
    - rewrite map_app. cbn. apply NoDup_snoc; auto. intros Hin. apply in_map_iff in Hin.
      destruct Hin as [r [E Hr]]. apply HB in Hr. lia.
    - intros r Hr. apply in_app_or in Hr. destruct Hr as [Hr|[<-|[]]]; [apply HB in Hr; lia|cbn; lia].
    - intros f. cbn [In]. rewrite HF. split.
      + intros [<-|[r [Hr ->]]]; [exists want; split; [apply in_or_app; right; cbn; auto|reflexivity]|].
        exists r. split; auto. apply in_or_app. auto.
      + intros [r [Hr ->]]. apply in_app_or in Hr. destruct Hr as [Hr|[<-|[]]]; [right; eauto|left; reflexivity].
    - intros r Hr. apply in_app_or in Hr. destruct Hr as [Hr|[<-|[]]]; [apply HW; auto|cbn; auto].
    - assert (Hnew : forall r, In r (rRules a) -> fp_same (fp_of want) (fp_of r) = false).
      { intros r Hr. destruct (fp_same (fp_of want) (fp_of r)) eqn:E; auto.
        assert (existsb (same_fp cx sg pol) (rRules a) = true) by (apply existsb_exists; exists r; split; auto).
        congruence. }
      intros r1 r2 H1 H2 Hs. apply in_app_or in H1. apply in_app_or in H2.
      destruct H1 as [H1|[<-|[]]], H2 as [H2|[<-|[]]]; auto.
      + rewrite fp_same_sym, (Hnew r1 H1) in Hs. discriminate.
      + rewrite (Hnew r2 H2) in Hs. discriminate.
    - intros r Hr. apply in_app_or in Hr. destruct Hr as [Hr|[<-|[]]]; [apply HV; auto|exact E4].
    - rewrite HA. reflexivity.
  Qed.

  (* ================= replacing one rule by another with the same id and context type ================= *)
  Lemma only_rule_with_id a id r x : NoDup (map r_id (rRules a)) -> find_rule id (rRules a) = Some r ->
    In x (rRules a) -> r_id x = id -> x = r.
  Proof.
    intros Hn Hf Hx Hid. pose proof (@find_rule_in id (rRules a) x Hn Hx Hid) as H. congruence.
  Qed.

  Lemma rel_replace s a id r r' s' :
    sa_rel s a -> find_rule id (rRules a) = Some r ->
    r_id r' = id -> r_ctx r' = r_ctx r -> NoDup (r_signers r') -> NoDup (r_policies r') ->
    sa_validate c (r_signers r') (r_policies r') = true ->
    (forall r2, In r2 (rRules a) -> r2 <> r -> fp_same (fp_of r') (fp_of r2) = false) ->
    sa_next s' = sa_next s -> sa_count s' = sa_count s -> sa_ids s' = sa_ids s ->
    (forall i, aget N.eqb i (sa_meta s') = if N.eqb i id then Some (meta_of r') else aget N.eqb i (sa_meta s)) ->
    (forall i, aget N.eqb i (sa_signers s') = if N.eqb i id then Some (r_signers r') else aget N.eqb i (sa_signers s)) ->
    (forall i, aget N.eqb i (sa_policies s') = if N.eqb i id then Some (r_policies r') else aget N.eqb i (sa_policies s)) ->
    (forall f, In f (sa_fps s') <-> (f = fp_of r' \/ (In f (sa_fps s) /\ fp_same (fp_of r) f = false))) ->
    sa_rel s' {| rRules := put_rule r' (rRules a); rBound := rBound a; rAdds := rAdds a |}.
  Proof.
    intros HR Hf Hid Hcx Hns Hnp Hval Hother En Ec Ei Em Es Ep Efp.
    pose proof HR as (HM & HS & HP & HI & HC & HN & HU & HB & HF & HW & HD & HV & HA).
    destruct (find_rule_id _ _ Hf) as [Hrid Hrin].
    assert (Hfind : forall i, find_rule i (put_rule r' (rRules a)) = if N.eqb i id then Some r' else find_rule i (rRules a)).
    { intros i. rewrite find_rule_put, Hid. destruct (N.eqb_spec i id) as [->|E]; auto. rewrite Hf. reflexivity. }
    unfold sa_rel. cbn [rRules rBound].
    split; [|split; [|split; [|split; [|split; [|split; [|split; [|split; [|split; [|split; [|split; [|split]]]]]]]]]]].
    - intros i. rewrite Em, Hfind, HM. destruct (N.eqb i id); reflexivity.
    - intros i. rewrite Es, Hfind, HS. destruct (N.eqb i id); reflexivity.
    - intros i. rewrite Ep, Hfind, HP. destruct (N.eqb i id); reflexivity.
    - intros cx. unfold sa_ids_of. rewrite Ei. fold (sa_ids_of s cx). rewrite HI.
      symmetry. apply (ids_filter_put (fun c0 => ctxt_eqb c0 cx)).
      intros x Hx Hxid. rewrite Hid in Hxid. rewrite (@only_rule_with_id a id r x HU Hf Hx Hxid). auto.
    - destruct HC as [H|[_ H]]; [left; unfold put_rule; rewrite map_length, Ec; exact H|rewrite H in Hrin; destruct Hrin].
    - rewrite En. exact HN.
    - rewrite ids_put. exact HU.
    - intros x Hx. apply in_put in Hx. destruct Hx as [[-> _]|[Hx _]]; [|apply HB; auto].
      rewrite Hid, <- Hrid. apply HB. auto.
    - intros f. rewrite Efp. split.
      + intros [->|[Hin Hns']].
        * exists r'. split; auto. apply put_in_new. rewrite Hid, <- Hrid. apply in_map. auto.
        * apply HF in Hin. destruct Hin as [r2 [Hr2 ->]]. exists r2. split; auto. apply put_in_old; auto.
          rewrite Hid. intros E. rewrite (@only_rule_with_id a id r r2 HU Hf Hr2 E), fp_same_refl in Hns'. discriminate.
      + intros [x [Hx ->]]. apply in_put in Hx. destruct Hx as [[-> _]|[Hx Hne]]; [left; reflexivity|].
        right. split; [apply HF; eauto|]. destruct (fp_same (fp_of r) (fp_of x)) eqn:E; auto.
        exfalso. apply Hne. rewrite Hid, <- Hrid. f_equal. symmetry. apply HD; auto.
    - intros x Hx. apply in_put in Hx. destruct Hx as [[-> _]|[Hx _]]; [split; auto|apply HW; auto].
    - intros r1 r2 H1 H2 Hs. apply in_put in H1. apply in_put in H2.
      destruct H1 as [[-> _]|[H1 N1]], H2 as [[-> _]|[H2 N2]]; auto.
      + rewrite Hother in Hs; [discriminate|auto|]. intros ->. apply N2. congruence.
      + rewrite fp_same_sym, Hother in Hs; [discriminate|auto|]. intros ->. apply N1. congruence.
    - intros x Hx. apply in_put in Hx. destruct Hx as [[-> _]|[Hx _]]; [exact Hval|apply HV; auto].
    - exact HA.
  Qed.

  (* ---- name / valid_until ---- *)
  Lemma rel_meta_update s a id r name until :
    sa_rel s a -> find_rule id (rRules a) = Some r ->
    sa_rel (sa_with_meta s id (name, r_ctx r, until))
           {| rRules := put_rule {| r_id := id; r_ctx := r_ctx r; r_name := name; r_signers := r_signers r;
                                    r_policies := r_policies r; r_until := until |} (rRules a);
              rBound := rBound a; rAdds := rAdds a |}.
  Proof.
    intros HR Hf. pose proof HR as (HM & HS & HP & HI & HC & HN & HU & HB & HF & HW & HD & HV & HA).
    destruct (find_rule_id _ _ Hf) as [Hrid Hrin]. destruct (HW r Hrin) as [W1 W2].
    apply (@rel_replace s a id r); auto; cbn [r_id r_ctx r_signers r_policies sa_with_meta sa_next sa_count sa_ids sa_meta sa_signers sa_policies sa_fps].
    - apply HV. auto.
    - intros r2 H2 Hne. change (fp_of {| r_id := id; r_ctx := r_ctx r; r_name := name; r_signers := r_signers r;
                                          r_policies := r_policies r; r_until := until |}) with (fp_of r).
      destruct (fp_same (fp_of r) (fp_of r2)) eqn:E; auto. exfalso. apply Hne. symmetry. apply HD; auto.
    - intros i. apply (aget_aset N.eqb N.eqb_eq).
    - intros i. destruct (N.eqb_spec i id) as [->|E]; auto. rewrite HS, Hf. reflexivity.
    - intros i. destruct (N.eqb_spec i id) as [->|E]; auto. rewrite HP, Hf. reflexivity.
    - intros f. change (fp_of {| r_id := id; r_ctx := r_ctx r; r_name := name; r_signers := r_signers r;
                                 r_policies := r_policies r; r_until := until |}) with (fp_of r). split.
      + intros Hin. pose proof Hin as Hin'. apply HF in Hin'. destruct Hin' as [r2 [H2 ->]].
        destruct (fp_same (fp_of r) (fp_of r2)) eqn:E; [left; f_equal; symmetry; apply HD; auto|right; auto].
      + intros [->|[H _]]; auto. apply HF. eauto.
  Qed.

  Lemma sa_update_name_sim s a id name : sa_rel s a ->
    exists a', sa_spec c a (SaUpdateName id name)
                 (match sa_update_name s id name with Ok r => Ok (Some (snd r)) | Fail => Fail end) = Some a'
      /\ sa_rel (match sa_update_name s id name with Ok r => fst r | Fail => s end) a'.
  Proof.
    intros HR. unfold sa_update_name. cbn [sa_spec]. rewrite (sa_get_rule_rel id HR).
    destruct (find_rule id (rRules a)) as [r|] eqn:Ef; cbn [of_option bind fst snd]; [|exists a; auto].
    pose proof HR as (_ & _ & _ & _ & _ & _ & _ & _ & _ & HW & _).
    destruct (find_rule_id _ _ Ef) as [_ Hin]. destruct (HW r Hin) as [W1 W2].
    rewrite rule_sim_refl by auto. eexists. split; [reflexivity|]. apply rel_meta_update; auto.
  Qed.

  Lemma sa_update_until_sim s a id until : sa_rel s a ->
    exists a', sa_spec c a (SaUpdateUntil id until)
                 (match sa_update_until c s id until with Ok r => Ok (Some (snd r)) | Fail => Fail end) = Some a'
      /\ sa_rel (match sa_update_until c s id until with Ok r => fst r | Fail => s end) a'.
  Proof.
    intros HR. unfold sa_update_until. cbn [sa_spec]. rewrite (sa_get_rule_rel id HR).
    destruct (find_rule id (rRules a)) as [r|] eqn:Ef; cbn [of_option bind fst snd]; [|exists a; auto].
    pose proof HR as (_ & _ & _ & _ & _ & _ & _ & _ & _ & HW & _).
    destruct (find_rule_id _ _ Ef) as [_ Hin]. destruct (HW r Hin) as [W1 W2].
    destruct (until_ok c until) eqn:Eu; cbn [negb fst snd andb]; [|exists a; auto].
    rewrite rule_sim_refl by auto. eexists. split; [reflexivity|]. apply rel_meta_update; auto.
  Qed.

  (* ---- signer / policy list updates: set the new fingerprint, drop the old one ---- *)
  Lemma sp_fps {X} (K : list (ctxt * list signer * list N) -> res X) s a r sg po :
    sa_rel s a -> In r (rRules a) -> NoDup sg -> NoDup po ->
    (do f1 <- sa_set_fp (sa_fps s) (r_ctx r) sg po;
     do f2 <- sa_del_fp f1 (r_ctx r) (r_signers r) (r_policies r);
     K f2)
    = if existsb (same_fp (r_ctx r) sg po) (rRules a) then Fail
      else K (filter (fun g => negb (fp_same (fp_of r) g)) ((r_ctx r, sg, po) :: sa_fps s)).
  Proof.
    intros HR Hin Hs Hp. pose proof HR as (_ & _ & _ & _ & _ & _ & _ & _ & _ & HW & _).
    destruct (HW r Hin) as [W1 W2]. unfold sa_set_fp, sa_del_fp, sa_fp.
    rewrite (proj2 (nodupb_NoDup signer_eqb signer_eqb_spec sg) Hs), (proj2 (nodupb_NoDup N.eqb N.eqb_eq po) Hp).
    rewrite (proj2 (nodupb_NoDup signer_eqb signer_eqb_spec _) W1), (proj2 (nodupb_NoDup N.eqb N.eqb_eq _) W2).
    cbn [negb bind]. rewrite (existsb_fps (r_ctx r, sg, po) HR).
    change (existsb (fun r0 => fp_same (r_ctx r, sg, po) (fp_of r0)) (rRules a)) with (existsb (same_fp (r_ctx r) sg po) (rRules a)).
    destruct (existsb (same_fp (r_ctx r) sg po) (rRules a)); reflexivity.
  Qed.

  Lemma rel_sp_update s a id r sg po s' :
    sa_rel s a -> find_rule id (rRules a) = Some r -> NoDup sg -> NoDup po ->
    sa_validate c sg po = true ->
    existsb (same_fp (r_ctx r) sg po) (rRules a) = false ->
    sa_next s' = sa_next s -> sa_count s' = sa_count s -> sa_ids s' = sa_ids s -> sa_meta s' = sa_meta s ->
    (forall i, aget N.eqb i (sa_signers s') = if N.eqb i id then Some sg else aget N.eqb i (sa_signers s)) ->
    (forall i, aget N.eqb i (sa_policies s') = if N.eqb i id then Some po else aget N.eqb i (sa_policies s)) ->
    sa_fps s' = filter (fun g => negb (fp_same (fp_of r) g)) ((r_ctx r, sg, po) :: sa_fps s) ->
    sa_rel s' {| rRules := put_rule (with_sp r sg po) (rRules a); rBound := rBound a; rAdds := rAdds a |}.
  Proof.
    intros HR Hf Hs Hp Hval Hex En Ec Ei Em Es Ep Efp.
    pose proof HR as (HM & _). destruct (find_rule_id _ _ Hf) as [Hrid Hrin].
    assert (Hnew : forall r2, In r2 (rRules a) -> fp_same (r_ctx r, sg, po) (fp_of r2) = false).
    { intros r2 H2. destruct (fp_same (r_ctx r, sg, po) (fp_of r2)) eqn:E; auto.
      assert (existsb (same_fp (r_ctx r) sg po) (rRules a) = true) by (apply existsb_exists; exists r2; split; auto).
      congruence. }
    apply (@rel_replace s a id r (with_sp r sg po) s'); auto.
    - intros i. rewrite Em, HM. destruct (N.eqb_spec i id) as [->|E]; auto. rewrite Hf. reflexivity.
    - intros f. rewrite Efp, filter_In, negb_true_iff. cbn [In]. change (fp_of (with_sp r sg po)) with (r_ctx r, sg, po).
      split.
      + intros [[<-|H] H']; auto.
      + intros [->|[H H']]; auto. split; auto. rewrite fp_same_sym. apply Hnew. auto.
  Qed.

  Ltac finish_fail a := exists a; split; auto.

  Lemma sa_add_signer_sim s a id x : sa_rel s a ->
    exists a', sa_spec c a (SaAddSigner id x)
                 (match sa_add_signer c s id x with Ok _ => Ok None | Fail => Fail end) = Some a'
      /\ sa_rel (match sa_add_signer c s id x with Ok s' => s' | Fail => s end) a'.
  Proof.
    intros HR. unfold sa_add_signer. cbn [sa_spec]. rewrite (sa_get_rule_rel id HR).
    destruct (find_rule id (rRules a)) as [r|] eqn:Ef; cbn [of_option bind]; [|finish_fail a].
    pose proof HR as (_ & HS & HP & _ & _ & _ & _ & _ & _ & HW & _).
    destruct (find_rule_id _ _ Ef) as [_ Hin]. destruct (HW r Hin) as [W1 W2].
    destruct (memb signer_eqb x (r_signers r)) eqn:Em; cbn [negb andb]; [finish_fail a|].
    destruct (sa_validate c (r_signers r ++ [x]) (r_policies r)) eqn:Ev; cbn [negb andb]; [|finish_fail a].
    apply (memb_false signer_eqb signer_eqb_spec) in Em.
    assert (Hn : NoDup (r_signers r ++ [x])) by (apply NoDup_snoc; auto).
    rewrite (@sp_fps _ _ s a r (r_signers r ++ [x]) (r_policies r) HR Hin Hn W2).
    destruct (existsb (same_fp (r_ctx r) (r_signers r ++ [x]) (r_policies r)) (rRules a)) eqn:Ex; cbn [negb bind]; [finish_fail a|].
    eexists. split; [reflexivity|].
    apply (@rel_sp_update s a id r (r_signers r ++ [x]) (r_policies r)); auto; cbn [sa_with_signers sa_signers sa_policies sa_fps].
    - intros i. apply (aget_aset N.eqb N.eqb_eq).
    - intros i. destruct (N.eqb_spec i id) as [->|E]; auto. rewrite HP, Ef. reflexivity.
  Qed.

  Lemma sa_remove_signer_sim s a id x : sa_rel s a ->
    exists a', sa_spec c a (SaRemoveSigner id x)
                 (match sa_remove_signer c s id x with Ok _ => Ok None | Fail => Fail end) = Some a'
      /\ sa_rel (match sa_remove_signer c s id x with Ok s' => s' | Fail => s end) a'.
  Proof.
    intros HR. unfold sa_remove_signer. cbn [sa_spec]. rewrite (sa_get_rule_rel id HR).
    destruct (find_rule id (rRules a)) as [r|] eqn:Ef; cbn [of_option bind]; [|finish_fail a].
    pose proof HR as (_ & HS & HP & _ & _ & _ & _ & _ & _ & HW & _).
    destruct (find_rule_id _ _ Ef) as [_ Hin]. destruct (HW r Hin) as [W1 W2].
    rewrite (rindex_of_NoDup signer_eqb signer_eqb_spec x W1), (index_of_memb signer_eqb signer_eqb_spec).
    destruct (index_of signer_eqb x (r_signers r)) as [p|] eqn:Ep; cbn [andb]; [|finish_fail a].
    rewrite (remove_at_index_of signer_eqb signer_eqb_spec x W1 Ep).
    destruct (sa_validate c (rem signer_eqb x (r_signers r)) (r_policies r)) eqn:Ev; cbn [negb andb]; [|finish_fail a].
    assert (Hn : NoDup (rem signer_eqb x (r_signers r))) by (apply (rem_NoDup signer_eqb signer_eqb_spec); auto).
    rewrite (@sp_fps _ _ s a r (rem signer_eqb x (r_signers r)) (r_policies r) HR Hin Hn W2).
    destruct (existsb (same_fp (r_ctx r) (rem signer_eqb x (r_signers r)) (r_policies r)) (rRules a)) eqn:Ex; cbn [negb bind]; [finish_fail a|].
    eexists. split; [reflexivity|].
    apply (@rel_sp_update s a id r (rem signer_eqb x (r_signers r)) (r_policies r)); auto; cbn [sa_with_signers sa_signers sa_policies sa_fps].
    - intros i. apply (aget_aset N.eqb N.eqb_eq).
    - intros i. destruct (N.eqb_spec i id) as [->|E]; auto. rewrite HP, Ef. reflexivity.
  Qed.

  Lemma sa_add_policy_sim s a id p installs : sa_rel s a ->
    exists a', sa_spec c a (SaAddPolicy id p installs)
                 (match sa_add_policy c s id p installs with Ok _ => Ok None | Fail => Fail end) = Some a'
      /\ sa_rel (match sa_add_policy c s id p installs with Ok s' => s' | Fail => s end) a'.
  Proof.
    intros HR. unfold sa_add_policy. cbn [sa_spec]. rewrite (sa_get_rule_rel id HR).
    destruct (find_rule id (rRules a)) as [r|] eqn:Ef; cbn [of_option bind]; [|finish_fail a].
    pose proof HR as (_ & HS & HP & _ & _ & _ & _ & _ & _ & HW & _).
    destruct (find_rule_id _ _ Ef) as [_ Hin]. destruct (HW r Hin) as [W1 W2].
    destruct (memb N.eqb p (r_policies r)) eqn:Em; cbn [negb andb]; [finish_fail a|].
    destruct installs; cbn [negb andb]; [|finish_fail a].
    destruct (sa_validate c (r_signers r) (r_policies r ++ [p])) eqn:Ev; cbn [negb andb]; [|finish_fail a].
    apply (memb_false N.eqb N.eqb_eq) in Em.
    assert (Hn : NoDup (r_policies r ++ [p])) by (apply NoDup_snoc; auto).
    rewrite (@sp_fps _ _ s a r (r_signers r) (r_policies r ++ [p]) HR Hin W1 Hn).
    destruct (existsb (same_fp (r_ctx r) (r_signers r) (r_policies r ++ [p])) (rRules a)) eqn:Ex; cbn [negb bind]; [finish_fail a|].
    eexists. split; [reflexivity|].
    apply (@rel_sp_update s a id r (r_signers r) (r_policies r ++ [p])); auto; cbn [sa_with_policies sa_signers sa_policies sa_fps].
    - intros i. destruct (N.eqb_spec i id) as [->|E]; auto. rewrite HS, Ef. reflexivity.
    - intros i. apply (aget_aset N.eqb N.eqb_eq).
  Qed.

  Lemma sa_remove_policy_sim s a id p : sa_rel s a ->
    exists a', sa_spec c a (SaRemovePolicy id p)
                 (match sa_remove_policy c s id p with Ok _ => Ok None | Fail => Fail end) = Some a'
      /\ sa_rel (match sa_remove_policy c s id p with Ok s' => s' | Fail => s end) a'.
  Proof.
    intros HR. unfold sa_remove_policy. cbn [sa_spec]. rewrite (sa_get_rule_rel id HR).
    destruct (find_rule id (rRules a)) as [r|] eqn:Ef; cbn [of_option bind]; [|finish_fail a].
    pose proof HR as (_ & HS & HP & _ & _ & _ & _ & _ & _ & HW & _).
    destruct (find_rule_id _ _ Ef) as [_ Hin]. destruct (HW r Hin) as [W1 W2].
    rewrite (rindex_of_NoDup N.eqb N.eqb_eq p W2), (index_of_memb N.eqb N.eqb_eq).
    destruct (index_of N.eqb p (r_policies r)) as [i0|] eqn:Ep; cbn [andb]; [|finish_fail a].
    rewrite (remove_at_index_of N.eqb N.eqb_eq p W2 Ep).
    destruct (sa_validate c (r_signers r) (rem N.eqb p (r_policies r))) eqn:Ev; cbn [negb andb]; [|finish_fail a].
    assert (Hn : NoDup (rem N.eqb p (r_policies r))) by (apply (rem_NoDup N.eqb N.eqb_eq); auto).
    rewrite (@sp_fps _ _ s a r (r_signers r) (rem N.eqb p (r_policies r)) HR Hin W1 Hn).
    destruct (existsb (same_fp (r_ctx r) (r_signers r) (rem N.eqb p (r_policies r))) (rRules a)) eqn:Ex; cbn [negb bind]; [finish_fail a|].
    eexists. split; [reflexivity|].
    apply (@rel_sp_update s a id r (r_signers r) (rem N.eqb p (r_policies r))); auto; cbn [sa_with_policies sa_signers sa_policies sa_fps].
    - intros i. destruct (N.eqb_spec i id) as [->|E]; auto. rewrite HS, Ef. reflexivity.
    - intros i. apply (aget_aset N.eqb N.eqb_eq).
  Qed.

  (* ================= remove_context_rule ================= *)
  Lemma sa_remove_rule_sim s a id : sa_rel s a ->
    exists a', sa_spec c a (SaRemoveRule id)
                 (match sa_remove_rule s id with Ok _ => Ok None | Fail => Fail end) = Some a'
      /\ sa_rel (match sa_remove_rule s id with Ok s' => s' | Fail => s end) a'.
  Proof.
    intros HR. unfold sa_remove_rule. cbn [sa_spec]. rewrite (sa_get_rule_rel id HR).
    destruct (find_rule id (rRules a)) as [r|] eqn:Ef; cbn [of_option bind]; [|exists a; auto].
    pose proof HR as (HM & HS & HP & HI & HC & HN & HU & HB & HF & HW & HD & HV & HA).
    destruct (find_rule_id _ _ Ef) as [Hrid Hin]. destruct (HW r Hin) as [W1 W2].
    unfold sa_del_fp, sa_fp.
    rewrite (proj2 (nodupb_NoDup signer_eqb signer_eqb_spec _) W1), (proj2 (nodupb_NoDup N.eqb N.eqb_eq _) W2).
    cbn [negb bind].
    assert (Hidin : In id (map r_id (rRules a))) by (rewrite <- Hrid; apply in_map; auto).
    pose proof (length_drop id (rRules a) HU Hidin) as Hlen.
    destruct HC as [HC|[_ HC]]; [|rewrite HC in Hin; destruct Hin].
    rewrite HC. destruct (length (rRules a)) as [|n] eqn:El; [discriminate|].
    eexists. split; [reflexivity|].
    unfold sa_rel. cbn [rRules rBound sa_meta sa_signers sa_policies sa_ids sa_fps sa_count sa_next].
    split; [|split; [|split; [|split; [|split; [|split; [|split; [|split; [|split; [|split; [|split; [|split]]]]]]]]]]].
    - intros i. rewrite (aget_adel N.eqb N.eqb_eq), find_rule_drop, HM. destruct (N.eqb i id); reflexivity.
    - intros i. rewrite (aget_adel N.eqb N.eqb_eq), find_rule_drop, HS. destruct (N.eqb i id); reflexivity.
    - intros i. rewrite (aget_adel N.eqb N.eqb_eq), find_rule_drop, HP. destruct (N.eqb i id); reflexivity.
    - intros cx. rewrite (ids_filter_drop (fun r0 => ctxt_eqb (r_ctx r0) cx)), <- HI.
      assert (Hnd : forall cx0, NoDup (sa_ids_of s cx0)) by (intros cx0; rewrite HI; apply NoDup_ids_filter; auto).
      rewrite (rindex_of_NoDup N.eqb N.eqb_eq id (Hnd (r_ctx r))).
      assert (Hidr : In id (sa_ids_of s (r_ctx r))).
      { rewrite HI. rewrite <- Hrid. apply in_map. apply filter_In. split; auto. apply ctxt_eqb_spec. reflexivity. }
      destruct (index_of_In N.eqb N.eqb_eq id _ Hidr) as [p Ep]. rewrite Ep.
      unfold sa_ids_of at 1. cbn [sa_ids]. rewrite (aget_aset ctxt_eqb ctxt_eqb_spec).
      rewrite (remove_at_index_of N.eqb N.eqb_eq id (Hnd (r_ctx r)) Ep).
      destruct (ctxt_eqb cx (r_ctx r)) eqn:E.
      + apply ctxt_eqb_spec in E. subst cx. reflexivity.
      + fold (sa_ids_of s cx). symmetry. apply (rem_notin N.eqb N.eqb_eq). rewrite HI. intros Hx.
        apply in_map_iff in Hx. destruct Hx as [y [Ey Hy]]. apply filter_In in Hy. destruct Hy as [Hy Hc].
        rewrite (@only_rule_with_id a id r y HU Ef Hy Ey) in Hc. apply ctxt_eqb_spec in Hc.
        apply (eqb_neq ctxt_eqb ctxt_eqb_spec) in E. congruence.
    - left. f_equal. lia.
    - exact HN.
    - unfold drop_rule. apply NoDup_ids_filter. auto.
    - intros x Hx. apply in_drop in Hx. apply HB. tauto.
    - intros f. rewrite filter_In, negb_true_iff, HF. split.
      + intros [[x [Hx ->]] Hs]. exists x. split; auto. apply in_drop. split; auto.
        intros E. rewrite (@only_rule_with_id a id r x HU Ef Hx E), fp_same_refl in Hs. discriminate.
      + intros [x [Hx ->]]. apply in_drop in Hx. destruct Hx as [Hx Hne]. split; [eauto|].
        destruct (fp_same (fp_of r) (fp_of x)) eqn:E; auto. exfalso. apply Hne. rewrite <- Hrid. f_equal. symmetry. apply HD; auto.
    - intros x Hx. apply in_drop in Hx. apply HW. tauto.
    - intros r1 r2 H1 H2. apply in_drop in H1. apply in_drop in H2. apply HD; tauto.
    - intros x Hx. apply in_drop in Hx. apply HV. tauto.
    - exact HA.
  Qed.

  (* ================= every call ================= *)
  Lemma sa_spec_sim s a k : sa_rel s a ->
    exists a', sa_spec c a k (step_out (sa_step c) s k) = Some a' /\ sa_rel (step_state (sa_step c) s k) a'.
  Proof.
    intros HR. unfold step_out, step_state.
    destruct k as [cx name until sg po|id name|id until|id|id x|id x|id p ok|id p]; cbn [sa_step].
    - pose proof (sa_add_rule_sim cx name until sg po HR) as H.
      destruct (sa_add_rule c s cx name until sg po) as [[s' r]|]; cbn [bind fst snd] in *; exact H.
    - pose proof (sa_update_name_sim id name HR) as H.
      destruct (sa_update_name s id name) as [[s' r]|]; cbn [bind fst snd] in *; exact H.
    - pose proof (sa_update_until_sim id until HR) as H.
      destruct (sa_update_until c s id until) as [[s' r]|]; cbn [bind fst snd] in *; exact H.
    - pose proof (sa_remove_rule_sim id HR) as H.
      destruct (sa_remove_rule s id) as [s'|]; cbn [bind] in *; exact H.
    - pose proof (sa_add_signer_sim id x HR) as H.
      destruct (sa_add_signer c s id x) as [s'|]; cbn [bind] in *; exact H.
    - pose proof (sa_remove_signer_sim id x HR) as H.
      destruct (sa_remove_signer c s id x) as [s'|]; cbn [bind] in *; exact H.
    - pose proof (sa_add_policy_sim id p ok HR) as H.
      destruct (sa_add_policy c s id p ok) as [s'|]; cbn [bind] in *; exact H.
    - pose proof (sa_remove_policy_sim id p HR) as H.
      destruct (sa_remove_policy c s id p) as [s'|]; cbn [bind] in *; exact H.
  Qed.

  (* ================= answers ================= *)
  Lemma mapM_get_rules s a l : sa_rel s a -> (forall x, In x l -> In x (rRules a)) ->
    mapM (sa_get_rule s) (map r_id l) = Ok l.
  Proof.
    intros HR. pose proof HR as (_ & _ & _ & _ & _ & _ & HU & _).
    induction l as [|x l IH]; intros Hsub; cbn [map mapM]; auto.
    rewrite (sa_get_rule_rel (r_id x) HR).
    rewrite (@find_rule_in (r_id x) (rRules a) x HU (Hsub x (or_introl eq_refl)) eq_refl). cbn [of_option bind].
    rewrite IH; [reflexivity|]. intros y Hy. apply Hsub. cbn. auto.
  Qed.

  Lemma sa_chk_ok s a q : sa_rel s a -> sa_chk a (q, sa_answer s q) = true.
  Proof.
    intros HR. pose proof HR as (HM & HS & HP & HI & HC & HN & HU & HB & HF & HW & HD & HV & HA).
    destruct q as [id|cx|]; cbn [sa_answer sa_chk].
    - rewrite (sa_get_rule_rel id HR). destruct (find_rule id (rRules a)) as [r|] eqn:Ef; cbn [of_option]; auto.
      destruct (find_rule_id _ _ Ef) as [_ Hin]. destruct (HW r Hin). apply rule_sim_refl; auto.
    - unfold sa_get_rules. rewrite HI.
      set (want := filter (fun r => ctxt_eqb (r_ctx r) cx) (rRules a)).
      assert (Hsub : forall x, In x want -> In x (rRules a)) by (intros x Hx; apply filter_In in Hx; tauto).
      rewrite (mapM_get_rules want HR Hsub).
      assert (Hnw : NoDup (map r_id want)) by (apply NoDup_ids_filter; auto).
      apply andb_true_intro. split.
      + apply (enumb_refl N.eqb N.eqb_eq). auto.
      + apply forallb_forall. intros x Hx. rewrite (@find_rule_in (r_id x) want x Hnw Hx eq_refl).
        destruct (HW x (Hsub x Hx)). apply rule_sim_refl; auto.
    - rewrite (count0_rel HR). apply N.eqb_refl.
  Qed.

  Lemma sa_mon_step s a cq : sa_rel s a ->
    exists a', mon_of (sa_spec c) sa_chk (fun _ _ => true) a (model_ev (sa_step c) sa_answer s cq) = Some a'
               /\ sa_rel (step_state (sa_step c) s (fst cq)) a'.
  Proof.
    apply (@val_mon_step _ _ _ _ _ _ (sa_step c) sa_answer (sa_spec c) sa_chk (fun _ _ => true) sa_rel).
    - intros. apply sa_spec_sim. auto.
    - intros. apply sa_chk_ok. auto.
    - reflexivity.
  Qed.
End SA.
