(* C05: the invariant and the assets-per-share rate over every call and every history; rounding direction;
   round trips; withdrawing within one's means. *)
From SC Require Import Lib.Prelude Lib.Int Lib.Host Model.Math Proofs.Math Model.Vault
  Proofs.VaultSpec Proofs.VaultToken Proofs.VaultOps.
From Coq Require Import ZifyBool.

(* rate(s) <= rate(s'), cross-multiplied: (A+1)/(S+P) <= (A'+1)/(S'+P) *)
Definition rate_le_states (c : cfg) (s s' : state) : Prop :=
  (total_assets s + 1) * (total_supply s' + P_of c) <= (total_assets s' + 1) * (total_supply s + P_of c).

(* ---------- arithmetic ---------- *)
Lemma rate_deposit_like A S P a sh :
  sh * (A + 1) <= a * (S + P) -> (A + 1) * (S + sh + P) <= (A + a + 1) * (S + P).
Proof. intros H. nia. Qed.
Lemma rate_withdraw_like A S P a sh A' :
  0 < S + P -> A - a <= A' -> a * (S + P) <= sh * (A + 1) -> (A + 1) * (S - sh + P) <= (A' + 1) * (S + P).
Proof. intros H0 H1 H2. assert ((A - a + 1) * (S + P) <= (A' + 1) * (S + P)) by nia. nia. Qed.
Lemma rate_assets_up A S P A' : 0 < S + P -> A <= A' -> (A + 1) * (S + P) <= (A' + 1) * (S + P).
Proof. intros. nia. Qed.
Lemma rate_trans a b c' d e f : 0 < b -> 0 < d -> 0 < f -> 0 < a -> 0 < c' -> 0 < e ->
  a * d <= c' * b -> c' * f <= e * d -> a * f <= e * b.
Proof.
  intros Hb Hd Hf Ha Hc He H1 H2.
  assert (H3 : a * d * f <= c' * b * f) by (apply Z.mul_le_mono_nonneg_r; lia).
  assert (H4 : c' * f * b <= e * d * b) by (apply Z.mul_le_mono_nonneg_r; lia).
  assert (H5 : (a * f) * d <= (e * b) * d) by (replace (a * f * d) with (a * d * f) by ring;
    replace (e * b * d) with (e * d * b) by ring; replace (c' * b * f) with (c' * f * b) in H3 by ring; lia).
  apply Z.mul_le_mono_pos_r in H5; auto.
Qed.

(* ---------- direction of every conversion, on a state satisfying the invariant ---------- *)
Section Conv.
  Variable c : cfg.
  Variable s : state.
  Hypothesis Hc : wf_cfg c.
  Hypothesis Hi : Inv c s.
  Local Notation A := (total_assets s).
  Local Notation S := (total_supply s).
  Local Notation P := (P_of c).

  Lemma den_pos : 0 < A + 1 /\ 0 < S + P /\ 0 <= A /\ 0 <= S /\ 0 < P.
  Proof.
    pose proof (Inv_A_nonneg c s Hi). pose proof (Inv_S_nonneg c s Hi). pose proof (P_pos c Hc). lia.
  Qed.

  Lemma to_shares_floor a q : MIN128 <= a <= MAX128 -> to_shares c s a Floor = Ok q ->
    0 <= a /\ 0 <= q /\ q * (A + 1) <= a * (S + P) < (q + 1) * (A + 1).
  Proof.
    intros Ha H. rewrite (to_shares_spec c s _ _ (Inv_stored c s Hi)) in H by exact Ha. destruct den_pos as (H1 & H2 & H3 & H4 & H5).
    pose proof (spec_conv_floor _ _ _ _ _ H H1). pose proof (spec_conv_nonneg _ _ _ _ _ _ H H1).
    destruct (spec_conv_ok _ _ _ _ _ _ H) as (Hx & _). lia.
  Qed.
  Lemma to_shares_ceil a q : MIN128 <= a <= MAX128 -> to_shares c s a Ceil = Ok q ->
    0 <= a /\ 0 <= q /\ a * (S + P) <= q * (A + 1) /\ (0 < a -> (q - 1) * (A + 1) < a * (S + P)).
  Proof.
    intros Ha H. rewrite (to_shares_spec c s _ _ (Inv_stored c s Hi)) in H by exact Ha. destruct den_pos as (H1 & H2 & H3 & H4 & H5).
    pose proof (spec_conv_ceil_ge _ _ _ _ _ H H1). pose proof (spec_conv_nonneg _ _ _ _ _ _ H H1).
    destruct (spec_conv_ok _ _ _ _ _ _ H) as (Hx & _).
    split; [lia|]. split; [lia|]. split; [lia|]. intros Hp.
    pose proof (spec_conv_ceil _ _ _ _ _ H H1 Hp). lia.
  Qed.
  Lemma to_assets_floor x q : MIN128 <= x <= MAX128 -> to_assets c s x Floor = Ok q ->
    0 <= x /\ 0 <= q /\ q * (S + P) <= x * (A + 1) < (q + 1) * (S + P).
  Proof.
    intros Hx H. rewrite (to_assets_spec c s _ _ (Inv_stored c s Hi)) in H by exact Hx. destruct den_pos as (H1 & H2 & H3 & H4 & H5).
    pose proof (spec_conv_floor _ _ _ _ _ H H2). pose proof (spec_conv_nonneg _ _ _ _ _ _ H H2).
    destruct (spec_conv_ok _ _ _ _ _ _ H) as (Hx0 & _). lia.
  Qed.
  Lemma to_assets_ceil x q : MIN128 <= x <= MAX128 -> to_assets c s x Ceil = Ok q ->
    0 <= x /\ 0 <= q /\ x * (A + 1) <= q * (S + P) /\ (0 < x -> (q - 1) * (S + P) < x * (A + 1)).
  Proof.
    intros Hx H. rewrite (to_assets_spec c s _ _ (Inv_stored c s Hi)) in H by exact Hx. destruct den_pos as (H1 & H2 & H3 & H4 & H5).
    pose proof (spec_conv_ceil_ge _ _ _ _ _ H H2). pose proof (spec_conv_nonneg _ _ _ _ _ _ H H2).
    destruct (spec_conv_ok _ _ _ _ _ _ H) as (Hx0 & _).
    split; [lia|]. split; [lia|]. split; [lia|]. intros Hp.
    pose proof (spec_conv_ceil _ _ _ _ _ H H2 Hp). lia.
  Qed.
End Conv.

(* ---------- one step: the invariant is kept and the rate does not decrease ---------- *)
Lemma wf_call_parts cl : wf_call cl = true ->
  no_vault_auth (call_auths cl) = true /\ MIN128 <= call_amount cl <= MAX128.
Proof. unfold wf_call. intros H. apply andb_prop in H as [H1 H2]. rewrite in_i128_iff in H2. auto. Qed.

Lemma rate_refl c s : rate_le_states c s s.
Proof. unfold rate_le_states. lia. Qed.

Ltac same_totals :=
  unfold total_assets, total_supply; cbn [set_asset set_share set_allow asset share bal supply now]; lia.

Lemma step_res_inv_rate c s cl s' o : wf_cfg c -> Inv c s -> wf_call cl = true ->
  step_res c s cl = Ok (s', o) -> Inv c s' /\ rate_le_states c s s'.
Proof.
  intros Hc Hi Hwf H. destruct (wf_call_parts cl Hwf) as (Hnv & Hr).
  destruct (den_pos c s Hc Hi) as (HA1 & HSP & HA & HS & HP).
  unfold rate_le_states.
  destruct cl as [a r f op au|x r f op au|a r ow op au|x r ow op au|f t a au|t a|ow sp a l au|f t a au|sp f t a au|ow sp a l au|n|q|sa|so];
    cbn [step_res call_auths call_amount] in *.
  - (* Deposit *)
    destruct o as [sh evs]. destruct (deposit_ok _ _ _ _ _ _ _ _ _ _ H Hi Hnv) as (Hp & _ & He & _ & _ & _ & HA' & Hi').
    split; [exact Hi'|]. destruct (to_shares_floor c s Hc Hi a sh Hr Hp) as (_ & _ & Hfl & _).
    unfold total_supply in *. rewrite HA', (de_ssup _ _ _ _ _ _ _ He). apply rate_deposit_like. exact Hfl.
  - (* MintS *)
    destruct o as [a evs]. destruct (mint_ok _ _ _ _ _ _ _ _ _ _ H Hi Hnv) as (Hp & _ & He & _ & _ & _ & HA' & Hi').
    split; [exact Hi'|]. destruct (to_assets_ceil c s Hc Hi x a Hr Hp) as (_ & _ & Hce & _).
    unfold total_supply in *. rewrite HA', (de_ssup _ _ _ _ _ _ _ He). apply rate_deposit_like. exact Hce.
  - (* Withdraw *)
    destruct o as [sh evs]. destruct (withdraw_ok _ _ _ _ _ _ _ _ _ _ H Hi) as (Hp & _ & _ & He & _ & _ & _ & HA' & Hi').
    split; [exact Hi'|]. destruct (to_shares_ceil c s Hc Hi a sh Hr Hp) as (_ & _ & Hce & _).
    unfold total_supply in *. rewrite (we_ssup _ _ _ _ _ _ _ He).
    apply (rate_withdraw_like _ _ _ a); auto.
  - (* Redeem *)
    destruct o as [a evs]. destruct (redeem_ok _ _ _ _ _ _ _ _ _ _ H Hi) as (Hp & _ & _ & He & _ & _ & _ & HA' & Hi').
    split; [exact Hi'|]. destruct (to_assets_floor c s Hc Hi x a Hr Hp) as (_ & _ & Hfl & _).
    unfold total_supply in *. rewrite (we_ssup _ _ _ _ _ _ _ He).
    apply (rate_withdraw_like _ _ _ a); auto.
  - (* ATransfer *)
    unfold lift_tok in H. bsplit H t1 E. inversion H; subst s' o; clear H.
    apply tok_transfer_ok in E. destruct E as (Hau & Hx & ->).
    assert (Hf : f <> V) by (intros ->; rewrite (no_vault_auth_root au Hnv) in Hau; discriminate).
    destruct Hi as (Ha & Hs & Hz & Hst). split.
    + split; [|split; [|split]]; cbn [set_asset asset share]; auto. apply tok_inv_xfer; auto.
    + unfold total_assets, total_supply. cbn [set_asset asset share bal].
      apply rate_assets_up; [exact HSP|].
      destruct (N.eq_dec t V) as [->|Hne]; [rewrite move_to by exact Hf; lia|].
      rewrite move_other; auto. lia.
  - (* AMint *)
    unfold lift_tok in H. bsplit H t1 E. inversion H; subst s' o; clear H.
    apply update_mint in E. destruct E as (Hx & Hsup & ->).
    destruct Hi as (Ha & Hs & Hz & Hst). split.
    + split; [|split; [|split]]; cbn [set_asset asset share]; auto. apply tok_inv_mint; auto.
    + unfold total_assets, total_supply. cbn [set_asset asset share bal].
      apply rate_assets_up; [exact HSP|].
      destruct (N.eq_dec t V) as [->|Hne]; [rewrite upd_eq; lia|].
      rewrite upd_neq by (intros Heq; apply Hne; symmetry; exact Heq). lia.
  - (* AApprove *)
    unfold lift_tok, tok_approve in H. bsplit H t1 E. inversion H; subst s' o; clear H.
    bsplit E u Eg. apply guard_ok in Eg. apply set_allowance_ok in E. destruct E as (_ & _ & _ & ->).
    assert (Hf : ow <> V) by (intros ->; rewrite (no_vault_auth_root au Hnv) in Eg; discriminate).
    destruct Hi as (Ha & Hs & Hz & Hst). split.
    + split; [|split; [|split]]; cbn [set_asset asset share set_allow allow]; auto.
      intros sp0. rewrite upd2_neq by (left; intros Heq; apply Hf; symmetry; exact Heq). apply Hz.
    + same_totals.
  - (* STransfer *)
    unfold lift_tok in H. bsplit H t1 E. inversion H; subst s' o; clear H.
    apply tok_transfer_ok in E. destruct E as (Hau & Hx & ->).
    destruct Hi as (Ha & Hs & Hz & Hst). split.
    + split; [|split; [|split]]; cbn [set_share asset share]; auto. apply tok_inv_xfer; auto.
    + same_totals.
  - (* STransferFrom *)
    unfold lift_tok in H. bsplit H t1 E. inversion H; subst s' o; clear H.
    apply tok_transfer_from_ok in E. destruct E as (Hau & Hx & t2 & Esp & ->).
    destruct Hi as (Ha & Hs & Hz & Hst). split.
    + split; [|split; [|split]]; cbn [set_share asset share]; auto.
      apply (tok_inv_ext {| bal := move (bal (share s)) f t a; supply := supply (share s); allow := allow (share s) |});
        [reflexivity|reflexivity|]. apply tok_inv_xfer; auto.
    + same_totals.
  - (* SApprove *)
    unfold lift_tok, tok_approve in H. bsplit H t1 E. inversion H; subst s' o; clear H.
    bsplit E u Eg. apply set_allowance_ok in E. destruct E as (_ & _ & _ & ->).
    destruct Hi as (Ha & Hs & Hz & Hst). split.
    + split; [|split; [|split]]; cbn [set_share asset share]; auto.
    + same_totals.
  - (* Advance *)
    bsplit H u Eg. inversion H; subst s' o; clear H. split; [exact Hi|]. same_totals.
  - (* Query *)
    bsplit H v Eqq. inversion H; subst s' o; clear H. split; [exact Hi|]. lia.
  - (* SetAsset: already set *)
    bsplit H s1 E. unfold vault_set_asset in E. destruct (Inv_stored c s Hi) as [Hva _]. rewrite Hva in E. discriminate.
  - (* SetOffset: already set *)
    bsplit H s1 E. unfold vault_set_decimals_offset in E. bsplit E u Eg.
    destruct (Inv_stored c s Hi) as [_ Hvo]. rewrite Hvo in E. discriminate.
Qed.

Lemma step_inv_rate c s cl : wf_cfg c -> Inv c s -> wf_call cl = true ->
  Inv c (fst (step c s cl)) /\ rate_le_states c s (fst (step c s cl)).
Proof.
  intros Hc Hi Hwf. unfold step. destruct (step_res c s cl) as [[s' o]|] eqn:E; cbn [fst].
  - apply (step_res_inv_rate c s cl s' o); auto.
  - split; [exact Hi|apply rate_refl].
Qed.

(* ---------- every history ---------- *)
Lemma run_inv_rate c : wf_cfg c -> forall cs s, Inv c s -> forallb wf_call cs = true ->
  Inv c (run c s cs) /\ rate_le_states c s (run c s cs).
Proof.
  intros Hc. induction cs as [|cl cs IH]; intros s Hi Hwf; cbn [run fold_left].
  - split; [exact Hi|apply rate_refl].
  - cbn [forallb] in Hwf. apply andb_prop in Hwf as [Hw Hws].
    destruct (step_inv_rate c s cl Hc Hi Hw) as (Hi1 & Hr1).
    destruct (IH _ Hi1 Hws) as (Hi2 & Hr2). split; [exact Hi2|].
    unfold run in *. unfold rate_le_states in *.
    destruct (den_pos c s Hc Hi) as (? & ? & _). destruct (den_pos c _ Hc Hi1) as (? & ? & _).
    destruct (den_pos c _ Hc Hi2) as (? & ? & _).
    apply (rate_trans _ _ (total_assets (fst (step c s cl)) + 1) (total_supply (fst (step c s cl)) + P_of c)); auto; lia.
Qed.

Lemma run_app c s l1 l2 : run c s (l1 ++ l2) = run c (run c s l1) l2.
Proof. unfold run. apply fold_left_app. Qed.

Theorem reachable_inv c n0 cs : wf_cfg c -> forallb wf_call cs = true -> Inv c (run c (init c n0) cs).
Proof. intros Hc Hw. apply run_inv_rate; auto. apply Inv_init. Qed.

Theorem rate_monotone c n0 cs1 cs2 : wf_cfg c -> forallb wf_call cs1 = true -> forallb wf_call cs2 = true ->
  rate_le_states c (run c (init c n0) cs1) (run c (init c n0) (cs1 ++ cs2)).
Proof.
  intros Hc H1 H2. rewrite run_app. apply run_inv_rate; auto. apply reachable_inv; auto.
Qed.
