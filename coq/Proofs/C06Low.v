(* C06: the monitor of Run/C06.v accepts every run of the low-level machine (Model/AccessLow.v): a contract
   born from ANY constructor pair list (duplicates, aliasing, empty) followed by any sequence of ordinary
   calls and *_no_auth calls. *)
From SC Require Import Lib.Prelude Lib.Int Lib.Host Model.RoleTransfer Model.Access Model.AllowList Model.AccessLow
  Proofs.Access Proofs.AccessLow Run.C06 Proofs.C06Monitor.
From SC Require Proofs.RoleTransfer Run.C07 Proofs.C07Monitor.

Lemma l_diff_model : forall c u cs s i, l_diff_from c u s (l_model_items c u s cs) i = 0%N.
Proof.
  intros c u cs. induction cs as [|cl r IH]; intros s i; [reflexivity|].
  cbn [l_model_items]. destruct (lstep c s cl) as [s' ok] eqn:E. cbn [l_diff_from]. rewrite E.
  rewrite eqb_reflx, eqb_aobs_refl. cbn [andb]. apply IH.
Qed.

Lemma Cl_lstep : forall c u s cl, wf_lcall u cl = true -> Inv s -> Cl u s -> Cl u (fst (lstep c s cl)).
Proof.
  intros c u s cl Hw HI HC. destruct (lstep_spec c s cl HI) as [_ HA].
  destruct cl as [cl|account r0|account r0|r0 ar|r0|r0 answer|r0 caller|r0 caller].
  - rewrite lstep_lcall. apply Cl_step; assumption.
  - intros a r H. change (abs (fst (lstep c s (GrantNoAuth account r0))) a r = true) in H. rewrite HA in H. cbn [labs_after] in H.
    destruct (snd (lstep c s (GrantNoAuth account r0))); [|apply HC; exact H].
    apply orb_prop in H. destruct H as [H|H]; [apply HC; exact H|].
    apply andb_prop in H. destruct H as [E1 E2]. apply N.eqb_eq in E1, E2. subst.
    cbn in Hw. rewrite !andb_true_iff in Hw. destruct Hw as [W1 W2]. rewrite inb_In in W1, W2. auto.
  - intros a r H. change (abs (fst (lstep c s (RevokeNoAuth account r0))) a r = true) in H. rewrite HA in H. cbn [labs_after] in H.
    destruct (snd (lstep c s (RevokeNoAuth account r0))); [|apply HC; exact H].
    apply andb_prop in H. destruct H as [H _]. apply HC; exact H.
  - intros a r H. change (abs (fst (lstep c s (SetRoleAdminNoAuth r0 ar))) a r = true) in H. rewrite HA in H. apply HC; exact H.
  - intros a r H. change (abs (fst (lstep c s (RemoveRoleAdminNoAuth r0))) a r = true) in H. rewrite HA in H. apply HC; exact H.
  - intros a r H. change (abs (fst (lstep c s (RemoveCountNoAuth r0 answer))) a r = true) in H. rewrite HA in H. apply HC; exact H.
  - intros a r H. change (abs (fst (lstep c s (EnsureAuthority r0 caller))) a r = true) in H. rewrite HA in H. apply HC; exact H.
  - intros a r H. change (abs (fst (lstep c s (EnsureRole r0 caller))) a r = true) in H. rewrite HA in H. apply HC; exact H.
Qed.

(* the membership getter after a set operation *)
Lemma membership_after : forall u s s' account r v,
  NoDup (u_accounts u) -> NoDup (u_roles u) -> In account (u_accounts u) -> In r (u_roles u) ->
  (forall a r', has_role s' a r' = if N.eqb a account && N.eqb r' r then v else has_role s a r') ->
  membership (observe u s') = membership_set u (membership (observe u s)) account r v.
Proof.
  intros u s s' account r v Na Nr W1 W2 D.
  rewrite !membership_model. rewrite (membership_set_model u (fun a r => has_role s a r) account r v Na Nr W1 W2).
  apply map_ext. intros r'. apply map_ext. intros a'. apply D.
Qed.

Lemma same_state_frames : forall u s,
  eqb_membership (membership (observe u s)) (membership (observe u s)) = true /\
  eqb_on (ob_admin (observe u s)) (ob_admin (observe u s)) = true /\
  eqb_list eqb_on (role_admins (observe u s)) (role_admins (observe u s)) = true /\
  eqb_list eqb_on (ob_tokens (observe u s)) (ob_tokens (observe u s)) && eqb_list eqb_on (ob_approved (observe u s)) (ob_approved (observe u s)) = true.
Proof.
  intros u s. repeat split.
  - apply eqb_membership_refl.
  - apply eqb_on_refl.
  - apply eqb_list_refl. apply eqb_on_refl.
  - rewrite !(eqb_list_refl _ eqb_on) by apply eqb_on_refl. reflexivity.
Qed.

(* ---- one step of the low-level machine satisfies the monitor ---- *)
Lemma l_mon_step_model : forall h s cl,
  wf_aheader (lh h) = true -> wf_lcall (ah_u (lh h)) cl = true -> Inv s -> Cl (ah_u (lh h)) s ->
  l_mon_step h (observe (ah_u (lh h)) s)
    (cl, snd (lstep (lh_cfg h) s cl), observe (ah_u (lh h)) (fst (lstep (lh_cfg h) s cl))) = true.
Proof.
  intros h s cl Hwf Hwc HI HC.
  destruct (wf_parts (lh h) Hwf) as [Na [Nr [Nt Hlen]]].
  set (u := ah_u (lh h)) in *. set (c := lh_cfg h) in *.
  destruct (lstep_spec c s cl HI) as [HI' HA].
  pose proof (Cl_lstep c u s cl Hwc HI HC) as HC'.
  pose proof (low_frame c s cl) as F.
  destruct (same_state_frames u s) as [SM [SA [SR ST]]].
  destruct cl as [cl|account r|account r|r ar|r|r answer|r caller|r caller]; unfold l_mon_step; fold u.
  - rewrite lstep_lcall. apply (mon_step_model (lh h) s cl Hwf Hwc HI HC).
  - (* GrantNoAuth *)
    cbn [wf_lcall] in Hwc. rewrite andb_true_iff, !inb_In in Hwc. destruct Hwc as [W1 W2].
    destruct F as [F1 [F2 [F3 F4]]].
    rewrite (obs_consistent_model u _ HI' HC' Na Nr).
    rewrite (same_admin_b u s _) by (rewrite F2; reflexivity). rewrite (same_ra_b u s _ F4), (same_tok_b u s _ F1 F3). cbn [andb].
    unfold lstep in *. cbn [lexec] in *. destruct (grant_role_no_auth c s account r) as [s'|] eqn:E; cbn [fst snd] in *.
    + rewrite (membership_after u s s' account r true Na Nr W1 W2); [apply eqb_membership_refl|].
      intros a r'. change (has_role s' a r') with (abs s' a r'). rewrite HA. cbn [labs_after]. unfold abs.
      destruct (N.eqb a account && N.eqb r' r); [apply orb_true_r|apply orb_false_r].
    + rewrite SM. cbn [andb].
      rewrite (obs_has_model u s account r HC W1).
      rewrite role_obs_model. destruct (index_of_in r _ W2) as [k ->]. cbn [observe_role ro_count observe ob_existing].
      apply negb_true_iff.
      destruct (has_role s account r) eqn:Eh.
      * exfalso. unfold grant_role_no_auth in E. rewrite Eh in E. discriminate.
      * cbn [orb]. pose proof (count_bound u s r HI HC Na) as Hcb.
        destruct (N.eqb (N.of_nat (length (a_existing s))) (ah_max_roles (lh h))) eqn:Em; cbn [negb orb].
        -- destruct (0 <? a_count s r)%N eqn:E0; [|reflexivity]. exfalso.
           destruct (grant_no_auth_succeeds c s account r) as [s' Hs'].
           { right. left. apply N.eqb_neq. apply N.ltb_lt in E0. lia. }
           { lia. }
           congruence.
        -- exfalso. destruct (grant_no_auth_succeeds c s account r) as [s' Hs'].
           { right. right. exact Em. }
           { lia. }
           congruence.
  - (* RevokeNoAuth *)
    cbn [wf_lcall] in Hwc. rewrite andb_true_iff, !inb_In in Hwc. destruct Hwc as [W1 W2].
    destruct F as [F1 [F2 [F3 F4]]].
    rewrite (obs_consistent_model u _ HI' HC' Na Nr).
    rewrite (same_admin_b u s _) by (rewrite F2; reflexivity). rewrite (same_ra_b u s _ F4), (same_tok_b u s _ F1 F3). cbn [andb].
    rewrite (obs_has_model u s account r HC W1).
    unfold lstep in *. cbn [lexec] in *. destruct (revoke_role_no_auth s account r) as [s'|] eqn:E; cbn [fst snd] in *.
    + destruct (revoke_no_auth_spec s account r s' HI E) as [Eh _]. rewrite Eh. cbn [Bool.eqb andb].
      rewrite (membership_after u s s' account r false Na Nr W1 W2); [apply eqb_membership_refl|].
      intros a r'. change (has_role s' a r') with (abs s' a r'). rewrite HA. cbn [labs_after]. unfold abs.
      destruct (N.eqb a account && N.eqb r' r); cbn [negb]; [apply andb_false_r|apply andb_true_r].
    + destruct (has_role s account r) eqn:Eh.
      * exfalso. destruct (revoke_no_auth_succeeds s account r HI Eh) as [s' Hs']. congruence.
      * cbn [Bool.eqb andb]. exact SM.
  - (* SetRoleAdminNoAuth *)
    cbn [wf_lcall] in Hwc. rewrite andb_true_iff, !inb_In in Hwc. destruct Hwc as [W1 W2].
    destruct F as [F1 [F2 [F3 [F4 F5]]]].
    rewrite (obs_consistent_model u _ HI' HC' Na Nr). rewrite F4. cbn [andb].
    rewrite (same_mem_b u s _) by (intros a r'; change (abs (fst (lstep c s (SetRoleAdminNoAuth r ar))) a r' = abs s a r'); rewrite HA; reflexivity).
    rewrite (same_admin_b u s _) by (rewrite F2; reflexivity). rewrite (same_tok_b u s _ F1 F3). cbn [andb].
    destruct (index_of_in r _ W1) as [k Ek]. rewrite Ek. rewrite !role_admins_model. rewrite F5.
    erewrite set_nth_map; [|exact Nr|exact Ek].
    apply eqb_list_refl. apply eqb_on_refl.
  - (* RemoveRoleAdminNoAuth *)
    cbn [wf_lcall] in Hwc. rewrite inb_In in Hwc.
    destruct F as [F1 [F2 [F3 [F4 F5]]]].
    rewrite (obs_consistent_model u _ HI' HC' Na Nr).
    rewrite (same_mem_b u s _) by (intros a r'; change (abs (fst (lstep c s (RemoveRoleAdminNoAuth r))) a r' = abs s a r'); rewrite HA; reflexivity).
    rewrite (same_admin_b u s _) by (rewrite F2; reflexivity). rewrite (same_tok_b u s _ F1 F3). cbn [andb].
    rewrite (obs_role_admin_model u s r Hwc). rewrite F4, eqb_reflx. cbn [andb].
    destruct (index_of_in r _ Hwc) as [k Ek]. rewrite Ek. rewrite !role_admins_model. rewrite F5.
    destruct (is_some (a_role_admin s r)).
    + erewrite set_nth_map; [|exact Nr|exact Ek]. apply eqb_list_refl. apply eqb_on_refl.
    + apply eqb_list_refl. apply eqb_on_refl.
  - (* RemoveCountNoAuth *)
    cbn [wf_lcall] in Hwc. rewrite inb_In in Hwc.
    destruct F as [F1 [F2 [F3 [F4 [F5 F6]]]]]. rewrite F4 in *.
    rewrite (obs_consistent_model u _ HI HC Na Nr), SM, SA, SR, ST. cbn [andb].
    destruct (snd (lstep c s (RemoveCountNoAuth r answer))) eqn:Eo; [|reflexivity].
    rewrite role_obs_model. destruct (index_of_in r _ Hwc) as [k ->]. cbn [observe_role ro_count].
    rewrite (F5 eq_refl). reflexivity.
  - (* EnsureAuthority *)
    cbn [wf_lcall] in Hwc. rewrite andb_true_iff, !inb_In in Hwc. destruct Hwc as [W1 W2].
    destruct (ensure_closed c s r caller) as [EC _]. rewrite EC in *. cbn [fst snd] in *.
    rewrite (obs_consistent_model u _ HI HC Na Nr), SM, SA, SR, ST. cbn [andb].
    rewrite (obs_authority_model u s r caller HC W2 W1). apply eqb_reflx.
  - (* EnsureRole *)
    cbn [wf_lcall] in Hwc. rewrite andb_true_iff, !inb_In in Hwc. destruct Hwc as [W1 W2].
    destruct (ensure_closed c s r caller) as [_ EC]. rewrite EC in *. cbn [fst snd] in *.
    rewrite (obs_consistent_model u _ HI HC Na Nr), SM, SA, SR, ST. cbn [andb].
    rewrite (obs_has_model u s caller r HC W2). apply eqb_reflx.
Qed.

(* ---- the hand-over clauses: a low-level call is a no-op for the admin handshake ---- *)
Lemma hand_step_ext : forall h q cl ok o o',
  ob_admin o = ob_admin o' -> ob_pending o = ob_pending o' ->
  hand_step h q (cl, ok, o) = hand_step h q (cl, ok, o').
Proof. intros h q cl ok o o' A B. unfold hand_step, proj_item. rewrite A, B. reflexivity. Qed.

Lemma l_hand_step_model : forall h s cl q,
  wf_aheader (lh h) = true -> CM.R q (hand_state s) ->
  exists q', hand_step (lh h) q (l_proj (cl, snd (lstep (lh_cfg h) s cl), observe (ah_u (lh h)) (fst (lstep (lh_cfg h) s cl)))) = Some q' /\
             CM.R q' (hand_state (fst (lstep (lh_cfg h) s cl))).
Proof.
  intros h s cl q Hwf HR.
  assert (Neutral : forall s', a_now s' = a_now s -> a_rt s' = a_rt s ->
            exists q', hand_step (lh h) q (Advance 0, true, observe (ah_u (lh h)) s') = Some q' /\ CM.R q' (hand_state s')).
  { intros s' Hn Hr. destruct (hand_step_model (lh h) s (Advance 0) q Hwf HR) as [q' [A B]].
    rewrite advance0_obs in A. exists q'. split.
    - unfold step in A. cbn [exec snd] in A. rewrite <- A. apply hand_step_ext.
      + cbn [observe ob_admin]. rewrite Hr. reflexivity.
      + cbn [observe ob_pending]. rewrite Hn, Hr. reflexivity.
    - eapply R_ext; [| |exact B]; unfold step; cbn; [lia|congruence]. }
  pose proof (low_frame (lh_cfg h) s cl) as F.
  destruct cl as [cl|account r|account r|r ar|r|r answer|r caller|r caller]; cbn [l_proj].
  - rewrite lstep_lcall. apply (hand_step_model (lh h) s cl q Hwf HR).
  - destruct F as [F1 [F2 _]]. apply Neutral; assumption.
  - destruct F as [F1 [F2 _]]. apply Neutral; assumption.
  - destruct F as [F1 [F2 _]]. apply Neutral; assumption.
  - destruct F as [F1 [F2 _]]. apply Neutral; assumption.
  - destruct F as [F1 [F2 _]]. apply Neutral; assumption.
  - destruct F as [F1 [F2 _]]. apply Neutral; assumption.
  - destruct F as [F1 [F2 _]]. apply Neutral; assumption.
Qed.

Lemma l_mon_model : forall h cs s q i,
  wf_aheader (lh h) = true -> forallb (wf_lcall (ah_u (lh h))) cs = true ->
  Inv s -> Cl (ah_u (lh h)) s -> CM.R q (hand_state s) ->
  l_mon_from h (observe (ah_u (lh h)) s) q (l_model_items (lh_cfg h) (ah_u (lh h)) s cs) i = 0%N.
Proof.
  intros h cs. induction cs as [|cl r IH]; intros s q i Hwf Hw HI HC HR; [reflexivity|].
  cbn [forallb] in Hw. apply andb_prop in Hw. destruct Hw as [Hw1 Hw2].
  cbn [l_model_items]. pose proof (l_mon_step_model h s cl Hwf Hw1 HI HC) as M.
  destruct (l_hand_step_model h s cl q Hwf HR) as [q' [H1 H2]].
  destruct (lstep_spec (lh_cfg h) s cl HI) as [HI' _].
  pose proof (Cl_lstep (lh_cfg h) (ah_u (lh h)) s cl Hw1 HI HC) as HC'.
  destruct (lstep (lh_cfg h) s cl) as [s' ok] eqn:E. cbn [fst snd] in *. cbn [l_mon_from]. rewrite M, H1. cbn [snd].
  apply IH; auto.
Qed.

Lemma l_calls_wf : forall h cs s,
  forallb (wf_lcall (ah_u (lh h))) cs = true ->
  forallb (fun it : litem => wf_lcall (ah_u (lh h)) (fst (fst it))) (l_model_items (lh_cfg h) (ah_u (lh h)) s cs) = true.
Proof.
  intros h cs. induction cs as [|cl r IH]; intros s Hw; [reflexivity|]. cbn [forallb] in Hw. apply andb_prop in Hw.
  cbn [l_model_items]. destruct (lstep (lh_cfg h) s cl) as [s' ok]. cbn [forallb fst]. rewrite (proj1 Hw). apply IH. tauto.
Qed.

(* ---- the constructor ---- *)
(* with the role universe fitting into MAX_ROLES no grant of a pair of the universe is ever refused *)
Lemma ctor_grant_ok : forall h s a r,
  wf_aheader (lh h) = true -> (N.of_nat (length (u_roles (ah_u (lh h)))) <= ah_max_roles (lh h))%N ->
  Inv s -> Cl (ah_u (lh h)) s -> In a (u_accounts (ah_u (lh h))) -> In r (u_roles (ah_u (lh h))) ->
  snd (lstep (lh_cfg h) s (GrantNoAuth a r)) = true.
Proof.
  intros h s a r Hwf Hfit HI HC Ha Hr. destruct (wf_parts (lh h) Hwf) as [Na [Nr [Nt Hlen]]].
  set (u := ah_u (lh h)) in *.
  pose proof (count_bound u s r HI HC Na) as Hcb.
  destruct (grant_no_auth_succeeds (lh_cfg h) s a r) as [s' Hs'].
  - destruct (N.eqb (a_count s r) 0) eqn:E0; [|right; left; reflexivity]. right. right.
    apply N.eqb_eq in E0. apply N.eqb_neq.
    destruct (existing_exact s HI) as [X1 X2]. destruct HI as [I1 [I2 I3]].
    assert (Hnot : ~ In r (a_existing s)) by (intros Hin; apply I3 in Hin; lia).
    assert (Hl : (length (r :: a_existing s) <= length (u_roles u))%nat).
    { apply NoDup_incl_length; [constructor; assumption|].
      intros x [<-|Hx]; [exact Hr|]. apply X2 in Hx. destruct Hx as [a' Ha']. apply (HC a' x Ha'). }
    cbn [length] in Hl. change (max_roles (lh_cfg h)) with (ah_max_roles (lh h)). lia.
  - lia.
  - unfold lstep. cbn [lexec]. rewrite Hs'. reflexivity.
Qed.

Definition pairs_in (u : universe) (pairs : list (addr * role)) : Prop :=
  forall p, In p pairs -> In (fst p) (u_accounts u) /\ In (snd p) (u_roles u).

Lemma ctor_model : forall h pairs s,
  wf_aheader (lh h) = true -> (N.of_nat (length (u_roles (ah_u (lh h)))) <= ah_max_roles (lh h))%N ->
  pairs_in (ah_u (lh h)) pairs -> Inv s -> Cl (ah_u (lh h)) s ->
  let s' := lrun (lh_cfg h) s (ctor_calls pairs) in
  Inv s' /\ Cl (ah_u (lh h)) s' /\ a_now s' = a_now s /\ a_rt s' = a_rt s /\ a_nft s' = a_nft s /\
  a_role_admin s' = a_role_admin s /\
  membership (observe (ah_u (lh h)) s') =
    fold_left (fun m p => membership_set (ah_u (lh h)) m (fst p) (snd p) true) pairs (membership (observe (ah_u (lh h)) s)).
Proof.
  intros h pairs. induction pairs as [|[a r] t IH]; intros s Hwf Hfit Hin HI HC; cbn zeta.
  - cbn. auto 10.
  - destruct (wf_parts (lh h) Hwf) as [Na [Nr _]].
    destruct (Hin (a, r) (or_introl eq_refl)) as [Wa Wr]. cbn [fst snd] in Wa, Wr.
    cbn [ctor_calls map lrun fold_left fst snd].
    set (s1 := fst (lstep (lh_cfg h) s (GrantNoAuth a r))).
    destruct (lstep_spec (lh_cfg h) s (GrantNoAuth a r) HI) as [HI1 HA].
    assert (Hw : wf_lcall (ah_u (lh h)) (GrantNoAuth a r) = true).
    { cbn [wf_lcall]. apply andb_true_iff. split; apply inb_In; assumption. }
    pose proof (Cl_lstep (lh_cfg h) (ah_u (lh h)) s (GrantNoAuth a r) Hw HI HC) as HC1.
    pose proof (low_frame (lh_cfg h) s (GrantNoAuth a r)) as [F1 [F2 [F3 F4]]].
    pose proof (ctor_grant_ok h s a r Hwf Hfit HI HC Wa Wr) as Hok.
    fold s1 in HI1, HC1, F1, F2, F3, F4, HA.
    assert (Hin' : pairs_in (ah_u (lh h)) t) by (intros p Hp; apply Hin; right; exact Hp).
    destruct (IH s1 Hwf Hfit Hin' HI1 HC1) as [A [B [C [D [E [G M]]]]]].
    change (fold_left (fun s0 cl => fst (lstep (lh_cfg h) s0 cl)) (map (fun p => GrantNoAuth (fst p) (snd p)) t) s1)
      with (lrun (lh_cfg h) s1 (ctor_calls t)).
    split; [exact A|]. split; [exact B|]. split; [congruence|]. split; [congruence|]. split; [congruence|]. split; [congruence|].
    rewrite M. f_equal.
    apply (membership_after (ah_u (lh h)) s s1 a r true Na Nr Wa Wr).
    intros a' r'. change (has_role s1 a' r') with (abs s1 a' r'). rewrite HA. rewrite Hok. cbn [labs_after]. unfold abs.
    destruct (N.eqb a' a && N.eqb r' r); [apply orb_true_r|apply orb_false_r].
Qed.

(* exactly the listed pairs are members of the constructed contract *)
Lemma lrun_ctor_complete : forall h pairs s a r,
  wf_aheader (lh h) = true -> (N.of_nat (length (u_roles (ah_u (lh h)))) <= ah_max_roles (lh h))%N ->
  pairs_in (ah_u (lh h)) pairs -> Inv s -> Cl (ah_u (lh h)) s ->
  In (a, r) pairs -> abs (lrun (lh_cfg h) s (ctor_calls pairs)) a r = true.
Proof.
  intros h pairs. induction pairs as [|[a0 r0] t IH]; intros s a r Hwf Hfit Hin HI HC Hp; [destruct Hp|].
  destruct (Hin (a0, r0) (or_introl eq_refl)) as [Wa Wr]. cbn [fst snd] in Wa, Wr.
  cbn [ctor_calls map lrun fold_left fst snd].
  destruct (lstep_spec (lh_cfg h) s (GrantNoAuth a0 r0) HI) as [HI1 HA].
  assert (Hw : wf_lcall (ah_u (lh h)) (GrantNoAuth a0 r0) = true).
  { cbn [wf_lcall]. apply andb_true_iff. split; apply inb_In; assumption. }
  pose proof (Cl_lstep (lh_cfg h) (ah_u (lh h)) s (GrantNoAuth a0 r0) Hw HI HC) as HC1.
  pose proof (ctor_grant_ok h s a0 r0 Hwf Hfit HI HC Wa Wr) as Hok.
  destruct Hp as [Hp|Hp].
  - inversion Hp; subst. apply lrun_ctor_mono; [exact HI1|]. rewrite HA. cbn [labs_after]. rewrite Hok.
    rewrite !N.eqb_refl. apply orb_true_r.
  - apply IH; auto. intros p Hq. apply Hin. right. exact Hq.
Qed.

Lemma all_none_map : forall A B (l : list B), @all_none A (map (fun _ => None) l) = true.
Proof. intros A B l. induction l as [|x t IH]; [reflexivity|]. cbn. exact IH. Qed.

Lemma wf_lheader_parts : forall h, wf_lheader h = true ->
  pairs_in (ah_u (lh h)) (lh_ctor h) /\ (N.of_nat (length (u_roles (ah_u (lh h)))) <= ah_max_roles (lh h))%N.
Proof.
  intros h H. unfold wf_lheader in H. apply andb_prop in H. destruct H as [H1 H2]. split.
  - intros p Hp. rewrite forallb_forall in H1. specialize (H1 p Hp). apply andb_prop in H1. rewrite !inb_In in H1. exact H1.
  - apply N.leb_le. exact H2.
Qed.

Lemma lh_init_facts : forall h, wf_aheader (lh h) = true -> wf_lheader h = true ->
  Inv (lh_init h) /\ Cl (ah_u (lh h)) (lh_init h) /\
  a_now (lh_init h) = ah_start (lh h) /\ a_rt (lh_init h) = {| holder := ah_admin (lh h); pending := None |} /\
  l_init_ok h (observe (ah_u (lh h)) (lh_init h)) = true.
Proof.
  intros h Hwf Hwl. destruct (wf_lheader_parts h Hwl) as [Hin Hfit]. destruct (wf_parts (lh h) Hwf) as [Na [Nr _]].
  set (s0 := Access.init (ah_start (lh h)) (ah_admin (lh h))).
  destruct (ctor_model h (lh_ctor h) s0 Hwf Hfit Hin (Proofs.Access.inv_init _ _) (Cl_init _ _ _)) as [A [B [C [D [E [G M]]]]]].
  change (lrun (lh_cfg h) s0 (ctor_calls (lh_ctor h))) with (lh_init h) in *.
  assert (M0 : membership (observe (ah_u (lh h)) s0) =
               map (fun _ : role => map (fun _ : addr => false) (u_accounts (ah_u (lh h)))) (u_roles (ah_u (lh h))))
    by (rewrite membership_model; reflexivity).
  rewrite M0 in M. clear M0.
  subst s0. cbn [Access.init a_now a_rt a_nft a_role_admin] in C, D, E, G.
  split; [exact A|]. split; [exact B|]. split; [exact C|]. split; [exact D|].
  unfold l_init_ok. rewrite (obs_consistent_model _ _ A B Na Nr). cbn [andb].
  rewrite M. unfold ctor_membership. rewrite eqb_membership_refl. cbn [andb].
  rewrite role_admins_model, G. rewrite all_none_map.
  cbn [observe ob_admin ob_pending ob_tokens ob_approved]. rewrite C, D, E. cbn [holder pending tlive_at n_owner].
  rewrite eqb_on_refl. cbn [andb is_some negb].
  rewrite all_none_map, !map_length, Nat.eqb_refl. cbn [andb].
  replace (map (approved_of (ah_start (lh h)) {| n_owner := fun _ : N => None; n_appr := fun _ : N => None |}) (u_tokens (ah_u (lh h))))
    with (map (fun _ : N => @None addr) (u_tokens (ah_u (lh h))))
    by (apply map_ext; intros t; reflexivity).
  rewrite all_none_map. reflexivity.
Qed.

Theorem check_model_low : forall h cs,
  wf_aheader (lh h) = true -> wf_lheader h = true -> forallb (wf_lcall (ah_u (lh h))) cs = true ->
  check (observe_model_low h cs) = (0%N, 0%N, 0%N).
Proof.
  intros h cs Hwf Hwl Hw. unfold check, observe_model_low. rewrite Hwf, Hwl, eqb_aobs_refl. cbn [andb].
  rewrite l_diff_model. rewrite (l_calls_wf h cs _ Hw).
  destruct (lh_init_facts h Hwf Hwl) as [HI [HC [Hn [Hr Hok]]]]. rewrite Hok. cbn [andb].
  assert (HR : CM.R (C07.mon_init (c07_hd (lh h))) (hand_state (lh_init h))).
  { eapply R_ext; [| |apply (R_init_access (lh h))]; cbn [hand_state now rts]; [rewrite Hn|rewrite Hr]; reflexivity. }
  rewrite (l_mon_model h cs (lh_init h) _ 0%N Hwf Hw HI HC HR). reflexivity.
Qed.

(* a contract constructed from a pair list holds exactly the set of listed pairs *)
Theorem ctor_list_is_set : forall h a r,
  wf_aheader (lh h) = true -> wf_lheader h = true ->
  (abs (lh_init h) a r = true <-> In (a, r) (lh_ctor h)).
Proof.
  intros h a r Hwf Hwl. destruct (wf_lheader_parts h Hwl) as [Hin Hfit]. split.
  - apply ctor_sound.
  - apply (lrun_ctor_complete h (lh_ctor h) _ a r Hwf Hfit Hin (Proofs.Access.inv_init _ _) (Cl_init _ _ _)).
Qed.
