(* C19: the DESIGN.md theorems, at full strength over every reachable state. *)
From SC Require Import Lib.Prelude Lib.Int Lib.Host Model.FeeForwarder Proofs.FeeForwarder
  Run.C19 Proofs.FeeForwarderAllow Proofs.FeeForwarderFwd Proofs.C19Monitor.

(* the state reached by a call sequence, together with the set of tokens allowed and not since
   removed (read off the successful enable / disable calls of the history) *)
Definition abs_step (c : cfg) (acc : state * list addr) (cl : call) : state * list addr :=
  let st' := fst (step c (fst acc) cl) in
  let out := snd (step c (fst acc) cl) in
  (st', match cl, out with
        | SetTok allowed tok _ _, Ok _ => if allowed then tok :: snd acc else remove_addr tok (snd acc)
        | _, _ => snd acc
        end).
Definition run_abs (c : cfg) (cs : list call) : state * list addr := fold_left (abs_step c) cs (init c, []).
Definition run (c : cfg) (cs : list call) : state := fold_left (fun s cl => fst (step c s cl)) cs (init c).

Lemma run_abs_fst c cs : fst (run_abs c cs) = run c cs.
Proof.
  unfold run_abs, run. generalize (init c) ([] : list addr). induction cs as [|cl r IH]; intros st S; cbn [fold_left]; [reflexivity|].
  unfold abs_step at 2. cbn [fst snd]. apply IH.
Qed.

Lemma Inv_abs_step c st S cl : wfc c -> Inv st S -> Inv (fst (abs_step c (st, S) cl)) (snd (abs_step c (st, S) cl)).
Proof.
  intros Hw I. unfold abs_step. cbn [fst snd]. unfold step.
  destruct (step_ok c st cl) as [[st' r]|] eqn:E; cbn [fst snd].
  - pose proof (step_ok_Inv _ _ _ _ _ _ Hw I E) as I'.
    destruct cl; cbn [mon_call snd] in I'; exact I'.
  - destruct cl; exact I.
Qed.

Lemma Inv_run_abs c cs : wfc c -> Inv (fst (run_abs c cs)) (snd (run_abs c cs)).
Proof.
  intros Hw. unfold run_abs. pose proof (Inv_init c) as I. revert I.
  generalize (init c) ([] : list addr). induction cs as [|cl r IH]; intros st S I; cbn [fold_left]; [exact I|].
  pose proof (Inv_abs_step c st S cl Hw I) as I'.
  destruct (abs_step c (st, S) cl) as [st' S'] eqn:E. cbn [fst snd] in I'. apply IH. exact I'.
Qed.

Lemma Inv_run c cs : wfc c -> Inv (run c cs) (snd (run_abs c cs)).
Proof. intros Hw. rewrite <- run_abs_fst. apply Inv_run_abs. exact Hw. Qed.

(* existsb over entries, in Prop *)
Lemma covers_root_ex au who f :
  existsb (fun e => covers_root e who f) au = true ->
  exists e, In e au /\ en_who e = who /\ en_root e = f.
Proof.
  intros H. apply existsb_exists in H. destruct H as [e [Hi Hc]]. unfold covers_root in Hc.
  apply andb_true_iff in Hc. destruct Hc as [H1 H2]. apply N.eqb_eq in H1. apply func_eqb_eq in H2.
  exists e. auto.
Qed.
Lemma covers_ex au who f :
  existsb (fun e => covers e who f) au = true ->
  exists e, In e au /\ en_who e = who /\ (en_root e = f \/ In f (en_subs e)).
Proof.
  intros H. apply existsb_exists in H. destruct H as [e [Hi Hc]]. unfold covers in Hc.
  apply andb_true_iff in Hc. destruct Hc as [H1 H2]. apply N.eqb_eq in H1.
  exists e. split; [exact Hi|]. split; [exact H1|].
  apply orb_true_iff in H2. destruct H2 as [H2|H2].
  - left. apply func_eqb_eq. exact H2.
  - right. apply existsb_exists in H2. destruct H2 as [s [Hs He]]. apply func_eqb_eq in He. subst. exact Hs.
Qed.

(* ---- authorisation over the exact tuple: needs no hypothesis on the state ---- *)
Lemma forward_needs_auth c st k tok fee max exp target fn args user relayer au st' ret :
  step_ok c st (Forward k tok fee max exp target fn args user relayer au) = Ok (st', ret) ->
  (exists e, In e au /\ en_who e = user /\
     en_root e = {| f_contract := fwd_addr c k; f_name := F_FORWARD;
                    f_args := [VA tok; VI max; VI exp; VA target; VS fn; VL args] |}) /\
  (exists e, In e au /\ en_who e = relayer /\
     en_root e = {| f_contract := fwd_addr c k; f_name := F_FORWARD;
                    f_args := [VA tok; VI fee; VI max; VI exp; VA target; VS fn; VL args; VA user; VA relayer] |}) /\
  (k = Permissioned -> In relayer (c_executors c)).
Proof.
  cbn [step_ok]. unfold forward.
  destruct (match k with Permissioned => memb relayer (c_executors c) | Permissionless => true end) eqn:Er;
    cbn [guard bind]; [|discriminate].
  destruct (require_auth false None relayer _ (map init_tracker au)) as [ts1|] eqn:E1; cbn [bind]; [|discriminate].
  destruct (require_auth false None user _ ts1) as [ts2|] eqn:E2; cbn [bind]; [|discriminate].
  intros _.
  pose proof (require_auth_outer _ _ _ _ E1) as A1. rewrite entries_init in A1.
  pose proof (require_auth_outer _ _ _ _ E2) as A2.
  rewrite (require_auth_entries _ _ _ _ _ _ E1), entries_init in A2.
  split; [|split].
  - apply covers_root_ex in A2. exact A2.
  - apply covers_root_ex in A1. exact A1.
  - intros ->. apply memb_In. exact Er.
Qed.

Lemma forward_fee_bounds c st k tok fee max exp target fn args user relayer au st' ret :
  step_ok c st (Forward k tok fee max exp target fn args user relayer au) = Ok (st', ret) ->
  0 < fee <= max /\ user <> fwd_addr c k.
Proof.
  cbn [step_ok]. unfold forward.
  destruct (match k with Permissioned => _ | Permissionless => _ end); cbn [guard bind]; [|discriminate].
  destruct (require_auth false None relayer _ _) as [ts1|]; cbn [bind]; [|discriminate].
  destruct (require_auth false None user _ ts1) as [ts2|]; cbn [bind]; [|discriminate].
  destruct (collect_fee _ _ _ _ _ _ _ _ _ _ _ _ _) as [[t' ts3]|] eqn:E3; cbn [bind]; [|discriminate].
  intros _. unfold collect_fee in E3.
  destruct (is_allowed _ tok); cbn [guard bind] in E3; [|discriminate].
  destruct (N.eqb (fwd_addr c k) user) eqn:Eu; cbn [negb guard bind] in E3; [discriminate|].
  destruct ((fee <=? 0) || (max <? fee)) eqn:Ef; cbn [negb guard bind] in E3; [discriminate|].
  apply orb_false_iff in Ef. destruct Ef as [Ef1 Ef2]. apply Z.leb_gt in Ef1. apply Z.ltb_ge in Ef2.
  apply N.eqb_neq in Eu. split; [lia|congruence].
Qed.

(* ---- exact debit / credit and allowance effects, in every reachable state ---- *)
Lemma forward_exact_debit_credit c cs k tok fee max exp target fn args user relayer au st' ret :
  1 <= min_temp_ttl (c_host c) ->
  wf_call c (Forward k tok fee max exp target fn args user relayer au) = true ->
  let st := run c cs in
  step_ok c st (Forward k tok fee max exp target fn args user relayer au) = Ok (st', ret) ->
  let F := fwd_addr c k in
  let recipient := match k with Permissioned => F | Permissionless => relayer end in
  let old := allowance_data (now st) (get_tok st tok) user F in
  let fresh := match k with Permissioned => fst old <? max | Permissionless => true end in
  let mv := tgt_moves c target fn args in
  (forall t h, balance (get_tok st' t) h =
     balance (get_tok st t) h +
     (if N.eqb t tok then (if N.eqb h recipient then fee else 0) - (if N.eqb h user then fee else 0) else 0) +
     tgt_delta mv target t h) /\
  (forall t, t_total (get_tok st' t) = t_total (get_tok st t)) /\
  (forall t o s, allowance_data (now st') (get_tok st' t) o s =
     tgt_alw mv target t o s
       (if N.eqb t tok && N.eqb o user && N.eqb s F
        then (if fresh then (max - fee, exp) else (fst old - fee, snd old))
        else allowance_data (now st) (get_tok st t) o s)) /\
  (fresh = true ->
     exists e, In e au /\ en_who e = user /\
       let ap := {| f_contract := tok; f_name := F_APPROVE; f_args := [VA user; VA F; VI max; VI exp] |} in
       (en_root e = ap \/ In ap (en_subs e))) /\
  now st <= exp /\ now st' = now st /\
  (memb target (c_tokens c) = false -> mv = None) /\
  (forall from to amt sp, mv = Some (from, to, amt, sp) -> 0 <= amt).
Proof.
  intros Hm Hwf st H F recipient old fresh mv. cbn [step_ok] in H.
  destruct (forward_spec _ _ _ _ _ _ _ _ _ _ _ _ _ _ _ Hm Hwf H) as [t1 P].
  pose proof (fp_pre _ _ _ _ _ _ _ _ _ _ _ _ _ _ _ _ P) as Q.
  pose proof (fq_collect _ _ _ _ _ _ _ _ _ _ _ _ _ _ Q) as C.
  pose proof (fp_tpost _ _ _ _ _ _ _ _ _ _ _ _ _ _ _ _ P) as TP.
  assert (Hfresh : fresh = need_approve (approval_of k) (ad (now st) (alw_get (get_tok st tok) user F)) max).
  { unfold fresh, old. rewrite allowance_data_ad. destruct k; reflexivity. }
  split; [|split; [|split; [|split; [|split; [|split; [|split]]]]]].
  - intros t h. change (get_tok st' t) with (get_tokm (toks st') t).
    rewrite (tp_bal _ _ _ _ _ _ _ TP), mid_get. fold mv. destruct (N.eqb t tok) eqn:E.
    + apply N.eqb_eq in E. subst t. rewrite (cp_bal _ _ _ _ _ _ _ _ _ _ _ _ _ _ C).
      unfold recipient_of, recipient, F. destruct k; lia.
    + lia.
  - intros t. change (get_tok st' t) with (get_tokm (toks st') t).
    rewrite (tp_total _ _ _ _ _ _ _ TP), mid_get. destruct (N.eqb t tok) eqn:E; [|reflexivity].
    apply N.eqb_eq in E. subst t. apply (cp_total _ _ _ _ _ _ _ _ _ _ _ _ _ _ C).
  - intros t o s. rewrite (fp_now _ _ _ _ _ _ _ _ _ _ _ _ _ _ _ _ P). rewrite !allowance_data_ad.
    change (get_tok st' t) with (get_tokm (toks st') t).
    rewrite (tp_alw _ _ _ _ _ _ _ TP), mid_get. fold mv. f_equal.
    destruct (N.eqb t tok) eqn:E; cbn [andb]; [|reflexivity].
    apply N.eqb_eq in E. subst t. rewrite (cp_alw _ _ _ _ _ _ _ _ _ _ _ _ _ _ C).
    fold F. rewrite Hfresh. unfold old. rewrite allowance_data_ad. reflexivity.
  - intros Hf. rewrite Hfresh in Hf. pose proof (cp_auth _ _ _ _ _ _ _ _ _ _ _ _ _ _ C Hf) as A.
    apply covers_ex in A. exact A.
  - apply (cp_exp _ _ _ _ _ _ _ _ _ _ _ _ _ _ C).
  - apply (fp_now _ _ _ _ _ _ _ _ _ _ _ _ _ _ _ _ P).
  - intros Ht. apply tgt_moves_not_token. exact Ht.
  - apply (tp_amt _ _ _ _ _ _ _ TP).
Qed.

Lemma forward_target_once c st k tok fee max exp target fn args user relayer au st' ret :
  1 <= min_temp_ttl (c_host c) ->
  wf_call c (Forward k tok fee max exp target fn args user relayer au) = true ->
  step_ok c st (Forward k tok fee max exp target fn args user relayer au) = Ok (st', ret) ->
  if memb target (c_tokens c)
  then (* the target is a fee token: one of the two modelled token functions, no harness target is touched *)
       tgt_moves c target fn args <> None /\ logs st' = logs st /\ ret = 0
  else In target (c_targets c) /\
       (forall g, get_log (logs st') g =
          if N.eqb g target
          then get_log (logs st) target ++ [if is_script fn then (fn, args ++ [AI 0]) else (fn, args)]
          else get_log (logs st) g) /\
       ret = Z.of_nat (length (get_log (logs st') target)).
Proof.
  intros Hm Hwf H. cbn [step_ok] in H.
  destruct (forward_spec _ _ _ _ _ _ _ _ _ _ _ _ _ _ _ Hm Hwf H) as [t1 P].
  pose proof (fp_target _ _ _ _ _ _ _ _ _ _ _ _ _ _ _ _ P) as T.
  destruct (memb target (c_tokens c)); [exact T|].
  destruct T as [T1 [T2 T3]]. split; [apply memb_In; exact T1|]. split; [exact T2|exact T3].
Qed.

Lemma step_atomic c st cl :
  snd (step c st cl) = Fail -> fst (step c st cl) = st /\ observe c (fst (step c st cl)) = observe c st.
Proof.
  unfold step. destruct (step_ok c st cl) as [[st' r]|]; cbn [fst snd]; [discriminate|]. auto.
Qed.

(* ---- the allow-list ---- *)
Lemma enumeration_map_some a : al_wf a -> enumeration a = map Some (strip (enumeration a)).
Proof.
  intros W. pose proof (enumeration_all_some a W) as H. induction (enumeration a) as [|[x|] l IH]; cbn in *.
  - reflexivity.
  - f_equal. apply IH. exact H.
  - discriminate.
Qed.

Lemma allowlist_refines_set c cs :
  1 <= min_temp_ttl (c_host c) ->
  let a := al (run c cs) in
  let S := snd (run_abs c cs) in
  exists en,
    enumeration a = map Some en /\ NoDup en /\ N.of_nat (length en) = al_count a /\
    (forall t, In t en <-> In t S) /\
    (forall t, alist_get t (al_idx a) = find_index t en 0%N) /\
    alist_get (al_count a) (al_tok a) = None /\
    (forall t, is_allowed a t = true <-> (en = [] \/ In t en)).
Proof.
  intros Hm a S. pose proof (Inv_run c cs Hm) as I. fold S in I.
  pose proof (inv_wf _ _ I) as W. pose proof (inv_set _ _ I) as HS. fold a in W, HS.
  exists (strip (enumeration a)). split; [|split; [|split; [|split; [|split; [|split]]]]].
  - apply enumeration_map_some. exact W.
  - apply enumeration_nodup. exact W.
  - pose proof (enumeration_map_some a W) as E. apply (f_equal (@length _)) in E.
    rewrite map_length in E. rewrite <- E. unfold enumeration. rewrite enum_from_length. lia.
  - intros t. rewrite (enumeration_In a W). rewrite <- memb_In. symmetry. apply HS.
  - intros t. symmetry. apply find_index_enumeration. exact W.
  - apply past_none. exact W.
  - intros t. unfold is_allowed. destruct (N.eqb (al_count a) 0) eqn:Ec.
    + split; [|reflexivity]. intros _. left. apply N.eqb_eq in Ec.
      unfold enumeration. rewrite Ec. reflexivity.
    + apply N.eqb_neq in Ec. rewrite (enumeration_In a W). split.
      * intros H. right. destruct (alist_get t (al_idx a)); [discriminate|discriminate].
      * intros [H|H].
        -- exfalso. pose proof (enumeration_map_some a W) as E. rewrite H in E.
           apply (f_equal (@length _)) in E. unfold enumeration in E. rewrite enum_from_length in E.
           cbn in E. lia.
        -- destruct (alist_get t (al_idx a)); [reflexivity|congruence].
Qed.

Lemma forward_token_allowed c cs tok fee max exp target fn args user relayer au st' ret :
  1 <= min_temp_ttl (c_host c) ->
  let st := run c cs in
  step_ok c st (Forward Permissioned tok fee max exp target fn args user relayer au) = Ok (st', ret) ->
  al_count (al st) = 0%N \/ In (Some tok) (enumeration (al st)).
Proof.
  intros Hm st H. cbn [step_ok] in H.
  destruct (forward_open _ _ _ _ _ _ _ _ _ _ _ _ _ _ _ Hm H) as [t' [ts3 [tks' [l' [Q _]]]]].
  pose proof (cp_allowed _ _ _ _ _ _ _ _ _ _ _ _ _ _ (fq_collect _ _ _ _ _ _ _ _ _ _ _ _ _ _ Q)) as A.
  cbn [al_of] in A. unfold is_allowed in A.
  destruct (N.eqb (al_count (al st)) 0) eqn:Ec; [left; apply N.eqb_eq; exact Ec|right].
  pose proof (Inv_run c cs Hm) as I. fold st in I.
  apply strip_In. apply (enumeration_In _ (inv_wf _ _ I)).
  destruct (alist_get tok (al_idx (al st))); [discriminate|discriminate].
Qed.

Lemma allowance_outlives c cs tok o s en :
  1 <= min_temp_ttl (c_host c) ->
  alw_get (get_tok (run c cs) tok) o s = Some en ->
  0 <= fst (tval en) /\ (0 < fst (tval en) -> snd (tval en) <= tlive en).
Proof.
  intros Hm H. pose proof (inv_alw _ _ (Inv_run c cs Hm) tok o s) as E. rewrite H in E. exact E.
Qed.
