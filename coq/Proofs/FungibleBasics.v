(* Basic facts about the fungible model shared by C01 and C02:
   association lists, sums, the balance/supply invariant of [update], allowance entries. *)
From SC Require Import Lib.Prelude Lib.Int Lib.Host Model.Math Model.Fungible.

(* ------------------------------------------------------------------------- *)
(* res / bind inversion *)

Lemma bind_ok {A B} (r : res A) (f : A -> res B) b :
  bind r f = Ok b -> exists a, r = Ok a /\ f a = Ok b.
Proof. destruct r; cbn; [eauto|discriminate]. Qed.
Lemma guard_ok b : guard b = Ok tt <-> b = true.
Proof. destruct b; cbn; split; congruence. Qed.
Lemma guard_ok' b u : guard b = Ok u -> b = true.
Proof. destruct b; cbn; congruence. Qed.
Lemma of_option_ok {A} (o : option A) a : of_option o = Ok a -> o = Some a.
Proof. destruct o; cbn; congruence. Qed.

Lemma ok_inj {A} (a b : A) : Ok a = Ok b -> a = b.
Proof. congruence. Qed.

(* invert hypotheses of the shape [do x <- r; k = Ok v] *)
Ltac inv_ok :=
  repeat match goal with
  | H : bind _ _ = Ok _ |- _ => let x := fresh "x" in let E := fresh "E" in apply bind_ok in H; destruct H as [x [E H]]
  | H : guard _ = Ok _ |- _ => apply guard_ok' in H
  | H : require_auth _ _ = Ok _ |- _ => unfold require_auth in H
  | H : of_option _ = Ok _ |- _ => apply of_option_ok in H
  | H : Ok _ = Ok _ |- _ => apply ok_inj in H
  | H : (_, _) = (_, _) |- _ => apply pair_equal_spec in H; destruct H
  | H : ?a = ?b |- _ => first [is_var a; subst a | is_var b; subst b]
  | H : Fail = Ok _ |- _ => discriminate H
  | H : (let '(_, _) := ?p in _) = Ok _ |- _ => destruct p
  | H : ret _ _ _ = Ok _ |- _ => unfold ret in H
  end.

(* ------------------------------------------------------------------------- *)
(* fit128 and checked arithmetic *)

Lemma fit128_some z v : fit128 z = Some v -> v = z /\ MIN128 <= z <= MAX128.
Proof.
  unfold fit128, in_i128. destruct (MIN128 <=? z) eqn:A; destruct (z <=? MAX128) eqn:B; cbn; try discriminate.
  intros H; injection H; intros; subst. split; auto. apply Z.leb_le in A. apply Z.leb_le in B. lia.
Qed.
Lemma fit128_in z : MIN128 <= z <= MAX128 -> fit128 z = Some z.
Proof.
  intros [A B]. unfold fit128, in_i128. apply Z.leb_le in A. apply Z.leb_le in B. rewrite A, B. reflexivity.
Qed.
Lemma checked_add_some a b v : checked_add a b = Some v -> v = a + b /\ MIN128 <= a + b <= MAX128.
Proof. apply fit128_some. Qed.
Lemma checked_sub_some a b v : checked_sub a b = Some v -> v = a - b /\ MIN128 <= a - b <= MAX128.
Proof. apply fit128_some. Qed.
Lemma MIN128_neg : MIN128 < 0. Proof. reflexivity. Qed.
Lemma MAX128_pos : 0 < MAX128. Proof. reflexivity. Qed.

(* ------------------------------------------------------------------------- *)
(* N-keyed association lists *)

Definition keys {V} (l : list (N * V)) : list N := map fst l.
Fixpoint sumv (l : list (N * Z)) : Z := match l with [] => 0 | (_, v) :: r => v + sumv r end.

Lemma getd_nil k : getd [] k = 0. Proof. reflexivity. Qed.
Lemma getd_set_eq k v l : getd (alist_set k v l) k = v.
Proof. unfold getd. rewrite alist_get_set_eq. reflexivity. Qed.
Lemma getd_set_neq k k' v l : k <> k' -> getd (alist_set k' v l) k = getd l k.
Proof. intros. unfold getd. rewrite alist_get_set_neq; auto. Qed.
Lemma getd_set k k' v l : getd (alist_set k' v l) k = if N.eqb k k' then v else getd l k.
Proof.
  destruct (N.eqb k k') eqn:E.
  - apply N.eqb_eq in E. subst. apply getd_set_eq.
  - apply N.eqb_neq in E. apply getd_set_neq; auto.
Qed.

Lemma alist_get_none_notin {V} k (l : list (N * V)) : alist_get k l = None <-> ~ In k (keys l).
Proof.
  induction l as [|[k' v] r IH]; cbn; [tauto|].
  destruct (N.eqb k k') eqn:E.
  - apply N.eqb_eq in E. subst. split; [discriminate|]. intros H. exfalso. apply H. auto.
  - apply N.eqb_neq in E. rewrite IH. split; [intros H [A|A]; [congruence|contradiction]|tauto].
Qed.
Lemma getd_notin k l : ~ In k (keys l) -> getd l k = 0.
Proof. intros H. unfold getd. apply alist_get_none_notin in H. rewrite H. reflexivity. Qed.

Lemma keys_remove_subset {V} k k' (l : list (N * V)) : In k (keys (alist_remove k' l)) -> In k (keys l) /\ k <> k'.
Proof.
  induction l as [|[k2 v] r IH]; cbn; [tauto|].
  destruct (N.eqb k' k2) eqn:E.
  - intros H. destruct (IH H). split; auto.
  - cbn. intros [A|A].
    + subst. split; auto. apply N.eqb_neq in E. congruence.
    + destruct (IH A). split; auto.
Qed.
Lemma keys_remove_in {V} k k' (l : list (N * V)) : In k (keys l) -> k <> k' -> In k (keys (alist_remove k' l)).
Proof.
  induction l as [|[k2 v] r IH]; cbn; [tauto|].
  intros [A|A] Hn.
  - subst. destruct (N.eqb k' k) eqn:E; [apply N.eqb_eq in E; congruence|]. cbn. auto.
  - destruct (N.eqb k' k2); cbn; auto.
Qed.
Lemma nodup_remove {V} k (l : list (N * V)) : NoDup (keys l) -> NoDup (keys (alist_remove k l)).
Proof.
  induction l as [|[k2 v] r IH]; cbn; auto.
  intros H. inversion H; subst. destruct (N.eqb k k2); auto.
  cbn. constructor; auto. intros A. apply keys_remove_subset in A. tauto.
Qed.
Lemma nodup_set {V} k (v : V) l : NoDup (keys l) -> NoDup (keys (alist_set k v l)).
Proof.
  intros H. unfold alist_set. cbn. constructor.
  - intros A. apply keys_remove_subset in A. tauto.
  - apply nodup_remove; auto.
Qed.
Lemma keys_set_in {V} k k' (v : V) l : In k (keys (alist_set k' v l)) <-> k = k' \/ In k (keys l).
Proof.
  unfold alist_set. cbn. split.
  - intros [A|A]; auto. apply keys_remove_subset in A. tauto.
  - intros [A|A]; auto. destruct (N.eq_dec k k'); auto. right. apply keys_remove_in; auto.
Qed.

Lemma sumv_remove k l : NoDup (keys l) -> sumv (alist_remove k l) = sumv l - getd l k.
Proof.
  induction l as [|[k2 v] r IH]; cbn; intros H.
  - unfold getd; cbn; lia.
  - inversion H; subst. unfold getd. cbn. destruct (N.eqb k k2) eqn:E.
    + apply N.eqb_eq in E. subst. rewrite IH; auto. rewrite (getd_notin k2 r); auto. lia.
    + cbn. rewrite IH; auto. unfold getd. lia.
Qed.
Lemma sumv_set k v l : NoDup (keys l) -> sumv (alist_set k v l) = sumv l - getd l k + v.
Proof. intros H. unfold alist_set. cbn. rewrite sumv_remove; auto. lia. Qed.

Lemma sumv_nonneg l : (forall k, 0 <= getd l k) -> NoDup (keys l) -> 0 <= sumv l.
Proof.
  induction l as [|[k v] r IH]; cbn; intros Hn Hd; [lia|].
  inversion Hd; subst.
  assert (0 <= v). { specialize (Hn k). unfold getd in Hn. cbn in Hn. rewrite N.eqb_refl in Hn. exact Hn. }
  assert (0 <= sumv r).
  { apply IH; auto. intros k'. destruct (N.eq_dec k' k).
    - subst. rewrite getd_notin; auto. lia.
    - specialize (Hn k'). unfold getd in *. cbn in Hn. destruct (N.eqb k' k) eqn:E; [apply N.eqb_eq in E; congruence|]. exact Hn. }
  lia.
Qed.
Lemma getd_le_sumv l k : (forall k, 0 <= getd l k) -> NoDup (keys l) -> getd l k <= sumv l.
Proof.
  intros Hn Hd.
  assert (S : sumv (alist_remove k l) = sumv l - getd l k) by (apply sumv_remove; auto).
  assert (0 <= sumv (alist_remove k l)).
  { apply sumv_nonneg; [|apply nodup_remove; auto].
    intros k'. destruct (N.eq_dec k' k).
    - subst. unfold getd. rewrite alist_get_remove_eq. lia.
    - unfold getd. rewrite alist_get_remove_neq; auto. apply Hn. }
  lia.
Qed.

(* sum of a function over a duplicate-free universe that covers the keys *)
Lemma sum_over_ext f g u : (forall a, In a u -> f a = g a) -> sum_over f u = sum_over g u.
Proof. induction u; cbn; intros H; auto. rewrite H, IHu; auto. Qed.
Lemma sum_over_zero f u : (forall a, In a u -> f a = 0) -> sum_over f u = 0.
Proof. induction u; cbn; intros H; auto. rewrite H, IHu; auto. Qed.
Lemma sum_over_point (f : N -> Z) k v u : NoDup u ->
  sum_over (fun a => if N.eqb a k then v else f a) u = sum_over f u + (if existsb (N.eqb k) u then v - f k else 0).
Proof.
  induction u as [|a r IH]; cbn; intros H; [lia|].
  inversion H; subst. rewrite IH; auto.
  destruct (N.eqb a k) eqn:E.
  - apply N.eqb_eq in E. subst. rewrite N.eqb_refl. cbn.
    destruct (existsb (N.eqb k) r) eqn:X; [|lia].
    apply existsb_exists in X. destruct X as [y [Hy Ey]]. apply N.eqb_eq in Ey. subst. contradiction.
  - rewrite N.eqb_sym in E. rewrite E. cbn. lia.
Qed.

Lemma sum_over_getd l u : NoDup (keys l) -> NoDup u -> (forall k, In k (keys l) -> In k u) ->
  sum_over (getd l) u = sumv l.
Proof.
  revert u. induction l as [|[k v] r IH]; cbn; intros u Hd Hu Hc.
  - apply sum_over_zero. intros. apply getd_nil.
  - inversion Hd; subst.
    rewrite (sum_over_ext _ (fun a => if N.eqb a k then v else getd r a)).
    2:{ intros a _. unfold getd. cbn. destruct (N.eqb a k); reflexivity. }
    rewrite sum_over_point; auto.
    assert (X : existsb (N.eqb k) u = true). { apply existsb_exists. exists k. split; [apply Hc; auto|apply N.eqb_refl]. }
    rewrite X. rewrite (getd_notin k r); auto. rewrite IH; auto. lia.
Qed.

(* ------------------------------------------------------------------------- *)
(* pair-keyed association lists *)

Lemma pkey_eqb_eq a b : pkey_eqb a b = true <-> a = b.
Proof.
  destruct a as [a1 a2], b as [b1 b2]. unfold pkey_eqb. cbn. rewrite andb_true_iff, !N.eqb_eq.
  split; [intros [? ?]; subst; auto|intros H; injection H; auto].
Qed.
Lemma pkey_eqb_refl a : pkey_eqb a a = true. Proof. apply pkey_eqb_eq. reflexivity. Qed.
Lemma pkey_eqb_neq a b : pkey_eqb a b = false <-> a <> b.
Proof. rewrite <- pkey_eqb_eq. destruct (pkey_eqb a b); split; congruence. Qed.
Lemma pkey_eqb_sym a b : pkey_eqb a b = pkey_eqb b a.
Proof.
  destruct (pkey_eqb a b) eqn:E; symmetry.
  - apply pkey_eqb_eq in E. subst. apply pkey_eqb_refl.
  - apply pkey_eqb_neq. apply pkey_eqb_neq in E. congruence.
Qed.

Lemma pget_remove_eq {V} k (l : list (pkey * V)) : pget k (premove k l) = None.
Proof.
  induction l as [|[k' v] r IH]; cbn; auto.
  destruct (pkey_eqb k k') eqn:E; auto. cbn. rewrite E. exact IH.
Qed.
Lemma pget_remove_neq {V} k k' (l : list (pkey * V)) : k <> k' -> pget k (premove k' l) = pget k l.
Proof.
  intros Hn. induction l as [|[k2 v] r IH]; cbn; auto.
  destruct (pkey_eqb k' k2) eqn:E.
  - apply pkey_eqb_eq in E. subst k2. destruct (pkey_eqb k k') eqn:E2; [apply pkey_eqb_eq in E2; contradiction|]. exact IH.
  - cbn. destruct (pkey_eqb k k2); auto.
Qed.
Lemma pget_set_eq {V} k (v : V) l : pget k (pset k v l) = Some v.
Proof. unfold pset. cbn. rewrite pkey_eqb_refl. reflexivity. Qed.
Lemma pget_set_neq {V} k k' (v : V) l : k <> k' -> pget k (pset k' v l) = pget k l.
Proof.
  intros Hn. unfold pset. cbn. destruct (pkey_eqb k k') eqn:E; [apply pkey_eqb_eq in E; contradiction|].
  apply pget_remove_neq; auto.
Qed.

(* ------------------------------------------------------------------------- *)
(* token core: field access after the setters *)

Lemma balance_set_bal t a v x : balance (set_bal t a v) x = if N.eqb x a then v else balance t x.
Proof. unfold balance, set_bal. cbn. apply getd_set. Qed.
Lemma aentry_set_aentry_eq t o s e : aentry (set_aentry t o s e) o s = e.
Proof.
  unfold aentry, set_aentry. cbn. destruct e; [apply pget_set_eq|apply pget_remove_eq].
Qed.
Lemma aentry_set_aentry_neq t o s e o' s' : (o', s') <> (o, s) -> aentry (set_aentry t o s e) o' s' = aentry t o' s'.
Proof.
  intros H. unfold aentry, set_aentry. cbn. destruct e; [apply pget_set_neq|apply pget_remove_neq]; auto.
Qed.

(* ------------------------------------------------------------------------- *)
(* the balance / supply invariant *)

Record tok_inv (t : tok) : Prop := {
  ti_nonneg : forall a, 0 <= balance t a;
  ti_sum : supply t = sumv (bals t);
  ti_range : 0 <= supply t <= MAX128;
  ti_nodup : NoDup (keys (bals t))
}.

Lemma tok_inv_ext t t' : bals t' = bals t -> supply t' = supply t -> tok_inv t -> tok_inv t'.
Proof.
  intros B S [A1 A2 A3 A4]. constructor; unfold balance in *; rewrite ?B, ?S; auto.
Qed.
Lemma tok_inv_tok0 : tok_inv tok0.
Proof.
  constructor.
  - intros. unfold balance, getd. cbn. lia.
  - reflexivity.
  - cbn. pose proof MAX128_pos. lia.
  - constructor.
Qed.
Lemma tok_inv_balance_le t a : tok_inv t -> balance t a <= supply t.
Proof. intros [A1 A2 A3 A4]. rewrite A2. apply getd_le_sumv; auto. Qed.

(* how [update] moves balances, as a function *)

(* what a successful [update] does, and when it succeeds *)
Lemma update_spec t from to amt t' : tok_inv t -> update t from to amt = Ok t' ->
  0 <= amt /\
  (forall x, balance t' x = ocredit (ocredit (balance t) from (- amt)) to amt x) /\
  supply t' = supply t + (if is_none from then amt else 0) - (if is_none to then amt else 0) /\
  allows t' = allows t /\
  (match from with Some a => amt <= balance t a | None => supply t + amt <= MAX128 end) /\
  tok_inv t'.
Proof.
  intros I H. unfold update in H. inv_ok. apply Z.leb_le in E.
  destruct I as [I1 I2 I3 I4].
  (* stage 1 *)
  assert (S1 : (forall x, balance x0 x = ocredit (balance t) from (- amt) x) /\
               supply x0 = supply t + (if is_none from then amt else 0) /\
               allows x0 = allows t /\ NoDup (keys (bals x0)) /\
               sumv (bals x0) = supply x0 - amt /\ 0 <= supply x0 <= MAX128 /\
               (match from with Some a => amt <= balance t a | None => supply t + amt <= MAX128 end) /\
               (forall a, 0 <= balance x0 a)).
  { destruct from as [a|]; inv_ok.
    - apply Z.leb_le in E1. apply checked_sub_some in E2. destruct E2 as [-> _].
      cbn [ocredit is_none supply set_bal allows bals]. repeat split; auto; try lia.
      + intros y. rewrite balance_set_bal. unfold credit. destruct (N.eqb y a) eqn:Ey; auto.
        apply N.eqb_eq in Ey. subst. lia.
      + apply nodup_set; auto.
      + rewrite sumv_set; auto. unfold balance. lia.
      + intros y. rewrite balance_set_bal. destruct (N.eqb y a); auto. lia.
    - apply checked_add_some in E1. destruct E1 as [-> R].
      cbn [ocredit is_none supply set_supply allows bals]. repeat split; auto; try lia. }
  destruct S1 as (B1 & U1 & A1 & D1 & M1 & R1 & G1 & N1).
  assert (LE : forall a, balance x0 a <= supply x0 - amt).
  { intros a. rewrite <- M1. apply getd_le_sumv; auto. }
  destruct to as [b|]; inv_ok.
  - apply checked_add_some in E1. destruct E1 as [-> _].
    cbn [ocredit is_none supply set_bal allows bals]. split; [auto|]. split; [|split; [lia|split; [auto|split; [auto|]]]].
    + intros y. rewrite balance_set_bal. unfold credit at 1. rewrite <- B1.
      destruct (N.eqb y b) eqn:Ey; auto. apply N.eqb_eq in Ey. subst. reflexivity.
    + constructor; cbn [supply set_bal bals].
      * intros y. rewrite balance_set_bal. destruct (N.eqb y b); auto. specialize (N1 b). lia.
      * rewrite sumv_set; auto. fold (balance x0 b). lia.
      * lia.
      * apply nodup_set; auto.
  - apply checked_sub_some in E1. destruct E1 as [-> _].
    cbn [ocredit is_none supply set_supply allows bals]. split; [auto|]. split; [|split; [lia|split; [auto|split; [auto|]]]].
    + intros y. apply B1.
    + assert (0 <= sumv (bals x0)) by (apply sumv_nonneg; auto).
      constructor; cbn [supply set_supply bals]; auto; unfold balance in *; cbn [bals set_supply]; auto; lia.
Qed.

Lemma update_inv t from to amt t' : tok_inv t -> update t from to amt = Ok t' -> tok_inv t'.
Proof. intros I H. apply (update_spec _ _ _ _ _ I H). Qed.

(* the two unchecked arithmetic sites of Base::update cannot trap: under the invariant
   [update] fails only for the three documented reasons *)
Lemma update_fails_only_when_documented t from to amt : tok_inv t ->
  update t from to amt = Fail ->
  amt < 0 \/
  (exists a, from = Some a /\ balance t a < amt) \/
  (from = None /\ MAX128 < supply t + amt).
Proof.
  intros I H. destruct (Z.ltb_spec amt 0) as [L|L]; auto. right.
  unfold update in H. assert (G : guard (0 <=? amt) = Ok tt) by (apply guard_ok; apply Z.leb_le; lia).
  rewrite G in H. cbn [bind] in H.
  destruct I as [I1 I2 I3 I4].
  destruct from as [a|].
  - destruct (Z.ltb_spec (balance t a) amt) as [L2|L2]; [left; eauto|]. exfalso.
    assert (G2 : guard (amt <=? balance t a) = Ok tt) by (apply guard_ok; apply Z.leb_le; lia).
    rewrite G2 in H. cbn [bind] in H.
    assert (B : balance t a <= supply t). { rewrite I2. apply getd_le_sumv; auto. }
    assert (C : checked_sub (balance t a) amt = Some (balance t a - amt)).
    { apply fit128_in. specialize (I1 a). pose proof MIN128_neg. lia. }
    rewrite C in H. cbn [of_option bind] in H.
    set (t1 := set_bal t a (balance t a - amt)) in *.
    assert (N1 : forall y, 0 <= balance t1 y).
    { intros y. unfold t1. rewrite balance_set_bal. destruct (N.eqb y a); auto. lia. }
    assert (D1 : NoDup (keys (bals t1))) by (apply nodup_set; auto).
    assert (M1 : sumv (bals t1) = supply t - amt).
    { unfold t1. cbn [bals set_bal]. rewrite sumv_set; auto. unfold balance. lia. }
    destruct to as [b|].
    + assert (LE : balance t1 b <= supply t - amt). { rewrite <- M1. apply getd_le_sumv; auto. }
      assert (C2 : checked_add (balance t1 b) amt = Some (balance t1 b + amt)).
      { apply fit128_in. specialize (N1 b). pose proof MIN128_neg. lia. }
      rewrite C2 in H. cbn in H. discriminate.
    + assert (C2 : checked_sub (supply t1) amt = Some (supply t1 - amt)).
      { apply fit128_in. unfold t1. cbn [supply set_bal].
        assert (0 <= sumv (bals t1)) by (apply sumv_nonneg; auto). pose proof MIN128_neg. lia. }
      rewrite C2 in H. cbn in H. discriminate.
  - destruct (Z.ltb_spec MAX128 (supply t + amt)) as [L2|L2]; [right; auto|]. exfalso.
    assert (C : checked_add (supply t) amt = Some (supply t + amt)).
    { apply fit128_in. pose proof MIN128_neg. lia. }
    rewrite C in H. cbn [of_option bind] in H.
    set (t1 := set_supply t (supply t + amt)) in *.
    destruct to as [b|].
    + assert (LE : balance t1 b <= supply t). { unfold t1, balance. cbn [bals set_supply]. rewrite I2. apply getd_le_sumv; auto. }
      assert (C2 : checked_add (balance t1 b) amt = Some (balance t1 b + amt)).
      { apply fit128_in. assert (0 <= balance t1 b) by (unfold t1, balance; cbn [bals set_supply]; apply I1).
        pose proof MIN128_neg. lia. }
      rewrite C2 in H. cbn in H. discriminate.
    + assert (C2 : checked_sub (supply t1) amt = Some (supply t1 - amt)).
      { apply fit128_in. unfold t1. cbn [supply set_supply]. pose proof MIN128_neg. lia. }
      rewrite C2 in H. cbn in H. discriminate.
Qed.

(* keys touched by update: only the named accounts *)
Lemma update_keys t from to amt t' x : update t from to amt = Ok t' ->
  In x (keys (bals t')) -> In x (keys (bals t)) \/ from = Some x \/ to = Some x.
Proof.
  intros H. unfold update in H. inv_ok.
  assert (S1 : In x (keys (bals x1)) -> In x (keys (bals t)) \/ from = Some x).
  { destruct from as [a|]; inv_ok; cbn [bals set_bal set_supply]; auto.
    rewrite keys_set_in. intros [A|A]; subst; auto. }
  destruct to as [b|]; inv_ok; cbn [bals set_bal set_supply].
  - rewrite keys_set_in. intros [A|A]; subst; auto. destruct (S1 A); auto.
  - intros A. destruct (S1 A); auto.
Qed.

(* ------------------------------------------------------------------------- *)
(* a failing call is the identity on the whole state *)
Lemma failed_call_is_identity : forall c s cl,
  snd (fst (step c s cl)) = Fail -> fst (fst (step c s cl)) = s /\ snd (step c s cl) = [].
Proof.
  intros c s cl. unfold step. destruct (exec c s cl) as [[[s' v] evs]|]; cbn; [discriminate|auto].
Qed.
