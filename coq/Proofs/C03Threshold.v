(* C03 - the real simple-threshold policy inside the model: a rule that carries it is m-of-n.
   In every reachable state of a run (mock policies answering by their tables, the real policy
   by its installed thresholds), a context decided by a rule with the threshold policy had at
   least threshold >= 1 of the rule's own signers among the verified supplied signers. *)
From SC Require Import Lib.Prelude Lib.Int Lib.Host Model.SmartAccount Proofs.SmartAccount Proofs.SmartAccountInv
  Run.C03 Proofs.C03Monitor Proofs.C03Final.

Definition thr_pos (t : list (Z * Z)) : Prop := forall id v, thr_get t id = Some v -> 1 <= v.

Lemma thr_get_remove t id id' v : thr_get (thr_remove t id) id' = Some v -> thr_get t id' = Some v.
Proof.
  unfold thr_remove. induction t as [|[i w] r IH]; cbn [filter thr_get fst]; [discriminate|].
  destruct (i =? id) eqn:E; cbn [negb].
  - intros H. destruct (id' =? i) eqn:E2; [|auto].
    (* id' = i = id: the filtered list has no entry for id *)
    exfalso. apply Z.eqb_eq in E, E2. subst. clear IH. induction r as [|[j u] r IH]; cbn [filter thr_get fst] in H; [discriminate|].
    destruct (j =? id) eqn:E3; cbn [negb] in H; [auto|]. cbn [thr_get] in H. rewrite Z.eqb_sym, E3 in H. auto.
  - cbn [thr_get]. destruct (id' =? i); auto.
Qed.

Definition installs_ok (l : list event) : Prop :=
  forall p n r, In (EInstall p n r) l -> p = real_thr -> 1 <= Z.of_N n.

Lemma set_thr_pos ms id v : thr_pos (md_thr ms) -> 1 <= v -> thr_pos (md_thr (set_thr id v ms)).
Proof.
  intros Ht Hv id' w. unfold set_thr. cbn [md_thr thr_get]. destruct (id' =? id).
  - intros H. injection H as <-. exact Hv.
  - intros H. apply (Ht id' w). eapply thr_get_remove; eauto.
Qed.

Lemma apply_event_pos ms e : thr_pos (md_thr ms) -> installs_ok [e] -> thr_pos (md_thr (apply_event ms e)).
Proof.
  intros Ht He. destruct e as [v k d|p c0 au r|p c0 au r|p param r|p r]; cbn [apply_event]; try exact Ht.
  - destruct (N.eqb p real_spend); [|exact Ht].
    destruct (spend_get (md_spend ms) (r_id r)) as [d|]; [|exact Ht].
    destruct (spend_enforce d (md_now ms) c0 au); exact Ht.
  - destruct (N.eqb p real_thr) eqn:E.
    + apply N.eqb_eq in E. apply set_thr_pos; [exact Ht|]. apply (He p param r); [left; reflexivity|exact E].
    + destruct (N.eqb p real_spend); exact Ht.
  - destruct (N.eqb p real_thr).
    + cbn [md_thr]. intros id v H. apply (Ht id v). eapply thr_get_remove; eauto.
    + destruct (N.eqb p real_spend); exact Ht.
Qed.

Lemma fold_apply_pos l : forall ms, thr_pos (md_thr ms) -> installs_ok l -> thr_pos (md_thr (fold_left apply_event l ms)).
Proof.
  induction l as [|e r IH]; intros ms Ht Hl; [exact Ht|]. cbn [fold_left]. apply IH.
  - apply apply_event_pos; [exact Ht|]. intros p n x [He|[]] Hp. apply (Hl p n x); [left; exact He|exact Hp].
  - intros p n x Hx Hp. apply (Hl p n x); [right; exact Hx|exact Hp].
Qed.

Lemma installs_ok_app l1 l2 : installs_ok l1 -> installs_ok l2 -> installs_ok (l1 ++ l2).
Proof. intros H1 H2 p n r Hi. apply in_app_or in Hi. destruct Hi; eauto. Qed.

Lemma install_answer_real ms n r : install_answer ms real_thr n r = true -> 1 <= Z.of_N n.
Proof.
  unfold install_answer. change (N.eqb real_thr real_thr) with true. cbn iota. destruct (thr_of ms (r_id r)); [discriminate|].
  intros H. apply andb_prop in H. destruct H as [H _]. lia.
Qed.

Lemma install_all_ok ms ps r l : install_all (oracles_of ms) ps r = Ok l -> installs_ok l.
Proof.
  revert l. induction ps as [|[p n] rest IH]; intros l H; cbn [install_all] in H; [inversion H; intros ? ? ? []|].
  destruct (o_install (oracles_of ms) p n r) eqn:E; [|discriminate].
  destruct (install_all (oracles_of ms) rest r) as [l'|]; [|discriminate]. cbn in H. inversion H; subst.
  intros p' n' r' [Hi|Hi] Hp; [|eapply IH; eauto]. inversion Hi; subst. apply (install_answer_real ms n' r'). exact E.
Qed.

Lemma no_install_ok l : (forall p n r, ~ In (EInstall p n r) l) -> installs_ok l.
Proof. intros H p n r Hi. exfalso. eapply H; eauto. Qed.

Lemma check_log_no_install O a now auths sigs cs log :
  do_check_auth O a now auths sigs cs = Ok log -> installs_ok log.
Proof.
  intros H. apply no_install_ok. intros p n r Hi. pose proof (check_events_only _ _ _ _ _ _ _ H) as He.
  rewrite forallb_forall in He. specialize (He _ Hi). discriminate.
Qed.

Lemma uninstall_all_no_install O ps r : installs_ok (uninstall_all O ps r).
Proof.
  apply no_install_ok. intros p n x Hi. unfold uninstall_all in Hi. apply in_flat_map in Hi.
  destruct Hi as [q [_ Hq]]. destruct (o_uninstall O q r); [destruct Hq as [Hq|[]]; discriminate|destruct Hq].
Qed.

Lemma run_op_installs_ok ms c a now op a' ret l :
  run_op (oracles_of ms) c a now op = Ok (a', ret, l) -> installs_ok l.
Proof.
  intros H. destruct op; cbn [run_op] in H.
  - destruct (add_context_rule (oracles_of ms) c a now t name valid signers policies) as [[[a1 r1] l1]|] eqn:E; [|discriminate].
    cbn in H. inversion H; subst. unfold add_context_rule in E. inv_bind E. inversion E; subst.
    eapply install_all_ok; eauto.
  - destruct (update_context_rule_name a id name) as [[[a1 r1] l1]|] eqn:E; [|discriminate].
    cbn in H. inversion H; subst. unfold update_context_rule_name in E. inv_bind E. inversion E; subst. intros ? ? ? [].
  - destruct (update_context_rule_valid_until a now id valid) as [[[a1 r1] l1]|] eqn:E; [|discriminate].
    cbn in H. inversion H; subst. unfold update_context_rule_valid_until in E. inv_bind E. inversion E; subst. intros ? ? ? [].
  - destruct (remove_context_rule (oracles_of ms) a id) as [[a1 l1]|] eqn:E; [|discriminate].
    cbn in H. inversion H; subst. unfold remove_context_rule in E. inv_bind E. inversion E; subst.
    apply uninstall_all_no_install.
  - destruct (add_signer c a id s) as [[a1 l1]|] eqn:E; [|discriminate].
    cbn in H. inversion H; subst. unfold add_signer in E. inv_bind E. inversion E; subst. intros ? ? ? [].
  - destruct (remove_signer c a id s) as [[a1 l1]|] eqn:E; [|discriminate].
    cbn in H. inversion H; subst. unfold remove_signer in E. inv_bind E. inversion E; subst. intros ? ? ? [].
  - destruct (add_policy (oracles_of ms) c a id p param) as [[a1 l1]|] eqn:E; [|discriminate].
    cbn in H. inversion H; subst. unfold add_policy in E.
    destruct (get_context_rule a id) as [r|]; [|discriminate]. cbn [bind] in E.
    destruct (guard (negb (mem_p p (r_policies r)))); [|discriminate]. cbn [bind] in E.
    destruct (o_install (oracles_of ms) p param r) eqn:Ei; [|discriminate]. cbn [guard bind] in E.
    inv_bind E. inversion E; subst.
    intros p' n' r' [Hi|[]] Hp. inversion Hi; subst. apply (install_answer_real ms n' r'). exact Ei.
  - destruct (remove_policy (oracles_of ms) c a id p) as [[a1 l1]|] eqn:E; [|discriminate].
    cbn in H. inversion H; subst. unfold remove_policy in E. inv_bind E. inversion E; subst.
    apply no_install_ok. intros p' n' r' Hi.
    match type of Hi with In _ (if ?b then _ else _) => destruct b end; [destruct Hi as [Hi|[]]; discriminate|destruct Hi].
Qed.

Lemma thr_pos_step c st cl : thr_pos (md_thr (s_modes st)) -> thr_pos (md_thr (s_modes (fst (step c st cl)))).
Proof.
  intros H. destruct cl; cbn [step].
  - destruct (s_deployed st); [exact H|].
    destruct (add_context_rule _ c (s_acct st) (s_now st) TDefault 0%N None signers policies) as [[[a1 r1] l1]|] eqn:E;
      cbn [fst s_modes]; [|exact H].
    unfold apply_log. apply fold_apply_pos; [exact H|].
    unfold add_context_rule in E. inv_bind E. inversion E; subst. eapply install_all_ok; eauto.
  - destruct ((0 <=? n) && in_u32 (s_now st + n)); exact H.
  - exact H.
  - destruct (negb (s_deployed st)); [exact H|].
    destruct (do_check_auth _ (s_acct st) (s_now st) auths sigs [CCall self (fn_of op)]) as [l1|] eqn:E1; cbn [bind]; [|exact H].
    destruct (run_op _ c (s_acct st) (s_now st) op) as [[[a1 ret] l2]|] eqn:E2; cbn [bind fst s_modes]; [|exact H].
    unfold apply_log. apply fold_apply_pos; [exact H|]. apply installs_ok_app.
    + eapply check_log_no_install; eauto.
    + eapply run_op_installs_ok; eauto.
  - destruct (negb (s_deployed st)); [exact H|].
    destruct (do_check_auth _ (s_acct st) (s_now st) auths sigs cs) as [l|] eqn:E; cbn [fst s_modes]; [|exact H].
    unfold apply_log. apply fold_apply_pos; [exact H|]. eapply check_log_no_install; eauto.
  - destruct (negb (s_deployed st)); [exact H|].
    destruct (do_check_auth _ (s_acct st) (s_now st) auths sigs cs) as [l|] eqn:E; cbn [fst s_modes]; [|exact H].
    unfold apply_log. apply fold_apply_pos; [exact H|]. eapply check_log_no_install; eauto.
  - destruct (negb (s_deployed st)); [exact H|].
    destruct (do_check_auth _ (s_acct st) (s_now st) auths sigs _) as [l|] eqn:E; [|exact H].
    destruct ((1 <=? t) && (t <=? nsig)) eqn:Et; cbn [fst s_modes]; [|exact H].
    apply set_thr_pos; [|lia]. unfold apply_log. apply fold_apply_pos; [exact H|]. eapply check_log_no_install; eauto.
Qed.

Lemma thr_pos_run c cs : forall st, thr_pos (md_thr (s_modes st)) -> thr_pos (md_thr (s_modes (run c st cs))).
Proof.
  induction cs as [|cl cs IH]; intros st H; [exact H|]. cbn [run fold_left]. apply IH. apply thr_pos_step. exact H.
Qed.

Theorem threshold_m_of_n c calls now auths sigs cs log :
  let st := run c init calls in
  do_check_auth (oracles_of (s_modes st)) (s_acct st) now auths sigs cs = Ok log ->
  exists rs, Forall2 (decides (oracles_of (s_modes st)) (s_acct st) now (map fst sigs)) cs rs /\
    forall r, In r rs -> In real_thr (r_policies r) ->
      exists t, thr_of (s_modes st) (r_id r) = Some t /\ 1 <= t /\
                t <= zlen (filter (fun s => mem_s s (map fst sigs)) (r_signers r)).
Proof.
  intros st H. destruct (precedence_reachable c calls _ now auths sigs cs log H) as [rs [Hf _]].
  exists rs. split; [exact Hf|]. intros r Hr Hp.
  assert (Hd : exists c0, decides (oracles_of (s_modes st)) (s_acct st) now (map fst sigs) c0 r).
  { clear -Hf Hr. induction Hf as [|c0 r0 cs0 rs0 Hd Hf IH]; [destruct Hr|]. destruct Hr as [->|Hr]; eauto. }
  destruct Hd as [c0 [_ [_ [_ [Hreq _]]]]].
  destruct Hreq as [[Hnil _]|[_ Hcan]]; [rewrite Hnil in Hp; destruct Hp|].
  specialize (Hcan real_thr Hp). cbn [o_can oracles_of] in Hcan. unfold can_answer in Hcan.
  change (N.eqb real_thr real_thr) with true in Hcan. cbn iota in Hcan.
  destruct (thr_busy (s_modes st)); [discriminate|].
  unfold thr_met in Hcan. unfold auth_of, get_authenticated_signers in Hcan.
  destruct (thr_of (s_modes st) (r_id r)) as [t|] eqn:Et; [|discriminate].
  exists t. split; [reflexivity|]. split.
  - apply (thr_pos_run c calls init (fun id v H0 => ltac:(discriminate)) (r_id r) t). exact Et.
  - inversion Hcan as [Hle]. apply Z.leb_le. exact Hle.
Qed.
