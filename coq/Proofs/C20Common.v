(* C20: lemmas shared by the monitor-soundness proofs of the eight registries. *)
From SC Require Import Lib.Prelude Model.SwapPop Model.RegCommon Run.C20.
From Coq Require Import Permutation PeanoNat ZifyNat.
Local Open Scope nat_scope.
Set Implicit Arguments.

(* assembling a unit-outcome monitor step from: simulation of the call, soundness of
   every answer, soundness of the cross conditions *)
Section UnitMon.
  Variables St C Q V A : Type.
  Variable step : St -> C -> res (St * unit).
  Variable ans : St -> Q -> V.
  Variable spec : A -> C -> res A.
  Variable chk : A -> Q * V -> bool.
  Variable cross : A -> list (Q * V) -> bool.
  Variable Rel : St -> A -> Prop.
  Hypothesis Hsim : forall s a k, Rel s a ->
    match step s k with
    | Ok (s', _) => exists a', spec a k = Ok a' /\ Rel s' a'
    | Fail => spec a k = Fail
    end.
  Hypothesis Hchk : forall s a q, Rel s a -> chk a (q, ans s q) = true.
  Hypothesis Hcross : forall s a qs, Rel s a -> cross a (map (fun q => (q, ans s q)) qs) = true.

  Lemma unit_mon_step s a (cq : C * list Q) : Rel s a ->
    exists a', mon_of (spec_unit spec) chk cross a (model_ev step ans s cq) = Some a'
               /\ Rel (step_state step s (fst cq)) a'.
  Proof.
    intros HR. destruct cq as [k qs]. unfold mon_of, model_ev, step_out, step_state. cbn [fst snd].
    pose proof (Hsim k HR) as Hs. unfold spec_unit.
    destruct (step s k) as [[s' []]|].
    - destruct Hs as [a' [Es HR']]. rewrite Es. cbn [is_ok Bool.eqb]. exists a'.
      rewrite (Hcross qs HR'), andb_true_r.
      replace (forallb (chk a') (map (fun q => (q, ans s' q)) qs)) with true; auto.
      symmetry. apply forallb_forall. intros [q v] Hin. apply in_map_iff in Hin.
      destruct Hin as [q' [E _]]. inversion E. subst. apply Hchk. auto.
    - rewrite Hs. cbn [is_ok Bool.eqb]. exists a.
      rewrite (Hcross qs HR), andb_true_r.
      replace (forallb (chk a) (map (fun q => (q, ans s q)) qs)) with true; auto.
      symmetry. apply forallb_forall. intros [q v] Hin. apply in_map_iff in Hin.
      destruct Hin as [q' [E _]]. inversion E. subst. apply Hchk. auto.
  Qed.
End UnitMon.

(* ---- membership / permutation facts over N ---- *)
Lemma memb_perm (t : N) (l m : list N) : Permutation l m -> memb N.eqb t l = memb N.eqb t m.
Proof.
  intros Hp. destruct (memb N.eqb t l) eqn:E1, (memb N.eqb t m) eqn:E2; auto.
  - apply (memb_In N.eqb N.eqb_eq) in E1. apply (memb_false N.eqb N.eqb_eq) in E2.
    exfalso. apply E2. apply (Permutation_in t Hp). auto.
  - apply (memb_In N.eqb N.eqb_eq) in E2. apply (memb_false N.eqb N.eqb_eq) in E1.
    exfalso. apply E1. apply (Permutation_in t (Permutation_sym Hp)). auto.
Qed.

(* ---- index-based access: pairs (i, x) read off one duplicate-free list are injective ---- *)
Section Inj.
  Variable B : Type.
  Variable beq : B -> B -> bool.
  Hypothesis beq_spec : forall x y, beq x y = true <-> x = y.
  Lemma injb_nth (l : list B) (ps : list (N * B)) :
    NoDup l -> Forall (fun p => nth_error l (N.to_nat (fst p)) = Some (snd p)) ps ->
    injb beq ps = true.
  Proof.
    intros Hn Hf. rewrite Forall_forall in Hf. unfold injb.
    apply forallb_forall. intros p Hp. apply forallb_forall. intros q Hq.
    pose proof (Hf p Hp) as Ep. pose proof (Hf q Hq) as Eq.
    destruct (N.eqb (fst p) (fst q)) eqn:E1.
    - apply N.eqb_eq in E1. rewrite E1 in Ep. rewrite Ep in Eq. inversion Eq.
      rewrite (proj2 (beq_spec _ _) eq_refl). reflexivity.
    - apply N.eqb_neq in E1. destruct (beq (snd p) (snd q)) eqn:E2; auto.
      apply beq_spec in E2. rewrite E2 in Ep.
      pose proof (NoDup_nth_error_inj _ _ Hn Ep Eq) as E. exfalso. apply E1. lia.
  Qed.
End Inj.

(* ---- association lists with duplicate-free keys are finite maps ---- *)
Section AListFacts.
  Variables K V : Type.
  Variable eqb : K -> K -> bool.
  Hypothesis eqb_spec : forall x y, eqb x y = true <-> x = y.
  Notation keys := (map (@fst K V)).

  Lemma keys_adel k (l : list (K * V)) : keys (adel eqb k l) = rem eqb k (keys l).
  Proof.
    induction l as [|[k' v] r IH]; cbn; auto. destruct (eqb k k'); cbn; congruence.
  Qed.
  Lemma NoDup_keys_adel k (l : list (K * V)) : NoDup (keys l) -> NoDup (keys (adel eqb k l)).
  Proof. intros H. rewrite keys_adel. apply rem_NoDup; auto. Qed.
  Lemma NoDup_keys_aset k v (l : list (K * V)) : NoDup (keys l) -> NoDup (keys (aset eqb k v l)).
  Proof.
    intros H. unfold aset. cbn. constructor.
    - rewrite keys_adel. intros Hin. apply (rem_In eqb eqb_spec) in Hin. tauto.
    - apply NoDup_keys_adel. auto.
  Qed.
  Lemma aget_None k (l : list (K * V)) : aget eqb k l = None <-> ~ In k (keys l).
  Proof.
    induction l as [|[k' v] r IH]; cbn; [tauto|].
    destruct (eqb k k') eqn:E.
    - apply eqb_spec in E. subst. split; [discriminate|]. intros H. exfalso. apply H. auto.
    - apply (eqb_neq eqb eqb_spec) in E. rewrite IH. split.
      + intros H [H'|H']; [congruence|auto].
      + intros H H'. apply H. auto.
  Qed.
  Lemma aget_In k v (l : list (K * V)) : NoDup (keys l) -> (aget eqb k l = Some v <-> In (k, v) l).
  Proof.
    induction l as [|[k' v'] r IH]; cbn; intros Hn; [split; [discriminate|tauto]|].
    inversion Hn; subst. destruct (eqb k k') eqn:E.
    - apply eqb_spec in E. subst. split.
      + intros H. inversion H. auto.
      + intros [H|H]; [inversion H; auto|]. exfalso. apply H1. apply (in_map fst) in H. exact H.
    - apply (eqb_neq eqb eqb_spec) in E. rewrite (IH H2). split; auto.
      intros [H|H]; [inversion H; congruence|auto].
  Qed.
  Lemma ahas_keys k (l : list (K * V)) : ahas eqb k l = memb eqb k (keys l).
  Proof.
    unfold ahas. destruct (aget eqb k l) eqn:E.
    - symmetry. apply (memb_In eqb eqb_spec). destruct (in_dec (eqb_dec eqb eqb_spec) k (keys l)); auto.
      apply aget_None in n. congruence.
    - symmetry. apply (memb_false eqb eqb_spec). apply aget_None. auto.
  Qed.
  Lemma length_adel_notin k (l : list (K * V)) : ~ In k (keys l) -> adel eqb k l = l.
  Proof.
    induction l as [|[k' v] r IH]; cbn; auto. intros H. destruct (eqb k k') eqn:E.
    - apply eqb_spec in E. subst. exfalso. apply H. auto.
    - f_equal. apply IH. intros H'. apply H. auto.
  Qed.
  Lemma length_adel_in k (l : list (K * V)) : NoDup (keys l) -> In k (keys l) ->
    S (length (adel eqb k l)) = length l.
  Proof.
    induction l as [|[k' v] r IH]; cbn; [tauto|]. intros Hn Hi. inversion Hn; subst.
    destruct (eqb k k') eqn:E.
    - apply eqb_spec in E. subst. rewrite length_adel_notin; auto.
    - apply (eqb_neq eqb eqb_spec) in E. destruct Hi as [Hi|Hi]; [congruence|]. cbn. rewrite IH; auto.
  Qed.
  (* two maps with the same lookups and duplicate-free keys have the same key set and size *)
  Lemma same_lookup_keys (l m : list (K * V)) :
    (forall k, aget eqb k l = aget eqb k m) -> forall k, In k (keys l) <-> In k (keys m).
  Proof.
    intros H k. destruct (in_dec (eqb_dec eqb eqb_spec) k (keys l)) as [i|n], (in_dec (eqb_dec eqb eqb_spec) k (keys m)) as [i'|n']; try tauto.
    - apply aget_None in n'. rewrite <- H in n'. apply aget_None in n'. tauto.
    - apply aget_None in n. rewrite H in n. apply aget_None in n. tauto.
  Qed.
  Lemma same_lookup_length (l m : list (K * V)) : NoDup (keys l) -> NoDup (keys m) ->
    (forall k, aget eqb k l = aget eqb k m) -> length l = length m.
  Proof.
    intros Hl Hm H. rewrite <- (map_length fst l), <- (map_length fst m).
    pose proof (@same_lookup_keys l m H) as Hk.
    apply Nat.le_antisymm; apply NoDup_incl_length; auto; intros k Hi; apply Hk; auto.
  Qed.
End AListFacts.

Lemma option_ext {V} (a b : option V) : (forall v, a = Some v <-> b = Some v) -> a = b.
Proof.
  intros H. destruct a as [x|], b as [y|]; auto.
  - symmetry. apply (proj1 (H x)). reflexivity.
  - symmetry. apply (proj1 (H x)). reflexivity.
  - apply (proj2 (H y)). reflexivity.
Qed.

(* lookups in the bucket map written by the fixtures *)
Lemma aget_map_seq {V} (f : nat -> V) n : forall a k,
  aget Nat.eqb k (map (fun j => (j, f j)) (seq a n)) =
  if (a <=? k) && (k <? a + n) then Some (f k) else None.
Proof.
  induction n as [|n IH]; intros a k.
  - cbn [seq map aget]. destruct ((a <=? k) && (k <? a + 0)) eqn:E; auto.
    apply andb_prop in E. destruct E as [E1 E2]. apply Nat.leb_le in E1. apply Nat.ltb_lt in E2. lia.
  - cbn [seq map aget]. destruct (k =? a) eqn:E.
    + apply Nat.eqb_eq in E. subst.
      replace (a <=? a) with true by (symmetry; apply Nat.leb_le; lia).
      replace (a <? a + S n) with true by (symmetry; apply Nat.ltb_lt; lia). reflexivity.
    + apply Nat.eqb_neq in E. rewrite IH.
      replace (S a <=? k) with (a <=? k).
      * replace (k <? S a + n) with (k <? a + S n); auto. f_equal. lia.
      * destruct (a <=? k) eqn:E1; symmetry.
        -- apply Nat.leb_le in E1. apply Nat.leb_le. lia.
        -- apply Nat.leb_gt in E1. apply Nat.leb_gt. lia.
Qed.


Lemma start_chunk_inv {A} (bs : nat) (pre : list A) : 0 < bs ->
  chunk_inv bs (map (fun k => (k, chunk bs k pre)) (seq 0 ((length pre + bs - 1) / bs))) pre.
Proof.
  intros Hb k. unfold bk_get. rewrite aget_map_seq. cbn [Nat.leb andb plus].
  destruct (k <? (length pre + bs - 1) / bs) eqn:E; auto.
  apply Nat.ltb_ge in E.
  pose proof (Nat.div_mod (length pre + bs - 1) bs). pose proof (Nat.mod_upper_bound (length pre + bs - 1) bs). nia.
Qed.

Lemma NoDup_firstn {A} n (l : list A) : NoDup l -> NoDup (firstn n l).
Proof. intros H. rewrite <- (firstn_skipn n l) in H. apply NoDup_app_inv in H. tauto. Qed.
Lemma NoDup_skipn {A} n (l : list A) : NoDup l -> NoDup (skipn n l).
Proof. intros H. rewrite <- (firstn_skipn n l) in H. apply NoDup_app_inv in H. tauto. Qed.
Lemma In_chunk {A} bs k (l : list A) x : In x (chunk bs k l) -> In x l.
Proof.
  unfold chunk. intros H. apply In_nth_error in H. destruct H as [j Hj].
  rewrite nth_firstn in Hj. destruct (j <? bs); [|discriminate].
  rewrite nth_skipn in Hj. eapply nth_error_In; eauto.
Qed.
Lemma flat_map_map {A B C} (f : B -> list C) (g : A -> B) (l : list A) :
  flat_map f (map g l) = flat_map (fun x => f (g x)) l.
Proof. induction l as [|x l IH]; cbn; auto. rewrite IH. reflexivity. Qed.

(* assembling a monitor step when the reference machine also looks at the returned value *)
Section ValMon.
  Variables St C O Q V A : Type.
  Variable step : St -> C -> res (St * O).
  Variable ans : St -> Q -> V.
  Variable spec : A -> C -> res O -> option A.
  Variable chk : A -> Q * V -> bool.
  Variable cross : A -> list (Q * V) -> bool.
  Variable Rel : St -> A -> Prop.
  Hypothesis Hsim : forall s a k, Rel s a ->
    exists a', spec a k (step_out step s k) = Some a' /\ Rel (step_state step s k) a'.
  Hypothesis Hchk : forall s a q, Rel s a -> chk a (q, ans s q) = true.
  Hypothesis Hcross : forall s a qs, Rel s a -> cross a (map (fun q => (q, ans s q)) qs) = true.

  Lemma val_mon_step s a (cq : C * list Q) : Rel s a ->
    exists a', mon_of spec chk cross a (model_ev step ans s cq) = Some a'
               /\ Rel (step_state step s (fst cq)) a'.
  Proof.
    intros HR. destruct cq as [k qs]. unfold mon_of, model_ev. cbn [fst snd].
    destruct (Hsim k HR) as [a' [Es HR']]. rewrite Es. exists a'.
    rewrite (Hcross qs HR'), andb_true_r.
    replace (forallb (chk a') (map (fun q => (q, ans (step_state step s k) q)) qs)) with true; auto.
    symmetry. apply forallb_forall. intros [q v] Hin. apply in_map_iff in Hin.
    destruct Hin as [q' [E _]]. inversion E. subst. apply Hchk. auto.
  Qed.
End ValMon.

Lemma enumb_refl {B} (beq : B -> B -> bool) (beq_spec : forall x y, beq x y = true <-> x = y) (l : list B) :
  NoDup l -> enumb beq l l = true.
Proof. intros H. apply (enumb_spec beq beq_spec). split; auto. tauto. Qed.
Lemma bool_eqb_refl b : Bool.eqb b b = true.
Proof. destruct b; reflexivity. Qed.

(* a simulation extends from one call to every call list *)
Section RunSim.
  Variables St C A : Type.
  Variable step : St -> C -> res (St * unit).
  Variable spec : A -> C -> res A.
  Variable Rel : St -> A -> Prop.
  Hypothesis Hsim : forall s a k, Rel s a ->
    match step s k with
    | Ok (s', _) => exists a', spec a k = Ok a' /\ Rel s' a'
    | Fail => spec a k = Fail
    end.
  Lemma run_sim cs : forall s a, Rel s a -> Rel (run step s cs) (spec_run spec a cs).
  Proof.
    induction cs as [|k cs IH]; intros s a HR; cbn [run spec_run]; auto.
    apply IH. pose proof (Hsim k HR) as H. unfold step_state. destruct (step s k) as [[s' []]|].
    - destruct H as [a' [E HR']]. rewrite E. auto.
    - rewrite H. auto.
  Qed.
  Lemma sim_is_ok s a k : Rel s a -> is_ok (step s k) = is_ok (spec a k).
  Proof.
    intros HR. pose proof (Hsim k HR) as H. destruct (step s k) as [[s' []]|].
    - destruct H as [a' [E _]]. rewrite E. reflexivity.
    - rewrite H. reflexivity.
  Qed.
End RunSim.
