(* C19: facts about the SITUATION CLASSES the directed scenarios of the harness aim at
   (special addresses as parties, collaborators that do not exist, aliasing, index-valued storage
   of the allow-list over multi-step histories).  All are corollaries of the general theorems: the
   model treats every address alike - there is no exempt address - and these statements say so. *)
From SC Require Import Lib.Prelude Lib.Int Lib.Host Model.FeeForwarder Proofs.FeeForwarder
  Run.C19 Proofs.FeeForwarderAllow Proofs.FeeForwarderFwd Proofs.C19Monitor Proofs.C19Final Proofs.C19Examples.

(* ---- K1: no address is exempt from signing ---- *)
Definition signed_by (au : list entry) (a : addr) : Prop := exists e, In e au /\ en_who e = a.

Lemma outer_signed who f au ts' :
  require_auth false None who f (map init_tracker au) = Ok ts' -> signed_by au who.
Proof.
  intros E. pose proof (require_auth_outer _ _ _ _ E) as A. rewrite entries_init in A.
  apply covers_root_ex in A. destruct A as [e [Hi [Hw _]]]. exists e. auto.
Qed.

Lemma every_party_signs c st cl st' ret :
  step_ok c st cl = Ok (st', ret) ->
  match cl with
  | Forward _ _ _ _ _ _ _ _ user relayer au => signed_by au user /\ signed_by au relayer
  | SetTok _ _ operator au => signed_by au operator
  | Sweep _ _ operator au => signed_by au operator
  | Approve _ owner _ _ _ au => signed_by au owner
  | Advance _ => True
  | Mint _ _ _ => True
  end.
Proof.
  destruct cl as [n|tok to amt|tok owner spender amt exp au|k tok fee max exp target fn args user relayer au
                 |allowed tok operator au|tok recipient operator au]; intros H; try exact I.
  - cbn [step_ok] in H.
    destruct (memb tok (c_tokens c)); cbn [guard bind] in H; [|discriminate].
    destruct (require_auth false None owner _ (map init_tracker au)) as [ts|] eqn:E; cbn [bind] in H; [|discriminate].
    eapply outer_signed; eauto.
  - destruct (forward_needs_auth _ _ _ _ _ _ _ _ _ _ _ _ _ _ _ H) as [[e [Hi [Hw _]]] [[e' [Hi' [Hw' _]]] _]].
    split; [exists e|exists e']; auto.
  - cbn [step_ok] in H.
    destruct (memb operator (c_managers c)); cbn [guard bind] in H; [|discriminate].
    destruct (require_auth false None operator _ (map init_tracker au)) as [ts|] eqn:E; cbn [bind] in H; [|discriminate].
    eapply outer_signed; eauto.
  - cbn [step_ok] in H.
    destruct (memb operator (c_managers c)); cbn [guard bind] in H; [|discriminate].
    destruct (require_auth false None operator _ (map init_tracker au)) as [ts|] eqn:E; cbn [bind] in H; [|discriminate].
    eapply outer_signed; eauto.
Qed.

(* the contrapositive, as the harness uses it: an address nobody signed for (a contract: the
   forwarder itself, the other forwarder, a fee token, a target) is never a party of a successful call *)
Lemma unsigned_party_refused c st cl a :
  (forall e, In e (match cl with
                   | Forward _ _ _ _ _ _ _ _ _ _ au | SetTok _ _ _ au | Sweep _ _ _ au | Approve _ _ _ _ _ au => au
                   | _ => []
                   end) -> en_who e <> a) ->
  match cl with
  | Forward _ _ _ _ _ _ _ _ user relayer _ => a = user \/ a = relayer
  | SetTok _ _ operator _ | Sweep _ _ operator _ => a = operator
  | Approve _ owner _ _ _ _ => a = owner
  | _ => False
  end ->
  step c st cl = (st, Fail).
Proof.
  intros Hn Hp. unfold step. destruct (step_ok c st cl) as [[st' r]|] eqn:E; [|reflexivity]. exfalso.
  pose proof (every_party_signs _ _ _ _ _ E) as S.
  destruct cl; try contradiction.
  - subst a. destruct S as [e [Hi Hw]]. exact (Hn e Hi Hw).
  - destruct S as [[e [Hi Hw]] [e' [Hi' Hw']]]. destruct Hp as [->| ->]; [exact (Hn e Hi Hw)|exact (Hn e' Hi' Hw')].
  - subst a. destruct S as [e [Hi Hw]]. exact (Hn e Hi Hw).
  - subst a. destruct S as [e [Hi Hw]]. exact (Hn e Hi Hw).
Qed.

(* ---- K4: the collaborators of a successful forward exist and are of the right kind ---- *)
Lemma forward_collaborators c st k tok fee max exp target fn args user relayer au st' ret :
  1 <= min_temp_ttl (c_host c) ->
  step_ok c st (Forward k tok fee max exp target fn args user relayer au) = Ok (st', ret) ->
  In tok (c_tokens c) /\
  (In target (c_tokens c) \/ (In target (c_targets c) /\ target <> fwd_addr c k)).
Proof.
  intros Hm H. cbn [step_ok] in H.
  destruct (forward_open _ _ _ _ _ _ _ _ _ _ _ _ _ _ _ Hm H) as [t' [ts3 [tks' [l' [Q [_ [Hc _]]]]]]].
  split.
  - apply memb_In. exact (cp_tok _ _ _ _ _ _ _ _ _ _ _ _ _ _ (fq_collect _ _ _ _ _ _ _ _ _ _ _ _ _ _ Q)).
  - unfold target_call in Hc. destruct (memb target (c_tokens c)) eqn:Et.
    + left. apply memb_In. exact Et.
    + right. destruct (memb target (c_targets c)) eqn:Eg; cbn [guard bind] in Hc; [|discriminate].
      destruct (N.eqb target (fwd_addr c k)) eqn:Ef; cbn [negb guard bind] in Hc; [discriminate|].
      split; [apply memb_In; exact Eg|apply N.eqb_neq; exact Ef].
Qed.

(* ---- K1 / K5: the exact effect of a sweep, whoever the recipient is ---- *)
Lemma get_tok_with_tok st tok t' t :
  get_tok (with_tok st tok t') t = if N.eqb t tok then t' else get_tok st t.
Proof. change (get_tok (with_tok st tok t') t) with (get_tokm (alist_set tok t' (toks st)) t). apply get_tokm_set. Qed.

Lemma sweep_exact c st tok recipient operator au st' ret :
  step_ok c st (Sweep tok recipient operator au) = Ok (st', ret) ->
  In operator (c_managers c) /\ signed_by au operator /\
  ret = balance (get_tok st tok) (c_fp c) /\ 0 < ret /\
  (forall t h, balance (get_tok st' t) h =
     balance (get_tok st t) h +
     (if N.eqb t tok then (if N.eqb h recipient then ret else 0) - (if N.eqb h (c_fp c) then ret else 0) else 0)) /\
  (recipient = c_fp c -> forall t h, balance (get_tok st' t) h = balance (get_tok st t) h) /\
  (forall t, t_total (get_tok st' t) = t_total (get_tok st t)) /\
  (forall t o s, alw_get (get_tok st' t) o s = alw_get (get_tok st t) o s) /\
  al st' = al st /\ logs st' = logs st /\ now st' = now st.
Proof.
  intros H. pose proof (every_party_signs _ _ _ _ _ H) as Sg. cbn [step_ok] in H.
  destruct (memb operator (c_managers c)) eqn:Em; cbn [guard bind] in H; [|discriminate].
  destruct (require_auth false None operator _ (map init_tracker au)) as [ts|]; cbn [bind] in H; [|discriminate].
  destruct (memb tok (c_tokens c)); cbn [guard bind] in H; [|discriminate].
  destruct (balance (get_tok st tok) (c_fp c) =? 0) eqn:Ez; [discriminate|]. apply Z.eqb_neq in Ez.
  destruct (update_transfer (get_tok st tok) (c_fp c) recipient _) as [t'|] eqn:Eu; cbn [bind] in H; [|discriminate].
  inversion H; subst st' ret. clear H.
  destruct (update_transfer_spec _ _ _ _ _ Eu) as [Hge [_ [Ht [Ha Hb]]]].
  assert (Hbal : forall t h, balance (get_tok (with_tok st tok t') t) h =
     balance (get_tok st t) h +
     (if N.eqb t tok then (if N.eqb h recipient then balance (get_tok st tok) (c_fp c) else 0)
                          - (if N.eqb h (c_fp c) then balance (get_tok st tok) (c_fp c) else 0) else 0)).
  { intros t h. rewrite get_tok_with_tok. destruct (N.eqb t tok) eqn:E; [|lia].
    apply N.eqb_eq in E. subst t. rewrite Hb. lia. }
  split; [apply memb_In; exact Em|]. split; [exact Sg|]. split; [reflexivity|]. split; [lia|].
  split; [exact Hbal|]. split; [|split; [|split]].
  - intros -> t h. rewrite Hbal. destruct (N.eqb t tok); [|ring]. destruct (N.eqb h (c_fp c)); ring.
  - intros t. rewrite get_tok_with_tok. destruct (N.eqb t tok) eqn:E; [|reflexivity].
    apply N.eqb_eq in E. subst t. exact Ht.
  - intros t o s. rewrite get_tok_with_tok. destruct (N.eqb t tok) eqn:E; [|reflexivity].
    apply N.eqb_eq in E. subst t. apply alw_get_same_alw. exact Ha.
  - cbn. auto.
Qed.

(* ---- K5: user = relayer in the permissionless example: the fee returns to the payer, the
        allowance is spent all the same ---- *)
Lemma forward_alias_user_relayer c cs tok fee max exp target fn args user au st' ret :
  1 <= min_temp_ttl (c_host c) ->
  wf_call c (Forward Permissionless tok fee max exp target fn args user user au) = true ->
  let st := run c cs in
  step_ok c st (Forward Permissionless tok fee max exp target fn args user user au) = Ok (st', ret) ->
  let mv := tgt_moves c target fn args in
  (forall t h, balance (get_tok st' t) h = balance (get_tok st t) h + tgt_delta mv target t h) /\
  (forall t o s, allowance_data (now st') (get_tok st' t) o s =
     tgt_alw mv target t o s
       (if N.eqb t tok && N.eqb o user && N.eqb s (c_fl c) then (max - fee, exp)
        else allowance_data (now st) (get_tok st t) o s)) /\
  0 < fee <= max /\
  (exists e, In e au /\ en_who e = user /\
     en_root e = {| f_contract := c_fl c; f_name := F_FORWARD;
                    f_args := [VA tok; VI max; VI exp; VA target; VS fn; VL args] |}) /\
  (exists e, In e au /\ en_who e = user /\
     en_root e = {| f_contract := c_fl c; f_name := F_FORWARD;
                    f_args := [VA tok; VI fee; VI max; VI exp; VA target; VS fn; VL args; VA user; VA user] |}).
Proof.
  intros Hm Hwf st H mv.
  destruct (forward_exact_debit_credit c cs _ _ _ _ _ _ _ _ _ _ _ _ _ Hm Hwf H) as [B [_ [A _]]].
  destruct (forward_fee_bounds _ _ _ _ _ _ _ _ _ _ _ _ _ _ _ H) as [Fb _].
  destruct (forward_needs_auth _ _ _ _ _ _ _ _ _ _ _ _ _ _ _ H) as [U [R _]].
  cbn [fwd_addr] in *. split; [|split; [|split; [|split]]]; auto.
  intros t h. rewrite B. cbv beta iota zeta. fold mv. subst st. destruct (N.eqb t tok); [|lia]. destruct (N.eqb h user); lia.
Qed.

(* ---- K6: Token(i) and TokenIndex(t) are inverse to each other, numerically, after every history ---- *)
Lemma index_roundtrip c cs :
  1 <= min_temp_ttl (c_host c) ->
  let a := al (run c cs) in
  (forall i t, alist_get i (al_tok a) = Some t <-> ((i < al_count a)%N /\ alist_get t (al_idx a) = Some i)) /\
  (forall i, (i < al_count a)%N -> exists t, alist_get i (al_tok a) = Some t) /\
  (forall t i, alist_get t (al_idx a) = Some i -> (i < al_count a)%N).
Proof.
  intros Hm a. pose proof (Inv_run c cs Hm) as I. pose proof (inv_wf _ _ I) as W. fold a in W.
  split; [|split].
  - intros i t. split.
    + apply (wf_tok _ W).
    + intros [_ H]. apply (wf_idx _ W). exact H.
  - intros i Hi. pose proof (wf_dense _ W i Hi) as D. destruct (alist_get i (al_tok a)) as [t|]; [exists t; reflexivity|congruence].
  - intros t i H. apply (wf_idx _ W) in H. apply (wf_tok _ W) in H. tauto.
Qed.

(* ---- a second concrete world: the CONTRACTS themselves are in the observed tables ----
   addresses: 0 permissioned forwarder, 1 permissionless forwarder, 2 / 3 fee tokens, 5 target,
   7 user, 9 relayer (executor), 11 manager, 12 an account that is no contract.
   holders = user, relayer, both forwarders, the target, the token contract, the manager;
   owners  = user, relayer, both forwarders, the target, the token contract;
   allow-list candidates = both tokens, the forwarder's OWN address, the target, the manager. *)
Definition ex2_cfg : cfg :=
  Cf 1 1000 100 0%N 1%N [9%N] [11%N] [2%N] [5%N]
     [7%N; 9%N; 0%N; 1%N; 5%N; 2%N; 11%N] [7%N; 9%N; 0%N; 1%N; 5%N; 2%N] [0%N; 1%N] [2%N; 3%N; 0%N; 5%N; 11%N].
Definition ex2_user_entry (F tok : addr) (max exp : Z) (tg : addr) (user : addr) : entry :=
  En user (Fn F F_FORWARD (user_args tok max exp tg F_HIT [AI 1])) [Fn tok F_APPROVE (approve_args user F max exp)].
Definition ex2_rel_entry (F tok : addr) (fee max exp : Z) (tg : addr) (user relayer : addr) : entry :=
  En relayer (Fn F F_FORWARD (forward_args tok fee max exp tg F_HIT [AI 1] user relayer)) [].
Definition ex2_fwd (k : kind) (tok : addr) (fee max : Z) (tg user relayer : addr) (au : list entry) : call :=
  Forward k tok fee max 150 tg F_HIT [AI 1] user relayer au.
Definition ex2_good (k : kind) (tok : addr) (fee max : Z) (tg : addr) : call :=
  let F := fwd_addr ex2_cfg k in
  ex2_fwd k tok fee max tg 7%N 9%N [ex2_rel_entry F tok fee max 150 tg 7%N 9%N; ex2_user_entry F tok max 150 tg 7%N].
Definition ex2_sweep (tok recipient : addr) : call :=
  Sweep tok recipient 11%N [En 11%N (Fn 0%N F_SWEEP [VA tok; VA recipient; VA 11%N]) []].
Definition ex2_calls : list call :=
  [ Mint 2%N 7%N 1000;
    (* 1: the relayer is the permissionless forwarder ITSELF (it would collect the fee): nobody signs for it *)
    ex2_fwd Permissionless 2%N 10 20 5%N 7%N 1%N [ex2_user_entry 1%N 2%N 20 150 5%N 7%N];
    (* 2: the user is the OTHER forwarder *)
    ex2_fwd Permissionless 2%N 10 20 5%N 0%N 9%N [ex2_rel_entry 1%N 2%N 10 20 150 5%N 0%N 9%N];
    (* 3-6: the forwarder's own address is put on its allow-list; a real token is then outside the list *)
    SetTok true 0%N 11%N (ex_mgr F_ENABLE 0%N);
    ex2_good Permissioned 2%N 10 20 5%N;
    SetTok true 2%N 11%N (ex_mgr F_ENABLE 2%N);
    ex2_good Permissioned 2%N 10 20 5%N;
    (* 7-9: sweep to the forwarder itself (nothing moves), then to the token contract's own address *)
    ex2_sweep 2%N 0%N;
    ex2_sweep 2%N 2%N;
    ex2_sweep 2%N 2%N;
    (* 10-12: the target is an account; the fee token is a contract of another kind; the fee exceeds the
       maximum although its low 64 bits do not *)
    ex2_good Permissionless 2%N 10 20 12%N;
    ex2_good Permissionless 5%N 10 20 5%N;
    ex2_good Permissionless 2%N (2 ^ 64 + 1) 2 5%N;
    (* 13: the own address leaves the list again: swap-and-pop of the FIRST of two entries *)
    SetTok false 0%N 11%N (ex_mgr F_DISABLE 0%N);
    ex2_good Permissionless 2%N (2 ^ 64 + 1) (2 ^ 64 + 1) 5%N ].
Definition ex2_trace : trace := observe_model ex2_cfg ex2_calls.
Definition set_idx (ix : list (option N)) (o : obs) : obs :=
  Ob (o_now o) (o_toks o) (o_count o) (o_enum o) (o_past o) ix (o_allowed o) (o_flcount o) (o_logs o) (o_exec o) (o_mgr o).
