(* C16: hand-made traces for the non-vacuity / rejection Examples of Properties/C16.v. *)
From SC Require Import Lib.Prelude Lib.Int Lib.Host Model.Gates Model.GatesSpec Proofs.Gates Proofs.C16Final Run.C16.

(* observations of the PRE-FIX allow-list example (FungibleBurnable defaults) *)
Fixpoint prefix_steps (c : cfg) (s : state) (cs : list call) : list tstep :=
  match cs with
  | [] => []
  | cl :: r => (cl, snd (step_prefix c s cl), observe c (fst (step_prefix c s cl)))
               :: prefix_steps c (fst (step_prefix c s cl)) r
  end.
Definition prefix_trace : trace :=
  mkTrace prefix_cfg (observe prefix_cfg (init prefix_cfg))
          (prefix_steps prefix_cfg (init prefix_cfg) (prefix_calls ++ [(Burn 1%N 5, [1%N])])).

(* forge the last step of a model run: outcome [ok] and the observation of state [s'] *)
Definition forged (c : cfg) (cs : list call) (cl : call) (ok : bool) (s' : state) : trace :=
  mkTrace c (observe c (init c)) (model_steps c (init c) cs ++ [(cl, ok, observe c s')]).

Definition cP : cfg := mkCfg KPaus 3 0%N 2%N 100000 1000 0 10.
Definition cA : cfg := mkCfg KAllowLib 3 0%N 2%N 100000 0 0 10.
Definition cB : cfg := mkCfg KBlockLib 3 0%N 2%N 100000 0 0 10.
Definition cC : cfg := mkCfg KCapEx 3 0%N 2%N 100000 0 100 10.
Definition cU : cfg := mkCfg KUpgV2 3 0%N 2%N 100000 0 0 10.

(* 1. a transfer that goes through while paused *)
Definition bad_paused_transfer : trace :=
  let cs := [(Pause 0%N, [0%N])] in
  let s := run cP (init cP) cs in
  forged cP cs (Transfer 0%N 1%N 5, [0%N]) true
         (set_paused (fst (step cP (set_paused s false) (Transfer 0%N 1%N 5, [0%N]))) true).
(* 2. pause accepted twice in a row *)
Definition bad_double_pause : trace :=
  let cs := [(Pause 0%N, [0%N])] in
  forged cP cs (Pause 0%N, [0%N]) true (run cP (init cP) cs).
(* 3. a valid transfer still refused after unpause (gate does not re-open) *)
Definition bad_stuck_after_unpause : trace :=
  let cs := [(Pause 0%N, [0%N]); (Unpause 0%N, [0%N])] in
  forged cP cs (Transfer 0%N 1%N 5, [0%N]) false (run cP (init cP) cs).
(* 4. allow list: receiver not allowed, transfer succeeds *)
Definition bad_allow_receiver : trace :=
  let cs := [(AllowUser 0%N 0%N, []); (Mint 0%N 50, [])] in
  let s := run cA (init cA) cs in
  forged cA cs (Transfer 0%N 1%N 5, [0%N]) true
         (disallow_user (fst (step cA (allow_user s 1%N) (Transfer 0%N 1%N 5, [0%N]))) 1%N).
(* 5. block list: burn_from of a blocked owner succeeds *)
Definition bad_block_burn_from : trace :=
  let cs := [(Mint 0%N 50, []); (Approve 0%N 1%N 20 500, [0%N]); (BlockUser 0%N 0%N, [])] in
  let s := run cB (init cB) cs in
  forged cB cs (BurnFrom 1%N 0%N 5, [1%N]) true
         (block_user (fst (step cB (unblock_user s 0%N) (BurnFrom 1%N 0%N 5, [1%N]))) 0%N).
(* 6. disallow_user reported ok but the getter still says allowed *)
Definition bad_stale_list : trace :=
  let cs := [(AllowUser 1%N 0%N, [])] in
  forged cA cs (DisallowUser 1%N 0%N, []) true (run cA (init cA) cs).
(* 7. a mint that lifts the supply above the cap *)
Definition bad_over_cap : trace :=
  let cs := [(Mint 1%N 100, [])] in
  let s := run cC (init cC) cs in
  forged cC cs (Mint 1%N 1, []) true (set_bal (set_supply s 101) 1%N 101).
(* 8. migration completed twice after one upgrade *)
Definition bad_migrate_twice : trace :=
  let cs := [(Upgrade true 0%N, [0%N]); (Migrate 7 0%N, [0%N])] in
  let s := run cU (init cU) cs in
  forged cU cs (Migrate 8 0%N, [0%N]) true (set_mdata s (Some 8)).
(* 9. migration without any upgrade *)
Definition bad_migrate_without_upgrade : trace :=
  forged cU [] (Migrate 8 0%N, [0%N]) true (set_mdata (init cU) (Some 8)).
(* 10. a failing call that leaves a trace *)
Definition bad_failed_with_effect : trace :=
  let cs := [(Pause 0%N, [0%N])] in
  let s := run cP (init cP) cs in
  forged cP cs (Transfer 0%N 1%N 5, [0%N]) false (set_bal s 1%N 5).

(* a non-trivial reachable state of each kind on which the hypotheses of the theorems hold *)
Definition good_calls_paus : list call :=
  [ (Transfer 0%N 1%N 300, [0%N]); (Approve 1%N 2%N 100 5000, [1%N]); (Pause 0%N, [0%N]);
    (Transfer 1%N 2%N 10, [1%N]); (Mint 1%N 5, [0%N]); (Approve 1%N 0%N 7 400, [1%N]);
    (Unpause 0%N, [0%N]); (TransferFrom 2%N 1%N 0%N 60, [2%N]); (Advance 6000, []); (Burn 1%N 40, [1%N]) ].
