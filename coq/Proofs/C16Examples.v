(* C16: hand-made traces for the non-vacuity / rejection Examples of Properties/C16.v. *)
From SC Require Import Lib.Prelude Lib.Int Lib.Host Model.Gates Model.GatesSpec Proofs.Gates Proofs.C16Final Run.C16.

(* observations of the PRE-FIX allow-list example (FungibleBurnable defaults) *)
Fixpoint prefix_steps (c : cfg) (s : state) (cs : list call) : list tstep :=
  match cs with
  | [] => []
  | cl :: r => (cl, snd (step_prefix c s cl), observe c (fst (step_prefix c s cl)))
               :: prefix_steps c (fst (step_prefix c s cl)) r
  end.
Definition prefix_trace : trace :=
  mkTrace prefix_cfg (observe prefix_cfg (init prefix_cfg))
          (prefix_steps prefix_cfg (init prefix_cfg) (prefix_calls ++ [(Burn 1%N 5, [1%N])])).

(* forge the last step of a model run: outcome [ok] and the observation of state [s'] *)
Definition forged (c : cfg) (cs : list call) (cl : call) (ok : bool) (s' : state) : trace :=
  mkTrace c (observe c (init c)) (model_steps c (init c) cs ++ [(cl, ok, observe c s')]).

Definition cP : cfg := mkCfg KPaus 3 0%N 2%N 100000 1000 0 10.
Definition cA : cfg := mkCfg KAllowLib 3 0%N 2%N 100000 0 0 10.
Definition cB : cfg := mkCfg KBlockLib 3 0%N 2%N 100000 0 0 10.
Definition cC : cfg := mkCfg KCapEx 3 0%N 2%N 100000 0 100 10.
Definition cU : cfg := mkCfg KUpgV2 3 0%N 2%N 100000 0 0 10.

(* 1. a transfer that goes through while paused *)
Definition bad_paused_transfer : trace :=
  let cs := [(Pause 0%N, [0%N])] in
  let s := run cP (init cP) cs in
  forged cP cs (Transfer 0%N 1%N 5, [0%N]) true
         (set_paused (fst (step cP (set_paused s false) (Transfer 0%N 1%N 5, [0%N]))) true).
(* 2. pause accepted twice in a row *)
Definition bad_double_pause : trace :=
  let cs := [(Pause 0%N, [0%N])] in
  forged cP cs (Pause 0%N, [0%N]) true (run cP (init cP) cs).
(* 3. a valid transfer still refused after unpause (gate does not re-open) *)
Definition bad_stuck_after_unpause : trace :=
  let cs := [(Pause 0%N, [0%N]); (Unpause 0%N, [0%N])] in
  forged cP cs (Transfer 0%N 1%N 5, [0%N]) false (run cP (init cP) cs).
(* 4. allow list: receiver not allowed, transfer succeeds *)
Definition bad_allow_receiver : trace :=
  let cs := [(AllowUser 0%N 0%N, []); (Mint 0%N 50, [])] in
  let s := run cA (init cA) cs in
  forged cA cs (Transfer 0%N 1%N 5, [0%N]) true
         (disallow_user (fst (step cA (allow_user s 1%N) (Transfer 0%N 1%N 5, [0%N]))) 1%N).
(* 5. block list: burn_from of a blocked owner succeeds *)
Definition bad_block_burn_from : trace :=
  let cs := [(Mint 0%N 50, []); (Approve 0%N 1%N 20 500, [0%N]); (BlockUser 0%N 0%N, [])] in
  let s := run cB (init cB) cs in
  forged cB cs (BurnFrom 1%N 0%N 5, [1%N]) true
         (block_user (fst (step cB (unblock_user s 0%N) (BurnFrom 1%N 0%N 5, [1%N]))) 0%N).
(* 6. disallow_user reported ok but the getter still says allowed *)
Definition bad_stale_list : trace :=
  let cs := [(AllowUser 1%N 0%N, [])] in
  forged cA cs (DisallowUser 1%N 0%N, []) true (run cA (init cA) cs).
(* 7. a mint that lifts the supply above the cap *)
Definition bad_over_cap : trace :=
  let cs := [(Mint 1%N 100, [])] in
  let s := run cC (init cC) cs in
  forged cC cs (Mint 1%N 1, []) true (set_bal (set_supply s 101) 1%N 101).
(* 8. migration completed twice after one upgrade *)
Definition bad_migrate_twice : trace :=
  let cs := [(Upgrade true 0%N, [0%N]); (Migrate 7 0%N, [0%N])] in
  let s := run cU (init cU) cs in
  forged cU cs (Migrate 8 0%N, [0%N]) true (set_mdata s (Some 8)).
(* 9. migration without any upgrade *)
Definition bad_migrate_without_upgrade : trace :=
  forged cU [] (Migrate 8 0%N, [0%N]) true (set_mdata (init cU) (Some 8)).
(* 10. a failing call that leaves a trace *)
Definition bad_failed_with_effect : trace :=
  let cs := [(Pause 0%N, [0%N])] in
  let s := run cP (init cP) cs in
  forged cP cs (Transfer 0%N 1%N 5, [0%N]) false (set_bal s 1%N 5).

(* a non-trivial reachable state of each kind on which the hypotheses of the theorems hold *)
Definition good_calls_paus : list call :=
  [ (Transfer 0%N 1%N 300, [0%N]); (Approve 1%N 2%N 100 5000, [1%N]); (Pause 0%N, [0%N]);
    (Transfer 1%N 2%N 10, [1%N]); (Mint 1%N 5, [0%N]); (Approve 1%N 0%N 7 400, [1%N]);
    (Unpause 0%N, [0%N]); (TransferFrom 2%N 1%N 0%N 60, [2%N]); (Advance 6000, []); (Burn 1%N 40, [1%N]) ].

(* ------------------------------------------------------------------ *)
(* traces from the adversarial review                                  *)
Definition with_list (q : obs) (l : list (option bool)) : obs :=
  mkObs (o_supply q) (o_bal q) (o_alw q) (o_paused q) l (o_cap q) (o_mig q) (o_data q) (o_trap q) (o_mgr q).
Definition with_cap (q : obs) (cp : option Z) : obs :=
  mkObs (o_supply q) (o_bal q) (o_alw q) (o_paused q) (o_list q) cp (o_mig q) (o_data q) (o_trap q) (o_mgr q).
Definition retrace (t : trace) (f : obs -> obs) : trace :=
  mkTrace (t_cfg t) (f (t_obs0 t)) (map (fun st => (fst st, f (snd st))) (t_steps t)).

(* 11. a list entry left unread until the end of the trace (a stale getter could hide there) *)
Definition bad_unread_forever : trace :=
  let t := observe_model cA [(AllowUser 1%N 0%N, []); (DisallowUser 1%N 0%N, []); (Advance 5, [])] in
  mkTrace (t_cfg t) (t_obs0 t)
          (map (fun st => (fst st, with_list (snd st) [Some false; None; Some false])) (t_steps t)).
(* 12. observation with fewer list entries than the universe *)
Definition bad_short_list : trace :=
  retrace (observe_model cA [(AllowUser 1%N 0%N, [])]) (fun q => with_list q [Some false]).
(* 13. capped example deployed with cap 100 whose cap getter says 1000, and a mint up to 1000 *)
Definition bad_ctor_cap : trace :=
  retrace (observe_model (mkCfg KCapEx 3 0%N 2%N 100000 0 1000 10) [(Mint 1%N 1000, [])])
          (fun q => q) .
Definition bad_ctor_cap' : trace := mkTrace cC (t_obs0 bad_ctor_cap) (t_steps bad_ctor_cap).
(* 14. allow list: a MUXED receiver whose underlying address is not allowed receives *)
Definition bad_mux_receiver : trace :=
  let cs := [(AllowUser 0%N 0%N, []); (Mint 0%N 50, [])] in
  let s := run cA (init cA) cs in
  forged cA cs (TransferMux 0%N 1%N 77 5, [0%N]) true
         (disallow_user (fst (step cA (allow_user s 1%N) (Transfer 0%N 1%N 5, [0%N]))) 1%N).
(* 15. examples/pausable: increment goes through while paused *)
Definition cX : cfg := mkCfg KPausEx 2 0%N 1%N 100000 0 0 10.
Definition bad_increment_paused : trace :=
  let cs := [(WhenNotPaused, []); (Pause 0%N, [0%N])] in
  let s := run cX (init cX) cs in
  forged cX cs (WhenNotPaused, []) true (set_supply s 2).
(* 16. v1 -> v2: migrate accepted although no upgrade happened *)
Definition cV1 : cfg := mkCfg KUpgV1 2 0%N 1%N 100000 0 0 10.
Definition bad_v1_migrate : trace :=
  forged cV1 [] (Migrate 3 0%N, [0%N]) true (set_mdata (init cV1) (Some 3)).
(* 17. a constructor that must refuse (negative cap) but deployed *)
Definition cNeg : cfg := mkCfg KCapEx 2 0%N 1%N 100000 0 (-5) 10.
Definition bad_negative_cap_deployed : trace := mkTrace cNeg (observe cNeg (init cNeg)) [].
Definition ok_negative_cap_refused : trace :=
  mkTrace cNeg (mkObs (-1) [] [] false [] None false None true []) [].

(* stricter than the text is NOT a monitor failure (the diff reports it): a block list that also
   refuses a blocked spender; an approve that is refused while paused *)
Definition strict_spender : trace :=
  let cs := [(Mint 0%N 50, []); (Approve 0%N 1%N 20 500, [0%N]); (BlockUser 1%N 0%N, [])] in
  forged cB cs (TransferFrom 1%N 0%N 2%N 5, [1%N]) false (run cB (init cB) cs).
Definition strict_approve_paused : trace :=
  let cs := [(Pause 0%N, [0%N])] in
  forged cP cs (Approve 0%N 1%N 5 500, [0%N]) false (run cP (init cP) cs).

(* non-trivial accepted runs of every kind *)
Definition good_runs : list (cfg * list call) :=
  [ (cP, good_calls_paus);
    (cX, [(WhenNotPaused, []); (WhenPaused, []); (Pause 1%N, [1%N]); (Pause 0%N, [0%N]); (WhenNotPaused, []); (WhenPaused, []); (Advance 4000000, []); (WhenNotPaused, []); (Unpause 0%N, [0%N]); (WhenNotPaused, [])]);
    (mkCfg KPausLib 2 0%N 1%N 100000 0 0 10, [(WhenNotPaused, []); (Pause 0%N, []); (WhenNotPaused, []); (WhenPaused, []); (Unpause 1%N, []); (WhenNotPaused, [])]);
    (mkCfg KAllowEx 4 0%N 3%N 100000 1000 0 5,
       [(AllowUser 1%N 3%N, [3%N]); (TransferMux 0%N 1%N 9 100, [0%N]); (Approve 1%N 2%N 50 900, [1%N]); (DisallowUser 1%N 3%N, [3%N]);
        (TransferFrom 2%N 1%N 0%N 5, [2%N]); (Burn 1%N 5, [1%N]); (RevokeManager 3%N 0%N, [0%N]); (AllowUser 1%N 3%N, [3%N]);
        (GrantManager 2%N 0%N, [0%N]); (AllowUser 1%N 2%N, [2%N]); (Advance 600000, []); (BurnFrom 2%N 1%N 0, [2%N]); (Burn 1%N 5, [1%N])]);
    (cA, [(AllowUser 0%N 0%N, []); (Mint 0%N 50, []); (Transfer 0%N 1%N 5, [0%N]); (AllowUser 1%N 0%N, []); (Transfer 0%N 1%N 5, [0%N]); (Burn 1%N 2, [1%N])]);
    (mkCfg KBlockEx 4 0%N 3%N 100000 1000 0 5,
       [(Transfer 0%N 1%N 100, [0%N]); (BlockUser 1%N 3%N, [3%N]); (Transfer 1%N 2%N 1, [1%N]); (TransferMux 0%N 1%N 3 1, [0%N]); (Burn 1%N 1, [1%N]);
        (UnblockUser 1%N 3%N, [3%N]); (Transfer 1%N 2%N 1, [1%N])]);
    (cB, [(Mint 0%N 50, []); (Approve 0%N 1%N 20 500, [0%N]); (BlockUser 1%N 0%N, []); (TransferFrom 1%N 0%N 2%N 5, [1%N]); (BlockUser 0%N 0%N, []); (BurnFrom 1%N 0%N 5, [1%N])]);
    (cC, [(Mint 1%N 60, []); (Mint 1%N 41, []); (Mint 2%N 40, []); (Mint 2%N 1, []); (Transfer 1%N 0%N 10, [1%N]); (Mint 0%N 170141183460469231731687303715884105727, [])]);
    (mkCfg KCapLib 3 0%N 2%N 100000 0 0 10, [(Mint 1%N 1, []); (SetCap (-1), []); (SetCap 10, []); (Mint 1%N 10, []); (Burn 1%N 4, [1%N]); (Mint 2%N 5, []); (Mint 2%N 4, [])]);
    (cV1, [(Migrate 1 0%N, [0%N]); (Upgrade true 0%N, [0%N]); (Advance 4000000, []); (Migrate 2 0%N, [0%N]); (Migrate 3 0%N, [0%N])]);
    (cU, [(Migrate 1 0%N, [0%N]); (Upgrade false 0%N, [0%N]); (Upgrade true 0%N, [0%N]); (Upgrade true 0%N, [0%N]); (Migrate 2 1%N, [1%N]); (Migrate 2 0%N, [0%N]); (Migrate 3 0%N, [0%N])]);
    (mkCfg KUpgLib 2 0%N 1%N 100000 0 0 10, [(LibEnsure, []); (LibEnable, []); (LibEnsure, []); (LibComplete, []); (LibEnsure, [])]) ].

(* 18. an allowance that vanishes at an Advance although its live_until_ledger is far away *)
Definition bad_allowance_vanishes : trace :=
  let cs := [(Approve 0%N 1%N 1000 5000, [0%N])] in
  let s := run cP (init cP) cs in
  forged cP cs (Advance 0, []) true (set_alw s 0%N 1%N (0, 0)).

(* ------------------------------------------------------------------ *)
(* no address is exempt from the lists (the shape of seeded change C16-6: the token contract's own
   address treated as implicitly and irrevocably allowed) *)
(* 19. an address reads as allowed right after deployment although the constructor never allowed it *)
Definition bad_born_listed : trace :=
  mkTrace cA (with_list (observe cA (init cA)) [Some false; Some false; Some true]) [].
(* 20. disallow_user succeeds, the getter says "not allowed", and the address still receives *)
Definition bad_disallow_ineffective : trace :=
  let cs := [(AllowUser 0%N 0%N, []); (AllowUser 2%N 0%N, []); (Mint 0%N 50, []); (DisallowUser 2%N 0%N, [])] in
  let s := run cA (init cA) cs in
  forged cA cs (Transfer 0%N 2%N 5, [0%N]) true
         (disallow_user (fst (step cA (allow_user s 2%N) (Transfer 0%N 2%N 5, [0%N]))) 2%N).
(* 21. block list: block_user succeeds and the getter says "blocked", yet the address still receives *)
Definition bad_block_ineffective : trace :=
  let cs := [(Mint 0%N 50, []); (BlockUser 2%N 0%N, [])] in
  let s := run cB (init cB) cs in
  forged cB cs (Transfer 0%N 2%N 5, [0%N]) true
         (block_user (fst (step cB (unblock_user s 2%N) (Transfer 0%N 2%N 5, [0%N]))) 2%N).

(* a reachable state of the allow-list example in which address 1 holds 100 tokens and is closed, and a
   continuation that tries everything short of re-allowing it *)
Definition cAE : cfg := mkCfg KAllowEx 4 0%N 3%N 100000 1000 0 5.
Definition frozen_prefix : list call :=
  [(AllowUser 1%N 3%N, [3%N]); (AllowUser 2%N 3%N, [3%N]); (Transfer 0%N 1%N 100, [0%N]);
   (Approve 1%N 2%N 50 900, [1%N]); (DisallowUser 1%N 3%N, [3%N])].
Definition frozen_suffix : list call :=
  [(Transfer 1%N 2%N 5, [1%N]); (Transfer 0%N 1%N 5, [0%N]); (TransferMux 0%N 1%N 7 5, [0%N]);
   (TransferFrom 2%N 1%N 0%N 5, [2%N]); (TransferFrom 2%N 0%N 1%N 0, [2%N]); (Burn 1%N 5, [1%N]);
   (BurnFrom 2%N 1%N 5, [2%N]); (Mint 1%N 5, [0%N]); (DisallowUser 1%N 3%N, [3%N]); (AllowUser 2%N 1%N, [1%N]);
   (Advance 600000, []); (Transfer 0%N 1%N 1, [0%N]); (AllowUser 0%N 3%N, [3%N]); (Transfer 0%N 2%N 1, [0%N])].
