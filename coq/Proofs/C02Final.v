(* C02: the statements pinned in Properties/C02.v. *)
From SC Require Import Lib.Prelude Lib.Int Lib.Host Model.Math Model.Fungible Model.FungibleObs
  Proofs.FungibleBasics Proofs.FungibleExec Proofs.FungibleAllow Proofs.FungibleInv Proofs.FungibleObsFacts
  Run.C02 Proofs.C02Model Proofs.C02Monitor.

Lemma wf_cfg_host c : wf_cfg c = true -> wf_host (c_host c).
Proof. unfold wf_cfg, wf_host. apply Z.leb_le. Qed.

(* the allowance of (o, sp) was live and at least [amt], and dropped by exactly [amt] keeping its
   live_until *)
Definition spender_path (s s' : state) (o sp : addr) (amt : Z) : Prop :=
  let d := allowance_data (now s) (tk s) o sp in
  let d' := allowance_data (now s') (tk s') o sp in
  0 < amt /\ amt <= fst d /\ now s <= snd d /\ d' = (fst d - amt, snd d).

Lemma spent_ok_prop s s' o sp amt : allow_inv (tk s) -> 0 < amt ->
  spent_ok (state_view s) (state_view s') (o, sp) amt = true -> spender_path s s' o sp amt.
Proof.
  intros I Pa H. unfold spent_ok in H. rewrite !amt_of_state, !lu_of_state in H. cbn [fst snd] in H.
  apply andb_true_iff in H. destruct H as [H H4]. apply andb_true_iff in H. destruct H as [H H3].
  apply andb_true_iff in H. destruct H as [H1 H2].
  apply Z.leb_le in H1. apply Z.leb_le in H2. apply Z.eqb_eq in H3.
  apply orb_true_iff in H4. destruct H4 as [H4|H4]; [apply Z.eqb_eq in H4; lia|]. apply Z.eqb_eq in H4.
  unfold spender_path. cbn zeta. split; auto. split; auto.
  destruct (allow_inv_reported (now s) (tk s) o sp I) as [_ R].
  assert (P : 0 < fst (allowance_data (now s) (tk s) o sp)) by lia. destruct (R P) as [L _].
  split; auto. destruct (allowance_data (now s') (tk s') o sp) as [x y]. cbn [fst snd] in *. subst. reflexivity.
Qed.

(* the amount of the movement of a call that debits [a] is positive *)
Lemma debit_amount_pos c s cl s' v evs a : wf_host (c_host c) -> core_inv (tk s) ->
  exec c s cl = Ok (s', v, evs) -> balance (tk s') a < balance (tk s) a ->
  exists to amt, evs_move evs = (Some a, to, amt) /\ 0 < amt.
Proof.
  intros W C E L. destruct (exec_balances _ _ _ _ _ _ W C E) as (_ & M & _).
  destruct (evs_move evs) as [[f to] amt] eqn:Em.
  destruct (moved_decrease _ _ _ _ _ _ M L) as (-> & Pa & _). eauto.
Qed.

(* C02_debit_needs_auth *)
Lemma is_rwa_flav c : is_rwa c = true -> c_flav c = FRwa.
Proof. unfold is_rwa. destruct (c_flav c); congruence. Qed.

Ltac split_andb :=
  repeat match goal with H : _ && _ = true |- _ => apply andb_true_iff in H; destruct H end.

Lemma debit_needs_auth : forall c s cl s' v evs a, wf_cfg c = true -> state_inv s ->
  exec c s cl = Ok (s', v, evs) -> balance (tk s') a < balance (tk s) a ->
  let debit := balance (tk s) a - balance (tk s') a in
  match cl with
  | Transfer au f _ _ amt | Burn au f amt => a = f /\ has_auth au a = true /\ debit <= amt
  | TransferFrom au sp f _ amt | BurnFrom au sp f amt =>
      a = f /\ has_auth au sp = true /\ spender_path s s' f sp amt /\ debit <= amt
  | VWithdraw au _ _ o op => a = o /\ has_auth au op = true /\ (op = o \/ spender_path s s' o op v) /\ debit <= v
  | VRedeem au sh _ o op => a = o /\ has_auth au op = true /\ (op = o \/ spender_path s s' o op sh) /\ debit <= sh
  | RForcedTransfer f _ amt | RBurn f amt => c_flav c = FRwa /\ a = f /\ debit <= amt
  | RRecover old _ => c_flav c = FRwa /\ a = old
  | _ => False
  end.
Proof.
  intros c s cl s' v evs a W [C _] E L. cbn zeta.
  pose proof (wf_cfg_host _ W) as Wh.
  destruct (model_step_ok c Wh ghost0 s cl s' v evs C E) as (D & _).
  specialize (D a). unfold chk_debit in D. cbn [v_bal state_view] in D.
  assert (Lb : (balance (tk s') a <? balance (tk s) a) = true) by (apply Z.ltb_lt; exact L).
  rewrite Lb in D.
  destruct (debit_amount_pos _ _ _ _ _ _ _ Wh C E L) as (to & amt & Em & Pa).
  pose proof (exec_spec _ _ _ _ _ _ E) as (Sp & _).
  assert (DL : forall x, debit_le (state_view s) (state_view s') a x = true -> balance (tk s) a - balance (tk s') a <= x).
  { intros x Hx. unfold debit_le in Hx. cbn [v_bal state_view] in Hx. apply Z.leb_le. exact Hx. }
  destruct cl; cbn [debit_ok] in D; try discriminate; unfold call_spec in Sp; split_andb;
    repeat match goal with H : N.eqb _ _ = true |- _ => apply N.eqb_eq in H; subst end;
    repeat match goal with H : debit_le _ _ _ _ = true |- _ => apply DL in H end;
    repeat match goal with H : is_rwa _ = true |- _ => apply is_rwa_flav in H end;
    auto.
  - (* TransferFrom *) split; auto. split; auto. split; auto.
    destruct Sp as (_ & _ & -> & _). cbn in Em. injection Em; intros; subst.
    apply spent_ok_prop; auto. apply C.
  - (* BurnFrom *) split; auto. split; auto. split; auto.
    destruct Sp as (_ & _ & -> & _). cbn in Em. injection Em; intros; subst.
    apply spent_ok_prop; auto. apply C.
  - (* VWithdraw *) split; auto. split; auto. split; auto.
    match goal with H : _ || _ = true |- _ => apply orb_true_iff in H; destruct H as [H|H];
      [left; apply N.eqb_eq in H; auto|right] end.
    destruct Sp as (_ & _ & ->). cbn in Em. injection Em; intros; subst.
    apply spent_ok_prop; auto. apply C.
  - (* VRedeem *) split; auto. split; auto. split; auto.
    match goal with H : _ || _ = true |- _ => apply orb_true_iff in H; destruct H as [H|H];
      [left; apply N.eqb_eq in H; auto|right] end.
    destruct Sp as (_ & _ & ->). cbn in Em. injection Em; intros; subst.
    apply spent_ok_prop; auto. apply C.
Qed.

(* C02_allowance_change_needs_owner *)
Lemma allowance_change_needs_owner : forall c s cl s' v evs o sp, wf_cfg c = true -> state_inv s ->
  exec c s cl = Ok (s', v, evs) ->
  let d := allowance_data (now s) (tk s) o sp in
  let d' := allowance_data (now s') (tk s') o sp in
  d' <> d ->
  (* the owner approved *)
  (exists au amt lu, cl = Approve au o sp amt lu /\ has_auth au o = true /\
                     d' = if lu <? now s' then (0, 0) else (amt, lu)) \/
  (* the spender spent *)
  (exists amt, spend_of cl v = Some (o, sp, amt) /\ has_auth (call_auths cl) sp = true /\
               0 < amt /\ amt <= fst d /\ d' = (fst d - amt, snd d)) \/
  (* it expired *)
  (exists n, cl = Advance n /\ d' = (0, 0) /\ (fst d = 0 \/ snd d < now s')).
Proof.
  intros c s cl s' v evs o sp W [C _] E. cbn zeta. intros Hne.
  pose proof (wf_cfg_host _ W) as Wh.
  destruct (model_step_ok c Wh ghost0 s cl s' v evs C E) as (_ & Ch & _).
  specialize (Ch (o, sp)). unfold chk_change in Ch.
  destruct (same_al (state_view s) (state_view s') (o, sp)) eqn:Sa.
  { exfalso. apply Hne. unfold same_al in Sa. rewrite !amt_of_state, !lu_of_state in Sa. cbn [fst snd] in Sa.
    apply andb_true_iff in Sa. destruct Sa as [S1 S2]. apply Z.eqb_eq in S1. apply Z.eqb_eq in S2.
    destruct (allowance_data (now s') (tk s') o sp), (allowance_data (now s) (tk s) o sp). cbn in *. subst. reflexivity. }
  assert (PAIR : forall (x y : Z * Z) a b, fst x = a -> snd x = b -> x = (a, b)).
  { intros [x1 x2] _ a b. cbn. intros; subst. reflexivity. }
  unfold allow_change_ok in Ch.
  destruct cl; cbn [spend_of] in Ch; try discriminate.
  - (* Advance *) right. right. exists n.
    rewrite !amt_of_state, !lu_of_state in Ch. cbn [fst snd v_now state_view] in Ch.
    apply andb_true_iff in Ch. destruct Ch as [Ch C3]. apply andb_true_iff in Ch. destruct Ch as [C1 C2].
    apply Z.eqb_eq in C1. apply Z.eqb_eq in C2. split; auto. split; [apply PAIR; auto; exact (0,0)|].
    apply orb_true_iff in C3. destruct C3 as [C3|C3]; [left; apply Z.eqb_eq in C3; auto|right; apply Z.ltb_lt in C3; auto].
  - (* TransferFrom *) right. left. exists amt.
    apply andb_true_iff in Ch. destruct Ch as [Ch C4]. apply andb_true_iff in Ch. destruct Ch as [Ch C3].
    apply andb_true_iff in Ch. destruct Ch as [C1 C2]. apply pkey_eqb_eq in C1. injection C1; intros; subst.
    apply Z.ltb_lt in C3. destruct (spent_ok_prop s s' from spender amt (ci_allow _ C) C3 C4) as (P1 & P2 & P3 & P4).
    auto 10.
  - (* Approve *) left. exists auths, amt, lu.
    apply andb_true_iff in Ch. destruct Ch as [Ch C3]. apply andb_true_iff in Ch. destruct Ch as [C1 C2].
    apply pkey_eqb_eq in C1. injection C1; intros; subst. split; auto. split; auto.
    rewrite !amt_of_state, !lu_of_state in C3. cbn [fst snd v_now state_view] in C3.
    destruct (lu <? now s'); apply andb_true_iff in C3; destruct C3 as [X1 X2]; apply Z.eqb_eq in X1; apply Z.eqb_eq in X2;
      apply PAIR; auto; exact (0,0).
  - (* BurnFrom *) right. left. exists amt.
    apply andb_true_iff in Ch. destruct Ch as [Ch C4]. apply andb_true_iff in Ch. destruct Ch as [Ch C3].
    apply andb_true_iff in Ch. destruct Ch as [C1 C2]. apply pkey_eqb_eq in C1. injection C1; intros; subst.
    apply Z.ltb_lt in C3. destruct (spent_ok_prop s s' from spender amt (ci_allow _ C) C3 C4) as (P1 & P2 & P3 & P4).
    auto 10.
  - (* VWithdraw *) right. left. exists v. destruct (N.eqb operator owner) eqn:Eo; [discriminate|].
    apply andb_true_iff in Ch. destruct Ch as [Ch C4]. apply andb_true_iff in Ch. destruct Ch as [Ch C3].
    apply andb_true_iff in Ch. destruct Ch as [C1 C2]. apply pkey_eqb_eq in C1. injection C1; intros; subst.
    apply Z.ltb_lt in C3. destruct (spent_ok_prop s s' owner operator v (ci_allow _ C) C3 C4) as (P1 & P2 & P3 & P4).
    cbn [spend_of]. rewrite Eo. auto 10.
  - (* VRedeem *) right. left. exists shares. destruct (N.eqb operator owner) eqn:Eo; [discriminate|].
    apply andb_true_iff in Ch. destruct Ch as [Ch C4]. apply andb_true_iff in Ch. destruct Ch as [Ch C3].
    apply andb_true_iff in Ch. destruct Ch as [C1 C2]. apply pkey_eqb_eq in C1. injection C1; intros; subst.
    apply Z.ltb_lt in C3. destruct (spent_ok_prop s s' owner operator shares (ci_allow _ C) C3 C4) as (P1 & P2 & P3 & P4).
    cbn [spend_of]. rewrite Eo. auto 10.
Qed.

(* ------------------------------------------------------------------------- *)
(* the run of the model instrumented with the monitor's ghost counters *)
Fixpoint run_g (c : cfg) (s : state) (g : ghost) (cs : list call) : state * ghost :=
  match cs with
  | [] => (s, g)
  | cl :: r => let '(s', out, _) := step c s cl in run_g c s' (ghost_step g cl out) r
  end.

Lemma run_g_state c cs : forall s g, fst (run_g c s g cs) = run c s cs.
Proof.
  induction cs as [|cl r IH]; intros s g; cbn; auto.
  unfold step_state. destruct (step c s cl) as [[s' out] evs]. cbn. apply IH.
Qed.

Lemma run_g_inv c cs : wf_host (c_host c) -> forall s g, state_inv s -> G g s ->
  state_inv (fst (run_g c s g cs)) /\ G (snd (run_g c s g cs)) (fst (run_g c s g cs)).
Proof.
  intros W. induction cs as [|cl r IH]; intros s g I Hg; cbn [run_g]; [auto|].
  pose proof (step_inv c s cl W I) as I'. unfold step_state in I'.
  destruct (step c s cl) as [[s' out] evs] eqn:E. cbn [fst] in I'.
  apply IH; auto.
  unfold step in E. destruct (exec c s cl) as [[[s1 v] evs1]|] eqn:Ex.
  - injection E; intros; subst.
    destruct (model_step_ok c W g s cl s1 v evs (si_core _ I) Ex) as (_ & _ & G' & _).
    specialize (G' Hg). intros o sp. apply G'.
  - injection E; intros; subst. exact Hg.
Qed.

(* C02_allowance_le_approved_minus_spent, C02_expired_is_zero *)
Lemma allowance_bounded_by_ghost : forall c start cs o sp, wf_cfg c = true ->
  let s := fst (run_g c (init start) ghost0 cs) in
  let g := snd (run_g c (init start) ghost0 cs) in
  0 <= allowance (now s) (tk s) o sp <= capd g (o, sp) /\
  (lud g (o, sp) < now s -> allowance (now s) (tk s) o sp = 0).
Proof.
  intros c start cs o sp W. cbn zeta.
  destruct (run_g_inv c cs (wf_cfg_host _ W) (init start) ghost0 (state_inv_init start) (G_init start)) as [I Hg].
  pose proof (chk_cap_of_G _ _ (o, sp) (ci_allow _ (si_core _ I)) Hg) as H.
  unfold chk_cap in H. rewrite amt_of_state in H. cbn [fst snd v_now state_view] in H.
  apply andb_true_iff in H. destruct H as [H H3]. apply andb_true_iff in H. destruct H as [H1 H2].
  apply Z.leb_le in H1. apply Z.leb_le in H2. unfold allowance. split; [lia|].
  intros L. apply Z.ltb_lt in L. rewrite L in H3. apply Z.eqb_eq in H3. exact H3.
Qed.

(* C02_entry_outlives_allowance: while an allowance is worth something it is unexpired and its
   temporary entry is stored and lives at least as long *)
Lemma entry_outlives_allowance : forall c start cs o sp, wf_cfg c = true ->
  let s := run c (init start) cs in
  let d := allowance_data (now s) (tk s) o sp in
  0 < fst d ->
  now s <= snd d /\
  exists en, aentry (tk s) o sp = Some en /\ tval en = d /\ snd d <= tlive en /\ now s <= tlive en.
Proof.
  intros c start cs o sp W. cbn zeta. intros P.
  destruct (reachable_inv c start cs (wf_cfg_host _ W)) as [[_ A] _].
  destruct (allow_inv_reported (now (run c (init start) cs)) (tk (run c (init start) cs)) o sp A) as [_ R]. apply R. exact P.
Qed.

(* the getter itself: once the stored live_until has passed the allowance is worth zero, whatever
   the storage entry's own lifetime *)
Lemma expired_reads_zero : forall nw t o sp d, stored nw t o sp = Some d -> snd d < nw -> allowance nw t o sp = 0.
Proof.
  intros nw t o sp d S L. unfold allowance. rewrite allowance_data_stored, S.
  apply Z.ltb_lt in L. rewrite L. reflexivity.
Qed.

(* C02_no_auth_no_effect *)
Lemma exec_needs_auth c s cl s' v evs : exec c s cl = Ok (s', v, evs) -> needs_signer cl = true -> call_auths cl <> [].
Proof.
  intros E Ns. apply exec_spec in E. destruct E as (Sp & _).
  destruct cl; cbn in Ns; try discriminate; unfold call_spec in Sp; destruct Sp as (Au & _); cbn [call_auths];
    intros X; rewrite X in Au; discriminate.
Qed.

Lemma no_auth_no_effect : forall c s cl, needs_signer cl = true -> call_auths cl = [] -> step c s cl = (s, Fail, []).
Proof.
  intros c s cl Ns Au. unfold step. destruct (exec c s cl) as [[[s' v] evs]|] eqn:E; auto.
  exfalso. apply (exec_needs_auth _ _ _ _ _ _ E Ns Au).
Qed.

(* stronger: without the signer the call has no effect, whoever else signs *)
Definition signer_of (cl : call) : option addr :=
  match cl with
  | Transfer _ f _ _ _ | Burn _ f _ => Some f
  | TransferFrom _ sp _ _ _ | BurnFrom _ sp _ _ => Some sp
  | Approve _ o _ _ _ => Some o
  | VDeposit _ _ _ _ _ op | VMint _ _ _ _ _ op | VWithdraw _ _ _ _ op | VRedeem _ _ _ _ op => Some op
  | _ => None
  end.
Lemma missing_signer_no_effect : forall c s cl a, signer_of cl = Some a -> has_auth (call_auths cl) a = false ->
  step c s cl = (s, Fail, []).
Proof.
  intros c s cl a Sg Au. unfold step. destruct (exec c s cl) as [[[s' v] evs]|] eqn:E; auto.
  exfalso. apply exec_spec in E. destruct E as (Sp & _).
  destruct cl; cbn in Sg; try discriminate; injection Sg; intros; subst; unfold call_spec in Sp; destruct Sp as (X & _);
    cbn [call_auths] in Au; congruence.
Qed.

Lemma reachable_state_inv_c02 : forall c start cs, wf_cfg c = true -> state_inv (run c (init start) cs).
Proof. intros c start cs W. apply reachable_inv. apply wf_cfg_host. exact W. Qed.
