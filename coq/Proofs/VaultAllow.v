(* C05: which calls touch the ledger and the stored live_until of an allowance (frame lemma for the
   allowance-ageing clause of the monitor). *)
From SC Require Import Lib.Prelude Lib.Int Lib.Host Model.Math Proofs.Math Model.Vault
  Proofs.VaultSpec Proofs.VaultToken Proofs.VaultOps Run.C05.
From Coq Require Import ZifyBool.

Definition lu_of (t : token) : addr -> addr -> Z := fun a b => snd (allow t a b).

Lemma spend_allowance_snd c nw t o s x t' : spend_allowance c nw t o s x = Ok t' ->
  forall a b, lu_of t' a b = lu_of t a b.
Proof.
  unfold spend_allowance, lu_of. intros H. bsplit H u E0. apply guard_ok in E0. bsplit H u1 E1. apply guard_ok in E1.
  destruct (0 <? x) eqn:Ex.
  - apply set_allowance_ok in H. destruct H as (_ & _ & _ & ->). intros a b. cbn [allow set_allow]. unfold upd2.
    destruct (N.eqb a o && N.eqb b s) eqn:E; [|reflexivity].
    assert (a = o /\ b = s) as [-> ->] by (apply andb_prop in E as [Ea Eb]; apply N.eqb_eq in Ea, Eb; auto).
    cbn [snd]. unfold allowance_data in *. destruct (snd (allow t o s) <? nw) eqn:El; cbn [fst snd] in *; [lia|reflexivity].
  - inversion H. reflexivity.
Qed.

Lemma deposit_internal_frame c s au r a sh f o s' : deposit_internal c s au r a sh f o = Ok s' ->
  now s' = now s /\ (forall x y, lu_of (asset s') x y = lu_of (asset s) x y) /\
  (forall x y, lu_of (share s') x y = lu_of (share s) x y).
Proof.
  unfold deposit_internal. intros H. bsplit H uc Ec. bsplit H a1 E1. bsplit H s1 E2. inversion H; subst s'; clear H.
  apply update_mint in E2. destruct E2 as (_ & _ & ->). cbn [now asset share].
  split; [reflexivity|]. split; [|intros; reflexivity].
  destruct (N.eqb o f).
  - apply tok_transfer_ok in E1. destruct E1 as (_ & _ & ->). intros; reflexivity.
  - apply tok_transfer_from_ok in E1. destruct E1 as (_ & _ & t1 & Esp & ->). intros x y.
    unfold lu_of. cbn [allow]. apply (spend_allowance_snd _ _ _ _ _ _ _ Esp).
Qed.

Lemma withdraw_internal_frame c s r ow a sh o s' : withdraw_internal c s r ow a sh o = Ok s' ->
  now s' = now s /\ (forall x y, lu_of (asset s') x y = lu_of (asset s) x y) /\
  (forall x y, lu_of (share s') x y = lu_of (share s) x y).
Proof.
  unfold withdraw_internal. intros H. bsplit H s0 E0. bsplit H s1 E1. bsplit H uc Ec. bsplit H a1 E2. inversion H; subst s'; clear H.
  apply tok_transfer_ok in E2. destruct E2 as (_ & _ & ->). apply update_burn in E1. destruct E1 as (_ & ->).
  cbn [now asset share]. split; [reflexivity|]. split; [intros; reflexivity|].
  intros x y. unfold lu_of. cbn [allow]. destruct (negb (N.eqb o ow)).
  - apply (spend_allowance_snd _ _ _ _ _ _ _ E0).
  - inversion E0. reflexivity.
Qed.

(* the ledger moves only by Advance; a stored live_until changes only by a successful approve of that pair *)
Lemma step_res_frame c s cl s' o : step_res c s cl = Ok (s', o) ->
  now s' = (match cl with Advance k => now s + k | _ => now s end) /\
  (forall a b, lu_of (asset s') a b =
     match cl with AApprove ow sp _ l _ => upd2z (lu_of (asset s)) ow sp l a b | _ => lu_of (asset s) a b end) /\
  (forall a b, lu_of (share s') a b =
     match cl with SApprove ow sp _ l _ => upd2z (lu_of (share s)) ow sp l a b | _ => lu_of (share s) a b end).
Proof.
  intros H. destruct cl as [a r f op au|x r f op au|a r ow op au|x r ow op au|f t a au|t a|ow sp a l au|f t a au|sp f t a au|ow sp a l au|k|q|sa|so];
    cbn [step_res] in H.
  - unfold deposit in H. bsplit H u E0. bsplit H u1 E1. bsplit H sh E2. bsplit H s0 E3. inversion H; subst.
    apply (deposit_internal_frame _ _ _ _ _ _ _ _ _ E3).
  - unfold mint in H. bsplit H u E0. bsplit H u1 E1. bsplit H sh E2. bsplit H s0 E3. inversion H; subst.
    apply (deposit_internal_frame _ _ _ _ _ _ _ _ _ E3).
  - unfold withdraw in H. bsplit H u E0. bsplit H m E1. bsplit H u1 E2. bsplit H sh E3. bsplit H s0 E4. inversion H; subst.
    apply (withdraw_internal_frame _ _ _ _ _ _ _ _ E4).
  - unfold redeem in H. bsplit H u E0. bsplit H u1 E2. bsplit H sh E3. bsplit H s0 E4. inversion H; subst.
    apply (withdraw_internal_frame _ _ _ _ _ _ _ _ E4).
  - unfold lift_tok in H. bsplit H t1 E. inversion H; subst. apply tok_transfer_ok in E. destruct E as (_ & _ & ->).
    repeat split; intros; reflexivity.
  - unfold lift_tok in H. bsplit H t1 E. inversion H; subst. apply update_mint in E. destruct E as (_ & _ & ->).
    repeat split; intros; reflexivity.
  - unfold lift_tok, tok_approve in H. bsplit H t1 E. inversion H; subst. bsplit E u Eg.
    apply set_allowance_ok in E. destruct E as (_ & _ & _ & ->).
    split; [reflexivity|]. split; [|intros; reflexivity].
    intros x y. unfold lu_of, upd2z. cbn [set_asset asset set_allow allow]. unfold upd2.
    destruct (N.eqb x ow && N.eqb y sp); reflexivity.
  - unfold lift_tok in H. bsplit H t1 E. inversion H; subst. apply tok_transfer_ok in E. destruct E as (_ & _ & ->).
    repeat split; intros; reflexivity.
  - unfold lift_tok in H. bsplit H t1 E. inversion H; subst.
    apply tok_transfer_from_ok in E. destruct E as (_ & _ & t2 & Esp & ->).
    split; [reflexivity|]. split; [intros; reflexivity|].
    intros x y. unfold lu_of. cbn [set_share share allow]. apply (spend_allowance_snd _ _ _ _ _ _ _ Esp).
  - unfold lift_tok, tok_approve in H. bsplit H t1 E. inversion H; subst. bsplit E u Eg.
    apply set_allowance_ok in E. destruct E as (_ & _ & _ & ->).
    split; [reflexivity|]. split; [intros; reflexivity|].
    intros x y. unfold lu_of, upd2z. cbn [set_share share set_allow allow]. unfold upd2.
    destruct (N.eqb x ow && N.eqb y sp); reflexivity.
  - bsplit H u Eg. inversion H; subst. repeat split; intros; reflexivity.
  - bsplit H v Eqq. inversion H; subst. repeat split; intros; reflexivity.
  - bsplit H s1 E. inversion H; subst. unfold vault_set_asset in E. destruct (v_asset s); inversion E; subst.
    repeat split; intros; reflexivity.
  - bsplit H s1 E. inversion H; subst. unfold vault_set_decimals_offset in E. bsplit E u Eg.
    destruct (v_off s); inversion E; subst. repeat split; intros; reflexivity.
Qed.
