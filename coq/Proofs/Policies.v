(* C14 - lemmas about the policy model: what each operation does when it succeeds,
   arithmetic of the weighted sums, the threshold invariants, can_enforce/enforce agreement. *)
From SC Require Import Lib.Prelude Lib.Int Lib.Host Model.Policies Model.PoliciesSpec.
From Coq Require Import ZifyBool.

(* ---------- tactics ---------- *)
Ltac break_ok H :=
  repeat match type of H with
  | bind ?x _ = Ok _ => let E := fresh "E" in destruct x eqn:E; cbn [bind] in H; [|discriminate H]
  | (match ?x with _ => _ end) = Ok _ => let E := fresh "E" in destruct x eqn:E; try discriminate H
  | (if ?x then _ else _) = Ok _ => let E := fresh "E" in destruct x eqn:E; try discriminate H
  end.

Lemma guard_ok b u : guard b = Ok u -> b = true.
Proof. destruct b; cbn; congruence. Qed.
Lemma of_option_ok {A} (o : option A) x : of_option o = Ok x -> o = Some x.
Proof. destruct o; cbn; congruence. Qed.

(* ---------- step: a failing call changes nothing ---------- *)
Lemma step_fail c s cl : snd (fst (step c s cl)) = Fail -> step c s cl = (s, Fail, []).
Proof. unfold step. destruct (exec c s cl) as [[[s' r] evs]|]; cbn; [discriminate|reflexivity]. Qed.

Lemma step_ok_exec c s cl s' r evs : step c s cl = (s', Ok r, evs) -> exec c s cl = Ok (s', r, evs).
Proof. unfold step. destruct (exec c s cl) as [[[s1 r1] e1]|]; intros H; inversion H; reflexivity. Qed.
Lemma step_exec_ok c s cl s' r evs : exec c s cl = Ok (s', r, evs) -> step c s cl = (s', Ok r, evs).
Proof. unfold step. intros ->. reflexivity. Qed.
Lemma step_exec_fail c s cl : exec c s cl = Fail -> step c s cl = (s, Fail, []).
Proof. unfold step. intros ->. reflexivity. Qed.

(* ================= simple threshold ================= *)
Lemma s_validate_ok s k rs t s' :
  s_validate_and_set s k rs t = Ok s' ->
  (t =? 0) = false /\ (len rs <? t) = false /\ s' = set_simple s (kset k t (st_simple s)).
Proof.
  unfold s_validate_and_set. destruct ((t =? 0) || (len rs <? t)) eqn:E; [discriminate|].
  apply orb_false_elim in E as [E1 E2]. intros H. inversion H. auto.
Qed.

Lemma s_install_ok s au a r rs t s' :
  s_install s au a r rs t = Ok s' ->
  has_auth au a = true /\ in_u32 t = true /\ kget (a, r) (st_simple s) = None /\
  (t =? 0) = false /\ (len rs <? t) = false /\ s' = set_simple s (kset (a, r) t (st_simple s)).
Proof.
  unfold s_install. intros H. break_ok H.
  apply guard_ok in E, E0. apply s_validate_ok in H as (? & ? & ?). auto 10.
Qed.
Lemma s_set_threshold_ok s au a r rs t s' :
  s_set_threshold s au a r rs t = Ok s' ->
  has_auth au a = true /\ in_u32 t = true /\
  (t =? 0) = false /\ (len rs <? t) = false /\ s' = set_simple s (kset (a, r) t (st_simple s)).
Proof.
  unfold s_set_threshold. intros H. break_ok H.
  apply guard_ok in E, E0. apply s_validate_ok in H as (? & ? & ?). auto 10.
Qed.
Lemma s_uninstall_ok s au a r s' :
  s_uninstall s au a r = Ok s' ->
  has_auth au a = true /\ s' = set_simple s (kremove (a, r) (st_simple s)).
Proof. unfold s_uninstall. intros H. break_ok H. apply guard_ok in E. inversion H. auto. Qed.

Lemma s_enforce_one_spec s au a r sgs ctx :
  s_enforce_one s au a r sgs ctx =
  if has_auth au a && match kget (a, r) (st_simple s) with Some t => t <=? len sgs | None => false end
  then Ok (s, EvEnforced PS a r (len sgs) 0 0) else Fail.
Proof.
  unfold s_enforce_one. destruct (has_auth au a); cbn [guard bind andb]; [|reflexivity].
  destruct (kget (a, r) (st_simple s)) as [t|]; cbn [of_option bind]; reflexivity.
Qed.

(* ================= weighted threshold: arithmetic ================= *)
Definition wvals_ok (m : list (N * Z)) : Prop := Forall (fun kv => 0 <= snd kv <= MAXU32) m.

Lemma checked_add_u32_spec a b : 0 <= a -> 0 <= b ->
  checked_add_u32 a b = if a + b <=? MAXU32 then Some (a + b) else None.
Proof.
  intros Ha Hb. unfold checked_add_u32, in_u32.
  destruct (a + b <=? MAXU32) eqn:E.
  - assert (H0 : (0 <=? a + b) = true) by (apply Z.leb_le; lia). rewrite H0. reflexivity.
  - rewrite andb_false_r. reflexivity.
Qed.

Lemma wtotal_nonneg m : wvals_ok m -> 0 <= wtotal m.
Proof. induction 1 as [|[k v] m H _ IH]; cbn [wtotal fold_right snd] in *; [lia|]. fold (wtotal m). lia. Qed.

Lemma total_weight_from_spec m : wvals_ok m -> forall acc, 0 <= acc <= MAXU32 ->
  total_weight_from acc m = if acc + wtotal m <=? MAXU32 then Some (acc + wtotal m) else None.
Proof.
  induction 1 as [|[k v] m H Hm IH]; intros acc Hacc; cbn [total_weight_from wtotal fold_right snd] in *.
  - rewrite Z.add_0_r. replace (acc <=? MAXU32) with true by lia. reflexivity.
  - fold (wtotal m). pose proof (wtotal_nonneg m Hm) as Hn.
    rewrite checked_add_u32_spec by lia.
    destruct (acc + v <=? MAXU32) eqn:E.
    + rewrite IH by lia. replace (acc + v + wtotal m) with (acc + (v + wtotal m)) by lia. reflexivity.
    + replace (acc + (v + wtotal m) <=? MAXU32) with false by lia. reflexivity.
Qed.

Lemma total_weight_spec m : wvals_ok m ->
  total_weight m = if wtotal m <=? MAXU32 then Some (wtotal m) else None.
Proof.
  intros H. unfold total_weight. rewrite total_weight_from_spec by (auto; unfold MAXU32; lia).
  reflexivity.
Qed.

Lemma alist_get_in {V} k (m : list (N * V)) v : alist_get k m = Some v -> In (k, v) m.
Proof.
  induction m as [|[k' v'] m IH]; cbn [alist_get]; [discriminate|].
  destruct (N.eqb k k') eqn:E.
  - apply N.eqb_eq in E. subst. intros H. inversion H. left. reflexivity.
  - intros H. right. auto.
Qed.

Lemma weight_of_range m sg : wvals_ok m -> 0 <= weight_of m sg <= MAXU32.
Proof.
  intros H. unfold weight_of. destruct (alist_get sg m) as [w|] eqn:E; [|unfold MAXU32; lia].
  apply alist_get_in in E. unfold wvals_ok in H. rewrite Forall_forall in H. apply (H _ E).
Qed.

Lemma wsum_nonneg m sgs : wvals_ok m -> 0 <= wsum m sgs.
Proof.
  intros H. induction sgs as [|sg r IH]; cbn [wsum fold_right]; [lia|].
  fold (wsum m r). pose proof (weight_of_range m sg H). lia.
Qed.

Lemma calc_weight_from_spec m sgs : wvals_ok m -> forall acc, 0 <= acc <= MAXU32 ->
  calc_weight_from acc m sgs = if acc + wsum m sgs <=? MAXU32 then Some (acc + wsum m sgs) else None.
Proof.
  intros Hm. induction sgs as [|sg r IH]; intros acc Hacc; cbn [calc_weight_from wsum fold_right].
  - rewrite Z.add_0_r. replace (acc <=? MAXU32) with true by lia. reflexivity.
  - fold (wsum m r). pose proof (wsum_nonneg m r Hm) as Hn.
    pose proof (weight_of_range m sg Hm) as Hw. unfold weight_of in *.
    destruct (alist_get sg m) as [w|] eqn:E.
    + rewrite checked_add_u32_spec by lia.
      destruct (acc + w <=? MAXU32) eqn:E2.
      * rewrite IH by lia. replace (acc + w + wsum m r) with (acc + (w + wsum m r)) by lia. reflexivity.
      * replace (acc + (w + wsum m r) <=? MAXU32) with false by lia. reflexivity.
    + rewrite IH by lia. rewrite Z.add_0_l. reflexivity.
Qed.

Lemma calc_weight_spec m sgs : wvals_ok m ->
  calc_weight m sgs = if wsum m sgs <=? MAXU32 then Some (wsum m sgs) else None.
Proof.
  intros H. unfold calc_weight. rewrite calc_weight_from_spec by (auto; unfold MAXU32; lia). reflexivity.
Qed.

(* ---- association lists with unique keys ---- *)
Definition wkeys_ok (m : list (N * Z)) : Prop := NoDup (map fst m).

Lemma alist_remove_keys {V} k k' (m : list (N * V)) :
  In k' (map fst (alist_remove k m)) -> k' <> k /\ In k' (map fst m).
Proof.
  induction m as [|[k2 v] m IH]; cbn [alist_remove map fst In]; [tauto|].
  destruct (N.eqb k k2) eqn:E.
  - intros H. apply IH in H. tauto.
  - cbn [map fst In]. intros [H|H].
    + subst k'. split; [|auto]. intros ->. rewrite N.eqb_refl in E. discriminate.
    + apply IH in H. tauto.
Qed.
Lemma alist_remove_nodup {V} k (m : list (N * V)) :
  NoDup (map fst m) -> NoDup (map fst (alist_remove k m)).
Proof.
  induction m as [|[k2 v] m IH]; cbn [alist_remove map fst]; intros H; [constructor|].
  inversion H as [|x l Hn Hd]; subst. destruct (N.eqb k k2); [auto|].
  cbn [map fst]. constructor; [|auto]. intros Hin. apply alist_remove_keys in Hin. tauto.
Qed.
Lemma alist_remove_vals k m : wvals_ok m -> wvals_ok (alist_remove k m).
Proof.
  induction 1 as [|[k2 v] m H Hm IH]; cbn [alist_remove]; [constructor|].
  destruct (N.eqb k k2); [auto|constructor; auto].
Qed.
Lemma alist_remove_notin {V} k (m : list (N * V)) : ~ In k (map fst m) -> alist_remove k m = m.
Proof.
  induction m as [|[k2 v] m IH]; cbn [alist_remove map fst In]; intros H; [reflexivity|].
  destruct (N.eqb k k2) eqn:E.
  - apply N.eqb_eq in E. subst. tauto.
  - f_equal. apply IH. tauto.
Qed.
Lemma alist_get_notin {V} k (m : list (N * V)) : ~ In k (map fst m) -> alist_get k m = None.
Proof.
  induction m as [|[k2 v] m IH]; cbn [alist_get map fst In]; intros H; [reflexivity|].
  destruct (N.eqb k k2) eqn:E.
  - apply N.eqb_eq in E. subst. tauto.
  - apply IH. tauto.
Qed.

(* total = weight of one key + total of the rest *)
Lemma wtotal_remove k m : wkeys_ok m -> wtotal m = weight_of m k + wtotal (alist_remove k m).
Proof.
  unfold wkeys_ok, weight_of, wtotal.
  induction m as [|[k2 v] m IH]; cbn [alist_remove alist_get fold_right map fst snd]; intros H; [reflexivity|].
  inversion H as [|x l Hn Hd]; subst.
  destruct (N.eqb k k2) eqn:E.
  - apply N.eqb_eq in E. subst k2. rewrite (alist_remove_notin k m Hn). lia.
  - cbn [fold_right snd]. rewrite (IH Hd). lia.
Qed.

Lemma weight_of_remove_neq m k k' : k <> k' -> weight_of (alist_remove k' m) k = weight_of m k.
Proof. intros H. unfold weight_of. rewrite alist_get_remove_neq by exact H. reflexivity. Qed.

Lemma wsum_remove_notin m k sgs : ~ In k sgs -> wsum (alist_remove k m) sgs = wsum m sgs.
Proof.
  induction sgs as [|sg r IH]; cbn [wsum fold_right In]; intros H; [reflexivity|].
  fold (wsum (alist_remove k m) r) (wsum m r). rewrite IH by tauto.
  rewrite weight_of_remove_neq by (intros ->; tauto). reflexivity.
Qed.

(* distinct signers can never weigh more than the configured total: no overflow trap *)
Lemma wsum_le_total sgs : NoDup sgs -> forall m, wkeys_ok m -> wvals_ok m -> wsum m sgs <= wtotal m.
Proof.
  induction 1 as [|sg r Hn Hd IH]; intros m Hk Hv; cbn [wsum fold_right].
  - apply wtotal_nonneg; exact Hv.
  - fold (wsum m r). rewrite (wtotal_remove sg m Hk).
    rewrite <- (wsum_remove_notin m sg r Hn).
    specialize (IH (alist_remove sg m) (alist_remove_nodup sg m Hk) (alist_remove_vals sg m Hv)). lia.
Qed.

(* wnorm yields unique keys and keeps u32 values *)
Lemma wnorm_keys ws : wkeys_ok (wnorm ws).
Proof.
  unfold wkeys_ok. induction ws as [|[k v] r IH]; cbn [wnorm map fst]; [constructor|].
  constructor.
  - intros Hin. apply alist_remove_keys in Hin. tauto.
  - apply alist_remove_nodup. exact IH.
Qed.
Lemma wnorm_vals ws : forallb (fun kv => in_u32 (snd kv)) ws = true -> wvals_ok (wnorm ws).
Proof.
  induction ws as [|[k v] r IH]; cbn [wnorm forallb snd]; intros H; [constructor|].
  apply andb_prop in H as [H1 H2]. constructor.
  - cbn [snd]. unfold in_u32 in H1. lia.
  - apply alist_remove_vals. auto.
Qed.
Lemma alist_set_keys k v m : wkeys_ok m -> wkeys_ok (alist_set k v m).
Proof.
  unfold wkeys_ok, alist_set. intros H. cbn [map fst]. constructor.
  - intros Hin. apply alist_remove_keys in Hin. tauto.
  - apply alist_remove_nodup. exact H.
Qed.
Lemma alist_set_vals k v m : 0 <= v <= MAXU32 -> wvals_ok m -> wvals_ok (alist_set k v m).
Proof. intros Hv H. unfold alist_set. constructor; [exact Hv|]. apply alist_remove_vals. exact H. Qed.

(* ---------- the stored configuration of the weighted policy is always sane ---------- *)
Definition wdata_ok (d : wdata) : Prop :=
  wkeys_ok (wd_weights d) /\ wvals_ok (wd_weights d) /\
  0 < wd_thr d <= wtotal (wd_weights d) /\ wtotal (wd_weights d) <= MAXU32.

Lemma w_install_ok s au a r ws t s' :
  w_install s au a r ws t = Ok s' ->
  has_auth au a = true /\ kget (a, r) (st_weighted s) = None /\
  wdata_ok {| wd_weights := wnorm ws; wd_thr := t |} /\
  s' = set_weighted s (kset (a, r) {| wd_weights := wnorm ws; wd_thr := t |} (st_weighted s)).
Proof.
  unfold w_install. intros H.
  destruct (has_auth au a) eqn:Ha; cbn [guard bind] in H; [|discriminate].
  destruct (in_u32 t && forallb (fun kv => in_u32 (snd kv)) ws) eqn:Hg; cbn [guard bind] in H; [|discriminate].
  destruct (kget (a, r) (st_weighted s)) eqn:Hk; [discriminate|].
  apply andb_prop in Hg as [Ht Hws]. pose proof (wnorm_vals ws Hws) as Hv.
  rewrite (total_weight_spec _ Hv) in H.
  destruct (wtotal (wnorm ws) <=? MAXU32) eqn:E5; cbn [of_option bind] in H; [|discriminate].
  destruct ((t =? 0) || (wtotal (wnorm ws) <? t)) eqn:Hc; [discriminate|].
  apply orb_false_elim in Hc as [E3 E4]. inversion H.
  repeat split; cbn [wd_thr wd_weights]; auto using wnorm_keys; unfold in_u32 in Ht; lia.
Qed.

Lemma w_set_threshold_ok s au a r t s' :
  (forall d, kget (a, r) (st_weighted s) = Some d -> wdata_ok d) ->
  w_set_threshold s au a r t = Ok s' ->
  exists d, has_auth au a = true /\ kget (a, r) (st_weighted s) = Some d /\
  wdata_ok {| wd_weights := wd_weights d; wd_thr := t |} /\
  s' = set_weighted s (kset (a, r) {| wd_weights := wd_weights d; wd_thr := t |} (st_weighted s)).
Proof.
  unfold w_set_threshold. intros Hinv H.
  destruct (has_auth au a) eqn:Ha; cbn [guard bind] in H; [|discriminate].
  destruct (in_u32 t) eqn:Ht; cbn [guard bind] in H; [|discriminate].
  destruct (t =? 0) eqn:Ht0; [discriminate|].
  destruct (kget (a, r) (st_weighted s)) as [d|] eqn:Hk; cbn [of_option bind] in H; [|discriminate].
  destruct (Hinv _ eq_refl) as (Hkk & Hv & Hthr & Hm).
  rewrite (total_weight_spec _ Hv) in H.
  destruct (wtotal (wd_weights d) <=? MAXU32) eqn:E5; cbn [of_option bind] in H; [|discriminate].
  destruct (wtotal (wd_weights d) <? t) eqn:Hc; [discriminate|]. inversion H.
  exists d. repeat split; cbn [wd_thr wd_weights]; auto; unfold in_u32 in Ht; lia.
Qed.

Lemma w_set_weight_ok s au a r sg w s' :
  (forall d, kget (a, r) (st_weighted s) = Some d -> wdata_ok d) ->
  w_set_weight s au a r sg w = Ok s' ->
  exists d, has_auth au a = true /\ kget (a, r) (st_weighted s) = Some d /\
  wdata_ok {| wd_weights := alist_set sg w (wd_weights d); wd_thr := wd_thr d |} /\
  s' = set_weighted s (kset (a, r) {| wd_weights := alist_set sg w (wd_weights d); wd_thr := wd_thr d |} (st_weighted s)).
Proof.
  unfold w_set_weight. intros Hinv H.
  destruct (has_auth au a) eqn:Ha; cbn [guard bind] in H; [|discriminate].
  destruct (in_u32 w) eqn:Hw0; cbn [guard bind] in H; [|discriminate].
  destruct (kget (a, r) (st_weighted s)) as [d|] eqn:Hk; cbn [of_option bind] in H; [|discriminate].
  destruct (Hinv _ eq_refl) as (Hkk & Hv & Hthr & Hm).
  assert (Hw : 0 <= w <= MAXU32) by (unfold in_u32 in Hw0; lia).
  pose proof (alist_set_vals sg w _ Hw Hv) as Hv'.
  cbn zeta in H. rewrite (total_weight_spec _ Hv') in H.
  destruct (wtotal (alist_set sg w (wd_weights d)) <=? MAXU32) eqn:E5; cbn [of_option bind] in H; [|discriminate].
  destruct (wtotal (alist_set sg w (wd_weights d)) <? wd_thr d) eqn:Hc; [discriminate|]. inversion H.
  exists d. repeat split; cbn [wd_thr wd_weights]; auto using alist_set_keys; lia.
Qed.

Lemma w_uninstall_ok s au a r s' :
  w_uninstall s au a r = Ok s' ->
  has_auth au a = true /\ s' = set_weighted s (kremove (a, r) (st_weighted s)).
Proof. unfold w_uninstall. intros H. break_ok H. apply guard_ok in E. inversion H. auto. Qed.

(* can_enforce / enforce of the weighted policy in terms of the plain sum *)
Lemma w_can_enforce_spec s a r sgs :
  (forall d, kget (a, r) (st_weighted s) = Some d -> wvals_ok (wd_weights d)) ->
  w_can_enforce s a r sgs =
  match kget (a, r) (st_weighted s) with
  | None => Ok false
  | Some d => let w := wsum (wd_weights d) sgs in if w <=? MAXU32 then Ok (wd_thr d <=? w) else Fail
  end.
Proof.
  intros Hinv. unfold w_can_enforce. destruct (kget (a, r) (st_weighted s)) as [d|] eqn:E; [|reflexivity].
  rewrite (calc_weight_spec _ sgs (Hinv _ eq_refl)). cbn zeta.
  destruct (wsum (wd_weights d) sgs <=? MAXU32); reflexivity.
Qed.
Lemma w_enforce_one_spec s au a r sgs ctx :
  (forall d, kget (a, r) (st_weighted s) = Some d -> wvals_ok (wd_weights d)) ->
  w_enforce_one s au a r sgs ctx =
  if has_auth au a &&
     match kget (a, r) (st_weighted s) with
     | None => false
     | Some d => let w := wsum (wd_weights d) sgs in (w <=? MAXU32) && (wd_thr d <=? w)
     end
  then Ok (s, EvEnforced PW a r (len sgs) 0 0) else Fail.
Proof.
  intros Hinv. unfold w_enforce_one. destruct (has_auth au a); cbn [guard bind andb]; [|reflexivity].
  destruct (kget (a, r) (st_weighted s)) as [d|] eqn:E; cbn [of_option bind]; [|reflexivity].
  rewrite (calc_weight_spec _ sgs (Hinv _ eq_refl)). cbn zeta.
  destruct (wsum (wd_weights d) sgs <=? MAXU32); cbn [of_option bind andb]; [|reflexivity].
  destruct (wd_thr d <=? wsum (wd_weights d) sgs); reflexivity.
Qed.
