(* C16: corollaries over all call sequences that combine the state-level gate theorems with
   the history invariant. *)
From SC Require Import Lib.Prelude Lib.Int Lib.Host Model.Gates Model.GatesSpec Proofs.Gates Proofs.C16Final.

(* Over every call sequence from deployment: a gated entry point of an allow-listed token succeeds
   only if, for every party it must vet, the LAST successful list change of that party was an
   allow_user (for the example: or the party is the admin allowed by the constructor and never
   disallowed since).  Dually for block lists: the last successful change was not a block_user. *)
Lemma allow_by_history : forall c cs cl,
  wf_cfg c = true -> is_allow (knd c) = true ->
  let hs := hist_run c (hist0 c, init c) cs in
  snd (step c (snd hs) cl) = true ->
  forall a, In a (vetted (fst cl)) -> h_listed (fst hs) a = true.
Proof.
  intros c cs cl Hw Hk hs Hok a Hin. subst hs.
  destruct (hist_run_inv c cs _ _ (init_inv c Hw) (init_rel c)) as [(_ & _ & Rl & _) _].
  rewrite Rl. unfold listed. destruct (is_block (knd c)) eqn:Hb; [destruct (knd c); discriminate|].
  revert Hok. unfold step, step_gen.
  fold (exec c (snd (hist_run c (hist0 c, init c) cs)) cl).
  destruct (exec c (snd (hist_run c (hist0 c, init c) cs)) cl) as [s'|] eqn:He; cbn [snd]; [|discriminate].
  intros _. eapply allow_sound; eauto.
Qed.

Lemma block_by_history : forall c cs cl,
  wf_cfg c = true -> is_block (knd c) = true ->
  let hs := hist_run c (hist0 c, init c) cs in
  snd (step c (snd hs) cl) = true ->
  forall a, In a (vetted (fst cl)) -> h_listed (fst hs) a = false.
Proof.
  intros c cs cl Hw Hk hs Hok a Hin. subst hs.
  destruct (hist_run_inv c cs _ _ (init_inv c Hw) (init_rel c)) as [(_ & _ & Rl & _) _].
  rewrite Rl. unfold listed. rewrite Hk.
  revert Hok. unfold step, step_gen.
  fold (exec c (snd (hist_run c (hist0 c, init c) cs)) cl).
  destruct (exec c (snd (hist_run c (hist0 c, init c) cs)) cl) as [s'|] eqn:He; cbn [snd]; [|discriminate].
  intros _. eapply block_sound; eauto.
Qed.

(* Over every call sequence from deployment of the pausable example: a pausable entry point
   (library level: the entry point under #[when_not_paused]) succeeds only if the last successful pause/unpause was an unpause (or there was none). *)
Lemma paused_by_history : forall c cs cl,
  wf_cfg c = true -> is_paus (knd c) = true -> pausable_op (fst cl) = true ->
  let hs := hist_run c (hist0 c, init c) cs in
  h_paused (fst hs) = true ->
  step c (snd hs) cl = (snd hs, false).
Proof.
  intros c cs cl Hw Hk Hp hs Hh. subst hs.
  destruct (hist_run_inv c cs _ _ (init_inv c Hw) (init_rel c)) as [(_ & Rp & _ & _) _].
  apply paused_blocks_step; auto. rewrite <- Rp. exact Hh.
Qed.

(* library level (pausable::pause / unpause driven directly, entry point under #[when_not_paused]):
   pause; any number of attempts on pausable entry points; unpause = identity on the state *)
Lemma pause_roundtrip_lib : forall c s cs au1 au2 x y,
  knd c = KPausLib -> paused s = false ->
  Forall (fun cl => pausable_op (fst cl) = true) cs ->
  run c s ((Pause x, au1) :: cs ++ [(Unpause y, au2)]) = s /\
  (forall cl, In cl cs -> step c (set_paused s true) cl = (set_paused s true, false)).
Proof.
  intros c s cs au1 au2 x y Hk Hp HF.
  assert (Hk' : is_paus (knd c) = true) by (rewrite Hk; reflexivity). split.
  - change ((Pause x, au1) :: cs ++ [(Unpause y, au2)]) with ([(Pause x, au1)] ++ cs ++ [(Unpause y, au2)]).
    rewrite !run_app.
    assert (E1 : run c s [(Pause x, au1)] = set_paused s true).
    { unfold run, run_gen, step_gen, exec_gen, exec_kind. cbn [fold_left fst snd]. rewrite Hk.
      cbn [exec_paus_lib]. unfold pause, when_not_paused, guard. rewrite Hp. reflexivity. }
    rewrite E1, (run_paused_noop c (set_paused s true) cs Hk' eq_refl HF).
    unfold run, run_gen, step_gen, exec_gen, exec_kind. cbn [fold_left fst snd]. rewrite Hk.
    cbn [exec_paus_lib]. unfold unpause, when_paused, guard. cbn.
    destruct s; cbn in *; subst; reflexivity.
  - intros cl Hin. apply paused_blocks_step; auto. rewrite Forall_forall in HF. apply HF; exact Hin.
Qed.

(* manager role of the allow/block-list examples: a list call succeeds only if the operator holds
   the role at that moment and has authorised - a revoked manager is refused *)
Lemma list_call_needs_manager : forall c s u operator au s',
  knd c = KAllowEx \/ knd c = KBlockEx ->
  (exec c s (AllowUser u operator, au) = Ok s' \/ exec c s (DisallowUser u operator, au) = Ok s' \/
   exec c s (BlockUser u operator, au) = Ok s' \/ exec c s (UnblockUser u operator, au) = Ok s') ->
  mgr s operator = true /\ has_auth au operator = true.
Proof.
  intros c s u operator au s' Hk He.
  unfold exec, exec_gen, exec_kind in He. cbn [fst snd] in He.
  destruct Hk as [Hk|Hk]; rewrite Hk in He; cbn [exec_allow_ex exec_block_ex] in He;
    destruct He as [He|[He|[He|He]]]; try discriminate He;
    unfold only_manager, require_auth, guard in He;
    destruct (mgr s operator); cbn [bind] in He; try discriminate He;
    destruct (has_auth au operator); cbn [bind] in He; try discriminate He; auto.
Qed.
