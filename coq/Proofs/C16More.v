(* C16: corollaries over all call sequences that combine the state-level gate theorems with
   the history invariant. *)
From SC Require Import Lib.Prelude Lib.Int Lib.Host Model.Gates Model.GatesSpec Proofs.Gates Proofs.C16Final.

(* Over every call sequence from deployment: a gated entry point of an allow-listed token succeeds
   only if, for every party it must vet, the LAST successful list change of that party was an
   allow_user (for the example: or the party is the admin allowed by the constructor and never
   disallowed since).  Dually for block lists: the last successful change was not a block_user. *)
Lemma allow_by_history : forall c cs cl,
  wf_cfg c = true -> is_allow (knd c) = true ->
  let hs := hist_run c (hist0 c, init c) cs in
  snd (step c (snd hs) cl) = true ->
  forall a, In a (vetted (fst cl)) -> h_listed (fst hs) a = true.
Proof.
  intros c cs cl Hw Hk hs Hok a Hin. subst hs.
  destruct (hist_run_inv c cs _ _ (init_inv c Hw) (init_rel c)) as [(_ & _ & Rl & _) _].
  rewrite Rl. unfold listed. destruct (is_block (knd c)) eqn:Hb; [destruct (knd c); discriminate|].
  revert Hok. unfold step, step_gen.
  fold (exec c (snd (hist_run c (hist0 c, init c) cs)) cl).
  destruct (exec c (snd (hist_run c (hist0 c, init c) cs)) cl) as [s'|] eqn:He; cbn [snd]; [|discriminate].
  intros _. eapply allow_sound; eauto.
Qed.

Lemma block_by_history : forall c cs cl,
  wf_cfg c = true -> is_block (knd c) = true ->
  let hs := hist_run c (hist0 c, init c) cs in
  snd (step c (snd hs) cl) = true ->
  forall a, In a (vetted (fst cl)) -> h_listed (fst hs) a = false.
Proof.
  intros c cs cl Hw Hk hs Hok a Hin. subst hs.
  destruct (hist_run_inv c cs _ _ (init_inv c Hw) (init_rel c)) as [(_ & _ & Rl & _) _].
  rewrite Rl. unfold listed. rewrite Hk.
  revert Hok. unfold step, step_gen.
  fold (exec c (snd (hist_run c (hist0 c, init c) cs)) cl).
  destruct (exec c (snd (hist_run c (hist0 c, init c) cs)) cl) as [s'|] eqn:He; cbn [snd]; [|discriminate].
  intros _. eapply block_sound; eauto.
Qed.

(* Over every call sequence from deployment of the pausable example: a pausable entry point
   (library level: the entry point under #[when_not_paused]) succeeds only if the last successful pause/unpause was an unpause (or there was none). *)
Lemma paused_by_history : forall c cs cl,
  wf_cfg c = true -> is_paus (knd c) = true -> pausable_op (fst cl) = true ->
  let hs := hist_run c (hist0 c, init c) cs in
  h_paused (fst hs) = true ->
  step c (snd hs) cl = (snd hs, false).
Proof.
  intros c cs cl Hw Hk Hp hs Hh. subst hs.
  destruct (hist_run_inv c cs _ _ (init_inv c Hw) (init_rel c)) as [(_ & Rp & _ & _) _].
  apply paused_blocks_step; auto. rewrite <- Rp. exact Hh.
Qed.
