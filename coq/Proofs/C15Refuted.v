(* C15 / F4: the code before commit 66a009a accepted an identity without any claim as soon as
   a required topic had an empty trusted-issuer list; the fixed code rejects it. *)
From SC Require Import Lib.Prelude Lib.Int Lib.Host Model.ClaimIssuer Model.Identity.

Definition cfg0 : cfg :=
  {| c_net := []; c_xdr := fun _ => []; c_sigok := fun _ _ _ _ _ => false; c_other := fun _ _ _ _ _ _ => false;
     c_max_topics := 15; c_max_issuers := 50; c_max_keys := 50; c_max_regs := 20; c_max_countries := 15 |}.

(* contracts: registry 0, identity registry 1, identity contract 2; account 3 *)
Definition f4_history : list call :=
  [AddTopic 0%N 1; AddIdentity 1%N 3%N 2%N 1; SetCti 0%N; SetIrs 1%N].
Definition f4_world : world := run cfg0 (init 0 [0%N] [1%N] [2%N] []) f4_history.

Lemma prefix_refuted :
  exists (c : cfg) (ks : list call) (a : addr),
    let w := run c (init 0 [0%N] [1%N] [2%N] []) ks in
    (* topic 1 is required and nobody is trusted for it, the identity holds no claim at all *)
    (do s <- the_cti w 0%N; get_claim_topics_and_issuers s) = Ok [(1, [])] /\
    (do s <- the_ident w 2%N; Ok (id_claims s)) = Ok [] /\
    verify_identity_prefix c w a = Ok tt /\
    verify_identity c w a = Fail.
Proof. exists cfg0, f4_history, 3%N. vm_compute. repeat split. Qed.
