(* C03 - the monitor of Run/C03.v agrees with the model on every reachable state:
   rule precedence by (type-specific before Default, newest id first) is what the
   newest-first scan of the stored id lists computes, and [check] accepts every model run. *)
From SC Require Import Lib.Prelude Lib.Int Lib.Host Model.SmartAccount Proofs.SmartAccount Proofs.SmartAccountInv Proofs.C03Asked Run.C03.
From Coq Require Import Sorted.

(* ------------------------------------------------------------------------- *)
(* the monitor's vocabulary = the proof-level vocabulary                      *)
(* ------------------------------------------------------------------------- *)
Lemma counted_auth_of r supplied : counted r supplied = auth_of r supplied.
Proof. reflexivity. Qed.

Lemma pol_status_pstatus M ps c au r : pol_status M ps c au r = pstatus (oracles_of M) ps c au r.
Proof.
  induction ps as [|p rest IH]; [reflexivity|]. cbn [pol_status pstatus].
  change (o_can (oracles_of M) p c au r) with (can_answer M p c au r).
  destruct (can_answer M p c au r) as [[|]|]; auto.
Qed.

Lemma rule_status_rstatus M c supplied r : rule_status M c supplied r = rstatus (oracles_of M) c supplied r.
Proof.
  unfold rule_status, rstatus. destruct (r_policies r) as [|p ps] eqn:E; cbn [isnil]; [reflexivity|].
  rewrite pol_status_pstatus. reflexivity.
Qed.

Lemma unexpired_live now r : unexpired now r = live now r.
Proof.
  unfold unexpired, live, expired. destruct (r_valid r) as [u|]; [|reflexivity].
  destruct (u <? now) eqn:E; cbn [negb]; [apply Z.leb_gt|apply Z.leb_le]; lia.
Qed.

Lemma is_enforce_is_enf e : is_enforce e = is_enf e.
Proof. reflexivity. Qed.

Lemma sig_good_verified M auths x : sig_good auths x = true <-> verified (oracles_of M) auths x.
Proof.
  destruct x as [[a|v k] d]; cbn; [tauto|].
  destruct d; cbn; split; congruence.
Qed.

(* ------------------------------------------------------------------------- *)
(* generic sorted-list facts                                                  *)
(* ------------------------------------------------------------------------- *)
Lemma SSorted_app {A} (R : A -> A -> Prop) l1 l2 :
  StronglySorted R l1 -> StronglySorted R l2 -> (forall x y, In x l1 -> In y l2 -> R x y) ->
  StronglySorted R (l1 ++ l2).
Proof.
  induction 1 as [|x l S IH F]; intros S2 H; [exact S2|]. cbn [app]. constructor.
  - apply IH; [exact S2|]. intros a b Ha Hb. apply H; [right; exact Ha|exact Hb].
  - apply Forall_app. split; [exact F|]. rewrite Forall_forall. intros y Hy. apply H; [left; reflexivity|exact Hy].
Qed.

Lemma SSorted_rev {A} (R : A -> A -> Prop) l :
  StronglySorted R l -> StronglySorted (fun x y => R y x) (rev l).
Proof.
  induction 1 as [|x l S IH F]; [constructor|]. cbn [rev]. apply SSorted_app; [exact IH|constructor; constructor|].
  intros a b Ha [<-|[]]. rewrite Forall_forall in F. apply F. apply in_rev. exact Ha.
Qed.

Lemma SSorted_map_inv {A B} (f : A -> B) (R : B -> B -> Prop) l :
  StronglySorted R (map f l) -> StronglySorted (fun x y => R (f x) (f y)) l.
Proof.
  induction l as [|x l IH]; intros S; [constructor|]. cbn [map] in S. inversion S as [|? ? S' F]; subst.
  constructor; [auto|]. rewrite Forall_forall in *. intros y Hy. apply F. apply in_map. exact Hy.
Qed.

Lemma SSorted_impl {A} (R R' : A -> A -> Prop) l :
  (forall x y, In x l -> In y l -> R x y -> R' x y) -> StronglySorted R l -> StronglySorted R' l.
Proof.
  intros H S. induction S as [|x l S IH F]; [constructor|]. constructor.
  - apply IH. intros a b Ha Hb. apply H; right; assumption.
  - rewrite Forall_forall in *. intros y Hy. apply H; [left; reflexivity|right; exact Hy|apply F; exact Hy].
Qed.

Lemma SSorted_filter' {A} (R : A -> A -> Prop) (f : A -> bool) l :
  StronglySorted R l -> StronglySorted R (filter f l).
Proof.
  induction 1 as [|x l S IH F]; cbn [filter]; [constructor|].
  destruct (f x); [|exact IH]. constructor; [exact IH|].
  rewrite Forall_forall in *. intros z Hz. apply filter_In in Hz. apply F. tauto.
Qed.

(* ------------------------------------------------------------------------- *)
(* [before] is a strict order on rules with distinct ids                      *)
(* ------------------------------------------------------------------------- *)
Lemma before_irrefl x : before x x = false.
Proof. unfold before. destruct (is_default x); apply Z.ltb_irrefl. Qed.

Lemma before_asym x y : before x y = true -> before y x = false.
Proof.
  unfold before. destruct (is_default x), (is_default y); try congruence; intros H; apply Z.ltb_lt in H; apply Z.ltb_ge; lia.
Qed.

Lemma before_trans x y z : before x y = true -> before y z = true -> before x z = true.
Proof.
  unfold before. destruct (is_default x), (is_default y), (is_default z); try congruence;
    rewrite !Z.ltb_lt; lia.
Qed.

Lemma before_total x y : r_id x <> r_id y -> before x y = true \/ before y x = true.
Proof.
  unfold before. destruct (is_default x), (is_default y); auto; rewrite !Z.ltb_lt; lia.
Qed.

(* [best] returns the maximum *)
Lemma best_none l : best l = None <-> l = [].
Proof.
  destruct l as [|x r]; [tauto|]. cbn [best]. destruct (best r); split; discriminate.
Qed.

Lemma best_spec l b :
  (forall x y, In x l -> In y l -> r_id x = r_id y -> x = y) ->
  best l = Some b -> In b l /\ forall x, In x l -> x <> b -> before b x = true.
Proof.
  revert b. induction l as [|r rest IH]; intros b Hinj H; [discriminate|]. cbn [best] in H.
  assert (Hinj' : forall x y, In x rest -> In y rest -> r_id x = r_id y -> x = y)
    by (intros x y Hx Hy; apply Hinj; right; assumption).
  destruct (best rest) as [b'|] eqn:Eb.
  - destruct (IH b' Hinj' eq_refl) as [Hb' Hmax].
    destruct (before b' r) eqn:Ebr; inversion H; subst b.
    + split; [right; exact Hb'|]. intros x [<-|Hx] Hn; [exact Ebr|auto].
    + split; [left; reflexivity|]. intros x [<-|Hx] Hn; [congruence|].
      (* r is not beaten by b' and has a different id, so r beats b' *)
      assert (Hrb : r = b' \/ before r b' = true).
      { destruct (Z.eq_dec (r_id r) (r_id b')) as [E|E].
        - left. apply Hinj; [left; reflexivity|right; exact Hb'|exact E].
        - destruct (before_total r b' E) as [Hb|Hb]; [auto|congruence]. }
      destruct Hrb as [<-|Hrb]; [apply Hmax; assumption|].
      destruct (rule_eqb x b') eqn:Ex.
      * apply rule_eqb_eq in Ex. subst x. exact Hrb.
      * apply (before_trans r b' x Hrb). apply Hmax; [exact Hx|].
        intros ->. rewrite (proj2 (rule_eqb_eq b' b') eq_refl) in Ex. discriminate.
  - inversion H; subst b. apply best_none in Eb. subst rest.
    split; [left; reflexivity|]. intros x [<-|[]] Hn. congruence.
Qed.

(* the head of a [before]-sorted scan is the maximum among the rules not passed over *)
Lemma first_decisive_max O c supplied L h :
  StronglySorted (fun x y => before x y = true) L ->
  first_decisive O c supplied L = Some h ->
  In h L /\ rstatus O c supplied h <> RUnsat /\
  forall x, In x L -> rstatus O c supplied x <> RUnsat -> x <> h -> before h x = true.
Proof.
  intros S H. destruct (first_decisive_split _ _ _ _ _ H) as [pre [post [-> [Hpre Hh]]]].
  split; [apply in_or_app; right; left; reflexivity|]. split; [exact Hh|].
  intros x Hx Hs Hn. apply in_app_or in Hx. destruct Hx as [Hx|[->|Hx]].
  - exfalso. apply Hs. apply Hpre. exact Hx.
  - congruence.
  - clear -S Hx. induction pre as [|p pre IH]; cbn [app] in S.
    + inversion S as [|? ? _ F]; subst. rewrite Forall_forall in F. apply F. exact Hx.
    + inversion S; subst. auto.
Qed.

(* ------------------------------------------------------------------------- *)
(* the scan order of a well-formed table is sorted by [before]                *)
(* ------------------------------------------------------------------------- *)
Lemma typed_rev_sorted a now t :
  wf a -> StronglySorted (fun x y => r_id y < r_id x) (rev (filter (live now) (typed_rules a t))).
Proof.
  intros W. apply SSorted_rev. apply SSorted_filter'. unfold typed_rules. apply SSorted_filter'.
  apply (SSorted_map_inv r_id Z.lt). apply W.
Qed.

Lemma valid_list_sorted a now t :
  wf a -> t <> TDefault -> StronglySorted (fun x y => before x y = true) (valid_list a now t).
Proof.
  intros W Ht. unfold valid_list.
  assert (Htyped : forall t' x, In x (rev (filter (live now) (typed_rules a t'))) -> r_type x = t').
  { intros t' x Hx. apply in_rev in Hx. apply filter_In in Hx. destruct Hx as [Hx _].
    unfold typed_rules in Hx. apply filter_In in Hx. apply ctype_eqb_eq. tauto. }
  assert (Hnd : forall x, r_type x = t -> is_default x = false).
  { intros x E. unfold is_default. rewrite E. destruct (ctype_eqb t TDefault) eqn:E2; [|reflexivity].
    apply ctype_eqb_eq in E2. contradiction. }
  assert (Hd : forall x, r_type x = TDefault -> is_default x = true).
  { intros x E. unfold is_default. rewrite E. reflexivity. }
  apply SSorted_app.
  - eapply SSorted_impl; [|apply typed_rev_sorted; exact W].
    intros x y Hx Hy H. unfold before. rewrite (Hnd x (Htyped _ _ Hx)), (Hnd y (Htyped _ _ Hy)). apply Z.ltb_lt. exact H.
  - eapply SSorted_impl; [|apply typed_rev_sorted; exact W].
    intros x y Hx Hy H. unfold before. rewrite (Hd x (Htyped _ _ Hx)), (Hd y (Htyped _ _ Hy)). apply Z.ltb_lt. exact H.
  - intros x y Hx Hy. unfold before. rewrite (Hnd x (Htyped _ _ Hx)), (Hd y (Htyped _ _ Hy)). reflexivity.
Qed.

Lemma ctx_type_not_default c : ctx_type c <> TDefault.
Proof. destruct c; discriminate. Qed.

(* the monitor's candidates = the rules of the scan that are not passed over *)
Lemma candidate_iff a M now supplied c r :
  In r (filter (fun r => type_matches c r && unexpired now r && negb (is_unsat (rule_status M c supplied r))) (a_rules a))
  <-> In r (valid_list a now (ctx_type c)) /\ rstatus (oracles_of M) c supplied r <> RUnsat.
Proof.
  rewrite filter_In, In_valid_list, !andb_true_iff, rule_status_rstatus, unexpired_live.
  unfold type_matches, is_default, live. rewrite orb_true_iff, !ctype_eqb_eq.
  destruct (expired now r); cbn [negb]; destruct (rstatus (oracles_of M) c supplied r); cbn [is_unsat negb];
    intuition congruence.
Qed.

Theorem deciding_is_first_decisive a M now supplied c :
  wf a ->
  deciding (a_rules a) M now supplied c
  = first_decisive (oracles_of M) c supplied (valid_list a now (ctx_type c)).
Proof.
  intros W. unfold deciding.
  set (S := filter _ (a_rules a)).
  assert (Hinj : forall x y, In x S -> In y S -> r_id x = r_id y -> x = y).
  { intros x y Hx Hy. apply (wf_id_inj a x y W); [apply filter_In in Hx|apply filter_In in Hy]; tauto. }
  pose proof (valid_list_sorted a now (ctx_type c) W (ctx_type_not_default c)) as Sorted.
  destruct (first_decisive (oracles_of M) c supplied (valid_list a now (ctx_type c))) as [h|] eqn:Eh.
  - destruct (first_decisive_max _ _ _ _ _ Sorted Eh) as [Hin [Hns Hmax]].
    assert (HhS : In h S) by (apply candidate_iff; auto).
    destruct (best S) as [b|] eqn:Eb; [|apply best_none in Eb; rewrite Eb in HhS; destruct HhS].
    destruct (best_spec S b Hinj Eb) as [HbS Hbmax].
    destruct (rule_eqb b h) eqn:E; [apply rule_eqb_eq in E; congruence|].
    assert (Hne : b <> h) by (intros ->; rewrite (proj2 (rule_eqb_eq h h) eq_refl) in E; discriminate).
    apply candidate_iff in HbS. destruct HbS as [HbL Hbs].
    pose proof (Hmax b HbL Hbs Hne) as H1.
    pose proof (Hbmax h HhS (fun e => Hne (eq_sym e))) as H2.
    rewrite (before_asym _ _ H1) in H2. discriminate.
  - destruct (best S) as [b|] eqn:Eb; [|reflexivity].
    exfalso. destruct (best_spec S b Hinj Eb) as [HbS _]. apply candidate_iff in HbS. destruct HbS as [HbL Hbs].
    apply Hbs. apply (proj1 (first_decisive_none _ _ _ _) Eh). exact HbL.
Qed.

(* ------------------------------------------------------------------------- *)
(* [expectation] predicts do_check_auth on a well-formed table                *)
(* ------------------------------------------------------------------------- *)
Definition vs_of (supplied : list signer) (crs : list (ctx * rule)) : list (rule * ctx * list signer) :=
  map (fun cr => (snd cr, fst cr, auth_of (snd cr) supplied)) crs.

Lemma enf_events_vs_of supplied crs :
  flat_map enf_events (vs_of supplied crs) = flat_map (enforce_events supplied) crs.
Proof.
  induction crs as [|[c r] rest IH]; [reflexivity|]. unfold vs_of in *. cbn [map flat_map fst snd].
  rewrite IH. reflexivity.
Qed.

Lemma accepted_seq_monitor M evs : forall pre,
  accepted_seq (oracles_of M) pre evs = enforce_seq_ok M pre evs.
Proof.
  induction evs as [|e rest IH]; intros pre; [reflexivity|]. cbn [accepted_seq enforce_seq_ok].
  destruct e; try reflexivity. rewrite IH. reflexivity.
Qed.

Lemma all_some_spec {A} (l : list (option A)) :
  match all_some l with
  | Some xs => l = map Some xs
  | None => In None l
  end.
Proof.
  induction l as [|[x|] r IH]; cbn [all_some]; [reflexivity| |left; reflexivity].
  destruct (all_some r); [cbn [map]; congruence|right; exact IH].
Qed.

Lemma combine_map_fst {A B} (l1 : list A) (l2 : list B) :
  length l1 = length l2 -> map fst (combine l1 l2) = l1.
Proof.
  revert l2. induction l1 as [|x r IH]; destruct l2 as [|y r2]; cbn; intros H; try discriminate; [reflexivity|].
  f_equal. apply IH. lia.
Qed.

(* the rule deciding a context, seen through get_validated_context *)
Lemma validated_deciding a M now supplied c v :
  wf a -> validated (oracles_of M) a now supplied c v ->
  deciding (a_rules a) M now supplied c = Some (fst (fst v)) /\
  rstatus (oracles_of M) c supplied (fst (fst v)) = RSat /\
  v = (fst (fst v), c, auth_of (fst (fst v)) supplied).
Proof.
  intros W. destruct v as [[r c'] au]. cbn. intros [-> [-> [L [EL [Ef Es]]]]].
  rewrite (get_valid_context_rules_wf a now _ W) in EL. inversion EL; subst L.
  rewrite (deciding_is_first_decisive a M now supplied c W). auto.
Qed.

Lemma deciding_validated a M now supplied c r :
  wf a -> deciding (a_rules a) M now supplied c = Some r -> rstatus (oracles_of M) c supplied r = RSat ->
  validated (oracles_of M) a now supplied c (r, c, auth_of r supplied).
Proof.
  intros W Hd Hs. cbn. split; [reflexivity|]. split; [reflexivity|].
  exists (valid_list a now (ctx_type c)). split; [apply get_valid_context_rules_wf; exact W|].
  rewrite <- (deciding_is_first_decisive a M now supplied c W). auto.
Qed.

Lemma Forall2_deciding a M now supplied cs vs :
  wf a -> Forall2 (validated (oracles_of M) a now supplied) cs vs ->
  map (deciding (a_rules a) M now supplied) cs = map Some (map (fun v => fst (fst v)) vs) /\
  vs = vs_of supplied (combine cs (map (fun v => fst (fst v)) vs)) /\
  forall cr, In cr (combine cs (map (fun v => fst (fst v)) vs)) ->
             rstatus (oracles_of M) (fst cr) supplied (snd cr) = RSat.
Proof.
  intros W H. induction H as [|c v cs vs Hv Hf IH]; [split; [reflexivity|split; [reflexivity|intros cr []]]|].
  destruct IH as [I1 [I2 I3]]. destruct (validated_deciding a M now supplied c v W Hv) as [D1 [D2 D3]].
  cbn [map combine]. split; [rewrite D1, I1; reflexivity|]. split.
  - cbn [vs_of map fst snd]. unfold vs_of in I2. rewrite <- I2. rewrite <- D3. reflexivity.
  - intros cr [<-|Hcr]; [exact D2|auto].
Qed.

Theorem expectation_correct a M now auths sigs cs :
  wf a ->
  match expectation (a_rules a) M now auths sigs cs with
  | XFail => do_check_auth (oracles_of M) a now auths sigs cs = Fail
  | XSilent => do_check_auth (oracles_of M) a now auths sigs cs = Fail
  | XOk enf => exists l, do_check_auth (oracles_of M) a now auths sigs cs = Ok l /\ filter is_enforce l = enf
  end.
Proof.
  intros W. unfold expectation.
  destruct (forallb (sig_good auths) sigs) eqn:Es; cbn [negb].
  2:{ (* a signature does not verify *)
      destruct (do_check_auth (oracles_of M) a now auths sigs cs) as [l|] eqn:E; [|reflexivity].
      exfalso. destruct (do_check_auth_ok _ _ _ _ _ _ _ E) as [Hv _].
      assert (forallb (sig_good auths) sigs = true); [|congruence].
      apply forallb_forall. intros x Hx. apply (sig_good_verified M). auto. }
  assert (Hsig : forall x, In x sigs -> verified (oracles_of M) auths x).
  { intros x Hx. apply (sig_good_verified M). rewrite forallb_forall in Es. auto. }
  set (supplied := map fst sigs).
  pose proof (all_some_spec (map (deciding (a_rules a) M now supplied) cs)) as Ha.
  destruct (all_some (map (deciding (a_rules a) M now supplied) cs)) as [rs|].
  2:{ (* some context has no deciding rule *)
      destruct (do_check_auth (oracles_of M) a now auths sigs cs) as [l|] eqn:E; [|reflexivity].
      exfalso. destruct (do_check_auth_ok _ _ _ _ _ _ _ E) as [_ [vs [Hf _]]].
      destruct (Forall2_deciding a M now supplied cs vs W Hf) as [D _]. fold supplied in Ha. rewrite D in Ha.
      apply in_map_iff in Ha. destruct Ha as [x [Hx _]]. discriminate. }
  assert (Hlen : length cs = length rs).
  { apply (f_equal (@length _)) in Ha. rewrite !map_length in Ha. exact Ha. }
  destruct (existsb _ (combine cs rs)) eqn:Et.
  { (* a deciding rule's hook traps: the check cannot succeed *)
    destruct (do_check_auth (oracles_of M) a now auths sigs cs) as [l|] eqn:E; [|reflexivity].
    exfalso. destruct (do_check_auth_ok _ _ _ _ _ _ _ E) as [_ [vs [Hf _]]].
    destruct (Forall2_deciding a M now supplied cs vs W Hf) as [D [_ Hsat]]. fold supplied in Ha. rewrite D in Ha.
    assert (Hrs : rs = map (fun v => fst (fst v)) vs).
    { clear -Ha. revert Ha. generalize (map (fun v : rule * ctx * list signer => fst (fst v)) vs). intros l.
      revert l. induction rs as [|r rs IH]; intros [|x l] H; cbn [map] in H; try discriminate; [reflexivity|].
      inversion H. f_equal. auto. }
    subst rs. apply existsb_exists in Et. destruct Et as [cr [Hcr Ht]].
    rewrite rule_status_rstatus, (Hsat cr Hcr) in Ht. discriminate. }
  (* every deciding rule is satisfied *)
  assert (Hsat : forall cr, In cr (combine cs rs) -> rstatus (oracles_of M) (fst cr) supplied (snd cr) = RSat).
  { intros [c r] Hcr. cbn [fst snd].
    assert (Hd : deciding (a_rules a) M now supplied c = Some r).
    { clear -Ha Hcr. revert rs Ha Hcr. induction cs as [|c0 cs IH]; intros [|r0 rs] Ha Hcr; try destruct Hcr.
      - cbn [map] in Ha. inversion Ha. inversion H. subst. assumption.
      - cbn [map] in Ha. inversion Ha. eauto. }
    rewrite (deciding_is_first_decisive a M now supplied c W) in Hd.
    destruct (first_decisive_split _ _ _ _ _ Hd) as [_ [_ [_ [_ Hn]]]].
    assert (Hnt : rule_status M c supplied r <> RTrap).
    { intros Ht. apply not_true_iff_false in Et. apply Et.
      apply existsb_exists. exists (c, r). split; [exact Hcr|]. cbn [fst snd]. rewrite Ht. reflexivity. }
    rewrite rule_status_rstatus in Hnt. destruct (rstatus (oracles_of M) c supplied r); congruence. }
  assert (Hval : Forall2 (validated (oracles_of M) a now supplied) cs (vs_of supplied (combine cs rs))).
  { clear Et. revert rs Ha Hlen Hsat. induction cs as [|c cs IH]; intros [|r rs] Ha Hlen Hsat; try discriminate; [constructor|].
    cbn [map] in Ha. inversion Ha as [[Hd Ha']]. cbn [combine vs_of map fst snd]. constructor.
    - apply deciding_validated; [exact W|exact Hd|]. apply (Hsat (c, r)). left. reflexivity.
    - apply IH; [exact Ha'|cbn in Hlen; lia|]. intros cr Hcr. apply Hsat. right. exact Hcr. }
  rewrite <- accepted_seq_monitor, <- enf_events_vs_of.
  destruct (accepted_seq (oracles_of M) [] (flat_map enf_events (vs_of supplied (combine cs rs)))) eqn:Ee.
  - destruct (do_check_auth_complete _ a now auths sigs cs _ Hsig Hval Ee) as [log Hlog].
    exists log. split; [exact Hlog|].
    destruct (do_check_auth_ok _ _ _ _ _ _ _ Hlog) as [_ [vs' [Hf' [_ Hl]]]].
    rewrite (Forall2_validated_fun _ _ _ _ _ _ _ Hf' Hval) in Hl. exact Hl.
  - destruct (do_check_auth (oracles_of M) a now auths sigs cs) as [l|] eqn:E; [|reflexivity].
    exfalso. destruct (do_check_auth_ok _ _ _ _ _ _ _ E) as [_ [vs' [Hf' [He' _]]]].
    rewrite (Forall2_validated_fun _ _ _ _ _ _ _ Hf' Hval) in He'. congruence.
Qed.

(* ------------------------------------------------------------------------- *)
(* the rule-management entry points never call an enforcement hook            *)
(* ------------------------------------------------------------------------- *)
Lemma install_all_no_enf O ps r l : install_all O ps r = Ok l -> no_enf l.
Proof.
  revert l. induction ps as [|[p n] rest IH]; intros l H; cbn [install_all] in H; [inversion H; reflexivity|].
  destruct (o_install O p n r); [|discriminate].
  destruct (install_all O rest r) as [l'|]; [|discriminate]. cbn in H. inversion H; subst.
  unfold no_enf. cbn. apply (IH l' eq_refl).
Qed.

Lemma uninstall_all_no_enf O ps r : no_enf (uninstall_all O ps r).
Proof.
  unfold uninstall_all. induction ps as [|p rest IH]; [reflexivity|]. cbn [flat_map].
  apply no_enf_app; [destruct (o_uninstall O p r); reflexivity|exact IH].
Qed.

Ltac inv_bind H :=
  repeat match type of H with
  | bind ?x _ = Ok _ => let E := fresh "E" in destruct x eqn:E; [cbn [bind] in H|discriminate H]
  | (let '(_, _) := ?p in _) = Ok _ => destruct p
  end.

Lemma run_op_no_enf O c a now op a' ret l : run_op O c a now op = Ok (a', ret, l) -> no_enf l.
Proof.
  intros H. destruct op; cbn [run_op] in H.
  - destruct (add_context_rule O c a now t name valid signers policies) as [[[a1 r1] l1]|] eqn:E; [|discriminate].
    cbn in H. inversion H; subst. unfold add_context_rule in E. inv_bind E. inversion E; subst.
    eapply install_all_no_enf; eauto.
  - destruct (update_context_rule_name a id name) as [[[a1 r1] l1]|] eqn:E; [|discriminate].
    cbn in H. inversion H; subst. unfold update_context_rule_name in E. inv_bind E. inversion E; subst. reflexivity.
  - destruct (update_context_rule_valid_until a now id valid) as [[[a1 r1] l1]|] eqn:E; [|discriminate].
    cbn in H. inversion H; subst. unfold update_context_rule_valid_until in E. inv_bind E. inversion E; subst. reflexivity.
  - destruct (remove_context_rule O a id) as [[a1 l1]|] eqn:E; [|discriminate].
    cbn in H. inversion H; subst. unfold remove_context_rule in E. inv_bind E. inversion E; subst.
    apply uninstall_all_no_enf.
  - destruct (add_signer c a id s) as [[a1 l1]|] eqn:E; [|discriminate].
    cbn in H. inversion H; subst. unfold add_signer in E. inv_bind E. inversion E; subst. reflexivity.
  - destruct (remove_signer c a id s) as [[a1 l1]|] eqn:E; [|discriminate].
    cbn in H. inversion H; subst. unfold remove_signer in E. inv_bind E. inversion E; subst. reflexivity.
  - destruct (add_policy O c a id p param) as [[a1 l1]|] eqn:E; [|discriminate].
    cbn in H. inversion H; subst. unfold add_policy in E. inv_bind E. inversion E; subst. reflexivity.
  - destruct (remove_policy O c a id p) as [[a1 l1]|] eqn:E; [|discriminate].
    cbn in H. inversion H; subst. unfold remove_policy in E. inv_bind E. inversion E; subst.
    match goal with |- no_enf (if ?b then _ else _) => destruct b; reflexivity end.
Qed.

(* ------------------------------------------------------------------------- *)
(* the monitor accepts every run of the model                                 *)
(* ------------------------------------------------------------------------- *)
Definition sim (m : mstate) (st : state) : Prop :=
  ms_modes m = s_modes st /\ ms_deployed m = s_deployed st /\
  ob_rules (ms_prev m) = a_rules (s_acct st) /\ ob_now (ms_prev m) = s_now st.

Lemma sim_init : sim mstate0 init.
Proof. repeat split. Qed.

Lemma same_signers_refl x : same_signers x x = true.
Proof.
  unfold same_signers. rewrite Z.eqb_refl, andb_true_r.
  assert (H : forallb (fun s => mem_s s x) x = true) by (apply forallb_forall; intros s Hs; apply mem_s_In; exact Hs).
  rewrite H. reflexivity.
Qed.
Lemma same_enforce_list_refl l : (forall e, In e l -> is_enforce e = true) -> list_eqb same_enforce l l = true.
Proof.
  induction l as [|e r IH]; intros H; [reflexivity|]. cbn [list_eqb]. rewrite IH by (intros x Hx; apply H; right; exact Hx).
  rewrite andb_true_r. specialize (H e (or_introl eq_refl)). destruct e; try discriminate. cbn [same_enforce].
  rewrite N.eqb_refl, same_signers_refl, (proj2 (ctx_eqb_eq c c) eq_refl), (proj2 (rule_eqb_eq r0 r0) eq_refl). reflexivity.
Qed.
Lemma same_enforce_filter_refl l : list_eqb same_enforce (filter is_enforce l) (filter is_enforce l) = true.
Proof. apply same_enforce_list_refl. intros e He. apply filter_In in He. tauto. Qed.

(* the monitor's [asked] clause: the model's successful check has consulted every policy it enforces
   (Proofs/C03Asked.v); later events of the same invocation (l2) do not matter *)
Lemma same_can_refl p c au r : same_can p c au r (ECan p c au r) = true.
Proof.
  cbn [same_can]. rewrite N.eqb_refl, same_signers_refl, (proj2 (ctx_eqb_eq c c) eq_refl), (proj2 (rule_eqb_eq r r) eq_refl). reflexivity.
Qed.
Lemma asked_model O a now auths sigs cs l l2 :
  do_check_auth O a now auths sigs cs = Ok l -> asked (l ++ l2) (filter is_enforce l) = true.
Proof.
  intros H. unfold asked. apply forallb_forall. intros e He. apply filter_In in He. destruct He as [Hi He].
  destruct e; try discriminate He. apply existsb_exists. exists (ECan p c auth r). split.
  - apply in_or_app. left. eapply enforced_was_asked; eauto.
  - apply same_can_refl.
Qed.
Lemma asked_model0 O a now auths sigs cs l :
  do_check_auth O a now auths sigs cs = Ok l -> asked l (filter is_enforce l) = true.
Proof. intros H. pose proof (asked_model O a now auths sigs cs l [] H) as A. rewrite app_nil_r in A. exact A. Qed.

Lemma agrees_expectation a M now auths sigs cs :
  wf a ->
  agrees (expectation (a_rules a) M now auths sigs cs)
         (match do_check_auth (oracles_of M) a now auths sigs cs with Ok l => Ok (None, l) | Fail => Fail end) = true.
Proof.
  intros W. pose proof (expectation_correct a M now auths sigs cs W) as H.
  destruct (expectation (a_rules a) M now auths sigs cs) as [| |enf]; cbn [agrees].
  - rewrite H. reflexivity.
  - rewrite H. reflexivity.
  - destruct H as [l [E Hl]]. rewrite E, <- Hl, same_enforce_filter_refl. cbn [andb]. eapply asked_model0; exact E.
Qed.

Lemma model_items_cons c types st cl r :
  model_items c types st (cl :: r)
  = (cl, snd (step c st cl), observe types (fst (step c st cl))) :: model_items c types (fst (step c st cl)) r.
Proof. cbn [model_items]. destruct (step c st cl); reflexivity. Qed.

(* the diff of the model with itself is empty *)
Lemma rule_eqb_refl r : rule_eqb r r = true. Proof. apply rule_eqb_eq. reflexivity. Qed.
Lemma outcome_eqb_refl o : outcome_eqb o o = true.
Proof.
  destruct o as [[r l]|]; [|reflexivity]. cbn. apply andb_true_iff. split.
  - apply (option_eqb_eq rule_eqb rule_eqb_eq). reflexivity.
  - apply (list_eqb_eq event_eqb event_eqb_eq). reflexivity.
Qed.
Lemma ids_eqb_eq x y : ids_eqb x y = true <-> x = y.
Proof.
  destruct x as [t l], y as [t' l']. unfold ids_eqb. cbn [fst snd].
  rewrite andb_true_iff, ctype_eqb_eq, (option_eqb_eq _ (list_eqb_eq Z.eqb Z.eqb_eq)).
  split; [intros [-> ->]; reflexivity|intros H; inversion H; auto].
Qed.
Lemma obs_eqb_refl o : obs_eqb o o = true.
Proof.
  unfold obs_eqb. rewrite !Z.eqb_refl. cbn [andb]. apply andb_true_iff. split.
  - apply (list_eqb_eq rule_eqb rule_eqb_eq). reflexivity.
  - apply (list_eqb_eq ids_eqb ids_eqb_eq). reflexivity.
Qed.
Lemma observe_types types st : map fst (ob_ids (observe types st)) = types.
Proof. unfold observe. cbn [ob_ids]. rewrite map_map. cbn [fst]. apply map_id. Qed.

Lemma diff_accepts c types cs : forall st i, diff_from c st (model_items c types st cs) i = 0%N.
Proof.
  induction cs as [|cl r IH]; intros st i; [reflexivity|].
  rewrite model_items_cons. cbn [diff_from].
  destruct (step c st cl) as [st' out] eqn:E. cbn [fst snd].
  rewrite outcome_eqb_refl, observe_types, obs_eqb_refl. cbn [andb]. apply IH.
Qed.

