(* C20 / token binder: the bucketed swap-and-pop model refines a plain set of addresses.
   Invariant: the buckets are exactly the chunks of one duplicate-free flat list [l] whose
   length is the stored count; every operation acts on [l] as append / swap-and-pop. *)
From SC Require Import Lib.Prelude Model.SwapPop Model.RegCommon Model.RegBinder Run.C20 Proofs.C20Common.
From Coq Require Import Permutation PeanoNat ZifyNat.
Local Open Scope nat_scope.
Set Implicit Arguments.

Section Binder.
  Variable c : tb_cfg.
  Hypothesis bs_pos : 0 < tb_bs c.
  Local Notation bs := (tb_bs c).

  Definition tb_inv (s : tb_state) (l : list addr) : Prop :=
    tb_count s = length l /\ NoDup l /\ chunk_inv bs (tb_buckets s) l /\ length l <= tb_max c.

  (* ---- generic facts about scanning buckets ---- *)
  Lemma memb_app (t : addr) (l m : list addr) : memb N.eqb t (l ++ m) = memb N.eqb t l || memb N.eqb t m.
  Proof. induction l as [|x l IH]; cbn; auto. rewrite IH. apply orb_assoc. Qed.
  Lemma existsb_memb_flat_map {A} (f : A -> list addr) (t : addr) (ks : list A) :
    existsb (fun k => memb N.eqb t (f k)) ks = memb N.eqb t (flat_map f ks).
  Proof. induction ks as [|k ks IH]; cbn; auto. rewrite memb_app, IH. reflexivity. Qed.

  Lemma nbuckets_cover count : 0 < count -> count <= tb_nbuckets c count * bs.
  Proof.
    intros H. unfold tb_nbuckets. pose proof (Nat.div_mod (count - 1) bs).
    pose proof (Nat.mod_upper_bound (count - 1) bs). nia.
  Qed.

  Lemma tb_linked_inv s l : tb_inv s l -> tb_linked c s = l.
  Proof.
    intros (Hc & Hn & Hk & Hm). unfold tb_linked. rewrite Hc.
    destruct (length l =? 0) eqn:E.
    - apply Nat.eqb_eq in E. destruct l; [reflexivity|discriminate].
    - apply Nat.eqb_neq in E. apply (chunk_inv_concat bs_pos _ Hk). apply nbuckets_cover. lia.
  Qed.

  Lemma tb_is_bound_inv s l t : tb_inv s l -> tb_is_bound c s t = memb N.eqb t l.
  Proof.
    intros H. pose proof (tb_linked_inv H) as HL. destruct H as (Hc & Hn & Hk & Hm).
    unfold tb_is_bound. unfold tb_linked in HL. destruct (tb_count s =? 0) eqn:E.
    - subst l. reflexivity.
    - rewrite <- HL. apply existsb_memb_flat_map.
  Qed.

  (* scanning m buckets from bucket k finds the first flat index *)
  Lemma tb_scan_chunks bk l t : chunk_inv bs bk l -> forall m k,
    tb_scan c bk t k m =
    option_map (fun r => k * bs + r) (index_of N.eqb t (firstn (m * bs) (skipn (k * bs) l))).
  Proof.
    intros Hk. induction m as [|m IH]; intros k; [reflexivity|].
    cbn [tb_scan]. rewrite (chunk_inv_get0 _ Hk).
    replace (S m * bs) with (bs + m * bs) by lia.
    rewrite firstn_add. fold (chunk bs k l). rewrite skipn_add.
    replace (k * bs + bs) with (S k * bs) by lia.
    rewrite (index_of_app N.eqb). destruct (index_of N.eqb t (chunk bs k l)) as [r|] eqn:E; [reflexivity|].
    rewrite IH. destruct (Nat.eq_dec (length (chunk bs k l)) bs) as [Hfull|Hshort].
    - destruct (index_of N.eqb t (firstn (m * bs) (skipn (S k * bs) l))) as [j|]; [|reflexivity].
      cbn [option_map]. rewrite Hfull. f_equal. lia.
    - (* the list ends inside bucket k: nothing beyond *)
      rewrite chunk_length in Hshort.
      rewrite (skipn_all2 (n := S k * bs)) by lia. rewrite firstn_nil. reflexivity.
  Qed.

  Lemma tb_index_of_inv s l t : tb_inv s l -> tb_index_of c s t = of_option (index_of N.eqb t l).
  Proof.
    intros (Hc & Hn & Hk & Hm). unfold tb_index_of. rewrite Hc.
    destruct (length l =? 0) eqn:E.
    - apply Nat.eqb_eq in E. destruct l; [reflexivity|discriminate].
    - apply Nat.eqb_neq in E. rewrite (tb_scan_chunks t Hk). cbn [skipn Nat.mul].
      rewrite firstn_all2 by (apply nbuckets_cover; lia).
      destruct (index_of N.eqb t l); reflexivity.
  Qed.

  Lemma tb_by_index_nat_inv s l i : tb_inv s l -> tb_by_index_nat c s i = of_option (nth_error l i).
  Proof.
    intros (Hc & Hn & Hk & Hm). unfold tb_by_index_nat. rewrite Hc.
    destruct (length l <=? i) eqn:E.
    - apply Nat.leb_le in E. rewrite (proj2 (nth_error_None l i)); auto.
    - apply Nat.leb_gt in E.
      rewrite (chunk_inv_get bs_pos (i / bs) Hk).
      + cbn [of_option bind]. rewrite chunk_nth_divmod; auto.
      + pose proof (Nat.div_mod i bs). pose proof (Nat.mod_upper_bound i bs). nia.
  Qed.
  Lemma tb_by_index_inv s l i : tb_inv s l -> tb_by_index c s i = of_option (nth_error l (N.to_nat i)).
  Proof.
    intros H. unfold tb_by_index. destruct H as (Hc & Hrest). rewrite Hc.
    destruct (N.of_nat (length l) <=? i)%N eqn:E.
    - apply N.leb_le in E. rewrite (proj2 (nth_error_None l (N.to_nat i))); auto. lia.
    - apply tb_by_index_nat_inv. split; auto.
  Qed.

  (* ---- bind ---- *)
  Lemma tb_bind_inv s l t : tb_inv s l ->
    match tb_bind c s t with
    | Ok s' => memb N.eqb t l = false /\ length l < tb_max c /\ tb_inv s' (l ++ [t])
    | Fail => memb N.eqb t l = true \/ tb_max c <= length l
    end.
  Proof.
    intros H. unfold tb_bind. rewrite (tb_is_bound_inv t H). destruct H as (Hc & Hn & Hk & Hm).
    destruct (memb N.eqb t l) eqn:Em; [left; reflexivity|].
    rewrite Hc. destruct (tb_max c <=? length l) eqn:El.
    - apply Nat.leb_le in El. right. auto.
    - apply Nat.leb_gt in El. split; [reflexivity|]. split; [auto|].
      unfold tb_inv. cbn [tb_count tb_buckets]. rewrite app_length. cbn [length].
      split; [lia|]. split.
      + apply NoDup_snoc; auto. apply (memb_false N.eqb N.eqb_eq). auto.
      + split; [|lia]. apply chunk_inv_app; auto. cbn [length].
        pose proof (Nat.div_mod (length l) bs). pose proof (Nat.mod_upper_bound (length l) bs). nia.
  Qed.

  (* ---- bind_tokens ---- *)
  Lemma existsb_firstn_skipn {A} (p : A -> bool) n (l : list A) :
    existsb p l = existsb p (firstn n l) || existsb p (skipn n l).
  Proof. rewrite <- existsb_app, firstn_skipn. reflexivity. Qed.

  Lemma tb_fill_inv bound : forall fuel ts bk l,
    chunk_inv bs bk l -> length ts < fuel ->
    match tb_fill c bound fuel ts (length l) bk with
    | Ok r => existsb (fun t => memb N.eqb t bound) ts = false /\
              fst r = length l + length ts /\ chunk_inv bs (snd r) (l ++ ts)
    | Fail => existsb (fun t => memb N.eqb t bound) ts = true
    end.
  Proof.
    induction fuel as [|fuel IH]; intros ts bk l Hk Hf; [lia|].
    destruct ts as [|t0 ts0].
    - cbn [tb_fill fst snd existsb length]. rewrite app_nil_r. repeat split; auto.
    - set (ts := t0 :: ts0) in *. cbn [tb_fill]. fold ts.
      rewrite (chunk_inv_get0 _ Hk). rewrite chunk_length.
      pose proof (Nat.div_mod (length l) bs) as Hdm. pose proof (Nat.mod_upper_bound (length l) bs) as Hmb.
      set (k := length l / bs) in *.
      assert (Hused : Nat.min bs (length l - k * bs) = length l - k * bs) by nia.
      rewrite Hused.
      replace (bs <? length l - k * bs) with false by (symmetry; apply Nat.ltb_ge; nia).
      set (take := Nat.min (bs - (length l - k * bs)) (length ts)).
      assert (Htake : 1 <= take <= length ts) by (unfold take, ts; cbn [length]; nia).
      rewrite (existsb_firstn_skipn _ take ts).
      destruct (existsb (fun t => memb N.eqb t bound) (firstn take ts)) eqn:Ex; [reflexivity|].
      cbn [orb].
      assert (Hlen : length l + take = length (l ++ firstn take ts)).
      { rewrite app_length, firstn_length. lia. }
      rewrite Hlen.
      assert (Hk' : chunk_inv bs (bk_set bk k (chunk bs k l ++ firstn take ts)) (l ++ firstn take ts)).
      { rewrite <- (chunk_inv_get0 k Hk). apply chunk_inv_app; auto.
        rewrite firstn_length. fold k. unfold take. nia. }
      specialize (IH (skipn take ts) _ _ Hk').
      rewrite skipn_length in IH. specialize (IH ltac:(lia)).
      destruct (tb_fill c bound fuel (skipn take ts) (length (l ++ firstn take ts))
                        (bk_set bk k (chunk bs k l ++ firstn take ts))) as [r|]; auto.
      destruct IH as (E1 & E2 & E3). split; auto. split.
      + rewrite E2, <- Hlen. lia.
      + rewrite <- app_assoc, firstn_skipn in E3. exact E3.
  Qed.

  Lemma tb_bind_many_inv s l ts : tb_inv s l ->
    let refused := (2 * bs <? length ts) || (tb_max c <? length l + length ts)
                   || negb (nodupb N.eqb ts) || existsb (fun t => memb N.eqb t l) ts in
    match tb_bind_many c s ts with
    | Ok s' => refused = false /\ tb_inv s' (l ++ ts)
    | Fail => refused = true
    end.
  Proof.
    intros H. pose proof (tb_linked_inv H) as HL. destruct H as (Hc & Hn & Hk & Hm).
    cbn zeta. unfold tb_bind_many. rewrite Hc, HL.
   
    destruct (2 * bs <? length ts) eqn:E1; [reflexivity|].
    destruct (tb_max c <? length l + length ts) eqn:E2; [reflexivity|].
    destruct (nodupb N.eqb ts) eqn:E3; [|reflexivity]. cbn [negb orb].
    pose proof (@tb_fill_inv l (S (length ts)) ts (tb_buckets s) l Hk (Nat.lt_succ_diag_r (length ts))) as HF.
   
    destruct (tb_fill c l (S (length ts)) ts (length l) (tb_buckets s)) as [r|]; cbn [bind]; auto.
    destruct HF as (F1 & F2 & F3). split; auto.
    unfold tb_inv. cbn [tb_count tb_buckets]. rewrite app_length. split; auto. split.
    - apply NoDup_app_disjoint; auto.
      + apply (nodupb_NoDup N.eqb N.eqb_eq). auto.
      + intros x Hx Hx'.
        assert (existsb (fun t => memb N.eqb t l) ts = true).
        { apply existsb_exists. exists x. split; auto. apply (memb_In N.eqb N.eqb_eq). auto. }
        congruence.
    - split; auto. apply Nat.ltb_ge in E2. lia.
  Qed.

  (* ---- unbind ---- *)
  Lemma tb_unbind_inv s l t : tb_inv s l ->
    match tb_unbind c s t with
    | Ok s' => exists i, index_of N.eqb t l = Some i /\ tb_inv s' (swap_pop i l)
    | Fail => index_of N.eqb t l = None
    end.
  Proof.
    intros H. unfold tb_unbind. rewrite (tb_index_of_inv t H).
    destruct (index_of N.eqb t l) as [i|] eqn:Ei; cbn [of_option bind]; [|reflexivity].
    destruct (index_of_Some N.eqb N.eqb_eq _ _ Ei) as [Hnth Hlt].
    pose proof H as (Hc & Hn & Hk & Hm). rewrite Hc.
    replace (length l =? 0) with false by (symmetry; apply Nat.eqb_neq; lia).
    assert (Hl : l <> []) by (intros ->; cbn in Hlt; lia).
    assert (Hnd : NoDup (swap_pop i l)) by (eapply swap_pop_NoDup; eauto using N.eqb_eq).
    destruct (i =? length l - 1) eqn:Elast.
    - apply Nat.eqb_eq in Elast. cbn [bind]. exists i. split; auto.
      subst i. rewrite swap_pop_last in * by auto.
      unfold tb_inv. cbn [tb_count tb_buckets]. rewrite removelast_length.
      split; auto. split; auto. split; [|lia]. apply chunk_inv_pop; auto.
    - apply Nat.eqb_neq in Elast.
      rewrite (tb_by_index_nat_inv _ H).
      destruct (nth_error l (length l - 1)) as [z|] eqn:Ez;
        [|apply nth_error_None in Ez; lia].
      cbn [of_option bind]. unfold vec_set. rewrite (chunk_inv_get0 _ Hk), chunk_length.
      pose proof (Nat.div_mod i bs) as Hdm. pose proof (Nat.mod_upper_bound i bs) as Hmb.
      replace (i mod bs <? Nat.min bs (length l - i / bs * bs)) with true
        by (symmetry; apply Nat.ltb_lt; nia).
      cbn [bind]. exists i. split; auto.
      assert (Hsw : swap_pop i l = removelast (upd i z l)).
      { unfold swap_pop. rewrite Ez. reflexivity. }
      rewrite Hsw in *.
      unfold tb_inv. cbn [tb_count tb_buckets]. rewrite removelast_length, upd_length.
      split; auto. split; auto. split; [|lia].
      pose proof (@chunk_inv_upd _ _ bs_pos _ _ i z Hk) as Hk1.
      rewrite (chunk_inv_get0 _ Hk) in Hk1.
      assert (Hne : upd i z l <> []).
      { intros E. apply (f_equal (@length _)) in E. rewrite upd_length in E. cbn in E. lia. }
      pose proof (chunk_inv_pop bs_pos Hk1 Hne) as Hk2. rewrite upd_length in Hk2. exact Hk2.
  Qed.

  (* ================= the monitor accepts the model ================= *)
  Definition tb_rel (s : tb_state) (a : list addr) : Prop :=
    exists l, tb_inv s l /\ Permutation l a.

  Lemma tb_rel_NoDup s a : tb_rel s a -> NoDup a.
  Proof. intros [l [(_ & Hn & _) Hp]]. eapply Permutation_NoDup; eauto. Qed.

  Lemma existsb_memb_perm (l a ts : list addr) : Permutation l a ->
    existsb (fun t => memb N.eqb t l) ts = existsb (fun t => memb N.eqb t a) ts.
  Proof.
    intros Hp. induction ts as [|t ts IH]; cbn; auto. rewrite IH, (memb_perm t Hp). reflexivity.
  Qed.

  Lemma tb_spec_sim s a k : tb_rel s a ->
    match tb_step c s k with
    | Ok (s', _) => exists a', tb_spec c a k = Ok a' /\ tb_rel s' a'
    | Fail => tb_spec c a k = Fail
    end.
  Proof.
    intros [l [Hi Hp]]. pose proof (Permutation_length Hp) as Hlen.
    destruct k as [t|ts|t]; cbn [tb_step tb_spec].
    - pose proof (tb_bind_inv t Hi) as H. rewrite <- (memb_perm t Hp), <- Hlen.
      destruct (tb_bind c s t) as [s'|]; cbn [bind].
      + destruct H as (E1 & E2 & E3). rewrite E1.
        replace (tb_max c <=? length l) with false by (symmetry; apply Nat.leb_gt; auto).
        cbn [orb]. eexists. split; [reflexivity|]. exists (l ++ [t]). split; auto.
        apply Permutation_trans with (t :: l).
        * apply Permutation_sym. apply Permutation_cons_append.
        * apply perm_skip. auto.
      + destruct H as [H|H]; [rewrite H; reflexivity|].
        replace (tb_max c <=? length l) with true by (symmetry; apply Nat.leb_le; auto).
        rewrite orb_true_r. reflexivity.
    - pose proof (tb_bind_many_inv ts Hi) as H. cbn zeta in H.
      rewrite <- (existsb_memb_perm ts Hp), <- Hlen.
      destruct (tb_bind_many c s ts) as [s'|]; cbn [bind].
      + destruct H as (E1 & E2). rewrite E1. eexists. split; [reflexivity|].
        exists (l ++ ts). split; auto.
        apply Permutation_trans with (ts ++ l); [apply Permutation_app_comm|].
        apply Permutation_app_head. auto.
      + rewrite H. reflexivity.
    - pose proof (tb_unbind_inv t Hi) as H. rewrite <- (memb_perm t Hp).
      rewrite (index_of_memb N.eqb N.eqb_eq).
      destruct (tb_unbind c s t) as [s'|]; cbn [bind].
      + destruct H as [i [Ei Hi']]. rewrite Ei. eexists. split; [reflexivity|].
        exists (swap_pop i l). split; auto.
        destruct (index_of_Some N.eqb N.eqb_eq _ _ Ei) as [Hnth _].
        destruct Hi as (_ & Hn & _).
        apply Permutation_trans with (rem N.eqb t l).
        * apply (swap_pop_Permutation N.eqb N.eqb_eq i Hn Hnth).
        * apply rem_Permutation. auto.
      + rewrite H. reflexivity.
  Qed.

  Lemma tb_chk_ok s a q : tb_rel s a -> tb_chk a (q, tb_answer c s q) = true.
  Proof.
    intros HR. pose proof (tb_rel_NoDup HR) as Hna. destruct HR as [l [Hi Hp]].
    pose proof (Permutation_length Hp) as Hlen.
    destruct q as [| |t|t|i]; cbn [tb_answer tb_chk].
    - rewrite (tb_linked_inv Hi). apply (enumb_Permutation N.eqb N.eqb_eq); auto.
    - rewrite (tb_linked_inv Hi), Hlen. apply N.eqb_refl.
    - rewrite (tb_is_bound_inv t Hi), (memb_perm t Hp). destruct (memb N.eqb t a); reflexivity.
    - rewrite (tb_index_of_inv t Hi). rewrite <- (memb_perm t Hp), (index_of_memb N.eqb N.eqb_eq).
      destruct (index_of N.eqb t l) as [i|] eqn:Ei; cbn [of_option bind negb]; auto.
      destruct (index_of_Some N.eqb N.eqb_eq _ _ Ei) as [_ Hlt]. cbn [andb].
      apply N.ltb_lt. lia.
    - rewrite (tb_by_index_inv i Hi).
      destruct (nth_error l (N.to_nat i)) as [t|] eqn:En; cbn [of_option].
      + assert (Hlt : N.to_nat i < length l) by (apply nth_error_Some; congruence).
        rewrite <- (memb_perm t Hp).
        replace (memb N.eqb t l) with true
          by (symmetry; apply (memb_In N.eqb N.eqb_eq); eapply nth_error_In; eauto).
        cbn [andb]. apply N.ltb_lt. lia.
      + apply nth_error_None in En. apply N.leb_le. lia.
  Qed.

  Lemma tb_pairs_model s l qs : tb_inv s l ->
    Forall (fun p => nth_error l (N.to_nat (fst p)) = Some (snd p))
           (tb_pairs (map (fun q => (q, tb_answer c s q)) qs)).
  Proof.
    intros Hi. induction qs as [|q qs IH]; cbn [map tb_pairs flat_map]; [constructor|].
    apply Forall_app. split; auto. fold tb_pairs in *.
    destruct q as [| |t|t|i]; cbn [tb_answer]; try constructor.
    - rewrite (tb_index_of_inv t Hi).
      destruct (index_of N.eqb t l) as [i|] eqn:Ei; cbn [of_option bind]; constructor; [|constructor].
      cbn [fst snd]. rewrite Nat2N.id. apply (index_of_Some N.eqb N.eqb_eq _ _ Ei).
    - rewrite (tb_by_index_inv i Hi).
      destruct (nth_error l (N.to_nat i)) as [t|] eqn:En; cbn [of_option]; constructor; [|constructor].
      exact En.
  Qed.

  Lemma tb_cross_ok s a qs : tb_rel s a -> tb_cross a (map (fun q => (q, tb_answer c s q)) qs) = true.
  Proof.
    intros [l [Hi Hp]]. unfold tb_cross. apply (@injb_nth _ N.eqb N.eqb_eq l).
    - destruct Hi as (_ & Hn & _). auto.
    - apply tb_pairs_model. auto.
  Qed.

  Lemma tb_mon_step s a cq : tb_rel s a ->
    exists a', mon_of (spec_unit (tb_spec c)) tb_chk tb_cross a (model_ev (tb_step c) (tb_answer c) s cq) = Some a'
               /\ tb_rel (step_state (tb_step c) s (fst cq)) a'.
  Proof.
    apply (@unit_mon_step _ _ _ _ _ (tb_step c) (tb_answer c) (tb_spec c) tb_chk tb_cross tb_rel).
    - intros. apply tb_spec_sim. auto.
    - intros. apply tb_chk_ok. auto.
    - intros. apply tb_cross_ok. auto.
  Qed.

  (* ---- the fixture initial state ---- *)
  Lemma tb_start_inv pre : tb_pre_ok c pre = true -> tb_inv (tb_start c pre) pre.
  Proof.
    unfold tb_pre_ok. rewrite !andb_true_iff. intros [[H1 H2] _].
    apply Nat.leb_le in H2. unfold tb_inv, tb_start. cbn [tb_count tb_buckets].
    split; auto. split; [apply incrb_NoDup; auto|]. split; auto.
    apply start_chunk_inv. auto.
  Qed.
  Lemma tb_rel_start pre : tb_pre_ok c pre = true -> tb_rel (tb_start c pre) pre.
  Proof. intros H. exists pre. split; [apply tb_start_inv; auto|apply Permutation_refl]. Qed.

  (* ---- index-based access is stable while nothing changes ---- *)
  Definition tb_Inv (s : tb_state) : Prop := exists a, tb_rel s a.
  Lemma tb_Inv_step s k : tb_Inv s -> tb_Inv (step_state (tb_step c) s k).
  Proof.
    intros [a HR]. pose proof (tb_spec_sim k HR) as H. unfold step_state.
    destruct (tb_step c s k) as [[s' []]|]; [destruct H as [a' [_ H]]; exists a'; auto|exists a; auto].
  Qed.
  Lemma tb_L_nodup s : tb_Inv s -> NoDup (tb_linked c s).
  Proof. intros [a [l [Hi _]]]. rewrite (tb_linked_inv Hi). destruct Hi as (_ & H & _). auto. Qed.
  Lemma tb_L_pairs s qs : tb_Inv s ->
    Forall (fun p => nth_error (tb_linked c s) (N.to_nat (fst p)) = Some (snd p))
           (tb_pairs (map (fun q => (q, tb_answer c s q)) qs)).
  Proof. intros [a [l [Hi _]]]. rewrite (tb_linked_inv Hi). apply tb_pairs_model. auto. Qed.
End Binder.
