(* C05: lemmas about one fungible token (Base::update, allowances) of the vault model. *)
From SC Require Import Lib.Prelude Lib.Int Lib.Host Model.Math Proofs.Math Model.Vault Proofs.VaultSpec.
From Coq Require Import ZifyBool.

(* ---------- inversion of the res monad ---------- *)
Lemma bind_ok {A B} (r : res A) (f : A -> res B) y : bind r f = Ok y -> exists x, r = Ok x /\ f x = Ok y.
Proof. destruct r as [x|]; cbn; [eauto|discriminate]. Qed.
Lemma guard_ok b u : guard b = Ok u -> b = true.
Proof. destruct b; cbn; [reflexivity|discriminate]. Qed.
Lemma of_option_ok {A} (o : option A) v : of_option o = Ok v -> o = Some v.
Proof. destruct o; cbn; intros H; inversion H; reflexivity. Qed.
Lemma checked_add_ok a b v : checked_add a b = Some v -> v = a + b /\ MIN128 <= a + b <= MAX128.
Proof. apply fit128_some. Qed.
Lemma checked_sub_ok a b v : checked_sub a b = Some v -> v = a - b /\ MIN128 <= a - b <= MAX128.
Proof. apply fit128_some. Qed.

(* split [H : bind r f = Ok y] into [E : r = Ok x] and [H : f x = Ok y] *)
Ltac bsplit H x E := apply bind_ok in H; destruct H as (x & E & H).

(* ---------- maps ---------- *)
Lemma upd_eq m k v : upd m k v k = v.
Proof. unfold upd. rewrite N.eqb_refl. reflexivity. Qed.
Lemma upd_neq m k v a : a <> k -> upd m k v a = m a.
Proof. intros H. unfold upd. destruct (N.eqb a k) eqn:E; [apply N.eqb_eq in E; contradiction|reflexivity]. Qed.

(* move x from f to t, sequentially (f = t is a no-op) *)
Definition move (m : bmap) (f t : addr) (x : Z) : bmap :=
  upd (upd m f (m f - x)) t (upd m f (m f - x) t + x).

Lemma move_other m f t x a : a <> f -> a <> t -> move m f t x a = m a.
Proof. intros. unfold move. rewrite !upd_neq by auto. reflexivity. Qed.
Lemma move_from m f t x : f <> t -> move m f t x f = m f - x.
Proof. intros. unfold move. rewrite upd_neq by auto. apply upd_eq. Qed.
Lemma move_to m f t x : f <> t -> move m f t x t = m t + x.
Proof. intros. unfold move. rewrite upd_eq. rewrite upd_neq by auto. reflexivity. Qed.
Lemma move_self m f x : move m f f x f = m f.
Proof. unfold move. rewrite !upd_eq. lia. Qed.

Fixpoint sum_over (m : bmap) (l : list addr) : Z :=
  match l with [] => 0 | a :: r => m a + sum_over m r end.

Lemma sum_over_upd_notin m k v l : ~ In k l -> sum_over (upd m k v) l = sum_over m l.
Proof.
  induction l as [|a l IH]; cbn [sum_over]; intros H; [reflexivity|].
  rewrite upd_neq by (intros ->; apply H; left; reflexivity).
  rewrite IH by (intros Hi; apply H; right; exact Hi). reflexivity.
Qed.
Lemma sum_over_upd_in m k v l : NoDup l -> In k l -> sum_over (upd m k v) l = sum_over m l - m k + v.
Proof.
  induction l as [|a l IH]; cbn [sum_over]; intros Hnd Hin; [destruct Hin|].
  inversion Hnd as [|a' l' Hna Hnd']; subst.
  destruct (N.eq_dec a k) as [->|Hne].
  - rewrite upd_eq. rewrite sum_over_upd_notin by exact Hna. lia.
  - rewrite upd_neq by exact Hne. destruct Hin as [Heq|Hin]; [contradiction|].
    rewrite IH by auto. lia.
Qed.

(* every finite set of accounts holds at most S in total *)
Definition sums_le (m : bmap) (S : Z) : Prop := forall l, NoDup l -> sum_over m l <= S.

Lemma sums_le_debit m S k x : sums_le m S -> 0 <= x <= m k -> sums_le (upd m k (m k - x)) (S - x).
Proof.
  intros H Hx l Hnd. destruct (in_dec N.eq_dec k l) as [Hin|Hnin].
  - rewrite sum_over_upd_in by auto. specialize (H l Hnd). lia.
  - rewrite sum_over_upd_notin by auto.
    assert (Hnd' : NoDup (k :: l)) by (constructor; auto).
    specialize (H (k :: l) Hnd'). cbn [sum_over] in H. lia.
Qed.
Lemma sums_le_credit m S k x : sums_le m S -> 0 <= x -> sums_le (upd m k (m k + x)) (S + x).
Proof.
  intros H Hx l Hnd. destruct (in_dec N.eq_dec k l) as [Hin|Hnin].
  - rewrite sum_over_upd_in by auto. specialize (H l Hnd). lia.
  - rewrite sum_over_upd_notin by auto. specialize (H l Hnd). lia.
Qed.
Lemma sums_le_one m S a : sums_le m S -> m a <= S.
Proof.
  intros H. assert (Hnd : NoDup [a]) by (constructor; [intros []|constructor]).
  specialize (H [a] Hnd). cbn [sum_over] in H. lia.
Qed.

(* ---------- token invariant ---------- *)
Definition tok_inv (t : token) : Prop :=
  (forall a, 0 <= bal t a) /\ 0 <= supply t <= MAX128 /\ sums_le (bal t) (supply t).

Lemma tok_inv_bal_le t a : tok_inv t -> 0 <= bal t a <= supply t.
Proof. intros (Hn & Hs & Hl). split; [apply Hn|apply sums_le_one; exact Hl]. Qed.
Lemma tok_inv_bal_range t a : tok_inv t -> MIN128 <= bal t a <= MAX128.
Proof. intros H. pose proof (tok_inv_bal_le t a H). destruct H as (_ & Hs & _). rewrite MIN128_val. lia. Qed.
Lemma tok_inv_empty : tok_inv empty_token.
Proof.
  split; [|split]; cbn.
  - intros; lia.
  - rewrite MAX128_val; lia.
  - intros l _. induction l; cbn [sum_over]; lia.
Qed.

(* ---------- Base::update, case by case ---------- *)
Lemma update_xfer t f to x t' : update t (Some f) (Some to) x = Ok t' ->
  0 <= x <= bal t f /\
  t' = {| bal := move (bal t) f to x; supply := supply t; allow := allow t |}.
Proof.
  unfold update. intros H. bsplit H u E0. apply guard_ok in E0.
  bsplit H t1 E1. bsplit E1 u1 E2. apply guard_ok in E2. bsplit E1 nb E3.
  apply of_option_ok, checked_sub_ok in E3. destruct E3 as [-> _]. inversion E1; subst t1. clear E1.
  bsplit H nb2 E4. apply of_option_ok, checked_add_ok in E4. destruct E4 as [-> _].
  inversion H. split; [lia|]. reflexivity.
Qed.

Lemma update_mint t to x t' : update t None (Some to) x = Ok t' ->
  0 <= x /\ supply t + x <= MAX128 /\
  t' = {| bal := upd (bal t) to (bal t to + x); supply := supply t + x; allow := allow t |}.
Proof.
  unfold update. intros H. bsplit H u E0. apply guard_ok in E0.
  bsplit H t1 E1. bsplit E1 ns E2. apply of_option_ok, checked_add_ok in E2. destruct E2 as [-> Hr].
  inversion E1; subst t1. clear E1.
  bsplit H nb2 E4. apply of_option_ok, checked_add_ok in E4. destruct E4 as [-> _].
  inversion H. split; [lia|]. split; [lia|]. reflexivity.
Qed.

Lemma update_burn t f x t' : update t (Some f) None x = Ok t' ->
  0 <= x <= bal t f /\
  t' = {| bal := upd (bal t) f (bal t f - x); supply := supply t - x; allow := allow t |}.
Proof.
  unfold update. intros H. bsplit H u E0. apply guard_ok in E0.
  bsplit H t1 E1. bsplit E1 u1 E2. apply guard_ok in E2. bsplit E1 nb E3.
  apply of_option_ok, checked_sub_ok in E3. destruct E3 as [-> _]. inversion E1; subst t1. clear E1.
  bsplit H ns E4. apply of_option_ok, checked_sub_ok in E4. destruct E4 as [-> _].
  inversion H. split; [lia|]. reflexivity.
Qed.

Lemma tok_inv_xfer t f to x : tok_inv t -> 0 <= x <= bal t f ->
  tok_inv {| bal := move (bal t) f to x; supply := supply t; allow := allow t |}.
Proof.
  intros (Hn & Hs & Hl) Hx. split; [|split]; cbn [bal supply].
  - intros a. unfold move. unfold upd at 1. destruct (N.eqb a to).
    + assert (0 <= upd (bal t) f (bal t f - x) to); [|lia].
      unfold upd. destruct (N.eqb to f); [lia|apply Hn].
    + unfold upd. destruct (N.eqb a f); [lia|apply Hn].
  - exact Hs.
  - unfold move. replace (supply t) with (supply t - x + x) by lia.
    apply sums_le_credit; [|lia]. apply sums_le_debit; auto.
Qed.
Lemma tok_inv_mint t to x : tok_inv t -> 0 <= x -> supply t + x <= MAX128 ->
  tok_inv {| bal := upd (bal t) to (bal t to + x); supply := supply t + x; allow := allow t |}.
Proof.
  intros (Hn & Hs & Hl) Hx Hm. split; [|split]; cbn [bal supply].
  - intros a. unfold upd. destruct (N.eqb a to); [specialize (Hn to); lia|apply Hn].
  - lia.
  - apply sums_le_credit; auto.
Qed.
Lemma tok_inv_burn t f x : tok_inv t -> 0 <= x <= bal t f ->
  tok_inv {| bal := upd (bal t) f (bal t f - x); supply := supply t - x; allow := allow t |}.
Proof.
  intros Hi Hx. pose proof (tok_inv_bal_le t f Hi) as Hb. destruct Hi as (Hn & Hs & Hl).
  split; [|split]; cbn [bal supply].
  - intros a. unfold upd. destruct (N.eqb a f); [lia|apply Hn].
  - lia.
  - apply sums_le_debit; auto.
Qed.
Lemma tok_inv_set_allow t al : tok_inv t -> tok_inv (set_allow t al).
Proof. intros H. exact H. Qed.

(* under the invariant a transfer never traps on the credit side (the NOTE in Base::update) *)
Lemma update_xfer_succeeds t f to x : tok_inv t -> 0 <= x <= bal t f ->
  update t (Some f) (Some to) x = Ok {| bal := move (bal t) f to x; supply := supply t; allow := allow t |}.
Proof.
  intros Hi Hx. pose proof (tok_inv_xfer t f to x Hi Hx) as Hi'.
  pose proof (tok_inv_bal_range _ to Hi') as Hr. cbn [bal] in Hr.
  pose proof (tok_inv_bal_range t f Hi) as Hrf.
  unfold update. assert (E0 : (x <? 0) = false) by lia. rewrite E0. cbn [negb guard bind].
  assert (E1 : (bal t f <? x) = false) by lia. rewrite E1. cbn [negb guard bind].
  unfold checked_sub, fit128. assert (E2 : in_i128 (bal t f - x) = true) by (apply in_i128_iff; rewrite MIN128_val in *; lia).
  rewrite E2. cbn [of_option bind set_bal bal supply allow].
  unfold checked_add, fit128.
  assert (E3 : in_i128 (upd (bal t) f (bal t f - x) to + x) = true).
  { apply in_i128_iff. unfold move in Hr. rewrite upd_eq in Hr. exact Hr. }
  rewrite E3. cbn [of_option bind]. reflexivity.
Qed.

(* ---------- allowances ---------- *)
Lemma upd2_eq m o s v : upd2 m o s v o s = v.
Proof. unfold upd2. rewrite !N.eqb_refl. reflexivity. Qed.
Lemma upd2_neq m o s v a b : (a <> o \/ b <> s) -> upd2 m o s v a b = m a b.
Proof.
  intros H. unfold upd2. destruct (N.eqb a o) eqn:E1; destruct (N.eqb b s) eqn:E2; cbn [andb]; auto.
  apply N.eqb_eq in E1, E2. destruct H; contradiction.
Qed.

Lemma set_allowance_ok c nw t o s a l t' : set_allowance c nw t o s a l = Ok t' ->
  0 <= a /\ l <= nw + c_max_ttl c - 1 /\ (0 < a -> nw <= l) /\
  t' = set_allow t (upd2 (allow t) o s (a, l)).
Proof.
  unfold set_allowance. intros H. bsplit H u E0. apply guard_ok in E0.
  bsplit H u1 E1. apply guard_ok in E1. inversion H. repeat split; try lia.
Qed.

Lemma spend_allowance_ok c nw t o s x t' : spend_allowance c nw t o s x = Ok t' ->
  0 <= x <= allowance nw t o s /\ bal t' = bal t /\ supply t' = supply t /\
  (forall o' s', allowance nw t' o' s' =
                 if N.eqb o' o && N.eqb s' s then allowance nw t o' s' - x else allowance nw t o' s') /\
  (x = 0 -> t' = t) /\
  (forall o' s', o' <> o -> allow t' o' s' = allow t o' s').
Proof.
  unfold spend_allowance. intros H. bsplit H u E0. apply guard_ok in E0.
  bsplit H u1 E1. apply guard_ok in E1.
  destruct (0 <? x) eqn:Ex.
  - apply set_allowance_ok in H. destruct H as (H1 & H2 & H3 & ->).
    unfold allowance. split; [lia|]. split; [reflexivity|]. split; [reflexivity|].
    split; [|split; [lia|]].
    + intros o' s'. unfold allowance_data at 1. cbn [allow set_allow].
      destruct (N.eqb o' o && N.eqb s' s) eqn:Eq.
      * assert (o' = o /\ s' = s) as [-> ->] by (apply andb_prop in Eq as [Ea Eb]; apply N.eqb_eq in Ea, Eb; auto).
        rewrite upd2_eq. cbn [fst snd].
        (* the allowance that was read is live *)
        unfold allowance_data in *. destruct (snd (allow t o s) <? nw) eqn:El; cbn [fst snd] in *; [lia|].
        rewrite El. reflexivity.
      * rewrite upd2_neq; [reflexivity|].
        destruct (N.eqb o' o) eqn:Ea; destruct (N.eqb s' s) eqn:Eb; cbn [andb] in Eq; try discriminate;
          try (left; intros ->; rewrite N.eqb_refl in Ea; discriminate);
          right; intros ->; rewrite N.eqb_refl in Eb; discriminate.
    + intros o' s' Hne. cbn [allow set_allow]. apply upd2_neq. left; exact Hne.
  - inversion H; subst t'. unfold allowance. split; [lia|]. split; [reflexivity|]. split; [reflexivity|].
    assert (x = 0) by lia. subst x. split; [|split; auto].
    intros o' s'. destruct (N.eqb o' o && N.eqb s' s) eqn:Eq; [|reflexivity].
    assert (o' = o /\ s' = s) as [-> ->] by (apply andb_prop in Eq as [Ea Eb]; apply N.eqb_eq in Ea, Eb; auto).
    unfold allowance. lia.
Qed.

(* an owner whose stored allowances are all zero cannot be spent from *)
Lemma spend_zero_owner c nw t o s x t' : spend_allowance c nw t o s x = Ok t' ->
  (forall sp, fst (allow t o sp) = 0) -> x = 0 /\ t' = t.
Proof.
  intros H Hz. destruct (spend_allowance_ok _ _ _ _ _ _ _ H) as (Hx & _ & _ & _ & H0 & _).
  assert (allowance nw t o s = 0).
  { unfold allowance, allowance_data. destruct (snd (allow t o s) <? nw); [reflexivity|apply Hz]. }
  assert (x = 0) by lia. split; auto.
Qed.
