(* C03 - "acceptance by every one of its policies" means that every policy IS ASKED: a successful
   check has consulted can_enforce of every policy of every deciding rule, with exactly the context,
   the rule's own supplied signers and the rule as arguments - whatever contract the context calls
   (in particular when the callee is itself one of those policy contracts, a verifier, a signer or
   the account).  Consequently no enforce call happens without its can_enforce consultation. *)
From SC Require Import Lib.Prelude Lib.Int Lib.Host Model.SmartAccount Proofs.SmartAccount.

Lemma can_enforce_all_asks O ps c au r l :
  can_enforce_all O ps c au r = Ok (true, l) -> l = map (fun p => ECan p c au r) ps.
Proof.
  revert l. induction ps as [|p rest IH]; intros l H; cbn [can_enforce_all] in H.
  - inversion H. reflexivity.
  - destruct (o_can O p c au r) as [[|]|]; [| |discriminate].
    + destruct (can_enforce_all O rest c au r) as [[b l']|] eqn:E; [|discriminate].
      cbn in H. inversion H; subst. cbn [map]. f_equal. apply IH. reflexivity.
    + inversion H.
Qed.

Lemma select_asks O rules c supplied r au l :
  select O rules c supplied = Ok (r, au, l) ->
  forall p, In p (r_policies r) -> In (ECan p c au r) l.
Proof.
  revert r au l. induction rules as [|x rest IH]; intros r au l H; cbn [select] in H; [discriminate|].
  destruct (isnil (r_policies x)) eqn:En.
  - destruct (zlen (r_signers x) =? zlen _).
    + inversion H; subst. intros p Hp. destruct (r_policies r); [destruct Hp|discriminate].
    + eauto.
  - destruct (can_enforce_all O (r_policies x) c _ x) as [[b l1]|] eqn:E; [|discriminate]. cbn [bind] in H.
    destruct b.
    + inversion H; subst. apply can_enforce_all_asks in E. subst l. intros p Hp.
      apply in_map_iff. exists p. split; [reflexivity|exact Hp].
    + destruct (select O rest c supplied) as [[[r' au'] l']|] eqn:E2; [|discriminate]. cbn in H. inversion H; subst.
      intros p Hp. apply in_or_app. right. eapply IH; eauto.
Qed.

Lemma validate_all_asks O a now cs supplied vs l :
  validate_all O a now cs supplied = Ok (vs, l) ->
  forall r c au, In (r, c, au) vs -> forall p, In p (r_policies r) -> In (ECan p c au r) l.
Proof.
  revert vs l. induction cs as [|c0 rest IH]; intros vs l H; cbn [validate_all] in H.
  - inversion H; subst. intros r c au [].
  - destruct (get_validated_context O a now c0 supplied) as [[[r0 au0] l1]|] eqn:E1; [|discriminate]. cbn [bind] in H.
    destruct (validate_all O a now rest supplied) as [[vs' l2]|] eqn:E2; [|discriminate]. cbn in H. inversion H; subst.
    intros r c au [Hv|Hv] p Hp; apply in_or_app.
    + inversion Hv; subst. left.
      unfold get_validated_context in E1. destruct (get_valid_context_rules a now (ctx_type c)); [|discriminate].
      cbn [bind] in E1. eapply select_asks; eauto.
    + right. eapply IH; eauto.
Qed.

(* the shape of a successful check: the validated (rule, context, signers) triples, every policy of
   each of them asked, and the enforce calls *)
Theorem check_asks O a now auths sigs cs log :
  do_check_auth O a now auths sigs cs = Ok log ->
  exists vs, Forall2 (validated O a now (map fst sigs)) cs vs /\
    (forall r c au, In (r, c, au) vs -> forall p, In p (r_policies r) -> In (ECan p c au r) log) /\
    filter is_enf log = flat_map enf_events vs.
Proof.
  unfold do_check_auth. intros H.
  destruct (authenticate O auths sigs) as [lv|] eqn:Ea; [|discriminate]. cbn [bind] in H.
  destruct (validate_all O a now cs (map fst sigs)) as [[vs lc]|] eqn:Ev; [|discriminate]. cbn [bind] in H.
  rewrite enforce_all_spec in H.
  destruct (accepted_seq O [] (flat_map enf_events vs)) eqn:Ef; [|discriminate]. cbn in H. inversion H; subst.
  destruct (authenticate_ok _ _ _ _ Ea) as [_ Hlv].
  destruct (validate_all_ok _ _ _ _ _ _ _ Ev) as [Hf Hlc].
  exists vs. split; [exact Hf|]. split.
  - intros r c au Hv p Hp. apply in_or_app. right. apply in_or_app. left.
    eapply validate_all_asks; eauto.
  - rewrite !filter_app, Hlv, Hlc, filter_enf_events. reflexivity.
Qed.

(* no enforcement without consultation: every enforce call of a successful check has its can_enforce
   call, with identical arguments, in the same log *)
Theorem enforced_was_asked O a now auths sigs cs log :
  do_check_auth O a now auths sigs cs = Ok log ->
  forall p c au r, In (EEnforce p c au r) log -> In (ECan p c au r) log.
Proof.
  intros H p c au r Hi.
  destruct (check_asks _ _ _ _ _ _ _ H) as [vs [_ [Hask Hl]]].
  assert (Hi' : In (EEnforce p c au r) (filter is_enf log)) by (apply filter_In; split; [exact Hi|reflexivity]).
  rewrite Hl in Hi'. apply in_flat_map in Hi'. destruct Hi' as [[[r' c'] au'] [Hv He]].
  unfold enf_events in He. apply in_map_iff in He. destruct He as [p' [Ee Hp']]. inversion Ee; subst.
  eapply Hask; eauto.
Qed.
