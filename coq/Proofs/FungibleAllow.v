(* Allowance entries in temporary storage: what set_allowance / spend_allowance do, and the
   invariant "a stored positive allowance is outlived by its storage entry". *)
From SC Require Import Lib.Prelude Lib.Int Lib.Host Model.Math Model.Fungible Proofs.FungibleBasics.

Definition wf_host (hc : hostcfg) : Prop := 1 <= min_temp_ttl hc.

Lemma tlive_at_some {V} nw (e : option (tentry V)) en : tlive_at nw e = Some en -> e = Some en /\ nw <= tlive en.
Proof.
  unfold tlive_at. destruct e as [x|]; [|discriminate]. destruct (tlive x <? nw) eqn:L; [discriminate|].
  intros H. injection H; intros; subst. split; auto. apply Z.ltb_ge in L. exact L.
Qed.
Lemma tlive_at_none {V} nw (e : option (tentry V)) : tlive_at nw e = None -> e = None \/ exists en, e = Some en /\ tlive en < nw.
Proof.
  unfold tlive_at. destruct e as [x|]; auto. destruct (tlive x <? nw) eqn:L; [|discriminate].
  intros _. right. exists x. split; auto. apply Z.ltb_lt in L. exact L.
Qed.
Lemma tlive_at_live {V} nw (en : tentry V) : nw <= tlive en -> tlive_at nw (Some en) = Some en.
Proof. intros H. unfold tlive_at. destruct (tlive en <? nw) eqn:L; auto. apply Z.ltb_lt in L. lia. Qed.
Lemma tlive_at_mono {V} nw nw' (e : option (tentry V)) en : nw <= nw' -> tlive_at nw' e = Some en -> tlive_at nw e = Some en.
Proof. intros L H. apply tlive_at_some in H. destruct H as [-> H]. apply tlive_at_live. lia. Qed.

(* value stored for (o, s) as the contract reads it at ledger [nw] (None = no live entry) *)
Definition stored (nw : Z) (t : tok) (o s : addr) : option (Z * Z) := tget nw (aentry t o s).

Lemma allowance_data_stored nw t o s :
  allowance_data nw t o s =
    match stored nw t o s with
    | Some d => if snd d <? nw then (0, 0) else d
    | None => (0, 0)
    end.
Proof.
  unfold allowance_data, stored. destruct (tget nw (aentry t o s)); auto.
  cbn. destruct (0 <? nw); reflexivity.
Qed.

(* set_allowance: when it succeeds and what it leaves behind *)
Lemma set_allowance_spec hc nw t o s amt lu t' : wf_host hc ->
  set_allowance hc nw t o s amt lu = Ok t' ->
  0 <= amt /\ lu <= max_live_until hc nw /\ (0 < amt -> nw <= lu) /\
  bals t' = bals t /\ supply t' = supply t /\
  (forall o' s', (o', s') <> (o, s) -> aentry t' o' s' = aentry t o' s') /\
  exists ttl, aentry t' o s = Some {| tval := (amt, lu); tlive := ttl |} /\ nw <= ttl /\ (0 < amt -> lu <= ttl) /\
              (forall en, tlive_at nw (aentry t o s) = Some en -> tlive en <= ttl).
Proof.
  intros W H. unfold set_allowance in H. inv_ok. apply Z.leb_le in E.
  apply negb_true_iff in E0. apply orb_false_iff in E0. destruct E0 as [E0 E1].
  apply Z.ltb_ge in E0.
  assert (P : 0 < amt -> nw <= lu).
  { intros Hp. apply andb_false_iff in E1. destruct E1 as [E1|E1]; [apply Z.ltb_ge in E1; lia|apply Z.ltb_ge in E1; lia]. }
  (* the entry after tset *)
  assert (TS : exists ttl0, tset hc nw (aentry t o s) (amt, lu) = Some {| tval := (amt, lu); tlive := ttl0 |} /\ nw <= ttl0 /\
                            (forall en, tlive_at nw (aentry t o s) = Some en -> tlive en = ttl0)).
  { unfold tset. destruct (tlive_at nw (aentry t o s)) as [en|] eqn:L.
    - exists (tlive en). apply tlive_at_some in L. destruct L as [_ L]. split; auto. split; auto.
      intros en' Q. injection Q; intros; subst; auto.
    - exists (nw + min_temp_ttl hc - 1). unfold wf_host in W. split; auto. split; [lia|]. intros en' Q. discriminate. }
  destruct TS as (ttl0 & TS & L0 & K0).
  destruct (0 <? amt) eqn:Pa.
  - apply Z.ltb_lt in Pa. specialize (P Pa). inv_ok. rewrite TS in E2.
    unfold textend in E2. rewrite Z.ltb_irrefl in E2.
    rewrite tlive_at_live in E2 by (cbn; lia).
    destruct (max_ttl hc - 1 <? lu - nw); [discriminate|]. cbn [tlive tval] in E2.
    replace (nw + (lu - nw)) with lu in E2 by lia.
    repeat split; auto.
    + intros o' s' Hn. apply aentry_set_aentry_neq; auto.
    + destruct ((ttl0 - nw <=? lu - nw) && (ttl0 <? lu)) eqn:X; inv_ok.
      * apply andb_true_iff in X. destruct X as [_ X]. apply Z.ltb_lt in X.
        exists lu. rewrite aentry_set_aentry_eq. repeat split; auto; try lia.
        intros en Q. rewrite (K0 _ Q). lia.
      * exists ttl0. rewrite aentry_set_aentry_eq. repeat split; auto.
        -- intros _. apply andb_false_iff in X. destruct X as [X|X]; [apply Z.leb_gt in X|apply Z.ltb_ge in X]; lia.
        -- intros en Q. rewrite (K0 _ Q). lia.
  - apply Z.ltb_ge in Pa. inv_ok. repeat split; auto.
    + intros o' s' Hn. apply aentry_set_aentry_neq; auto.
    + exists ttl0. rewrite aentry_set_aentry_eq. rewrite TS. repeat split; auto; try lia.
      intros en Q. rewrite (K0 _ Q). lia.
Qed.

(* after a successful set_allowance the getter reads what was written (zero once lu has passed) *)
Lemma set_allowance_reads hc nw t o s amt lu t' : wf_host hc ->
  set_allowance hc nw t o s amt lu = Ok t' ->
  stored nw t' o s = Some (amt, lu) /\
  allowance_data nw t' o s = (if lu <? nw then (0, 0) else (amt, lu)) /\
  (forall o' s', (o', s') <> (o, s) -> stored nw t' o' s' = stored nw t o' s' /\ allowance_data nw t' o' s' = allowance_data nw t o' s').
Proof.
  intros W H. destruct (set_allowance_spec _ _ _ _ _ _ _ _ W H) as (_ & _ & _ & _ & _ & Fr & ttl & En & L & _ & _).
  assert (S : stored nw t' o s = Some (amt, lu)).
  { unfold stored, tget. rewrite En. rewrite tlive_at_live by (cbn; lia). reflexivity. }
  split; auto. split.
  - rewrite allowance_data_stored, S. reflexivity.
  - intros o' s' Hn. rewrite !allowance_data_stored. unfold stored. rewrite (Fr _ _ Hn). auto.
Qed.

(* spend_allowance *)
Lemma spend_allowance_spec hc nw t o s amt t1 : wf_host hc ->
  spend_allowance hc nw t o s amt = Ok t1 ->
  0 <= amt /\ amt <= allowance nw t o s /\
  bals t1 = bals t /\ supply t1 = supply t /\
  (forall o' s', (o', s') <> (o, s) -> aentry t1 o' s' = aentry t o' s') /\
  (amt = 0 -> t1 = t) /\
  (0 < amt ->
     let d := allowance_data nw t o s in
     nw <= snd d /\ stored nw t o s = Some d /\
     set_allowance hc nw t o s (fst d - amt) (snd d) = Ok t1 /\
     stored nw t1 o s = Some (fst d - amt, snd d) /\
     allowance_data nw t1 o s = (fst d - amt, snd d)).
Proof.
  intros W H. unfold spend_allowance in H. inv_ok. apply Z.leb_le in E. apply Z.leb_le in E0.
  fold (allowance nw t o s) in E0.
  destruct (0 <? amt) eqn:P.
  - apply Z.ltb_lt in P. inv_ok. apply checked_sub_some in E1. destruct E1 as [-> _].
    pose proof (set_allowance_spec _ _ _ _ _ _ _ _ W H) as (_ & _ & _ & B & S & Fr & _).
    split; auto. split; auto. split; auto. split; auto. split; auto. split; [intros; lia|].
    intros _. cbn zeta.
    (* the allowance read was positive, hence a live entry with live_until >= now *)
    assert (D : stored nw t o s = Some (allowance_data nw t o s) /\ nw <= snd (allowance_data nw t o s)).
    { unfold allowance in E0. rewrite allowance_data_stored in *. destruct (stored nw t o s) as [d|]; [|cbn in E0; lia].
      destruct (snd d <? nw) eqn:L; [cbn in E0; lia|]. apply Z.ltb_ge in L. auto. }
    destruct D as [D1 D2].
    destruct (set_allowance_reads _ _ _ _ _ _ _ _ W H) as (R1 & R2 & _).
    repeat split; auto. rewrite R2.
    destruct (snd (allowance_data nw t o s) <? nw) eqn:L; auto. apply Z.ltb_lt in L. lia.
  - apply Z.ltb_ge in P. inv_ok. repeat split; auto; try lia.
Qed.

(* ------------------------------------------------------------------------- *)
(* the allowance invariant: amounts are non-negative and a positive allowance is outlived
   by its temporary storage entry (it never dies early) *)
Definition allow_inv (t : tok) : Prop :=
  forall o s en, aentry t o s = Some en ->
    0 <= fst (tval en) /\ (0 < fst (tval en) -> snd (tval en) <= tlive en).

Lemma allow_inv_tok0 : allow_inv tok0.
Proof. intros o s en H. discriminate. Qed.

Lemma allow_inv_ext t t' : allows t' = allows t -> allow_inv t -> allow_inv t'.
Proof. intros A I o s en H. unfold aentry in H. rewrite A in H. apply (I o s en H). Qed.

Lemma set_allowance_allow_inv hc nw t o s amt lu t' : wf_host hc -> allow_inv t ->
  set_allowance hc nw t o s amt lu = Ok t' -> allow_inv t'.
Proof.
  intros W I H. destruct (set_allowance_spec _ _ _ _ _ _ _ _ W H) as (P & _ & _ & _ & _ & Fr & ttl & En & _ & Out & _).
  intros o' s' en Q. destruct (N.eq_dec o' o) as [->|Ho]; [destruct (N.eq_dec s' s) as [->|Hs]|].
  - rewrite En in Q. injection Q; intros; subst. cbn. auto.
  - rewrite Fr in Q by congruence. apply (I _ _ _ Q).
  - rewrite Fr in Q by congruence. apply (I _ _ _ Q).
Qed.

Lemma spend_allowance_allow_inv hc nw t o s amt t1 : wf_host hc -> allow_inv t ->
  spend_allowance hc nw t o s amt = Ok t1 -> allow_inv t1.
Proof.
  intros W I H. destruct (spend_allowance_spec _ _ _ _ _ _ _ W H) as (P & _ & _ & _ & _ & Z0 & Pos).
  destruct (Z.eq_dec amt 0) as [->|N0]; [rewrite Z0; auto|].
  assert (0 < amt) by lia. destruct (Pos H0) as (_ & _ & SA & _). eapply set_allowance_allow_inv; eauto.
Qed.

Lemma update_allow_inv t f to amt t' : tok_inv t -> allow_inv t -> update t f to amt = Ok t' -> allow_inv t'.
Proof.
  intros I A H. destruct (update_spec _ _ _ _ _ I H) as (_ & _ & _ & Al & _). eapply allow_inv_ext; eauto.
Qed.

(* consequences for what the getters report *)
Lemma allow_inv_reported nw t o s : allow_inv t ->
  let d := allowance_data nw t o s in
  0 <= fst d /\
  (0 < fst d -> nw <= snd d /\ exists en, aentry t o s = Some en /\ tval en = d /\ snd d <= tlive en /\ nw <= tlive en).
Proof.
  intros I. cbn zeta. rewrite allowance_data_stored. unfold stored, tget.
  destruct (tlive_at nw (aentry t o s)) as [en|] eqn:L; [|cbn; split; [lia|intros; lia]].
  apply tlive_at_some in L. destruct L as [L1 L2]. destruct (I _ _ _ L1) as [P1 P2].
  destruct (snd (tval en) <? nw) eqn:X; [cbn; split; [lia|intros; lia]|].
  apply Z.ltb_ge in X. split; auto. intros Hp. split; auto. exists en. auto.
Qed.
