(* C08: facts about the history machine alone (no model): what a ghost entry says about
   the run log it was computed from. *)
From SC Require Import Lib.Prelude Lib.Int Lib.Host Model.Timelock Model.TimelockGhost.

Section WithHash.
  Variable hash : op -> id.
  Notation gstep := (gstep hash).
  Notation gfold := (gfold hash).
  Notation subject := (subject hash).

  Lemma gfold_app g A B :
    gfold g (A ++ B) = match gfold g A with Some g' => gfold g' B | None => None end.
  Proof.
    revert g. induction A as [|e A IH]; intros g; cbn [app TimelockGhost.gfold]; auto.
    destruct (gstep g (he_now e) (he_min e) (he_call e) (he_ok e)); auto.
  Qed.

  Lemma N_eqb_false_neq (a b : N) : a <> b -> N.eqb a b = false.
  Proof. intros H. apply N.eqb_neq. exact H. Qed.

  (* an event that fails, or that names another id, leaves the entry of [i] alone *)
  Lemma gstep_other g now mind c ok g' i :
    gstep g now mind c ok = Some g' ->
    (ok = false \/ subject c <> Some i) ->
    alist_get i g' = alist_get i g.
  Proof.
    unfold TimelockGhost.gstep. destruct ok; cbn [negb].
    2:{ intros H _. inversion H. reflexivity. }
    intros H [Hc|Hs]; [discriminate|].
    assert (Hset : forall j v, Some j <> Some i -> alist_get i (alist_set j v g) = alist_get i g).
    { intros j v Hj. apply alist_get_set_neq. intros ->. apply Hj. reflexivity. }
    destruct c as [o d|o t|o|j|d|n]; cbn [TimelockGhost.subject] in Hs.
    - destruct (alist_get (hash o) g); [discriminate|]. destruct mind; [|discriminate].
      destruct ((z <=? d) && in_u32 d); [|discriminate]. inversion H. apply Hset. exact Hs.
    - destruct t; [|discriminate]. unfold g_execute in H.
      destruct (alist_get (hash o) g) as [[a d m|]|]; try discriminate.
      destruct (_ && _); [|discriminate]. inversion H. apply Hset. exact Hs.
    - unfold g_execute in H.
      destruct (alist_get (hash o) g) as [[a d m|]|]; try discriminate.
      destruct (_ && _); [|discriminate]. inversion H. apply Hset. exact Hs.
    - destruct (alist_get j g) as [[a d m|]|]; try discriminate. inversion H.
      apply alist_get_remove_neq. intros ->. apply Hs. reflexivity.
    - inversion H. reflexivity.
    - inversion H. reflexivity.
  Qed.

  (* a successful event naming [i]: what it needs and what it leaves *)
  Lemma gstep_subject g now mind c g' i :
    gstep g now mind c true = Some g' -> subject c = Some i ->
    match c with
    | Schedule o d =>
        alist_get i g = None /\ exists m, mind = Some m /\ (m <= d /\ 0 <= d <= MAXU32) /\ alist_get i g' = Some (GP now d m)
    | Execute o t =>
        t = true /\ exists a d m, alist_get i g = Some (GP a d m) /\ sat_add_u32 a d <= now
          /\ (pred o = 0%N \/ alist_get (pred o) g = Some GD) /\ alist_get i g' = Some GD
    | SetExecute o =>
        exists a d m, alist_get i g = Some (GP a d m) /\ sat_add_u32 a d <= now
          /\ (pred o = 0%N \/ alist_get (pred o) g = Some GD) /\ alist_get i g' = Some GD
    | Cancel _ => (exists a d m, alist_get i g = Some (GP a d m)) /\ alist_get i g' = None
    | _ => False
    end.
  Proof.
    unfold TimelockGhost.gstep; cbn [negb].
    assert (Hex : forall o, g_execute hash g now o = Some g' -> hash o = i ->
              exists a d m, alist_get i g = Some (GP a d m) /\ sat_add_u32 a d <= now
                /\ (pred o = 0%N \/ alist_get (pred o) g = Some GD) /\ alist_get i g' = Some GD).
    { intros o H <-. unfold g_execute in H.
      destruct (alist_get (hash o) g) as [[a d m|]|] eqn:E; try discriminate.
      destruct (sat_add_u32 a d <=? now) eqn:E1; cbn [andb] in H; [|discriminate].
      destruct (N.eqb (pred o) 0 || g_is_done g (pred o)) eqn:E2; [|discriminate].
      inversion H. exists a, d, m. split; [reflexivity|]. split; [apply Z.leb_le; exact E1|].
      split; [|apply alist_get_set_eq].
      apply orb_true_iff in E2. destruct E2 as [E2|E2]; [left; apply N.eqb_eq; exact E2|right].
      unfold g_is_done in E2. destruct (alist_get (pred o) g) as [[| ]|]; try discriminate. reflexivity. }
    destruct c as [o d|o t|o|j|d|n]; cbn [TimelockGhost.subject]; intros H Hs; try discriminate.
    - inversion Hs; subst i. destruct (alist_get (hash o) g); [discriminate|]. split; [reflexivity|].
      destruct mind as [m|]; [|discriminate]. destruct ((m <=? d) && in_u32 d) eqn:E; [|discriminate].
      apply andb_true_iff in E. destruct E as [E1 E2]. apply Z.leb_le in E1.
      unfold in_u32 in E2. apply andb_true_iff in E2. destruct E2 as [E2 E3]. apply Z.leb_le in E2, E3.
      inversion H. exists m. split; [reflexivity|]. split; [lia|]. apply alist_get_set_eq.
    - destruct t; [|discriminate]. split; [reflexivity|]. injection Hs as Hi. apply (Hex o); auto.
    - injection Hs as Hi. apply (Hex o); auto.
    - inversion Hs; subst j. destruct (alist_get i g) as [[a d m|]|] eqn:E; try discriminate.
      inversion H. split; [eauto|]. apply alist_get_remove_eq.
  Qed.

  (* executed stays executed; nothing succeeds on an executed id *)
  Lemma gstep_done_stays g now mind c ok g' i :
    gstep g now mind c ok = Some g' -> alist_get i g = Some GD ->
    alist_get i g' = Some GD /\ (subject c = Some i -> ok = false).
  Proof.
    intros H Hd. destruct ok.
    - destruct (subject c) as [j|] eqn:Es.
      + destruct (N.eq_dec j i) as [->|Hn].
        * exfalso. pose proof (gstep_subject _ _ _ _ _ _ H Es) as P.
          destruct c; try exact P.
          -- destruct P as [P _]. congruence.
          -- destruct P as [_ (a & d & m & P & _)]. congruence.
          -- destruct P as (a & d & m & P & _). congruence.
          -- destruct P as [(a & d & m & P) _]. congruence.
        * split; [|congruence].
          rewrite (gstep_other _ _ _ _ _ _ i H); auto. right. congruence.
      + split; [|intros Hx; discriminate Hx]. rewrite (gstep_other _ _ _ _ _ _ i H); auto. right. congruence.
    - split; [|reflexivity]. rewrite (gstep_other _ _ _ _ _ _ i H); auto.
  Qed.

  Lemma gfold_done_stays H : forall g g' i,
    gfold g H = Some g' -> alist_get i g = Some GD ->
    alist_get i g' = Some GD /\ forall x, In x H -> subject (he_call x) = Some i -> he_ok x = false.
  Proof.
    induction H as [|e H IH]; intros g g' i Hf Hd; cbn [TimelockGhost.gfold] in Hf.
    - inversion Hf; subst. split; [exact Hd|]. intros x [].
    - destruct (gstep g (he_now e) (he_min e) (he_call e) (he_ok e)) as [g1|] eqn:E; [|discriminate].
      destruct (gstep_done_stays _ _ _ _ _ _ i E Hd) as [Hd1 He].
      destruct (IH _ _ i Hf Hd1) as [Hd' Hall]. split; [exact Hd'|].
      intros x [<-|Hx]; auto.
  Qed.

  (* where a pending entry comes from: the last successful schedule of that id, after
     which nothing succeeded on the id *)
  Lemma gfold_pending H : forall g g' i a d m,
    gfold g H = Some g' -> alist_get i g' = Some (GP a d m) ->
    (alist_get i g = Some (GP a d m) /\ forall x, In x H -> subject (he_call x) = Some i -> he_ok x = false)
    \/ exists Ha o Hb, H = Ha ++ HE (Schedule o d) a (Some m) true :: Hb /\ hash o = i /\ (m <= d /\ 0 <= d <= MAXU32)
         /\ (forall x, In x Hb -> subject (he_call x) = Some i -> he_ok x = false)
         /\ exists ga, gfold g Ha = Some ga /\ alist_get i ga = None.
  Proof.
    induction H as [|e H IH]; intros g g' i a d m Hf Hp; cbn [TimelockGhost.gfold] in Hf.
    - inversion Hf; subst. left. split; [exact Hp|]. intros x [].
    - destruct (gstep g (he_now e) (he_min e) (he_call e) (he_ok e)) as [g1|] eqn:E; [|discriminate].
      destruct (IH _ _ _ _ _ _ Hf Hp) as [[Hg1 Hno]|(Ha & o & Hb & -> & Ho & Hmd & Hno & ga & Hga & Hnone)].
      + (* the entry was already there after e *)
        destruct (he_ok e) eqn:Eok.
        * destruct (subject (he_call e)) as [j|] eqn:Es.
          -- destruct (N.eq_dec j i) as [->|Hn].
             ++ (* e is a successful call on i leaving GP: it is the schedule *)
                pose proof (gstep_subject _ _ _ _ _ _ E Es) as P.
                destruct e as [c en em eo]; cbn [he_call he_now he_min he_ok] in *. subst eo.
                destruct c as [o d'|o t|o|j|d'|n]; try (exfalso; exact P).
                ** destruct P as [Hnone (m' & -> & Hmd & Hg)]. rewrite Hg in Hg1. injection Hg1 as -> -> ->.
                   injection Es as Hi.
                   right. exists [], o, H. cbn [app]. split; [reflexivity|]. split; [exact Hi|].
                   split; [lia|]. split; [exact Hno|].
                   exists g. split; [reflexivity|exact Hnone].
                ** exfalso. destruct P as [_ (a' & d' & m' & _ & _ & _ & P)]. congruence.
                ** exfalso. destruct P as (a' & d' & m' & _ & _ & _ & P). congruence.
                ** exfalso. destruct P as [_ P]. congruence.
             ++ left. rewrite <- (gstep_other _ _ _ _ _ _ i E); [|right; congruence].
                split; [exact Hg1|]. intros x [<-|Hx]; auto. rewrite Es. congruence.
          -- left. rewrite <- (gstep_other _ _ _ _ _ _ i E); [|right; congruence].
             split; [exact Hg1|]. intros x [<-|Hx]; auto. rewrite Es. intros Hx; discriminate Hx.
        * left. rewrite <- (gstep_other _ _ _ _ _ _ i E); [|left; reflexivity].
          split; [exact Hg1|]. intros x [<-|Hx]; auto.
      + right. exists (e :: Ha), o, Hb. cbn [app]. repeat split; auto; try lia.
        exists ga. split; [|exact Hnone]. cbn [TimelockGhost.gfold]. rewrite E. exact Hga.
  Qed.

  (* where an executed entry comes from: a successful execute of an operation with that id *)
  Lemma gfold_done H : forall g g' i,
    gfold g H = Some g' -> alist_get i g' = Some GD ->
    alist_get i g = Some GD
    \/ exists x o, In x H /\ he_ok x = true /\ executes (he_call x) = Some o /\ hash o = i.
  Proof.
    induction H as [|e H IH]; intros g g' i Hf Hp; cbn [TimelockGhost.gfold] in Hf.
    - inversion Hf; subst. left. exact Hp.
    - destruct (gstep g (he_now e) (he_min e) (he_call e) (he_ok e)) as [g1|] eqn:E; [|discriminate].
      destruct (IH _ _ _ Hf Hp) as [Hg1|(x & o & Hx & Hok & Hex & Ho)].
      + destruct (he_ok e) eqn:Eok.
        * destruct (subject (he_call e)) as [j|] eqn:Es.
          -- destruct (N.eq_dec j i) as [->|Hn].
             ++ pose proof (gstep_subject _ _ _ _ _ _ E Es) as P.
                destruct (he_call e) as [o d'|o t|o|j|d'|n] eqn:Ec; try (exfalso; exact P).
                ** exfalso. destruct P as [_ (m' & _ & _ & P)]. congruence.
                ** right. exists e, o. rewrite Ec. cbn. inversion Es. auto.
                ** right. exists e, o. rewrite Ec. cbn. inversion Es. auto.
                ** exfalso. destruct P as [_ P]. congruence.
             ++ left. rewrite <- (gstep_other _ _ _ _ _ _ i E); auto. right. congruence.
          -- left. rewrite <- (gstep_other _ _ _ _ _ _ i E); auto. right. congruence.
        * left. rewrite <- (gstep_other _ _ _ _ _ _ i E); auto.
      + right. exists x, o. cbn [In]. auto.
  Qed.

  (* after a successful execute of an operation with id [i] the entry is GD *)
  Lemma gstep_exec_done g now mind c g' o :
    gstep g now mind c true = Some g' -> executes c = Some o -> alist_get (hash o) g' = Some GD.
  Proof.
    intros H Hx. destruct c; cbn in Hx; inversion Hx; subst.
    - pose proof (gstep_subject _ _ _ _ _ (hash o) H eq_refl) as P. cbn in P.
      destruct P as [_ (a & d & m & _ & _ & _ & P)]. exact P.
    - pose proof (gstep_subject _ _ _ _ _ (hash o) H eq_refl) as P. cbn in P.
      destruct P as (a & d & m & _ & _ & _ & P). exact P.
  Qed.
End WithHash.
