(* Consecutive flavour, set level: the sparse-marker ownership inference refines the plain
   ownership map.  Invariant CInv and its preservation by batch_mint / transfer / burn. *)
From SC Require Import Lib.Prelude Lib.Int Lib.Host Model.Nft Run.NftCommon Proofs.NftMaps Proofs.NftFrame.
Local Open Scope N_scope.

(* owner_of without the bucket bookkeeping: the owner stored at the least marked id >= j *)
Definition cown (s : state) (j : N) : option addr :=
  if (j <? next_id s) && negb (memN j (burned s)) then
    match least_ge (marks s) j with
    | Some m => aget N.eqb m (owner s)
    | None => None
    end
  else None.

Lemma filter_all {A} (f : A -> bool) l : (forall x, In x l -> f x = true) -> filter f l = l.
Proof.
  induction l as [|a r IH]; cbn; intros H; [reflexivity|].
  rewrite (H a (or_introl eq_refl)). f_equal. apply IH. intros x Hx. apply H. right. exact Hx.
Qed.

Lemma cons_owner_of_cown c s j :
  (forall m, In m (marks s) -> m < next_id s) -> cons_owner_of c s j = cown s j.
Proof.
  intros H1. unfold cons_owner_of, cown.
  destruct (next_id s =? 0) eqn:E0.
  - apply N.eqb_eq in E0. rewrite E0. destruct (j <? 0) eqn:E; [apply N.ltb_lt in E; lia | reflexivity].
  - apply N.eqb_neq in E0. cbv zeta.
    destruct (memN j (burned s)); cbn [orb negb andb]; [rewrite andb_false_r; reflexivity|].
    rewrite andb_true_r.
    destruct (next_id s - 1 <? j) eqn:E1.
    + apply N.ltb_lt in E1. destruct (j <? next_id s) eqn:E2; [apply N.ltb_lt in E2; lia | reflexivity].
    + apply N.ltb_ge in E1. destruct (j <? next_id s) eqn:E2; [|apply N.ltb_ge in E2; lia].
      unfold scan. rewrite filter_all; [reflexivity|].
      intros x Hx. apply N.leb_le. specialize (H1 x Hx).
      destruct (N.eq_dec (ids_in_bucket c) 0) as [Ez|Ez].
      * rewrite Ez. destruct x, (next_id s - 1); cbn; lia.
      * apply N.div_le_mono; [exact Ez | lia].
Qed.

(* ---------- least_ge over a set that gained one element ---------- *)
Lemma least_ge_add l l' i j :
  (forall x, In x l' <-> x = i \/ In x l) ->
  least_ge l' j =
    if j <=? i then match least_ge l j with Some m => Some (N.min i m) | None => Some i end
    else least_ge l j.
Proof.
  intros Hl. destruct (j <=? i) eqn:E.
  - apply N.leb_le in E. destruct (least_ge l j) as [m|] eqn:E2.
    + destruct (least_ge_some _ _ _ E2) as (Hin&Hlo&Hmin).
      apply least_ge_intro.
      * apply Hl. destruct (N.min_spec i m) as [[_ ->]|[_ ->]]; [left; reflexivity | right; exact Hin].
      * lia.
      * intros x Hx Hjx. apply Hl in Hx. destruct Hx as [->|Hx]; [lia|]. specialize (Hmin x Hx Hjx). lia.
    + apply least_ge_intro.
      * apply Hl. left. reflexivity.
      * exact E.
      * intros x Hx Hjx. apply Hl in Hx. destruct Hx as [->|Hx]; [lia|].
        pose proof (least_ge_none _ _ E2 x Hx). lia.
  - apply N.leb_gt in E. destruct (least_ge l j) as [m|] eqn:E2.
    + destruct (least_ge_some _ _ _ E2) as (Hin&Hlo&Hmin).
      apply least_ge_intro; [apply Hl; right; exact Hin | exact Hlo |].
      intros x Hx Hjx. apply Hl in Hx. destruct Hx as [->|Hx]; [lia | exact (Hmin x Hx Hjx)].
    + destruct (least_ge l' j) as [m'|] eqn:E3; [|reflexivity].
      destruct (least_ge_some _ _ _ E3) as (Hin&Hlo&_). apply Hl in Hin. destruct Hin as [->|Hin]; [lia|].
      pose proof (least_ge_none _ _ E2 m' Hin). lia.
Qed.

(* no element in [j, i): the scan from j and from i find the same thing *)
Lemma least_ge_shift l j i : j <= i -> (forall x, In x l -> j <= x -> i <= x) -> least_ge l j = least_ge l i.
Proof.
  intros Hji Hno. destruct (least_ge l i) as [m|] eqn:E.
  - destruct (least_ge_some _ _ _ E) as (Hin&Hlo&Hmin).
    apply least_ge_intro; [exact Hin | lia |]. intros x Hx Hjx. apply Hmin; [exact Hx | apply Hno; assumption].
  - destruct (least_ge l j) as [m|] eqn:E2; [|reflexivity].
    destruct (least_ge_some _ _ _ E2) as (Hin&Hlo&_). pose proof (least_ge_none _ _ E m Hin).
    specialize (Hno m Hin Hlo). lia.
Qed.

Lemma marks_mark s i x : In x (marks (mark s i)) <-> x = i \/ In x (marks s).
Proof.
  unfold mark. destruct (memN i (marks s)) eqn:E.
  - apply memN_In in E. split; [intros H; right; exact H | intros [->|H]; assumption].
  - cbn [marks set_marks]. split; (intros [H|H]; [left; congruence | right; exact H]).
Qed.

(* ---------- the invariant ---------- *)
Definition CInv (s : state) (R : N -> option addr) : Prop :=
  (forall m, In m (marks s) -> m < next_id s) /\
  (forall i a, aget N.eqb i (owner s) = Some a -> In i (marks s) /\ ~ In i (burned s)) /\
  (forall m, In m (marks s) -> aget N.eqb m (owner s) <> None \/ In m (burned s)) /\
  (forall b, In b (burned s) -> b < next_id s) /\
  (forall b, In b (burned s) -> 0 < b -> In (b - 1) (marks s) \/ In (b - 1) (burned s)) /\
  (forall j, cown s j = R j) /\
  (forall j, j < next_id s -> ~ In j (burned s) -> R j <> None).

Lemma cinv_init now0 : CInv (init now0) (fun _ => None).
Proof.
  unfold CInv. cbn. repeat split; try (intros; contradiction); try (intros; discriminate).
  - intros j. unfold cown. cbn. destruct (j <? 0) eqn:E; [apply N.ltb_lt in E; lia | reflexivity].
  - intros j H. lia.
Qed.

(* a burned run is preceded by a marked id: if b is burned and nothing in [j, b] is marked then j is burned *)
Lemma burned_chain s R : CInv s R -> forall n j b, b - j = n -> j <= b ->
  In b (burned s) -> (forall x, In x (marks s) -> j <= x -> b < x) -> In j (burned s).
Proof.
  intros (_&_&_&_&H7&_&_). induction n as [|n IH] using N.peano_ind; intros j b Hn Hjb Hb Hno.
  - assert (j = b) by lia. subst. exact Hb.
  - assert (Hpos : 0 < b) by lia.
    destruct (H7 b Hb Hpos) as [Hm|Hb'].
    + specialize (Hno (b - 1) Hm). lia.
    + apply (IH j (b - 1)); [lia | lia | exact Hb' |]. intros x Hx Hjx. specialize (Hno x Hx Hjx). lia.
Qed.

Definition same_cons (s s' : state) : Prop :=
  next_id s' = next_id s /\ owner s' = owner s /\ marks s' = marks s /\ burned s' = burned s.
Lemma cown_same s s' : same_cons s s' -> forall j, cown s' j = cown s j.
Proof. intros (A&B&C&D) j. unfold cown. rewrite A, B, C, D. reflexivity. Qed.
Lemma cinv_same s s' R : same_cons s s' -> CInv s R -> CInv s' R.
Proof.
  intros Hs H. pose proof (cown_same s s' Hs) as Hc. destruct Hs as (A&B&C&D).
  unfold CInv in *. rewrite A, B, C, D. destruct H as (H1&H2&H3&H4&H5&H6&H7).
  repeat split; try assumption; try (intros; apply H2 with (a := a); assumption).
  intros j. rewrite Hc. apply H6.
Qed.

(* fields of after_prev when it acts *)
Lemma after_prev_needs s f i : prev_needs s i = true ->
  0 < i /\ i < next_id s /\ aget N.eqb (i - 1) (owner s) = None /\ ~ In (i - 1) (burned s) /\
  next_id (after_prev s f i) = next_id s /\ burned (after_prev s f i) = burned s /\
  owner (after_prev s f i) = aset N.eqb (i - 1) f (owner s) /\
  (forall x, In x (marks (after_prev s f i)) <-> x = i - 1 \/ In x (marks s)).
Proof.
  intros Hp. unfold after_prev. rewrite Hp. unfold prev_needs in Hp.
  apply andb_true_iff in Hp. destruct Hp as [Hp Hb]. apply andb_true_iff in Hp. destruct Hp as [Hz Ho].
  apply negb_true_iff in Hz. apply orb_false_iff in Hz. destruct Hz as [Hz1 Hz2].
  apply N.eqb_neq in Hz1. apply N.leb_gt in Hz2.
  apply negb_true_iff, memN_false in Hb.
  destruct (aget N.eqb (i - 1) (owner s)) eqn:Eo; [discriminate|].
  destruct (mark_fields (set_owner s (aset N.eqb (i - 1) f (owner s))) (i - 1)) as (A&B&C&D&E&F&G&H).
  split; [lia|]. split; [exact Hz2|]. split; [reflexivity|]. split; [exact Hb|].
  split; [rewrite B; reflexivity|]. split; [rewrite G; reflexivity|]. split; [rewrite C; reflexivity|].
  intros x. rewrite marks_mark. reflexivity.
Qed.

Lemma cinv_after_prev s R f i : CInv s R -> cown s i = Some f ->
  CInv (after_prev s f i) R /\
  (i = 0 \/ In (i - 1) (marks (after_prev s f i)) \/ In (i - 1) (burned (after_prev s f i))).
Proof.
  intros Hinv Hi. pose proof Hinv as (H1&H2&H3&H4&H5&H6&H7).
  assert (Hlive : i < next_id s /\ ~ In i (burned s)).
  { unfold cown in Hi. destruct (i <? next_id s) eqn:E1; [|discriminate].
    destruct (memN i (burned s)) eqn:E2; [discriminate|]. apply N.ltb_lt in E1. apply memN_false in E2. auto. }
  destruct (prev_needs s i) eqn:Hp.
  - destruct (after_prev_needs s f i Hp) as (Hpos&_&Hno&Hnb&An&Ab&Ao&Am).
    set (s2 := after_prev s f i) in *.
    assert (Hnm : ~ In (i - 1) (marks s)).
    { intros Hm. destruct (H3 _ Hm) as [X|X]; [apply X; exact Hno | exact (Hnb X)]. }
    assert (Hcown : forall j, cown s2 j = cown s j).
    { intros j. unfold cown. rewrite An, Ab.
      destruct ((j <? next_id s) && negb (memN j (burned s))) eqn:El; [|reflexivity].
      rewrite (least_ge_add (marks s) (marks s2) (i - 1) j Am).
      destruct (j <=? i - 1) eqn:Ej.
      - apply N.leb_le in Ej.
        destruct (least_ge (marks s) j) as [m|] eqn:El2.
        + destruct (least_ge_some _ _ _ El2) as (Hin&Hlo&Hmin).
          assert (m <> i - 1) by (intros ->; exact (Hnm Hin)).
          destruct (N.lt_ge_cases m (i - 1)) as [Hlt|Hge].
          * rewrite N.min_r by lia. rewrite Ao, (aget_aset N.eqb Neqb_spec).
            destruct (m =? i - 1) eqn:Em; [apply N.eqb_eq in Em; lia | reflexivity].
          * rewrite N.min_l by lia. rewrite Ao, (aget_aset_eq N.eqb Neqb_spec).
            (* the scan from j and from i agree *)
            assert (Hs : least_ge (marks s) j = least_ge (marks s) i).
            { apply least_ge_shift; [lia|]. intros x Hx Hjx. specialize (Hmin x Hx Hjx). lia. }
            unfold cown in Hi. destruct Hlive as [Hl1 Hl2]. apply N.ltb_lt in Hl1. apply memN_false in Hl2.
            rewrite Hl1, Hl2 in Hi. cbn [negb andb] in Hi. rewrite <- Hs, El2 in Hi. symmetry. exact Hi.
        + (* no mark at or above j, hence none at or above i: contradiction with cown s i = Some f *)
          exfalso. unfold cown in Hi. destruct Hlive as [Hl1 Hl2]. apply N.ltb_lt in Hl1. apply memN_false in Hl2.
          rewrite Hl1, Hl2 in Hi. cbn [negb andb] in Hi.
          destruct (least_ge (marks s) i) as [m|] eqn:E3; [|discriminate].
          destruct (least_ge_some _ _ _ E3) as (Hin&Hlo&_). pose proof (least_ge_none _ _ El2 m Hin). lia.
      - apply N.leb_gt in Ej. destruct (least_ge (marks s) j) as [m|] eqn:El2; [|reflexivity].
        destruct (least_ge_some _ _ _ El2) as (Hin&Hlo&_).
        rewrite Ao, (aget_aset N.eqb Neqb_spec). destruct (m =? i - 1) eqn:Em; [apply N.eqb_eq in Em; lia | reflexivity]. }
    split.
    + unfold CInv. rewrite An, Ab. repeat split.
      * intros m Hm. apply Am in Hm. destruct Hm as [->|Hm]; [lia | apply H1; exact Hm].
      * rewrite Ao, (aget_aset N.eqb Neqb_spec) in H. apply Am.
        destruct (i0 =? i - 1) eqn:E; [apply N.eqb_eq in E; left; exact E | right; exact (proj1 (H2 _ _ H))].
      * rewrite Ao, (aget_aset N.eqb Neqb_spec) in H.
        destruct (i0 =? i - 1) eqn:E; [apply N.eqb_eq in E; subst; exact Hnb | exact (proj2 (H2 _ _ H))].
      * intros m Hm. apply Am in Hm. rewrite Ao, (aget_aset N.eqb Neqb_spec).
        destruct (m =? i - 1) eqn:E; [left; discriminate|].
        destruct Hm as [->|Hm]; [rewrite N.eqb_refl in E; discriminate | apply H3; exact Hm].
      * exact H4.
      * intros b Hb Hb0. destruct (H5 b Hb Hb0) as [X|X]; [left; apply Am; right; exact X | right; exact X].
      * intros j. rewrite Hcown. apply H6.
      * exact H7.
    + right. left. apply Am. left. reflexivity.
  - assert (after_prev s f i = s) by (unfold after_prev; rewrite Hp; reflexivity).
    rewrite H. split; [exact Hinv|].
    unfold prev_needs in Hp. destruct Hlive as [Hl1 Hl2].
    destruct (i =? 0) eqn:E0; [apply N.eqb_eq in E0; left; exact E0|].
    destruct (next_id s <=? i) eqn:E1; [apply N.leb_le in E1; lia|].
    cbn [orb negb andb] in Hp.
    destruct (aget N.eqb (i - 1) (owner s)) as [a|] eqn:Eo.
    + right. left. exact (proj1 (H2 _ _ Eo)).
    + cbn [andb] in Hp. apply negb_false_iff in Hp. apply memN_In in Hp. right. right. exact Hp.
Qed.

(* a live id below i with no mark in [j, i) cannot exist once i's predecessor is marked or burned *)
Lemma no_gap s R i j : CInv s R ->
  (i = 0 \/ In (i - 1) (marks s) \/ In (i - 1) (burned s)) ->
  j < i -> ~ In j (burned s) -> (forall x, In x (marks s) -> j <= x -> i <= x) -> False.
Proof.
  intros Hinv HP Hji Hlive Hno.
  destruct HP as [->|[Hm|Hb]]; [lia | |].
  - specialize (Hno (i - 1) Hm). lia.
  - apply Hlive. apply (burned_chain s R Hinv (i - 1 - j) j (i - 1) eq_refl); [lia | exact Hb |].
    intros x Hx Hjx. specialize (Hno x Hx Hjx). lia.
Qed.

Definition cown_live (s : state) (j : N) : bool := (j <? next_id s) && negb (memN j (burned s)).

(* transfer: owner[i] := t, mark i *)
Lemma cinv_set s R s' i t :
  CInv s R -> i < next_id s -> ~ In i (burned s) ->
  (i = 0 \/ In (i - 1) (marks s) \/ In (i - 1) (burned s)) ->
  next_id s' = next_id s -> burned s' = burned s -> owner s' = aset N.eqb i t (owner s) ->
  (forall x, In x (marks s') <-> x = i \/ In x (marks s)) ->
  CInv s' (fun j => if j =? i then Some t else R j).
Proof.
  intros Hinv Hi Hnb HP An Ab Ao Am. pose proof Hinv as (H1&H2&H3&H4&H5&H6&H7).
  unfold CInv. rewrite An, Ab. repeat split.
  - intros m Hm. apply Am in Hm. destruct Hm as [->|Hm]; [exact Hi | apply H1; exact Hm].
  - rewrite Ao, (aget_aset N.eqb Neqb_spec) in H. apply Am.
    destruct (i0 =? i) eqn:E; [apply N.eqb_eq in E; left; exact E | right; exact (proj1 (H2 _ _ H))].
  - rewrite Ao, (aget_aset N.eqb Neqb_spec) in H.
    destruct (i0 =? i) eqn:E; [apply N.eqb_eq in E; subst; exact Hnb | exact (proj2 (H2 _ _ H))].
  - intros m Hm. apply Am in Hm. rewrite Ao, (aget_aset N.eqb Neqb_spec).
    destruct (m =? i) eqn:E; [left; discriminate|].
    destruct Hm as [->|Hm]; [rewrite N.eqb_refl in E; discriminate | apply H3; exact Hm].
  - exact H4.
  - intros b Hb Hb0. destruct (H5 b Hb Hb0) as [X|X]; [left; apply Am; right; exact X | right; exact X].
  - intros j. rewrite <- H6. unfold cown. rewrite An, Ab.
    destruct ((j <? next_id s) && negb (memN j (burned s))) eqn:El.
    + apply andb_true_iff in El. destruct El as [El1 El2]. apply N.ltb_lt in El1.
      apply negb_true_iff, memN_false in El2.
      rewrite (least_ge_add (marks s) (marks s') i j Am).
      destruct (j =? i) eqn:Eji.
      * apply N.eqb_eq in Eji. subst j. rewrite N.leb_refl.
        destruct (least_ge (marks s) i) as [m|] eqn:E2.
        -- destruct (least_ge_some _ _ _ E2) as (_&Hlo&_). rewrite N.min_l by lia.
           rewrite Ao. apply (aget_aset_eq N.eqb Neqb_spec).
        -- rewrite Ao. apply (aget_aset_eq N.eqb Neqb_spec).
      * apply N.eqb_neq in Eji. destruct (j <=? i) eqn:Ej.
        -- apply N.leb_le in Ej. assert (Hlt : j < i) by lia.
           destruct (least_ge (marks s) j) as [m|] eqn:E2.
           ++ destruct (least_ge_some _ _ _ E2) as (Hin&Hlo&Hmin).
              destruct (N.lt_ge_cases m i) as [Hmi|Hmi].
              ** rewrite N.min_r by lia. rewrite Ao, (aget_aset N.eqb Neqb_spec).
                 destruct (m =? i) eqn:Em; [apply N.eqb_eq in Em; lia | reflexivity].
              ** exfalso. apply (no_gap s R i j Hinv HP Hlt El2).
                 intros x Hx Hjx. specialize (Hmin x Hx Hjx). lia.
           ++ exfalso. apply (no_gap s R i j Hinv HP Hlt El2).
              intros x Hx Hjx. pose proof (least_ge_none _ _ E2 x Hx). lia.
        -- apply N.leb_gt in Ej. destruct (least_ge (marks s) j) as [m|] eqn:E2; [|reflexivity].
           destruct (least_ge_some _ _ _ E2) as (_&Hlo&_).
           rewrite Ao, (aget_aset N.eqb Neqb_spec). destruct (m =? i) eqn:Em; [apply N.eqb_eq in Em; lia | reflexivity].
    + destruct (j =? i) eqn:Eji; [|reflexivity]. apply N.eqb_eq in Eji. subst j.
      apply andb_false_iff in El. destruct El as [El|El].
      * apply N.ltb_ge in El. lia.
      * apply negb_false_iff, memN_In in El. contradiction.
  - intros j Hj Hjb. destruct (j =? i); [discriminate | apply H7; assumption].
Qed.

(* burn: owner[i] removed, burned += i *)
Lemma cinv_burn s R s' i :
  CInv s R -> i < next_id s -> ~ In i (burned s) ->
  (i = 0 \/ In (i - 1) (marks s) \/ In (i - 1) (burned s)) ->
  next_id s' = next_id s -> burned s' = i :: burned s -> owner s' = arem N.eqb i (owner s) ->
  marks s' = marks s ->
  CInv s' (fun j => if j =? i then None else R j).
Proof.
  intros Hinv Hi Hnb HP An Ab Ao Am. pose proof Hinv as (H1&H2&H3&H4&H5&H6&H7).
  unfold CInv. rewrite An, Ab, Am. repeat split.
  - exact H1.
  - rewrite Ao, (aget_arem N.eqb Neqb_spec) in H. destruct (i0 =? i); [discriminate | exact (proj1 (H2 _ _ H))].
  - rewrite Ao, (aget_arem N.eqb Neqb_spec) in H. destruct (i0 =? i) eqn:E; [discriminate|].
    apply N.eqb_neq in E. intros [X|X]; [congruence | exact (proj2 (H2 _ _ H) X)].
  - intros m Hm. rewrite Ao, (aget_arem N.eqb Neqb_spec).
    destruct (m =? i) eqn:E; [apply N.eqb_eq in E; right; left; congruence|].
    destruct (H3 m Hm) as [X|X]; [left; exact X | right; right; exact X].
  - intros b [<-|Hb]; [exact Hi | apply H4; exact Hb].
  - intros b [<-|Hb] Hb0.
    + destruct HP as [->|[X|X]]; [lia | left; exact X | right; right; exact X].
    + destruct (H5 b Hb Hb0) as [X|X]; [left; exact X | right; right; exact X].
  - intros j. unfold cown. rewrite An, Ab, Am.
    destruct (j =? i) eqn:Eji.
    + apply N.eqb_eq in Eji. subst j. cbn [memN existsb]. rewrite N.eqb_refl. cbn [orb negb]. rewrite andb_false_r. reflexivity.
    + rewrite <- H6. unfold cown. cbn [memN existsb]. rewrite Eji. cbn [orb]. fold (memN j (burned s)).
      destruct ((j <? next_id s) && negb (memN j (burned s))) eqn:El; [|reflexivity].
      apply andb_true_iff in El. destruct El as [El1 El2]. apply N.ltb_lt in El1.
      apply negb_true_iff, memN_false in El2. apply N.eqb_neq in Eji.
      destruct (least_ge (marks s) j) as [m|] eqn:E2; [|reflexivity].
      destruct (least_ge_some _ _ _ E2) as (Hin&Hlo&Hmin).
      rewrite Ao, (aget_arem N.eqb Neqb_spec). destruct (m =? i) eqn:Em; [|reflexivity].
      apply N.eqb_eq in Em. subst m. exfalso.
      apply (no_gap s R i j Hinv HP); [lia | exact El2 |]. intros x Hx Hjx. apply Hmin; assumption.
  - intros j Hj Hjb. destruct (j =? i) eqn:E.
    + apply N.eqb_eq in E. subst. exfalso. apply Hjb. left. reflexivity.
    + apply H7; [exact Hj|]. intros X. apply Hjb. right. exact X.
Qed.

(* batch_mint: ids nx .. nx+amt-1 to `to`: one mark and one owner entry at the last id *)
Lemma cinv_batch s R s' to amt :
  CInv s R -> amt <> 0 ->
  next_id s' = next_id s + amt -> burned s' = burned s ->
  owner s' = aset N.eqb (next_id s + amt - 1) to (owner s) ->
  (forall x, In x (marks s') <-> x = next_id s + amt - 1 \/ In x (marks s)) ->
  CInv s' (fun j => if (next_id s <=? j) && (j <=? next_id s + amt - 1) then Some to else R j).
Proof.
  intros Hinv Hz An Ab Ao Am. pose proof Hinv as (H1&H2&H3&H4&H5&H6&H7).
  set (last := next_id s + amt - 1) in *.
  assert (Hlast : next_id s <= last /\ last < next_id s + amt) by (unfold last; lia).
  assert (HR : forall j, next_id s <= j -> R j = None).
  { intros j Hj. rewrite <- H6. unfold cown. destruct (j <? next_id s) eqn:E; [apply N.ltb_lt in E; lia | reflexivity]. }
  unfold CInv. rewrite An, Ab. repeat split.
  - intros m Hm. apply Am in Hm. destruct Hm as [->|Hm]; [lia | specialize (H1 m Hm); lia].
  - rewrite Ao, (aget_aset N.eqb Neqb_spec) in H. apply Am.
    destruct (i =? last) eqn:E; [apply N.eqb_eq in E; left; exact E | right; exact (proj1 (H2 _ _ H))].
  - rewrite Ao, (aget_aset N.eqb Neqb_spec) in H.
    destruct (i =? last) eqn:E; [|exact (proj2 (H2 _ _ H))].
    apply N.eqb_eq in E. subst i. intros X. specialize (H4 _ X). lia.
  - intros m Hm. apply Am in Hm. rewrite Ao, (aget_aset N.eqb Neqb_spec).
    destruct (m =? last) eqn:E; [left; discriminate|].
    destruct Hm as [->|Hm]; [rewrite N.eqb_refl in E; discriminate | apply H3; exact Hm].
  - intros b Hb. specialize (H4 b Hb). lia.
  - intros b Hb Hb0. destruct (H5 b Hb Hb0) as [X|X]; [left; apply Am; right; exact X | right; exact X].
  - intros j. unfold cown. rewrite An, Ab.
    rewrite (least_ge_add (marks s) (marks s') last j Am).
    destruct (N.lt_ge_cases j (next_id s)) as [Hj|Hj].
    + (* an old id *)
      assert (E1 : (next_id s <=? j) = false) by (apply N.leb_gt; exact Hj). rewrite E1. cbn [andb].
      rewrite <- H6. unfold cown.
      assert (E2 : (j <? next_id s + amt) = true) by (apply N.ltb_lt; lia).
      assert (E3 : (j <? next_id s) = true) by (apply N.ltb_lt; exact Hj). rewrite E2, E3. cbn [andb].
      destruct (negb (memN j (burned s))) eqn:Eb; [|reflexivity].
      apply negb_true_iff, memN_false in Eb.
      assert (E4 : (j <=? last) = true) by (apply N.leb_le; lia). rewrite E4.
      destruct (least_ge (marks s) j) as [m|] eqn:E5.
      * destruct (least_ge_some _ _ _ E5) as (Hin&_&_). specialize (H1 m Hin).
        rewrite N.min_r by lia. rewrite Ao, (aget_aset N.eqb Neqb_spec).
        destruct (m =? last) eqn:Em; [apply N.eqb_eq in Em; lia | reflexivity].
      * exfalso. apply (H7 j Hj Eb). rewrite <- H6. unfold cown. rewrite E3, E5.
        destruct (negb (memN j (burned s))); reflexivity.
    + assert (E1 : (next_id s <=? j) = true) by (apply N.leb_le; exact Hj). rewrite E1. cbn [andb].
      destruct (j <=? last) eqn:E4.
      * apply N.leb_le in E4.
        assert (E2 : (j <? next_id s + amt) = true) by (apply N.ltb_lt; lia). rewrite E2.
        assert (Eb : memN j (burned s) = false) by (apply memN_false; intros X; specialize (H4 _ X); lia).
        rewrite Eb. cbn [negb andb].
        destruct (least_ge (marks s) j) as [m|] eqn:E5.
        -- destruct (least_ge_some _ _ _ E5) as (Hin&Hlo&_). specialize (H1 m Hin). lia.
        -- rewrite Ao. apply (aget_aset_eq N.eqb Neqb_spec).
      * apply N.leb_gt in E4.
        assert (E2 : (j <? next_id s + amt) = false) by (apply N.ltb_ge; lia). rewrite E2. cbn [andb].
        symmetry. apply HR. exact Hj.
  - intros j Hj Hjb.
    destruct ((next_id s <=? j) && (j <=? last)) eqn:E; [discriminate|].
    apply H7; [|exact Hjb]. apply andb_false_iff in E. destruct E as [E|E]; [apply N.leb_gt in E; exact E | apply N.leb_gt in E; lia].
Qed.

Lemma cinv_ext s R R' : CInv s R -> (forall j, R j = R' j) -> CInv s R'.
Proof.
  intros (H1&H2&H3&H4&H5&H6&H7) He. unfold CInv. repeat split; try assumption.
  - apply (H2 _ _ H).
  - apply (H2 _ _ H).
  - intros j. rewrite <- He. apply H6.
  - intros j A B. rewrite <- He. apply H7; assumption.
Qed.

Lemma cown_live_of s j a : cown s j = Some a -> j < next_id s /\ ~ In j (burned s).
Proof.
  unfold cown. destruct (j <? next_id s) eqn:E1; [|discriminate].
  destruct (memN j (burned s)) eqn:E2; [discriminate|]. intros _.
  apply N.ltb_lt in E1. apply memN_false in E2. auto.
Qed.

(* Consecutive::update with a `from`: transfer (to = Some t) or burn (to = None) *)
Lemma cons_move c s R f to id s' :
  CInv s R -> update FCons c s (Some f) to id = Ok s' ->
  CInv s' (fun j => if j =? id then to else R j).
Proof.
  intros Hinv Hu. apply update_cons_from in Hu. destruct Hu as (Ho&_&_&->).
  rewrite (cons_owner_of_cown c s id (proj1 Hinv)) in Ho.
  assert (Hs1 : same_cons s (upd_from s f id)) by (unfold same_cons, upd_from; cbn; auto).
  pose proof (cinv_same _ _ R Hs1 Hinv) as Hinv1.
  rewrite <- (cown_same _ _ Hs1) in Ho.
  destruct (cinv_after_prev _ R f id Hinv1 Ho) as [Hinv2 HP].
  set (s2 := after_prev (upd_from s f id) f id) in *.
  assert (Ho2 : cown s2 id = Some f).
  { destruct Hinv2 as (_&_&_&_&_&H6&_). destruct Hinv1 as (_&_&_&_&_&H6'&_). rewrite H6, <- H6'. exact Ho. }
  destruct (cown_live_of _ _ _ Ho2) as [Hl1 Hl2].
  destruct to as [t|]; cbn [cons_upd_to].
  - match goal with |- CInv (mark ?S id) _ => destruct (mark_fields S id) as (A&B&C&D&E&F&G&H); pose proof (marks_mark S id) as Hm; set (M := mark S id) in * end.
    apply (cinv_set s2 R M id t Hinv2 Hl1 Hl2 HP).
    + rewrite B. reflexivity.
    + rewrite G. reflexivity.
    + rewrite C. reflexivity.
    + intros x. rewrite Hm. reflexivity.
  - apply (cinv_burn s2 R _ id Hinv2 Hl1 Hl2 HP); reflexivity.
Qed.

Lemma cons_step c s g cl s' r :
  CInv s (rget (g_own g)) -> exec FCons c s cl = Ok (s', r) ->
  CInv s' (rget (g_own (ghost_step g cl (Ok r)))).
Proof.
  intros Hinv H. destruct cl; cbn [exec] in H; cbn [ghost_step g_own].
  - inversion H; subst. eapply cinv_same; [|exact Hinv]. unfold same_cons; cbn; auto.
  - discriminate.
  - discriminate.
  - inv_res H. apply andb_true_iff in G. destruct G as [Ga Gb].
    apply negb_true_iff, N.eqb_neq in Ga.
    unfold increment_token_id in G0. inv_res G0. subst x.
    cbv beta iota zeta in H. inv_res H. subst.
    apply increase_balance_ok in G0. destruct G0 as [_ ->].
    apply set_ownership_in_bucket_ok in G1. destruct G1 as [_ ->].
    match goal with |- context [if ?b then ?A else ?B] => change (if b then A else B) with (mark A (next_id s + amount - 1)) end.
    match goal with |- context [mark ?S ?i] => destruct (mark_fields S i) as (A'&B'&C'&D'&E'&F'&G'&H'); pose proof (marks_mark S i) as Hm; set (M := mark S i) in * end.
    cbn [g_own].
    eapply cinv_ext.
    + eapply (cinv_batch s _ _ to amount Hinv Ga).
      * cbn [next_id set_owner]. rewrite B'. reflexivity.
      * cbn [burned set_owner]. rewrite G'. reflexivity.
      * cbn [owner set_owner]. rewrite C'. reflexivity.
      * cbn [marks set_owner]. intros x. rewrite Hm. reflexivity.
    + intros j. cbn [rget]. replace (next_id s + amount - 1 + 1 - amount) with (next_id s) by lia. reflexivity.
  - inv_res H. subst. cbn in G1. inversion G1; subst. eapply cons_move; eassumption.
  - inv_res H. subst. cbn in G2. inversion G2; subst. eapply cons_move; eassumption.
  - inv_res H. subst. cbn in G1. inversion G1; subst. eapply cons_move; eassumption.
  - inv_res H. subst. cbn in G2. inversion G2; subst. eapply cons_move; eassumption.
  - inv_res H. subst. apply approve_for_owner_ok in G1. destruct G1 as [_ [[_ ->]|(_&_&en&_&_&->)]];
      (eapply cinv_same; [|exact Hinv]); unfold same_cons; cbn; auto.
  - inv_res H. subst. apply approve_for_all_ok in G. destruct G as [_ [[_ ->]|(_&_&en&_&_&->)]];
      (eapply cinv_same; [|exact Hinv]); unfold same_cons; cbn; auto.
Qed.
