(* C12: when is ZERO the exact answer?  The only sound "dust" shortcut of Wad multiply / divide.
   A fast path that returns 0 without computing is correct exactly on |a*b| < 10^18 (multiply) and on
   |a*10^18| < |b| (divide); at |a| = |b| = 10^9 = sqrt(10^18) the product is one whole raw unit. *)
From SC Require Import Lib.Prelude Lib.Int Model.Math Proofs.Math Run.C12.
From Coq Require Import ZArith Lia.
Open Scope Z_scope.

Lemma fit128_zero_iff q : fit128 q = Some 0 <-> q = 0.
Proof.
  split.
  - destruct (fit128_case q) as [[-> _]|[-> _]]; [intros [= ->]; reflexivity | discriminate].
  - intros ->. reflexivity.
Qed.

Lemma wad_mul_zero_iff a b : MIN128 <= a <= MAX128 -> MIN128 <= b <= MAX128 ->
  (wad_checked_mul a b = Ok (Some 0) <-> Z.abs (a * b) < 10 ^ 18).
Proof.
  intros Ha Hb. rewrite wad_checked_mul_ok by auto. unfold trunc_div, WAD.
  split.
  - intros [= H]. apply fit128_zero_iff in H.
    apply Z.quot_small_iff in H; [|lia]. rewrite (Z.abs_eq (10 ^ 18)) in H by lia. exact H.
  - intros H. f_equal. apply fit128_zero_iff. apply Z.quot_small_iff; [lia|].
    rewrite (Z.abs_eq (10 ^ 18)) by lia. exact H.
Qed.

Lemma wad_div_zero_iff a b : MIN128 <= a <= MAX128 -> MIN128 <= b <= MAX128 ->
  (wad_checked_div a b = Ok (Some 0) <-> b <> 0 /\ Z.abs (a * 10 ^ 18) < Z.abs b).
Proof.
  intros Ha Hb. rewrite wad_checked_div_ok by auto. unfold trunc_div, WAD.
  destruct (Z.eqb_spec b 0) as [->|Hn].
  - split; [discriminate | intros [H _]; congruence].
  - split.
    + intros [= H]. apply fit128_zero_iff in H. apply Z.quot_small_iff in H; auto.
    + intros [_ H]. f_equal. apply fit128_zero_iff. apply Z.quot_small_iff; auto.
Qed.

(* the smallest magnitudes whose product is NOT dust: both exactly sqrt(scale) *)
Lemma wad_mul_sqrt_scale :
  wad_checked_mul (10 ^ 9) (10 ^ 9) = Ok (Some 1) /\ wad_checked_mul (10 ^ 9) (- 10 ^ 9) = Ok (Some (-1)) /\
  wad_checked_mul (- 10 ^ 9) (- 10 ^ 9) = Ok (Some 1) /\ wad_checked_mul (10 ^ 9) (10 ^ 9 - 1) = Ok (Some 0).
Proof. vm_compute. repeat split. Qed.

(* the monitor rejects, by itself, the observation "0.000000001 * 0.000000001 = 0" (and its divide sibling) *)
Lemma monitor_rejects_dust_at_threshold :
  check [(WadCMul (10 ^ 9) (10 ^ 9), Ok (Some 0))] = (1%N, 1%N, 0%N) /\
  check [(WadCMul (10 ^ 9) (10 ^ 9 - 1), Ok (Some 0)); (WadCMul (- 10 ^ 9) (10 ^ 9), Ok (Some 0))] = (2%N, 2%N, 0%N) /\
  check [(WadCDiv 1 (10 ^ 18), Ok (Some 0))] = (1%N, 1%N, 0%N) /\
  check [(WadCDiv 1 (10 ^ 18 + 1), Ok (Some 0)); (WadCMul (10 ^ 9) (10 ^ 9), Ok (Some 1))] = (0%N, 0%N, 0%N).
Proof. vm_compute. repeat split. Qed.
