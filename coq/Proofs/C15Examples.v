(* C15: concrete instances - non-vacuity of the theorems and bad traces the monitor rejects. *)
From SC Require Import Lib.Prelude Lib.Int Lib.Host Model.ClaimIssuer Model.Identity Run.C15
  Proofs.C15Base Proofs.C15Bytes Proofs.C15Verify Proofs.C15Issuer Proofs.C15Registry Proofs.C15Ident
  Proofs.C15World Proofs.C15Final Proofs.C15Monitor Proofs.C15Foreign.

(* contracts: registry 0, identity registry 1, identity 2, issuers 3 and 4; account 10 *)
Definition ex_pk : bytes := B 32 7.
Definition ex_sig : bytes := B 64 9.
Definition ex_data : bytes := be64 5 ++ be64 100 ++ [42].          (* created 5, valid until 100 *)
Definition ex_xdr : list (addr * bytes) := [(2%N, [2]); (3%N, [3]); (4%N, [4])].
Definition ex_net : bytes := B 32 1.
Definition ex_msg (nonce : Z) : bytes := build_claim_message ex_net [3] [2] 1 nonce ex_data.

Definition ex_hdr : hdr :=
  HDR ex_net 50 ex_xdr [(101, ex_pk, ex_msg 0, ex_sig, 0)] 15 50 50 20 15
      [0%N] [1%N] [2%N] [3%N; 4%N] [10%N] [3%N; 4%N; 9%N] [1; 2] [(ex_pk, 101)] [(2%N, 1, ex_data)] [].

Definition ex_claim : claim := CL 1 101 3%N (ex_pk ++ ex_sig) ex_data 0.

Definition ex_history : list call :=
  [AddTopic 0%N 1; AddIssuer 0%N 3%N [1]; AllowKey 3%N ex_pk 0%N 101 1; AddIdentity 1%N 10%N 2%N 1;
   SetCti 0%N; SetIrs 1%N; AddClaim 2%N ex_claim; Verify 10%N].
Definition ex_world : world := run (cfg_of ex_hdr) (init_of ex_hdr) ex_history.
(* the model's trace of a history, every observation asking the header's revocation queries *)
Definition mt (ks : list call) : list item := model_trace ex_hdr (init_of ex_hdr) (map (fun k => (k, h_revq ex_hdr)) ks).
Definition last_obs (ks : list call) : obs := observe ex_hdr (run (cfg_of ex_hdr) (init_of ex_hdr) ks).

(* a reachable state in which an account is verified by a genuine claim of a trusted issuer *)
Example ex_verified : verify_identity (cfg_of ex_hdr) ex_world 10%N = Ok tt.
Proof. vm_compute. reflexivity. Qed.
(* ... and stops being verified when the issuer is de-listed, the claim revoked, the nonce bumped,
   the key removed, the claim expired, or a second topic without issuer becomes required *)
Example ex_not_verified_after :
  forallb (fun k => negb (is_ok (verify_identity (cfg_of ex_hdr) (fst (step (cfg_of ex_hdr) ex_world k)) 10%N)))
    [RemoveIssuer 0%N 3%N; SetRevoked 3%N 2%N 1 ex_data true; Invalidate 3%N 2%N 1;
     RemoveKey 3%N ex_pk 0%N 101 1; Advance 50; AddTopic 0%N 2; RemoveClaim 2%N (3%N, 1);
     ModifyIdentity 1%N 10%N 4%N] = true
  /\ is_ok (verify_identity (cfg_of ex_hdr) (fst (step (cfg_of ex_hdr) ex_world (Advance 49))) 10%N) = true.
Proof. vm_compute. split; reflexivity. Qed.

(* the run of the model on this history is accepted by the checker *)
Example ex_check_ok : check (ex_hdr, mt ex_history) = (0%N, 0%N, 0%N).
Proof. vm_compute. reflexivity. Qed.

(* ---- bad traces ---- *)
Definition set_verify (o : obs) (v : list bool) : obs :=
  {| o_now := o_now o; o_ctis := o_ctis o; o_irss := o_irss o; o_idents := o_idents o; o_issuers := o_issuers o;
     o_ver := {| vo_cti := vo_cti (o_ver o); vo_irs := vo_irs (o_ver o); vo_verify := v |} |}.
Fixpoint tamper_last (f : obs -> obs) (l : list item) : list item :=
  match l with
  | [] => []
  | [(k, out, o)] => [(k, out, f o)]
  | x :: r => x :: tamper_last f r
  end.

(* (a) the behaviour before the fix of F4: topic 1 required, nobody trusted for it, no claim at
   all - and the account reported as verified *)
Definition f4_trace : trace :=
  (ex_hdr, tamper_last (fun o => set_verify o [true])
             (mt [AddTopic 0%N 1; AddIdentity 1%N 10%N 2%N 1; SetCti 0%N; SetIrs 1%N])).
Example monitor_rejects_f4 : check f4_trace = (4%N, 4%N, 0%N).
Proof. vm_compute. reflexivity. Qed.

(* (b) the claim of a de-listed issuer still counted *)
Definition delisted_trace : trace :=
  (ex_hdr, tamper_last (fun o => set_verify o [true])
             (mt (ex_history ++ [RemoveIssuer 0%N 3%N]))).
Example monitor_rejects_delisted : check delisted_trace = (9%N, 9%N, 0%N).
Proof. vm_compute. reflexivity. Qed.

(* (c) a valid claim of a trusted issuer not honoured *)
Definition refused_trace : trace :=
  (ex_hdr, tamper_last (fun o => set_verify o [false]) (mt ex_history)).
Example monitor_rejects_refusal : check refused_trace = (8%N, 8%N, 0%N).
Proof. vm_compute. reflexivity. Qed.

(* (d) an issuer that still confirms a claim after its expiry / after revocation / after a nonce
   bump: the cell of the held claim says "confirmed" *)
Definition confirm_cell (o : obs) : obs :=
  {| o_now := o_now o; o_ctis := o_ctis o; o_irss := o_irss o;
     o_idents := map (fun dob => {| do_ids := do_ids dob;
                    do_claims := map (map (fun c => match c with
                                                    | Some cd => Some {| cd_claim := cd_claim cd; cd_confirmed := true; cd_info := cd_info cd |}
                                                    | None => None end)) (do_claims dob) |}) (o_idents o);
     o_issuers := o_issuers o; o_ver := o_ver o |}.
Definition still_confirmed (k : call) : trace :=
  (ex_hdr, tamper_last confirm_cell (mt (ex_history ++ [k]))).
Example monitor_rejects_stale_confirmation :
  map (fun k => snd (fst (check (still_confirmed k))))
      [Advance 50; SetRevoked 3%N 2%N 1 ex_data true; Invalidate 3%N 2%N 1; RemoveKey 3%N ex_pk 0%N 101 1]
  = [9%N; 9%N; 9%N; 9%N].
Proof. vm_compute. reflexivity. Qed.

(* (e) a nonce that does not move when signatures are invalidated *)
Definition stuck_nonce_trace : trace :=
  (ex_hdr, mt ex_history ++
           [(Invalidate 3%N 2%N 1, Ok VUnit, observe ex_hdr ex_world)]).
Example monitor_rejects_stuck_nonce : snd (fst (check stuck_nonce_trace)) = 9%N.
Proof. vm_compute. reflexivity. Qed.

(* (f) a removed key that get_keys_for_topic still lists for the topic *)
Definition set_issuers (o : obs) (l : list issuer_obs) : obs :=
  {| o_now := o_now o; o_ctis := o_ctis o; o_irss := o_irss o; o_idents := o_idents o; o_issuers := l; o_ver := o_ver o |}.
Definition stale_key_trace : trace :=
  (ex_hdr, tamper_last (fun o => set_issuers o (o_issuers (observe ex_hdr ex_world)))
             (mt (ex_history ++ [RemoveKey 3%N ex_pk 0%N 101 1]))).
Example monitor_rejects_stale_key : snd (fst (check stale_key_trace)) = 9%N.
Proof. vm_compute. reflexivity. Qed.

(* (g) a revocation that lapses while 600000 ledgers close: the flag is false again and the
   revoked claim is confirmed again *)
Definition lapsed_revocation_trace : trace :=
  (ex_hdr, tamper_last (fun _ => observe ex_hdr ex_world)
             (mt (ex_history ++ [SetRevoked 3%N 2%N 1 ex_data true; Ledger 600000 0]))).
Example monitor_rejects_lapsed_revocation : snd (fst (check lapsed_revocation_trace)) = 10%N.
Proof. vm_compute. reflexivity. Qed.


(* ---- traces of the adversarial review (all have a non-zero diff too; the point is the monitor) ---- *)
Definition map_cells (f : cdetail -> cdetail) (o : obs) : obs :=
  {| o_now := o_now o; o_ctis := o_ctis o; o_irss := o_irss o;
     o_idents := map (fun dob => {| do_ids := do_ids dob;
                    do_claims := map (map (fun c => match c with Some cd => Some (f cd) | None => None end)) (do_claims dob) |}) (o_idents o);
     o_issuers := o_issuers o; o_ver := o_ver o |}.
Fixpoint set_out (out : outcome) (l : list item) : list item :=
  match l with
  | [] => []
  | [(k, _, o)] => [(k, out, o)]
  | x :: r => x :: set_out out r
  end.
Definition mon_of (t : trace) : N := snd (fst (check t)).
Definition bad_sig : bytes := ex_pk ++ B 64 10.
Definition confirmed_cell (cd : cdetail) : cdetail :=
  {| cd_claim := cd_claim cd; cd_confirmed := true; cd_info := Some (Some true, false, 0) |}.
Definition hist_nokey : list call :=
  [AddTopic 0%N 1; AddIssuer 0%N 3%N [1]; AddIdentity 1%N 10%N 2%N 1; SetCti 0%N; SetIrs 1%N; ForceClaim 2%N (3%N, 1) 1 ex_claim].
Definition hdr_norevq : hdr := set_revq ex_hdr [].

(* answers of direct calls: a tampered / expired / keyless claim confirmed, a claim validated for
   another topic, Verify succeeding after de-listing or for an account outside the universe *)
Example monitor_rejects_call_answers :
  map mon_of
    [(ex_hdr, set_out (Ok VUnit) (mt (ex_history ++ [IsClaimValid 3%N 2%N 1 101 bad_sig ex_data])));
     (ex_hdr, set_out (Ok VUnit) (mt (ex_history ++ [Advance 60; IsClaimValid 3%N 2%N 1 101 (ex_pk ++ ex_sig) ex_data])));
     (ex_hdr, set_out (Ok VUnit) (mt (ex_history ++ [IsClaimValid 4%N 2%N 1 101 (ex_pk ++ ex_sig) ex_data])));
     (ex_hdr, set_out (Ok (VBool true)) (mt (ex_history ++ [ValidateClaim ex_claim 2 3%N 2%N])));
     (ex_hdr, set_out (Ok VUnit) (mt (ex_history ++ [RemoveIssuer 0%N 3%N; Verify 10%N])));
     (ex_hdr, set_out (Ok VUnit) (mt (ex_history ++ [Verify 11%N])));
     (ex_hdr, set_out Fail (mt ex_history))]                                      (* and a valid account refused by the call *)
  = [9%N; 10%N; 9%N; 9%N; 10%N; 9%N; 8%N].
Proof. vm_compute. reflexivity. Qed.

(* "key currently allowed" is the history of allow_key / remove_key, not the issuer's own getter *)
Example monitor_rejects_getter_says_allowed :
  map mon_of
    [(ex_hdr, tamper_last (fun o => set_verify (map_cells confirmed_cell o) [true]) (mt (ex_history ++ [RemoveKey 3%N ex_pk 0%N 101 1])));
     (ex_hdr, tamper_last (fun o => set_verify (map_cells confirmed_cell o) [true]) (mt hist_nokey))]
  = [9%N; 6%N].
Proof. vm_compute. reflexivity. Qed.

(* history: a nonce reset by a read-only call, a revocation lost by a failing call, successful
   removals / additions without effect, a revocation whose flag is not among the observed queries *)
Example monitor_rejects_history :
  map mon_of
    [(ex_hdr, mt (ex_history ++ [Invalidate 3%N 2%N 1]) ++ [(AuthorizedFor 3%N 0%N 1, Ok (VBool true), last_obs ex_history)]);
     (ex_hdr, mt (ex_history ++ [SetRevoked 3%N 2%N 1 ex_data true]) ++ [(AddTopic 0%N 1, Fail, last_obs ex_history)]);
     (ex_hdr, mt ex_history ++ [(RemoveIssuer 0%N 3%N, Ok VUnit, last_obs ex_history)]);
     (ex_hdr, mt ex_history ++ [(AddTopic 0%N 2, Ok VUnit, last_obs ex_history)]);
     (ex_hdr, mt ex_history ++ [(RemoveClaim 2%N (3%N, 1), Ok VUnit, last_obs ex_history)]);
     (ex_hdr, mt ex_history ++ [(RemoveIdentity 1%N 10%N, Ok VUnit, last_obs ex_history)]);
     (hdr_norevq, model_trace hdr_norevq (init_of hdr_norevq) (map (fun k => (k, [])) ex_history) ++
        [(SetRevoked 3%N 2%N 1 ex_data true, Ok VUnit, observe hdr_norevq (run (cfg_of hdr_norevq) (init_of hdr_norevq) ex_history))])]
  = [10%N; 10%N; 9%N; 9%N; 9%N; 9%N; 9%N].
Proof. vm_compute. reflexivity. Qed.

(* shape: a truncated list, an empty trace, a header without accounts *)
Example monitor_rejects_malformed :
  map mon_of
    [(ex_hdr, tamper_last (fun o => set_verify o []) (mt (ex_history ++ [RemoveIssuer 0%N 3%N])));
     (ex_hdr, []);
     (HDR ex_net 50 ex_xdr [] 15 50 50 20 15 [0%N] [1%N] [2%N] [3%N] [] [3%N] [1] [] [] [], mt ex_history)]
  = [9%N; 1%N; 1%N].
Proof. vm_compute. reflexivity. Qed.

(* a claim id that dangles under a topic that is NOT required does not excuse a refusal *)
Definition dangling_unrequired : list call :=
  ex_history ++ [ForceClaim 2%N (4%N, 2) 2 (CL 1 101 4%N [] [] 0); RemoveClaim 2%N (4%N, 2)].
Example monitor_rejects_refusal_with_unrelated_dangling_id :
  is_ok (verify_identity (cfg_of ex_hdr) (run (cfg_of ex_hdr) (init_of ex_hdr) dangling_unrequired) 10%N) = true /\
  get_claim_ids_by_topic (get_or ident0 2%N (w_idents (run (cfg_of ex_hdr) (init_of ex_hdr) dangling_unrequired))) 2 = [(4%N, 2)] /\
  check (ex_hdr, mt dangling_unrequired) = (0%N, 0%N, 0%N) /\
  mon_of (ex_hdr, tamper_last (fun o => set_verify o [false]) (mt dangling_unrequired)) = 10%N.
Proof. vm_compute. repeat split; reflexivity. Qed.

(* where the code is stricter than the text: the identity lists, under the REQUIRED topic, the claim
   id of a trusted issuer (4) but serves no claim for it; the code traps at get_claim and refuses,
   although issuer 3's valid claim would cover the topic.  The monitor accepts the refusal (and would
   accept success): the text does not decide for such an inconsistent identity contract. *)
Definition dangling_required : list call :=
  [AddTopic 0%N 1; AddIssuer 0%N 4%N [1]; AddIssuer 0%N 3%N [1]; AllowKey 3%N ex_pk 0%N 101 1; AddIdentity 1%N 10%N 2%N 1;
   SetCti 0%N; SetIrs 1%N; AddClaim 2%N ex_claim; Verify 10%N;
   ForceClaim 2%N (4%N, 1) 1 (CL 2 101 4%N [] [] 0); RemoveClaim 2%N (4%N, 1); Verify 10%N].
Example code_refuses_on_dangling_required_id :
  map (fun it : item => snd (fst it)) (mt dangling_required) =
    [Ok VUnit; Ok VUnit; Ok VUnit; Ok VUnit; Ok VUnit; Ok VUnit; Ok VUnit; Ok (VCid (3%N, 1)); Ok VUnit; Ok VUnit; Ok VUnit; Fail] /\
  check (ex_hdr, mt dangling_required) = (0%N, 0%N, 0%N).
Proof. vm_compute. split; reflexivity. Qed.

(* the oracle hypothesis of the nonce theorem is satisfiable: a table oracle binds messages as
   soon as its signatures are pairwise different *)
Example ex_oracle_binds : sig_binds_message (cfg_of ex_hdr).
Proof.
  intros scheme pk m m' sg rid H1 H2. cbn [cfg_of c_sigok ex_hdr h_sigs] in *. unfold sig_table in *. cbn [existsb] in *.
  rewrite orb_false_r in *. unfold sigrec_eqb in *.
  apply andb_true_iff in H1. destruct H1 as [H1 _]. apply andb_true_iff in H1. destruct H1 as [H1 _].
  apply andb_true_iff in H1. destruct H1 as [_ H1].
  apply andb_true_iff in H2. destruct H2 as [H2 _]. apply andb_true_iff in H2. destruct H2 as [H2 _].
  apply andb_true_iff in H2. destruct H2 as [_ H2].
  apply bytes_eqb_spec in H1. apply bytes_eqb_spec in H2. congruence.
Qed.

(* ---------------- foreign issuers ---------------- *)
(* contract 5 is a foreign issuer: its is_claim_valid returns the unit value for scheme numbers 200
   and 207 and something else (false, true, an error code, a trap) for every other scheme; 9 is not a
   contract.  Both are trusted for topic 1; the identity holds a claim of 5 with scheme 201. *)
Definition fx_hdr : hdr :=
  HDR ex_net 50 ex_xdr [] 15 50 50 20 15
      [0%N] [1%N] [2%N] [3%N] [10%N] [3%N; 5%N; 9%N] [1; 2] [] [] [(5%N, [200; 207])].
Definition fx_setup : list call :=
  [AddTopic 0%N 1; AddIssuer 0%N 5%N [1]; AddIssuer 0%N 9%N [1]; AddIdentity 1%N 10%N 2%N 1; SetCti 0%N; SetIrs 1%N].
Definition fx_claim (scheme : Z) : claim := CL 1 scheme 5%N [1] [2] 0.
Definition fx_mt (ks : list call) : list item := model_trace fx_hdr (init_of fx_hdr) (map (fun k => (k, [])) ks).
Definition fx_outs (ks : list call) : list outcome := map (fun it : item => snd (fst it)) (fx_mt ks).

(* a non-unit answer is not a confirmation: add_claim refuses, a claim stored behind the issuer's
   back does not verify, validate_claim says false; the unit answer confirms (an always-yes issuer
   is an issuer); and the checker accepts the model's run *)
Example foreign_issuer_model :
  fx_outs (fx_setup ++ [AddClaim 2%N (fx_claim 201); ForceClaim 2%N (5%N, 1) 1 (fx_claim 201); Verify 10%N;
                        ValidateClaim (fx_claim 201) 1 5%N 2%N; IsClaimValid 5%N 2%N 1 202 [] [];
                        ValidateClaim (fx_claim 200) 1 5%N 2%N; ValidateClaim (fx_claim 200) 1 9%N 2%N;
                        AddClaim 2%N (fx_claim 207); Verify 10%N; RemoveIssuer 0%N 5%N; Verify 10%N])
  = [Ok VUnit; Ok VUnit; Ok VUnit; Ok VUnit; Ok VUnit; Ok VUnit;
     Fail; Ok VUnit; Fail; Ok (VBool false); Fail; Ok (VBool true); Ok (VBool false);
     Ok (VCid (5%N, 1)); Ok VUnit; Ok VUnit; Fail]
  /\ check (fx_hdr, fx_mt (fx_setup ++ [AddClaim 2%N (fx_claim 201); ForceClaim 2%N (5%N, 1) 1 (fx_claim 201); Verify 10%N;
                                       AddClaim 2%N (fx_claim 207); Verify 10%N])) = (0%N, 0%N, 0%N).
Proof. vm_compute. split; reflexivity. Qed.

(* the seeded change "the call did not trap = confirmed": the issuer answered `false` (scheme 201),
   the implementation reports the account as verified / validate_claim as true / add_claim as stored *)
Definition fx_bad : list call := fx_setup ++ [ForceClaim 2%N (5%N, 1) 1 (fx_claim 201); Verify 10%N].
Example monitor_rejects_non_unit_answer_counted :
  map mon_of
    [(fx_hdr, tamper_last (fun o => set_verify o [true]) (fx_mt (fx_setup ++ [ForceClaim 2%N (5%N, 1) 1 (fx_claim 201)])));
     (fx_hdr, fx_mt (fx_setup ++ [ForceClaim 2%N (5%N, 1) 1 (fx_claim 201)])
                ++ [(ValidateClaim (fx_claim 201) 1 5%N 2%N, Ok (VBool true),
                     observe fx_hdr (run (cfg_of fx_hdr) (init_of fx_hdr) (fx_setup ++ [ForceClaim 2%N (5%N, 1) 1 (fx_claim 201)])))]);
     (fx_hdr, fx_mt fx_setup
                ++ [(AddClaim 2%N (fx_claim 201), Ok (VCid (5%N, 1)),
                     observe fx_hdr (run (cfg_of fx_hdr) (init_of fx_hdr) (fx_setup ++ [ForceClaim 2%N (5%N, 1) 1 (fx_claim 201)])))]);
     (* the non-contract address 9 reported as confirming *)
     (fx_hdr, tamper_last (map_cells confirmed_cell) (fx_mt (fx_setup ++ [ForceClaim 2%N (9%N, 1) 1 (CL 1 200 9%N [] [] 0)])))]
  = [7%N; 8%N; 7%N; 7%N].
Proof. vm_compute. reflexivity. Qed.

(* ---------------- duplicate entries in the registry ---------------- *)
(* a topic list naming a topic twice is accepted and the issuer is listed twice under the topic: every
   other clause of the monitor reads the lists as sets, [registry_nodup] rejects the state *)
Definition dup_cti (co : cti_obs) : cti_obs :=
  CO (co_topics co) (co_issuers co)
     (map (res_map (fun l => l ++ l)) (co_tissuers co)) (map (res_map (fun l => l ++ l)) (co_itopics co))
     (res_map (map (fun tl : Z * list addr => (fst tl, snd tl ++ snd tl))) (co_map co))
     (co_trusted co) (co_has co).
Definition dup_obs (o : obs) : obs :=
  {| o_now := o_now o; o_ctis := map dup_cti (o_ctis o); o_irss := o_irss o; o_idents := o_idents o;
     o_issuers := o_issuers o; o_ver := o_ver o |}.
Example monitor_rejects_duplicate_topic_list :
  co_itopics (hd (CO [] [] [] [] Fail [] []) (o_ctis (dup_obs (last_obs [AddTopic 0%N 1; AddIssuer 0%N 3%N [1]]))))
    = [Ok [1; 1]; Fail; Fail] /\
  mon_of (ex_hdr, mt [AddTopic 0%N 1] ++
                  [(AddIssuer 0%N 3%N [1; 1], Ok VUnit, dup_obs (last_obs [AddTopic 0%N 1; AddIssuer 0%N 3%N [1]]))]) = 2%N /\
  fx_outs [AddTopic 0%N 1; AddTopic 0%N 2; AddIssuer 0%N 3%N [1; 1]; AddIssuer 0%N 3%N [1; 2; 1]; AddIssuer 0%N 3%N [2; 1];
           UpdateIssuer 0%N 3%N [2; 2]; UpdateIssuer 0%N 3%N [1; 1]; UpdateIssuer 0%N 3%N [1]]
    = [Ok VUnit; Ok VUnit; Fail; Fail; Ok VUnit; Fail; Fail; Ok VUnit].
Proof. vm_compute. repeat split; reflexivity. Qed.
