(* Invariants of every reachable state of the fungible model (all flavours): supply = sum of
   balances, balances non-negative, event replay reproduces balances and supply, allowance
   entries outlive positive allowances. *)
From SC Require Import Lib.Prelude Lib.Int Lib.Host Model.Math Model.Fungible
  Proofs.FungibleBasics Proofs.FungibleExec Proofs.FungibleAllow.

(* the movement a call's events describe (every call emits at most one event) *)
Definition evs_move (evs : list event) : move :=
  match evs with [e] => ev_move e | _ => no_move end.

Definition bal_moved (t t' : tok) (m : move) : Prop :=
  let '(f, to, amt) := m in
  0 <= amt /\
  (forall x, balance t' x = ocredit (ocredit (balance t) f (- amt)) to amt x) /\
  supply t' = supply t + (if is_none f then amt else 0) - (if is_none to then amt else 0).

Lemma bal_moved_none t t' : bals t' = bals t -> supply t' = supply t -> bal_moved t t' no_move.
Proof. intros B S. unfold bal_moved, no_move, balance. cbn. rewrite B, S. repeat split; lia. Qed.

Lemma update_moved t t1 t' f to amt : tok_inv t -> bals t1 = bals t -> supply t1 = supply t ->
  update t1 f to amt = Ok t' -> bal_moved t t' (f, to, amt) /\ tok_inv t' /\ allows t' = allows t1.
Proof.
  intros I B S H. assert (I1 : tok_inv t1) by (eapply tok_inv_ext; eauto).
  destruct (update_spec _ _ _ _ _ I1 H) as (P & Bal & Sup & Al & _ & I').
  split; [|auto]. unfold bal_moved. split; auto. split.
  - intros x. rewrite Bal. unfold balance. rewrite B. reflexivity.
  - rewrite Sup, S. reflexivity.
Qed.

(* the part of the state invariant that only concerns the token core *)
Record core_inv (t : tok) : Prop := { ci_tok : tok_inv t; ci_allow : allow_inv t }.

Lemma core_inv_tok0 : core_inv tok0.
Proof. split; [apply tok_inv_tok0|apply allow_inv_tok0]. Qed.

(* every successful call moves balances exactly as its (at most one) event says, keeps the
   invariants, and touches only the keys it names *)
Lemma exec_balances c s cl s' v evs : wf_host (c_host c) -> core_inv (tk s) ->
  exec c s cl = Ok (s', v, evs) ->
  (length evs <= 1)%nat /\ bal_moved (tk s) (tk s') (evs_move evs) /\ core_inv (tk s').
Proof.
  intros W [I A] H. apply exec_spec in H. destruct H as (Sp & _ & _).
  assert (SAME : tk s' = tk s -> evs = [] -> (length evs <= 1)%nat /\ bal_moved (tk s) (tk s') (evs_move evs) /\ core_inv (tk s')).
  { intros E1 E2. subst evs. rewrite E1. cbn. split; [lia|]. split; [apply bal_moved_none; auto|split; auto]. }
  assert (UPD : forall t1 f to amt e, bals t1 = bals (tk s) -> supply t1 = supply (tk s) -> allow_inv t1 ->
                 update t1 f to amt = Ok (tk s') -> evs = [e] -> ev_move e = (f, to, amt) ->
                 (length evs <= 1)%nat /\ bal_moved (tk s) (tk s') (evs_move evs) /\ core_inv (tk s')).
  { intros t1 f to amt e B S A1 U Ee Em. subst evs. cbn [length evs_move]. rewrite Em. split; [lia|].
    destruct (update_moved _ _ _ _ _ _ I B S U) as (M & I' & Al). split; auto. split; auto.
    eapply allow_inv_ext; eauto. }
  assert (SPEND : forall o sp amt t1, spend_allowance (c_host c) (now s) (tk s) o sp amt = Ok t1 ->
                  bals t1 = bals (tk s) /\ supply t1 = supply (tk s) /\ allow_inv t1).
  { intros o sp amt t1 Hs. destruct (spend_allowance_spec _ _ _ _ _ _ _ W Hs) as (_ & _ & B & S & _).
    split; auto. split; auto. eapply spend_allowance_allow_inv; eauto. }
  destruct cl; unfold call_spec in Sp.
  - destruct Sp as (_ & E1 & E2 & _). auto.
  - destruct Sp as (U & E & _). eapply UPD; eauto.
  - destruct Sp as (_ & U & [m E] & _). eapply UPD; eauto.
  - destruct Sp as (_ & (t1 & Hs & U) & E & _). destruct (SPEND _ _ _ _ Hs) as (B & S & A1). eapply UPD; eauto.
  - destruct Sp as (_ & Hs & E & _). subst evs. cbn [length evs_move ev_move]. split; [lia|].
    destruct (set_allowance_spec _ _ _ _ _ _ _ _ W Hs) as (_ & _ & _ & B & S & _).
    split; [apply bal_moved_none; auto|]. split; [eapply tok_inv_ext; eauto|eapply set_allowance_allow_inv; eauto].
  - destruct Sp as (_ & U & E & _). eapply UPD; eauto.
  - destruct Sp as (_ & (t1 & Hs & U) & E & _). destruct (SPEND _ _ _ _ Hs) as (B & S & A1). eapply UPD; eauto.
  - destruct Sp as (E1 & _ & E2). subst s'. auto.
  - destruct Sp as (E1 & _ & E2). subst s'. auto.
  - destruct Sp as (E1 & _ & E2). subst s'. auto.
  - destruct Sp as (E1 & E2 & _). auto.
  - destruct Sp as (E1 & E2 & _). auto.
  - destruct Sp as (_ & U & E). eapply UPD; eauto.
  - destruct Sp as (_ & U & E). eapply UPD; eauto.
  - destruct Sp as (_ & (t1 & Hs & U) & E). destruct (N.eqb operator owner).
    + subst t1. eapply UPD; eauto.
    + destruct (SPEND _ _ _ _ Hs) as (B & S & A1). eapply UPD; eauto.
  - destruct Sp as (_ & (t1 & Hs & U) & E). destruct (N.eqb operator owner).
    + subst t1. eapply UPD; eauto.
    + destruct (SPEND _ _ _ _ Hs) as (B & S & A1). eapply UPD; eauto.
  - destruct Sp as (E1 & E2 & _). auto.
  - destruct Sp as (E1 & E2 & _). auto.
  - destruct Sp as (U & E & _). eapply UPD; eauto.
  - destruct Sp as (U & E & _). eapply UPD; eauto.
  - destruct Sp as [(_ & E1 & E2 & _)|(_ & U & E)]; [auto|eapply UPD; eauto].
  - destruct Sp as (E1 & E2 & _). auto.
  - destruct Sp as (E1 & E2 & _). auto.
  - destruct Sp as (E1 & E2 & _). auto.
  - destruct Sp as (E1 & E2 & _). auto.
  - destruct Sp as (E1 & E2 & _). auto.
Qed.

(* ------------------------------------------------------------------------- *)
(* replay of events *)

Definition ledger_ok (l : ledger) (t : tok) : Prop := (forall a, fst l a = balance t a) /\ snd l = supply t.

Lemma apply_move_ok l t t' m : ledger_ok l t -> bal_moved t t' m -> ledger_ok (apply_move l m) t'.
Proof.
  destruct m as [[f to] amt]. intros [L1 L2] (_ & B & S). unfold apply_move, ledger_ok. cbn [fst snd]. split.
  - intros a. rewrite B. destruct f as [x|], to as [y|]; cbn [ocredit]; unfold credit; rewrite ?L1; reflexivity.
  - rewrite S, L2. reflexivity.
Qed.

Lemma fold_events_ok l t t' evs : (length evs <= 1)%nat -> ledger_ok l t -> bal_moved t t' (evs_move evs) ->
  ledger_ok (fold_left apply_event evs l) t'.
Proof.
  intros Len L M. destruct evs as [|e [|e2 r]]; cbn [fold_left].
  - change (evs_move []) with no_move in M.
    assert (X : ledger_ok (apply_move l no_move) t') by (apply (apply_move_ok _ _ _ _ L M)).
    destruct X as [X1 X2]. unfold apply_move, no_move in X1, X2. cbn in X1, X2. split; [exact X1|lia].
  - apply (apply_move_ok _ _ _ _ L M).
  - cbn in Len. lia.
Qed.

(* ------------------------------------------------------------------------- *)
(* the invariant of every reachable state *)

Record state_inv (s : state) : Prop := {
  si_core : core_inv (tk s);
  si_replay : ledger_ok (replay (hist s)) (tk s)
}.

Lemma state_inv_init start : state_inv (init start).
Proof.
  split; [apply core_inv_tok0|]. cbn. unfold replay, ledger_ok. cbn. split; auto.
Qed.

Lemma step_inv c s cl : wf_host (c_host c) -> state_inv s -> state_inv (step_state c s cl).
Proof.
  intros W [C R]. unfold step_state, step. destruct (exec c s cl) as [[[s' v] evs]|] eqn:E; cbn [fst]; [|split; auto].
  destruct (exec_balances _ _ _ _ _ _ W C E) as (Len & M & C').
  split; [exact C'|]. cbn [tk w_hist hist].
  unfold replay. rewrite fold_left_app. apply (fold_events_ok _ (tk s)); auto.
Qed.

Lemma run_inv c s cs : wf_host (c_host c) -> state_inv s -> state_inv (run c s cs).
Proof.
  intros W. revert s. induction cs as [|cl r IH]; intros s I; cbn; auto. apply IH. apply step_inv; auto.
Qed.

Lemma reachable_inv c start cs : wf_host (c_host c) -> state_inv (run c (init start) cs).
Proof. intros W. apply run_inv; auto. apply state_inv_init. Qed.
