(* C18 - the base64url encoder of the code equals RFC 4648 section 5 (no padding) on
   every byte string; length; injectivity; the destination-buffer behaviour. *)
From SC Require Import Lib.Prelude Model.Base64.

(* ---------- finite enumeration over bytes / sextets ---------- *)
Definition zrange (n : nat) : list Z := map Z.of_nat (seq 0 n).

Lemma zrange_in : forall n a, 0 <= a < Z.of_nat n -> In a (zrange n).
Proof.
  intros n a H. unfold zrange. apply in_map_iff. exists (Z.to_nat a). split.
  - lia.
  - apply in_seq. lia.
Qed.

Lemma below_cases (n : nat) (P : Z -> bool) :
  forallb P (zrange n) = true -> forall a, 0 <= a < Z.of_nat n -> P a = true.
Proof.
  intros H a Ha. rewrite forallb_forall in H. apply H. apply zrange_in. exact Ha.
Qed.

Lemma is_byte_range : forall b, is_byte b = true <-> 0 <= b < 256.
Proof. intro b. unfold is_byte. rewrite andb_true_iff, Z.leb_le, Z.ltb_lt. tauto. Qed.

(* ---------- shifts and ors as arithmetic ---------- *)
Lemma lor_shiftl_add : forall hi lo k, 0 <= k -> 0 <= lo < 2 ^ k ->
  Z.lor (Z.shiftl hi k) lo = hi * 2 ^ k + lo.
Proof.
  intros hi lo k Hk Hlo.
  rewrite <- Z.lxor_lor.
  - rewrite <- Z.add_nocarry_lxor.
    + rewrite Z.shiftl_mul_pow2 by lia. reflexivity.
    + apply Z.bits_inj'. intros n Hn. rewrite Z.land_spec, Z.bits_0.
      destruct (Z.ltb_spec n k).
      * rewrite Z.shiftl_spec_low by lia. reflexivity.
      * rewrite andb_comm. replace lo with (lo mod 2 ^ k) by (apply Z.mod_small; lia).
        rewrite Z.mod_pow2_bits_high by lia. reflexivity.
  - apply Z.bits_inj'. intros n Hn. rewrite Z.land_spec, Z.bits_0.
    destruct (Z.ltb_spec n k).
    + rewrite Z.shiftl_spec_low by lia. reflexivity.
    + rewrite andb_comm. replace lo with (lo mod 2 ^ k) by (apply Z.mod_small; lia).
      rewrite Z.mod_pow2_bits_high by lia. reflexivity.
Qed.

Lemma val3_arith : forall a b c, 0 <= a < 256 -> 0 <= b < 256 -> 0 <= c < 256 ->
  val3 a b c = a * 65536 + b * 256 + c.
Proof.
  intros a b c Ha Hb Hc. unfold val3.
  replace (Z.shiftl a 16) with (Z.shiftl (Z.shiftl a 8) 8) by (rewrite Z.shiftl_shiftl by lia; reflexivity).
  rewrite <- Z.shiftl_lor.
  rewrite (lor_shiftl_add a b 8) by (change (2 ^ 8) with 256; lia).
  rewrite lor_shiftl_add by (change (2 ^ 8) with 256; lia).
  change (2 ^ 8) with 256. ring.
Qed.

Lemma val2_arith : forall a b, 0 <= a < 256 -> 0 <= b < 256 ->
  val2 a b = a * 65536 + b * 256.
Proof.
  intros a b Ha Hb. unfold val2.
  replace (Z.shiftl a 16) with (Z.shiftl (Z.shiftl a 8) 8) by (rewrite Z.shiftl_shiftl by lia; reflexivity).
  rewrite <- Z.shiftl_lor.
  rewrite (lor_shiftl_add a b 8) by (change (2 ^ 8) with 256; lia).
  rewrite Z.shiftl_mul_pow2 by lia. change (2 ^ 8) with 256. ring.
Qed.

Lemma val1_arith : forall a, val1 a = a * 65536.
Proof. intro a. unfold val1. rewrite Z.shiftl_mul_pow2 by lia. reflexivity. Qed.

Lemma sextet_arith : forall v s, 0 <= s -> sextet v s = (v / 2 ^ s) mod 64.
Proof.
  intros v s Hs. unfold sextet. change 63 with (Z.ones 6).
  rewrite Z.land_ones by lia. rewrite Z.shiftr_div_pow2 by lia. reflexivity.
Qed.
Lemma land63_arith : forall v, Z.land v 63 = v mod 64.
Proof. intro v. change 63 with (Z.ones 6). rewrite Z.land_ones by lia. reflexivity. Qed.

(* the four sextets of a triple, the three of a pair, the two of a single byte *)
Lemma sextets3 : forall a b c, 0 <= a < 256 -> 0 <= b < 256 -> 0 <= c < 256 ->
  sextet (val3 a b c) 18 = a / 4 /\
  sextet (val3 a b c) 12 = (a mod 4) * 16 + b / 16 /\
  sextet (val3 a b c) 6 = (b mod 16) * 4 + c / 64 /\
  Z.land (val3 a b c) 63 = c mod 64.
Proof.
  intros a b c Ha Hb Hc. rewrite land63_arith, !sextet_arith by lia. rewrite val3_arith by assumption.
  change (2 ^ 18) with 262144. change (2 ^ 12) with 4096. change (2 ^ 6) with 64.
  repeat split; Z.div_mod_to_equations; lia.
Qed.
Lemma sextets2 : forall a b, 0 <= a < 256 -> 0 <= b < 256 ->
  sextet (val2 a b) 18 = a / 4 /\
  sextet (val2 a b) 12 = (a mod 4) * 16 + b / 16 /\
  sextet (val2 a b) 6 = (b mod 16) * 4.
Proof.
  intros a b Ha Hb. rewrite !sextet_arith by lia. rewrite val2_arith by assumption.
  change (2 ^ 18) with 262144. change (2 ^ 12) with 4096. change (2 ^ 6) with 64.
  repeat split; Z.div_mod_to_equations; lia.
Qed.
Lemma sextets1 : forall a, 0 <= a < 256 ->
  sextet (val1 a) 18 = a / 4 /\ sextet (val1 a) 12 = (a mod 4) * 16.
Proof.
  intros a Ha. rewrite !sextet_arith by lia. rewrite val1_arith.
  change (2 ^ 18) with 262144. change (2 ^ 12) with 4096.
  repeat split; Z.div_mod_to_equations; lia.
Qed.

(* ---------- the table is the RFC alphabet ---------- *)
Lemma alpha_is_rfc : forall v, 0 <= v < 64 -> alpha v = b64url_char v.
Proof.
  intros v Hv.
  assert (H : (alpha v =? b64url_char v) = true).
  { apply (below_cases 64 (fun v => alpha v =? b64url_char v)); [vm_compute; reflexivity | exact Hv]. }
  apply Z.eqb_eq. exact H.
Qed.

(* ---------- bits of a byte as arithmetic ---------- *)
Definition bv2 (x y : bool) : Z := 2 * Z.b2z x + Z.b2z y.

Lemma bits_hi6 : forall a, 0 <= a < 256 ->
  bits_val [Z.testbit a 7; Z.testbit a 6; Z.testbit a 5; Z.testbit a 4; Z.testbit a 3; Z.testbit a 2] = a / 4.
Proof.
  intros a Ha. apply Z.eqb_eq.
  apply (below_cases 256 (fun a => bits_val [Z.testbit a 7; Z.testbit a 6; Z.testbit a 5; Z.testbit a 4; Z.testbit a 3; Z.testbit a 2] =? a / 4));
    [vm_compute; reflexivity | exact Ha].
Qed.
Lemma bits_lo2 : forall a, 0 <= a < 256 -> bits_val [Z.testbit a 1; Z.testbit a 0] = a mod 4.
Proof.
  intros a Ha. apply Z.eqb_eq.
  apply (below_cases 256 (fun a => bits_val [Z.testbit a 1; Z.testbit a 0] =? a mod 4)); [vm_compute; reflexivity | exact Ha].
Qed.
Lemma bits_hi4 : forall a, 0 <= a < 256 ->
  bits_val [Z.testbit a 7; Z.testbit a 6; Z.testbit a 5; Z.testbit a 4] = a / 16.
Proof.
  intros a Ha. apply Z.eqb_eq.
  apply (below_cases 256 (fun a => bits_val [Z.testbit a 7; Z.testbit a 6; Z.testbit a 5; Z.testbit a 4] =? a / 16)); [vm_compute; reflexivity | exact Ha].
Qed.
Lemma bits_lo4 : forall a, 0 <= a < 256 ->
  bits_val [Z.testbit a 3; Z.testbit a 2; Z.testbit a 1; Z.testbit a 0] = a mod 16.
Proof.
  intros a Ha. apply Z.eqb_eq.
  apply (below_cases 256 (fun a => bits_val [Z.testbit a 3; Z.testbit a 2; Z.testbit a 1; Z.testbit a 0] =? a mod 16)); [vm_compute; reflexivity | exact Ha].
Qed.
Lemma bits_hi2 : forall a, 0 <= a < 256 -> bits_val [Z.testbit a 7; Z.testbit a 6] = a / 64.
Proof.
  intros a Ha. apply Z.eqb_eq.
  apply (below_cases 256 (fun a => bits_val [Z.testbit a 7; Z.testbit a 6] =? a / 64)); [vm_compute; reflexivity | exact Ha].
Qed.
Lemma bits_lo6 : forall a, 0 <= a < 256 ->
  bits_val [Z.testbit a 5; Z.testbit a 4; Z.testbit a 3; Z.testbit a 2; Z.testbit a 1; Z.testbit a 0] = a mod 64.
Proof.
  intros a Ha. apply Z.eqb_eq.
  apply (below_cases 256 (fun a => bits_val [Z.testbit a 5; Z.testbit a 4; Z.testbit a 3; Z.testbit a 2; Z.testbit a 1; Z.testbit a 0] =? a mod 64)); [vm_compute; reflexivity | exact Ha].
Qed.

(* a group is the concatenation of its parts *)
Lemma bits_val_app : forall g h, bits_val (g ++ h) = bits_val g * 2 ^ Z.of_nat (length h) + bits_val h.
Proof.
  unfold bits_val. intros g h.
  assert (G : forall h acc, fold_left (fun acc b => 2 * acc + Z.b2z b) h acc
              = acc * 2 ^ Z.of_nat (length h) + fold_left (fun acc b => 2 * acc + Z.b2z b) h 0).
  { clear. induction h as [|x h IH]; intro acc.
    - simpl. ring.
    - cbn [fold_left length]. rewrite IH. rewrite (IH (2 * 0 + Z.b2z x)).
      rewrite Nat2Z.inj_succ, Z.pow_succ_r by lia. ring. }
  rewrite fold_left_app. rewrite G. reflexivity.
Qed.

(* ---------- sextet ranges ---------- *)
Lemma sext_ranges : forall a b c, 0 <= a < 256 -> 0 <= b < 256 -> 0 <= c < 256 ->
  0 <= a / 4 < 64 /\ 0 <= (a mod 4) * 16 + b / 16 < 64 /\ 0 <= (b mod 16) * 4 + c / 64 < 64 /\ 0 <= c mod 64 < 64
  /\ 0 <= (a mod 4) * 16 < 64 /\ 0 <= (b mod 16) * 4 < 64.
Proof. intros. repeat split; Z.div_mod_to_equations; lia. Qed.

(* ---------- induction three at a time ---------- *)
Lemma list_ind3 (A : Type) (P : list A -> Prop) :
  P [] -> (forall a, P [a]) -> (forall a b, P [a; b]) ->
  (forall a b c r, P r -> P (a :: b :: c :: r)) -> forall l, P l.
Proof.
  intros H0 H1 H2 H3.
  assert (G : forall n l, (length l <= n)%nat -> P l).
  { induction n as [|n IH]; intros l Hl.
    - destruct l; [exact H0 | simpl in Hl; lia].
    - destruct l as [|a [|b [|c r]]]; auto. apply H3. apply IH. simpl in Hl. lia. }
  intro l. apply (G (length l)). lia.
Qed.

(* ---------- the characters, arithmetically ---------- *)
Lemma encode_triple : forall a b c r, 0 <= a < 256 -> 0 <= b < 256 -> 0 <= c < 256 ->
  encode (a :: b :: c :: r) =
  b64url_char (a / 4) :: b64url_char ((a mod 4) * 16 + b / 16)
    :: b64url_char ((b mod 16) * 4 + c / 64) :: b64url_char (c mod 64) :: encode r.
Proof.
  intros a b c r Ha Hb Hc. cbn [encode]. cbv zeta.
  destruct (sextets3 a b c Ha Hb Hc) as (E1 & E2 & E3 & E4). rewrite E1, E2, E3, E4.
  destruct (sext_ranges a b c Ha Hb Hc) as (R1 & R2 & R3 & R4 & _).
  rewrite !alpha_is_rfc by assumption. reflexivity.
Qed.
Lemma encode_pair : forall a b, 0 <= a < 256 -> 0 <= b < 256 ->
  encode [a; b] = [b64url_char (a / 4); b64url_char ((a mod 4) * 16 + b / 16); b64url_char ((b mod 16) * 4)].
Proof.
  intros a b Ha Hb. cbn [encode]. cbv zeta.
  destruct (sextets2 a b Ha Hb) as (E1 & E2 & E3). rewrite E1, E2, E3.
  destruct (sext_ranges a b 0 Ha Hb ltac:(lia)) as (R1 & R2 & _ & _ & _ & R6).
  rewrite !alpha_is_rfc by assumption. reflexivity.
Qed.
Lemma encode_single : forall a, 0 <= a < 256 ->
  encode [a] = [b64url_char (a / 4); b64url_char ((a mod 4) * 16)].
Proof.
  intros a Ha. cbn [encode]. cbv zeta.
  destruct (sextets1 a Ha) as (E1 & E2). rewrite E1, E2.
  destruct (sext_ranges a 0 0 Ha ltac:(lia) ltac:(lia)) as (R1 & _ & _ & _ & R5 & _).
  rewrite !alpha_is_rfc by assumption. reflexivity.
Qed.

(* the same for the specification *)
Lemma spec_triple : forall a b c r, 0 <= a < 256 -> 0 <= b < 256 -> 0 <= c < 256 ->
  rfc4648_url_nopad (a :: b :: c :: r) =
  b64url_char (a / 4) :: b64url_char ((a mod 4) * 16 + b / 16)
    :: b64url_char ((b mod 16) * 4 + c / 64) :: b64url_char (c mod 64) :: rfc4648_url_nopad r.
Proof.
  intros a b c r Ha Hb Hc. unfold rfc4648_url_nopad, bit_string.
  cbn [flat_map byte_bits app groups6 map].
  rewrite bits_hi6 by assumption.
  change [Z.testbit a 1; Z.testbit a 0; Z.testbit b 7; Z.testbit b 6; Z.testbit b 5; Z.testbit b 4]
    with ([Z.testbit a 1; Z.testbit a 0] ++ [Z.testbit b 7; Z.testbit b 6; Z.testbit b 5; Z.testbit b 4]).
  change [Z.testbit b 3; Z.testbit b 2; Z.testbit b 1; Z.testbit b 0; Z.testbit c 7; Z.testbit c 6]
    with ([Z.testbit b 3; Z.testbit b 2; Z.testbit b 1; Z.testbit b 0] ++ [Z.testbit c 7; Z.testbit c 6]).
  rewrite !bits_val_app. rewrite bits_lo2, bits_hi4, bits_lo4, bits_hi2, bits_lo6 by assumption.
  reflexivity.
Qed.
Lemma spec_pair : forall a b, 0 <= a < 256 -> 0 <= b < 256 ->
  rfc4648_url_nopad [a; b] = [b64url_char (a / 4); b64url_char ((a mod 4) * 16 + b / 16); b64url_char ((b mod 16) * 4)].
Proof.
  intros a b Ha Hb. unfold rfc4648_url_nopad, bit_string.
  cbn [flat_map byte_bits app groups6 map length repeat Nat.sub].
  rewrite bits_hi6 by assumption.
  change [Z.testbit a 1; Z.testbit a 0; Z.testbit b 7; Z.testbit b 6; Z.testbit b 5; Z.testbit b 4]
    with ([Z.testbit a 1; Z.testbit a 0] ++ [Z.testbit b 7; Z.testbit b 6; Z.testbit b 5; Z.testbit b 4]).
  change [Z.testbit b 3; Z.testbit b 2; Z.testbit b 1; Z.testbit b 0; false; false]
    with ([Z.testbit b 3; Z.testbit b 2; Z.testbit b 1; Z.testbit b 0] ++ [false; false]).
  rewrite !bits_val_app. rewrite bits_lo2, bits_hi4, bits_lo4 by assumption.
  change (bits_val [false; false]) with 0. rewrite Z.add_0_r. reflexivity.
Qed.
Lemma spec_single : forall a, 0 <= a < 256 ->
  rfc4648_url_nopad [a] = [b64url_char (a / 4); b64url_char ((a mod 4) * 16)].
Proof.
  intros a Ha. unfold rfc4648_url_nopad, bit_string.
  cbn [flat_map byte_bits app groups6 map length repeat Nat.sub].
  rewrite bits_hi6 by assumption.
  change [Z.testbit a 1; Z.testbit a 0; false; false; false; false]
    with ([Z.testbit a 1; Z.testbit a 0] ++ [false; false; false; false]).
  rewrite !bits_val_app. rewrite bits_lo2 by assumption.
  change (bits_val [false; false; false; false]) with 0. rewrite Z.add_0_r. reflexivity.
Qed.

Lemma bytes_ok_cons : forall a l, bytes_ok (a :: l) = true <-> 0 <= a < 256 /\ bytes_ok l = true.
Proof. intros. unfold bytes_ok. cbn [forallb]. rewrite andb_true_iff, is_byte_range. tauto. Qed.

(* ---------- C18_base64_rfc4648 ---------- *)
Theorem encode_is_rfc4648 : forall l, bytes_ok l = true -> encode l = rfc4648_url_nopad l.
Proof.
  induction l as [| a | a b | a b c r IH] using list_ind3; intro H.
  - reflexivity.
  - apply bytes_ok_cons in H. destruct H as [Ha _]. rewrite encode_single, spec_single by assumption. reflexivity.
  - apply bytes_ok_cons in H. destruct H as [Ha H]. apply bytes_ok_cons in H. destruct H as [Hb _].
    rewrite encode_pair, spec_pair by assumption. reflexivity.
  - apply bytes_ok_cons in H. destruct H as [Ha H]. apply bytes_ok_cons in H. destruct H as [Hb H].
    apply bytes_ok_cons in H. destruct H as [Hc H].
    rewrite encode_triple, spec_triple by assumption. rewrite IH by assumption. reflexivity.
Qed.

(* ---------- length ---------- *)
Theorem encode_length : forall l, Z.of_nat (length (encode l)) = enc_len (Z.of_nat (length l)).
Proof.
  unfold enc_len.
  induction l as [| a | a b | a b c r IH] using list_ind3; try reflexivity.
  cbn [encode]. cbv zeta. cbn [length]. rewrite !Nat2Z.inj_succ. rewrite IH.
  Z.div_mod_to_equations. lia.
Qed.

Lemma encode_length_nat : forall l, length (encode l) = Z.to_nat (enc_len (Z.of_nat (length l))).
Proof. intro l. rewrite <- encode_length. rewrite Nat2Z.id. reflexivity. Qed.

(* ---------- injectivity ---------- *)
Definition unchar (c : Z) : Z :=
  if (65 <=? c) && (c <=? 90) then c - 65
  else if (97 <=? c) && (c <=? 122) then c - 97 + 26
  else if (48 <=? c) && (c <=? 57) then c - 48 + 52
  else if c =? 45 then 62 else 63.

Lemma unchar_char : forall v, 0 <= v < 64 -> unchar (b64url_char v) = v.
Proof.
  intros v Hv. apply Z.eqb_eq.
  apply (below_cases 64 (fun v => unchar (b64url_char v) =? v)); [vm_compute; reflexivity | exact Hv].
Qed.
Lemma char_inj : forall u v, 0 <= u < 64 -> 0 <= v < 64 -> b64url_char u = b64url_char v -> u = v.
Proof. intros u v Hu Hv E. rewrite <- (unchar_char u Hu), <- (unchar_char v Hv), E. reflexivity. Qed.

Theorem encode_injective : forall l1 l2, bytes_ok l1 = true -> bytes_ok l2 = true ->
  encode l1 = encode l2 -> l1 = l2.
Proof.
  induction l1 as [| a | a b | a b c r IH] using list_ind3; intros l2 H1 H2 E.
  - destruct l2 as [|a' [|b' [|c' r']]]; [reflexivity | discriminate E | discriminate E | discriminate E].
  - destruct l2 as [|a' [|b' [|c' r']]]; try discriminate E.
    apply bytes_ok_cons in H1. destruct H1 as [Ha _]. apply bytes_ok_cons in H2. destruct H2 as [Ha' _].
    rewrite !encode_single in E by assumption. injection E as E1 E2.
    destruct (sext_ranges a 0 0 Ha ltac:(lia) ltac:(lia)) as (R1 & _ & _ & _ & R5 & _).
    destruct (sext_ranges a' 0 0 Ha' ltac:(lia) ltac:(lia)) as (R1' & _ & _ & _ & R5' & _).
    apply char_inj in E1; [|assumption|assumption]. apply char_inj in E2; [|assumption|assumption].
    f_equal. Z.div_mod_to_equations. lia.
  - destruct l2 as [|a' [|b' [|c' r']]]; try discriminate E.
    apply bytes_ok_cons in H1. destruct H1 as [Ha H1]. apply bytes_ok_cons in H1. destruct H1 as [Hb _].
    apply bytes_ok_cons in H2. destruct H2 as [Ha' H2]. apply bytes_ok_cons in H2. destruct H2 as [Hb' _].
    rewrite !encode_pair in E by assumption. injection E as E1 E2 E3.
    destruct (sext_ranges a b 0 Ha Hb ltac:(lia)) as (R1 & R2 & _ & _ & _ & R6).
    destruct (sext_ranges a' b' 0 Ha' Hb' ltac:(lia)) as (R1' & R2' & _ & _ & _ & R6').
    apply char_inj in E1; [|assumption|assumption]. apply char_inj in E2; [|assumption|assumption].
    apply char_inj in E3; [|assumption|assumption].
    assert (a = a' /\ b = b') as [-> ->] by (Z.div_mod_to_equations; lia). reflexivity.
  - destruct l2 as [|a' [|b' [|c' r']]]; try discriminate E.
    apply bytes_ok_cons in H1. destruct H1 as [Ha H1]. apply bytes_ok_cons in H1. destruct H1 as [Hb H1].
    apply bytes_ok_cons in H1. destruct H1 as [Hc H1].
    apply bytes_ok_cons in H2. destruct H2 as [Ha' H2]. apply bytes_ok_cons in H2. destruct H2 as [Hb' H2].
    apply bytes_ok_cons in H2. destruct H2 as [Hc' H2].
    rewrite !encode_triple in E by assumption. injection E as E1 E2 E3 E4 E5.
    destruct (sext_ranges a b c Ha Hb Hc) as (R1 & R2 & R3 & R4 & _).
    destruct (sext_ranges a' b' c' Ha' Hb' Hc') as (R1' & R2' & R3' & R4' & _).
    apply char_inj in E1; [|assumption|assumption]. apply char_inj in E2; [|assumption|assumption].
    apply char_inj in E3; [|assumption|assumption]. apply char_inj in E4; [|assumption|assumption].
    assert (a = a' /\ b = b' /\ c = c') as (-> & -> & ->) by (Z.div_mod_to_equations; lia).
    f_equal. f_equal. f_equal. apply IH; assumption.
Qed.

(* ---------- writing into the destination buffer ---------- *)
Lemma put_mid : forall pre m x r v,
  put (pre ++ m ++ x :: r) (length pre + length m) v = Ok (pre ++ m ++ v :: r).
Proof.
  induction pre as [|p pre IH]; intros m x r v.
  - cbn [app length Nat.add]. induction m as [|y m IHm].
    + reflexivity.
    + cbn [app length put]. rewrite IHm. reflexivity.
  - cbn [app length Nat.add put]. rewrite IH. reflexivity.
Qed.
Lemma put_end : forall pre m v, put (pre ++ m) (length pre + length m) v = Fail.
Proof.
  induction pre as [|p pre IH]; intros m v.
  - cbn [app length Nat.add]. induction m as [|y m IHm].
    + reflexivity.
    + cbn [length put]. rewrite IHm. reflexivity.
  - cbn [app length Nat.add put]. rewrite IH. reflexivity.
Qed.

Lemma put0 : forall pre x r v di, di = length pre -> put (pre ++ x :: r) di v = Ok (pre ++ v :: r).
Proof. intros pre x r v di ->. generalize (put_mid pre [] x r v). cbn [app length]. rewrite Nat.add_0_r. auto. Qed.
Lemma put1 : forall pre m0 x r v di, di = length pre ->
  put (pre ++ m0 :: x :: r) (di + 1) v = Ok (pre ++ m0 :: v :: r).
Proof. intros pre m0 x r v di ->. exact (put_mid pre [m0] x r v). Qed.
Lemma put2 : forall pre m0 m1 x r v di, di = length pre ->
  put (pre ++ m0 :: m1 :: x :: r) (di + 2) v = Ok (pre ++ m0 :: m1 :: v :: r).
Proof. intros pre m0 m1 x r v di ->. exact (put_mid pre [m0; m1] x r v). Qed.
Lemma put3 : forall pre m0 m1 m2 x r v di, di = length pre ->
  put (pre ++ m0 :: m1 :: m2 :: x :: r) (di + 3) v = Ok (pre ++ m0 :: m1 :: m2 :: v :: r).
Proof. intros pre m0 m1 m2 x r v di ->. exact (put_mid pre [m0; m1; m2] x r v). Qed.
Lemma pute0 : forall pre v di, di = length pre -> put (pre ++ []) di v = Fail.
Proof. intros pre v di ->. generalize (put_end pre [] v). cbn [length]. rewrite Nat.add_0_r. auto. Qed.
Lemma pute1 : forall pre m0 v di, di = length pre -> put (pre ++ [m0]) (di + 1) v = Fail.
Proof. intros pre m0 v di ->. exact (put_end pre [m0] v). Qed.
Lemma pute2 : forall pre m0 m1 v di, di = length pre -> put (pre ++ [m0; m1]) (di + 2) v = Fail.
Proof. intros pre m0 m1 v di ->. exact (put_end pre [m0; m1] v). Qed.
Lemma pute3 : forall pre m0 m1 m2 v di, di = length pre -> put (pre ++ [m0; m1; m2]) (di + 3) v = Fail.
Proof. intros pre m0 m1 m2 v di ->. exact (put_end pre [m0; m1; m2] v). Qed.

Lemma encode_loop_spec : forall src pre w di, di = length pre ->
  encode_loop src (pre ++ w) di =
  if (length (encode src) <=? length w)%nat
  then Ok (pre ++ encode src ++ skipn (length (encode src)) w) else Fail.
Proof.
  induction src as [| a | a b | a b c r IH] using list_ind3; intros pre w di Hd.
  - reflexivity.
  - cbn [encode_loop encode]. cbv zeta.
    destruct w as [|w0 [|w1 w']].
    + rewrite pute0 by assumption. reflexivity.
    + rewrite put0 by assumption. cbn [bind]. rewrite pute1 by assumption. reflexivity.
    + rewrite put0 by assumption. cbn [bind]. rewrite put1 by assumption. reflexivity.
  - cbn [encode_loop encode]. cbv zeta.
    destruct w as [|w0 [|w1 [|w2 w']]].
    + rewrite pute0 by assumption. reflexivity.
    + rewrite put0 by assumption. cbn [bind]. rewrite pute1 by assumption. reflexivity.
    + rewrite put0 by assumption. cbn [bind]. rewrite put1 by assumption. cbn [bind].
      rewrite pute2 by assumption. reflexivity.
    + rewrite put0 by assumption. cbn [bind]. rewrite put1 by assumption. cbn [bind].
      rewrite put2 by assumption. reflexivity.
  - cbn [encode_loop encode]. cbv zeta.
    destruct w as [|w0 [|w1 [|w2 [|w3 w']]]].
    + rewrite pute0 by assumption. reflexivity.
    + rewrite put0 by assumption. cbn [bind]. rewrite pute1 by assumption. reflexivity.
    + rewrite put0 by assumption. cbn [bind]. rewrite put1 by assumption. cbn [bind].
      rewrite pute2 by assumption. reflexivity.
    + rewrite put0 by assumption. cbn [bind]. rewrite put1 by assumption. cbn [bind].
      rewrite put2 by assumption. cbn [bind]. rewrite pute3 by assumption. reflexivity.
    + rewrite put0 by assumption. cbn [bind]. rewrite put1 by assumption. cbn [bind].
      rewrite put2 by assumption. cbn [bind]. rewrite put3 by assumption. cbn [bind].
      set (c0 := alpha (sextet (val3 a b c) 18)). set (c1 := alpha (sextet (val3 a b c) 12)).
      set (c2 := alpha (sextet (val3 a b c) 6)). set (c3 := alpha (Z.land (val3 a b c) 63)).
      change (pre ++ c0 :: c1 :: c2 :: c3 :: w') with (pre ++ [c0; c1; c2; c3] ++ w').
      rewrite app_assoc. rewrite IH by (rewrite app_length; cbn [length]; lia).
      cbn [length Nat.leb skipn].
      destruct (length (encode r) <=? length w')%nat; [|reflexivity].
      rewrite <- app_assoc. reflexivity.
Qed.

(* base64_url_encode(dst, src): panics iff dst is shorter than the encoding; otherwise the
   encoding is written at the front and the rest of dst is untouched *)
Theorem encode_into_spec : forall dst src,
  encode_into dst src =
  if (length (encode src) <=? length dst)%nat
  then Ok (encode src ++ skipn (length (encode src)) dst) else Fail.
Proof. intros dst src. unfold encode_into. exact (encode_loop_spec src [] dst 0%nat eq_refl). Qed.

(* ---------- the literal index/while form of the function ---------- *)
Lemma idx_app : forall pre x r, idx (pre ++ x :: r) (length pre) = Ok x.
Proof. intros. unfold idx. rewrite nth_error_app2 by lia. rewrite Nat.sub_diag. reflexivity. Qed.
Lemma idx_app1 : forall pre x y r, idx (pre ++ x :: y :: r) (length pre + 1) = Ok y.
Proof.
  intros. unfold idx. rewrite nth_error_app2 by lia.
  replace (length pre + 1 - length pre)%nat with 1%nat by lia. reflexivity.
Qed.
Lemma idx_app2 : forall pre x y z r, idx (pre ++ x :: y :: z :: r) (length pre + 2) = Ok z.
Proof.
  intros. unfold idx. rewrite nth_error_app2 by lia.
  replace (length pre + 2 - length pre)%nat with 2%nat by lia. reflexivity.
Qed.

Lemma div3_step : forall k, ((3 + k) / 3 = S (k / 3))%nat.
Proof. intro k. replace (3 + k)%nat with (1 * 3 + k)%nat by lia. rewrite Nat.div_add_l by lia. lia. Qed.

Lemma while_loop_spec : forall rest pre dst di fuel n,
  (length rest <= fuel)%nat -> n = (length pre + 3 * (length rest / 3))%nat ->
  while_loop fuel (pre ++ rest) dst (length pre) di n =
  do d <- encode_loop (firstn (3 * (length rest / 3)) rest) dst di;
  Ok (d, n, (di + 4 * (length rest / 3))%nat).
Proof.
  induction rest as [| a | a b | a b c r IH] using list_ind3; intros pre dst di fuel n Hf Hn.
  - cbn [length] in *. change (0 / 3)%nat with 0%nat in *. rewrite !Nat.mul_0_r. cbn [firstn encode_loop bind].
    destruct fuel; cbn [while_loop]; replace (length pre <? n)%nat with false by (symmetry; apply Nat.ltb_ge; lia);
      repeat f_equal; lia.
  - cbn [length] in *. change (1 / 3)%nat with 0%nat in *. rewrite !Nat.mul_0_r. cbn [firstn encode_loop bind].
    destruct fuel; cbn [while_loop]; replace (length pre <? n)%nat with false by (symmetry; apply Nat.ltb_ge; lia);
      repeat f_equal; lia.
  - cbn [length] in *. change (2 / 3)%nat with 0%nat in *. rewrite !Nat.mul_0_r. cbn [firstn encode_loop bind].
    destruct fuel; cbn [while_loop]; replace (length pre <? n)%nat with false by (symmetry; apply Nat.ltb_ge; lia);
      repeat f_equal; lia.
  - assert (Hk : (length (a :: b :: c :: r) / 3 = S (length r / 3))%nat).
    { change (length (a :: b :: c :: r)) with (3 + length r)%nat. apply div3_step. }
    rewrite Hk in *. set (k := (length r / 3)%nat) in *.
    replace (3 * S k)%nat with (S (S (S (3 * k)))) by lia. cbn [firstn encode_loop]. cbv zeta.
    destruct fuel as [|f]; [cbn [length] in Hf; lia|]. cbn [while_loop].
    replace (length pre <? n)%nat with true by (symmetry; apply Nat.ltb_lt; lia).
    rewrite idx_app, idx_app1, idx_app2. cbn [bind]. cbv zeta.
    destruct (put dst di (alpha (sextet (val3 a b c) 18))) as [d1|]; cbn [bind]; [|reflexivity].
    destruct (put d1 (di + 1) (alpha (sextet (val3 a b c) 12))) as [d2|]; cbn [bind]; [|reflexivity].
    destruct (put d2 (di + 2) (alpha (sextet (val3 a b c) 6))) as [d3|]; cbn [bind]; [|reflexivity].
    destruct (put d3 (di + 3) (alpha (Z.land (val3 a b c) 63))) as [d4|]; cbn [bind]; [|reflexivity].
    change (pre ++ a :: b :: c :: r) with (pre ++ [a; b; c] ++ r). rewrite app_assoc.
    replace (length pre + 3)%nat with (length (pre ++ [a; b; c])) by (rewrite app_length; reflexivity).
    rewrite (IH (pre ++ [a; b; c]) d4 (di + 4)%nat f n).
    + fold k. destruct (encode_loop (firstn (3 * k) r) d4 (di + 4)); cbn [bind]; [|reflexivity].
      do 2 f_equal. lia.
    + cbn [length] in Hf. lia.
    + rewrite app_length. cbn [length]. fold k. lia.
Qed.

Lemma encode_loop_triples : forall r dst di,
  encode_loop r dst di =
  do d <- encode_loop (firstn (3 * (length r / 3)) r) dst di;
  encode_loop (skipn (3 * (length r / 3)) r) d (di + 4 * (length r / 3)).
Proof.
  induction r as [| a | a b | a b c r IH] using list_ind3; intros dst di.
  - cbn [length]. change (0 / 3)%nat with 0%nat. rewrite !Nat.mul_0_r. cbn [firstn skipn encode_loop bind]. reflexivity.
  - cbn [length]. change (1 / 3)%nat with 0%nat. rewrite !Nat.mul_0_r. cbn [firstn skipn encode_loop bind]. cbv zeta.
    rewrite !Nat.add_0_r. reflexivity.
  - cbn [length]. change (2 / 3)%nat with 0%nat. rewrite !Nat.mul_0_r. cbn [firstn skipn encode_loop bind]. cbv zeta.
    rewrite !Nat.add_0_r. reflexivity.
  - assert (Hk : (length (a :: b :: c :: r) / 3 = S (length r / 3))%nat).
    { change (length (a :: b :: c :: r)) with (3 + length r)%nat. apply div3_step. }
    rewrite Hk. set (k := (length r / 3)%nat).
    replace (3 * S k)%nat with (S (S (S (3 * k)))) by lia. cbn [firstn skipn encode_loop]. cbv zeta.
    destruct (put dst di (alpha (sextet (val3 a b c) 18))) as [d1|]; cbn [bind]; [|reflexivity].
    destruct (put d1 (di + 1) (alpha (sextet (val3 a b c) 12))) as [d2|]; cbn [bind]; [|reflexivity].
    destruct (put d2 (di + 2) (alpha (sextet (val3 a b c) 6))) as [d3|]; cbn [bind]; [|reflexivity].
    destruct (put d3 (di + 3) (alpha (Z.land (val3 a b c) 63))) as [d4|]; cbn [bind]; [|reflexivity].
    rewrite (IH d4 (di + 4)%nat). fold k.
    destruct (encode_loop (firstn (3 * k) r) d4 (di + 4)); cbn [bind]; [|reflexivity].
    f_equal. lia.
Qed.

Lemma skipn3_shape : forall (r : list Z), let t := skipn (3 * (length r / 3)) r in
  (length r - 3 * (length r / 3) = length t)%nat /\ (length t < 3)%nat.
Proof.
  intros r t. unfold t. rewrite skipn_length. split; [reflexivity|].
  pose proof (Nat.div_mod (length r) 3 ltac:(lia)). pose proof (Nat.mod_upper_bound (length r) 3 ltac:(lia)). lia.
Qed.

Theorem base64_url_encode_is_encode_into : forall dst src,
  base64_url_encode dst src = encode_into dst src.
Proof.
  intros dst src. unfold base64_url_encode, encode_into. cbv zeta.
  pose proof (while_loop_spec src [] dst 0%nat (length src) (length src / 3 * 3)%nat ltac:(lia) ltac:(cbn [length]; lia)) as W.
  cbn [app length] in W. rewrite W. clear W.
  rewrite (encode_loop_triples src dst 0%nat).
  set (k := (length src / 3)%nat).
  destruct (encode_loop (firstn (3 * k) src) dst 0) as [d|]; cbn [bind]; [|reflexivity].
  destruct (skipn3_shape src) as [Hl Ht]. fold k in Hl, Ht.
  replace (length src - k * 3)%nat with (length (skipn (3 * k) src)) by lia.
  assert (Hsrc : src = firstn (3 * k) src ++ skipn (3 * k) src) by (symmetry; apply firstn_skipn).
  assert (Hfl : length (firstn (3 * k) src) = (k * 3)%nat).
  { rewrite firstn_length. pose proof (Nat.div_mod (length src) 3 ltac:(lia)). fold k in H. lia. }
  cbn [Nat.add].
  destruct (skipn (3 * k) src) as [|a [|b [|c t]]] eqn:Et.
  - reflexivity.
  - cbn [length Nat.eqb encode_loop]. cbv zeta.
    rewrite Hsrc. rewrite <- Hfl. rewrite idx_app. cbn [bind]. unfold val1.
    destruct (put d (4 * k) (alpha (sextet (Z.shiftl a 16) 18))) as [d1|]; cbn [bind]; [|reflexivity].
    destruct (put d1 (4 * k + 1) (alpha (sextet (Z.shiftl a 16) 12))); reflexivity.
  - cbn [length Nat.eqb encode_loop]. cbv zeta.
    rewrite Hsrc. rewrite <- Hfl. rewrite idx_app, idx_app1. cbn [bind]. reflexivity.
  - cbn [length] in Ht. lia.
Qed.

Theorem base64_url_encode_spec : forall dst src,
  base64_url_encode dst src =
  if (length (encode src) <=? length dst)%nat
  then Ok (encode src ++ skipn (length (encode src)) dst) else Fail.
Proof. intros. rewrite base64_url_encode_is_encode_into. apply encode_into_spec. Qed.
