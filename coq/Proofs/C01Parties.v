(* C01 follow-up (special addresses as parties, aliasing): the model has no privileged address. *)
From SC Require Import Lib.Prelude Lib.Int Lib.Host Model.Math Model.Fungible Model.FungibleObs
  Proofs.FungibleBasics Proofs.FungibleExec Proofs.FungibleAllow Proofs.FungibleInv Proofs.FungibleObsFacts
  Run.C01 Proofs.C01Monitor Proofs.C01Final.

(* the configuration with another address as "the token contract's own address" *)
Definition with_self (c : cfg) (x : addr) : cfg :=
  {| c_host := c_host c; c_flav := c_flav c; c_self := x; c_offset := c_offset c |}.

(* Outside the vault flavour no call of the model looks at the contract's own address at all: an account is
   an account, whether it is a user, another contract or the token contract itself. *)
Lemma self_address_irrelevant : forall c x s cl, c_flav c <> FVault -> exec (with_self c x) s cl = exec c s cl.
Proof.
  intros [h f sf off] x s cl NV. unfold with_self. cbn [c_host c_flav c_offset] in *.
  destruct f; try congruence; destruct cl; reflexivity.
Qed.

Lemma self_address_irrelevant_run : forall c x s cs, c_flav c <> FVault -> run (with_self c x) s cs = run c s cs.
Proof.
  intros c x s cs NV. revert s. induction cs as [|cl r IH]; intros s; cbn [run fold_left]; auto.
  unfold run in IH. unfold step_state at 2 4. unfold step. rewrite self_address_irrelevant by exact NV.
  apply IH.
Qed.

(* In the vault flavour the token core (shares) depends on the contract's own address only through the
   assets the vault holds: nothing else of a call's effect on balances, allowances and supply mentions it.
   (Stated where it matters for C01: a self-directed movement - from = to, whichever address that is -
   changes no balance and not the supply.) *)
Lemma self_directed_move_is_neutral : forall c s, wf_cfg c = true -> state_inv s ->
  forall cl a amt s' v evs,
  (exists au mux, cl = Transfer au a a mux amt) \/ (exists au sp, cl = TransferFrom au sp a a amt) \/
  cl = RForcedTransfer a a amt ->
  exec c s cl = Ok (s', v, evs) ->
  supply (tk s') = supply (tk s) /\ forall x, balance (tk s') x = balance (tk s) x.
Proof.
  intros c s W I cl a amt s' v evs K E.
  destruct (transfer_keeps_supply c s W I cl a a amt s' v evs K E) as [S B].
  split; [exact S|]. intros x. rewrite B. unfold credit. destruct (N.eqb x a); lia.
Qed.
