(* C14 - the monitor of Run/C14.v accepts every run of the model, and the model agrees with
   itself (the diff of a model run is empty). *)
From SC Require Import Lib.Prelude Lib.Int Lib.Host Model.Policies Model.PoliciesSpec
  Proofs.Policies Proofs.PoliciesSpend Proofs.PoliciesInv Proofs.PoliciesExact Proofs.C14Final Run.C14.
From Coq Require Import ZifyBool Sorting.Sorted.

(* ---------- the observations the model itself produces, and their encoding ---------- *)
Fixpoint model_items (c : cfg) (u : universe) (s : state) (cs : list call) : list item :=
  match cs with
  | [] => []
  | cl :: r => let '(s', o, evs) := step c s cl in (cl, o, observe u s' evs) :: model_items c u s' r
  end.

Definition enc_one (prev : lobs) (x : lobs) : lenc :=
  match x with
  | None => None
  | Some (l, p, h, cch) =>
      let ph := match prev with Some (_, _, h0, _) => h0 | None => [] end in
      Some (l, p, (N.of_nat (length ph), h), cch)
  end.
Fixpoint enc_l (prev : list lobs) (l : list lobs) : list lenc :=
  match l with
  | [] => []
  | x :: r => match prev with
              | p :: pr => enc_one p x :: enc_l pr r
              | [] => enc_one None x :: enc_l [] r
              end
  end.
Definition enc_obs (prev : obs) (ob : obs) : eobs := EFull (o_s ob) (o_w ob) (enc_l (o_l prev) (o_l ob)) (o_ev ob).
Fixpoint encode (prev : obs) (t : list item) : list eitem :=
  match t with
  | [] => []
  | (c, o, ob) :: r => (c, o, enc_obs prev ob) :: encode ob r
  end.

Definition observe_model (h : hdr) (cs : list call) : trace :=
  (h, encode (observe (hdr_u h) (init (h_start h)) [])
             (model_items (hdr_cfg h) (hdr_u h) (init (h_start h)) cs)).

Lemma dec_enc_one prev x : dec_one prev (enc_one prev x) = x.
Proof.
  destruct x as [[[[l p] h] cch]|]; cbn [enc_one dec_one]; [|reflexivity].
  rewrite Nat2N.id, skipn_all. reflexivity.
Qed.
Lemma dec_enc_l l : forall prev, dec_l prev (enc_l prev l) = l.
Proof.
  induction l as [|x r IH]; intros prev; cbn [enc_l dec_l]; [reflexivity|].
  destruct prev as [|p pr]; cbn [dec_l]; rewrite dec_enc_one, IH; reflexivity.
Qed.
Lemma decode_encode t : forall prev, decode prev (encode prev t) = t.
Proof.
  induction t as [|[[c o] ob] r IH]; intros prev; cbn [encode decode]; [reflexivity|].
  assert (E : dec_obs prev (enc_obs prev ob) = ob).
  { unfold dec_obs, enc_obs. rewrite dec_enc_l. destruct ob; reflexivity. }
  rewrite E, IH. reflexivity.
Qed.

(* ---------- reflexivity of the boolean equalities ---------- *)
Lemma list_eqb_refl {A} (eqb : A -> A -> bool) : (forall x, eqb x x = true) -> forall l, list_eqb eqb l l = true.
Proof. intros H. induction l as [|x l IH]; cbn [list_eqb]; [reflexivity|]. rewrite H, IH. reflexivity. Qed.
Lemma opt_eqb_refl {A} (eqb : A -> A -> bool) : (forall x, eqb x x = true) -> forall o, opt_eqb eqb o o = true.
Proof. intros H [x|]; cbn; auto. Qed.
Lemma entry_eqb_refl e : entry_eqb e e = true.
Proof. unfold entry_eqb. rewrite !Z.eqb_refl. reflexivity. Qed.
Lemma pol_eqb_refl p : pol_eqb p p = true.
Proof. destruct p; reflexivity. Qed.
Lemma event_eqb_refl e : event_eqb e e = true.
Proof. destruct e. cbn. rewrite pol_eqb_refl, !N.eqb_refl, !Z.eqb_refl. reflexivity. Qed.
Lemma wobs1_eqb_refl x : wobs1_eqb x x = true.
Proof. unfold wobs1_eqb. rewrite Z.eqb_refl, (list_eqb_refl _ (opt_eqb_refl _ Z.eqb_refl)). reflexivity. Qed.
Lemma lobs1_eqb_refl x : lobs1_eqb x x = true.
Proof.
  destruct x as [[[l p] h] cch]. cbn. rewrite !Z.eqb_refl, (list_eqb_refl _ entry_eqb_refl). reflexivity.
Qed.
Lemma obs_eqb_refl ob : obs_eqb ob ob = true.
Proof.
  unfold obs_eqb.
  rewrite (list_eqb_refl _ (opt_eqb_refl _ Z.eqb_refl)), (list_eqb_refl _ (opt_eqb_refl _ wobs1_eqb_refl)),
    (list_eqb_refl _ (opt_eqb_refl _ lobs1_eqb_refl)), (list_eqb_refl _ event_eqb_refl). reflexivity.
Qed.
Lemma outcome_eqb_refl o : outcome_eqb o o = true.
Proof. destruct o as [[|[|]]|]; reflexivity. Qed.

(* ---------- the model agrees with itself ---------- *)
Lemma diff_model c u cs : forall s i, diff_from c u s (model_items c u s cs) i = 0%N.
Proof.
  induction cs as [|cl r IH]; intros s i; cbn [model_items diff_from]; [reflexivity|].
  destruct (step c s cl) as [[s' o] evs] eqn:E. cbn [diff_from]. rewrite E.
  rewrite outcome_eqb_refl, obs_eqb_refl. cbn [andb]. apply IH.
Qed.

(* ---------- boolean equalities decide equality where the pairing needs it ---------- *)
Lemma pol_eqb_eq a b : pol_eqb a b = true -> a = b.
Proof. destruct a, b; cbn; congruence. Qed.
Lemma arg_eqb_eq a b : arg_eqb a b = true -> a = b.
Proof. destruct a, b; cbn; try congruence. intros H. apply Z.eqb_eq in H. congruence. Qed.
Lemma list_eqb_eq {A} (eqb : A -> A -> bool) : (forall x y, eqb x y = true -> x = y) ->
  forall a b, list_eqb eqb a b = true -> a = b.
Proof.
  intros H. induction a as [|x a IH]; destruct b as [|y b]; cbn [list_eqb]; try congruence.
  intros E. apply andb_prop in E as [E1 E2]. rewrite (H _ _ E1), (IH _ E2). reflexivity.
Qed.
Lemma context_eqb_eq a b : context_eqb a b = true -> a = b.
Proof.
  destruct a, b; cbn; try congruence. intros E. apply andb_prop in E as [E E3]. apply andb_prop in E as [E1 E2].
  apply N.eqb_eq in E1, E2. apply (list_eqb_eq _ arg_eqb_eq) in E3. congruence.
Qed.
Lemma Neqb_eq a b : N.eqb a b = true -> a = b.
Proof. apply N.eqb_eq. Qed.

(* ---------- the simulation invariant between the model state and the monitor state ---------- *)
Definition last_ok (c : cfg) (s : state) (last : option (call * outcome)) : Prop :=
  match last with
  | Some (CanEnforce p a r ctx sgs, o1) => o1 = out_of (step c s (CanEnforce p a r ctx sgs))
  | _ => True
  end.

Record MI (c : cfg) (s : state) (m : mstate) : Prop := mk_MI {
  mi_now : m_now m = now s;
  mi_s : m_s m = st_simple s;
  mi_w : m_w m = st_weighted s;
  mi_inv : inv s (m_l m);
  mi_linv : linv s;
  mi_last : last_ok c s (m_last m);
  mi_taint : m_taint m = [] }.

Lemma MI_init c n0 : 1 <= n0 -> MI c (init n0) (m_init n0).
Proof. intros H. constructor; cbn; auto; [apply inv_init; exact H|apply init_linv]. Qed.

Lemma is_true_same o : is_true o = is_true_out o.
Proof. reflexivity. Qed.
Lemma is_okb_same (o : outcome) : is_okb o = is_ok o.
Proof. destruct o; reflexivity. Qed.

(* can_enforce of the spending policy answers true only if the transfer fits in the window *)
Lemma l_can_true c s a r ctx sgs i d amt :
  1 <= now s -> kget (a, r) (st_spend s) = Some d -> lrel (now s) i d -> transfer_amount ctx = Some amt ->
  l_can_enforce c s a r ctx sgs = Ok true ->
  window_sum (now s) (gi_period i) (gi_log i) + amt <= gi_limit i.
Proof.
  intros Hn Hd [H1 H2 H3 H4 H5 H6 H7 H8] Ha. unfold l_can_enforce. destruct sgs as [|sg0 sgr]; [discriminate|].
  rewrite Hd, Ha. rewrite ce_scan_cleanup.
  destruct (cleanup (sat_sub (now s) (sd_period d)) (sd_hist d) 0) as [[removed h]|] eqn:Ec; cbn [bind]; [|discriminate].
  assert (Hs : ledger_sorted (sd_hist d)) by (rewrite H4; apply sorted_filter; exact H7).
  destruct (cleanup_sorted _ _ Hs _ _ _ Ec) as [Hh Hr].
  assert (Hge1 : Forall (fun e => 1 <= snd e) (gi_log i)).
  { rewrite Forall_forall in *. intros e He. specialize (H8 e He). lia. }
  assert (Hh' : h = newer (now s - gi_period i) (gi_log i)).
  { rewrite Hh, H4, H2. apply newer_newer_sat; assumption. }
  assert (Hfin : forall b, (do total <- of_option (checked_sub (sd_cached d) removed);
                            do sum <- of_option (checked_add total amt); Ok (sum <=? sd_limit d)) = Ok b ->
                           b = true -> window_sum (now s) (gi_period i) (gi_log i) + amt <= gi_limit i).
  { intros b. unfold checked_sub, checked_add, fit128.
    destruct (in_i128 (sd_cached d - removed)); cbn [of_option bind]; [|discriminate].
    destruct (in_i128 (sd_cached d - removed + amt)); cbn [of_option bind]; [|discriminate].
    intros E Hb. inversion E. subst b. unfold window_sum. rewrite <- Hh'. lia. }
  destruct h as [|e0 h0].
  - intros E. apply (Hfin true E eq_refl).
  - destruct (max_history c <=? len (e0 :: h0)); [discriminate|]. intros E. apply (Hfin true E eq_refl).
Qed.

Lemma can_out c s p a r ctx sgs :
  out_of (step c s (CanEnforce p a r ctx sgs)) =
  match can_enforce c p s a r ctx sgs with Ok b => Ok (RBool b) | Fail => Fail end.
Proof. unfold out_of, step. cbn [exec]. destruct (can_enforce c p s a r ctx sgs); reflexivity. Qed.

Lemma enforce_out_ok c s p au a r ctxs sgs :
  is_okb (out_of (step c s (Enforce p au a r ctxs sgs))) = is_ok (enforce_batch c p s au a r sgs ctxs).
Proof.
  unfold out_of, step. cbn [exec]. destruct (enforce_batch c p s au a r sgs ctxs) as [[s1 e1]|]; reflexivity.
Qed.

(* ---------- outcome checks ---------- *)
Lemma spec_outcome_model c s m cl :
  0 < max_history c -> MI c s m -> spec_outcome_ok c m cl (out_of (step c s cl)) = true.
Proof.
  intros Hmh [Hnow Hs Hw Hinv Hlin Hlast Htaint]. pose proof Hinv as [Hn Hsi Hwi Hl].
  assert (Hgate : forall k, pl_gate m k = false).
  { intros k. unfold pl_gate. rewrite Hnow, Htaint. cbn [mem_key existsb]. rewrite orb_false_r. lia. }
  unfold spec_outcome_ok. rewrite Hnow, Hs, Hw. destruct cl.
  - (* Advance *)
    unfold out_of, step. cbn [exec]. destruct ((0 <=? n) && (now s + n <=? MAXU32)) eqn:E; [|reflexivity].
    cbn [fst snd is_okb implb' negb orb]. apply andb_prop in E as [E _]. exact E.
  - (* CanEnforce *)
    destruct p.
    + destruct (simple_iff c s acct rid ctx sgs []) as [E _]. rewrite E. unfold spec_s_can. apply outcome_eqb_refl.
    + unfold out_of, step. cbn [exec can_enforce]. rewrite (w_can_enforce_spec _ _ _ _ (winv_vals s acct rid Hwi)).
      unfold spec_w_can. destruct (kget (acct, rid) (st_weighted s)) as [d|]; cbn [bind snd fst]; [|reflexivity].
      cbn zeta. destruct (wsum (wd_weights d) sgs <=? MAXU32); cbn [bind snd fst]; apply outcome_eqb_refl.
    + rewrite can_out. cbn [can_enforce].
      destruct (transfer_amount ctx) as [amt|] eqn:Ha.
      * destruct sgs as [|sg0 sgr]; [reflexivity|].
        destruct (kget (acct, rid) (m_l m)) as [i|] eqn:Hi.
        -- destruct (grel_some _ _ _ _ Hl Hi) as (d & Hd & Hrel). destruct (Hlin _ _ Hd) as [Hlim Hcc].
           rewrite Hgate. cbn [orb].
           destruct (l_can_enforce c s acct rid ctx (sg0 :: sgr)) as [b|] eqn:E.
           ++ rewrite (l_can_ok_value c s acct rid ctx (sg0 :: sgr) i d amt b Hmh Hn ltac:(discriminate) Hd Hrel Ha E).
              apply eqb_reflx.
           ++ destruct (nonneg_log (stored i) && (0 <=? amt) && (window_sum (now s) (gi_period i) (gi_log i) + amt <=? MAX128)) eqn:Enn; [|reflexivity].
              exfalso. apply andb_prop in Enn as [Enn Esum]. apply andb_prop in Enn as [Enn Eamt].
              pose proof (l_can_value c s acct rid ctx (sg0 :: sgr) i d amt Hmh Hn ltac:(discriminate) Hd Hrel Ha Enn ltac:(lia) Hlim Hcc ltac:(lia)) as Hv.
              rewrite E in Hv. discriminate.
        -- pose proof (grel_none _ _ _ Hl Hi) as Hnone. unfold l_can_enforce. rewrite Hnone. reflexivity.
      * unfold l_can_enforce. rewrite Ha. destruct sgs; [reflexivity|].
        destruct (kget (acct, rid) (st_spend s)); reflexivity.
  - (* Enforce *)
    destruct ctxs as [|ctx rest]; [reflexivity|].
    assert (Hauth : implb' (negb (has_auth auths acct)) (negb (is_okb (out_of (step c s (Enforce p auths acct rid (ctx :: rest) sgs))))) = true).
    { destruct (has_auth auths acct) eqn:Ea; [reflexivity|].
      rewrite (needs_account_auth c s (Enforce p auths acct rid (ctx :: rest) sgs) auths (acct, rid) eq_refl eq_refl Ea). reflexivity. }
    rewrite Hauth. cbn [andb].
    assert (Hpair : match paired (m_last m) p acct rid (ctx :: rest) sgs with
                    | Some o1 => Bool.eqb (is_okb (out_of (step c s (Enforce p auths acct rid (ctx :: rest) sgs)))) (has_auth auths acct && is_true o1)
                    | None => true end = true).
    { unfold paired. destruct (m_last m) as [[cl0 o1]|]; [|reflexivity].
      destruct cl0; try reflexivity. destruct rest as [|c2 rest2]; [|reflexivity].
      destruct (pol_eqb p p0 && N.eqb acct acct0 && N.eqb rid rid0 && context_eqb ctx ctx0 && list_eqb N.eqb sgs sgs0) eqn:E; [|reflexivity].
      apply andb_prop in E as [E E5]. apply andb_prop in E as [E E4]. apply andb_prop in E as [E E3].
      apply andb_prop in E as [E1 E2].
      apply pol_eqb_eq in E1. apply N.eqb_eq in E2, E3. apply context_eqb_eq in E4. apply (list_eqb_eq _ Neqb_eq) in E5.
      subst p0 acct0 rid0 ctx0 sgs0. cbn [last_ok] in Hlast. rewrite Hlast.
      rewrite is_okb_same, is_true_same, (can_enforce_agrees c p s auths acct rid ctx sgs Hmh).
      apply eqb_reflx. }
    rewrite Hpair, andb_true_r.
    destruct p.
    + unfold out_of, step. cbn [exec]. rewrite s_batch_spec. cbn [is_nil orb]. unfold s_can, spec_s_can.
      destruct (has_auth auths acct && _); reflexivity.
    + unfold out_of, step. cbn [exec]. rewrite (w_batch_spec _ _ _ _ _ _ _ (winv_vals s acct rid Hwi)). cbn [is_nil orb].
      unfold w_can, spec_w_can. destruct (kget (acct, rid) (st_weighted s)) as [d|]; cbn zeta.
      * destruct (wsum (wd_weights d) sgs <=? MAXU32); cbn [andb is_true].
        -- destruct (has_auth auths acct), (wd_thr d <=? wsum (wd_weights d) sgs); reflexivity.
        -- rewrite !andb_false_r. reflexivity.
      * cbn [is_true]. rewrite andb_false_r. reflexivity.
    + rewrite enforce_out_ok.
      destruct (kget (acct, rid) (m_l m)) as [i|] eqn:Hi.
      * destruct (grel_some _ _ _ _ Hl Hi) as (d & Hd & Hrel). rewrite Hgate. cbn [orb].
        assert (Himp : implb' (is_ok (enforce_batch c PL s auths acct rid sgs (ctx :: rest)))
                         (nonempty sgs && l_batch_ok (now s) (gi_limit i) (gi_period i) (ctx :: rest) (gi_log i)
                          && l_batch_exact (max_history c) (now s) (gi_limit i) (gi_period i) (ctx :: rest) (gi_log i)) = true).
        { destruct (enforce_batch c PL s auths acct rid sgs (ctx :: rest)) as [[s1 e1]|] eqn:E; [|reflexivity].
          destruct (l_batch_rel c auths acct rid sgs (ctx :: rest) s d i s1 e1 Hn Hd Hrel E)
            as (d' & _ & _ & _ & _ & _ & _ & _ & Hbo & Hne).
          rewrite (l_batch_fits c auths acct rid sgs (ctx :: rest) s d i s1 e1 Hn Hd Hrel E).
          destruct (Hne ltac:(discriminate)) as [_ Hsg]. rewrite Hbo. destruct sgs; [contradiction|reflexivity]. }
        rewrite Himp. cbn [andb].
        destruct (nonneg_log (stored i) && nonneg_ctxs (ctx :: rest)) eqn:Enn; [|reflexivity].
        apply andb_prop in Enn as [Enn Ecn].
        rewrite (l_batch_exact_ok c auths acct rid sgs (ctx :: rest) s d i Hn Hlin Hd Hrel Enn Ecn ltac:(discriminate)).
        replace (match sgs with [] => false | _ :: _ => true end) with (nonempty sgs) by (destruct sgs; reflexivity).
        apply eqb_reflx.
      * pose proof (grel_none _ _ _ Hl Hi) as Hnone. cbn [enforce_batch enforce_one].
        destruct (l_enforce_one c s auths acct rid sgs ctx) as [[s2 ev]|] eqn:E1; [|reflexivity].
        apply l_enforce_one_ok in E1 as (_ & _ & d & _ & _ & Hd & _). congruence.
  - (* Uninstall *)
    destruct (has_auth auths acct) eqn:Ea; [reflexivity|].
    rewrite (needs_account_auth c s (Uninstall p auths acct rid) auths (acct, rid) eq_refl eq_refl Ea). reflexivity.
  - (* SInstall *)
    destruct (has_auth auths acct) eqn:Ea.
    + cbn [negb orb]. destruct ((t =? 0) || (len rsigners <? t)) eqn:E; [|reflexivity].
      destruct (config_refused_simple c s auths acct rid rsigners t ltac:(lia)) as [E1 _]. rewrite E1. reflexivity.
    + rewrite (needs_account_auth c s (SInstall auths acct rid rsigners t) auths (acct, rid) eq_refl eq_refl Ea). reflexivity.
  - (* SSetThreshold *)
    destruct (has_auth auths acct) eqn:Ea.
    + cbn [negb orb]. destruct ((t =? 0) || (len rsigners <? t)) eqn:E; [|reflexivity].
      destruct (config_refused_simple c s auths acct rid rsigners t ltac:(lia)) as [_ E1]. rewrite E1. reflexivity.
    + rewrite (needs_account_auth c s (SSetThreshold auths acct rid rsigners t) auths (acct, rid) eq_refl eq_refl Ea). reflexivity.
  - (* WInstall *)
    destruct (has_auth auths acct) eqn:Ea.
    + cbn [negb orb]. destruct ((t =? 0) || (wtotal (wnorm ws) <? t) || (MAXU32 <? wtotal (wnorm ws))) eqn:E; [|reflexivity].
      rewrite (config_refused_winstall c s auths acct rid ws t ltac:(lia)). reflexivity.
    + rewrite (needs_account_auth c s (WInstall auths acct rid ws t) auths (acct, rid) eq_refl eq_refl Ea). reflexivity.
  - (* WSetThreshold *)
    destruct (has_auth auths acct) eqn:Ea.
    + cbn [negb orb]. destruct (kget (acct, rid) (st_weighted s)) as [d|] eqn:Hd.
      * destruct ((t =? 0) || (wtotal (wd_weights d) <? t)) eqn:E; [|reflexivity].
        destruct (config_refused_wset_inv c s auths acct rid d Hwi Hd) as [E1 _].
        rewrite (E1 t ltac:(lia)). reflexivity.
      * rewrite orb_false_r. destruct (t =? 0) eqn:E; [|reflexivity].
        unfold out_of, step. cbn [exec]. unfold w_set_threshold. rewrite Ea. cbn [guard bind].
        destruct (in_u32 t); cbn [guard bind unit_of]; [|reflexivity]. rewrite E. reflexivity.
    + rewrite (needs_account_auth c s (WSetThreshold auths acct rid t) auths (acct, rid) eq_refl eq_refl Ea). reflexivity.
  - (* WSetWeight *)
    destruct (has_auth auths acct) eqn:Ea.
    + cbn [negb orb]. destruct (kget (acct, rid) (st_weighted s)) as [d|] eqn:Hd; [|reflexivity].
      cbn zeta. destruct ((wtotal (alist_set sg w (wd_weights d)) <? wd_thr d) || (MAXU32 <? wtotal (alist_set sg w (wd_weights d)))) eqn:E; [|reflexivity].
      destruct (config_refused_wset_inv c s auths acct rid d Hwi Hd) as [_ E1].
      rewrite (E1 sg w ltac:(lia)). reflexivity.
    + rewrite (needs_account_auth c s (WSetWeight auths acct rid sg w) auths (acct, rid) eq_refl eq_refl Ea). reflexivity.
  - (* LInstall *)
    destruct (has_auth auths acct) eqn:Ea.
    + cbn [negb orb]. destruct (kget (acct, rid) (m_l m)) as [i|] eqn:Hi; [|reflexivity].
      destruct (grel_some _ _ _ _ Hl Hi) as (d & Hd & _).
      assert (Ef : out_of (step c s (LInstall auths acct rid limit period)) = Fail).
      { unfold out_of, step. cbn [exec]. unfold l_install. rewrite Ea. cbn [guard bind].
        destruct (in_i128 limit && in_u32 period); cbn [guard bind unit_of]; [|reflexivity].
        destruct ((limit <=? 0) || (period =? 0)); [reflexivity|]. rewrite Hd. reflexivity. }
      rewrite Ef. reflexivity.
    + rewrite (needs_account_auth c s (LInstall auths acct rid limit period) auths (acct, rid) eq_refl eq_refl Ea). reflexivity.
  - (* LSetLimit *)
    destruct (has_auth auths acct) eqn:Ea; [reflexivity|].
    rewrite (needs_account_auth c s (LSetLimit auths acct rid limit) auths (acct, rid) eq_refl eq_refl Ea). reflexivity.
Qed.

(* ---------- events ---------- *)
Lemma spec_events_model c s m cl s' o evs :
  MI c s m -> step c s cl = (s', o, evs) -> spec_events m cl o = evs.
Proof.
  intros [Hnow Hs Hw Hinv Hlin Hlast Htaint] H. pose proof Hinv as [Hn Hsi Hwi Hl].
  unfold step in H. destruct (exec c s cl) as [[[s1 r1] e1]|] eqn:E.
  2:{ injection H as <- <- <-. destruct cl; reflexivity. }
  injection H as <- <- <-.
  unfold spec_events. rewrite Hnow. destruct cl; cbn [exec] in E.
  - destruct ((0 <=? n) && (now s + n <=? MAXU32)); [|discriminate]. injection E as <- <- <-. reflexivity.
  - destruct (can_enforce c p s acct rid ctx sgs); cbn [bind] in E; [|discriminate]. injection E as <- <- <-. reflexivity.
  - destruct (enforce_batch c p s auths acct rid sgs ctxs) as [[s2 e2]|] eqn:E2; cbn [bind fst snd] in E; [|discriminate].
    injection E as <- <- <-. destruct p.
    + rewrite s_batch_spec in E2. destruct (is_nil ctxs || _); [|discriminate]. injection E2 as <- <-. reflexivity.
    + rewrite (w_batch_spec _ _ _ _ _ _ _ (winv_vals s acct rid Hwi)) in E2.
      destruct (is_nil ctxs || _); [|discriminate]. injection E2 as <- <-. reflexivity.
    + destruct (kget (acct, rid) (m_l m)) as [i|] eqn:Hi.
      * destruct (grel_some _ _ _ _ Hl Hi) as (d & Hd & Hrel).
        destruct (l_batch_rel c auths acct rid sgs ctxs s d i s2 e2 Hn Hd Hrel E2)
          as (d' & _ & _ & _ & _ & _ & _ & Hev & _). symmetry. exact Hev.
      * pose proof (grel_none _ _ _ Hl Hi) as Hnone. destruct ctxs as [|ctx rest].
        -- cbn [enforce_batch] in E2. injection E2 as <- <-. reflexivity.
        -- exfalso. cbn [enforce_batch enforce_one] in E2.
           destruct (l_enforce_one c s auths acct rid sgs ctx) as [[s3 ev]|] eqn:E1; cbn [bind] in E2; [|discriminate].
           apply l_enforce_one_ok in E1 as (_ & _ & d & _ & _ & Hd & _). congruence.
  - apply unit_of_ok in E as (_ & -> & ->). destruct p; reflexivity.
  - apply unit_of_ok in E as (_ & -> & ->). reflexivity.
  - apply unit_of_ok in E as (_ & -> & ->). reflexivity.
  - apply unit_of_ok in E as (_ & -> & ->). reflexivity.
  - apply unit_of_ok in E as (_ & -> & ->). reflexivity.
  - apply unit_of_ok in E as (_ & -> & ->). reflexivity.
  - apply unit_of_ok in E as (_ & -> & ->). reflexivity.
  - apply unit_of_ok in E as (_ & -> & ->). reflexivity.
Qed.

(* ---------- one monitor step on a model step ---------- *)
Lemma lobs_masked_refl keys taint (f : key -> lobs) :
  lobs_eqb_masked keys taint (map f keys) (map f keys) = true.
Proof.
  induction keys as [|k kr IH]; cbn [map lobs_eqb_masked]; [reflexivity|].
  rewrite (opt_eqb_refl _ lobs1_eqb_refl), orb_true_r, IH. reflexivity.
Qed.

Lemma mon_step_model c u s m cl s' o evs :
  0 < max_history c -> MI c s m -> wf_call u cl = true -> step c s cl = (s', o, evs) ->
  mon_step c u m (cl, o, observe u s' evs) = (true, m_next m cl o) /\ MI c s' (m_next m cl o).
Proof.
  intros Hmh HMI Hwf H. pose proof HMI as [Hnow Hs Hw Hinv Hlin Hlast Htaint].
  destruct (step_sound c s (m_l m) cl s' o evs Hinv H) as (Hinv' & Hs' & Hw' & Hnow').
  assert (Hn1 : 1 <= m_now m) by (rewrite Hnow; apply Hinv).
  assert (HMI' : MI c s' (m_next m cl o)).
  { constructor; cbn [m_next m_now m_s m_w m_l m_last m_taint].
    - rewrite Hnow'. rewrite Hnow. reflexivity.
    - rewrite Hs. symmetry. exact Hs'.
    - rewrite Hw. symmetry. exact Hw'.
    - rewrite Hnow. exact Hinv'.
    - pose proof (step_linv c s cl Hlin) as Hl'. unfold step_state in Hl'. rewrite H in Hl'. exact Hl'.
    - unfold last_ok. destruct cl; auto.
      destruct (can_enforce_readonly c s p acct rid ctx sgs) as [E1 _].
      rewrite H in E1. cbn [fst] in E1. subst s'. unfold out_of. rewrite H. reflexivity.
    - rewrite Htaint. destruct o as [rt|]; [|destruct cl; reflexivity].
      destruct cl; try reflexivity.
      + destruct p; try reflexivity. destruct ctxs; [reflexivity|].
        replace (m_now m <? 1) with false by lia. reflexivity.
      + destruct p; reflexivity. }
  split; [|exact HMI'].
  unfold mon_step. f_equal. rewrite Hwf. cbn [andb].
  assert (Ho : o = out_of (step c s cl)) by (unfold out_of; rewrite H; reflexivity).
  rewrite Ho at 1. rewrite (spec_outcome_model c s m cl Hmh HMI). cbn [andb].
  rewrite (spec_events_model c s m cl s' o evs HMI H).
  destruct HMI' as [Hnow2 Hs2 Hw2 Hinv2 _ _ Htaint2]. pose proof Hinv2 as [Hn2 Hsi2 Hwi2 Hl2].
  assert (Hobs : exp_obs u (m_next m cl o) evs = observe u s' evs).
  { unfold exp_obs, observe. rewrite Hs2, Hw2. f_equal.
    apply map_ext. intros k. specialize (Hl2 k).
    destruct (kget k (m_l (m_next m cl o))) as [i|], (kget k (st_spend s')) as [d|]; cbn [option_map]; try contradiction; [|reflexivity].
    f_equal. eapply lrel_obs. exact Hl2. }
  rewrite Hobs.
  assert (Hcmp : forall tn sk, obs_eqb_m (u_keys u) tn sk (observe u s' evs) (observe u s' evs) = true).
  { intros tn sk. unfold obs_eqb_m, observe. cbn [o_s o_w o_l o_ev].
    rewrite (list_eqb_refl _ (opt_eqb_refl _ Z.eqb_refl)), (list_eqb_refl _ (opt_eqb_refl _ wobs1_eqb_refl)),
      lobs_masked_refl, (list_eqb_refl _ event_eqb_refl), orb_true_r. reflexivity. }
  rewrite Hcmp. cbn [andb].
  unfold config_inv. destruct (call_key cl) as [k|]; [|reflexivity].
  rewrite Hs2, Hw2.
  assert (E1 : match kget k (st_simple s') with Some t => 0 <? t | None => true end = true).
  { destruct (kget k (st_simple s')) as [t|] eqn:Ek; [|reflexivity]. pose proof (Hsi2 _ _ Ek). lia. }
  rewrite E1. cbn [andb].
  destruct (kget k (st_weighted s')) as [d|] eqn:Ek; [|reflexivity].
  destruct (Hwi2 _ _ Ek) as (_ & _ & Ht & Hm). cbn zeta.
  replace (0 <? wd_thr d) with true by lia. replace (wd_thr d <=? wtotal (wd_weights d)) with true by lia.
  replace (wtotal (wd_weights d) <=? MAXU32) with true by lia. reflexivity.
Qed.

Lemma mon_model c u cs : 0 < max_history c -> forallb (wf_call u) cs = true -> forall s m i, MI c s m ->
  mon_from c u m (model_items c u s cs) i = 0%N.
Proof.
  intros Hmh. induction cs as [|cl r IH]; intros Hwf s m i HMI; cbn [model_items mon_from]; [reflexivity|].
  cbn [forallb] in Hwf. apply andb_prop in Hwf as [Hwf1 Hwf2].
  destruct (step c s cl) as [[s' o] evs] eqn:E. cbn [mon_from].
  destruct (mon_step_model c u s m cl s' o evs Hmh HMI Hwf1 E) as [E1 HMI']. rewrite E1. apply IH; assumption.
Qed.

(* ================= C14_monitor_accepts_model ================= *)
Theorem check_accepts_model : forall (h : hdr) (cs : list call),
  1 <= h_start h <= MAXU32 -> 0 < h_max_history h -> forallb (wf_call (hdr_u h)) cs = true ->
  check (observe_model h cs) = (0%N, 0%N, 0%N).
Proof.
  intros h cs Hst Hmh Hwf. unfold check, observe_model. cbn [fst snd]. rewrite decode_encode.
  rewrite diff_model. unfold mon_all, hdr_ok.
  replace ((0 <=? h_start h) && (h_start h <=? MAXU32) && (0 <? h_max_history h)) with true by lia.
  rewrite (mon_model (hdr_cfg h) (hdr_u h) cs Hmh Hwf (init (h_start h)) (m_init (h_start h)) 0%N (MI_init _ _ (proj1 Hst))).
  reflexivity.
Qed.
