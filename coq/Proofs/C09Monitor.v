(* C09: the monitor of Run/C09.v accepts every run of the model, and the model's diff with
   itself is empty. *)
From SC Require Import Lib.Prelude Lib.Int Lib.Host Model.Timelock Model.TimelockGhost Model.TimelockController
  Proofs.TimelockGhost Proofs.Timelock Proofs.C08Final Proofs.Controller Proofs.C09Final Proofs.C09Enum Run.C09.

(* ---------------- reflexivity of the boolean equalities ---------------- *)
Lemma oz_eqb_refl a : oz_eqb a a = true.
Proof. destruct a; cbn; auto using Z.eqb_refl. Qed.
Lemma on_eqb_refl a : on_eqb a a = true.
Proof. destruct a; cbn; auto using N.eqb_refl. Qed.
Lemma outcome_eqb_refl a : outcome_eqb a a = true.
Proof. destruct a; cbn; auto using on_eqb_refl. Qed.
Lemma bool_eqb_refl b : Bool.eqb b b = true.
Proof. destruct b; reflexivity. Qed.
Lemma opview_eqb_refl v : opview_eqb v v = true.
Proof. unfold opview_eqb. rewrite Z.eqb_refl, opstate_eqb_refl, !bool_eqb_refl. reflexivity. Qed.
Lemma list_eqb_refl {A} (f : A -> A -> bool) l : (forall x, f x x = true) -> list_eqb f l l = true.
Proof. intros H. induction l; cbn; auto. rewrite H, IHl. reflexivity. Qed.
Lemma obs_eqb_refl o : obs_eqb o o = true.
Proof.
  unfold obs_eqb. rewrite Z.eqb_refl, oz_eqb_refl, on_eqb_refl. cbn [andb].
  rewrite !list_eqb_refl; auto.
  - intros x. rewrite N.eqb_refl, Z.eqb_refl. reflexivity.
  - apply N.eqb_refl.
  - intros x. rewrite N.eqb_refl, on_eqb_refl. reflexivity.
  - intros x. rewrite N.eqb_refl. apply list_eqb_refl, N.eqb_refl.
  - intros x. rewrite N.eqb_refl, Z.eqb_refl. reflexivity.
  - intros x. rewrite !N.eqb_refl, oz_eqb_refl. reflexivity.
  - intros x. rewrite N.eqb_refl, opview_eqb_refl. reflexivity.
Qed.

(* ---------------- lists built by [observe] ---------------- *)
Lemma alist_get_map {V} (f : N -> V) l i :
  alist_get i (map (fun j => (j, f j)) l) = if existsb (N.eqb i) l then Some (f i) else None.
Proof.
  induction l as [|j l IH]; cbn [map alist_get existsb]; [reflexivity|].
  destruct (N.eqb i j) eqn:E; cbn [orb]; [|exact IH].
  apply N.eqb_eq in E. subst j. reflexivity.
Qed.
Lemma forallb_map {A B} (g : A -> B) (P : B -> bool) l : forallb P (map g l) = forallb (fun x => P (g x)) l.
Proof. induction l; cbn; auto. rewrite IHl. reflexivity. Qed.
Lemma existsb_in l i : In i l -> existsb (N.eqb i) l = true.
Proof. intros H. apply existsb_exists. exists i. split; [exact H|apply N.eqb_refl]. Qed.
Lemma existsb_in_iff l i : existsb (N.eqb i) l = true <-> In i l.
Proof.
  split; [|apply existsb_in]. intros H. apply existsb_exists in H. destruct H as (x & Hx & E).
  apply N.eqb_eq in E. subst. exact Hx.
Qed.
Lemma list_eqb_map2 {A B} (P : B -> B -> bool) (f g : A -> B) l :
  (forall x, In x l -> P (f x) (g x) = true) -> list_eqb P (map f l) (map g l) = true.
Proof.
  induction l as [|a l IH]; intros H; cbn [map list_eqb]; [reflexivity|].
  rewrite H by (left; reflexivity). cbn [andb]. apply IH. intros x Hx. apply H. right. exact Hx.
Qed.
Lemma list_eqb_app {A} (P : A -> A -> bool) a a' b b' :
  list_eqb P a a' = true -> list_eqb P b b' = true -> list_eqb P (a ++ b) (a' ++ b') = true.
Proof.
  revert a'. induction a as [|x a IH]; intros [|y a'] Ha Hb; cbn [app list_eqb] in *; try discriminate; auto.
  apply andb_true_iff in Ha. destruct Ha as [-> Ha]. cbn [andb]. apply IH; assumption.
Qed.
Lemma list_eqb_flat_map {A B} (P : B -> B -> bool) (F G : A -> list B) l :
  (forall x, In x l -> list_eqb P (F x) (G x) = true) -> list_eqb P (flat_map F l) (flat_map G l) = true.
Proof.
  induction l as [|a l IH]; intros H; cbn [flat_map]; [reflexivity|].
  apply list_eqb_app; [apply H; left; reflexivity|]. apply IH. intros x Hx. apply H. right. exact Hx.
Qed.

Lemma in_nseq k : forall from x, In x (nseq k from) <-> (from <= x < from + N.of_nat k)%N.
Proof.
  induction k as [|k IH]; intros from x; cbn [nseq In].
  - split; [tauto|lia].
  - rewrite IH. split; [intros [<-|H]|intros H]; lia.
Qed.
Lemma In_upto_iff n x : In x (upto n) <-> (1 <= x <= n)%N.
Proof. unfold upto. rewrite in_nseq. lia. Qed.

Lemma has_get_row (f : addr -> role -> option Z) accounts r0 a r rest :
  has_get (map (fun a0 => (a0, r0, f a0 r0)) accounts ++ rest) a r
  = if existsb (N.eqb a) accounts && N.eqb r r0 then Some (f a r) else has_get rest a r.
Proof.
  induction accounts as [|a0 accounts IHa]; cbn [map app has_get existsb fst snd]; [reflexivity|].
  rewrite IHa. destruct (N.eqb a a0) eqn:Ea; destruct (N.eqb r r0) eqn:Er; cbn [orb andb]; try reflexivity.
  all: try (apply N.eqb_eq in Ea; apply N.eqb_eq in Er; subst; reflexivity).
  all: try (rewrite ?andb_false_r; reflexivity).
Qed.

Lemma has_get_model (f : addr -> role -> option Z) accounts roles a r :
  has_get (flat_map (fun r => map (fun a => (a, r, f a r)) accounts) roles) a r
  = if existsb (N.eqb a) accounts && existsb (N.eqb r) roles then Some (f a r) else None.
Proof.
  induction roles as [|r0 roles IH]; cbn [flat_map existsb].
  - rewrite andb_false_r. reflexivity.
  - rewrite has_get_row, IH. destruct (existsb (N.eqb a) accounts); cbn [andb]; [|reflexivity].
    destruct (N.eqb r r0); reflexivity.
Qed.

(* (what grant / revoke do to the member list: Proofs/C09Enum.v) *)
Lemma forallb_flat_map {A B} (P : B -> bool) (F : A -> list B) l :
  forallb P (flat_map F l) = forallb (fun x => forallb P (F x)) l.
Proof. induction l as [|x l IH]; cbn [flat_map forallb]; [reflexivity|]. rewrite forallb_app, IH. reflexivity. Qed.
Lemma nodupb_NoDup l : NoDup l -> nodupb l = true.
Proof.
  induction 1 as [|x l Hx _ IH]; cbn [nodupb]; [reflexivity|]. rewrite IH, andb_true_r. apply negb_true_iff.
  unfold mem_n. destruct (existsb (N.eqb x) l) eqn:E; [|reflexivity]. exfalso. apply Hx. apply existsb_eqb_In. exact E.
Qed.
Lemma dedup_addm l : dedup l = fold_left addm l [].
Proof. reflexivity. Qed.

Section WithHeader.
  Variable h : header.
  Let hash := hash_of (h_tbl h).
  Let aid := aid_of (h_avs h).
  Let cf := h_cfg h.
  Notation step := (step hash aid cf).
  Notation step_ok := (step_ok hash aid cf).
  Notation observe := (observe h).
  Hypothesis Hroles : (3 <=? h_nroles h)%N = true.

  Lemma executor_in_roles : In EXECUTOR (upto (h_nroles h)).
  Proof. apply In_upto_iff. apply N.leb_le in Hroles. unfold EXECUTOR. lia. Qed.

  Lemma ob_count_executor s : ob_count (observe s) EXECUTOR = role_count (acs s) EXECUTOR.
  Proof.
    unfold ob_count, Run.C09.observe, observe_u; cbn [o_cnt].
    rewrite alist_get_map, (existsb_in _ _ executor_in_roles). reflexivity.
  Qed.

  Lemma in_upto_In n x : in_upto n x = true <-> In x (upto n).
  Proof. unfold in_upto. rewrite andb_true_iff, !N.leb_le. symmetry. apply In_upto_iff. Qed.
  Lemma roles123 : in_upto (h_nroles h) PROPOSER = true /\ in_upto (h_nroles h) EXECUTOR = true /\ in_upto (h_nroles h) CANCELLER = true.
  Proof. apply N.leb_le in Hroles. unfold in_upto, PROPOSER, EXECUTOR, CANCELLER. repeat split; apply andb_true_iff; split; apply N.leb_le; lia. Qed.

  Lemma ob_has_eq s a r :
    in_upto (h_naddr h) a = true -> in_upto (h_nroles h) r = true -> ob_has (observe s) a r = holds (acs s) a r.
  Proof.
    intros Ha Hr. apply in_upto_In in Ha. apply in_upto_In in Hr.
    unfold ob_has, ob_has_or, Run.C09.observe, observe_u; cbn [o_has]. rewrite has_get_model.
    rewrite (existsb_in _ _ Ha), (existsb_in _ _ Hr). cbn [andb]. unfold holds. destruct (has_role (acs s) a r); reflexivity.
  Qed.
  Lemma ob_has_holds s a r :
    in_upto (h_naddr h) a = true -> in_upto (h_nroles h) r = true -> holds (acs s) a r = true -> ob_has (observe s) a r = true.
  Proof. intros Ha Hr H. rewrite ob_has_eq by assumption. exact H. Qed.

  Lemma ops_get_model s i : In i (h_ids h) -> alist_get i (o_ops (observe s)) = Some (view (ctl s) i).
  Proof.
    intros Hi. unfold Run.C09.observe, observe_u; cbn [o_ops]. rewrite alist_get_map, (existsb_in _ _ Hi). reflexivity.
  Qed.

  (* ---------------- the enumerations ---------------- *)
  (* every enumerated account lies inside the observed universe (constructor arguments and calls are well-formed) *)
  Definition univ_inv (a : ac) : Prop := forall r y, In y (mem_list a r) -> in_upto (h_naddr h) y = true.

  Lemma mem_get_model s r :
    alist_get r (o_mem (observe s)) = if existsb (N.eqb r) (upto (h_nroles h)) then Some (mem_list (acs s) r) else None.
  Proof. unfold Run.C09.observe, observe_u; cbn [o_mem]. apply alist_get_map. Qed.

  Lemma enum_ok_model s : nodup_inv (acs s) -> univ_inv (acs s) -> enum_ok (h_naddr h) (observe s) = true.
  Proof.
    intros Hn Hu. unfold enum_ok. apply andb_true_iff. split.
    - assert (E : o_mem (observe s) = map (fun r => (r, mem_list (acs s) r)) (upto (h_nroles h))) by reflexivity.
      rewrite E, forallb_map. apply forallb_forall. intros r Hr. cbn [fst snd].
      rewrite (nodupb_NoDup _ (Hn r)). cbn [andb].
      replace (forallb (in_upto (h_naddr h)) (mem_list (acs s) r)) with true
        by (symmetry; apply forallb_forall; intros y Hy; exact (Hu r y Hy)).
      cbn [andb]. unfold ob_count, Run.C09.observe, observe_u; cbn [o_cnt]. rewrite alist_get_map, (existsb_in _ _ Hr). apply Z.eqb_refl.
    - assert (E : o_has (observe s) = flat_map (fun r => map (fun a => (a, r, has_role (acs s) a r)) (upto (h_naddr h))) (upto (h_nroles h)))
        by reflexivity.
      rewrite E, forallb_flat_map. apply forallb_forall. intros r Hr. rewrite forallb_map. apply forallb_forall. intros a _. cbn [fst snd].
      rewrite mem_get_model, (existsb_in _ _ Hr). unfold has_role. apply oz_eqb_refl.
  Qed.

  (* ---------------- coherence ---------------- *)
  Lemma ginv_mark_range t g i : ginv t g -> 0 <= mark t i <= MAXU32.
  Proof.
    intros [Hn Hg]. specialize (Hg i). destruct (alist_get i g) as [[a d m|]|]; cbn [entry_ok] in Hg.
    - destruct Hg as (-> & Ha & _ & Hd). pose proof (sat_add_u32_range a d). lia.
    - rewrite Hg, MAXU32_val. lia.
    - rewrite Hg, MAXU32_val. lia.
  Qed.

  Lemma view_coherent_model t i : 0 <= mark t i <= MAXU32 -> view_coherent (now t) (view t i) = true.
  Proof.
    intros H. unfold view_coherent, view; cbn [v_ledger v_state v_exists v_pending v_ready v_done].
    replace (in_u32 (mark t i)) with true by (symmetry; apply in_u32_iff; exact H).
    unfold operation_exists, is_operation_pending, is_operation_ready, is_operation_done.
    rewrite !bool_eqb_refl. cbn [andb]. rewrite !andb_true_r.
    unfold state_of, state_of_mark, UNSET_LEDGER, DONE_LEDGER. apply opstate_eqb_refl.
  Qed.

  Lemma obs_coherent_model s g : ginv (ctl s) g -> obs_coherent (observe s) = true.
  Proof.
    intros Hg. unfold obs_coherent, Run.C09.observe, observe_u; cbn [o_now o_ops].
    pose proof Hg as [Hn _].
    replace (2 <=? now (ctl s)) with true by (symmetry; apply Z.leb_le; lia).
    replace (in_u32 (now (ctl s))) with true by (symmetry; apply in_u32_iff; lia). cbn [andb].
    rewrite forallb_map. apply forallb_forall. intros i _. cbn [snd].
    apply view_coherent_model. apply (ginv_mark_range _ g). exact Hg.
  Qed.

  (* ---------------- what a successful call does to the stored ledgers ---------------- *)
  Definition executed_ids (c : call) (pairs : list (ctx * meta)) : list id :=
    map hash (ops_of cf pairs) ++ match c with ExecuteOp o _ _ _ => [hash o] | _ => [] end.

  Lemma consumed_marks direct s xa pairs s1 :
    consumed hash cf direct s xa pairs s1 ->
    now (ctl s1) = now (ctl s) /\ min_delay (ctl s1) = min_delay (ctl s) /\
    (forall i, In i (map hash (ops_of cf pairs)) -> state_of (ctl s) i = Ready /\ mark (ctl s1) i = 1) /\
    (forall i, ~ In i (map hash (ops_of cf pairs)) -> mark (ctl s1) i = mark (ctl s) i).
  Proof.
    intros (_ & _ & _ & He). destruct (exec_all_spec hash _ _ _ He) as (Hn & Hm & Hall & Hout & _).
    split; [exact Hn|]. split; [exact Hm|]. split; [|exact Hout].
    intros i Hi. apply in_map_iff in Hi. destruct Hi as (o & <- & Ho). destruct (Hall o Ho) as (Hr & Hd & _). auto.
  Qed.

  Lemma state_same_mark t t' i : mark t' i = mark t i -> now t' = now t -> state_of t' i = state_of t i.
  Proof. intros Hm Hn. unfold state_of. rewrite Hm, Hn. reflexivity. Qed.

  (* the per-id facts the monitor checks *)
  Lemma ledger_transition s c s' r pairs s1 g i :
    ginv (ctl s) g ->
    consumed hash cf (is_direct c) s (a_exec (authz_of c)) pairs s1 -> own_effect hash cf c s s1 s' r ->
    let ex := executed_ids c pairs in
    (In i ex -> state_of (ctl s) i = Ready /\ state_of (ctl s') i = Done) /\
    (~ In i ex ->
       match c with
       | ScheduleOp o d _ _ =>
           if N.eqb i (hash o)
           then state_of (ctl s) i = Unset /\ mark (ctl s') i = sat_add_u32 (now (ctl s)) d
           else mark (ctl s') i = mark (ctl s) i
       | CancelOp j _ _ =>
           if N.eqb i j
           then is_operation_pending (ctl s) i = true /\ state_of (ctl s') i = Unset
           else mark (ctl s') i = mark (ctl s) i
       | _ => mark (ctl s') i = mark (ctl s) i
       end) /\
    (match c with
     | Advance n => 0 <= n /\ now (ctl s') = now (ctl s) + n
     | _ => now (ctl s') = now (ctl s)
     end).
  Proof.
    intros Hg Hc Ho ex. subst ex. unfold executed_ids.
    destruct (consumed_marks _ _ _ _ _ Hc) as (Hn1 & Hm1 & Hin1 & Hout1).
    destruct c as [o d p au|o x tgt au|j k au|d au|a ro k au|a ro k au|ro k au|ro ar au|new lu au|au|au|metas ctxs xa|n];
      cbn [own_effect] in Ho; rewrite ?app_nil_r.
    - (* schedule *)
      destruct Ho as (_ & t & Hs & -> & _). apply schedule_ok in Hs. destruct Hs as (_ & Hm0 & m & _ & _ & -> & _).
      cbn [with_ctl ctl]. split; [|split; [|cbn; exact Hn1]].
      + intros Hi. destruct (Hin1 i Hi) as [Hr Hd]. split; [exact Hr|].
        assert (i <> hash o) by (intros ->; lia).
        apply state_done_iff. rewrite mark_set_neq by assumption. exact Hd.
      + intros Hi. destruct (N.eqb i (hash o)) eqn:E.
        * apply N.eqb_eq in E. subst i. rewrite mark_set_eq, Hn1. split; [|reflexivity].
          apply state_unset_iff. rewrite <- (Hout1 _ Hi). exact Hm0.
        * apply N.eqb_neq in E. rewrite mark_set_neq by exact E. apply Hout1. exact Hi.
    - (* execute *)
      destruct Ho as (_ & t & Hs & _ & _ & -> & _). apply set_execute_ok in Hs. destruct Hs as (Hr & _ & ->).
      cbn [ctl]. split; [|split; [|cbn; exact Hn1]].
      + intros Hi. apply in_app_or in Hi. destruct Hi as [Hi|[<-|[]]].
        * destruct (Hin1 i Hi) as [Hr1 Hd]. split; [exact Hr1|].
          assert (i <> hash o).
          { intros ->. apply state_ready_iff in Hr. lia. }
          apply state_done_iff. rewrite mark_set_neq by assumption. exact Hd.
        * split; [|apply state_done_iff; apply mark_set_eq].
          destruct (in_dec N.eq_dec (hash o) (map hash (ops_of cf pairs))) as [Hi|Hni].
          -- destruct (Hin1 _ Hi) as [_ Hd]. apply state_ready_iff in Hr. lia.
          -- rewrite <- (state_same_mark (ctl s) (ctl s1)); [exact Hr|apply Hout1; exact Hni|exact Hn1].
      + intros Hi. assert (Hne : i <> hash o) by (intros ->; apply Hi; apply in_or_app; right; left; reflexivity).
        rewrite mark_set_neq by exact Hne. apply Hout1. intros Hx. apply Hi. apply in_or_app. left. exact Hx.
    - (* cancel *)
      destruct Ho as (_ & t & Hs & -> & _). apply cancel_ok in Hs. destruct Hs as (Hp & ->).
      cbn [with_ctl ctl]. split; [|split; [|cbn; exact Hn1]].
      + intros Hi. destruct (Hin1 i Hi) as [Hr Hd]. split; [exact Hr|].
        assert (i <> j).
        { intros ->. destruct Hp as [Hp|Hp]; [apply state_waiting_iff in Hp|apply state_ready_iff in Hp]; lia. }
        apply state_done_iff. rewrite mark_del_neq by assumption. exact Hd.
      + intros Hi. destruct (N.eqb i j) eqn:E.
        * apply N.eqb_eq in E. subst i. split; [|apply state_unset_iff; apply mark_del_eq].
          unfold is_operation_pending.
          rewrite <- (state_same_mark (ctl s) (ctl s1)); [|apply Hout1; exact Hi|exact Hn1].
          destruct Hp as [-> | ->]; reflexivity.
        * apply N.eqb_neq in E. rewrite mark_del_neq by exact E. apply Hout1. exact Hi.
    - destruct Ho as (_ & -> & _). cbn [with_ctl ctl]. split; [|split; [|cbn; exact Hn1]].
      + intros Hi. destruct (Hin1 i Hi) as [Hr Hd]. split; [exact Hr|]. apply state_done_iff. exact Hd.
      + intros Hi. apply Hout1. exact Hi.
    - destruct Ho as (_ & a' & _ & -> & _). cbn [with_acs ctl]. split; [|split; [|exact Hn1]].
      + intros Hi. destruct (Hin1 i Hi) as [Hr Hd]. split; [exact Hr|]. apply state_done_iff. exact Hd.
      + intros Hi. apply Hout1. exact Hi.
    - destruct Ho as (_ & a' & _ & -> & _). cbn [with_acs ctl]. split; [|split; [|exact Hn1]].
      + intros Hi. destruct (Hin1 i Hi) as [Hr Hd]. split; [exact Hr|]. apply state_done_iff. exact Hd.
      + intros Hi. apply Hout1. exact Hi.
    - destruct Ho as (a' & _ & -> & _). cbn [with_acs ctl]. split; [|split; [|exact Hn1]].
      + intros Hi. destruct (Hin1 i Hi) as [Hr Hd]. split; [exact Hr|]. apply state_done_iff. exact Hd.
      + intros Hi. apply Hout1. exact Hi.
    - destruct Ho as (-> & _). cbn [with_acs ctl]. split; [|split; [|exact Hn1]].
      + intros Hi. destruct (Hin1 i Hi) as [Hr Hd]. split; [exact Hr|]. apply state_done_iff. exact Hd.
      + intros Hi. apply Hout1. exact Hi.
    - destruct Ho as (p & _ & -> & _). cbn [with_acs ctl]. split; [|split; [|exact Hn1]].
      + intros Hi. destruct (Hin1 i Hi) as [Hr Hd]. split; [exact Hr|]. apply state_done_iff. exact Hd.
      + intros Hi. apply Hout1. exact Hi.
    - destruct Ho as (pa & _ & -> & _). cbn [with_acs ctl]. split; [|split; [|exact Hn1]].
      + intros Hi. destruct (Hin1 i Hi) as [Hr Hd]. split; [exact Hr|]. apply state_done_iff. exact Hd.
      + intros Hi. apply Hout1. exact Hi.
    - destruct Ho as (_ & -> & _). cbn [with_acs ctl]. split; [|split; [|exact Hn1]].
      + intros Hi. destruct (Hin1 i Hi) as [Hr Hd]. split; [exact Hr|]. apply state_done_iff. exact Hd.
      + intros Hi. apply Hout1. exact Hi.
    - destruct Ho as (-> & _). split; [|split; [|exact Hn1]].
      + intros Hi. destruct (Hin1 i Hi) as [Hr Hd]. split; [exact Hr|]. apply state_done_iff. exact Hd.
      + intros Hi. apply Hout1. exact Hi.
    - destruct Ho as (Hn0 & _ & -> & _). cbn [with_ctl ctl]. split; [|split; [|split; [exact Hn0|cbn; lia]]].
      + intros Hi. destruct (Hin1 i Hi) as [Hr Hd]. split; [exact Hr|]. apply state_done_iff. exact Hd.
      + intros Hi. apply Hout1. exact Hi.
  Qed.

  (* ---------------- the checks of [obs_step_ok], one by one ---------------- *)
  Definition exec_in_universe (p : ctx * meta) : Prop :=
    match m_exec (snd p) with Some x => in_upto (h_naddr h) x = true | None => True end.

  Lemma pair_ok_model direct s xa pairs :
    (forall p, In p pairs -> exec_in_universe p) ->
    Forall (pair_good cf direct xa (acs s)) pairs -> forallb (pair_ok cf direct xa (observe s)) pairs = true.
  Proof.
    intros Hu Hf. apply forallb_forall. intros p Hp. rewrite Forall_forall in Hf. specialize (Hu p Hp). unfold exec_in_universe in Hu.
    destruct (Hf p Hp) as (o & Ho & Hx). unfold pair_ok. rewrite Ho, ob_count_executor.
    destruct (role_count (acs s) EXECUTOR =? 0) eqn:E0; [reflexivity|]. apply Z.eqb_neq in E0.
    destruct Hx as [Hx|(x & Hm & Hh & Hs)]; [contradiction|]. rewrite Hm in *.
    rewrite (ob_has_holds _ _ _ Hu (proj1 (proj2 roles123)) Hh). cbn [andb].
    destruct Hs as [[-> ->]|[Hne Hxa]].
    - rewrite N.eqb_refl. reflexivity.
    - replace (N.eqb x (self cf)) with false by (symmetry; apply N.eqb_neq; exact Hne). exact Hxa.
  Qed.

  Lemma radmin_get_model s r :
    alist_get r (o_radmin (observe s)) = if existsb (N.eqb r) (upto (h_nroles h)) then Some (role_admin (acs s) r) else None.
  Proof. unfold Run.C09.observe, observe_u; cbn [o_radmin]. apply alist_get_map. Qed.

  Notation wf := (call_wf (h_naddr h) (h_nroles h) (h_avs h)).
  (* every role admin ever set lies inside the observed universe (calls are well-formed) *)
  Definition radmin_wf (a : ac) : Prop := forall r ar, role_admin a r = Some ar -> in_upto (h_nroles h) ar = true.

  Lemma role_ok_model s c s1 s' r :
    wf c = true -> radmin_wf (acs s) -> own_effect hash cf c s s1 s' r -> role_ok c (observe s) = true.
  Proof.
    intros Hwf Hra Ho. unfold call_wf in Hwf. apply andb_true_iff in Hwf. destruct Hwf as [_ Hwf].
    destruct roles123 as (R1 & R2 & R3).
    assert (GR : forall a ro k, in_upto (h_naddr h) a && in_upto (h_nroles h) ro && in_upto (h_naddr h) k = true ->
                 is_admin_or_admin_role (acs s) ro k = true ->
                 on_eqb (o_admin (observe s)) (Some k)
                 || match alist_get ro (o_radmin (observe s)) with Some (Some ar) => ob_has (observe s) k ar | _ => false end = true).
    { intros a ro k Hu Hi. apply andb_true_iff in Hu. destruct Hu as [Hu Hk]. apply andb_true_iff in Hu. destruct Hu as [_ Hro].
      unfold is_admin_or_admin_role in Hi. apply orb_true_iff in Hi. apply orb_true_iff. destruct Hi as [Hi|Hi].
      - left. unfold Run.C09.observe, observe_u; cbn [o_admin]. destruct (admin (acs s)) as [ad|]; [|discriminate].
        cbn [on_eqb]. rewrite N.eqb_sym. exact Hi.
      - right. rewrite radmin_get_model. apply in_upto_In in Hro. rewrite (existsb_in _ _ Hro).
        destruct (role_admin (acs s) ro) as [ar|] eqn:Era; [|discriminate].
        apply ob_has_holds; [exact Hk|exact (Hra _ _ Era)|exact Hi]. }
    destruct c as [o d p au|o x tgt au|j k au|d au|a ro k au|a ro k au|ro k au|ro ar au|new lu au|au|au|metas ctxs xa|n];
      cbn [own_effect] in Ho; cbn [role_ok]; try reflexivity.
    - apply ob_has_holds; [exact Hwf|exact R1|apply Ho].
    - rewrite ob_count_executor. destruct (role_count (acs s) EXECUTOR =? 0) eqn:E0; [reflexivity|]. apply Z.eqb_neq in E0.
      destruct Ho as ([H0|(e & -> & Hh)] & _); [contradiction|]. apply ob_has_holds; [exact Hwf|exact R2|exact Hh].
    - apply ob_has_holds; [exact Hwf|exact R3|apply Ho].
    - apply (GR a ro k Hwf). apply Ho.
    - apply (GR a ro k Hwf). apply Ho.
  Qed.

  Lemma trans_ok_refl c i ex a : trans_ok hash c i ex a a = true.
  Proof. destruct a; reflexivity. Qed.

  Lemma trans_ok_advance n i ex nw nw' r :
    nw <= nw' -> trans_ok hash (Advance n) i ex (state_of_mark nw r) (state_of_mark nw' r) = true.
  Proof.
    intros Hle.
    destruct (state_of_mark_cases nw r) as [[? ->]|[[? ->]|[(?&?&?&->)|(?&?&?&->)]]];
    destruct (state_of_mark_cases nw' r) as [[? ->]|[[? ->]|[(?&?&?&->)|(?&?&?&->)]]];
    try reflexivity; try lia.
  Qed.

  Lemma op_step_ok_model s c s' r pairs s1 g i :
    ginv (ctl s) g ->
    consumed hash cf (is_direct c) s (a_exec (authz_of c)) pairs s1 -> own_effect hash cf c s s1 s' r ->
    In i (h_ids h) ->
    op_step_ok hash c (executed_ids c pairs) (observe s) (i, view (ctl s') i) = true.
  Proof.
    intros Hg Hc Ho Hi. unfold op_step_ok. rewrite (ops_get_model s i Hi).
    cbn [view v_state v_ledger v_pending].
    destruct (ledger_transition s c s' r pairs s1 g i Hg Hc Ho) as (Hin & Hout & Hnow).
    destruct (existsb (N.eqb i) (executed_ids c pairs)) eqn:Eex.
    - apply existsb_in_iff in Eex. destruct (Hin Eex) as [-> ->]. cbn [trans_ok]. rewrite (existsb_in _ _ Eex). reflexivity.
    - assert (Hni : ~ In i (executed_ids c pairs)) by (rewrite <- existsb_in_iff, Eex; discriminate).
      specialize (Hout Hni). pose proof Hg as [Hn2 _].
      destruct c as [o d p au|o x tgt au|j k au|d au|a ro k au|a ro k au|ro k au|ro ar au|new lu au|au|au|metas ctxs xa|n];
        try (rewrite (state_same_mark (ctl s) (ctl s') i Hout Hnow), trans_ok_refl, Hout, Z.eqb_refl; reflexivity).
      + (* schedule *)
        destruct (N.eqb i (hash o)) eqn:E.
        * destruct Hout as [Hu Hm]. rewrite Hu, Hm. unfold Run.C09.observe, observe_u; cbn [o_now]. rewrite Z.eqb_refl.
          cbn [own_effect] in Ho. destruct Ho as (_ & t & Hs & _). apply schedule_ok in Hs. destruct Hs as (Hd & _).
          assert (Hr : 2 <= mark (ctl s') i <= MAXU32).
          { rewrite Hm. destruct (consumed_marks _ _ _ _ _ Hc) as (Hn1 & _).
            pose proof (sat_add_u32_range (now (ctl s)) d). lia. }
          cbn [andb opstate_eqb]. rewrite andb_true_r.
          destruct (state_of (ctl s') i) eqn:Es; cbn [trans_ok]; try exact E; try reflexivity.
          apply state_done_iff in Es. lia.
        * rewrite (state_same_mark (ctl s) (ctl s') i Hout Hnow), trans_ok_refl, Hout, Z.eqb_refl. reflexivity.
      + (* cancel *)
        destruct (N.eqb i j) eqn:E.
        * destruct Hout as [Hp Hu]. rewrite Hu, Hp. cbn [andb opstate_eqb]. rewrite andb_true_r.
          unfold is_operation_pending in Hp. destruct (state_of (ctl s) i); cbn in Hp; try discriminate; cbn [trans_ok]; exact E.
        * rewrite (state_same_mark (ctl s) (ctl s') i Hout Hnow), trans_ok_refl, Hout, Z.eqb_refl. reflexivity.
      + (* advance *)
        destruct Hnow as [Hn0 Hnow]. unfold state_of. rewrite Hout, Z.eqb_refl, andb_true_r.
        apply trans_ok_advance. lia.
  Qed.

  (* role lists *)
  Lemma has_role_ext a a' x r : mem_list a' r = mem_list a r -> has_role a' x r = has_role a x r.
  Proof. intros H. unfold has_role. rewrite H. reflexivity. Qed.
  Lemma role_count_ext a a' r : mem_list a' r = mem_list a r -> role_count a' r = role_count a r.
  Proof. intros H. unfold role_count. rewrite H. reflexivity. Qed.

  Lemma has_eqb_refl x : has_eqb x x = true.
  Proof. unfold has_eqb. rewrite !N.eqb_refl, oz_eqb_refl. reflexivity. Qed.

  Lemma roles_same_model s s' :
    (forall r, mem_list (acs s') r = mem_list (acs s) r) -> existing (acs s') = existing (acs s) ->
    roles_same (observe s) (observe s') = true.
  Proof.
    intros Hm He. unfold roles_same, Run.C09.observe, observe_u; cbn [o_has o_cnt o_mem o_existing].
    rewrite He, (list_eqb_refl N.eqb) by apply N.eqb_refl. rewrite andb_true_r.
    repeat (apply andb_true_iff; split).
    - apply list_eqb_flat_map. intros r _. apply list_eqb_map2. intros a _.
      rewrite (has_role_ext _ _ a r (Hm r)). apply has_eqb_refl.
    - apply list_eqb_map2. intros r _. cbn [fst snd]. rewrite (role_count_ext _ _ r (Hm r)), N.eqb_refl, Z.eqb_refl. reflexivity.
    - apply list_eqb_map2. intros r _. cbn [fst snd]. rewrite (Hm r), N.eqb_refl. apply list_eqb_refl, N.eqb_refl.
  Qed.

  Lemma set_same_except_model (a : N) (l l' : list N) :
    (forall y, y <> a -> existsb (N.eqb y) l' = existsb (N.eqb y) l) -> set_same_except a l l' = true.
  Proof.
    intros H. unfold set_same_except. apply andb_true_iff. split; apply forallb_forall; intros x Hx;
      destruct (N.eqb x a) eqn:E; cbn [orb]; try reflexivity; apply N.eqb_neq in E; unfold mem_n.
    - rewrite (H x E). apply existsb_in. exact Hx.
    - rewrite <- (H x E). apply existsb_in. exact Hx.
  Qed.

  Lemma roles_changed_only_at_model ro a delta s s' :
    (forall r, r <> ro -> mem_list (acs s') r = mem_list (acs s) r) ->
    (forall y, y <> a -> existsb (N.eqb y) (mem_list (acs s') ro) = existsb (N.eqb y) (mem_list (acs s) ro)) ->
    role_count (acs s') ro = role_count (acs s) ro + delta ->
    (forall r, r <> ro -> existsb (N.eqb r) (existing (acs s')) = existsb (N.eqb r) (existing (acs s))) ->
    roles_changed_only_at ro a delta (observe s) (observe s') = true.
  Proof.
    intros Hm Hy Hc He. unfold roles_changed_only_at, Run.C09.observe, observe_u; cbn [o_has o_cnt o_mem o_existing].
    apply andb_true_iff; split; [apply andb_true_iff; split; [apply andb_true_iff; split|]|].
    - apply list_eqb_flat_map. intros r _. apply list_eqb_map2. intros x _. unfold has_same_except. cbn [fst snd].
      rewrite !N.eqb_refl. cbn [andb]. destruct (N.eqb r ro) eqn:Er.
      + apply N.eqb_eq in Er. subst r. destruct (N.eqb x a) eqn:Ex; [reflexivity|]. apply N.eqb_neq in Ex. cbn [orb].
        unfold held, has_role. rewrite !held_index_of, (Hy x Ex). apply bool_eqb_refl.
      + apply N.eqb_neq in Er. rewrite (has_role_ext _ _ x r (Hm r Er)). apply oz_eqb_refl.
    - apply list_eqb_map2. intros r _. cbn [fst snd]. rewrite N.eqb_refl. cbn [andb]. destruct (N.eqb r ro) eqn:Er.
      + apply N.eqb_eq in Er. subst r. rewrite Hc. apply Z.eqb_refl.
      + apply N.eqb_neq in Er. rewrite (role_count_ext _ _ r (Hm r Er)). apply Z.eqb_refl.
    - apply list_eqb_map2. intros r _. cbn [fst snd]. rewrite N.eqb_refl. cbn [andb]. destruct (N.eqb r ro) eqn:Er.
      + apply N.eqb_eq in Er. subst r. apply set_same_except_model. exact Hy.
      + apply N.eqb_neq in Er. rewrite (Hm r Er). apply list_eqb_refl, N.eqb_refl.
    - apply set_same_except_model. exact He.
  Qed.

  (* grant / revoke / renounce in those terms *)
  Lemma grant_changes s s1 a' x ro :
    acs s1 = acs s -> grant_no_auth (max_roles cf) (acs s) x ro = Ok a' ->
    roles_changed_only_at ro x (if holds (acs s) x ro then 0 else 1) (observe s) (observe (with_acs s1 a')) = true.
  Proof.
    intros Ha Hg. pose proof (grant_no_auth_frame _ _ _ _ _ Hg) as (_ & _ & _ & G4 & _).
    apply grant_no_auth_members in Hg. apply roles_changed_only_at_model; cbn [with_acs acs].
    - exact G4.
    - intros y Hy. destruct Hg as [[_ ->]|(_ & -> & _)]; [reflexivity|].
      rewrite existsb_app_single. replace (N.eqb y x) with false by (symmetry; apply N.eqb_neq; exact Hy). apply orb_false_r.
    - destruct Hg as [[-> ->]|(-> & Hl & _)]; [lia|]. unfold role_count. rewrite Hl, app_length. cbn [length]. lia.
    - intros r Hr. destruct Hg as [[_ ->]|(_ & _ & [-> | ->])]; try reflexivity.
      rewrite existsb_app_single. replace (N.eqb r ro) with false by (symmetry; apply N.eqb_neq; exact Hr). apply orb_false_r.
  Qed.

  Lemma revoke_changes s s1 a' x ro :
    acs s1 = acs s -> revoke_no_auth (acs s) x ro = Ok a' ->
    roles_changed_only_at ro x (-1) (observe s) (observe (with_acs s1 a')) = true.
  Proof.
    intros Ha Hg. pose proof (revoke_no_auth_frame _ _ _ _ Hg) as (_ & _ & _ & G4 & _).
    apply revoke_no_auth_members in Hg. destruct Hg as (_ & Hy & Hc & He).
    apply roles_changed_only_at_model; cbn [with_acs acs].
    - exact G4.
    - exact Hy.
    - unfold role_count. lia.
    - intros r Hr. destruct He as [-> | ->]; [reflexivity|]. apply remove_first_mem. exact Hr.
  Qed.

  Lemma radmin_same_model s s' : radmin (acs s') = radmin (acs s) -> radmin_same (observe s) (observe s') = true.
  Proof.
    intros H. unfold radmin_same, Run.C09.observe, observe_u; cbn [o_radmin].
    apply list_eqb_map2. intros r _. cbn [fst snd]. unfold role_admin. rewrite H, N.eqb_refl, on_eqb_refl. reflexivity.
  Qed.

  Lemma runs_model s s' (delta : N -> Z) :
    (forall a, crun_count s' a = crun_count s a + delta a) ->
    list_eqb (fun x y : N * Z => N.eqb (fst x) (fst y) && (snd y =? snd x + delta (fst x)))
             (o_runs (observe s)) (o_runs (observe s')) = true.
  Proof.
    intros H. unfold Run.C09.observe, observe_u; cbn [o_runs]. apply list_eqb_map2. intros a _. cbn [fst snd].
    rewrite N.eqb_refl, H, Z.eqb_refl. reflexivity.
  Qed.

  Lemma crun_count_ext s s' : cruns s' = cruns s -> forall a, crun_count s' a = crun_count s a + 0.
  Proof. intros H a. unfold crun_count. rewrite H. lia. Qed.

  Lemma roles_same_acs s s' : acs s' = acs s -> roles_same (observe s) (observe s') = true.
  Proof. intros H. apply roles_same_model; [intros r0|]; rewrite H; reflexivity. Qed.
  Lemma radmin_same_acs s s' : acs s' = acs s -> radmin_same (observe s) (observe s') = true.
  Proof. intros H. apply radmin_same_model. rewrite H. reflexivity. Qed.

  Lemma effects_ok_model s c s' r pairs s1 g :
    wf c = true -> nodup_inv (acs s) ->
    ginv (ctl s) g ->
    consumed hash cf (is_direct c) s (a_exec (authz_of c)) pairs s1 -> own_effect hash cf c s s1 s' r ->
    effects_ok c (observe s) (observe s') = true.
  Proof.
    intros Hwf Hnd Hg Hc Ho. unfold call_wf in Hwf. apply andb_true_iff in Hwf. destruct Hwf as [_ Hwf].
    destruct (ledger_transition s c s' r pairs s1 g 0%N Hg Hc Ho) as (_ & _ & Hnow).
    pose proof Hc as (Hacs1 & Hcr1 & _ & _). destruct (consumed_marks _ _ _ _ _ Hc) as (_ & Hmin1 & _ & _).
    unfold effects_ok.
    assert (ON : o_now (observe s') = now (ctl s') /\ o_now (observe s) = now (ctl s)) by (split; reflexivity).
    assert (OM : o_min (observe s') = min_delay (ctl s') /\ o_min (observe s) = min_delay (ctl s)) by (split; reflexivity).
    assert (OA : o_admin (observe s') = admin (acs s') /\ o_admin (observe s) = admin (acs s)) by (split; reflexivity).
    destruct ON as [-> ->]. destruct OM as [-> ->]. destruct OA as [-> ->].
    destruct c as [o d p au|o x tgt au|j k au|d au|a ro k au|a ro k au|ro k au|ro ar au|new lu au|au|au|metas ctxs xa|n];
      cbn [own_effect] in Ho.
    - (* schedule *)
      destruct Ho as (_ & t & Hs & -> & _). apply schedule_ok in Hs. destruct Hs as (_ & _ & m & _ & _ & -> & _).
      cbn [with_ctl ctl acs] in *. rewrite Hnow, Z.eqb_refl. cbn [set_mark min_delay]. rewrite Hmin1, oz_eqb_refl, Hacs1, on_eqb_refl. cbn [andb].
      apply andb_true_iff; split; [apply andb_true_iff; split|].
      + apply roles_same_acs. cbn. first [exact Hacs1|reflexivity].
      + apply radmin_same_acs. cbn. first [exact Hacs1|reflexivity].
      + apply (runs_model _ _ (fun _ => 0)). apply crun_count_ext. exact Hcr1.
    - (* execute *)
      destruct Ho as (_ & t & Hs & _ & -> & -> & _). apply set_execute_ok in Hs. destruct Hs as (_ & _ & ->).
      cbn [ctl acs] in *. rewrite Hnow, Z.eqb_refl. cbn [set_mark min_delay]. rewrite Hmin1, oz_eqb_refl, Hacs1, on_eqb_refl. cbn [andb].
      apply andb_true_iff; split; [apply andb_true_iff; split|].
      + apply roles_same_acs. cbn. first [exact Hacs1|reflexivity].
      + apply radmin_same_acs. cbn. first [exact Hacs1|reflexivity].
      + apply (runs_model _ _ (fun a => if N.eqb a (args o) then 1 else 0)). intros a.
        unfold crun_count at 1. cbn [cruns].
        destruct (N.eqb a (args o)) eqn:E.
        * apply N.eqb_eq in E. subst a. rewrite alist_get_set_eq. unfold crun_count. rewrite Hcr1. reflexivity.
        * apply N.eqb_neq in E. rewrite alist_get_set_neq by exact E. unfold crun_count. rewrite Hcr1. lia.
    - (* cancel *)
      destruct Ho as (_ & t & Hs & -> & _). apply cancel_ok in Hs. destruct Hs as (_ & ->).
      cbn [with_ctl ctl acs] in *. rewrite Hnow, Z.eqb_refl. cbn [del_mark min_delay]. rewrite Hmin1, oz_eqb_refl, Hacs1, on_eqb_refl. cbn [andb].
      apply andb_true_iff; split; [apply andb_true_iff; split|].
      + apply roles_same_acs. cbn. first [exact Hacs1|reflexivity].
      + apply radmin_same_acs. cbn. first [exact Hacs1|reflexivity].
      + apply (runs_model _ _ (fun _ => 0)). apply crun_count_ext. exact Hcr1.
    - (* update_delay *)
      destruct Ho as (_ & -> & _). cbn [with_ctl ctl acs] in *. rewrite Hnow, Z.eqb_refl. cbn [min_delay oz_eqb]. rewrite Z.eqb_refl, Hacs1, on_eqb_refl. cbn [andb].
      apply andb_true_iff; split; [apply andb_true_iff; split|].
      + apply roles_same_acs. cbn. first [exact Hacs1|reflexivity].
      + apply radmin_same_acs. cbn. first [exact Hacs1|reflexivity].
      + apply (runs_model _ _ (fun _ => 0)). apply crun_count_ext. exact Hcr1.
    - (* grant *)
      destruct Ho as (_ & a' & Hgr & -> & _). pose proof (grant_changes s s1 a' a ro Hacs1 Hgr) as RC.
      apply grant_no_auth_frame in Hgr. destruct Hgr as (G1 & G2 & G3 & G4 & G5).
      apply andb_true_iff in Hwf. destruct Hwf as [Hwf Hk]. apply andb_true_iff in Hwf. destruct Hwf as [Hwa Hwr].
      cbn [with_acs ctl acs] in *. rewrite Hnow, Z.eqb_refl, Hmin1, oz_eqb_refl, G1, on_eqb_refl. cbn [andb].
      apply andb_true_iff; split; [apply andb_true_iff; split; [apply andb_true_iff; split|]|].
      + rewrite (ob_has_eq s a ro Hwa Hwr). exact RC.
      + apply (ob_has_holds (with_acs s1 a')); [exact Hwa|exact Hwr|exact G5].
      + apply radmin_same_model. cbn [acs]. exact G3.
      + apply (runs_model _ _ (fun _ => 0)). apply crun_count_ext. exact Hcr1.
    - (* revoke *)
      destruct Ho as (_ & a' & Hgr & -> & _). pose proof (revoke_changes s s1 a' a ro Hacs1 Hgr) as RC.
      pose proof (revoke_removes _ _ _ _ Hgr Hnd) as RR.
      apply revoke_no_auth_frame in Hgr. destruct Hgr as (G1 & G2 & G3 & G4 & G5).
      apply andb_true_iff in Hwf. destruct Hwf as [Hwf Hk]. apply andb_true_iff in Hwf. destruct Hwf as [Hwa Hwr].
      cbn [with_acs ctl acs] in *. rewrite Hnow, Z.eqb_refl, Hmin1, oz_eqb_refl, G1, on_eqb_refl. cbn [andb].
      apply andb_true_iff; split; [apply andb_true_iff; split; [apply andb_true_iff; split; [apply andb_true_iff; split|]|]|].
      + exact RC.
      + apply ob_has_holds; [exact Hwa|exact Hwr|exact G5].
      + rewrite (ob_has_eq (with_acs s1 a') a ro Hwa Hwr). cbn [with_acs acs]. rewrite RR. reflexivity.
      + apply radmin_same_model. cbn [acs]. exact G3.
      + apply (runs_model _ _ (fun _ => 0)). apply crun_count_ext. exact Hcr1.
    - (* renounce role *)
      destruct Ho as (a' & Hgr & -> & _). pose proof (revoke_changes s s1 a' k ro Hacs1 Hgr) as RC.
      pose proof (revoke_removes _ _ _ _ Hgr Hnd) as RR.
      apply revoke_no_auth_frame in Hgr. destruct Hgr as (G1 & G2 & G3 & G4 & G5).
      apply andb_true_iff in Hwf. destruct Hwf as [Hwr Hwk].
      cbn [with_acs ctl acs] in *. rewrite Hnow, Z.eqb_refl, Hmin1, oz_eqb_refl, G1, on_eqb_refl. cbn [andb].
      apply andb_true_iff; split; [apply andb_true_iff; split; [apply andb_true_iff; split; [apply andb_true_iff; split|]|]|].
      + exact RC.
      + apply ob_has_holds; [exact Hwk|exact Hwr|exact G5].
      + rewrite (ob_has_eq (with_acs s1 a') k ro Hwk Hwr). cbn [with_acs acs]. rewrite RR. reflexivity.
      + apply radmin_same_model. cbn [acs]. exact G3.
      + apply (runs_model _ _ (fun _ => 0)). apply crun_count_ext. exact Hcr1.
    - (* set_role_admin *)
      destruct Ho as (-> & _). cbn [with_acs ctl acs admin] in *. rewrite Hnow, Z.eqb_refl, Hmin1, oz_eqb_refl, on_eqb_refl. cbn [andb].
      apply andb_true_iff; split; [apply andb_true_iff; split|].
      + apply roles_same_model; [intros r0; reflexivity|reflexivity].
      + unfold Run.C09.observe, observe_u; cbn [o_radmin]. apply list_eqb_map2. intros r0 _. cbn [fst snd acs].
        rewrite N.eqb_refl. cbn [andb]. unfold role_admin; cbn [with_acs acs radmin].
        destruct (N.eqb r0 ro) eqn:E.
        * apply N.eqb_eq in E. subst r0. rewrite alist_get_set_eq. apply on_eqb_refl.
        * apply N.eqb_neq in E. rewrite alist_get_set_neq by exact E. apply on_eqb_refl.
      + apply (runs_model _ _ (fun _ => 0)). apply crun_count_ext. exact Hcr1.
    - (* transfer admin *)
      destruct Ho as (p & _ & -> & _). cbn [with_acs ctl acs admin] in *. rewrite Hnow, Z.eqb_refl, Hmin1, oz_eqb_refl, on_eqb_refl. cbn [andb].
      apply andb_true_iff; split; [apply andb_true_iff; split|].
      + apply roles_same_model; [intros r0; reflexivity|reflexivity].
      + apply radmin_same_model. reflexivity.
      + apply (runs_model _ _ (fun _ => 0)). apply crun_count_ext. exact Hcr1.
    - (* accept *)
      destruct Ho as (pa & _ & -> & _). cbn [with_acs ctl acs admin] in *. rewrite Hnow, Z.eqb_refl, Hmin1, oz_eqb_refl. cbn [andb].
      apply andb_true_iff; split; [apply andb_true_iff; split|].
      + apply roles_same_model; [intros r0; reflexivity|reflexivity].
      + apply radmin_same_model. reflexivity.
      + apply (runs_model _ _ (fun _ => 0)). apply crun_count_ext. exact Hcr1.
    - (* renounce admin *)
      destruct Ho as (_ & -> & _). cbn [with_acs ctl acs admin] in *. rewrite Hnow, Z.eqb_refl, Hmin1, oz_eqb_refl. cbn [andb on_eqb].
      apply andb_true_iff; split; [apply andb_true_iff; split|].
      + apply roles_same_model; [intros r0; reflexivity|reflexivity].
      + apply radmin_same_model. reflexivity.
      + apply (runs_model _ _ (fun _ => 0)). apply crun_count_ext. exact Hcr1.
    - (* check_auth *)
      destruct Ho as (-> & _). rewrite Hnow, Z.eqb_refl, Hmin1, oz_eqb_refl, Hacs1, on_eqb_refl. cbn [andb].
      apply andb_true_iff; split; [apply andb_true_iff; split|].
      + apply roles_same_acs. cbn. first [exact Hacs1|reflexivity].
      + apply radmin_same_acs. cbn. first [exact Hacs1|reflexivity].
      + apply (runs_model _ _ (fun _ => 0)). apply crun_count_ext. exact Hcr1.
    - (* advance *)
      destruct Ho as (Hn0 & _ & -> & _). cbn [with_ctl ctl acs] in *. destruct Hnow as [_ Hnow]. rewrite Hnow, Z.eqb_refl.
      replace (0 <=? n) with true by (symmetry; apply Z.leb_le; exact Hn0).
      cbn [min_delay]. rewrite Hmin1, oz_eqb_refl, Hacs1, on_eqb_refl. cbn [andb].
      apply andb_true_iff; split; [apply andb_true_iff; split|].
      + apply roles_same_acs. cbn. first [exact Hacs1|reflexivity].
      + apply radmin_same_acs. cbn. first [exact Hacs1|reflexivity].
      + apply (runs_model _ _ (fun _ => 0)). apply crun_count_ext. exact Hcr1.
  Qed.

  Lemma same_keys_map {A B} (f : N -> A) (g : N -> B) l :
    same_keys (map (fun i => (i, f i)) l) (map (fun i => (i, g i)) l) = true.
  Proof. unfold same_keys. rewrite !map_map. cbn [fst]. apply list_eqb_refl. apply N.eqb_refl. Qed.

  Notation OSO := (obs_step_ok hash aid cf (h_ids h) (h_naddr h) (h_nroles h) (h_tags h) (h_avs h)).
  Notation MF := (mon_from hash aid cf (h_ids h) (h_naddr h) (h_nroles h) (h_tags h) (h_avs h)).

  Lemma map_flat_map {A B C} (f : B -> C) (g : A -> list B) l : map f (flat_map g l) = flat_map (fun x => map f (g x)) l.
  Proof. induction l as [|x l IH]; cbn [flat_map map]; [reflexivity|]. rewrite map_app, IH. reflexivity. Qed.

  Lemma pair_eqb_refl x : pair_eqb x x = true.
  Proof. unfold pair_eqb. rewrite !N.eqb_refl. reflexivity. Qed.

  Lemma obs_shape_model s : obs_shape (h_ids h) (h_naddr h) (h_nroles h) (h_tags h) (observe s) = true.
  Proof.
    unfold obs_shape, Run.C09.observe, observe_u; cbn [o_ops o_has o_cnt o_mem o_radmin o_runs].
    rewrite !map_map; cbn [fst]. rewrite !map_id. rewrite map_flat_map.
    rewrite !(list_eqb_refl N.eqb) by apply N.eqb_refl. rewrite !andb_true_r. cbn [andb].
    apply list_eqb_flat_map. intros r _. rewrite map_map. cbn [fst]. apply list_eqb_refl. apply pair_eqb_refl.
  Qed.

  Lemma in_combine_snd {A B} (l1 : list A) (l2 : list B) p : In p (combine l1 l2) -> In (snd p) l2.
  Proof. destruct p as [x y]. apply in_combine_r. Qed.

  Lemma pairs_wf c adm n adm' pairs :
    wf c = true -> pairs_of aid cf adm n adm' c = Some pairs -> forall p, In p pairs -> exec_in_universe p.
  Proof.
    intros Hwf Hp p Hin. unfold call_wf in Hwf. apply andb_true_iff in Hwf. destruct Hwf as [Haz Hwf].
    assert (M : forall ms l1, metas_wf (h_naddr h) ms = true -> In p (combine l1 ms) -> exec_in_universe p).
    { intros ms l1 Hm Hi. apply in_combine_snd in Hi. unfold metas_wf in Hm. rewrite forallb_forall in Hm.
      specialize (Hm _ Hi). unfold exec_in_universe. destruct (m_exec (snd p)); [exact Hm|exact I]. }
    assert (G : forall a, (if N.eqb a (self cf) then
                  match a_self (authz_of c) with
                  | Some se => if ctx_eqb (se_root se) (root_of aid cf c) && Nat.eqb (length (se_metas se)) (length (se_root se :: se_subs se))
                               then Some (combine (se_root se :: se_subs se) (se_metas se)) else None
                  | None => None end
                else if has_auth (a_plain (authz_of c)) a then Some [] else None) = Some pairs -> exec_in_universe p).
    { intros a Hx. unfold authz_wf in Haz. destruct (N.eqb a (self cf)).
      - destruct (a_self (authz_of c)) as [se|]; [|discriminate]. apply andb_true_iff in Haz. destruct Haz as [Hm _].
        destruct (_ && _); [|discriminate].
        assert (Epairs : pairs = combine (se_root se :: se_subs se) (se_metas se)) by congruence.
        rewrite Epairs in Hin. exact (M _ _ Hm Hin).
      - destruct (has_auth _ a); [|discriminate]. inversion Hx; subst pairs. destruct Hin. }
    unfold TimelockController.pairs_of in Hp.
    destruct c; cbn [TimelockController.auth_demand] in Hp;
      try (destruct (n =? 0); [inversion Hp; subst pairs; destruct Hin|]);
      try (destruct adm as [ad|]; [|discriminate]); try (destruct adm' as [ad'|]; [|discriminate]);
      try (eapply G; exact Hp).
    - destruct executor as [e|]; [|discriminate]. eapply G; exact Hp.
    - destruct (Nat.eqb (length metas) (length ctxs)); [|discriminate]. inversion Hp; subst pairs. exact (M _ _ Hwf Hin).
    - inversion Hp; subst pairs. destruct Hin.
  Qed.

  (* the ghost of the pending offer follows the model's pending entry *)
  Lemma pending_after_model s c s' r :
    step_ok s c = Ok (s', r) -> pending (acs s') = pend_after cf (pending (acs s)) (now (ctl s)) c.
  Proof.
    intros H. destruct (step_spec hash aid cf _ _ _ _ H) as (pairs & s1 & _ & (Ha & _) & Ho).
    destruct c; cbn [own_effect] in Ho; cbn [pend_after].
    - destruct Ho as (_ & t & _ & -> & _). cbn. rewrite Ha. reflexivity.
    - destruct Ho as (_ & t & _ & _ & _ & -> & _). cbn. rewrite Ha. reflexivity.
    - destruct Ho as (_ & t & _ & -> & _). cbn. rewrite Ha. reflexivity.
    - destruct Ho as (_ & -> & _). cbn. rewrite Ha. reflexivity.
    - destruct Ho as (_ & a' & Hg & -> & _). apply grant_no_auth_frame in Hg. cbn. apply Hg.
    - destruct Ho as (_ & a' & Hg & -> & _). apply revoke_no_auth_frame in Hg. cbn. apply Hg.
    - destruct Ho as (a' & Hg & -> & _). apply revoke_no_auth_frame in Hg. cbn. apply Hg.
    - destruct Ho as (-> & _). reflexivity.
    - destruct Ho as (p & Ht & -> & _). cbn. fold cf. rewrite Ht. reflexivity.
    - destruct Ho as (pa & _ & -> & _). reflexivity.
    - destruct Ho as (_ & -> & _). reflexivity.
    - destruct Ho as (-> & _). rewrite Ha. reflexivity.
    - destruct Ho as (_ & _ & -> & _). cbn. rewrite Ha. reflexivity.
  Qed.

  Lemma radmin_wf_step s c s' r : wf c = true -> step_ok s c = Ok (s', r) -> radmin_wf (acs s) -> radmin_wf (acs s').
  Proof.
    intros Hwf H Hra. unfold call_wf in Hwf. apply andb_true_iff in Hwf. destruct Hwf as [_ Hwf].
    destruct (step_spec hash aid cf _ _ _ _ H) as (pairs & s1 & _ & (Ha & _) & Ho).
    assert (K : radmin (acs s') = radmin (acs s) -> radmin_wf (acs s')).
    { intros E rr aa. unfold role_admin. rewrite E. apply Hra. }
    destruct c as [o d p au|o x tgt au|j k au|d au|a ro k au|a ro k au|ro k au|ro ar au|new lu au|au|au|metas ctxs xa|n]; cbn [own_effect] in Ho.
    - destruct Ho as (_ & t & _ & -> & _). apply K. cbn. rewrite Ha. reflexivity.
    - destruct Ho as (_ & t & _ & _ & _ & -> & _). apply K. cbn. rewrite Ha. reflexivity.
    - destruct Ho as (_ & t & _ & -> & _). apply K. cbn. rewrite Ha. reflexivity.
    - destruct Ho as (_ & -> & _). apply K. cbn. rewrite Ha. reflexivity.
    - destruct Ho as (_ & a' & Hg & -> & _). apply grant_no_auth_frame in Hg. apply K. cbn. apply Hg.
    - destruct Ho as (_ & a' & Hg & -> & _). apply revoke_no_auth_frame in Hg. apply K. cbn. apply Hg.
    - destruct Ho as (a' & Hg & -> & _). apply revoke_no_auth_frame in Hg. apply K. cbn. apply Hg.
    - destruct Ho as (-> & _). intros rr aa. unfold role_admin. cbn [with_acs acs radmin].
      apply andb_true_iff in Hwf. destruct Hwf as [_ Har].
      destruct (N.eq_dec rr ro) as [->|Hn].
      + rewrite alist_get_set_eq. intros E. inversion E; subst. exact Har.
      + rewrite alist_get_set_neq by exact Hn. apply Hra.
    - destruct Ho as (p & _ & -> & _). apply K. reflexivity.
    - destruct Ho as (pa & _ & -> & _). apply K. reflexivity.
    - destruct Ho as (_ & -> & _). apply K. reflexivity.
    - destruct Ho as (-> & _). apply K. rewrite Ha. reflexivity.
    - destruct Ho as (_ & _ & -> & _). apply K. cbn. rewrite Ha. reflexivity.
  Qed.

  Lemma univ_step s c s' r : wf c = true -> step_ok s c = Ok (s', r) -> univ_inv (acs s) -> univ_inv (acs s').
  Proof.
    intros Hwf H Hu. unfold call_wf in Hwf. apply andb_true_iff in Hwf. destruct Hwf as [_ Hwf].
    apply (acs_step hash aid cf) in H.
    destruct c as [o d p au|o x tgt au|j k au|d au|a ro k au|a ro k au|ro k au|ro ar au|new lu au|au|au|metas ctxs xa|n];
      try (intros r0 y Hy; rewrite (mem_list_members _ _ r0 H) in Hy; exact (Hu r0 y Hy)).
    - intros r0 y Hy. destruct (grant_members_incl _ _ _ _ _ _ _ H Hy) as [Hy'| ->]; [exact (Hu r0 y Hy')|].
      apply andb_true_iff in Hwf. destruct Hwf as [Hwf _]. apply andb_true_iff in Hwf. apply Hwf.
    - intros r0 y Hy. exact (Hu r0 y (revoke_members_incl _ _ _ _ _ _ H Hy)).
    - intros r0 y Hy. exact (Hu r0 y (revoke_members_incl _ _ _ _ _ _ H Hy)).
  Qed.

  Lemma obs_step_ok_fail s c g :
    wf c = true -> nodup_inv (acs s) -> univ_inv (acs s) ->
    ginv (ctl s) g -> OSO (pending (acs s)) (observe s) (c, (Fail : outcome), observe s) = Some [].
  Proof.
    intros Hwf Hnd Hun Hg. unfold obs_step_ok. rewrite (obs_coherent_model s g Hg), obs_shape_model, (enum_ok_model s Hnd Hun), Hwf. cbn [negb andb].
    rewrite obs_eqb_refl. reflexivity.
  Qed.

  Lemma obs_step_ok_ok s c s' r g :
    wf c = true -> radmin_wf (acs s) -> nodup_inv (acs s) -> univ_inv (acs s) ->
    ginv (ctl s) g -> step_ok s c = Ok (s', r) ->
    exists pairs g',
      OSO (pending (acs s)) (observe s) (c, (Ok r : outcome), observe s') = Some (tl_calls cf c pairs) /\
      gfeed hash g (now (ctl s)) (min_delay (ctl s)) (tl_calls cf c pairs) = Some g' /\ ginv (ctl s') g'.
  Proof.
    intros Hwf Hra Hnd Hun Hg H.
    destruct (step_spec hash aid cf _ _ _ _ H) as (pairs & s1 & Hp & Hc & Ho).
    destruct (cstep_ghost hash aid cf _ _ _ _ _ Hg H) as (pairs' & g' & Hp' & Hf & Hg').
    rewrite Hp in Hp'. injection Hp' as <-.
    exists pairs, g'. split; [|split; assumption].
    unfold obs_step_ok. rewrite (obs_coherent_model s' g' Hg'), obs_shape_model,
      (enum_ok_model s' (nodup_step_ok hash aid cf _ _ _ _ H Hnd) (univ_step _ _ _ _ Hwf H Hun)), Hwf. cbn [negb andb].
    change (o_admin (observe s)) with (admin (acs s)). change (o_admin (observe s')) with (admin (acs s')).
    rewrite ob_count_executor, Hp.
    pose proof Hc as (_ & _ & Hgood & _).
    rewrite (pair_ok_model _ s _ _ (pairs_wf c _ _ _ _ Hwf Hp) Hgood), (role_ok_model s c s1 s' r Hwf Hra Ho). cbn [andb].
    replace (same_keys (o_ops (observe s)) (o_ops (observe s'))) with true
      by (symmetry; unfold Run.C09.observe, observe_u; cbn [o_ops]; apply same_keys_map).
    cbn [andb].
    replace (forallb _ (o_ops (observe s'))) with true.
    2:{ symmetry. unfold Run.C09.observe at 2, observe_u; cbn [o_ops]. rewrite forallb_map. apply forallb_forall.
        intros i Hi. apply (op_step_ok_model s c s' r pairs s1 g i Hg Hc Ho Hi). }
    rewrite (effects_ok_model s c s' r pairs s1 g Hwf Hnd Hg Hc Ho). cbn [andb].
    replace (match c with
             | AcceptAdmin _ => match tget (o_now (observe s)) (pending (acs s)) with
                                | Some pa => on_eqb (admin (acs s')) (Some pa) | None => false end
             | _ => true end) with true.
    2:{ symmetry. destruct c; try reflexivity. cbn [own_effect] in Ho. destruct Ho as (pa & Hpa & -> & _).
        change (o_now (observe s)) with (now (ctl s)). rewrite Hpa. cbn [with_acs acs admin]. apply on_eqb_refl. }
    cbn [andb].
    replace (match c with
             | ScheduleOp o d _ _ => on_eqb r (Some (hash o)) && match o_min (observe s) with Some m => m <=? d | None => false end
             | _ => on_eqb r None
             end) with true; [reflexivity|].
    symmetry.
    destruct c as [o d p au|o x tgt au|j k au|d au|a ro k au|a ro k au|ro k au|ro ar au|new lu au|au|au|metas ctxs xa|n];
      cbn [own_effect] in Ho.
    - destruct Ho as (_ & t & Hs & _ & ->). rewrite on_eqb_refl. cbn [andb].
      apply schedule_ok in Hs. destruct Hs as (_ & _ & m & Hmin & Hle & _).
      destruct (consumed_marks _ _ _ _ _ Hc) as (_ & Hm1 & _). rewrite Hm1 in Hmin.
      change (o_min (observe s)) with (min_delay (ctl s)). rewrite Hmin. apply Z.leb_le. exact Hle.
    - destruct Ho as (_ & t & _ & _ & _ & _ & ->). reflexivity.
    - destruct Ho as (_ & t & _ & _ & ->). reflexivity.
    - destruct Ho as (_ & _ & ->). reflexivity.
    - destruct Ho as (_ & a' & _ & _ & ->). reflexivity.
    - destruct Ho as (_ & a' & _ & _ & ->). reflexivity.
    - destruct Ho as (a' & _ & _ & ->). reflexivity.
    - destruct Ho as (_ & ->). reflexivity.
    - destruct Ho as (p & _ & _ & ->). reflexivity.
    - destruct Ho as (pa & _ & _ & ->). reflexivity.
    - destruct Ho as (_ & _ & ->). reflexivity.
    - destruct Ho as (_ & ->). reflexivity.
    - destruct Ho as (_ & _ & _ & ->). reflexivity.
  Qed.

  Lemma step_unfold s c : step s c = match step_ok s c with Ok (s', r) => (s', Ok r) | Fail => (s, Fail) end.
  Proof. reflexivity. Qed.

  Lemma mon_from_model cs : forall s g k,
    forallb wf cs = true -> radmin_wf (acs s) -> nodup_inv (acs s) -> univ_inv (acs s) -> ginv (ctl s) g ->
    MF (MS (observe s) g (pending (acs s))) (model_events h s cs) k = 0%N.
  Proof.
    induction cs as [|c cs IH]; intros s g k Hall Hra Hnd Hun Hg; cbn [model_events mon_from]; [reflexivity|].
    cbn [forallb] in Hall. apply andb_true_iff in Hall. destruct Hall as [Hwf Hall].
    fold hash aid cf. rewrite step_unfold.
    destruct (step_ok s c) as [[s' r]|] eqn:E; cbn [mon_from]; unfold mon_step; cbn [m_prev m_ghost m_pend snd fst].
    - destruct (obs_step_ok_ok s c s' r g Hwf Hra Hnd Hun Hg E) as (pairs & g' & Hobs & Hf & Hg').
      rewrite Hobs. change (o_now (observe s)) with (now (ctl s)). change (o_min (observe s)) with (min_delay (ctl s)).
      rewrite Hf. cbn [is_ok]. rewrite <- (pending_after_model s c s' r E).
      apply IH; [exact Hall|exact (radmin_wf_step s c s' r Hwf E Hra)|exact (nodup_step_ok hash aid cf _ _ _ _ E Hnd)
                |exact (univ_step _ _ _ _ Hwf E Hun)|exact Hg'].
    - rewrite (obs_step_ok_fail s c g Hwf Hnd Hun Hg). cbn [gfeed is_ok]. apply IH; assumption.
  Qed.

  Lemma diff_from_model cs : forall s k, diff_from h s (model_events h s cs) k = 0%N.
  Proof.
    induction cs as [|c cs IH]; intros s k; cbn [model_events diff_from]; [reflexivity|].
    fold hash aid cf. destruct (step s c) as [s' out] eqn:Es. cbn [diff_from]. fold hash aid cf. rewrite Es.
    rewrite outcome_eqb_refl, obs_eqb_refl. cbn [andb]. apply IH.
  Qed.
End WithHeader.

(* the constructor leaves admin as given, no pending offer and no role admins *)
Lemma grant_row_frame cf x rs : forall a a1,
  (fix go (a : ac) (rs : list role) : res ac :=
     match rs with [] => Ok a | r :: rt => do a' <- grant_no_auth (max_roles cf) a x r; go a' rt end) a rs = Ok a1 ->
  admin a1 = admin a /\ pending a1 = pending a /\ radmin a1 = radmin a.
Proof.
  induction rs as [|r rs IHr]; intros a a1 E.
  - inversion E. auto.
  - destruct (grant_no_auth (max_roles cf) a x r) as [a2|] eqn:G; cbn [bind] in E; [|discriminate].
    apply grant_no_auth_frame in G. destruct G as (G1 & G2 & G3 & _).
    destruct (IHr _ _ E) as (I1 & I2 & I3). rewrite I1, I2, I3. auto.
Qed.
Lemma grant_all_frame cf l rs : forall a a', grant_all cf a l rs = Ok a' ->
  admin a' = admin a /\ pending a' = pending a /\ radmin a' = radmin a.
Proof.
  induction l as [|x l IH]; intros a a' H; cbn [grant_all] in H.
  - inversion H. auto.
  - match type of H with context [bind ?e _] => destruct e as [a1|] eqn:E end; cbn [bind] in H; [|discriminate].
    apply grant_row_frame in E. destruct E as (F1 & F2 & F3).
    destruct (IH _ _ H) as (I1 & I2 & I3). rewrite I1, I2, I3. auto.
Qed.

Lemma construct_frame cf n0 md props execs adm s0 :
  construct cf n0 md props execs adm = Ok s0 ->
  admin (acs s0) = Some (match adm with Some a => a | None => self cf end) /\ pending (acs s0) = None /\
  radmin (acs s0) = [] /\ min_delay (ctl s0) = Some md /\ now (ctl s0) = n0 /\ marks (ctl s0) = [] /\ cruns s0 = [].
Proof.
  unfold construct. intros H.
  destruct (grant_all cf _ props _) as [a1|] eqn:E1; cbn [bind] in H; [|discriminate].
  destruct (grant_all cf a1 execs _) as [a2|] eqn:E2; cbn [bind] in H; [|discriminate].
  unfold set_min_delay in H. destruct (in_u32 md); cbn [guard bind] in H; [|discriminate].
  inversion H; subst s0. cbn [acs ctl cruns now min_delay marks init_tl].
  apply grant_all_frame in E1. apply grant_all_frame in E2. destruct E1 as (A1 & A2 & A3). destruct E2 as (B1 & B2 & B3).
  rewrite B1, B2, B3, A1, A2, A3. cbn. repeat split; reflexivity.
Qed.

Lemma construct_univ h cf n0 md props execs adm s0 :
  forallb (in_upto (h_naddr h)) (props ++ execs) = true ->
  construct cf n0 md props execs adm = Ok s0 -> univ_inv h (acs s0).
Proof.
  intros Hu H. rewrite forallb_app in Hu. apply andb_true_iff in Hu. destruct Hu as [Hp He].
  destruct (construct_acs _ _ _ _ _ _ _ H) as (a1 & E1 & E2).
  assert (G : forall l, forallb (in_upto (h_naddr h)) l = true ->
              forall a x r a', In x l -> grant_no_auth (max_roles cf) a x r = Ok a' -> univ_inv h a -> univ_inv h a').
  { intros l Hl a x r a' Hx Hg Ha r0 y Hy. destruct (grant_members_incl _ _ _ _ _ _ _ Hg Hy) as [Hy'| ->]; [exact (Ha r0 y Hy')|].
    rewrite forallb_forall in Hl. exact (Hl x Hx). }
  apply (grant_all_preserves cf (univ_inv h) execs (G execs He) _ _ _ E2).
  apply (grant_all_preserves cf (univ_inv h) props (G props Hp) _ _ _ E1).
  intros r y Hy. unfold mem_list in Hy. cbn in Hy. destruct Hy.
Qed.

Theorem check_accepts_model : forall cf n0 md props execs adm ids naddr nroles tags tbl avs s0 cs,
  forallb (in_upto naddr) (props ++ execs) = true ->
  2 <= n0 <= MAXU32 -> tbl_ok tbl = true -> avs_ok avs = true -> tbl_in ids tbl = true -> (3 <=? nroles)%N = true ->
  forallb (call_wf naddr nroles avs) cs = true ->
  construct cf n0 md props execs adm = Ok s0 ->
  check (model_trace cf n0 md props execs adm ids naddr nroles tags tbl avs s0 cs) = (0%N, 0%N, 0%N).
Proof.
  intros cf n0 md props execs adm ids naddr nroles tags tbl avs s0 cs Huniv Hn Htbl Havs Hin Hroles Hwf Hc.
  unfold check, model_trace.
  set (h := model_header cf n0 md props execs adm ids naddr nroles tags tbl avs s0).
  assert (Hg0 : ginv (ctl s0) []) by (apply (construct_ginv cf n0 md props execs adm); assumption).
  destruct (construct_frame _ _ _ _ _ _ _ Hc) as (F1 & F2 & F3 & F4 & F5 & F6 & F7).
  assert (ND : nodup_inv (acs s0)) by exact (construct_nodup _ _ _ _ _ _ _ Hc).
  assert (UN : univ_inv (model_header cf n0 md props execs adm ids naddr nroles tags tbl avs s0) (acs s0))
    by (apply (construct_univ _ cf n0 md props execs adm); [exact Huniv|exact Hc]).
  assert (D : diff (h, model_events h s0 cs) = 0%N).
  { unfold diff, diff_events, init_state. cbn [fst snd]. subst h. cbn [model_header h_cfg h_now h_min h_props h_execs h_admin h_unset h_done h_obs0].
    rewrite Hc, !Z.eqb_refl. cbn [andb].
    change (observe_u ids naddr nroles tags s0) with (observe (model_header cf n0 md props execs adm ids naddr nroles tags tbl avs s0) s0).
    rewrite obs_eqb_refl. apply diff_from_model. }
  assert (M : monitor (h, model_events h s0 cs) = 0%N).
  { unfold monitor. subst h. cbn [model_header h_tbl h_avs h_nroles h_ids]. rewrite Htbl, Havs, Hin, Hroles.
    assert (O : obs0_ok (model_header cf n0 md props execs adm ids naddr nroles tags tbl avs s0) = true).
    { unfold obs0_ok.
      assert (EN : enum_ok (h_naddr (model_header cf n0 md props execs adm ids naddr nroles tags tbl avs s0))
                           (h_obs0 (model_header cf n0 md props execs adm ids naddr nroles tags tbl avs s0)) = true)
        by exact (enum_ok_model _ s0 ND UN).
      assert (M0 : mem0_ok (model_header cf n0 md props execs adm ids naddr nroles tags tbl avs s0) = true).
      { unfold mem0_ok. cbn [model_header h_obs0 h_props h_execs]. unfold observe_u; cbn [o_mem]. rewrite forallb_map.
        apply forallb_forall. intros r _. cbn [fst snd].
        rewrite (construct_members _ _ _ _ _ _ _ Hc r), !dedup_addm. apply list_eqb_refl, N.eqb_refl. }
      rewrite EN, M0.
      cbn [model_header h_obs0 h_now h_ids h_naddr h_nroles h_tags h_min h_admin h_cfg h_props h_execs].
      change (observe_u ids naddr nroles tags s0) with (observe (model_header cf n0 md props execs adm ids naddr nroles tags tbl avs s0) s0).
      rewrite (obs_coherent_model _ s0 [] Hg0).
      pose proof (obs_shape_model (model_header cf n0 md props execs adm ids naddr nroles tags tbl avs s0) s0) as SH.
      cbn [model_header h_ids h_naddr h_nroles h_tags] in SH. rewrite SH.
      match goal with |- context [forallb (in_upto naddr) ?l] =>
        replace (forallb (in_upto naddr) l) with true by (symmetry; exact Huniv) end.
      unfold observe, observe_u; cbn [o_now o_min o_admin o_radmin o_ops o_runs model_header h_ids h_tags h_naddr h_nroles].
      rewrite F1, F4, F5, Z.eqb_refl, oz_eqb_refl, on_eqb_refl. cbn [andb].
      rewrite !forallb_map. apply andb_true_iff. split; [apply andb_true_iff; split|]; apply forallb_forall; intros x _; cbn [snd].
      - unfold role_admin. rewrite F3. reflexivity.
      - unfold view, mark. cbn [v_ledger]. rewrite F6. reflexivity.
      - unfold crun_count. rewrite F7. reflexivity. }
    rewrite O. cbn [andb model_header h_cfg h_obs0 h_ids h_naddr h_nroles h_tags h_avs].
    change (observe_u ids naddr nroles tags s0) with (observe (model_header cf n0 md props execs adm ids naddr nroles tags tbl avs s0) s0).
    rewrite <- F2.
    apply (mon_from_model (model_header cf n0 md props execs adm ids naddr nroles tags tbl avs s0) Hroles cs s0 [] 0%N Hwf);
      [|exact ND|exact UN|exact Hg0].
    intros r ar. unfold role_admin. rewrite F3. discriminate. }
  rewrite D, M. reflexivity.
Qed.
